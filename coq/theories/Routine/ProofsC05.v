(* routine, C05: an instance whose context is live is the current instance of the current record, derives from
   the container's current context and carries the current state.  For every event list. *)
From Util Require Import Common.Base Common.ListLemmas Routine.Model Routine.Proofs.

Definition AllCanc (l : list inst) : Prop := forall i x, nth_error l i = Some x -> icanc x = true.

Definition C1 (s : st) : Prop :=
  forall i x, nth_error (insts s) i = Some x -> icanc x = false ->
    exists r, routine s = Some r /\ rctx (getr s r) = Some i /\ rcancel (getr s r) = Some i /\
              kctx s <> 0 /\ iroot x = kctx s /\ irec x = r /\ root_dead s (iroot x) = false.
Definition C2 (s : st) : Prop :=
  forall r, routine s = Some r -> is_nil (rerr (getr s r)) = false -> AllCanc (insts s).
Definition C3 (s : st) : Prop :=
  forall i x, nth_error (insts s) i = Some x -> irec x < length (recs s) /\ iarg x = rarg (getr s (irec x)).
Definition C4 (s : st) : Prop :=
  sv s = true -> forall r, routine s = Some r -> rarg (getr s r) = sval s /\ sval s <> 0%N.
Definition C5 (s : st) : Prop := forall i x, nth_error (insts s) i = Some x -> over x = true -> icanc x = true.
Definition C6 (s : st) : Prop := forall r, routine s = Some r -> r < length (recs s).

Definition InvC (s : st) : Prop := C1 s /\ C2 s /\ C3 s /\ C4 s /\ C5 s /\ C6 s.

Lemma AllCanc_C1 s : AllCanc (insts s) -> C1 s.
Proof. intros H i x Hx Hc. rewrite (H i x Hx) in Hc. discriminate. Qed.

(* ---- cancel_inst ---- *)
Lemma cancel_inst_nth s oi k y :
  nth_error (insts (cancel_inst s oi)) k = Some y ->
  exists x, nth_error (insts s) k = Some x /\ irec y = irec x /\ iarg y = iarg x /\ iroot y = iroot x /\ ipcv y = ipcv x /\
            (icanc x = true -> icanc y = true) /\ (oi = Some k -> icanc y = true) /\ (oi <> Some k -> y = x).
Proof.
  unfold cancel_inst. destruct oi as [i|].
  - destruct (nth_error (insts s) i) as [x|] eqn:Ex.
    + rewrite insts_seti. intros Hk. destruct (Nat.eq_dec k i) as [->|Hne].
      * rewrite nth_error_set_nth_same in Hk by (eapply nth_error_nth_len; eauto). inversion Hk; subst y.
        exists x. repeat split; auto. intros Hn. congruence.
      * rewrite nth_error_set_nth_other in Hk by exact Hne. exists y. repeat split; auto. intros Hn. inversion Hn. congruence.
    + intros Hk. exists y. repeat split; auto. intros Hn. inversion Hn; subst. congruence.
  - intros Hk. exists y. repeat split; auto. intros Hn. discriminate.
Qed.

(* cancelling the cancel target of the current record leaves no live instance *)
Lemma cancel_current_AllCanc s r :
  C1 s -> routine s = Some r -> AllCanc (insts (cancel_inst s (rcancel (getr s r)))).
Proof.
  intros H1 Hr k y Hk. destruct (cancel_inst_nth _ _ _ _ Hk) as [x [Hx [_ [_ [_ [_ [Hm [Hc _]]]]]]]].
  destruct (icanc x) eqn:Ec; [auto|].
  destruct (H1 k x Hx Ec) as [r' [R1 [_ [R3 _]]]]. rewrite Hr in R1. inversion R1; subst r'. auto.
Qed.

Lemma no_routine_AllCanc s : C1 s -> routine s = None -> AllCanc (insts s).
Proof.
  intros H1 Hr k x Hx. destruct (icanc x) eqn:Ec; [reflexivity|].
  destruct (H1 k x Hx Ec) as [r' [R1 _]]. congruence.
Qed.

(* ---- the remaining clauses are about records and plain data; a generic transfer lemma ---- *)
(* s' has the same instances up to more cancellation; records keep rfn/rarg; lengths of recs do not shrink *)
Definition same_insts_more_canc (l l' : list inst) : Prop :=
  length l' = length l /\
  forall k y, nth_error l' k = Some y -> exists x, nth_error l k = Some x /\ irec y = irec x /\ iarg y = iarg x /\
                                                   iroot y = iroot x /\ ipcv y = ipcv x /\ (icanc x = true -> icanc y = true).

Lemma smc_refl l : same_insts_more_canc l l.
Proof. split; [reflexivity|]. intros k y Hk. exists y. repeat split; auto. Qed.

Lemma smc_cancel s oi : same_insts_more_canc (insts s) (insts (cancel_inst s oi)).
Proof.
  split.
  - unfold cancel_inst. destruct oi as [i|]; [|reflexivity]. destruct (nth_error (insts s) i); [|reflexivity].
    rewrite insts_seti. apply length_set_nth.
  - intros k y Hk. destruct (cancel_inst_nth _ _ _ _ Hk) as [x [Hx [A [B [C [D [E _]]]]]]]. exists x. repeat split; auto.
Qed.

Lemma smc_AllCanc l l' : same_insts_more_canc l l' -> AllCanc l -> AllCanc l'.
Proof. intros [_ H] HA k y Hk. destruct (H k y Hk) as [x [Hx [_ [_ [_ [_ Hm]]]]]]. apply Hm. eapply HA; eauto. Qed.

Lemma smc_C5 s s' : same_insts_more_canc (insts s) (insts s') -> C5 s -> C5 s'.
Proof.
  intros [_ H] H5 k y Hk Ho. destruct (H k y Hk) as [x [Hx [_ [_ [_ [Hp Hm]]]]]]. apply Hm. eapply H5; eauto.
  unfold over in *. now rewrite <- Hp.
Qed.

(* records: every record of s is still there in s' with the same rfn / rarg *)
Definition recs_extend (l l' : list rec) : Prop :=
  length l <= length l' /\ forall q, q < length l -> rarg (nth q l' rec0) = rarg (nth q l rec0).

Lemma recs_extend_refl l : recs_extend l l. Proof. split; auto. Qed.
Lemma recs_extend_trans a b c : recs_extend a b -> recs_extend b c -> recs_extend a c.
Proof. intros [L1 H1] [L2 H2]. split; [lia|]. intros q Hq. rewrite H2 by lia. now apply H1. Qed.
Lemma recs_extend_set_nth l r x : rarg x = rarg (nth r l rec0) -> recs_extend l (set_nth l r x).
Proof.
  intros Hx. split; [now rewrite length_set_nth|]. intros q Hq. destruct (Nat.eq_dec q r) as [->|Hne].
  - rewrite nth_set_nth_same by exact Hq. exact Hx.
  - now rewrite nth_set_nth_other.
Qed.
Lemma recs_extend_app l x : recs_extend l (l ++ [x]).
Proof. split; [rewrite app_length; lia|]. intros q Hq. now rewrite app_nth1. Qed.

Lemma smc_C3 s s' :
  same_insts_more_canc (insts s) (insts s') -> recs_extend (recs s) (recs s') -> C3 s -> C3 s'.
Proof.
  intros [_ H] [L R] H3 k y Hk. destruct (H k y Hk) as [x [Hx [A [B _]]]]. destruct (H3 k x Hx) as [G1 G2].
  rewrite A, B. split; [lia|]. unfold getr in *. rewrite R by exact G1. exact G2.
Qed.

(* ---- stop_rec ---- *)
Lemma stop_rec_smc s r : same_insts_more_canc (insts s) (insts (stop_rec s r)).
Proof.
  unfold stop_rec. rewrite insts_setr.
  destruct (stop_timer_other (cancel_inst s (rcancel (getr s r))) (rretry (getr s r))) as [E1 _]. rewrite E1. apply smc_cancel.
Qed.

Lemma stop_rec_recs s r : recs_extend (recs s) (recs (stop_rec s r)).
Proof.
  unfold stop_rec. rewrite recs_setr.
  destruct (stop_timer_other (cancel_inst s (rcancel (getr s r))) (rretry (getr s r))) as [_ [_ [_ [E4 _]]]].
  destruct (cancel_inst_other s (rcancel (getr s r))) as [_ [_ [C5 _]]]. rewrite E4, C5.
  apply recs_extend_set_nth. reflexivity.
Qed.

Lemma stop_rec_AllCanc s r : C1 s -> routine s = Some r -> AllCanc (insts (stop_rec s r)).
Proof.
  intros H1 Hr. unfold stop_rec. rewrite insts_setr.
  destruct (stop_timer_other (cancel_inst s (rcancel (getr s r))) (rretry (getr s r))) as [E1 _]. rewrite E1.
  now apply cancel_current_AllCanc.
Qed.

(* the part of C1 that does not mention the container context *)
Definition C1w (s : st) : Prop :=
  forall i x, nth_error (insts s) i = Some x -> icanc x = false -> exists r, routine s = Some r /\ rcancel (getr s r) = Some i.
Lemma C1_C1w s : C1 s -> C1w s.
Proof. intros H i x Hx Hc. destruct (H i x Hx Hc) as [r [A [_ [B _]]]]. eauto. Qed.

Lemma cancel_current_AllCanc_w s r :
  C1w s -> routine s = Some r -> AllCanc (insts (cancel_inst s (rcancel (getr s r)))).
Proof.
  intros H1 Hr k y Hk. destruct (cancel_inst_nth _ _ _ _ Hk) as [x [Hx [_ [_ [_ [_ [Hm [Hc _]]]]]]]].
  destruct (icanc x) eqn:Ec; [auto|].
  destruct (H1 k x Hx Ec) as [r' [R1 R3]]. rewrite Hr in R1. inversion R1; subst r'. auto.
Qed.
Lemma stop_rec_AllCanc_w s r : C1w s -> routine s = Some r -> AllCanc (insts (stop_rec s r)).
Proof.
  intros H1 Hr. unfold stop_rec. rewrite insts_setr.
  destruct (stop_timer_other (cancel_inst s (rcancel (getr s r))) (rretry (getr s r))) as [E1 _]. rewrite E1.
  now apply cancel_current_AllCanc_w.
Qed.

(* transfer: a state with the same instances, all cancelled *)
Lemma InvC_transfer s s' :
  InvC s -> same_insts_more_canc (insts s) (insts s') -> AllCanc (insts s') -> recs_extend (recs s) (recs s') ->
  C4 s' -> C6 s' -> InvC s'.
Proof.
  intros [H1 [H2 [H3 [H4 [H5 H6]]]]] Hs Ha Hr G4 G6. split; [|split; [|split; [|split; [|split]]]].
  - now apply AllCanc_C1.
  - intros r _ _. exact Ha.
  - eapply smc_C3; eauto.
  - exact G4.
  - eapply smc_C5; eauto.
  - exact G6.
Qed.

(* a state that differs only in components the invariant does not read *)
Lemma InvC_ext s s' :
  insts s' = insts s -> routine s' = routine s -> recs s' = recs s -> kctx s' = kctx s -> sv s' = sv s -> sval s' = sval s ->
  dead s' = dead s -> InvC s -> InvC s'.
Proof.
  intros E1 E2 E3 E4 E5 E6 E7 [H1 [H2 [H3 [H4 [H5 H6]]]]].
  unfold InvC, C1, C2, C3, C4, C5, C6, getr, root_dead in *. rewrite E1, E2, E3, E4, E5, E6, E7. auto 10.
Qed.

(* ---- start_rec ---- *)
Definition spawn (s1 : st) (r ctx : nat) (w' : option nat) : st :=
  let n := length (insts s1) in
  let x1 := getr s1 r in
  let s2 := set_insts s1 (insts s1 ++ [{| irec := r; iwait := w'; ipcv := IGate0; icanc := root_dead s1 ctx; iexit := false;
                                          iarg := rarg x1; iroot := ctx |}]) in
  let s3 := set_lastexit s2 (Some n) in
  setr s3 r {| rfn := rfn x1; rarg := rarg x1; rctx := Some n; rcancel := Some n; rexit := Some n;
               rerr := ONil; rsucc := false; rexited := false; rretry := None |}.

Lemma start_rec_cases fx s r ctx w force :
  start_rec fx s r ctx w force = s \/
  exists w', start_rec fx s r ctx w force = spawn (stop_rec s r) r ctx w'.
Proof.
  unfold start_rec.
  destruct ((negb force && rsucc (getr s r)) || Nat.eqb (rfn (getr s r)) 0); [now left|].
  destruct (negb force && _ && negb (rexited (getr s r)) && ctx_live s (rctx (getr s r))); [now left|].
  right. eexists. reflexivity.
Qed.

Lemma nth_error_snoc {A} (l : list A) y i x :
  nth_error (l ++ [y]) i = Some x -> (i < length l /\ nth_error l i = Some x) \/ (i = length l /\ x = y).
Proof.
  intros H. destruct (Nat.lt_ge_cases i (length l)) as [Hl|Hl].
  - left. rewrite nth_error_app1 in H by exact Hl. auto.
  - right. rewrite nth_error_app2 in H by exact Hl. destruct (i - length l) as [|k] eqn:E; simpl in H.
    + inversion H. split; [lia | reflexivity].
    + destruct k; discriminate.
Qed.

Lemma spawn_InvC s1 r ctx w' :
  AllCanc (insts s1) -> C3 s1 -> C4 s1 -> C5 s1 -> C6 s1 -> routine s1 = Some r -> kctx s1 = ctx -> ctx <> 0 ->
  InvC (spawn s1 r ctx w').
Proof.
  intros Ha H3 H4 H5 H6 Hr Hk Hc.
  assert (Hrl : r < length (recs s1)) by (now apply H6).
  unfold spawn. set (n := length (insts s1)). set (x1 := getr s1 r).
  set (ni := {| irec := r; iwait := w'; ipcv := IGate0; icanc := root_dead s1 ctx; iexit := false; iarg := rarg x1; iroot := ctx |}).
  set (nr := {| rfn := rfn x1; rarg := rarg x1; rctx := Some n; rcancel := Some n; rexit := Some n;
                rerr := ONil; rsucc := false; rexited := false; rretry := None |}).
  set (s' := setr (set_lastexit (set_insts s1 (insts s1 ++ [ni])) (Some n)) r nr).
  assert (Ei : insts s' = insts s1 ++ [ni]) by reflexivity.
  assert (Er : routine s' = Some r) by exact Hr.
  assert (Eg : getr s' r = nr) by (unfold s'; rewrite getr_setr_same; [reflexivity | exact Hrl]).
  assert (Ek : kctx s' = ctx) by exact Hk.
  assert (Erecs : recs_extend (recs s1) (recs s')).
  { unfold s'. rewrite recs_setr. apply recs_extend_set_nth. reflexivity. }
  split; [|split; [|split; [|split; [|split]]]].
  - (* C1 *) intros i x Hx Hl. rewrite Ei in Hx. apply nth_error_snoc in Hx. destruct Hx as [[_ Hx] | [-> ->]].
    + rewrite (Ha i x Hx) in Hl. discriminate.
    + exists r. rewrite Eg, Ek. cbn [rctx rcancel nr ni iroot irec icanc] in *. repeat split; auto.
  - (* C2 *) intros q Hq Hn. rewrite Er in Hq. inversion Hq; subst q. rewrite Eg in Hn. discriminate.
  - (* C3 *) intros i x Hx. rewrite Ei in Hx. apply nth_error_snoc in Hx. destruct Hx as [[_ Hx] | [-> ->]].
    + destruct (H3 i x Hx) as [G1 G2]. destruct Erecs as [L R]. split; [lia|].
      unfold getr in *. rewrite R by exact G1. exact G2.
    + cbn [irec iarg ni]. split; [destruct Erecs; lia|]. rewrite Eg. reflexivity.
  - (* C4 *) intros Hsv q Hq. rewrite Er in Hq. inversion Hq; subst q. rewrite Eg. cbn [rarg nr].
    exact (H4 Hsv r Hr).
  - (* C5 *) intros i x Hx Ho. rewrite Ei in Hx. apply nth_error_snoc in Hx. destruct Hx as [[_ Hx] | [-> ->]].
    + eapply H5; eauto.
    + discriminate Ho.
  - (* C6 *) intros q Hq. rewrite Er in Hq. inversion Hq; subst q. destruct Erecs; lia.
Qed.

Lemma sv_cancel_inst s oi : sv (cancel_inst s oi) = sv s /\ sval (cancel_inst s oi) = sval s.
Proof. unfold cancel_inst. destruct oi as [i|]; [|auto]. destruct (nth_error (insts s) i); auto. Qed.
Lemma sv_stop_timer s ot : sv (stop_timer s ot) = sv s /\ sval (stop_timer s ot) = sval s.
Proof. unfold stop_timer. destruct ot as [t|]; [|auto]. destruct (nth_error (timers s) t) as [x|]; [|auto]. destruct (tst x); auto. Qed.
Lemma dead_stop_timer s ot : dead (stop_timer s ot) = dead s.
Proof. unfold stop_timer. destruct ot as [t|]; [|auto]. destruct (nth_error (timers s) t) as [x|]; [|auto]. destruct (tst x); auto. Qed.
Lemma dead_cancel_inst s oi : dead (cancel_inst s oi) = dead s.
Proof. unfold cancel_inst. destruct oi as [i|]; [|auto]. destruct (nth_error (insts s) i); auto. Qed.
Lemma dead_stop_rec s r : dead (stop_rec s r) = dead s.
Proof. unfold stop_rec. cbn [dead setr set_recs]. now rewrite dead_stop_timer, dead_cancel_inst. Qed.

Lemma sv_stop_rec s r : sv (stop_rec s r) = sv s /\ sval (stop_rec s r) = sval s.
Proof.
  unfold stop_rec. cbn [sv sval setr set_recs].
  destruct (sv_stop_timer (cancel_inst s (rcancel (getr s r))) (rretry (getr s r))) as [A B].
  destruct (sv_cancel_inst s (rcancel (getr s r))) as [C D]. split; congruence.
Qed.

Lemma stop_rec_C46 s r : C4 s -> C6 s -> C4 (stop_rec s r) /\ C6 (stop_rec s r).
Proof.
  intros H4 H6. pose proof (stop_rec_recs s r) as [L R]. pose proof (routine_stop_rec s r) as Er.
  split.
  - intros Hsv q Hq. rewrite Er in Hq. destruct (sv_stop_rec s r) as [A B]. rewrite A in Hsv. rewrite B.
    unfold getr. rewrite R by (now apply H6). exact (H4 Hsv q Hq).
  - intros q Hq. rewrite Er in Hq. specialize (H6 q Hq). lia.
Qed.

Lemma kctx_stop_rec s r : kctx (stop_rec s r) = kctx s.
Proof.
  unfold stop_rec. cbn [kctx setr set_recs].
  destruct (stop_timer_other (cancel_inst s (rcancel (getr s r))) (rretry (getr s r))) as [_ [_ [_ [_ E5]]]].
  destruct (cancel_inst_other s (rcancel (getr s r))) as [_ [_ [_ [C6 _]]]]. congruence.
Qed.

Lemma stop_rec_InvC s r : InvC s -> routine s = Some r -> InvC (stop_rec s r).
Proof.
  intros H Hr. pose proof H as [H1 [H2 [H3 [H4 [H5 H6]]]]].
  destruct (stop_rec_C46 s r H4 H6) as [G4 G6].
  eapply InvC_transfer; eauto using stop_rec_smc, stop_rec_recs, stop_rec_AllCanc.
Qed.

Lemma start_rec_InvC fx s r ctx w force :
  InvC s -> routine s = Some r -> kctx s = ctx -> ctx <> 0 -> InvC (start_rec fx s r ctx w force).
Proof.
  intros H Hr Hk Hc. destruct (start_rec_cases fx s r ctx w force) as [-> | [w' ->]]; [exact H|].
  pose proof (stop_rec_InvC s r H Hr) as [G1 [G2 [G3 [G4 [G5 G6]]]]].
  apply spawn_InvC; auto.
  - apply stop_rec_AllCanc; [apply H | exact Hr].
  - rewrite routine_stop_rec. exact Hr.
  - rewrite kctx_stop_rec. exact Hk.
Qed.

Lemma InvC_of_AllCanc s : AllCanc (insts s) -> C3 s -> C4 s -> C5 s -> C6 s -> InvC s.
Proof.
  intros Ha H3 H4 H5 H6. split; [|split; [|split; [|split; [|split]]]]; auto.
  - now apply AllCanc_C1.
  - intros r _ _. exact Ha.
Qed.

(* ---- SetContext ---- *)
Lemma set_context_InvC s c restart : InvC s -> InvC (fst (set_context repaired s c restart)).
Proof.
  intros H. pose proof H as [H1 [H2 [H3 [H4 [H5 H6]]]]]. unfold set_context.
  destruct (Nat.eqb (kctx s) c && negb restart) eqn:E0; [exact H|].
  change (routine (set_kctx s c)) with (routine s).
  destruct (routine s) as [r|] eqn:Er.
  - change (getr (set_kctx s c) r) with (getr s r).
    destruct (Nat.eqb_spec (kctx s) c) as [Ek|Ek]; cbn [andb].
    + (* same context *)
      assert (Hs1 : InvC (set_kctx s c)) by (apply (InvC_ext s); auto).
      destruct (is_nil (rerr (getr s r))) eqn:En; [exact Hs1|]. cbn [negb andb].
      destruct (negb restart && negb (Nat.eqb c 0)); [exact Hs1|]. cbn [fst].
      apply (InvC_ext (if (false || restart) && negb (Nat.eqb c 0)
                       then start_rec repaired (stop_rec (set_kctx s c) r) r c (rexit (getr (stop_rec (set_kctx s c) r) r)) false
                       else stop_rec (set_kctx s c) r)); auto.
      assert (Hs2 : InvC (stop_rec (set_kctx s c) r)) by (apply stop_rec_InvC; auto).
      destruct ((false || restart) && negb (Nat.eqb c 0)) eqn:Eg; [|exact Hs2].
      apply start_rec_InvC; auto.
      * rewrite routine_stop_rec. exact Er.
      * rewrite kctx_stop_rec. reflexivity.
      * apply andb_true_iff in Eg as [_ Eg]. apply negb_true_iff in Eg. now apply Nat.eqb_neq in Eg.
    + (* different context: every live instance is stopped *)
      destruct (negb (is_nil (rerr (getr s r))) && negb restart && negb (Nat.eqb c 0)) eqn:E4.
      * cbn [fst]. apply andb_true_iff in E4 as [E4 _]. apply andb_true_iff in E4 as [E4 _]. apply negb_true_iff in E4.
        apply (InvC_transfer s); auto using smc_refl, recs_extend_refl. exact (H2 r Er E4).
      * cbn [fst].
        assert (Hs2 : InvC (stop_rec (set_kctx s c) r)).
        { apply (InvC_transfer s); auto.
          - apply (stop_rec_smc (set_kctx s c) r).
          - apply stop_rec_AllCanc_w; [|exact Er]. exact (C1_C1w s H1).
          - apply (stop_rec_recs (set_kctx s c) r).
          - apply (stop_rec_C46 (set_kctx s c) r); auto.
          - apply (stop_rec_C46 (set_kctx s c) r); auto. }
        apply (InvC_ext (if (is_nil (rerr (getr s r)) || restart) && negb (Nat.eqb c 0)
                         then start_rec repaired (stop_rec (set_kctx s c) r) r c (rexit (getr (stop_rec (set_kctx s c) r) r)) false
                         else stop_rec (set_kctx s c) r)); auto.
        destruct ((is_nil (rerr (getr s r)) || restart) && negb (Nat.eqb c 0)) eqn:Eg; [|exact Hs2].
        apply start_rec_InvC; auto.
        -- rewrite routine_stop_rec. exact Er.
        -- rewrite kctx_stop_rec. reflexivity.
        -- apply andb_true_iff in Eg as [_ Eg]. apply negb_true_iff in Eg. now apply Nat.eqb_neq in Eg.
  - cbn [fst]. apply (InvC_transfer s); [exact H | apply smc_refl | exact (no_routine_AllCanc s H1 Er) | apply recs_extend_refl | exact H4 | exact H6].
Qed.

(* ---- setRoutineLocked ---- *)
Definition InvC' (s : st) : Prop := C1 s /\ C2 s /\ C3 s /\ C5 s /\ C6 s.
Lemma InvC_InvC' s : InvC s -> InvC' s.
Proof. intros [H1 [H2 [H3 [H4 [H5 H6]]]]]. exact (conj H1 (conj H2 (conj H3 (conj H5 H6)))). Qed.

(* detaching the current record: everything is cancelled afterwards *)
Lemma detach_facts s :
  InvC' s ->
  let ph := match routine s with
            | Some p =>
              let x := getr s p in
              let s' := cancel_inst s (rcancel x) in
              let s'' := setr s' p {| rfn := rfn x; rarg := rarg x; rctx := rctx x; rcancel := None; rexit := rexit x;
                                      rerr := rerr x; rsucc := rsucc x; rexited := rexited x; rretry := rretry x |} in
              (set_routine s'' None, rexit x, negb (Nat.eqb (kctx s) 0) && negb (rexited x))
            | None => (s, None, false)
            end in
  let s1 := fst (fst ph) in
  AllCanc (insts s1) /\ C3 s1 /\ C5 s1 /\ routine s1 = None /\ kctx s1 = kctx s /\ sv s1 = sv s /\ sval s1 = sval s.
Proof.
  intros [H1 [H2 [H3 [H5 H6]]]]. destruct (routine s) as [p|] eqn:Ep; cbn [fst snd].
  - set (x := getr s p). set (s' := cancel_inst s (rcancel x)).
    assert (Ha : AllCanc (insts s')) by (now apply cancel_current_AllCanc).
    assert (Hsm : same_insts_more_canc (insts s) (insts s')) by apply smc_cancel.
    destruct (cancel_inst_other s (rcancel x)) as [_ [_ [Cr [Ck _]]]].
    destruct (sv_cancel_inst s (rcancel x)) as [Csv Csval].
    split; [exact Ha|]. split; [|split; [|split; [|split; [|split]]]].
    + apply (smc_C3 s); [exact Hsm | | exact H3].
      cbn [recs set_routine]. rewrite recs_setr. unfold s'. rewrite Cr. apply recs_extend_set_nth. reflexivity.
    + apply (smc_C5 s); [exact Hsm | exact H5].
    + reflexivity.
    + exact Ck.
    + exact Csv.
    + exact Csval.
  - split; [now apply no_routine_AllCanc|]. exact (conj H3 (conj H5 (conj Ep (conj eq_refl (conj eq_refl eq_refl))))).
Qed.

(* forgetting a root context cancelled by its owner: no live instance derives from it *)
Lemma dead_root_AllCanc s : C1 s -> root_dead s (kctx s) = true -> AllCanc (insts s).
Proof.
  intros H1 Hd i x Hx. destruct (icanc x) eqn:Ec; [reflexivity|]. destruct (H1 i x Hx Ec) as (r & _ & _ & _ & _ & Er & _ & Hn).
  rewrite Er in Hn. congruence.
Qed.

Lemma InvC'_norm s : InvC' s -> InvC' (norm s).
Proof.
  intros H. unfold norm. destruct (root_dead s (kctx s)) eqn:Ed; [|exact H]. destruct H as [H1 [H2 [H3 [H5 H6]]]].
  split; [|split; [|split; [|split]]]; auto. apply AllCanc_C1. exact (dead_root_AllCanc s H1 Ed).
Qed.

Lemma InvC_norm s : InvC s -> InvC (norm s).
Proof.
  intros H. unfold norm. destruct (root_dead s (kctx s)) eqn:Ed; [|exact H]. destruct H as [H1 [H2 [H3 [H4 [H5 H6]]]]].
  split; [|split; [|split; [|split; [|split]]]]; auto. apply AllCanc_C1. exact (dead_root_AllCanc s H1 Ed).
Qed.

Lemma sv_norm s : sv (norm s) = sv s /\ sval (norm s) = sval s /\ sfn (norm s) = sfn s.
Proof. unfold norm. destruct (root_dead s (kctx s)); auto. Qed.

Lemma set_routine_locked_n_InvC s f arg :
  InvC' s -> (sv s = true -> f <> 0 -> arg = sval s /\ sval s <> 0%N) ->
  InvC (fst (set_routine_locked_n repaired s f arg)).
Proof.
  intros H Hf. pose proof (detach_facts s H) as D. unfold set_routine_locked_n.
  destruct (match routine s with Some p => _ | None => (s, None, false) end) as [[s1 prevExit] wasReset].
  cbn [fst snd] in D. destruct D as [Ha [H3 [H5 [Hr [Hk [Hsv Hsval]]]]]].
  destruct (Nat.eqb_spec f 0) as [Ef|Ef]; cbn [negb].
  - (* nil routine *)
    cbn [fst]. apply (InvC_ext s1); try (destruct wasReset; reflexivity).
    apply InvC_of_AllCanc; auto.
    + intros _ q Hq. congruence.
    + intros q Hq. congruence.
  - cbn [fst].
    set (x := {| rfn := f; rarg := arg; rctx := None; rcancel := None; rexit := None; rerr := ONil; rsucc := false; rexited := false; rretry := None |}).
    set (s3 := set_routine (set_recs s1 (recs s1 ++ [x])) (Some (length (recs s1)))).
    assert (G : InvC s3).
    { apply InvC_of_AllCanc.
      - exact Ha.
      - apply (smc_C3 s1); [apply smc_refl | apply recs_extend_app | exact H3].
      - intros Hv q Hq. inversion Hq; subst q. unfold getr. cbn [recs s3 set_routine set_recs].
        rewrite app_nth2 by lia. rewrite Nat.sub_diag. cbn [nth rarg x].
        change (sv s3) with (sv s1) in Hv. rewrite Hsv in Hv. change (sval s3) with (sval s1). rewrite Hsval. now apply Hf.
      - exact H5.
      - intros q Hq. inversion Hq; subst q. cbn [recs s3 set_routine set_recs]. rewrite app_length. cbn. lia. }
    apply (InvC_ext (if negb (Nat.eqb (kctx s3) 0) then start_rec repaired s3 (length (recs s1)) (kctx s3) prevExit false else s3)); auto.
    destruct (Nat.eqb_spec (kctx s3) 0) as [E0|E0]; cbn [negb]; [exact G|].
    apply start_rec_InvC; auto.
Qed.

Lemma set_routine_locked_InvC s f arg :
  InvC' s -> (sv s = true -> f <> 0 -> arg = sval s /\ sval s <> 0%N) ->
  InvC (fst (set_routine_locked repaired s f arg)).
Proof.
  intros H Hf. unfold set_routine_locked. apply set_routine_locked_n_InvC; [now apply InvC'_norm|].
  destruct (sv_norm s) as (A & B & _). now rewrite A, B.
Qed.

Lemma restart_routine_n_InvC s : InvC s -> InvC (fst (restart_routine_n repaired s)).
Proof.
  intros H. pose proof H as [H1 [H2 [H3 [H4 [H5 H6]]]]]. unfold restart_routine_n.
  destruct (routine s) as [r|] eqn:Er; [|exact H].
  set (x := getr s r). set (s1 := cancel_inst s (rcancel x)).
  assert (Ha : AllCanc (insts s1)) by (now apply cancel_current_AllCanc).
  destruct (cancel_inst_other s (rcancel x)) as [_ [Cro [Cr [Ck _]]]].
  destruct (sv_cancel_inst s (rcancel x)) as [Csv Csval].
  assert (Hrl : r < length (recs s)) by (now apply H6).
  set (x2 := {| rfn := rfn x; rarg := rarg x; rctx := rctx x; rcancel := None; rexit := rexit x;
                rerr := rerr x; rsucc := rsucc x; rexited := rexited x; rretry := rretry x |}).
  set (s2 := setr s1 r x2).
  assert (G2 : InvC s2).
  { apply InvC_of_AllCanc.
    - exact Ha.
    - apply (smc_C3 s); [apply smc_cancel | | exact H3]. unfold s2. rewrite recs_setr. unfold s1. rewrite Cr.
      apply recs_extend_set_nth. reflexivity.
    - intros Hv q Hq. change (routine s2) with (routine s1) in Hq. unfold s1 in Hq. rewrite Cro, Er in Hq. inversion Hq; subst q.
      unfold s2. rewrite getr_setr_same by (unfold s1; rewrite Cr; exact Hrl). cbn [rarg x2].
      change (sv s2) with (sv s1) in Hv. unfold s1 in Hv. rewrite Csv in Hv. change (sval (setr s1 r x2)) with (sval s1). unfold s1. rewrite Csval. exact (H4 Hv r Er).
    - apply (smc_C5 s); [apply smc_cancel | exact H5].
    - intros q Hq. change (routine s2) with (routine s1) in Hq. unfold s1 in Hq. rewrite Cro in Hq. unfold s2. rewrite recs_setr, length_set_nth. unfold s1. rewrite Cr. now apply H6. }
  destruct (Nat.eqb_spec (kctx s2) 0) as [E0|E0]; [exact G2|]. cbn [fst].
  set (y := getr s2 r).
  set (s3 := setr s2 r _).
  apply (InvC_ext (start_rec repaired s3 r (kctx s3) (rexit y) true)); auto.
  assert (Hrl2 : r < length (recs s2)) by (unfold s2; rewrite recs_setr, length_set_nth; unfold s1; rewrite Cr; exact Hrl).
  assert (G3 : InvC s3).
  { destruct G2 as [A1 [A2 [A3 [A4 [A5 A6]]]]]. apply InvC_of_AllCanc.
    - exact Ha.
    - apply (smc_C3 s2); [apply smc_refl | | exact A3]. unfold s3. rewrite recs_setr. apply recs_extend_set_nth. reflexivity.
    - intros Hv q Hq. change (routine s3) with (routine s2) in Hq. unfold s3.
      destruct (Nat.eq_dec q r) as [->|Hne].
      + rewrite getr_setr_same by exact Hrl2. cbn [rarg]. exact (A4 Hv r Hq).
      + rewrite getr_setr_other by exact Hne. exact (A4 Hv q Hq).
    - exact A5.
    - intros q Hq. change (routine s3) with (routine s2) in Hq. unfold s3. rewrite recs_setr, length_set_nth. now apply A6. }
  apply start_rec_InvC; auto.
  change (routine s3) with (routine s1). unfold s1. rewrite Cro. exact Er.
Qed.

Lemma restart_routine_InvC s : InvC s -> InvC (fst (restart_routine repaired s)).
Proof. intros H. unfold restart_routine. now apply restart_routine_n_InvC, InvC_norm. Qed.

Lemma update_sr_InvC s : InvC' s -> InvC (fst (update_sr repaired s)).
Proof.
  intros H. unfold update_sr.
  assert (G : InvC (fst (set_routine_locked repaired s (if negb (Nat.eqb (sfn s) 0) && negb (N.eqb (sval s) 0) then sfn s else 0) (sval s)))).
  { apply set_routine_locked_InvC; [exact H|]. intros _ Hf. split; [reflexivity|].
    destruct (negb (Nat.eqb (sfn s) 0) && negb (N.eqb (sval s) 0)) eqn:E; [|congruence].
    apply andb_true_iff in E as [_ E]. apply negb_true_iff in E. now apply N.eqb_neq in E. }
  destruct (set_routine_locked repaired s _ (sval s)) as [s1 [w reset]]. exact G.
Qed.

Lemma InvC'_ext s s' :
  insts s' = insts s -> routine s' = routine s -> recs s' = recs s -> kctx s' = kctx s -> dead s' = dead s -> InvC' s -> InvC' s'.
Proof.
  intros E1 E2 E3 E4 E5 [H1 [H2 [H3 [H5 H6]]]]. unfold InvC', C1, C2, C3, C5, C6, getr, root_dead in *. rewrite E1, E2, E3, E4, E5. auto 10.
Qed.

Lemma set_state_locked_InvC s v : InvC s -> InvC (fst (set_state_locked repaired s v)).
Proof.
  intros H. unfold set_state_locked. destruct (state_equal (scmp s) (sval s) v); [exact H|].
  assert (G : InvC (fst (update_sr repaired (set_sval s v)))).
  { apply update_sr_InvC. apply (InvC'_ext s); auto. now apply InvC_InvC'. }
  destruct (update_sr repaired (set_sval s v)) as [s1 [[w reset] running]]. cbn [fst] in *.
  apply (InvC_ext s1); auto.
Qed.

Lemma swap_value_InvC s g : InvC s -> InvC (fst (swap_value repaired s g)).
Proof.
  intros H. unfold swap_value.
  destruct (negb (N.eqb (if Nat.eqb g 0 then sval s else swap_fn g (sval s)) (sval s))); [|exact H].
  pose proof (set_state_locked_InvC s (if Nat.eqb g 0 then sval s else swap_fn g (sval s)) H) as G.
  destruct (set_state_locked repaired s _) as [s1 [[[w changed] reset] running]]. exact G.
Qed.

(* ---- instance steps ---- *)
Lemma InvC_seti s i x x' :
  InvC s -> nth_error (insts s) i = Some x ->
  irec x' = irec x -> iarg x' = iarg x -> iroot x' = iroot x -> (icanc x = true -> icanc x' = true) ->
  (over x' = true -> icanc x' = true) -> InvC (seti s i x').
Proof.
  intros [H1 [H2 [H3 [H4 [H5 H6]]]]] Hx Er Ea Eo Hm Ho.
  assert (Hil : i < length (insts s)) by (eapply nth_error_nth_len; eauto).
  assert (Hnth : forall k y, nth_error (insts (seti s i x')) k = Some y ->
                 (k = i /\ y = x') \/ (k <> i /\ nth_error (insts s) k = Some y)).
  { intros k y Hk. rewrite insts_seti in Hk. destruct (Nat.eq_dec k i) as [->|Hne].
    - rewrite nth_error_set_nth_same in Hk by exact Hil. inversion Hk. now left.
    - rewrite nth_error_set_nth_other in Hk by exact Hne. now right. }
  split; [|split; [|split; [|split; [|split]]]].
  - intros k y Hk Hl. destruct (Hnth k y Hk) as [[-> ->] | [_ Hy]].
    + destruct (icanc x) eqn:Ec; [rewrite (Hm eq_refl) in Hl; discriminate|].
      destruct (H1 i x Hx Ec) as [r R]. exists r. rewrite Eo, Er. exact R.
    + exact (H1 k y Hy Hl).
  - intros r Hr Hn k y Hk. destruct (Hnth k y Hk) as [[-> ->] | [_ Hy]].
    + apply Hm. exact (H2 r Hr Hn i x Hx).
    + exact (H2 r Hr Hn k y Hy).
  - intros k y Hk. destruct (Hnth k y Hk) as [[-> ->] | [_ Hy]].
    + rewrite Er, Ea. exact (H3 i x Hx).
    + exact (H3 k y Hy).
  - exact H4.
  - intros k y Hk Hov. destruct (Hnth k y Hk) as [[-> ->] | [_ Hy]]; [now apply Ho | exact (H5 k y Hy Hov)].
  - exact H6.
Qed.

Lemma proceed_InvC s i en : InvC s -> InvC (proceed repaired s i en).
Proof.
  intros H. unfold proceed. destruct (nth_error (insts s) i) as [x|] eqn:Ex; [|exact H].
  destruct (ipcv x) eqn:Ep; try exact H.
  destruct (iwait x).
  - destruct (pred_closed s x && icanc x); [destruct en|destruct (pred_closed s x); [|destruct (icanc x); cbn [fx_wait repaired]]];
      eapply InvC_seti; eauto; cbn; auto; discriminate.
  - destruct (icanc x); eapply InvC_seti; eauto; cbn; auto; discriminate.
Qed.

Lemma wake_InvC s i en : InvC s -> InvC (wake repaired s i en).
Proof.
  intros H. unfold wake. destruct (nth_error (insts s) i) as [x|] eqn:Ex; [|exact H].
  destruct (ipcv x) eqn:Ep; try exact H.
  - destruct (pred_closed s x && icanc x); [destruct en|destruct (pred_closed s x); [|destruct (icanc x); cbn [fx_wait repaired]]];
      try exact H; eapply InvC_seti; eauto; cbn; auto; discriminate.
  - destruct (pred_closed s x); [|exact H]. eapply InvC_seti; eauto; cbn; auto.
Qed.

Lemma fn_return_InvC s i o : InvC s -> InvC (fn_return s i o).
Proof.
  intros H. unfold fn_return. destruct (nth_error (insts s) i) as [x|] eqn:Ex; [|exact H].
  destruct (ipcv x); try exact H. eapply InvC_seti; eauto; cbn; auto.
Qed.

(* ---- bookkeeping ---- *)
Lemma InvC_setr_keep s r x' :
  InvC s -> r < length (recs s) ->
  rarg x' = rarg (getr s r) -> rctx x' = rctx (getr s r) -> rcancel x' = rcancel (getr s r) ->
  (routine s = Some r -> is_nil (rerr x') = false -> AllCanc (insts s)) ->
  InvC (setr s r x').
Proof.
  intros [H1 [H2 [H3 [H4 [H5 H6]]]]] Hrl Ea Ec Ek Hall.
  assert (Hg : forall q, getr (setr s r x') q = if Nat.eqb q r then x' else getr s q).
  { intros q. destruct (Nat.eqb_spec q r) as [->|Hne]; [now apply getr_setr_same | now apply getr_setr_other]. }
  split; [|split; [|split; [|split; [|split]]]].
  - intros i x Hx Hl. destruct (H1 i x Hx Hl) as [q [R1 [R2 [R3 R4]]]]. exists q.
    rewrite Hg. destruct (Nat.eqb_spec q r) as [->|Hne]; [rewrite Ec, Ek|]; auto.
  - intros q Hq Hn. rewrite Hg in Hn. destruct (Nat.eqb_spec q r) as [->|Hne]; [now apply Hall | exact (H2 q Hq Hn)].
  - intros i x Hx. destruct (H3 i x Hx) as [G1 G2]. rewrite recs_setr, length_set_nth. split; [exact G1|].
    rewrite Hg. destruct (Nat.eqb_spec (irec x) r) as [E|Hne]; [rewrite Ea, <- E|]; exact G2.
  - intros Hv q Hq. rewrite Hg. destruct (Nat.eqb_spec q r) as [E|Hne]; [subst q; rewrite Ea; exact (H4 Hv r Hq) | exact (H4 Hv q Hq)].
  - exact H5.
  - intros q Hq. rewrite recs_setr, length_set_nth. now apply H6.
Qed.

Lemma bookkeep_InvC s i : InvC s -> InvC (bookkeep s i).
Proof.
  intros H. unfold bookkeep. destruct (nth_error (insts s) i) as [x|] eqn:Ex; [|exact H].
  destruct (ipcv x) eqn:Ep; try exact H.
  pose proof H as [H1 [H2 [H3 [H4 [H5 H6]]]]].
  assert (Hcx : icanc x = true) by (apply (H5 i x Ex); unfold over; now rewrite Ep).
  assert (H0 : InvC (seti s i (with_pc x IDone))) by (eapply InvC_seti; eauto; cbn; auto).
  set (s0 := seti s i (with_pc x IDone)) in *.
  destruct (rctx (getr s (irec x))) as [j|] eqn:Ej; [|exact H0].
  destruct (Nat.eqb_spec j i) as [->|]; [|exact H0].
  destruct (H3 i x Ex) as [Hrl _].
  (* no instance is live once the current instance of the current record is being recorded *)
  assert (Hall : forall S, insts S = insts s0 -> routine S = routine s -> routine S = Some (irec x) -> AllCanc (insts S)).
  { intros S E1 E2 Hr k y Hk. rewrite E1 in Hk. destruct (icanc y) eqn:Ec; [reflexivity|]. exfalso.
    unfold s0 in Hk. rewrite insts_seti in Hk. destruct (Nat.eq_dec k i) as [->|Hne].
    - rewrite nth_error_set_nth_same in Hk by (eapply nth_error_nth_len; eauto). inversion Hk; subst y. cbn in Ec. congruence.
    - rewrite nth_error_set_nth_other in Hk by exact Hne. destruct (H1 k y Hk Ec) as [q [R1 [R2 _]]].
      rewrite <- E2, Hr in R1. inversion R1; subst q. rewrite Ej in R2. inversion R2. congruence. }
  assert (Hext : forall S, insts S = insts s0 -> routine S = routine s0 -> recs S = recs s0 -> kctx S = kctx s0 ->
                           sv S = sv s0 -> sval S = sval s0 -> dead S = dead s0 -> forall x',
                 rarg x' = rarg (getr s (irec x)) -> rctx x' = rctx (getr s (irec x)) -> rcancel x' = rcancel (getr s (irec x)) ->
                 InvC (do_bcast (set_cblog (setr S (irec x) x') (cblog (setr S (irec x) x') ++ repeat o (ncb (setr S (irec x) x')))))).
  { intros S E1 E2 E3 E4 E5 E6 E7 x' A1 A2 A3. apply (InvC_ext (setr S (irec x) x')); auto.
    assert (HS : InvC S) by (apply (InvC_ext s0); auto).
    apply (InvC_setr_keep S (irec x) x' HS).
    - rewrite E3. exact Hrl.
    - unfold getr. rewrite E3. exact A1.
    - unfold getr. rewrite E3. exact A2.
    - unfold getr. rewrite E3. exact A3.
    - intros Hr _. apply Hall; [exact E1 | exact E2 | exact Hr]. }
  destruct (stop_timer_other s0 (rretry (getr s (irec x)))) as [T1 [T2 [T3 [T4 T5]]]].
  destruct (sv_stop_timer s0 (rretry (getr s (irec x)))) as [T6 T7].
  pose proof (dead_stop_timer s0 (rretry (getr s (irec x)))) as T8.
  destruct (bo s0) as [[l k]|].
  - destruct (is_nil o).
    + apply (Hext (set_bo (stop_timer s0 (rretry (getr s (irec x)))) (Some (l, 0)))); auto.
    + destruct (match routine (stop_timer s0 (rretry (getr s (irec x)))) with Some r' => Nat.eqb r' (irec x) | None => false end).
      * destruct (nth_error l k).
        -- apply (Hext (set_timers (set_bo (stop_timer s0 (rretry (getr s (irec x)))) (Some (l, S k))) _)); auto.
        -- apply (Hext (set_bo (stop_timer s0 (rretry (getr s (irec x)))) (Some (l, S k)))); auto.
      * apply (Hext (stop_timer s0 (rretry (getr s (irec x))))); auto.
  - apply (Hext s0); auto.
Qed.

Lemma timer_cb_InvC s t : InvC s -> InvC (timer_cb repaired s t).
Proof.
  intros H. unfold timer_cb. destruct (nth_error (timers s) t) as [x|]; [|exact H].
  destruct (tst x); try exact H.
  set (s1 := set_timers s _).
  assert (H1 : InvC s1) by (apply (InvC_ext s); auto).
  apply (InvC_ext (if (if fx_timer repaired then match rretry (getr s1 (trec x)) with Some t' => Nat.eqb t' t | None => false end else true)
                        && negb (Nat.eqb (kctx s1) 0) && match routine s1 with Some r' => Nat.eqb r' (trec x) | None => false end
                        && rexited (getr s1 (trec x))
                     then start_rec repaired s1 (trec x) (kctx s1) (rexit (getr s1 (trec x))) true else s1)); auto.
  destruct (if fx_timer repaired then _ else true); cbn [andb]; [|exact H1].
  destruct (Nat.eqb_spec (kctx s1) 0) as [E0|E0]; cbn [negb andb]; [exact H1|].
  destruct (routine s1) as [r'|] eqn:Er; [|exact H1].
  destruct (Nat.eqb_spec r' (trec x)) as [->|]; cbn [andb]; [|exact H1].
  destruct (rexited (getr s1 (trec x))); [|exact H1].
  apply start_rec_InvC; auto.
Qed.

(* the owner cancels root context c: every instance deriving from it is cancelled with it *)
Lemma root_dead_cancel_root s c k : root_dead (cancel_root s c) k = Nat.eqb k c || root_dead s k.
Proof. reflexivity. Qed.

Lemma cancel_root_nth s c k y : nth_error (insts (cancel_root s c)) k = Some y ->
  exists x, nth_error (insts s) k = Some x /\ irec y = irec x /\ iarg y = iarg x /\ iroot y = iroot x /\ ipcv y = ipcv x /\
            (icanc x = true -> icanc y = true) /\ (icanc y = false -> y = x /\ iroot x <> c).
Proof.
  unfold cancel_root. cbn [insts set_insts]. rewrite nth_error_map. destruct (nth_error (insts s) k) as [x|]; [|discriminate].
  cbn [option_map]. intros E. inversion E; subst y. exists x. split; [reflexivity|].
  destruct (Nat.eqb_spec (iroot x) c) as [Ec|Ec]; cbn; repeat split; auto; try discriminate.
Qed.

Lemma cancel_root_smc s c : same_insts_more_canc (insts s) (insts (cancel_root s c)).
Proof.
  split; [unfold cancel_root; cbn [insts set_insts]; apply map_length|].
  intros k y Hy. destruct (cancel_root_nth s c k y Hy) as (x & Hx & A & B & C & D & E & _). exists x. auto 10.
Qed.

Lemma cancel_root_InvC s c : InvC s -> InvC (cancel_root s c).
Proof.
  intros [H1 [H2 [H3 [H4 [H5 H6]]]]]. split; [|split; [|split; [|split; [|split]]]].
  - intros k y Hy Hl. destruct (cancel_root_nth s c k y Hy) as (x & Hx & _ & _ & _ & _ & _ & Hk). destruct (Hk Hl) as [-> Hne].
    destruct (H1 k x Hx Hl) as (r & R1 & R2 & R3 & R4 & R5 & R6 & R7). exists r. repeat split; auto.
    rewrite root_dead_cancel_root, R7. destruct (Nat.eqb_spec (iroot x) c); [contradiction | reflexivity].
  - intros r Hr Hn. eapply smc_AllCanc; [apply cancel_root_smc|]. exact (H2 r Hr Hn).
  - apply (smc_C3 s); [apply cancel_root_smc | apply recs_extend_refl | exact H3].
  - exact H4.
  - apply (smc_C5 s); [apply cancel_root_smc | exact H5].
  - exact H6.
Qed.

Lemma step_InvC s e : InvC s -> InvC (step repaired s e).
Proof.
  intros H. destruct e; cbn [step].
  - now apply set_context_InvC.
  - destruct (sv s) eqn:Ev; [exact H|]. apply set_routine_locked_InvC; [now apply InvC_InvC'|]. intros Hv. congruence.
  - now apply restart_routine_InvC.
  - destruct (sv s); [now apply set_state_locked_InvC | exact H].
  - destruct (sv s); [now apply swap_value_InvC | exact H].
  - destruct (sv s); [|exact H]. apply update_sr_InvC. apply (InvC'_ext s); auto. now apply InvC_InvC'.
  - now apply proceed_InvC.
  - now apply wake_InvC.
  - now apply fn_return_InvC.
  - now apply bookkeep_InvC.
  - apply (InvC_ext s); auto.
  - now apply timer_cb_InvC.
  - apply (InvC_ext s); auto.
  - unfold wait_section. destruct (nth_error (waiters s) a) as [w|]; [|exact H].
    destruct (wpcv w); try exact H. pose proof (InvC_norm s H) as Hn. unfold wait_sect_at. destruct (getch (b (norm s))) as [b' ch].
    destruct (match routine (norm s) with Some r => _ | None => _ end); [|destruct (wcanc w)]; apply (InvC_ext (norm s)); auto.
  - unfold wait_wake. destruct (nth_error (waiters s) a) as [w|]; [|exact H]. destruct (wpcv w); try exact H.
    destruct (closed (b s) ch); [apply (InvC_ext s); auto | exact H].
  - unfold wait_cancel. destruct (nth_error (waiters s) a) as [w|]; [|exact H].
    destruct (wpcv w); try exact H; apply (InvC_ext s); auto.
  - unfold wait_errch. destruct (nth_error (waiters s) a) as [w|]; [|exact H].
    destruct (wpcv w); try exact H; apply (InvC_ext s); auto.
  - now apply cancel_root_InvC.
Qed.

Lemma init_InvC v c n sc : InvC (init v c n sc).
Proof.
  split; [|split; [|split; [|split; [|split]]]]; intros ? ; cbn; intros; try discriminate;
    try (match goal with H : nth_error [] ?i = Some _ |- _ => destruct i; discriminate end).
Qed.

Theorem run_InvC v c n sc es : InvC (run repaired (init v c n sc) es).
Proof. unfold run. apply fold_inv; [intros s e; apply step_InvC | apply init_InvC]. Qed.

(* ---- C05 ---- *)
Theorem live_instance_is_current v c n sc es i x :
  let s := run repaired (init v c n sc) es in
  nth_error (insts s) i = Some x -> icanc x = false ->
  exists r, routine s = Some r /\ rctx (getr s r) = Some i /\ irec x = r /\
            kctx s <> 0 /\ iroot x = kctx s /\
            (sv s = true -> iarg x = sval s /\ sval s <> 0%N).
Proof.
  intros s Hx Hl. destruct (run_InvC v c n sc es) as [H1 [_ [H3 [H4 _]]]]. fold s in H1, H3, H4.
  destruct (H1 i x Hx Hl) as [r [R1 [R2 [R3 [R4 [R5 [R6 R7]]]]]]]. exists r. repeat split; auto.
  - destruct (H3 i x Hx) as [_ G]. rewrite G, R6. exact (proj1 (H4 H r R1)).
  - exact (proj2 (H4 H r R1)).
Qed.

(* the root context a live instance derives from has not been cancelled by its owner *)
Theorem live_instance_root_alive v c n sc es i x :
  let s := run repaired (init v c n sc) es in
  nth_error (insts s) i = Some x -> icanc x = false -> root_dead s (iroot x) = false /\ root_dead s (kctx s) = false.
Proof.
  intros s Hx Hl. destruct (run_InvC v c n sc es) as [H1 _]. fold s in H1.
  destruct (H1 i x Hx Hl) as [r [_ [_ [_ [_ [R5 [_ R7]]]]]]]. split; [exact R7 | now rewrite <- R5].
Qed.

Theorem at_most_one_live v c n sc es : cnt live (insts (run repaired (init v c n sc) es)) <= 1.
Proof.
  apply at_most_one_by_order. intros i j x y Hij Hx Hy Px Py.
  unfold live in *. apply negb_true_iff in Px, Py.
  destruct (live_instance_is_current v c n sc es i x Hx Px) as [r [R1 [R2 _]]].
  destruct (live_instance_is_current v c n sc es j y Hy Py) as [r' [R1' [R2' _]]].
  rewrite R1 in R1'. inversion R1'; subst r'. rewrite R2 in R2'. inversion R2'. lia.
Qed.

(* whatever a call superseded is cancelled when the call returns: in every reachable state every instance
   other than the current one of the current record has a cancelled context *)
Theorem superseded_is_cancelled v c n sc es i x :
  let s := run repaired (init v c n sc) es in
  nth_error (insts s) i = Some x ->
  (forall r, routine s = Some r -> rctx (getr s r) <> Some i) -> icanc x = true.
Proof.
  intros s Hx Hn. destruct (icanc x) eqn:Ec; [reflexivity|]. exfalso.
  destruct (live_instance_is_current v c n sc es i x Hx Ec) as [r [R1 [R2 _]]]. exact (Hn r R1 R2).
Qed.

(* no live instance without context, routine and (state variant) non-empty state *)
Theorem live_needs_context_routine_state v c n sc es :
  let s := run repaired (init v c n sc) es in
  (kctx s = 0 \/ routine s = None \/ (sv s = true /\ sval s = 0%N)) -> AllCanc (insts s).
Proof.
  intros s Hc i x Hx. destruct (icanc x) eqn:Ec; [reflexivity|]. exfalso.
  destruct (live_instance_is_current v c n sc es i x Hx Ec) as [r [R1 [_ [_ [R4 [_ R6]]]]]].
  destruct Hc as [Hc | [Hc | [Hv Hc]]]; [exact (R4 Hc) | unfold s in Hc; rewrite Hc in R1; discriminate | exact (proj2 (R6 Hv) Hc)].
Qed.
