(* routine: two-state summaries of the model's operations and the further invariants (for every event list) that the
   proof of model_satisfies_monitors (ProofsMon.v) needs: the current record's instance is the newest one, no current
   instance without a container context, a pending retry belongs to an exited record with an error and to a timer of
   that record, armed timers lie in the future, the state container has a routine exactly when it has a function and
   a non-empty state. *)
From Util Require Import Common.Base Common.ListLemmas Routine.Model Routine.Proofs Routine.ProofsC05 Routine.ProofsC14 Routine.ProofsC14b.

(* ------------------------------------------------------------------ *)
(* frames *)
Definition same_aux (s s' : st) : Prop :=
  sv s' = sv s /\ ncb s' = ncb s /\ scmp s' = scmp s /\ bo s' = bo s /\ clock s' = clock s /\ cblog s' = cblog s /\
  waiters s' = waiters s /\ sfn s' = sfn s /\ sval s' = sval s /\ dead s' = dead s.

Definition tm_api (l l' : list timer) : Prop :=
  length l' = length l /\
  forall t x', nth_error l' t = Some x' -> exists x, nth_error l t = Some x /\ trec x' = trec x /\ tdead x' = tdead x /\
    (x' = x \/ (tst x = TArmed /\ tst x' = TStopped) \/ (tst x = TFired /\ tst x' = TRan)).

Definition inst_keep (l l' : list inst) : Prop :=
  forall i x, nth_error l i = Some x -> exists x', nth_error l' i = Some x' /\ ipcv x' = ipcv x /\ irec x' = irec x /\
    iarg x' = iarg x /\ iroot x' = iroot x /\ (icanc x = true -> icanc x' = true).

Definition fr (s s' : st) : Prop :=
  same_aux s s' /\ tm_api (timers s) (timers s') /\ inst_keep (insts s) (insts s') /\ length (insts s) <= length (insts s').

Lemma same_aux_refl s : same_aux s s. Proof. repeat split. Qed.
Lemma same_aux_trans a b c : same_aux a b -> same_aux b c -> same_aux a c.
Proof.
  unfold same_aux. intros (A1 & A2 & A3 & A4 & A5 & A6 & A7 & A8 & A9 & A10) (B1 & B2 & B3 & B4 & B5 & B6 & B7 & B8 & B9 & B10).
  repeat split; congruence.
Qed.

Lemma tm_api_refl l : tm_api l l.
Proof. split; [reflexivity|]. intros t x H. exists x. auto. Qed.
Lemma tm_api_trans a b c : tm_api a b -> tm_api b c -> tm_api a c.
Proof.
  intros [L1 H1] [L2 H2]. split; [congruence|]. intros t z Hz.
  destruct (H2 t z Hz) as (y & Hy & R1 & D1 & C1). destruct (H1 t y Hy) as (x & Hx & R2 & D2 & C2).
  exists x. split; [exact Hx|]. split; [congruence|]. split; [congruence|].
  destruct C1 as [->|[[A B]|[A B]]]; [exact C2| |].
  - destruct C2 as [->|[[A' B']|[A' B']]]; [auto | congruence | congruence].
  - destruct C2 as [->|[[A' B']|[A' B']]]; [auto | congruence | congruence].
Qed.

Lemma inst_keep_refl l : inst_keep l l.
Proof. intros i x H. exists x. auto 10. Qed.
Lemma inst_keep_trans a b c : inst_keep a b -> inst_keep b c -> inst_keep a c.
Proof.
  intros H1 H2 i x Hx. destruct (H1 i x Hx) as (y & Hy & A1 & A2 & A3 & A4 & A5).
  destruct (H2 i y Hy) as (z & Hz & B1 & B2 & B3 & B4 & B5). exists z. repeat split; try congruence. auto.
Qed.

Lemma fr_refl s : fr s s.
Proof. split; [apply same_aux_refl|]. split; [apply tm_api_refl|]. split; [apply inst_keep_refl | lia]. Qed.
Lemma fr_trans a b c : fr a b -> fr b c -> fr a c.
Proof.
  intros (A1 & A2 & A3 & A4) (B1 & B2 & B3 & B4).
  split; [eapply same_aux_trans; eauto|]. split; [eapply tm_api_trans; eauto|]. split; [eapply inst_keep_trans; eauto | lia].
Qed.

(* a state that differs only in components the frame does not read *)
Lemma fr_ext s s' : same_aux s s' -> timers s' = timers s -> insts s' = insts s -> fr s s'.
Proof.
  intros A T I. split; [exact A|]. rewrite T, I. split; [apply tm_api_refl|]. split; [apply inst_keep_refl | lia].
Qed.

Lemma fr_cancel_inst s oi : fr s (cancel_inst s oi).
Proof.
  unfold cancel_inst. destruct oi as [i|]; [|apply fr_refl]. destruct (nth_error (insts s) i) as [x|] eqn:Ex; [|apply fr_refl].
  split; [repeat split|]. split; [apply tm_api_refl|]. rewrite insts_seti. split; [|rewrite length_set_nth; lia].
  intros k y Hy. destruct (Nat.eq_dec k i) as [->|Hne].
  - rewrite nth_error_set_nth_same by (eapply nth_error_nth_len; eauto). assert (y = x) by congruence. subst y.
    eexists. split; [reflexivity|]. cbn. auto 10.
  - rewrite nth_error_set_nth_other by exact Hne. exists y. auto 10.
Qed.

Lemma fr_stop_timer s ot : fr s (stop_timer s ot).
Proof.
  unfold stop_timer. destruct ot as [t|]; [|apply fr_refl]. destruct (nth_error (timers s) t) as [x|] eqn:Ex; [|apply fr_refl].
  destruct (tst x) eqn:Et; try apply fr_refl.
  split; [repeat split|]. split; [|split; [apply inst_keep_refl | cbn; lia]].
  cbn [timers set_timers]. split; [apply length_set_nth|]. intros k y Hy. destruct (Nat.eq_dec k t) as [->|Hne].
  - rewrite nth_error_set_nth_same in Hy by (eapply nth_error_nth_len; eauto). inversion Hy; subst y. exists x. cbn. auto 10.
  - rewrite nth_error_set_nth_other in Hy by exact Hne. exists y. auto 10.
Qed.

Lemma fr_setr s r x : fr s (setr s r x). Proof. apply fr_ext; [repeat split | reflexivity | reflexivity]. Qed.
Lemma fr_do_bcast s : fr s (do_bcast s). Proof. apply fr_ext; [repeat split | reflexivity | reflexivity]. Qed.
Lemma fr_set_kctx s c : fr s (set_kctx s c). Proof. apply fr_ext; [repeat split | reflexivity | reflexivity]. Qed.
Lemma fr_set_routine s c : fr s (set_routine s c). Proof. apply fr_ext; [repeat split | reflexivity | reflexivity]. Qed.
Lemma fr_set_recs s c : fr s (set_recs s c). Proof. apply fr_ext; [repeat split | reflexivity | reflexivity]. Qed.

Lemma fr_stop_rec s r : fr s (stop_rec s r).
Proof.
  unfold stop_rec. eapply fr_trans; [apply fr_cancel_inst|]. eapply fr_trans; [apply fr_stop_timer|]. apply fr_setr.
Qed.

Lemma fr_spawn s1 r ctx w' : fr s1 (spawn s1 r ctx w').
Proof.
  unfold spawn. split; [repeat split|]. split; [apply tm_api_refl|]. cbn [insts setr set_recs set_lastexit set_insts].
  split; [|rewrite app_length; lia]. intros i x Hx. exists x. split; [|auto 10].
  rewrite nth_error_app1; [exact Hx | eapply nth_error_nth_len; eauto].
Qed.

Lemma fr_start_rec fx s r ctx w force : fr s (start_rec fx s r ctx w force).
Proof.
  destruct (start_rec_cases fx s r ctx w force) as [-> | [w' ->]]; [apply fr_refl|].
  eapply fr_trans; [apply fr_stop_rec | apply fr_spawn].
Qed.

Lemma fr_set_context s c restart : fr s (fst (set_context repaired s c restart)).
Proof.
  unfold set_context. destruct (_ && negb restart); [apply fr_refl|].
  change (routine (set_kctx s c)) with (routine s). destruct (routine s) as [r|]; [|apply fr_set_kctx].
  destruct (_ && is_nil _); [apply fr_set_kctx|]. destruct (_ && _ && _); [apply fr_set_kctx|]. cbn [fst].
  eapply fr_trans; [apply fr_set_kctx|]. eapply fr_trans; [apply fr_stop_rec|].
  destruct (_ && negb (Nat.eqb c 0)); [eapply fr_trans; [apply fr_start_rec | apply fr_do_bcast] | apply fr_do_bcast].
Qed.

Lemma fr_norm s : fr s (norm s).
Proof. unfold norm. destruct (root_dead s (kctx s)); [apply fr_set_kctx | apply fr_refl]. Qed.

(* a WaitExited section changes only its waiter, the broadcast, and forgets a cancelled root context *)
Lemma wait_section_frame s a :
  let s' := wait_section s a in
  recs s' = recs s /\ timers s' = timers s /\ routine s' = routine s /\ insts s' = insts s /\ bo s' = bo s /\ cblog s' = cblog s /\
  sv s' = sv s /\ sfn s' = sfn s /\ sval s' = sval s /\ ncb s' = ncb s /\ clock s' = clock s /\ dead s' = dead s /\
  (kctx s' = kctx s \/ (kctx s' = 0 /\ root_dead s (kctx s) = true)).
Proof.
  unfold wait_section. destruct (nth_error (waiters s) a) as [w|]; [|repeat split; auto]. destruct (wpcv w); try (repeat split; auto; fail).
  assert (G : forall S, let S' := wait_sect_at S a w in
              recs S' = recs S /\ timers S' = timers S /\ routine S' = routine S /\ insts S' = insts S /\ bo S' = bo S /\ cblog S' = cblog S /\
              sv S' = sv S /\ sfn S' = sfn S /\ sval S' = sval S /\ ncb S' = ncb S /\ clock S' = clock S /\ dead S' = dead S /\ kctx S' = kctx S).
  { intros S. unfold wait_sect_at. destruct (getch (b S)) as [b' ch].
    destruct (match routine S with Some r => _ | None => _ end); [|destruct (wcanc w)]; repeat split; auto. }
  destruct (G (norm s)) as (A1 & A2 & A3 & A4 & A5 & A6 & A7 & A8 & A9 & A10 & A11 & A12 & A13). cbv zeta.
  rewrite A1, A2, A3, A4, A5, A6, A7, A8, A9, A10, A11, A12, A13. unfold norm. destruct (root_dead s (kctx s)) eqn:Ed; repeat split; auto.
Qed.

Lemma fr_set_routine_locked_n s f arg : fr s (fst (set_routine_locked_n repaired s f arg)).
Proof.
  unfold set_routine_locked_n.
  set (ph := match routine s with Some p => _ | None => (s, None, false) end).
  assert (Hph : fr s (fst (fst ph))).
  { unfold ph. destruct (routine s) as [p|]; [|apply fr_refl]. cbn [fst].
    eapply fr_trans; [apply fr_cancel_inst|]. eapply fr_trans; [apply fr_setr | apply fr_set_routine]. }
  destruct ph as [[s1 prevExit] wasReset]. cbn [fst] in Hph.
  destruct (negb (Nat.eqb f 0)); cbn [fst].
  - eapply fr_trans; [exact Hph|]. eapply fr_trans; [apply fr_set_recs|]. eapply fr_trans; [apply fr_set_routine|].
    destruct (negb (Nat.eqb _ 0)); [eapply fr_trans; [apply fr_start_rec | apply fr_do_bcast] | apply fr_do_bcast].
  - destruct wasReset; [eapply fr_trans; [exact Hph | apply fr_do_bcast] | exact Hph].
Qed.

Lemma fr_set_routine_locked s f arg : fr s (fst (set_routine_locked repaired s f arg)).
Proof. unfold set_routine_locked. eapply fr_trans; [apply fr_norm | apply fr_set_routine_locked_n]. Qed.

Lemma fr_restart_routine_n s : fr s (fst (restart_routine_n repaired s)).
Proof.
  unfold restart_routine_n. destruct (routine s) as [r|]; [|apply fr_refl].
  destruct (Nat.eqb _ 0); cbn [fst].
  - eapply fr_trans; [apply fr_cancel_inst | apply fr_setr].
  - eapply fr_trans; [apply fr_cancel_inst|]. eapply fr_trans; [apply fr_setr|]. eapply fr_trans; [apply fr_setr|].
    eapply fr_trans; [apply fr_start_rec | apply fr_do_bcast].
Qed.

Lemma fr_restart_routine s : fr s (fst (restart_routine repaired s)).
Proof. unfold restart_routine. eapply fr_trans; [apply fr_norm | apply fr_restart_routine_n]. Qed.

Lemma fr_update_sr s : fr s (fst (update_sr repaired s)).
Proof.
  unfold update_sr.
  pose proof (fr_set_routine_locked s (if negb (Nat.eqb (sfn s) 0) && negb (N.eqb (sval s) 0) then sfn s else 0) (sval s)) as G.
  destruct (set_routine_locked repaired s _ (sval s)) as [s1 [w reset]]. exact G.
Qed.

Lemma fr_timer_cb s t : fr s (timer_cb repaired s t).
Proof.
  unfold timer_cb. destruct (nth_error (timers s) t) as [x|] eqn:Ex; [|apply fr_refl]. destruct (tst x) eqn:Et; try apply fr_refl.
  set (s1 := set_timers s _).
  assert (H1 : fr s s1).
  { split; [repeat split|]. split; [|split; [apply inst_keep_refl | cbn; lia]].
    unfold s1. cbn [timers set_timers]. split; [apply length_set_nth|]. intros k y Hy. destruct (Nat.eq_dec k t) as [->|Hne].
    - rewrite nth_error_set_nth_same in Hy by (eapply nth_error_nth_len; eauto). inversion Hy; subst y. exists x. cbn. auto 10.
    - rewrite nth_error_set_nth_other in Hy by exact Hne. exists y. auto 10. }
  eapply fr_trans; [exact H1|].
  destruct (_ && _ && _ && _); [eapply fr_trans; [apply fr_start_rec | apply fr_do_bcast] | apply fr_do_bcast].
Qed.

(* ------------------------------------------------------------------ *)
(* records after the basic operations *)
Lemma getr_setr_eq s r x q : r < length (recs s) -> getr (setr s r x) q = if Nat.eqb q r then x else getr s q.
Proof.
  intros H. destruct (Nat.eqb_spec q r) as [->|Hne]; [now apply getr_setr_same | now apply getr_setr_other].
Qed.

Lemma getr_setr_cases s r x q : getr (setr s r x) q = getr s q \/ (q = r /\ r < length (recs s) /\ getr (setr s r x) q = x).
Proof.
  destruct (Nat.eq_dec q r) as [->|Hne]; [|left; now apply getr_setr_other].
  destruct (Nat.lt_ge_cases r (length (recs s))) as [Hl|Hl].
  - right. split; [reflexivity|]. split; [exact Hl|]. now apply getr_setr_same.
  - left. unfold getr. rewrite recs_setr, set_nth_oob by exact Hl. reflexivity.
Qed.

Lemma recs_stop_inner s oi ot : recs (stop_timer (cancel_inst s oi) ot) = recs s.
Proof.
  destruct (stop_timer_other (cancel_inst s oi) ot) as [_ [_ [_ [E _]]]]. destruct (cancel_inst_other s oi) as [_ [_ [C _]]]. congruence.
Qed.

Definition stopped_rec (x : rec) : rec :=
  {| rfn := rfn x; rarg := rarg x; rctx := None; rcancel := None; rexit := rexit x;
     rerr := rerr x; rsucc := rsucc x; rexited := rexited x; rretry := None |}.

Lemma getr_stop_rec s r q : r < length (recs s) ->
  getr (stop_rec s r) q = if Nat.eqb q r then stopped_rec (getr s r) else getr s q.
Proof.
  intros H. unfold stop_rec. rewrite getr_setr_eq by (rewrite recs_stop_inner; exact H).
  destruct (Nat.eqb q r); [reflexivity|]. unfold getr. now rewrite recs_stop_inner.
Qed.

Lemma length_recs_stop_rec s r : length (recs (stop_rec s r)) = length (recs s).
Proof. unfold stop_rec. rewrite recs_setr, length_set_nth, recs_stop_inner. reflexivity. Qed.

Lemma length_insts_stop_rec s r : length (insts (stop_rec s r)) = length (insts s).
Proof. apply (stop_rec_smc s r). Qed.

Lemma timers_cancel_inst s oi : timers (cancel_inst s oi) = timers s.
Proof. destruct (cancel_inst_other s oi) as [_ [_ [_ [_ E]]]]. exact E. Qed.

Lemma timers_stop_timer_cancel s oi ot : timers (stop_timer (cancel_inst s oi) ot) = timers (stop_timer s ot).
Proof.
  unfold stop_timer. destruct ot as [t|]; [|apply timers_cancel_inst]. rewrite timers_cancel_inst.
  destruct (nth_error (timers s) t) as [x|]; [|apply timers_cancel_inst].
  destruct (tst x); try apply timers_cancel_inst. reflexivity.
Qed.
Lemma timers_stop_rec s r : timers (stop_rec s r) = timers (stop_timer s (rretry (getr s r))).
Proof. unfold stop_rec. change (timers (setr ?S _ _)) with (timers S). apply timers_stop_timer_cancel. Qed.

Definition spawned_rec (x : rec) (n : nat) : rec :=
  {| rfn := rfn x; rarg := rarg x; rctx := Some n; rcancel := Some n; rexit := Some n;
     rerr := ONil; rsucc := false; rexited := false; rretry := None |}.

Lemma getr_spawn s1 r ctx w' q : r < length (recs s1) ->
  getr (spawn s1 r ctx w') q = if Nat.eqb q r then spawned_rec (getr s1 r) (length (insts s1)) else getr s1 q.
Proof. intros H. unfold spawn. rewrite getr_setr_eq by exact H. reflexivity. Qed.

Lemma insts_spawn s1 r ctx w' :
  insts (spawn s1 r ctx w') = insts s1 ++ [{| irec := r; iwait := w'; ipcv := IGate0; icanc := root_dead s1 ctx; iexit := false;
                                              iarg := rarg (getr s1 r); iroot := ctx |}].
Proof. reflexivity. Qed.

Lemma routine_start_rec fx s r ctx w force : routine (start_rec fx s r ctx w force) = routine s.
Proof.
  destruct (start_rec_cases fx s r ctx w force) as [-> | [w' ->]]; [reflexivity|].
  unfold spawn. rewrite routine_setr, routine_set_lastexit, routine_set_insts. apply routine_stop_rec.
Qed.
Lemma kctx_start_rec fx s r ctx w force : kctx (start_rec fx s r ctx w force) = kctx s.
Proof.
  destruct (start_rec_cases fx s r ctx w force) as [-> | [w' ->]]; [reflexivity|].
  unfold spawn. cbn [kctx setr set_recs set_lastexit set_insts]. apply kctx_stop_rec.
Qed.

(* the current record's view *)
Definition spawnB (n : nat) (s' : st) : Prop :=
  length (insts s') = S n /\
  exists r, routine s' = Some r /\ r < length (recs s') /\ rctx (getr s' r) = Some n /\ rerr (getr s' r) = ONil /\
            rsucc (getr s' r) = false /\ rexited (getr s' r) = false /\ rretry (getr s' r) = None /\ rfn (getr s' r) <> 0 /\
            exists x, nth_error (insts s') n = Some x /\ ipcv x = IGate0 /\ irec x = r.

Definition keepA (s s' : st) : Prop :=
  length (insts s') = length (insts s) /\ routine s' = routine s /\
  forall r, routine s = Some r ->
    rerr (getr s' r) = rerr (getr s r) /\ rsucc (getr s' r) = rsucc (getr s r) /\ rexited (getr s' r) = rexited (getr s r) /\
    (rctx (getr s' r) = rctx (getr s r) \/ rctx (getr s' r) = None) /\
    (rretry (getr s' r) = rretry (getr s r) \/ rretry (getr s' r) = None) /\ rfn (getr s' r) = rfn (getr s r).

Definition fresh_rec (y : rec) : Prop :=
  rctx y = None /\ rerr y = ONil /\ rsucc y = false /\ rexited y = false /\ rretry y = None /\ rfn y <> 0.
Definition freshC (n : nat) (s' : st) : Prop :=
  length (insts s') = n /\ (routine s' = None \/ exists r, routine s' = Some r /\ fresh_rec (getr s' r)).

Lemma keepA_refl s : keepA s s.
Proof. split; [reflexivity|]. split; [reflexivity|]. intros r _. auto 10. Qed.

Lemma keepA_trans a b c : keepA a b -> keepA b c -> keepA a c.
Proof.
  intros (L1 & R1 & H1) (L2 & R2 & H2). split; [congruence|]. split; [congruence|]. intros r Hr.
  destruct (H1 r Hr) as (A1 & A2 & A3 & A4 & A5 & A6). assert (Hr' : routine b = Some r) by congruence.
  destruct (H2 r Hr') as (B1 & B2 & B3 & B4 & B5 & B6). repeat split; try congruence.
  - destruct B4 as [B4|B4]; [rewrite B4; exact A4 | now right].
  - destruct B5 as [B5|B5]; [rewrite B5; exact A5 | now right].
Qed.

(* states with the same records, routine and number of instances *)
Lemma keepA_ext s s' : length (insts s') = length (insts s) -> routine s' = routine s -> recs s' = recs s -> keepA s s'.
Proof. intros L R E. split; [exact L|]. split; [exact R|]. intros r _. unfold getr. rewrite E. auto 10. Qed.

Lemma keepA_stop_rec s r : r < length (recs s) -> keepA s (stop_rec s r).
Proof.
  intros H. split; [apply length_insts_stop_rec|]. split; [apply routine_stop_rec|]. intros q _.
  rewrite getr_stop_rec by exact H. destruct (Nat.eqb_spec q r) as [->|Hne]; cbn; auto 10.
Qed.

Lemma spawn_spawnB s1 r ctx w' : routine s1 = Some r -> r < length (recs s1) -> rfn (getr s1 r) <> 0 ->
  spawnB (length (insts s1)) (spawn s1 r ctx w').
Proof.
  intros Hr Hl Hf. split; [rewrite insts_spawn, app_length; cbn; lia|]. exists r. split; [exact Hr|].
  split; [unfold spawn; rewrite recs_setr, length_set_nth; exact Hl|].
  rewrite getr_spawn by exact Hl. rewrite Nat.eqb_refl. cbn [rctx rerr rsucc rexited rretry rfn spawned_rec].
  repeat split; [exact Hf|]. eexists. rewrite insts_spawn, nth_error_app2, Nat.sub_diag by lia. split; [reflexivity|]. auto.
Qed.

Lemma start_rec_cases' fx s r ctx w force :
  start_rec fx s r ctx w force = s \/ (rfn (getr s r) <> 0 /\ exists w', start_rec fx s r ctx w force = spawn (stop_rec s r) r ctx w').
Proof.
  unfold start_rec. destruct (Nat.eqb_spec (rfn (getr s r)) 0) as [E|E]; [rewrite orb_true_r; now left|]. rewrite orb_false_r.
  destruct (negb force && rsucc (getr s r)); [now left|].
  destruct (negb force && _ && negb (rexited (getr s r)) && ctx_live s (rctx (getr s r))); [now left|].
  right. split; [exact E|]. eexists. reflexivity.
Qed.

(* start on the current record *)
Lemma start_rec_cls fx s r ctx w force : routine s = Some r -> r < length (recs s) ->
  start_rec fx s r ctx w force = s \/ spawnB (length (insts s)) (start_rec fx s r ctx w force).
Proof.
  intros Hr Hl. destruct (start_rec_cases' fx s r ctx w force) as [E | [Hf [w' E]]]; [now left|]. right. rewrite E.
  rewrite <- (length_insts_stop_rec s r).
  apply spawn_spawnB; [rewrite routine_stop_rec; exact Hr | rewrite length_recs_stop_rec; exact Hl|].
  rewrite getr_stop_rec, Nat.eqb_refl by exact Hl. exact Hf.
Qed.

Lemma kctx_set_context s c restart : kctx (fst (set_context repaired s c restart)) = c.
Proof.
  unfold set_context. destruct (Nat.eqb_spec (kctx s) c) as [E|E]; cbn [andb].
  - destruct (negb restart); [exact E|]. change (routine (set_kctx s c)) with (routine s). destruct (routine s) as [r|]; [|reflexivity].
    destruct (is_nil _); [reflexivity|]. destruct (_ && _ && _); [reflexivity|]. cbn [fst kctx do_bcast set_b].
    destruct (_ && negb (Nat.eqb c 0)); [rewrite kctx_start_rec|]; apply (kctx_stop_rec (set_kctx s c)).
  - change (routine (set_kctx s c)) with (routine s). destruct (routine s) as [r|]; [|reflexivity].
    destruct (_ && _ && _); [reflexivity|]. cbn [fst kctx do_bcast set_b].
    destruct (_ && negb (Nat.eqb c 0)); [rewrite kctx_start_rec|]; apply (kctx_stop_rec (set_kctx s c)).
Qed.

Lemma routine_set_context s c restart : routine (fst (set_context repaired s c restart)) = routine s.
Proof.
  unfold set_context. destruct (_ && negb restart); [reflexivity|].
  change (routine (set_kctx s c)) with (routine s). destruct (routine s) as [r|] eqn:Er; [|exact Er].
  destruct (_ && is_nil _); [exact Er|]. destruct (_ && _ && _); [exact Er|]. cbn [fst routine do_bcast set_b].
  destruct (_ && negb (Nat.eqb c 0)); [rewrite routine_start_rec|]; rewrite routine_stop_rec; exact Er.
Qed.

Lemma set_context_cls s c restart : InvW s ->
  keepA s (fst (set_context repaired s c restart)) \/ (c <> 0 /\ spawnB (length (insts s)) (fst (set_context repaired s c restart))).
Proof.
  intros HW. unfold set_context. destruct (_ && negb restart); [left; apply keepA_refl|].
  change (routine (set_kctx s c)) with (routine s). destruct (routine s) as [r|] eqn:Er; [|left; now apply keepA_ext].
  destruct (_ && is_nil _); [left; now apply keepA_ext|]. destruct (_ && _ && _); [left; now apply keepA_ext|]. cbn [fst].
  assert (Hl : r < length (recs s)) by (unfold InvW in HW; now rewrite Er in HW).
  assert (K2 : keepA s (stop_rec (set_kctx s c) r)).
  { eapply keepA_trans; [apply (keepA_ext s (set_kctx s c)); reflexivity | apply keepA_stop_rec; exact Hl]. }
  destruct (Nat.eqb_spec c 0) as [Ec|Ec]; [rewrite andb_false_r; left; exact K2|].
  destruct (_ && negb false); [|left; exact K2].
  destruct (start_rec_cls repaired (stop_rec (set_kctx s c) r) r c (rexit (getr (stop_rec (set_kctx s c) r) r)) false) as [E|E].
  - rewrite routine_stop_rec. exact Er.
  - rewrite length_recs_stop_rec. exact Hl.
  - left. rewrite E. exact K2.
  - right. split; [exact Ec|]. rewrite length_insts_stop_rec in E. exact E.
Qed.

Lemma kctx_restart_routine_n s : kctx (fst (restart_routine_n repaired s)) = kctx s.
Proof.
  unfold restart_routine_n. destruct (routine s) as [r|]; [|reflexivity].
  destruct (cancel_inst_other s (rcancel (getr s r))) as [_ [_ [_ [C _]]]].
  destruct (Nat.eqb _ 0); cbn [fst kctx do_bcast set_b]; [exact C|]. rewrite kctx_start_rec. exact C.
Qed.

Lemma routine_restart_routine_n s : routine (fst (restart_routine_n repaired s)) = routine s.
Proof.
  unfold restart_routine_n. destruct (routine s) as [r|] eqn:Er; [|exact Er].
  destruct (cancel_inst_other s (rcancel (getr s r))) as [_ [C _]].
  destruct (Nat.eqb _ 0); cbn [fst routine do_bcast set_b]; [rewrite routine_setr; congruence|].
  rewrite routine_start_rec, !routine_setr. congruence.
Qed.

Lemma length_insts_cancel_inst s oi : length (insts (cancel_inst s oi)) = length (insts s).
Proof. apply (smc_cancel s oi). Qed.

Lemma recs_cancel_inst s oi : recs (cancel_inst s oi) = recs s.
Proof. destruct (cancel_inst_other s oi) as [_ [_ [C _]]]. exact C. Qed.
Lemma routine_cancel_inst s oi : routine (cancel_inst s oi) = routine s.
Proof. destruct (cancel_inst_other s oi) as [_ [C _]]. exact C. Qed.
Lemma kctx_cancel_inst s oi : kctx (cancel_inst s oi) = kctx s.
Proof. destruct (cancel_inst_other s oi) as [_ [_ [_ [C _]]]]. exact C. Qed.

(* a record update that keeps the status fields *)
Lemma keepA_setr s r x : r < length (recs s) ->
  rerr x = rerr (getr s r) -> rsucc x = rsucc (getr s r) -> rexited x = rexited (getr s r) -> rctx x = rctx (getr s r) ->
  rretry x = rretry (getr s r) -> rfn x = rfn (getr s r) -> keepA s (setr s r x).
Proof.
  intros Hl A1 A2 A3 A4 A5 A6. split; [reflexivity|]. split; [reflexivity|]. intros q _. rewrite getr_setr_eq by exact Hl.
  destruct (Nat.eqb_spec q r) as [->|Hne]; auto 10.
Qed.

Lemma restart_routine_n_cls s : InvW s ->
  keepA s (fst (restart_routine_n repaired s)) \/ (kctx s <> 0 /\ spawnB (length (insts s)) (fst (restart_routine_n repaired s))).
Proof.
  intros HW. unfold restart_routine_n. destruct (routine s) as [r|] eqn:Er; [|left; apply keepA_refl].
  assert (Hl : r < length (recs s)) by (unfold InvW in HW; now rewrite Er in HW).
  set (x := getr s r). set (s1 := cancel_inst s (rcancel x)).
  assert (K1 : keepA s s1) by (apply keepA_ext; [apply length_insts_cancel_inst | apply routine_cancel_inst | apply recs_cancel_inst]).
  assert (X1 : getr s1 r = x) by (unfold getr, s1; now rewrite recs_cancel_inst).
  assert (L1 : r < length (recs s1)) by (unfold s1; now rewrite recs_cancel_inst).
  set (s2 := setr s1 r _).
  assert (K2 : keepA s1 s2) by (apply keepA_setr; [exact L1 | rewrite X1; reflexivity ..]).
  assert (L2 : r < length (recs s2)) by (unfold s2; now rewrite recs_setr, length_set_nth).
  destruct (Nat.eqb_spec (kctx s2) 0) as [Ek|Ek]; cbn [fst]; [left; eapply keepA_trans; eauto|].
  set (y := getr s2 r). set (s3 := setr s2 r _).
  assert (K3 : keepA s2 s3) by (apply keepA_setr; [exact L2 | reflexivity ..]).
  assert (K : keepA s s3) by (eapply keepA_trans; [exact K1 | eapply keepA_trans; eauto]).
  destruct (start_rec_cls repaired s3 r (kctx s3) (rexit y) true) as [E|E].
  - change (routine s3) with (routine s1). unfold s1. rewrite routine_cancel_inst. exact Er.
  - unfold s3. now rewrite recs_setr, length_set_nth.
  - left. rewrite E. exact K.
  - right. split; [change (kctx s2) with (kctx s1) in Ek; unfold s1 in Ek; now rewrite kctx_cancel_inst in Ek|].
    destruct K as (KL & _). rewrite KL in E. exact E.
Qed.

Lemma kctx_restart_routine s : kctx (fst (restart_routine repaired s)) = kctx (norm s).
Proof. unfold restart_routine. apply kctx_restart_routine_n. Qed.
Lemma routine_restart_routine s : routine (fst (restart_routine repaired s)) = routine s.
Proof. unfold restart_routine. rewrite routine_restart_routine_n. apply routine_norm. Qed.
Lemma keepA_norm s : keepA s (norm s).
Proof. apply keepA_ext; [now rewrite insts_norm | apply routine_norm | apply recs_norm]. Qed.
Lemma InvW_norm s : InvW s -> InvW (norm s).
Proof. unfold InvW. now rewrite routine_norm, recs_norm. Qed.
Lemma restart_routine_cls s : InvW s ->
  keepA s (fst (restart_routine repaired s)) \/ (kctx (norm s) <> 0 /\ spawnB (length (insts s)) (fst (restart_routine repaired s))).
Proof.
  intros HW. unfold restart_routine. destruct (restart_routine_n_cls (norm s) (InvW_norm s HW)) as [K | [Hk B]].
  - left. eapply keepA_trans; [apply keepA_norm | exact K].
  - right. split; [exact Hk|]. now rewrite insts_norm in B.
Qed.

Lemma kctx_timer_cb s t : kctx (timer_cb repaired s t) = kctx s.
Proof.
  unfold timer_cb. destruct (nth_error (timers s) t) as [x|]; [|reflexivity]. destruct (tst x); try reflexivity.
  cbn [kctx do_bcast set_b]. destruct (_ && _ && _ && _); [rewrite kctx_start_rec|]; reflexivity.
Qed.
Lemma routine_timer_cb s t : routine (timer_cb repaired s t) = routine s.
Proof.
  unfold timer_cb. destruct (nth_error (timers s) t) as [x|]; [|reflexivity]. destruct (tst x); try reflexivity.
  cbn [routine do_bcast set_b]. destruct (_ && _ && _ && _); [rewrite routine_start_rec|]; reflexivity.
Qed.

Lemma timer_cb_cls s t : InvW s ->
  keepA s (timer_cb repaired s t) \/ (kctx s <> 0 /\ spawnB (length (insts s)) (timer_cb repaired s t)).
Proof.
  intros HW. unfold timer_cb. destruct (nth_error (timers s) t) as [x|]; [|left; apply keepA_refl].
  destruct (tst x); try (left; apply keepA_refl).
  set (s1 := set_timers s _). assert (K1 : keepA s s1) by (now apply keepA_ext).
  destruct (if fx_timer repaired then _ else true); cbn [andb]; [|left; exact K1].
  destruct (Nat.eqb_spec (kctx s1) 0) as [Ek|Ek]; cbn [negb andb]; [left; exact K1|].
  destruct (routine s1) as [r'|] eqn:Er; [|left; exact K1].
  destruct (Nat.eqb_spec r' (trec x)) as [->|]; cbn [andb]; [|left; exact K1].
  destruct (rexited (getr s1 (trec x))); [|left; exact K1].
  destruct (start_rec_cls repaired s1 (trec x) (kctx s1) (rexit (getr s1 (trec x))) true) as [E|E].
  - exact Er.
  - change (recs s1) with (recs s). change (routine s1) with (routine s) in Er. unfold InvW in HW. now rewrite Er in HW.
  - left. rewrite E. exact K1.
  - right. split; [exact Ek | exact E].
Qed.

(* setRoutineLocked: a new epoch *)
Definition new_rec (f : nat) (arg : N) : rec :=
  {| rfn := f; rarg := arg; rctx := None; rcancel := None; rexit := None; rerr := ONil; rsucc := false; rexited := false; rretry := None |}.

Definition detach (s : st) : st * option nat * bool :=
  match routine s with
  | Some p =>
    let x := getr s p in
    let s' := cancel_inst s (rcancel x) in
    let s'' := setr s' p {| rfn := rfn x; rarg := rarg x; rctx := rctx x; rcancel := None; rexit := rexit x;
                            rerr := rerr x; rsucc := rsucc x; rexited := rexited x; rretry := rretry x |} in
    (set_routine s'' None, rexit x, negb (Nat.eqb (kctx s) 0) && negb (rexited x))
  | None => (s, None, false)
  end.

Lemma set_routine_locked_eq s f arg :
  set_routine_locked_n repaired s f arg =
  let '(s1, prevExit, wasReset) := detach s in
  if negb (Nat.eqb f 0) then
    let r := length (recs s1) in
    let s3 := set_routine (set_recs s1 (recs s1 ++ [new_rec f arg])) (Some r) in
    let s4 := if negb (Nat.eqb (kctx s3) 0) then start_rec repaired s3 r (kctx s3) prevExit false else s3 in
    (do_bcast s4, (prevExit, wasReset))
  else ((if wasReset then do_bcast s1 else s1), (prevExit, wasReset)).
Proof. reflexivity. Qed.

Lemma detach_facts2 s : InvW s ->
  let s1 := fst (fst (detach s)) in
  routine s1 = None /\ kctx s1 = kctx s /\ length (insts s1) = length (insts s) /\ length (recs s1) = length (recs s) /\
  (forall q, (routine s = Some q -> rretry (getr s1 q) = rretry (getr s q) /\ rexited (getr s1 q) = rexited (getr s q) /\
                                    rerr (getr s1 q) = rerr (getr s q)) /\
             (routine s <> Some q -> getr s1 q = getr s q)) /\
  timers s1 = timers s /\
  snd (fst (detach s)) = match routine s with Some p => rexit (getr s p) | None => None end.
Proof.
  intros HW. unfold detach. destruct (routine s) as [p|] eqn:Ep; cbn [fst snd].
  - assert (Hl : p < length (recs s)) by (unfold InvW in HW; now rewrite Ep in HW).
    set (x := getr s p). set (s' := cancel_inst s (rcancel x)).
    assert (Hl' : p < length (recs s')) by (unfold s'; now rewrite recs_cancel_inst).
    split; [reflexivity|]. split; [apply kctx_cancel_inst|]. split; [apply length_insts_cancel_inst|].
    split; [cbn [recs set_routine]; rewrite recs_setr, length_set_nth; unfold s'; now rewrite recs_cancel_inst|].
    split; [|split; [apply timers_cancel_inst | reflexivity]].
    intros q. change (getr (set_routine ?S None) q) with (getr S q). rewrite getr_setr_eq by exact Hl'. split.
    + intros E. inversion E; subst q. rewrite Nat.eqb_refl. cbn. auto.
    + intros Hne. destruct (Nat.eqb_spec q p) as [->|_]; [congruence|]. unfold getr, s'. now rewrite recs_cancel_inst.
  - split; [exact Ep|]. repeat split; try reflexivity.
Qed.

Lemma getr_new_rec s1 x q :
  getr (set_routine (set_recs s1 (recs s1 ++ [x])) (Some (length (recs s1)))) q =
  if Nat.ltb q (length (recs s1)) then getr s1 q else if Nat.eqb q (length (recs s1)) then x else rec0.
Proof.
  unfold getr. cbn [recs set_routine set_recs]. destruct (Nat.ltb_spec q (length (recs s1))) as [Hl|Hl].
  - now rewrite app_nth1.
  - rewrite app_nth2 by exact Hl. destruct (Nat.eqb_spec q (length (recs s1))) as [->|Hne].
    + now rewrite Nat.sub_diag.
    + destruct (q - length (recs s1)) as [|k] eqn:E; [lia|]. destruct k; reflexivity.
Qed.

Lemma set_routine_locked_n_cls s f arg : Inv s ->
  let s' := fst (set_routine_locked_n repaired s f arg) in
  kctx s' = kctx s /\ (routine s' = None <-> f = 0) /\
  ((kctx s <> 0 /\ spawnB (length (insts s)) s') \/ freshC (length (insts s)) s') /\
  (forall j, fst (snd (set_routine_locked_n repaired s f arg)) = Some j -> S j = length (insts s)).
Proof.
  intros HI. assert (HW : InvW s) by apply HI. rewrite set_routine_locked_eq.
  pose proof (detach_facts2 s HW) as D. destruct (detach s) as [[s1 prevExit] wasReset]. cbn [fst snd] in D.
  destruct D as (Rn & Kc & Li & Lr & _ & _ & Pe).
  assert (HP : forall j, prevExit = Some j -> S j = length (insts s)).
  { intros j Hj. rewrite Pe in Hj. destruct (routine s) as [p|] eqn:Ep; [|discriminate]. eapply InvR_wait; eauto. }
  destruct (Nat.eqb_spec f 0) as [Ef|Ef]; cbn [negb fst snd].
  - split; [destruct wasReset; exact Kc|]. split; [split; [auto | intros _; destruct wasReset; exact Rn]|].
    split; [|exact HP]. right. split; [destruct wasReset; exact Li|]. left. destruct wasReset; exact Rn.
  - set (r := length (recs s1)). set (s3 := set_routine (set_recs s1 (recs s1 ++ [new_rec f arg])) (Some r)).
    assert (G3 : getr s3 r = new_rec f arg).
    { unfold s3, r. rewrite getr_new_rec. rewrite Nat.ltb_irrefl, Nat.eqb_refl. reflexivity. }
    assert (F3 : freshC (length (insts s)) s3).
    { split; [exact Li|]. right. exists r. split; [reflexivity|]. rewrite G3. repeat split. exact Ef. }
    change (kctx s3) with (kctx s1). rewrite Kc.
    destruct (Nat.eqb_spec (kctx s) 0) as [Ek|Ek]; cbn [negb].
    + split; [exact Kc|]. split; [split; [discriminate | contradiction]|]. split; [right; exact F3 | exact HP].
    + split; [cbn [kctx do_bcast set_b]; rewrite kctx_start_rec; exact Kc|].
      split; [cbn [routine do_bcast set_b]; rewrite routine_start_rec; split; [discriminate | contradiction]|].
      split; [|exact HP].
      destruct (start_rec_cls repaired s3 r (kctx s) prevExit false) as [E|E].
      * reflexivity.
      * unfold s3, r. cbn [recs set_routine set_recs]. rewrite app_length. cbn. lia.
      * right. rewrite E. exact F3.
      * left. split; [exact Ek|]. change (length (insts s3)) with (length (insts s1)) in E. rewrite Li in E. exact E.
Qed.

Lemma set_routine_locked_cls s f arg : Inv s ->
  let s' := fst (set_routine_locked repaired s f arg) in
  kctx s' = kctx (norm s) /\ (routine s' = None <-> f = 0) /\
  ((kctx (norm s) <> 0 /\ spawnB (length (insts s)) s') \/ freshC (length (insts s)) s') /\
  (forall j, fst (snd (set_routine_locked repaired s f arg)) = Some j -> S j = length (insts s)).
Proof.
  intros HI. unfold set_routine_locked. pose proof (set_routine_locked_n_cls (norm s) f arg (Inv_norm s HI)) as H.
  rewrite insts_norm in H. exact H.
Qed.

(* ------------------------------------------------------------------ *)
(* the further invariants *)
Definition CK (s : st) : Prop :=
  forall r i, routine s = Some r -> rctx (getr s r) = Some i -> S i = length (insts s).
Definition T5 (s : st) : Prop := forall r, routine s = Some r -> rfn (getr s r) <> 0.
Definition T2 (s : st) : Prop :=
  forall r t, rretry (getr s r) = Some t ->
    rexited (getr s r) = true /\ is_nil (rerr (getr s r)) = false /\ exists x, nth_error (timers s) t = Some x /\ trec x = r.
Definition T1 (s : st) : Prop := forall t x, nth_error (timers s) t = Some x -> tst x = TArmed -> (clock s < tdead x)%N.
Definition SV1 (s : st) : Prop :=
  sv s = true -> (match routine s with Some _ => true | None => false end) = negb (Nat.eqb (sfn s) 0) && negb (N.eqb (sval s) 0).
Definition BO (s : st) : Prop := forall l k, bo s = Some (l, k) -> forall d, In d l -> d <> 0%N.

Definition tm_ext (l l' : list timer) : Prop :=
  forall t x, nth_error l t = Some x -> exists x', nth_error l' t = Some x' /\ trec x' = trec x.

Lemma tm_api_ext l l' : tm_api l l' -> tm_ext l l'.
Proof.
  intros [L H] t x Hx. assert (Ht : t < length l') by (rewrite L; eapply nth_error_nth_len; eauto).
  destruct (nth_error l' t) as [x'|] eqn:E; [|apply nth_error_None in E; lia].
  destruct (H t x' E) as (x0 & Hx0 & R & _). exists x'. split; [reflexivity|]. congruence.
Qed.
Lemma tm_ext_refl l : tm_ext l l. Proof. intros t x H. eauto. Qed.

(* ---- CK / T5 from the classification ---- *)
Lemma CK_keepA s s' : CK s -> keepA s s' -> CK s'.
Proof.
  intros H (L & R & K) r i Hr Hc. rewrite R in Hr. destruct (K r Hr) as (_ & _ & _ & [E|E] & _); [|congruence].
  rewrite E in Hc. rewrite L. exact (H r i Hr Hc).
Qed.
Lemma CK_spawnB n s' : spawnB n s' -> CK s'.
Proof.
  intros (L & r & Hr & _ & Hc & _) q i Hq Hi. rewrite Hr in Hq. inversion Hq; subst q. rewrite Hc in Hi. inversion Hi; subst i. auto.
Qed.
Lemma CK_freshC n s' : freshC n s' -> CK s'.
Proof.
  intros (_ & [E | (r & Hr & Hc & _)]) q i Hq Hi; [congruence|]. rewrite Hr in Hq. inversion Hq; subst q. congruence.
Qed.
Lemma T5_keepA s s' : T5 s -> keepA s s' -> T5 s'.
Proof. intros H (_ & R & K) r Hr. rewrite R in Hr. destruct (K r Hr) as (_ & _ & _ & _ & _ & E). rewrite E. now apply H. Qed.
Lemma T5_spawnB n s' : spawnB n s' -> T5 s'.
Proof. intros (_ & r & Hr & _ & _ & _ & _ & _ & _ & Hf & _) q Hq. rewrite Hr in Hq. inversion Hq; subst q. exact Hf. Qed.
Lemma T5_freshC n s' : freshC n s' -> T5 s'.
Proof.
  intros (_ & [E | (r & Hr & _ & _ & _ & _ & _ & Hf)]) q Hq; [congruence|]. rewrite Hr in Hq. inversion Hq; subst q. exact Hf.
Qed.

(* ClearContext leaves the current record without an instance context *)
Lemma set_context_clear s restart r : kctx s <> 0 -> routine s = Some r -> r < length (recs s) ->
  rctx (getr (fst (set_context repaired s 0 restart)) r) = None.
Proof.
  intros Hk Hr Hl. unfold set_context. destruct (Nat.eqb_spec (kctx s) 0) as [E|_]; [contradiction|]. cbn [andb].
  change (routine (set_kctx s 0)) with (routine s). rewrite Hr. cbn [Nat.eqb negb]. rewrite !andb_false_r. cbn [fst].
  change (getr (do_bcast ?S) r) with (getr S r). rewrite getr_stop_rec by exact Hl. now rewrite Nat.eqb_refl.
Qed.

Lemma CK_set_context s c restart : InvW s -> CK s -> CK (fst (set_context repaired s c restart)).
Proof.
  intros HW H. destruct (set_context_cls s c restart HW) as [K | [Hc B]]; [eapply CK_keepA; eauto | eapply CK_spawnB; eauto].
Qed.

(* ---- T2 ---- *)
Lemma T2_ext s s' : recs s' = recs s -> tm_ext (timers s) (timers s') -> T2 s -> T2 s'.
Proof.
  intros E Ht H r t Hr. unfold getr in *. rewrite E in *. destruct (H r t Hr) as (A & B & x & Hx & Rx).
  destruct (Ht t x Hx) as (x' & Hx' & Rx'). repeat split; auto. exists x'. split; [exact Hx' | congruence].
Qed.

Lemma T2_setr s r x' : T2 s ->
  (forall t, rretry x' = Some t -> rexited x' = true /\ is_nil (rerr x') = false /\ exists x, nth_error (timers s) t = Some x /\ trec x = r) ->
  T2 (setr s r x').
Proof.
  intros H Hx q t Hq. change (timers (setr s r x')) with (timers s).
  destruct (getr_setr_cases s r x' q) as [E | (-> & _ & E)]; rewrite E in *; [now apply H | now apply Hx].
Qed.

Lemma T2_fr_recs s s' : recs s' = recs s -> fr s s' -> T2 s -> T2 s'.
Proof. intros E (_ & T & _) H. apply (T2_ext s); [exact E | now apply tm_api_ext | exact H]. Qed.

Lemma T2_stop_rec s r : T2 s -> T2 (stop_rec s r).
Proof.
  intros H. unfold stop_rec. apply T2_setr; [|intros t E; discriminate].
  apply (T2_fr_recs s); [apply recs_stop_inner | eapply fr_trans; [apply fr_cancel_inst | apply fr_stop_timer] | exact H].
Qed.

Lemma T2_spawn s1 r ctx w' : T2 s1 -> T2 (spawn s1 r ctx w').
Proof. intros H. unfold spawn. apply T2_setr; [|intros t E; discriminate]. apply (T2_ext s1); [reflexivity | apply tm_ext_refl | exact H]. Qed.

Lemma T2_start_rec fx s r ctx w force : T2 s -> T2 (start_rec fx s r ctx w force).
Proof.
  intros H. destruct (start_rec_cases fx s r ctx w force) as [-> | [w' ->]]; [exact H|]. now apply T2_spawn, T2_stop_rec.
Qed.

Lemma T2_same s s' : recs s' = recs s -> timers s' = timers s -> T2 s -> T2 s'.
Proof. intros E T. apply T2_ext; [exact E | rewrite T; apply tm_ext_refl]. Qed.

Lemma T2_set_context s c restart : T2 s -> T2 (fst (set_context repaired s c restart)).
Proof.
  intros H. unfold set_context. destruct (_ && negb restart); [exact H|].
  assert (H1 : T2 (set_kctx s c)) by (now apply (T2_same s)).
  change (routine (set_kctx s c)) with (routine s). destruct (routine s) as [r|]; [|exact H1].
  destruct (_ && is_nil _); [exact H1|]. destruct (_ && _ && _); [exact H1|]. cbn [fst].
  apply (T2_same (if (is_nil (rerr (getr (set_kctx s c) r)) || restart) && negb (Nat.eqb c 0)
                  then start_rec repaired (stop_rec (set_kctx s c) r) r c (rexit (getr (stop_rec (set_kctx s c) r) r)) false
                  else stop_rec (set_kctx s c) r)); [reflexivity | reflexivity |].
  destruct (_ && negb (Nat.eqb c 0)); [apply T2_start_rec|]; now apply T2_stop_rec.
Qed.

Lemma T2_detach s : T2 s -> T2 (fst (fst (detach s))).
Proof.
  intros H. unfold detach. destruct (routine s) as [p|]; [|exact H]. cbn [fst].
  apply (T2_same (setr (cancel_inst s (rcancel (getr s p))) p
                       {| rfn := rfn (getr s p); rarg := rarg (getr s p); rctx := rctx (getr s p); rcancel := None; rexit := rexit (getr s p);
                          rerr := rerr (getr s p); rsucc := rsucc (getr s p); rexited := rexited (getr s p); rretry := rretry (getr s p) |}));
    [reflexivity | reflexivity |].
  apply T2_setr.
  - apply (T2_same s); [apply recs_cancel_inst | apply timers_cancel_inst | exact H].
  - cbn [rretry rexited rerr]. intros t Ht. rewrite timers_cancel_inst. now apply H.
Qed.

Lemma T2_new_rec s1 f arg : T2 s1 -> T2 (set_routine (set_recs s1 (recs s1 ++ [new_rec f arg])) (Some (length (recs s1)))).
Proof.
  intros H q t Hq. rewrite getr_new_rec in *. change (timers (set_routine (set_recs s1 ?l) ?r)) with (timers s1).
  destruct (Nat.ltb q (length (recs s1))); [now apply H|]. destruct (Nat.eqb q (length (recs s1))); discriminate.
Qed.

Lemma T2_set_routine_locked_n s f arg : T2 s -> T2 (fst (set_routine_locked_n repaired s f arg)).
Proof.
  intros H. rewrite set_routine_locked_eq. pose proof (T2_detach s H) as D.
  destruct (detach s) as [[s1 prevExit] wasReset]. cbn [fst] in D.
  destruct (negb (Nat.eqb f 0)); cbn [fst].
  - set (s3 := set_routine _ _). assert (H3 : T2 s3) by (now apply T2_new_rec).
    apply (T2_same (if negb (Nat.eqb (kctx s3) 0) then start_rec repaired s3 (length (recs s1)) (kctx s3) prevExit false else s3));
      [reflexivity | reflexivity |].
    destruct (negb (Nat.eqb (kctx s3) 0)); [now apply T2_start_rec | exact H3].
  - destruct wasReset; [apply (T2_same s1); auto | exact D].
Qed.

Lemma T2_norm s : T2 s -> T2 (norm s).
Proof. intros H. unfold norm. destruct (root_dead s (kctx s)); [now apply (T2_same s) | exact H]. Qed.
Lemma T2_set_routine_locked s f arg : T2 s -> T2 (fst (set_routine_locked repaired s f arg)).
Proof. intros H. unfold set_routine_locked. now apply T2_set_routine_locked_n, T2_norm. Qed.

Lemma T2_restart_routine_n s : T2 s -> T2 (fst (restart_routine_n repaired s)).
Proof.
  intros H. unfold restart_routine_n. destruct (routine s) as [r|]; [|exact H].
  set (x := getr s r). set (s1 := cancel_inst s (rcancel x)).
  assert (H1 : T2 s1) by (apply (T2_same s); [apply recs_cancel_inst | apply timers_cancel_inst | exact H]).
  set (s2 := setr s1 r _).
  assert (H2 : T2 s2).
  { apply T2_setr; [exact H1|]. cbn [rretry rexited rerr]. intros t Ht. unfold s1. rewrite timers_cancel_inst. now apply H. }
  destruct (Nat.eqb (kctx s2) 0); [exact H2|]. cbn [fst].
  set (y := getr s2 r). set (s3 := setr s2 r _).
  assert (H3 : T2 s3) by (apply T2_setr; [exact H2|]; cbn [rretry rexited rerr]; intros t Ht; now apply H2).
  apply (T2_same (start_rec repaired s3 r (kctx s3) (rexit y) true)); [reflexivity | reflexivity | now apply T2_start_rec].
Qed.

Lemma T2_restart_routine s : T2 s -> T2 (fst (restart_routine repaired s)).
Proof. intros H. unfold restart_routine. now apply T2_restart_routine_n, T2_norm. Qed.

Lemma T2_update_sr s : T2 s -> T2 (fst (update_sr repaired s)).
Proof.
  intros H. unfold update_sr.
  pose proof (T2_set_routine_locked s (if negb (Nat.eqb (sfn s) 0) && negb (N.eqb (sval s) 0) then sfn s else 0) (sval s) H) as G.
  destruct (set_routine_locked repaired s _ (sval s)) as [s1 [w reset]]. exact G.
Qed.
Lemma T2_set_state_locked s v : T2 s -> T2 (fst (set_state_locked repaired s v)).
Proof.
  intros H. unfold set_state_locked. destruct (state_equal _ _ _); [exact H|].
  assert (H1 : T2 (set_sval s v)) by (now apply (T2_same s)).
  pose proof (T2_update_sr _ H1) as G. destruct (update_sr repaired (set_sval s v)) as [s1 [[w reset] running]].
  cbn [fst] in *. now apply (T2_same s1).
Qed.
Lemma T2_swap_value s g : T2 s -> T2 (fst (swap_value repaired s g)).
Proof.
  intros H. unfold swap_value. destruct (negb _); [|exact H].
  pose proof (T2_set_state_locked s (if Nat.eqb g 0 then sval s else swap_fn g (sval s)) H) as G.
  destruct (set_state_locked repaired s _) as [s1 [[[w ch] reset] running]]. exact G.
Qed.

Lemma T2_timer_cb s t : T2 s -> T2 (timer_cb repaired s t).
Proof.
  intros H. unfold timer_cb. destruct (nth_error (timers s) t) as [x|] eqn:Ex; [|exact H]. destruct (tst x); try exact H.
  set (s1 := set_timers s _).
  assert (H1 : T2 s1).
  { apply (T2_ext s); [reflexivity | | exact H]. unfold s1. cbn [timers set_timers]. intros k y Hy. destruct (Nat.eq_dec k t) as [->|Hne].
    - rewrite nth_error_set_nth_same by (eapply nth_error_nth_len; eauto). eexists. split; [reflexivity|]. cbn. congruence.
    - rewrite nth_error_set_nth_other by exact Hne. eauto. }
  apply (T2_same (if (if fx_timer repaired then match rretry (getr s1 (trec x)) with Some t' => Nat.eqb t' t | None => false end else true)
                        && negb (Nat.eqb (kctx s1) 0) && match routine s1 with Some r' => Nat.eqb r' (trec x) | None => false end
                        && rexited (getr s1 (trec x))
                     then start_rec repaired s1 (trec x) (kctx s1) (rexit (getr s1 (trec x))) true else s1)); [reflexivity | reflexivity |].
  destruct (_ && _ && _ && _); [now apply T2_start_rec | exact H1].
Qed.

Lemma tm_ext_stop_timer s ot : tm_ext (timers s) (timers (stop_timer s ot)).
Proof. apply tm_api_ext. apply (fr_stop_timer s ot). Qed.

Lemma tm_ext_trans a b c : tm_ext a b -> tm_ext b c -> tm_ext a c.
Proof. intros H1 H2 t x Hx. destruct (H1 t x Hx) as (y & Hy & Ry). destruct (H2 t y Hy) as (z & Hz & Rz). exists z. split; [exact Hz | congruence]. Qed.
Lemma tm_ext_app l y : tm_ext l (l ++ y).
Proof. intros t x Hx. exists x. split; [|reflexivity]. rewrite nth_error_app1; [exact Hx | eapply nth_error_nth_len; eauto]. Qed.

Lemma T2_bookkeep s i : SInv s -> T2 s -> T2 (bookkeep s i).
Proof.
  intros [_ HS] H. unfold bookkeep. destruct (nth_error (insts s) i) as [x|]; [|exact H]. destruct (ipcv x); try exact H.
  set (s0 := seti s i (with_pc x IDone)). assert (H0 : T2 s0) by (now apply (T2_same s)).
  destruct (rctx (getr s (irec x))) as [j|]; [|exact H0]. destruct (Nat.eqb j i); [|exact H0].
  set (y := getr s (irec x)).
  assert (G : forall Z z, T2 Z ->
              (forall t, rretry z = Some t -> rexited z = true /\ is_nil (rerr z) = false /\ exists u, nth_error (timers Z) t = Some u /\ trec u = irec x) ->
              T2 (do_bcast (set_cblog (setr Z (irec x) z) (cblog (setr Z (irec x) z) ++ repeat o (ncb (setr Z (irec x) z)))))).
  { intros Z z HZ Hz. apply (T2_same (setr Z (irec x) z)); [reflexivity | reflexivity | now apply T2_setr]. }
  assert (HT : T2 (stop_timer s0 (rretry y))).
  { apply (T2_ext s0); [destruct (stop_timer_other s0 (rretry y)) as [_ [_ [_ [E _]]]]; exact E | apply tm_ext_stop_timer | exact H0]. }
  change (bo s0) with (bo s). destruct (bo s) as [[l k]|] eqn:Eb.
  - destruct (is_nil o) eqn:En.
    + apply G; [now apply (T2_same (stop_timer s0 (rretry y))) | intros t E; discriminate].
    + destruct (match routine (stop_timer s0 (rretry y)) with Some r' => Nat.eqb r' (irec x) | None => false end).
      * destruct (nth_error l k).
        -- apply G.
           ++ apply (T2_ext (stop_timer s0 (rretry y))); [reflexivity | apply tm_ext_app | exact HT].
           ++ cbn [rretry rexited rerr]. intros t E. inversion E; subst t. repeat split; [exact En|].
              eexists. cbn [timers set_timers set_bo]. rewrite nth_error_app2, Nat.sub_diag by lia. split; reflexivity.
        -- apply G; [now apply (T2_same (stop_timer s0 (rretry y))) | intros t E; discriminate].
      * apply G; [exact HT | intros t E; discriminate].
  - apply G; [exact H0|]. cbn [rretry]. intros t E. unfold y in E. rewrite (HS eq_refl (irec x)) in E. discriminate.
Qed.

Lemma T2_seti s i x : T2 s -> T2 (seti s i x). Proof. now apply T2_same. Qed.

Ltac t2_same H := first [exact H | apply (T2_same _ _ eq_refl eq_refl H)].

Lemma step_T2 s e : SInv s -> T2 s -> T2 (step repaired s e).
Proof.
  intros HS H. destruct e; cbn [step].
  - now apply T2_set_context.
  - destruct (sv s); [exact H | now apply T2_set_routine_locked].
  - now apply T2_restart_routine.
  - destruct (sv s); [now apply T2_set_state_locked | exact H].
  - destruct (sv s); [now apply T2_swap_value | exact H].
  - destruct (sv s); [|exact H]. apply T2_update_sr. now apply (T2_same s).
  - unfold proceed. destruct (nth_error (insts s) i) as [x|]; [|exact H]. destruct (ipcv x); try exact H.
    destruct (iwait x); [destruct (pred_closed s x && icanc x); [destruct enter|destruct (pred_closed s x); [|destruct (icanc x); cbn [fx_wait repaired]]]|destruct (icanc x)];
      now apply T2_seti.
  - unfold wake. destruct (nth_error (insts s) i) as [x|]; [|exact H]. destruct (ipcv x); try exact H.
    + destruct (pred_closed s x && icanc x); [destruct enter|destruct (pred_closed s x); [|destruct (icanc x); cbn [fx_wait repaired]]];
        try exact H; now apply T2_seti.
    + destruct (pred_closed s x); [now apply T2_seti | exact H].
  - unfold fn_return. destruct (nth_error (insts s) i) as [x|]; [|exact H]. destruct (ipcv x); exact H.
  - now apply T2_bookkeep.
  - unfold advance. apply (T2_ext s); [reflexivity | | exact H]. cbn [timers set_timers set_clock].
    intros t x Hx. rewrite nth_error_map, Hx. cbn [option_map]. eexists. split; [reflexivity|].
    unfold fire. destruct (tst x); try reflexivity. destruct (N.leb _ _); reflexivity.
  - now apply T2_timer_cb.
  - now apply (T2_same s).
  - destruct (wait_section_frame s a) as (A1 & A2 & _). now apply (T2_same s).
  - unfold wait_wake. destruct (nth_error (waiters s) a) as [w|]; [|exact H]. destruct (wpcv w); try exact H.
    destruct (closed (b s) ch); [now apply (T2_same s) | exact H].
  - unfold wait_cancel. destruct (nth_error (waiters s) a) as [w|]; [|exact H]. destruct (wpcv w); try exact H; now apply (T2_same s).
  - unfold wait_errch. destruct (nth_error (waiters s) a) as [w|]; [|exact H]. destruct (wpcv w); try exact H; now apply (T2_same s).
  - now apply (T2_same s).
Qed.

(* ---- events that touch neither records nor the routine ---- *)
Definition light (e : ev) : bool :=
  match e with
  | EProceed _ _ | EWake _ _ | EReturn _ _ | EAdvance _ | EWaitExited _ | EWSect _ | EWWake _ | EWCancel _ | EWErr _ _
  | ECancelRoot _ => true
  | _ => false
  end.

Lemma light_frame s e : light e = true ->
  let s' := step repaired s e in
  recs s' = recs s /\ routine s' = routine s /\ (kctx s' = kctx s \/ kctx s' = 0) /\ length (insts s') = length (insts s) /\ bo s' = bo s /\
  cblog s' = cblog s /\ sv s' = sv s /\ sfn s' = sfn s /\ sval s' = sval s /\ ncb s' = ncb s /\
  ((exists d, e = EAdvance d) \/ (timers s' = timers s /\ clock s' = clock s)).
Proof.
  destruct e; cbn [light step]; intros Hp; try discriminate.
  - unfold proceed. destruct (nth_error (insts s) i) as [x|] eqn:Ex; [|repeat split; auto]. destruct (ipcv x); try (repeat split; auto; fail).
    destruct (iwait x); [destruct (pred_closed s x && icanc x); [destruct enter|destruct (pred_closed s x); [|destruct (icanc x); cbn [fx_wait repaired]]]|destruct (icanc x)];
      repeat split; auto; rewrite insts_seti; apply length_set_nth.
  - unfold wake. destruct (nth_error (insts s) i) as [x|] eqn:Ex; [|repeat split; auto]. destruct (ipcv x); try (repeat split; auto; fail).
    + destruct (pred_closed s x && icanc x); [destruct enter|destruct (pred_closed s x); [|destruct (icanc x); cbn [fx_wait repaired]]];
        repeat split; auto; rewrite insts_seti; apply length_set_nth.
    + destruct (pred_closed s x); repeat split; auto; rewrite insts_seti; apply length_set_nth.
  - unfold fn_return. destruct (nth_error (insts s) i) as [x|] eqn:Ex; [|repeat split; auto]. destruct (ipcv x); try (repeat split; auto; fail).
    repeat split; auto; rewrite insts_seti; apply length_set_nth.
  - repeat split; eauto.
  - repeat split; auto.
  - destruct (wait_section_frame s a) as (A1 & A2 & A3 & A4 & A5 & A6 & A7 & A8 & A9 & A10 & A11 & A12 & A13).
    repeat split; auto; try congruence. destruct A13 as [A13 | [A13 _]]; auto.
  - unfold wait_wake. destruct (nth_error (waiters s) a) as [w|]; [|repeat split; auto]. destruct (wpcv w); try (repeat split; auto; fail).
    destruct (closed (b s) ch); repeat split; auto.
  - unfold wait_cancel. destruct (nth_error (waiters s) a) as [w|]; [|repeat split; auto]. destruct (wpcv w); repeat split; auto.
  - unfold wait_errch. destruct (nth_error (waiters s) a) as [w|]; [|repeat split; auto]. destruct (wpcv w); repeat split; auto.
  - unfold cancel_root. cbn [recs routine kctx insts bo cblog sv sfn sval ncb timers clock set_insts set_dead]. rewrite map_length. repeat split; auto.
Qed.

(* ---- bookkeeping keeps every record's instance context and function ---- *)
Lemma bookkeep_keeps s i q :
  rctx (getr (bookkeep s i) q) = rctx (getr s q) /\ rfn (getr (bookkeep s i) q) = rfn (getr s q).
Proof.
  unfold bookkeep. destruct (nth_error (insts s) i) as [x|]; [|auto]. destruct (ipcv x); auto.
  set (s0 := seti s i (with_pc x IDone)). set (y := getr s (irec x)).
  destruct (rctx y) as [j|] eqn:Ej; [|auto]. destruct (Nat.eqb j i); [|auto].
  assert (G : forall Z z, recs Z = recs s -> rctx z = Some j -> rfn z = rfn y ->
              rctx (getr (do_bcast (set_cblog (setr Z (irec x) z) (cblog (setr Z (irec x) z) ++ repeat o (ncb (setr Z (irec x) z))))) q) = rctx (getr s q) /\
              rfn (getr (do_bcast (set_cblog (setr Z (irec x) z) (cblog (setr Z (irec x) z) ++ repeat o (ncb (setr Z (irec x) z))))) q) = rfn (getr s q)).
  { intros Z z EZ A B. rewrite getr_bc. assert (GZ : forall p, getr Z p = getr s p) by (intros p; unfold getr; now rewrite EZ).
    destruct (getr_setr_cases Z (irec x) z q) as [E | (-> & _ & E)]; rewrite E; [rewrite GZ; auto|]. fold y. rewrite Ej. auto. }
  assert (ET : recs (stop_timer s0 (rretry y)) = recs s) by (destruct (stop_timer_other s0 (rretry y)) as [_ [_ [_ [E _]]]]; exact E).
  destruct (bo s0) as [[l k]|].
  - destruct (is_nil o); [apply G; auto|].
    destruct (match routine (stop_timer s0 (rretry y)) with Some r' => Nat.eqb r' (irec x) | None => false end);
      [destruct (nth_error l k)|]; cbv zeta; apply G; auto.
  - apply G; auto.
Qed.

Lemma CK_bookkeep s i : CK s -> CK (bookkeep s i).
Proof.
  intros H r j Hr Hj. destruct (bookkeep_frame s i) as (N1 & R1 & K1). unfold ninst in N1.
  rewrite R1 in Hr. rewrite (proj1 (bookkeep_keeps s i r)) in Hj. rewrite N1. exact (H r j Hr Hj).
Qed.
Lemma T5_bookkeep s i : T5 s -> T5 (bookkeep s i).
Proof.
  intros H r Hr. destruct (bookkeep_frame s i) as (_ & R1 & _). rewrite R1 in Hr. rewrite (proj2 (bookkeep_keeps s i r)). now apply H.
Qed.

Lemma Inv_set_sval s v : Inv s -> Inv (set_sval s v). Proof. intros H. apply (Inv_ext s); auto. Qed.
Lemma Inv_set_sfn s v : Inv s -> Inv (set_sfn s v). Proof. intros H. apply (Inv_ext s); auto. Qed.

Lemma update_sr_fst s :
  fst (update_sr repaired s) = fst (set_routine_locked repaired s (if negb (Nat.eqb (sfn s) 0) && negb (N.eqb (sval s) 0) then sfn s else 0) (sval s)).
Proof. unfold update_sr. destruct (set_routine_locked repaired s _ (sval s)) as [s1 [w reset]]. reflexivity. Qed.

Lemma set_state_locked_fst s v :
  fst (set_state_locked repaired s v) = if state_equal (scmp s) (sval s) v then s else do_bcast (fst (update_sr repaired (set_sval s v))).
Proof.
  unfold set_state_locked. destruct (state_equal _ _ _); [reflexivity|].
  destruct (update_sr repaired (set_sval s v)) as [s1 [[w reset] running]]. reflexivity.
Qed.

Lemma swap_value_fst s g :
  fst (swap_value repaired s g) =
  let next := if Nat.eqb g 0 then sval s else swap_fn g (sval s) in
  if negb (N.eqb next (sval s)) then fst (set_state_locked repaired s next) else s.
Proof.
  unfold swap_value. cbn zeta. destruct (negb _); [|reflexivity].
  destruct (set_state_locked repaired s _) as [s1 [[[w ch] reset] running]]. reflexivity.
Qed.

(* an epoch: the result of setRoutineLocked satisfies the current-record invariants outright *)
Lemma CK_epoch s f arg : Inv s -> CK (fst (set_routine_locked repaired s f arg)).
Proof.
  intros HI. destruct (set_routine_locked_cls s f arg HI) as (Ek & _ & [[Hk B] | C] & _); [eapply CK_spawnB | eapply CK_freshC]; eauto.
Qed.
Lemma T5_epoch s f arg : Inv s -> T5 (fst (set_routine_locked repaired s f arg)).
Proof.
  intros HI. destruct (set_routine_locked_cls s f arg HI) as (_ & _ & [[_ B] | C] & _); [eapply T5_spawnB | eapply T5_freshC]; eauto.
Qed.

Lemma CK_same s s' : routine s' = routine s -> recs s' = recs s -> length (insts s') = length (insts s) -> CK s -> CK s'.
Proof. intros R E L H. unfold CK, getr in *. rewrite R, E, L. exact H. Qed.
Lemma T5_same s s' : routine s' = routine s -> recs s' = recs s -> T5 s -> T5 s'.
Proof. intros R E H. unfold T5, getr in *. rewrite R, E. exact H. Qed.

Lemma CK_do_bcast s : CK s -> CK (do_bcast s). Proof. exact (fun H => H). Qed.
Lemma T5_do_bcast s : T5 s -> T5 (do_bcast s). Proof. exact (fun H => H). Qed.

Lemma step_CK s e : Inv s -> CK s -> CK (step repaired s e).
Proof.
  intros HI H. assert (HW : InvW s) by apply HI.
  destruct (light e) eqn:El.
  - destruct (light_frame s e El) as (A1 & A2 & A3 & A4 & _). now apply (CK_same s).
  - destruct e; try discriminate; cbn [step].
    + now apply CK_set_context.
    + destruct (sv s); [exact H | now apply CK_epoch].
    + destruct (restart_routine_cls s HW) as [K | [Hk B]].
      * eapply CK_keepA; eauto.
      * eapply CK_spawnB; eauto.
    + destruct (sv s); [|exact H]. rewrite set_state_locked_fst. destruct (state_equal _ _ _); [exact H|].
      rewrite update_sr_fst. apply CK_do_bcast, CK_epoch. now apply Inv_set_sval.
    + destruct (sv s); [|exact H]. rewrite swap_value_fst. cbn zeta. destruct (negb _); [|exact H].
      rewrite set_state_locked_fst. destruct (state_equal _ _ _); [exact H|].
      rewrite update_sr_fst. apply CK_do_bcast, CK_epoch. now apply Inv_set_sval.
    + destruct (sv s); [|exact H]. rewrite update_sr_fst. apply CK_epoch. now apply Inv_set_sfn.
    + now apply CK_bookkeep.
    + destruct (timer_cb_cls s t HW) as [K | [Hk B]].
      * eapply CK_keepA; eauto.
      * eapply CK_spawnB; eauto.
Qed.

Lemma step_T5 s e : Inv s -> T5 s -> T5 (step repaired s e).
Proof.
  intros HI H. assert (HW : InvW s) by apply HI.
  destruct (light e) eqn:El.
  - destruct (light_frame s e El) as (A1 & A2 & _). now apply (T5_same s).
  - destruct e; try discriminate; cbn [step].
    + destruct (set_context_cls s c restart HW) as [K | [_ B]]; [eapply T5_keepA | eapply T5_spawnB]; eauto.
    + destruct (sv s); [exact H | now apply T5_epoch].
    + destruct (restart_routine_cls s HW) as [K | [_ B]]; [eapply T5_keepA | eapply T5_spawnB]; eauto.
    + destruct (sv s); [|exact H]. rewrite set_state_locked_fst. destruct (state_equal _ _ _); [exact H|].
      rewrite update_sr_fst. apply T5_do_bcast, T5_epoch. now apply Inv_set_sval.
    + destruct (sv s); [|exact H]. rewrite swap_value_fst. cbn zeta. destruct (negb _); [|exact H].
      rewrite set_state_locked_fst. destruct (state_equal _ _ _); [exact H|].
      rewrite update_sr_fst. apply T5_do_bcast, T5_epoch. now apply Inv_set_sval.
    + destruct (sv s); [|exact H]. rewrite update_sr_fst. apply T5_epoch. now apply Inv_set_sfn.
    + now apply T5_bookkeep.
    + destruct (timer_cb_cls s t HW) as [K | [_ B]]; [eapply T5_keepA | eapply T5_spawnB]; eauto.
Qed.

(* ---- T1: armed timers lie in the future ---- *)
Lemma T1_fr s s' : fr s s' -> T1 s -> T1 s'.
Proof.
  intros ((_ & _ & _ & _ & Ec & _) & (_ & Ht) & _) H t x' Hx Ha. rewrite Ec.
  destruct (Ht t x' Hx) as (x & Hx0 & _ & Ed & [->|[[_ B]|[_ B]]]); [now apply (H t x) | congruence | congruence].
Qed.

Lemma T1_same s s' : timers s' = timers s -> clock s' = clock s -> T1 s -> T1 s'.
Proof. intros E C H. unfold T1 in *. rewrite E, C. exact H. Qed.

Lemma bookkeep_aux s i :
  sv (bookkeep s i) = sv s /\ sfn (bookkeep s i) = sfn s /\ sval (bookkeep s i) = sval s /\ ncb (bookkeep s i) = ncb s /\
  clock (bookkeep s i) = clock s /\ waiters (bookkeep s i) = waiters s /\ scmp (bookkeep s i) = scmp s /\
  (forall l k, bo (bookkeep s i) = Some (l, k) -> exists k', bo s = Some (l, k')) /\ (bo s = None -> bo (bookkeep s i) = None).
Proof.
  unfold bookkeep. destruct (nth_error (insts s) i) as [x|]; [|repeat split; eauto]. destruct (ipcv x); try (repeat split; eauto; fail).
  set (s0 := seti s i (with_pc x IDone)). destruct (rctx (getr s (irec x))) as [j|]; [|repeat split; eauto].
  destruct (Nat.eqb j i); [|repeat split; eauto].
  set (y := getr s (irec x)).
  assert (G : forall Z z, sv Z = sv s -> sfn Z = sfn s -> sval Z = sval s -> ncb Z = ncb s -> clock Z = clock s -> waiters Z = waiters s ->
              scmp Z = scmp s -> (forall l k, bo Z = Some (l, k) -> exists k', bo s = Some (l, k')) -> (bo s = None -> bo Z = None) ->
              let S := do_bcast (set_cblog (setr Z (irec x) z) (cblog (setr Z (irec x) z) ++ repeat o (ncb (setr Z (irec x) z)))) in
              sv S = sv s /\ sfn S = sfn s /\ sval S = sval s /\ ncb S = ncb s /\ clock S = clock s /\ waiters S = waiters s /\ scmp S = scmp s /\
              (forall l k, bo S = Some (l, k) -> exists k', bo s = Some (l, k')) /\ (bo s = None -> bo S = None)).
  { intros Z z A1 A2 A3 A4 A5 A6 A7 A8 A9 S. repeat split; assumption. }
  destruct (sv_stop_timer s0 (rretry y)) as [T1' T2'].
  pose proof (bo_stop_timer s0 (rretry y)) as T3'.
  assert (TA : sfn (stop_timer s0 (rretry y)) = sfn s /\ ncb (stop_timer s0 (rretry y)) = ncb s /\ clock (stop_timer s0 (rretry y)) = clock s /\
               waiters (stop_timer s0 (rretry y)) = waiters s /\ scmp (stop_timer s0 (rretry y)) = scmp s).
  { unfold stop_timer. destruct (rretry y) as [t|]; [|auto]. destruct (nth_error (timers s0) t) as [u|]; [|auto]. destruct (tst u); auto. }
  destruct TA as (A1 & A2 & A3 & A4 & A5).
  change (bo s0) with (bo s) in *. destruct (bo s) as [[l k]|] eqn:Eb.
  - assert (B1 : forall (kk : nat) (l' : list N) (k' : nat), Some (l, kk) = Some (l', k') -> exists k'' : nat, Some (l, k) = Some (l', k'')) by (intros kk l' k' E; inversion E; subst; eauto).
    assert (B2 : forall kk : nat, Some (l, k) = None -> Some (l, kk) = None) by (intros kk E; discriminate E).
    destruct (is_nil o).
    + apply G; auto; [exact (B1 0) | intros E; discriminate E].
    + destruct (match routine (stop_timer s0 (rretry y)) with Some r' => Nat.eqb r' (irec x) | None => false end).
      * destruct (nth_error l k); cbv zeta; apply G; auto; try exact (B1 (S k)); intros E; discriminate E.
      * apply G; auto; rewrite T3'; [exact (B1 k) | exact (B2 k)].
  - apply G; auto. intros l k E. change (bo s0) with (bo s) in E. rewrite Eb in E. discriminate E.
Qed.

Lemma T1_bookkeep s i : BO s -> T1 s -> T1 (bookkeep s i).
Proof.
  intros HB H. unfold bookkeep. destruct (nth_error (insts s) i) as [x|]; [|exact H]. destruct (ipcv x); try exact H.
  set (s0 := seti s i (with_pc x IDone)). assert (H0 : T1 s0) by exact H.
  destruct (rctx (getr s (irec x))) as [j|]; [|exact H0]. destruct (Nat.eqb j i); [|exact H0].
  set (y := getr s (irec x)).
  assert (HT : T1 (stop_timer s0 (rretry y))) by (apply (T1_fr s0); [apply fr_stop_timer | exact H0]).
  assert (EC : clock (stop_timer s0 (rretry y)) = clock s).
  { unfold stop_timer. destruct (rretry y) as [t|]; [|reflexivity]. destruct (nth_error (timers s0) t) as [u|]; [|reflexivity]. destruct (tst u); reflexivity. }
  change (bo s0) with (bo s). destruct (bo s) as [[l k]|] eqn:Eb; [|exact H0].
  destruct (is_nil o); [exact HT|].
  destruct (match routine (stop_timer s0 (rretry y)) with Some r' => Nat.eqb r' (irec x) | None => false end); [|exact HT].
  destruct (nth_error l k) as [d|] eqn:Ed; [|exact HT].
  intros t u Hu Ha. cbn [timers clock do_bcast set_b set_cblog setr set_recs set_timers set_bo] in Hu |- *.
  apply nth_error_app_inv in Hu. destruct Hu as [Hu | ->]; [now apply (HT t u)|].
  cbn [tdead]. assert (d <> 0%N) by (apply (HB l k Eb); eapply nth_error_In; eauto). lia.
Qed.

Lemma T1_advance s d : T1 s -> T1 (advance s d).
Proof.
  intros H t x Hx Ha. unfold advance in *. cbn [timers clock set_timers set_clock] in *.
  rewrite nth_error_map in Hx. destruct (nth_error (timers s) t) as [u|]; [|discriminate]. cbn in Hx. inversion Hx; subst x. clear Hx.
  unfold fire in *. destruct (tst u) eqn:Eu; try (rewrite Eu in Ha; discriminate).
  destruct (N.leb_spec (tdead u) (clock s + d)) as [Hl|Hl]; [discriminate | exact Hl].
Qed.

Lemma step_T1 s e : BO s -> T1 s -> T1 (step repaired s e).
Proof.
  intros HB H. destruct (light e) eqn:El.
  - destruct (light_frame s e El) as (_ & _ & _ & _ & _ & _ & _ & _ & _ & _ & [[d ->] | [A B]]); [now apply T1_advance | now apply (T1_same s)].
  - destruct e; try discriminate; cbn [step].
    + eapply T1_fr; [apply fr_set_context | exact H].
    + destruct (sv s); [exact H|]. eapply T1_fr; [apply fr_set_routine_locked | exact H].
    + eapply T1_fr; [apply fr_restart_routine | exact H].
    + destruct (sv s); [|exact H]. rewrite set_state_locked_fst. destruct (state_equal _ _ _); [exact H|].
      apply (T1_fr (set_sval s v)); [eapply fr_trans; [apply fr_update_sr | apply fr_do_bcast] | exact H].
    + destruct (sv s); [|exact H]. rewrite swap_value_fst. cbn zeta. destruct (negb _); [|exact H].
      rewrite set_state_locked_fst. destruct (state_equal _ _ _); [exact H|].
      eapply (T1_fr (set_sval s _)); [eapply fr_trans; [apply fr_update_sr | apply fr_do_bcast] | exact H].
    + destruct (sv s); [|exact H]. apply (T1_fr (set_sfn s f)); [apply fr_update_sr | exact H].
    + now apply T1_bookkeep.
    + eapply T1_fr; [apply fr_timer_cb | exact H].
Qed.

(* ---- BO: the scripted durations never change (and are non-zero by hypothesis on the configuration) ---- *)
Lemma BO_same s s' : bo s' = bo s -> BO s -> BO s'.
Proof. intros E H. unfold BO. rewrite E. exact H. Qed.
Lemma BO_fr s s' : fr s s' -> BO s -> BO s'.
Proof. intros ((_ & _ & _ & E & _) & _). now apply BO_same. Qed.

Lemma step_BO s e : BO s -> BO (step repaired s e).
Proof.
  intros H. destruct (light e) eqn:El.
  - destruct (light_frame s e El) as (_ & _ & _ & _ & E & _). now apply (BO_same s).
  - destruct e; try discriminate; cbn [step].
    + eapply BO_fr; [apply fr_set_context | exact H].
    + destruct (sv s); [exact H|]. eapply BO_fr; [apply fr_set_routine_locked | exact H].
    + eapply BO_fr; [apply fr_restart_routine | exact H].
    + destruct (sv s); [|exact H]. rewrite set_state_locked_fst. destruct (state_equal _ _ _); [exact H|].
      apply (BO_fr (set_sval s v)); [eapply fr_trans; [apply fr_update_sr | apply fr_do_bcast] | exact H].
    + destruct (sv s); [|exact H]. rewrite swap_value_fst. cbn zeta. destruct (negb _); [|exact H].
      rewrite set_state_locked_fst. destruct (state_equal _ _ _); [exact H|].
      eapply (BO_fr (set_sval s _)); [eapply fr_trans; [apply fr_update_sr | apply fr_do_bcast] | exact H].
    + destruct (sv s); [|exact H]. apply (BO_fr (set_sfn s f)); [apply fr_update_sr | exact H].
    + intros l k E d Hd. destruct (bookkeep_aux s i) as (_ & _ & _ & _ & _ & _ & _ & B & _). destruct (B l k E) as [k' E']. exact (H l k' E' d Hd).
    + eapply BO_fr; [apply fr_timer_cb | exact H].
Qed.

(* ---- SV1: the state container has a routine exactly when it has a function and a non-empty state ---- *)
Lemma SV1_same s s' : sv s' = sv s -> routine s' = routine s -> sfn s' = sfn s -> sval s' = sval s -> SV1 s -> SV1 s'.
Proof. intros A B C D H. unfold SV1. rewrite A, B, C, D. exact H. Qed.

Lemma SV1_fr s s' : fr s s' -> routine s' = routine s -> SV1 s -> SV1 s'.
Proof. intros ((A & _ & _ & _ & _ & _ & _ & C & D & _) & _) B. now apply SV1_same. Qed.

Lemma SV1_update_sr s : Inv s -> SV1 (fst (update_sr repaired s)).
Proof.
  intros HI Hv. rewrite update_sr_fst in *.
  destruct (negb (Nat.eqb (sfn s) 0) && negb (N.eqb (sval s) 0)) eqn:E.
  - destruct (set_routine_locked_cls s (sfn s) (sval s) HI) as (_ & [R1 R2] & _).
    destruct (fr_set_routine_locked s (sfn s) (sval s)) as ((_ & _ & _ & _ & _ & _ & _ & C & D & _) & _). rewrite C, D, E.
    destruct (routine (fst (set_routine_locked repaired s (sfn s) (sval s)))) as [r|]; [reflexivity|].
    specialize (R1 eq_refl). apply andb_true_iff in E as [E _]. rewrite R1 in E. discriminate.
  - destruct (set_routine_locked_cls s 0 (sval s) HI) as (_ & [R1 R2] & _).
    destruct (fr_set_routine_locked s 0 (sval s)) as ((_ & _ & _ & _ & _ & _ & _ & C & D & _) & _). rewrite C, D, E.
    now rewrite (R2 eq_refl).
Qed.

Lemma step_SV1 s e : Inv s -> SV1 s -> SV1 (step repaired s e).
Proof.
  intros HI H. destruct (light e) eqn:El.
  - destruct (light_frame s e El) as (_ & A & _ & _ & _ & _ & B & C & D & _). now apply (SV1_same s).
  - destruct e; try discriminate; cbn [step].
    + apply (SV1_fr s); [apply fr_set_context | apply routine_set_context | exact H].
    + destruct (sv s) eqn:Ev; [exact H|]. intros Hv. destruct (fr_set_routine_locked s f (N.of_nat f)) as ((A & _) & _). congruence.
    + apply (SV1_fr s); [apply fr_restart_routine | apply routine_restart_routine | exact H].
    + destruct (sv s); [|exact H]. rewrite set_state_locked_fst. destruct (state_equal _ _ _); [exact H|].
      apply (SV1_same (fst (update_sr repaired (set_sval s v)))); try reflexivity. apply SV1_update_sr. now apply Inv_set_sval.
    + destruct (sv s); [|exact H]. rewrite swap_value_fst. cbn zeta. destruct (negb _); [|exact H].
      rewrite set_state_locked_fst. destruct (state_equal _ _ _); [exact H|].
      eapply (SV1_same (fst (update_sr repaired (set_sval s _)))); try reflexivity. apply SV1_update_sr. now apply Inv_set_sval.
    + destruct (sv s); [|exact H]. apply SV1_update_sr. now apply Inv_set_sfn.
    + destruct (bookkeep_frame s i) as (_ & R & _). destruct (bookkeep_aux s i) as (A & B & C & _). now apply (SV1_same s).
    + apply (SV1_fr s); [apply fr_timer_cb | apply routine_timer_cb | exact H].
Qed.

(* ---- all invariants together ---- *)
Definition MInv (s : st) : Prop := CK s /\ T5 s /\ T2 s /\ T1 s /\ SV1 s /\ BO s.
Definition AllInv (s : st) : Prop := Inv s /\ InvC s /\ SInv s /\ MInv s.

Lemma step_AllInv s e : AllInv s -> AllInv (step repaired s e).
Proof.
  intros (HI & HC & HS & (M1 & M2 & M3 & M4 & M5 & M6)).
  split; [now apply step_inv|]. split; [now apply step_InvC|]. split; [now apply SInv_step|].
  split; [now apply step_CK|]. split; [now apply step_T5|]. split; [now apply step_T2|]. split; [now apply step_T1|].
  split; [now apply step_SV1 | now apply step_BO].
Qed.

Lemma init_AllInv v c n sc : (forall l, sc = Some l -> forall d, In d l -> d <> 0%N) -> AllInv (init v c n sc).
Proof.
  intros Hsc. split; [apply init_inv|]. split; [apply init_InvC|]. split; [apply SInv_init|].
  split; [intros r i Hr; discriminate|]. split; [intros r Hr; discriminate|].
  split; [intros r t Hr; unfold getr in Hr; cbn in Hr; destruct r; discriminate|].
  split; [intros t x Hx; destruct t; discriminate|]. split; [intros _; reflexivity|].
  intros l k Hb. unfold init in Hb. cbn [bo] in Hb. destruct sc as [l0|]; [|discriminate]. inversion Hb; subst. now apply Hsc.
Qed.

(* start()'s "routine is still running" early return (a non-forced start on a record that has an instance context) is
   unreachable: both callers of a non-forced start pass a record without an instance context - SetContext has just
   stopped it, setRoutineLocked has just created it *)
Lemma start_still_running_test_false s r ctx w : rctx (getr s r) = None ->
  start_rec repaired s r ctx w false =
  (if rsucc (getr s r) || Nat.eqb (rfn (getr s r)) 0 then s else spawn (stop_rec s r) r ctx (match w with Some _ => w | None => lastexit (stop_rec s r) end)).
Proof.
  intros H. unfold start_rec. rewrite H. cbn [negb andb fx_last repaired]. destruct (rsucc (getr s r) || Nat.eqb (rfn (getr s r)) 0); reflexivity.
Qed.

Lemma nonforced_start_sites_have_no_instance_context :
  (forall s c r, r < length (recs s) -> rctx (getr (stop_rec (set_kctx s c) r) r) = None) /\
  (forall s1 f arg, rctx (getr (set_routine (set_recs s1 (recs s1 ++ [new_rec f arg])) (Some (length (recs s1)))) (length (recs s1))) = None).
Proof.
  split.
  - intros s c r Hl. rewrite getr_stop_rec by exact Hl. now rewrite Nat.eqb_refl.
  - intros s1 f arg. rewrite getr_new_rec, Nat.ltb_irrefl, Nat.eqb_refl. reflexivity.
Qed.
