(* routine: what a bookkeeping section that records an exit does to instances, records, timers and the back-off.
   Part of the proof of model_satisfies_monitors (ProofsMon.v). *)
From Util Require Import Common.Base Common.ListLemmas Routine.Model Routine.Proofs Routine.ProofsC05 Routine.ProofsC14 Routine.ProofsC14b
  Routine.ProofsMonInv.

Lemma timers_stop_timer_ext a b ot : timers a = timers b -> timers (stop_timer a ot) = timers (stop_timer b ot).
Proof.
  intros E. unfold stop_timer. destruct ot as [t|]; [|exact E]. rewrite E. destruct (nth_error (timers b) t) as [x|]; [|exact E].
  destruct (tst x); try exact E. reflexivity.
Qed.

Lemma clock_stop_timer s ot : clock (stop_timer s ot) = clock s.
Proof. unfold stop_timer. destruct ot as [t|]; [|reflexivity]. destruct (nth_error (timers s) t) as [x|]; [|reflexivity]. destruct (tst x); reflexivity. Qed.

Lemma insts_stop_timer s ot : insts (stop_timer s ot) = insts s.
Proof. destruct (stop_timer_other s ot) as [E _]. exact E. Qed.
Lemma recs_stop_timer s ot : recs (stop_timer s ot) = recs s.
Proof. destruct (stop_timer_other s ot) as [_ [_ [_ [E _]]]]. exact E. Qed.
Lemma routine_stop_timer s ot : routine (stop_timer s ot) = routine s.
Proof. destruct (stop_timer_other s ot) as [_ [_ [E _]]]. exact E. Qed.

Lemma bookkeep_dead s i : dead (bookkeep s i) = dead s.
Proof.
  unfold bookkeep. destruct (nth_error (insts s) i) as [x|]; [|reflexivity]. destruct (ipcv x); try reflexivity.
  set (s0 := seti s i (with_pc x IDone)). destruct (rctx (getr s (irec x))) as [j|]; [|reflexivity]. destruct (Nat.eqb j i); [|reflexivity].
  pose proof (dead_stop_timer s0 (rretry (getr s (irec x)))) as T.
  destruct (bo s0) as [[l k]|]; [|reflexivity].
  destruct (is_nil o); [exact T|].
  destruct (match routine (stop_timer s0 (rretry (getr s (irec x)))) with Some r' => Nat.eqb r' (irec x) | None => false end); [|exact T].
  destruct (nth_error l k); exact T.
Qed.

Section Book.
  Variables (s : st) (i : nat) (x : inst) (o : outcome).
  Hypothesis Hx : nth_error (insts s) i = Some x.
  Hypothesis Hp : ipcv x = IBook o.
  Let r := irec x.
  Let y := getr s r.
  Let s0 := seti s i (with_pc x IDone).
  Let T := timers (stop_timer s (rretry y)).

  Lemma bookkeep_unreported : rctx y <> Some i -> bookkeep s i = s0.
  Proof.
    intros Hn. unfold bookkeep. rewrite Hx, Hp. fold r. fold y. destruct (rctx y) as [j|]; [|reflexivity].
    destruct (Nat.eqb_spec j i) as [->|]; [contradiction | reflexivity].
  Qed.

  (* the generic shape of the recording branches *)
  Definition fin (Z : st) (z : rec) : st := do_bcast (set_cblog (setr Z r z) (cblog (setr Z r z) ++ repeat o (ncb (setr Z r z)))).

  Lemma getr_fin Z z q : recs Z = recs s -> r < length (recs s) -> getr (fin Z z) q = if Nat.eqb q r then z else getr s q.
  Proof.
    intros E Hl. unfold fin. rewrite getr_bc, getr_setr_eq by (now rewrite E). destruct (Nat.eqb q r); [reflexivity|]. unfold getr. now rewrite E.
  Qed.

  Definition rec_upd (succ : bool) (retry : option nat) : rec :=
    {| rfn := rfn y; rarg := rarg y; rctx := rctx y; rcancel := rcancel y; rexit := None;
       rerr := o; rsucc := succ; rexited := true; rretry := retry |}.

  Lemma bookkeep_reported : rctx y = Some i -> r < length (recs s) ->
    exists Z retry,
      bookkeep s i = fin Z (rec_upd (is_nil o) retry) /\ insts Z = insts s0 /\ recs Z = recs s /\ routine Z = routine s /\
      match bo s with
      | None => timers Z = timers s /\ retry = rretry y
      | Some (l, k) =>
        if is_nil o then timers Z = T /\ retry = None
        else if (match routine s with Some r' => Nat.eqb r' r | None => false end)
             then match nth_error l k with
                  | Some d => timers Z = T ++ [{| trec := r; tdead := (clock s + d)%N; tst := TArmed |}] /\ retry = Some (length T)
                  | None => timers Z = T /\ retry = None
                  end
             else timers Z = T /\ retry = None
      end.
  Proof.
    intros Hc Hl. unfold bookkeep. rewrite Hx, Hp. fold r. fold y. rewrite Hc, Nat.eqb_refl. fold s0.
    assert (ET : timers (stop_timer s0 (rretry y)) = T) by (apply timers_stop_timer_ext; reflexivity).
    change (bo s0) with (bo s). destruct (bo s) as [[l k]|] eqn:Eb.
    - destruct (is_nil o) eqn:En.
      + exists (set_bo (stop_timer s0 (rretry y)) (Some (l, 0))), None. unfold fin, rec_upd. fold r. rewrite Hc.
        split; [reflexivity|]. split; [exact (insts_stop_timer s0 (rretry y))|]. split; [exact (recs_stop_timer s0 (rretry y))|]. split; [exact (routine_stop_timer s0 (rretry y))|]. auto.
      + rewrite routine_stop_timer. change (routine s0) with (routine s).
        destruct (match routine s with Some r' => Nat.eqb r' r | None => false end) eqn:Ecur.
        * destruct (nth_error l k) as [d|] eqn:Ed.
          -- eexists (set_timers (set_bo (stop_timer s0 (rretry y)) (Some (l, S k))) _), (Some (length (timers (stop_timer s0 (rretry y))))).
             cbv zeta. unfold fin, rec_upd. fold r. rewrite Hc.
             split; [reflexivity|]. split; [exact (insts_stop_timer s0 (rretry y))|]. split; [exact (recs_stop_timer s0 (rretry y))|]. split; [exact (routine_stop_timer s0 (rretry y))|].
             cbn [timers set_timers]. rewrite clock_stop_timer, ET. change (clock s0) with (clock s). auto.
          -- exists (set_bo (stop_timer s0 (rretry y)) (Some (l, S k))), None. unfold fin, rec_upd. fold r. rewrite Hc.
             split; [reflexivity|]. split; [exact (insts_stop_timer s0 (rretry y))|]. split; [exact (recs_stop_timer s0 (rretry y))|]. split; [exact (routine_stop_timer s0 (rretry y))|]. auto.
        * exists (stop_timer s0 (rretry y)), None. unfold fin, rec_upd. fold r. rewrite Hc.
          split; [reflexivity|]. split; [exact (insts_stop_timer s0 (rretry y))|]. split; [exact (recs_stop_timer s0 (rretry y))|]. split; [exact (routine_stop_timer s0 (rretry y))|]. auto.
    - exists s0, (rretry y). unfold fin, rec_upd. fold r. rewrite Hc. split; [reflexivity|]. repeat split; reflexivity.
  Qed.
End Book.
