From Util Require Import Common.Base Common.ListLemmas Routine.Model Routine.Proofs.
