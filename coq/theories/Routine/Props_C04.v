(* C04 - routine: at most one instance of the managed function executes at a time.
   Statements only.  "For every sequence of calls, at any pace" = for every list of events of the gate-level model
   (API sections, instances leaving their first select in either order, wake-ups, user-function returns with any
   outcome, bookkeeping sections, clock advances, timer callbacks, WaitExited callers), plain and state variant,
   with and without back-off.  No bound on the number of instances. *)
From Util Require Import Common.Base Common.ListLemmas Routine.Model Routine.Proofs Routine.Spec Routine.ProofsMon.
Close Scope N_scope.

(* never two instances inside the managed function *)
Theorem c04_at_most_one_in_user : forall variant cmp ncb script es,
  cnt in_user (insts (run repaired (init variant cmp ncb script) es)) <= 1.
Proof. exact at_most_one_in_user. Qed.
Print Assumptions c04_at_most_one_in_user.

(* an instance enters the function only when every earlier instance has returned *)
Theorem c04_enter_only_after_all_earlier_returned : forall variant cmp ncb script es i x,
  let s := run repaired (init variant cmp ncb script) es in
  nth_error (insts s) i = Some x -> in_user x = true ->
  forall k y, k < i -> nth_error (insts s) k = Some y -> over y = true.
Proof. exact enter_only_after_all_earlier. Qed.
Print Assumptions c04_enter_only_after_all_earlier_returned.

(* the chain: every instance waits on its predecessor's exit channel (or on nothing if it is the first), and an exit
   channel is closed exactly when its instance has left user code, which implies that all earlier ones have *)
Theorem c04_chain_invariant : forall variant cmp ncb script es i x,
  let s := run repaired (init variant cmp ncb script) es in
  nth_error (insts s) i = Some x ->
  iwait x = pred_idx i /\ iexit x = over x /\
  (over x = true \/ in_user x = true -> forall j y, j < i -> nth_error (insts s) j = Some y -> over y = true).
Proof. intros v c n sc es i x s Hx. exact (proj1 (run_inv v c n sc es) i x Hx). Qed.
Print Assumptions c04_chain_invariant.

(* the channel returned by SetRoutine / SetState / SwapValue / SetStateRoutine is the exit channel of the newest
   instance, and once it is closed that instance and all earlier ones have returned *)
Theorem c04_wait_return_is_newest_exit_channel : forall variant cmp ncb script es f arg j,
  let s := run repaired (init variant cmp ncb script) es in
  fst (snd (set_routine_locked repaired s f arg)) = Some j -> S j = length (insts s).
Proof. exact wait_return_is_newest. Qed.
Print Assumptions c04_wait_return_is_newest_exit_channel.

Theorem c04_closed_wait_return_means_all_earlier_returned : forall variant cmp ncb script es j x,
  let s := run repaired (init variant cmp ncb script) es in
  nth_error (insts s) j = Some x -> iexit x = true ->
  forall k y, k <= j -> nth_error (insts s) k = Some y -> over y = true.
Proof. exact closed_exit_all_earlier_over. Qed.
Print Assumptions c04_closed_wait_return_means_all_earlier_returned.

(* historical: the pinned code (before the fix: commits D2 and D3) ran two instances at once *)
Theorem c04_pinned_d2_refuted : cnt in_user (insts (run pinned_d2 (init false 1 1 None) d2_witness)) = 2.
Proof. exact d2_refuted. Qed.
Theorem c04_pinned_d3_refuted : cnt in_user (insts (run pinned_d3 (init false 1 1 None) d3_witness)) = 2.
Proof. exact d3_refuted. Qed.

(* non-vacuity: the repaired model on the D2 schedule: the third instance waits (blocked) while the first still runs *)
Example c04_example_chain :
  let s := run repaired (init false 1 1 None) d2_witness in
  cnt in_user (insts s) = 1 /\ length (insts s) = 3 /\ ipcv (geti s 1) = IWaitC /\ ipcv (geti s 2) = IWait.
Proof. vm_compute. repeat split; reflexivity. Qed.
Example c04_example_handover :
  let s := run repaired (init false 1 1 None) (d2_witness ++ [EReturn 0 OCanc; EWake 1 true; EWake 2 true]) in
  cnt in_user (insts s) = 1 /\ in_user (geti s 2) = true /\ over (geti s 0) = true /\ over (geti s 1) = true.
Proof. vm_compute. repeat split; reflexivity. Qed.

(* Monitors and model, for EVERY event list (no bound on length, instances, callers): whenever the schedule-level step
   function of Routine/Spec.v accepts the events, the monitors (one function for C04, C05 and C14; clauses 4/1: at most
   one instance observed inside the managed function, 4/2: a closed waitReturn channel only when every earlier instance
   is over) running on the observations the model itself produces report no false clause.  Hence the model satisfies
   the property in exactly the form evaluated on implementation traces, and the monitors raise no alarm on an
   implementation that behaves like the model.  [cfg_ok]: at least one exit callback and no zero back-off duration
   (both needed by C14's clauses only, see Props_C14.v). *)
Theorem c04_model_satisfies_monitors : forall cfg evs, cfg_ok cfg = true ->
  monitor mon 0 (minit cfg) [] evs (run_obs step_opt (hinit cfg) evs) = [].
Proof. exact model_satisfies_monitors. Qed.
Print Assumptions c04_model_satisfies_monitors.
