(* routine: the observation codec read back by the monitors' parser, and the shape of one harness-level step.
   Part of the proof of model_satisfies_monitors (ProofsMon.v). *)
From Util Require Import Common.Base Common.ListLemmas Routine.Model Routine.Spec.
Open Scope N_scope.

(* ------------------------------------------------------------------ *)
(* take / take_insts on a prefix of known length *)
Lemma take_app {A} (a b : list A) : take (length a) (a ++ b) = Some (a, b).
Proof. induction a as [|x a IH]; [reflexivity|]. cbn [length app take]. now rewrite IH. Qed.

Definition ituple (ex : list nat) (k : nat) (x : inst) : N * N * N * N :=
  if existsb (Nat.eqb k) ex then (6, 0, 0, 0)
  else match ipcv x with
       | IGate0 => (1, 0, 0, 0)
       | IWait | IWaitC => (2, 0, 0, 0)
       | IUser => (3, iarg x, N.of_nat (iroot x), nb (icanc x))
       | IBook _ => (4, 0, 0, 0)
       | IDone => (5, 0, 0, 0)
       end.
Fixpoint ituples (ex : list nat) (k : nat) (l : list inst) : list (N * N * N * N) :=
  match l with [] => [] | x :: r => ituple ex k x :: ituples ex (S k) r end.

Lemma take_insts_icodes ex l : forall k rest,
  take_insts (length l) (icodes ex k l ++ rest) = Some (ituples ex k l, rest).
Proof.
  induction l as [|x l IH]; intros k rest; [reflexivity|].
  cbn [length icodes ituples take_insts]. unfold icode_at, ituple, icode.
  destruct (existsb (Nat.eqb k) ex).
  - cbn [app]. now rewrite IH.
  - destruct (ipcv x); cbn [app]; now rewrite IH.
Qed.

Lemma length_ituples ex l : forall k, length (ituples ex k l) = length l.
Proof. induction l as [|x l IH]; intros k; [reflexivity|]. cbn. now rewrite IH. Qed.

Lemma nth_error_ituples ex l : forall k i,
  nth_error (ituples ex k l) i = option_map (ituple ex (k + i)) (nth_error l i).
Proof.
  induction l as [|x l IH]; intros k i; [destruct i; reflexivity|].
  destruct i as [|i]; cbn [ituples nth_error option_map].
  - now rewrite Nat.add_0_r.
  - rewrite IH. now rewrite Nat.add_succ_r.
Qed.

Definition pobs_of (rets : list N) (h : hst) : pobs :=
  let s := hs h in
  {| po_rets := rets; po_insts := ituples (hexit h) 0 (insts s); po_chans := map (chcode s) (hch h);
     po_delta := map enc_out (skipn (hlog h) (cblog s)); po_waits := map wcode (waiters s);
     po_parked := N.of_nat (cnt is_fired (timers s)) |}.

Lemma n2n_of_nat k : n2n (N.of_nat k) = k.
Proof. apply Nnat.Nat2N.id. Qed.

Lemma parse_obs_of e rets h : length rets = nrets e -> parse e (obs_of rets h) = Some (pobs_of rets h).
Proof.
  intros Hl. unfold parse, obs_of. rewrite <- Hl, take_app.
  cbn [app]. rewrite n2n_of_nat, take_insts_icodes.
  cbn [app]. rewrite n2n_of_nat. rewrite <- (map_length (chcode (hs h)) (hch h)), take_app.
  cbn [app]. rewrite n2n_of_nat.
  replace (length (cblog (hs h)) - hlog h)%nat with (length (map enc_out (skipn (hlog h) (cblog (hs h))))) by (now rewrite map_length, skipn_length).
  rewrite take_app. cbn [app]. rewrite n2n_of_nat.
  rewrite <- (map_length wcode (waiters (hs h))), take_app. reflexivity.
Qed.

(* ------------------------------------------------------------------ *)
(* one harness-level step: a model operation, then the eager schedule *)
Inductive hev (h : hst) : list N -> st -> list (option nat) -> list N -> list nat -> Prop :=
| HSetCtx c r s1 chg : set_context repaired (hs h) (n2n c) (nz r) = (s1, chg) ->
    hev h [1; c; r] s1 (hch h) [nb chg] (hexit h)
| HSetRoutine f s1 w reset : sv (hs h) = false -> set_routine_locked repaired (hs h) (n2n f) f = (s1, (w, reset)) ->
    hev h [2; f] s1 (hch h ++ [w]) [wr_code w; nb reset] (hexit h)
| HRestart s1 r : restart_routine repaired (hs h) = (s1, r) -> hev h [3] s1 (hch h) [nb r] (hexit h)
| HSetState v s1 w changed reset running : sv (hs h) = true ->
    set_state_locked repaired (hs h) v = (s1, (w, changed, reset, running)) ->
    hev h [4; v] s1 (hch h ++ [w]) [wr_code w; nb changed; nb reset; nb running] (hexit h)
| HSwap g s1 next w changed reset running : sv (hs h) = true ->
    swap_value repaired (hs h) (n2n g) = (s1, (next, w, changed, reset, running)) ->
    hev h [5; g] s1 (hch h ++ [w]) [next; wr_code w; nb changed; nb reset; nb running] (hexit h)
| HSetSR f s1 w reset running : sv (hs h) = true ->
    update_sr repaired (set_sfn (hs h) (n2n f)) = (s1, (w, reset, running)) ->
    hev h [6; f] s1 (hch h ++ [w]) [wr_code w; nb reset; nb running] (hexit h)
| HGetState : sv (hs h) = true -> hev h [7] (hs h) (hch h) [sval (hs h)] (hexit h)
| HProceed i en x : nth_error (insts (hs h)) (n2n i) = Some x -> ipcv x = IGate0 ->
    hev h [8; i; en] (proceed repaired (hs h) (n2n i) (nz en)) (hch h) [] (hexit h)
| HReturn i o x : nth_error (insts (hs h)) (n2n i) = Some x -> ipcv x = IUser ->
    hev h [9; i; o] (fn_return (hs h) (n2n i) (dec_out o)) (hch h) [] (hexit h)
| HBook i x o : nth_error (insts (hs h)) (n2n i) = Some x -> ipcv x = IBook o ->
    hev h [10; i] (bookkeep (hs h) (n2n i)) (hch h) [] (if hexitg h then hexit h ++ [n2n i] else hexit h)
| HLeave i : existsb (Nat.eqb (n2n i)) (hexit h) = true ->
    hev h [17; i] (hs h) (hch h) [] (filter (fun k => negb (Nat.eqb k (n2n i))) (hexit h))
| HAdvance d : hev h [11; d] (advance (hs h) d) (hch h) [] (hexit h)
| HCancelRoot c : hev h [18; c] (cancel_root (hs h) (n2n c)) (hch h) [] (hexit h)
| HTimer k t : nth_error (fired_sorted (timers (hs h))) (n2n k) = Some t ->
    hev h [12; k] (timer_cb repaired (hs h) t) (hch h) [] (hexit h)
| HWaitExited rinr : hev h [13; rinr] (step repaired (hs h) (EWaitExited (nz rinr))) (hch h) [] (hexit h)
| HWSect a w : nth_error (waiters (hs h)) (n2n a) = Some w -> wpcv w = WGate ->
    hev h [14; a] (wait_section (hs h) (n2n a)) (hch h) [] (hexit h)
| HWCancel a w : nth_error (waiters (hs h)) (n2n a) = Some w -> (forall o, wpcv w <> WRet o) -> wcanc w = false ->
    hev h [15; a] (wait_cancel (hs h) (n2n a)) (hch h) [] (hexit h)
| HWErr a code w ch : nth_error (waiters (hs h)) (n2n a) = Some w -> wpcv w = WBlocked ch ->
    hev h [16; a; code] (wait_errch (hs h) (n2n a) (n2n code)) (hch h) [] (hexit h).

Definition hfin (h : hst) (s1 : st) (ch : list (option nat)) (ex : list nat) : hst :=
  {| hs := settle s1; hch := ch; hlog := length (cblog (settle s1)); hexitg := hexitg h; hexit := ex |}.
Definition hmid (h : hst) (s1 : st) (ch : list (option nat)) (ex : list nat) : hst :=
  {| hs := settle s1; hch := ch; hlog := hlog h; hexitg := hexitg h; hexit := ex |}.

Lemma hstep_decomp h e h' o : hstep h e = Some (h', o) ->
  exists s1 ch rets ex, hev h e s1 ch rets ex /\ h' = hfin h s1 ch ex /\ o = obs_of rets (hmid h s1 ch ex).
Proof.
  intros H. unfold hstep in H.
  repeat (match type of H with context [match ?t with _ => _ end] =>
            lazymatch t with hexitg _ => fail | _ => destruct t eqn:?; try discriminate H end end).
  all: subst; injection H as <- <-; do 4 eexists; (split; [|split; reflexivity]); try (econstructor; eassumption); try (econstructor; eauto; fail).
  - eapply HWCancel; eauto. intros o0 E. congruence.
  - eapply HWCancel; eauto. intros o0 E. congruence.
Qed.

Lemma hev_nrets h e s1 ch rets ex : hev h e s1 ch rets ex -> length rets = nrets e.
Proof. intros H. destruct H; reflexivity. Qed.
