(* routine: the monitor step [mon1] cut into named pieces (the same terms, one definition per let-binding), so that the
   proof of model_satisfies_monitors (ProofsMon.v) can treat them one at a time. *)
From Util Require Import Common.Base Common.ListLemmas Routine.Model Routine.Spec.
Open Scope N_scope.

Section Pieces.
  Variables (m : mst) (e : list N) (p : pobs).
  Definition x_is := po_insts p.
  Definition x_n := length x_is.
  Definition x_spawned := Nat.ltb (m_ninst m) x_n.
  Definition x_newest := (x_n - 1)%nat.
  Definition x_epoch := epoch_event e p.
  Definition x_is_dead := existsb (N.eqb (m_ctx m)) (m_dead m).
  Definition x_forgets := (x_epoch || match e with [3] => true | [14; _] => true | _ => false end) && x_is_dead.
  Definition x_ctx0 := if x_forgets then 0 else m_ctx m.
  Definition x_ctx := match e with [1; c; _] => c | _ => x_ctx0 end.
  Definition x_st := match e with
             | [4; v] => match po_rets p with [_; ch; _; _] => if nz ch then v else m_st m | _ => m_st m end
             | [5; _] => match po_rets p with [nx; _; ch; _; _] => if nz ch then nx else m_st m | _ => m_st m end
             | _ => m_st m
             end.
  Definition x_sfn := match e with [6; f] => f | _ => m_sfn m end.
  Definition x_hasr := if m_sv m then nz x_sfn && nz x_st
               else match e with [2; f] => nz f | _ => m_hasr m end.
  Definition x_clock := match e with [11; d] => m_clock m + d | _ => m_clock m end.
  Definition x_out' := (m_out m ++ repeat 1 (x_n - length (m_out m)))%list.
  Definition x_out := match e with [9; i; o] => set_nth x_out' (n2n i) o | _ => x_out' end.
  Definition x_chans := match e with
                | 2 :: _ | 4 :: _ | 5 :: _ | 6 :: _ => (m_chans m ++ [m_ninst m])%list
                | _ => m_chans m
                end.
  Definition x_wcanc := match e with
                | 13 :: _ => (m_wcanc m ++ [false])%list
                | [15; a] => set_nth (m_wcanc m) (n2n a) true
                | _ => m_wcanc m
                end.
  Definition x_f4 := fails 4 1 (Nat.leb (cnt in_user_obs x_is) 1) ++ fails 4 2 (chans_ok (po_chans p) x_chans x_is).
  Definition x_f5 := fails 5 1 (forallb (fun kx => negb (live_user_obs (snd kx)) || Nat.eqb (fst kx) x_newest) (indexed_from 0 x_is))
            ++ fails 5 2 (negb (existsb live_user_obs x_is) || (nz x_ctx && x_hasr))
            ++ fails 5 3 (forallb (fun x => let '(c, a, r, k) := x in
                                    negb (live_user_obs x) || (N.eqb r x_ctx && (negb (m_sv m) || N.eqb a x_st))) x_is).
  Definition x_is_restart := match e with [3] => true | _ => false end.
  Definition x_is_ctx_restart := match e with [1; _; r] => nz r | _ => false end.
  Definition x_is_timer := match e with 12 :: _ => true | _ => false end.
  Definition x_f14a := fails 14 1 (negb (x_spawned && m_succ m) || x_is_restart || x_epoch)
              ++ fails 14 2 (negb (x_spawned && m_err m) || x_is_restart || x_is_ctx_restart || x_is_timer || x_epoch).
  Definition x_delta := po_delta p.
  Definition x_is_book := match e with [10; _] => true | [17; _] => true | _ => false end.
  Definition x_book_i := match e with [10; i] => n2n i | [17; i] => n2n i | _ => 0%nat end.
  Definition x_my_out := nth x_book_i x_out 1.
  Definition x_nodelta := match x_delta with [] => true | _ => false end.
  Definition x_must_report := Nat.eqb x_book_i x_newest && m_quiet m && Nat.ltb 0 (m_ncb m).
  Definition x_parked_after := match e with [10; _] => N.eqb (icode_of (nth x_book_i x_is (0, 0, 0, 0))) 6 | _ => false end.
  Definition x_pend_entry := find (fun t => Nat.eqb (fst (fst t)) x_book_i) (m_pend m).
  Definition x_f14e :=
    match e with
    | [10; _] =>
      fails 14 5 ((x_nodelta || (Nat.eqb (length x_delta) (m_ncb m) && all_eq x_my_out x_delta))
                  && (x_parked_after || negb x_must_report || negb x_nodelta))
    | [17; _] =>
      match x_pend_entry with
      | Some (_, reported, must) =>
        fails 14 5 ((x_nodelta || (negb reported && Nat.eqb (length x_delta) (m_ncb m) && all_eq x_my_out x_delta))
                    && (negb must || reported || negb x_nodelta))
      | None => fails 14 5 x_nodelta
      end
    | _ => fails 14 5 x_nodelta
    end.
  Definition x_pend := match e with
               | [10; _] => if x_parked_after then (m_pend m ++ [(x_book_i, negb x_nodelta, x_must_report)])%list else m_pend m
               | [17; _] => filter (fun t => negb (Nat.eqb (fst (fst t)) x_book_i)) (m_pend m)
               | _ => m_pend m
               end.
  Definition x_clear_ctx := match e with [1; c; _] => N.eqb c 0 && nz (m_ctx m) | _ => false end.
  Definition x_cur := if x_spawned then Some x_newest else if x_epoch || x_clear_ctx then None else m_cur m.
  Definition x_recorded := x_is_book && negb x_nodelta
                  && match m_cur m with Some c => Nat.eqb c x_book_i | None => false end.
  Definition x_rec_ok := x_recorded && N.eqb x_my_out 0.
  Definition x_rec_err := x_recorded && negb (N.eqb x_my_out 0).
  Definition x_rep_ok := x_is_book && negb x_nodelta && N.eqb x_my_out 0.
  Definition x_bo : nat * option N :=
    match m_script m with
    | Some l => if x_rec_ok then (0%nat, None)
                else if x_rec_err then (S (m_idx m), match nth_error l (m_idx m) with
                                                     | Some d => if nz x_ctx then Some (x_clock + d) else None
                                                     | None => None
                                                     end)
                else ((if x_rep_ok then 0%nat else m_idx m), m_pending m)
    | None => (m_idx m, None)
    end.
  Definition x_clears := x_spawned || x_epoch || x_is_restart || x_is_ctx_restart || (match e with [1; c; _] => N.eqb c 0 | _ => false end) || x_forgets.
  Definition x_pending := if x_rec_err then snd x_bo else if x_clears then None else snd x_bo.
  Definition x_f14c := fails 14 3 (match x_pending with
                          | Some d => negb (N.leb d x_clock) || negb (N.eqb (po_parked p) 0)
                          | None => true
                          end).
  Definition x_curexit0 := if x_spawned || x_epoch then None else m_curexit m.
  Definition x_f14w :=
    match e with
    | [14; a] =>
      match nth_error (po_waits p) (n2n a) with
      | Some wc =>
        if N.leb 3 wc then
          let o := wc - 3 in
          let expect := if nz x_ctx0 && m_hasr m then m_curexit m else None in
          fails 14 4 (match expect with
                      | Some x => N.eqb o x
                      | None => (N.eqb o 1 && nth (n2n a) (m_wcanc m) false) || (N.eqb o 0 && negb (nz x_ctx0 && m_hasr m))
                      end)
        else []
      | None => [(14, 4)]%nat
      end
    | _ => []
    end.
  Definition x_curexit := if x_recorded then Some x_my_out else x_curexit0.
  Definition x_succ := if x_spawned || x_epoch then false else if x_rec_ok then true else m_succ m.
  Definition x_err := if x_spawned || x_epoch then false else if x_rec_err then true else if x_rec_ok then false else m_err m.
  Definition x_api := match e with 1 :: _ | 2 :: _ | 3 :: _ | 4 :: _ | 5 :: _ | 6 :: _ | 12 :: _ => true | _ => false end.
  Definition x_quiet := if x_spawned then true else if x_api then false else m_quiet m.
  Definition x_state : mst :=
    {| m_sv := m_sv m; m_ncb := m_ncb m; m_script := m_script m; m_idx := fst x_bo;
       m_ctx := x_ctx; m_hasr := x_hasr; m_sfn := x_sfn; m_st := x_st; m_clock := x_clock;
       m_ninst := x_n; m_out := x_out; m_chans := x_chans;
       m_succ := if x_recorded then x_rec_ok else x_succ; m_err := if x_recorded then x_rec_err else x_err;
       m_curexit := x_curexit; m_pending := x_pending; m_quiet := x_quiet; m_cur := x_cur; m_exitg := m_exitg m; m_pend := x_pend; m_wcanc := x_wcanc;
       m_dead := match e with [18; c] => c :: m_dead m | _ => m_dead m end |}.
  Definition x_fails : list (nat * nat) :=
    x_f4 ++ x_f5 ++ (if m_exitg m then [] else x_f14a) ++ x_f14e ++ (if m_exitg m then [] else x_f14c ++ x_f14w).
End Pieces.

Lemma mon1_eq m e p : mon1 m e p = (x_state m e p, x_fails m e p).
Proof.
  unfold mon1. cbv zeta.
  match goal with |- (let '(a, b) := ?X in _) = _ => change X with (x_bo m e p) end.
  unfold x_state, x_fails, x_f14c, x_pending. destruct (x_bo m e p) as [a b] eqn:E. cbn [fst snd]. reflexivity.
Qed.
