(* routine: the monitors accept the model's own behaviour - BOUNDED check (a kernel computation, not an unbounded
   theorem): for every sequence of at most [depth] events over a fixed alphabet that the schedule-level model accepts
   from the initial state of a configuration, the monitors of C04, C05 and C14 report nothing on the model's own
   observations.  This ties the monitors (which are what is evaluated on implementation traces) to the model (which
   is what the theorems are about) on all short histories; the unbounded statement is not proved for this slice. *)
From Util Require Import Common.Base Common.ListLemmas Routine.Model Routine.Spec.
Open Scope N_scope.

Definition alphabet (variant : bool) : list (list N) :=
  [[1; 1; 0]; [1; 1; 1]; [1; 2; 0]; [1; 0; 0]; [3];
   [8; 0; 1]; [8; 1; 1]; [8; 1; 0]; [8; 2; 1];
   [9; 0; 0]; [9; 0; 1]; [9; 0; 2]; [9; 1; 0]; [9; 1; 2]; [9; 2; 2];
   [10; 0]; [10; 1]; [10; 2]; [17; 0]; [17; 1];
   [11; 100]; [12; 0]; [13; 1]; [13; 0]; [14; 0]; [15; 0]; [18; 1]]
  ++ (if variant then [[4; 1]; [4; 2]; [4; 0]; [5; 1]; [6; 1]; [6; 0]; [7]] else [[2; 1]; [2; 2]; [2; 0]]).

Fixpoint sweep (alpha : list (list N)) (depth : nat) (h : hst) (m : mst) : bool :=
  match depth with
  | O => true
  | S d =>
    forallb (fun e =>
      match hstep h e with
      | None => true
      | Some (h', o) =>
        match mon (Some m) e o with
        | (Some m', []) => sweep alpha d h' m'
        | _ => false
        end
      end) alpha
  end.

Definition sweep_cfg (cfg : list N) (depth : nat) : bool :=
  match hinit cfg, minit cfg with
  | Some h, Some m => sweep (alphabet (match cfg with v :: _ => nz v | [] => false end)) depth h m
  | _, _ => false
  end.

Lemma sweep_plain : sweep_cfg [0; 1; 1; 0; 0] 5 = true.
Proof. vm_compute. reflexivity. Qed.
Lemma sweep_plain_backoff : sweep_cfg [0; 1; 2; 1; 0; 100; 200] 5 = true.
Proof. vm_compute. reflexivity. Qed.
Lemma sweep_plain_exitgate : sweep_cfg [0; 1; 1; 1; 1; 100] 5 = true.
Proof. vm_compute. reflexivity. Qed.
Lemma sweep_state : sweep_cfg [1; 1; 1; 0; 0] 5 = true.
Proof. vm_compute. reflexivity. Qed.
Lemma sweep_state_mod2_backoff : sweep_cfg [1; 2; 1; 1; 0; 100] 5 = true.
Proof. vm_compute. reflexivity. Qed.

(* the same after fixed prefixes that reach deeper situations *)
Fixpoint replay_prefix (h : hst) (m : mst) (evs : list (list N)) : option (hst * mst) :=
  match evs with
  | [] => Some (h, m)
  | e :: r =>
    match hstep h e with
    | Some (h', o) => match mon (Some m) e o with (Some m', []) => replay_prefix h' m' r | _ => None end
    | None => None
    end
  end.
Definition sweep_after (cfg : list N) (prefix : list (list N)) (depth : nat) : bool :=
  match hinit cfg, minit cfg with
  | Some h, Some m =>
    match replay_prefix h m prefix with
    | Some (h', m') => sweep (alphabet (match cfg with v :: _ => nz v | [] => false end)) depth h' m'
    | None => false
    end
  | _, _ => false
  end.

(* an errored routine with its retry timer fired and parked, then restarted: the stale-callback situation of D20 *)
Lemma sweep_after_error_and_fired_timer :
  sweep_after [0; 1; 1; 1; 0; 100; 100] [[1; 1; 0]; [2; 1]; [8; 0; 1]; [9; 0; 2]; [10; 0]; [11; 100]; [3]] 4 = true.
Proof. vm_compute. reflexivity. Qed.
(* three chained instances, the first still in user code *)
Lemma sweep_after_chain_of_three :
  sweep_after [0; 1; 1; 0; 0] [[1; 1; 0]; [2; 1]; [8; 0; 1]; [3]; [8; 1; 0]; [3]] 4 = true.
Proof. vm_compute. reflexivity. Qed.
(* state container with a running instance and a blocked WaitExited caller *)
Lemma sweep_after_state_running :
  sweep_after [1; 1; 1; 1; 0; 100] [[1; 1; 0]; [6; 1]; [4; 1]; [8; 0; 1]; [13; 0]; [14; 0]] 4 = true.
Proof. vm_compute. reflexivity. Qed.
