(* routine: the eager schedule ([settle]) and one harness-level step as model steps; what they keep.
   Part of the proof of model_satisfies_monitors (ProofsMon.v). *)
From Util Require Import Common.Base Common.ListLemmas Routine.Model Routine.Proofs Routine.ProofsC05 Routine.ProofsC14 Routine.ProofsC14b
  Routine.Spec Routine.ProofsMonInv Routine.ProofsMonObs.

(* ------------------------------------------------------------------ *)
(* settle = a run of wake-ups *)
Lemma fold_wake_ind (P : st -> Prop) l :
  (forall s i, P s -> P (wake repaired s i true)) -> forall s, P s -> P (fold_left (fun s i => wake repaired s i true) l s).
Proof. intros H. induction l as [|i l IH]; intros s Hs; [exact Hs|]. cbn [fold_left]. apply IH, H, Hs. Qed.
Lemma fold_wait_wake_ind (P : st -> Prop) l :
  (forall s a, P s -> P (wait_wake s a)) -> forall s, P s -> P (fold_left wait_wake l s).
Proof. intros H. induction l as [|a l IH]; intros s Hs; [exact Hs|]. cbn [fold_left]. apply IH, H, Hs. Qed.

Lemma settle_ind (P : st -> Prop) :
  (forall s i, P s -> P (wake repaired s i true)) -> (forall s a, P s -> P (wait_wake s a)) -> forall s, P s -> P (settle s).
Proof. intros H1 H2 s Hs. unfold settle. apply fold_wait_wake_ind; [exact H2|]. apply fold_wake_ind; [exact H1 | exact Hs]. Qed.

Lemma settle_AllInv s : AllInv s -> AllInv (settle s).
Proof.
  apply settle_ind.
  - intros s0 i H. exact (step_AllInv s0 (EWake i true) H).
  - intros s0 a H. exact (step_AllInv s0 (EWWake a) H).
Qed.

(* what the wake-ups keep *)
Definition pc_step (p p' : ipc) : Prop :=
  p' = p \/ ((p = IGate0 \/ p = IWait \/ p = IWaitC) /\ (p' = IWait \/ p' = IWaitC \/ p' = IUser \/ p' = IBook OCanc)).

Lemma pc_step_refl p : pc_step p p. Proof. now left. Qed.
Lemma pc_step_trans a b c : pc_step a b -> pc_step b c -> pc_step a c.
Proof.
  intros [->|[A B]] [->|[C D]]; [now left | right; auto | right; auto|].
  right. split; [exact A | exact D].
Qed.

Definition wp_step (p p' : wpc) : Prop := p' = p \/ (exists ch, p = WBlocked ch /\ p' = WGate).

Record quiet_rel (s s' : st) : Prop := {
  q_recs : recs s' = recs s; q_routine : routine s' = routine s; q_kctx : kctx s' = kctx s; q_timers : timers s' = timers s;
  q_clock : clock s' = clock s; q_bo : bo s' = bo s; q_cblog : cblog s' = cblog s; q_sv : sv s' = sv s; q_sfn : sfn s' = sfn s;
  q_sval : sval s' = sval s; q_ncb : ncb s' = ncb s; q_dead : dead s' = dead s;
  q_ilen : length (insts s') = length (insts s);
  q_inst : forall i x', nth_error (insts s') i = Some x' -> exists x, nth_error (insts s) i = Some x /\ pc_step (ipcv x) (ipcv x') /\
             irec x' = irec x;
  q_wlen : length (waiters s') = length (waiters s);
  q_wait : forall a w', nth_error (waiters s') a = Some w' -> exists w, nth_error (waiters s) a = Some w /\ wp_step (wpcv w) (wpcv w') /\
             wcanc w' = wcanc w;
}.

Lemma quiet_refl s : quiet_rel s s.
Proof.
  constructor; try reflexivity.
  - intros i x H. exists x. split; [exact H|]. split; [apply pc_step_refl | reflexivity].
  - intros a w H. exists w. split; [exact H|]. split; [now left | reflexivity].
Qed.

Lemma quiet_trans a b c : quiet_rel a b -> quiet_rel b c -> quiet_rel a c.
Proof.
  intros H1 H2. destruct H1, H2. constructor; try congruence.
  - intros i z Hz. destruct (q_inst1 i z Hz) as (y & Hy & P2 & A2).
    destruct (q_inst0 i y Hy) as (x & Hx & P1 & A1). exists x. split; [exact Hx|].
    split; [eapply pc_step_trans; eauto | congruence].
  - intros k z Hz. destruct (q_wait1 k z Hz) as (y & Hy & P2 & A2). destruct (q_wait0 k y Hy) as (x & Hx & P1 & A1).
    exists x. split; [exact Hx|]. split; [|congruence].
    destruct P1 as [P1|[ch [P1a P1b]]]; destruct P2 as [P2|[ch' [P2a P2b]]].
    + left. congruence.
    + right. exists ch'. split; congruence.
    + right. exists ch. split; congruence.
    + congruence.
Qed.

(* one instance changes its program counter *)
Lemma quiet_seti s i x x' : nth_error (insts s) i = Some x -> pc_step (ipcv x) (ipcv x') -> irec x' = irec x -> quiet_rel s (seti s i x').
Proof.
  intros Hx Hp Hr. constructor; try reflexivity.
  - rewrite insts_seti. apply length_set_nth.
  - intros k y Hy. rewrite insts_seti in Hy. destruct (Nat.eq_dec k i) as [->|Hne].
    + rewrite nth_error_set_nth_same in Hy by (eapply nth_error_nth_len; eauto). inversion Hy; subst y. exists x. auto.
    + rewrite nth_error_set_nth_other in Hy by exact Hne. exists y. split; [exact Hy|]. split; [apply pc_step_refl | reflexivity].
  - intros a w H. exists w. split; [exact H|]. split; [now left | reflexivity].
Qed.

Lemma quiet_wake s i en : quiet_rel s (wake repaired s i en).
Proof.
  unfold wake. destruct (nth_error (insts s) i) as [x|] eqn:Ex; [|apply quiet_refl].
  destruct (ipcv x) eqn:Ep; try apply quiet_refl.
  - destruct (pred_closed s x && icanc x); [destruct en|destruct (pred_closed s x); [|destruct (icanc x); cbn [fx_wait repaired]]];
      try apply quiet_refl; (eapply quiet_seti; [exact Ex | rewrite Ep; right; cbn; auto 10 | reflexivity]).
  - destruct (pred_closed s x); [|apply quiet_refl]. eapply quiet_seti; [exact Ex | rewrite Ep; right; cbn; auto 10 | reflexivity].
Qed.

Lemma quiet_wait_wake s a : quiet_rel s (wait_wake s a).
Proof.
  unfold wait_wake. destruct (nth_error (waiters s) a) as [w|] eqn:Ew; [|apply quiet_refl].
  destruct (wpcv w) eqn:Ep; try apply quiet_refl. destruct (closed (b s) ch); [|apply quiet_refl].
  constructor; try reflexivity.
  - intros i x H. exists x. split; [exact H|]. split; [apply pc_step_refl | reflexivity].
  - unfold setw. cbn [waiters set_waiters]. apply length_set_nth.
  - intros k y Hy. unfold setw in Hy. cbn [waiters set_waiters] in Hy. destruct (Nat.eq_dec k a) as [->|Hne].
    + rewrite nth_error_set_nth_same in Hy by (eapply nth_error_nth_len; eauto). inversion Hy; subst y. exists w.
      split; [exact Ew|]. split; [right; exists ch; cbn; auto | reflexivity].
    + rewrite nth_error_set_nth_other in Hy by exact Hne. exists y. split; [exact Hy|]. split; [now left | reflexivity].
Qed.

Lemma quiet_settle s : quiet_rel s (settle s).
Proof.
  apply (settle_ind (quiet_rel s)); [| |apply quiet_refl].
  - intros s0 i H. eapply quiet_trans; [exact H | apply quiet_wake].
  - intros s0 a H. eapply quiet_trans; [exact H | apply quiet_wait_wake].
Qed.

(* ------------------------------------------------------------------ *)
(* the model operation of a harness-level step is a model step *)
Lemma hev_step h e s1 ch rets ex : hev h e s1 ch rets ex -> s1 = hs h \/ exists ev, s1 = step repaired (hs h) ev.
Proof.
  intros H. destruct H.
  - right. exists (ESetCtx (n2n c) (nz r)). cbn [step]. now rewrite H.
  - right. exists (ESetRoutine (n2n f)). cbn [step]. rewrite H. unfold n2n. rewrite Nnat.N2Nat.id. fold n2n. now rewrite H0.
  - right. exists ERestart. cbn [step]. now rewrite H.
  - right. exists (ESetState v). cbn [step]. now rewrite H, H0.
  - right. exists (ESwap (n2n g)). cbn [step]. now rewrite H, H0.
  - right. exists (ESetSR (n2n f)). cbn [step]. now rewrite H, H0.
  - now left.
  - right. now exists (EProceed (n2n i) (nz en)).
  - right. now exists (EReturn (n2n i) (dec_out o)).
  - right. now exists (EBook (n2n i)).
  - now left.
  - right. now exists (EAdvance d).
  - right. now exists (ECancelRoot (n2n c)).
  - right. now exists (ETimerCb t).
  - right. now exists (EWaitExited (nz rinr)).
  - right. now exists (EWSect (n2n a)).
  - right. now exists (EWCancel (n2n a)).
  - right. now exists (EWErr (n2n a) (n2n code)).
Qed.

Lemma hev_AllInv h e s1 ch rets ex : hev h e s1 ch rets ex -> AllInv (hs h) -> AllInv (settle s1).
Proof.
  intros H HA. apply settle_AllInv. destruct (hev_step _ _ _ _ _ _ H) as [-> | [ev ->]]; [exact HA | now apply step_AllInv].
Qed.
