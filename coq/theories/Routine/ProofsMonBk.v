(* routine: a bookkeeping section preserves R and raises no clause.  Part of the proof of model_satisfies_monitors
   (ProofsMon.v). *)
From Util Require Import Common.Base Common.ListLemmas Routine.Model Routine.Proofs Routine.ProofsC05 Routine.ProofsC14 Routine.ProofsC14b
  Routine.Spec Routine.ProofsMonInv Routine.ProofsMonObs Routine.ProofsMonStep Routine.ProofsMonDef Routine.ProofsMonR Routine.ProofsMonNB
  Routine.ProofsMonEv Routine.ProofsMonBook.
Open Scope N_scope.

Lemma enc_out_zero o : N.eqb (enc_out o) 0 = is_nil o.
Proof. destruct o as [| |k]; try reflexivity. cbn. destruct (N.eqb_spec (N.of_nat k + 2) 0); [lia | reflexivity]. Qed.

Lemma all_eq_repeat v n : all_eq v (repeat v n) = true.
Proof. unfold all_eq. induction n as [|n IH]; [reflexivity|]. cbn. now rewrite N.eqb_refl, IH. Qed.

Lemma skipn_app_exact {A} (l l' : list A) : skipn (length l) (l ++ l') = l'.
Proof. induction l as [|a l IH]; [reflexivity|]. exact IH. Qed.

Lemma map_repeat {A B} (f : A -> B) a n : map f (repeat a n) = repeat (f a) n.
Proof. induction n as [|n IH]; [reflexivity|]. cbn. now rewrite IH. Qed.

Lemma opt_nat_dec (a : option nat) (k : nat) : {a = Some k} + {a <> Some k}.
Proof. destruct a as [j|]; [|right; discriminate]. destruct (Nat.eq_dec j k) as [->|Hne]; [now left | right; congruence]. Qed.

Section Book10.
  Variables (m : mst) (h : hst) (i : N) (x : inst) (o : outcome).
  Hypothesis HR : R m h.
  Hypothesis HA : AllInv (hs h).
  Local Notation s := (hs h).
  Local Notation I := (n2n i).
  Local Notation s1 := (bookkeep (hs h) (n2n i)).
  Local Notation ex := (if hexitg h then (hexit h ++ [n2n i])%list else hexit h).
  Hypothesis HA' : AllInv (settle s1).
  Hypothesis Hx : nth_error (insts s) I = Some x.
  Hypothesis Hp : ipcv x = IBook o.
  Local Notation p := (pobs_of [] (hmid h s1 (hch h) ex)).
  Local Notation r := (irec x).
  Local Notation y := (getr (hs h) (irec x)).

  Let Hil : (I < length (insts s))%nat. Proof. eapply nth_error_nth_len; eauto. Qed.
  Let Hl : (r < length (recs s))%nat. Proof. destruct HA as (_ & (_ & _ & C3 & _) & _). apply (C3 I x Hx). Qed.

  Lemma bk_insts : insts s1 = set_nth (insts s) I (with_pc x IDone).
  Proof.
    destruct (opt_nat_dec (rctx y) I) as [Hc|Hc].
    - destruct (bookkeep_reported s I x o Hx Hp Hc Hl) as (Z & retry & E & Ei & _). rewrite E. exact Ei.
    - now rewrite (bookkeep_unreported s I x o Hx Hp Hc).
  Qed.

  Lemma bk_n : x_n p = length (insts s).
  Proof. rewrite x_n_obs, (q_ilen _ _ (quiet_settle s1)), bk_insts, length_set_nth. reflexivity. Qed.

  Lemma bk_out' : x_out' m p = m_out m.
  Proof. unfold x_out'. rewrite bk_n, (R_outl _ _ HR), Nat.sub_diag. cbn [repeat]. apply app_nil_r. Qed.

  Lemma bk_my_out : x_my_out m [10; i] p = enc_out o.
  Proof.
    unfold x_my_out, x_book_i, x_out. rewrite bk_out'. pose proof (R_out _ _ HR I x Hx) as H. rewrite Hp in H. exact H.
  Qed.

  Lemma bk_spawned : x_spawned m p = false.
  Proof. unfold x_spawned. rewrite bk_n, (R_ninst _ _ HR). apply Nat.ltb_irrefl. Qed.

  Lemma mr_false : rctx y <> Some I -> x_must_report m [10; i] p = false.
  Proof.
    intros Hc. unfold x_must_report, x_book_i, x_newest. rewrite bk_n.
    destruct (Nat.eqb_spec I (length (insts s) - 1)) as [E|E]; [|reflexivity]. cbn [andb].
    destruct (m_quiet m) eqn:Eq; [|reflexivity]. exfalso. apply Hc. apply (R_quiet _ _ HR Eq I x); [lia | exact Hx].
  Qed.

  (* the instance is no longer its record's current one: nothing is recorded or reported *)
  Lemma bk_unreported_ok : rctx y <> Some I -> step_ok m h [10; i] s1 (hch h) [] ex.
  Proof.
    intros Hc. pose proof (mr_false Hc) as Hmr. pose proof bk_out' as Eo. pose proof bk_n as En.
    pose proof (bookkeep_unreported s I x o Hx Hp Hc) as E. rewrite E in *.
    apply (inst_step_ok_gen m h [10; i] I x (with_pc x IDone) ex); try assumption; try reflexivity.
    - intros j a b Hin Hb. unfold x_pend in Hin. destruct (x_parked_after [10; i] _).
      + apply in_app_or in Hin. destruct Hin as [Hin | [Hin | []]]; [exact (R_pend _ _ HR j a b Hin Hb)|].
        inversion Hin; subst. congruence.
      + exact (R_pend _ _ HR j a b Hin Hb).
    - intros Hn. unfold x_f14e. rewrite Hn, Hmr. cbn [negb orb andb]. rewrite orb_true_r. reflexivity.
    - intros k _. unfold x_out. now rewrite Eo.
    - unfold x_out. rewrite Eo. apply (R_outl _ _ HR).
  Qed.

  Lemma bk_inst_bwd k x1 : nth_error (insts s1) k = Some x1 ->
    exists x0, nth_error (insts s) k = Some x0 /\ irec x1 = irec x0 /\ ((k = I /\ ipcv x1 = IDone) \/ (k <> I /\ x1 = x0)).
  Proof.
    rewrite bk_insts. intros H. destruct (Nat.eq_dec k I) as [->|Hne].
    - rewrite nth_error_set_nth_same in H by exact Hil. inversion H; subst x1. exists x. split; [exact Hx|]. split; [reflexivity|]. left. auto.
    - rewrite nth_error_set_nth_other in H by exact Hne. exists x1. auto.
  Qed.
  Lemma bk_inst_fwd k x0 : nth_error (insts s) k = Some x0 -> exists x1, nth_error (insts s1) k = Some x1 /\ irec x1 = irec x0.
  Proof.
    intros H. rewrite bk_insts. destruct (Nat.eq_dec k I) as [->|Hne].
    - rewrite nth_error_set_nth_same by exact Hil. eexists. split; [reflexivity|]. cbn. congruence.
    - rewrite nth_error_set_nth_other by exact Hne. eauto.
  Qed.

  (* ---- the exit is recorded in the instance's record and reported ---- *)
  Section Reported.
    Hypothesis Hc : rctx y = Some I.
    Local Notation iscur := (match routine (hs h) with Some r' => Nat.eqb r' (irec x) | None => false end).

    Lemma bk_cblog : cblog s1 = (cblog s ++ repeat o (ncb s))%list.
    Proof. rewrite (bookkeep_reports s I x o Hx Hp), Hc, Nat.eqb_refl. reflexivity. Qed.

    Lemma bk_delta : x_delta p = repeat (enc_out o) (ncb s).
    Proof.
      rewrite x_delta_obs, (q_cblog _ _ (quiet_settle s1)), bk_cblog, (R_hlog _ _ HR), skipn_app_exact. apply map_repeat.
    Qed.

    Lemma bk_nodelta : x_nodelta p = false.
    Proof. unfold x_nodelta. rewrite bk_delta. pose proof (R_ncb1 _ _ HR) as H1. destruct (ncb s); [lia | reflexivity]. Qed.

    Lemma bk_iscur : match m_cur m with Some c => Nat.eqb c I | None => false end = iscur.
    Proof.
      destruct (routine s) as [r'|] eqn:Er.
      - destruct (Nat.eqb_spec r' r) as [->|Hne].
        + rewrite (R_cur1 _ _ HR r I Er Hc). apply Nat.eqb_refl.
        + destruct (m_cur m) as [c|] eqn:Ecur; [|reflexivity]. destruct (Nat.eqb_spec c I) as [->|]; [|reflexivity].
          destruct (R_cur2 _ _ HR I Ecur) as (x0 & Hx0 & Hr0). assert (x0 = x) by congruence. subst x0. congruence.
      - destruct (m_cur m) as [c|] eqn:Ecur; [|reflexivity]. destruct (R_cur2 _ _ HR c Ecur) as (x0 & _ & Hr0). congruence.
    Qed.

    Lemma bk_recorded : x_recorded m [10; i] p = iscur.
    Proof. unfold x_recorded, x_is_book, x_book_i. rewrite bk_nodelta, bk_iscur. reflexivity. Qed.
    Lemma bk_rec_ok : x_rec_ok m [10; i] p = iscur && is_nil o.
    Proof. unfold x_rec_ok. now rewrite bk_recorded, bk_my_out, enc_out_zero. Qed.
    Lemma bk_rec_err : x_rec_err m [10; i] p = iscur && negb (is_nil o).
    Proof. unfold x_rec_err. now rewrite bk_recorded, bk_my_out, enc_out_zero. Qed.
    Lemma bk_rep_ok : x_rep_ok m [10; i] p = is_nil o.
    Proof. unfold x_rep_ok, x_is_book. now rewrite bk_nodelta, bk_my_out, enc_out_zero. Qed.

    (* the record of the instance afterwards; the other records *)
    Lemma bk_shape : exists Z retry,
      s1 = fin x o Z (rec_upd s x o (is_nil o) retry) /\ recs Z = recs s /\
      match bo s with
      | None => timers Z = timers s /\ retry = rretry y
      | Some (l, k) =>
        let T := timers (stop_timer s (rretry y)) in
        if is_nil o then timers Z = T /\ retry = None
        else if iscur
             then match nth_error l k with
                  | Some d => timers Z = (T ++ [{| trec := r; tdead := (clock s + d)%N; tst := TArmed |}])%list /\ retry = Some (length T)
                  | None => timers Z = T /\ retry = None
                  end
             else timers Z = T /\ retry = None
      end.
    Proof.
      destruct (bookkeep_reported s I x o Hx Hp Hc Hl) as (Z & retry & E & _ & Er & _ & Et). exists Z, retry. auto.
    Qed.

    Lemma bk_getr q : q <> r -> getr s1 q = getr s q.
    Proof.
      intros Hne. destruct bk_shape as (Z & retry & E & Er & _). rewrite E, (getr_fin s x o Z _ q Er Hl).
      destruct (Nat.eqb_spec q r); [contradiction | reflexivity].
    Qed.

    Lemma bk_getr_r : exists retry, getr s1 r = rec_upd s x o (is_nil o) retry /\
      match bo s with
      | None => timers s1 = timers s /\ retry = rretry y
      | Some (l, k) =>
        let T := timers (stop_timer s (rretry y)) in
        if is_nil o then timers s1 = T /\ retry = None
        else if iscur
             then match nth_error l k with
                  | Some d => timers s1 = (T ++ [{| trec := r; tdead := (clock s + d)%N; tst := TArmed |}])%list /\ retry = Some (length T)
                  | None => timers s1 = T /\ retry = None
                  end
             else timers s1 = T /\ retry = None
      end.
    Proof.
      destruct bk_shape as (Z & retry & E & Er & Et). exists retry. rewrite E, (getr_fin s x o Z _ r Er Hl), Nat.eqb_refl.
      split; [reflexivity|]. exact Et.
    Qed.

    Lemma nth_error_stop_timer_other ot u : (forall t', ot = Some t' -> t' <> u) ->
      nth_error (timers (stop_timer s ot)) u = nth_error (timers s) u.
    Proof.
      intros H. unfold stop_timer. destruct ot as [t'|]; [|reflexivity]. destruct (nth_error (timers s) t') as [z|]; [|reflexivity].
      destruct (tst z); try reflexivity. cbn [timers set_timers]. apply nth_error_set_nth_other. intros E. exact (H t' eq_refl (eq_sym E)).
    Qed.

    Lemma bk_status :
      (if x_recorded m [10; i] p then x_rec_ok m [10; i] p else x_succ m [10; i] p) = rsucc_cur s1 /\
      (if x_recorded m [10; i] p then x_rec_err m [10; i] p else x_err m [10; i] p) = rerr_cur s1 /\
      x_curexit m [10; i] p = curexit_of s1.
    Proof.
      destruct (bookkeep_frame s I) as (_ & Ero & _). destruct bk_getr_r as (retry & Eg & _).
      unfold x_succ, x_err, x_curexit, x_curexit0. rewrite bk_recorded, bk_rec_ok, bk_rec_err, bk_my_out, bk_spawned.
      change (x_epoch [10; i] p) with false. cbn [orb].
      unfold rsucc_cur, rerr_cur, curexit_of. rewrite Ero. destruct (routine s) as [r'|] eqn:Er.
      - destruct (Nat.eqb_spec r' r) as [->|Hne]; cbn [andb].
        + rewrite Eg. cbn [rsucc rerr rexited rec_upd orb]. auto.
        + rewrite (bk_getr r' Hne). rewrite (R_succ _ _ HR), (R_err _ _ HR), (R_curexit _ _ HR).
          unfold rsucc_cur, rerr_cur, curexit_of. rewrite Er. auto.
      - rewrite (R_succ _ _ HR), (R_err _ _ HR), (R_curexit _ _ HR). unfold rsucc_cur, rerr_cur, curexit_of. rewrite Er. auto.
    Qed.

    Lemma bk_bo : bo s1 = match m_script m with Some l => Some (l, fst (x_bo m [10; i] p)) | None => None end.
    Proof.
      destruct (bookkeep_records s I x o Hx Hp Hc Hl) as (_ & _ & _ & _ & Hb).
      destruct (bookkeep_aux s I) as (_ & _ & _ & _ & _ & _ & _ & _ & Hn).
      pose proof (R_bo _ _ HR) as Eb. unfold x_bo. rewrite bk_rec_ok, bk_rec_err, bk_rep_ok.
      destruct (m_script m) as [l|]; [|now apply Hn]. rewrite (Hb l (m_idx m) Eb).
      destruct (is_nil o), iscur; reflexivity.
    Qed.

    Lemma bk_clears : x_clears m [10; i] p = false.
    Proof. unfold x_clears. rewrite bk_spawned. reflexivity. Qed.

    Lemma bk_pending d : x_pending m [10; i] p = Some d -> pending_ok s1 d.
    Proof.
      destruct (bookkeep_frame s I) as (_ & Ero & Ek). destruct bk_getr_r as (retry & Eg & Et).
      pose proof HA as (_ & _ & _ & (CK' & _ & T2' & _)).
      unfold x_pending. rewrite bk_clears. intros Hd. assert (Hd' : snd (x_bo m [10; i] p) = Some d) by (destruct (x_rec_err m [10; i] p); exact Hd).
      clear Hd. unfold x_bo in Hd'. rewrite bk_rec_ok, bk_rec_err, bk_rep_ok in Hd'. pose proof (R_bo _ _ HR) as Eb.
      destruct (m_script m) as [l|]; [|discriminate]. rewrite Eb in Et.
      destruct iscur eqn:Ec; cbn [andb] in Hd'.
      - destruct (is_nil o) eqn:En; cbn [negb snd] in Hd'; [discriminate|].
        destruct (nth_error l (m_idx m)) as [dd|] eqn:Edd; [|discriminate].
        change (x_ctx m [10; i] p) with (m_ctx m) in Hd'. destruct (nz (m_ctx m)) eqn:Enz; [|discriminate]. inversion Hd' as [Hd'']. clear Hd'.
        assert (Hk : kctx s <> 0%nat).
        { rewrite (R_ctx _ _ HR), nz_of_nat in Enz. apply negb_true_iff, Nat.eqb_neq in Enz. exact Enz. }
        destruct Et as [Et Er]. destruct (routine s) as [r'|] eqn:Ero'; [|discriminate]. apply Nat.eqb_eq in Ec. subst r'.
        split; [now rewrite Ek|]. exists r, (length (timers (stop_timer s (rretry y)))), {| trec := r; tdead := (clock s + dd)%N; tst := TArmed |}.
        rewrite Ero. split; [reflexivity|]. rewrite Eg. cbn [rretry rec_upd]. split; [now rewrite Er|].
        rewrite Et, nth_error_app2, Nat.sub_diag by lia. cbn [nth_error tdead tst]. split; [reflexivity|].
        split; [|now left]. unfold x_clock. rewrite (R_clock _ _ HR). reflexivity.
      - assert (Hd : m_pending m = Some d) by (destruct (is_nil o); exact Hd'). clear Hd'.
        destruct (R_pending _ _ HR d Hd) as (Hk & r0 & t0 & x0 & A & B & C & D).
        assert (Hne : r0 <> r). { intros ->. rewrite A, Nat.eqb_refl in Ec. discriminate. }
        split; [now rewrite Ek|]. exists r0, t0, x0. rewrite Ero, (bk_getr r0 Hne). split; [exact A|]. split; [exact B|]. split; [|exact D].
        assert (Ets : timers s1 = timers (stop_timer s (rretry y))) by (destruct (is_nil o); apply Et).
        rewrite Ets, nth_error_stop_timer_other; [exact C|]. intros t' Ht' ->.
        destruct (T2' r t0 Ht') as (_ & _ & z & Hz & Hzr). destruct (T2' r0 t0 B) as (_ & _ & z' & Hz' & Hzr'). congruence.
    Qed.

    Lemma bk_dead : dead s1 = dead s.
    Proof. apply bookkeep_dead. Qed.

    Lemma bk_reported_R : R (x_state m [10; i] p) (hfin h s1 (hch h) ex).
    Proof.
      pose proof (quiet_settle s1) as Q.
      destruct (bookkeep_frame s I) as (_ & Ero & Ek).
      destruct (bookkeep_aux s I) as (A1 & A2 & A3 & A4 & A5 & A6 & _).
      destruct bk_status as (S1 & S2 & S3). destruct (status_quiet _ _ Q) as (Q1 & Q2 & Q3).
      constructor; cbn [hs hch hlog hexitg hexit hfin m_sv m_ncb m_script m_idx m_ctx m_hasr m_sfn m_st m_clock m_ninst m_out m_chans
                        m_succ m_err m_curexit m_pending m_quiet m_cur m_exitg m_pend m_wcanc m_dead x_state].
      - rewrite (q_sv _ _ Q), A1. apply (R_sv _ _ HR).
      - rewrite (q_ncb _ _ Q), A4. apply (R_ncb _ _ HR).
      - rewrite (q_ncb _ _ Q), A4. apply (R_ncb1 _ _ HR).
      - apply (R_exitg _ _ HR).
      - rewrite (q_bo _ _ Q). apply bk_bo.
      - rewrite (q_kctx _ _ Q), Ek. apply (R_ctx _ _ HR).
      - rewrite (q_sval _ _ Q), A3. apply (R_st _ _ HR).
      - rewrite (q_sfn _ _ Q), A2. apply (R_sfn _ _ HR).
      - rewrite (q_clock _ _ Q), A5. apply (R_clock _ _ HR).
      - change (x_hasr m [10; i] p) with (if m_sv m then nz (m_sfn m) && nz (m_st m) else m_hasr m).
        rewrite (hasr_same _ _ HR HA). unfold has_routine. now rewrite (q_routine _ _ Q), Ero.
      - apply x_n_obs.
      - unfold x_out. rewrite bk_out', (q_ilen _ _ Q), bk_insts, length_set_nth. apply (R_outl _ _ HR).
      - intros k x' Hx'. unfold x_out. rewrite bk_out'. destruct (q_inst _ _ Q k x' Hx') as (x1 & Hx1 & Hps & _).
        destruct (bk_inst_bwd k x1 Hx1) as (x0 & Hx0 & _ & [[-> Hd] | [Hne ->]]).
        + rewrite Hd in Hps. destruct Hps as [->|[[F|[F|F]] _]]; try discriminate. exact Logic.I.
        + eapply out_ok_pc_step; [exact (R_out _ _ HR k x0 Hx0) | exact Hps].
      - apply (R_chl _ _ HR).
      - intros k j Hk. destruct (R_ch _ _ HR k j Hk) as [Ha Hb]. split; [exact Ha|]. now rewrite (q_ilen _ _ Q), bk_insts, length_set_nth.
      - rewrite S1. symmetry. exact Q1.
      - rewrite S2. symmetry. exact Q2.
      - rewrite S3. symmetry. exact Q3.
      - intros d Hd. apply (pending_ok_quiet s1); [exact Q | now apply bk_pending].
      - unfold x_quiet. rewrite bk_spawned. change (x_api [10; i]) with false. intros Hq k x' Hk Hx'.
        rewrite (q_ilen _ _ Q), bk_insts, length_set_nth in Hk. rewrite (getr_quiet _ _ _ Q).
        destruct (q_inst _ _ Q k x' Hx') as (x1 & Hx1 & _ & Ir). destruct (bk_inst_bwd k x1 Hx1) as (x0 & Hx0 & Ir0 & _).
        rewrite Ir, Ir0, (proj1 (bookkeep_keeps s I (irec x0))). apply (R_quiet _ _ HR Hq k x0 Hk Hx0).
      - unfold x_cur. rewrite bk_spawned. change (x_epoch [10; i] p) with false. change (x_clear_ctx m [10; i]) with false. cbn [orb].
        intros r0 k Hr0 Hk0. rewrite (q_routine _ _ Q), Ero in Hr0. rewrite (getr_quiet _ _ _ Q), (proj1 (bookkeep_keeps s I r0)) in Hk0.
        apply (R_cur1 _ _ HR r0 k Hr0 Hk0).
      - unfold x_cur. rewrite bk_spawned. change (x_epoch [10; i] p) with false. change (x_clear_ctx m [10; i]) with false. cbn [orb].
        intros c Hcur. destruct (R_cur2 _ _ HR c Hcur) as (x0 & Hx0 & Hr0). destruct (bk_inst_fwd c x0 Hx0) as (x1 & Hx1 & Ir1).
        destruct (quiet_inst_fwd _ _ c x1 Q Hx1) as (x' & Hx' & Ir' & _). exists x'. split; [exact Hx'|].
        rewrite (q_routine _ _ Q), Ero, Ir', Ir1. exact Hr0.
      - intros j a b Hin Hb. unfold x_pend in Hin. destruct (x_parked_after [10; i] p).
        + apply in_app_or in Hin. destruct Hin as [Hin | [Hin | []]]; [exact (R_pend _ _ HR j a b Hin Hb)|].
          inversion Hin; subst. now rewrite bk_nodelta.
        + exact (R_pend _ _ HR j a b Hin Hb).
      - change (x_wcanc m [10; i]) with (m_wcanc m). rewrite (map_wcanc_quiet _ _ Q), A6. apply (R_wcanc _ _ HR).
      - reflexivity.
      - rewrite (q_dead _ _ Q), bk_dead. apply (R_dead _ _ HR).
    Qed.

    Lemma bk_reported_ok : step_ok m h [10; i] s1 (hch h) [] ex.
    Proof.
      split; [exact bk_reported_R|]. apply fails_from_R; [exact bk_reported_R | exact HA' | | |].
      - intros _. unfold x_f14a. rewrite bk_spawned. reflexivity.
      - unfold x_f14e. rewrite bk_nodelta, bk_delta, bk_my_out, repeat_length, (R_ncb _ _ HR), Nat.eqb_refl, all_eq_repeat.
        cbn [negb orb andb]. rewrite orb_true_r. reflexivity.
      - intros _. reflexivity.
    Qed.
  End Reported.

  Lemma ev_book : step_ok m h [10; i] s1 (hch h) [] ex.
  Proof. destruct (opt_nat_dec (rctx y) I) as [Hc|Hc]; [now apply bk_reported_ok | now apply bk_unreported_ok]. Qed.
End Book10.
