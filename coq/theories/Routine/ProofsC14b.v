(* routine, C14: a routine recorded as successful has no retry pending, hence no event other than RestartRoutine or
   a new routine / state can start it again.  For every event list. *)
From Util Require Import Common.Base Common.ListLemmas Routine.Model Routine.Proofs Routine.ProofsC14.

Definition SInv (s : st) : Prop :=
  (forall r, rsucc (getr s r) = true -> rretry (getr s r) = None) /\
  (bo s = None -> forall r, rretry (getr s r) = None).

Lemma getr_oob s r : length (recs s) <= r -> getr s r = rec0.
Proof. intros H. unfold getr. now apply nth_overflow. Qed.

Lemma SInv_setr s r x' :
  SInv s -> (rsucc x' = true -> rretry x' = None) -> (bo s = None -> rretry x' = None) -> SInv (setr s r x').
Proof.
  intros [H1 H2] A B. split.
  - intros q Hq. destruct (Nat.eq_dec q r) as [->|Hne].
    + destruct (Nat.lt_ge_cases r (length (recs s))) as [Hl|Hl].
      * rewrite getr_setr_same in * by exact Hl. auto.
      * unfold getr in *. rewrite recs_setr, set_nth_oob in * by exact Hl. now apply H1.
    + rewrite getr_setr_other in * by exact Hne. now apply H1.
  - intros Hb q. change (bo (setr s r x')) with (bo s) in Hb. destruct (Nat.eq_dec q r) as [->|Hne].
    + destruct (Nat.lt_ge_cases r (length (recs s))) as [Hl|Hl].
      * rewrite getr_setr_same by exact Hl. auto.
      * unfold getr. rewrite recs_setr, set_nth_oob by exact Hl. now apply H2.
    + rewrite getr_setr_other by exact Hne. now apply H2.
Qed.

(* states that agree on the records and on whether a back-off is configured *)
Lemma SInv_ext s s' : recs s' = recs s -> (bo s' = None -> bo s = None) -> SInv s -> SInv s'.
Proof. intros E1 E2 [H1 H2]. unfold SInv, getr in *. rewrite E1. split; auto. Qed.

Lemma bo_cancel_inst s oi : bo (cancel_inst s oi) = bo s.
Proof. unfold cancel_inst. destruct oi as [i|]; [|reflexivity]. destruct (nth_error (insts s) i); reflexivity. Qed.

Lemma SInv_cancel_inst s oi : SInv s -> SInv (cancel_inst s oi).
Proof.
  intros H. apply (SInv_ext s); auto.
  - destruct (cancel_inst_other s oi) as [_ [_ [C _]]]. exact C.
  - now rewrite bo_cancel_inst.
Qed.
Lemma SInv_stop_timer s ot : SInv s -> SInv (stop_timer s ot).
Proof.
  intros H. apply (SInv_ext s); auto.
  - destruct (stop_timer_other s ot) as [_ [_ [_ [C _]]]]. exact C.
  - now rewrite bo_stop_timer.
Qed.

Lemma SInv_stop_rec s r : SInv s -> SInv (stop_rec s r).
Proof. intros H. unfold stop_rec. apply SInv_setr; [apply SInv_stop_timer, SInv_cancel_inst, H | reflexivity | reflexivity]. Qed.

Lemma SInv_start_rec s r ctx w force : SInv s -> SInv (start_rec repaired s r ctx w force).
Proof.
  intros H. unfold start_rec. destruct (_ || _); [exact H|]. destruct (_ && _ && _ && _); [exact H|].
  apply SInv_setr; [|discriminate|reflexivity].
  apply (SInv_ext (stop_rec s r)); auto. now apply SInv_stop_rec.
Qed.

Lemma SInv_do_bcast s : SInv s -> SInv (do_bcast s). Proof. intros H. apply (SInv_ext s); auto. Qed.

Lemma SInv_set_context s c restart : SInv s -> SInv (fst (set_context repaired s c restart)).
Proof.
  intros H. unfold set_context. destruct (_ && negb restart); [exact H|].
  assert (H1 : SInv (set_kctx s c)) by (apply (SInv_ext s); auto).
  change (routine (set_kctx s c)) with (routine s). destruct (routine s) as [r|]; [|exact H1].
  destruct (_ && is_nil _); [exact H1|]. destruct (_ && _ && _); [exact H1|]. cbn [fst]. apply SInv_do_bcast.
  destruct (_ && negb (Nat.eqb c 0)); [apply SInv_start_rec|]; now apply SInv_stop_rec.
Qed.

Lemma SInv_norm s : SInv s -> SInv (norm s).
Proof. intros H. unfold norm. destruct (root_dead s (kctx s)); [apply (SInv_ext s); auto | exact H]. Qed.

Lemma SInv_set_routine_locked_n s f arg : SInv s -> SInv (fst (set_routine_locked_n repaired s f arg)).
Proof.
  intros H. unfold set_routine_locked_n.
  set (ph := match routine s with Some p => _ | None => (s, None, false) end).
  assert (Hph : SInv (fst (fst ph))).
  { unfold ph. destruct (routine s) as [p|]; [|exact H]. cbn [fst].
    apply (SInv_ext (setr (cancel_inst s (rcancel (getr s p))) p
                          {| rfn := rfn (getr s p); rarg := rarg (getr s p); rctx := rctx (getr s p); rcancel := None; rexit := rexit (getr s p);
                             rerr := rerr (getr s p); rsucc := rsucc (getr s p); rexited := rexited (getr s p); rretry := rretry (getr s p) |})); auto.
    destruct H as [A B]. apply SInv_setr; [apply SInv_cancel_inst; split; assumption | cbn; apply A | cbn; intros Hb; apply B].
    now rewrite bo_cancel_inst in Hb. }
  destruct ph as [[s1 prevExit] wasReset]. cbn [fst] in Hph.
  destruct (negb (Nat.eqb f 0)); cbn [fst].
  - apply SInv_do_bcast.
    set (x := {| rfn := f; rarg := arg; rctx := None; rcancel := None; rexit := None; rerr := ONil; rsucc := false; rexited := false; rretry := None |}).
    assert (H2 : SInv (set_routine (set_recs s1 (recs s1 ++ [x])) (Some (length (recs s1))))).
    { destruct Hph as [A B]. split.
      - intros q Hq. unfold getr in *. cbn [recs set_routine set_recs] in *.
        destruct (Nat.lt_ge_cases q (length (recs s1))) as [Hl|Hl].
        + rewrite app_nth1 in * by exact Hl. now apply A.
        + rewrite app_nth2 in * by exact Hl. destruct (q - length (recs s1)) as [|k]; [reflexivity | destruct k; reflexivity].
      - intros Hb q. unfold getr. cbn [recs set_routine set_recs].
        destruct (Nat.lt_ge_cases q (length (recs s1))) as [Hl|Hl].
        + rewrite app_nth1 by exact Hl. now apply B.
        + rewrite app_nth2 by exact Hl. destruct (q - length (recs s1)) as [|k]; [reflexivity | destruct k; reflexivity]. }
    destruct (negb (Nat.eqb _ 0)); [now apply SInv_start_rec | exact H2].
  - destruct wasReset; [apply SInv_do_bcast|]; exact Hph.
Qed.

Lemma SInv_set_routine_locked s f arg : SInv s -> SInv (fst (set_routine_locked repaired s f arg)).
Proof. intros H. unfold set_routine_locked. now apply SInv_set_routine_locked_n, SInv_norm. Qed.

Lemma SInv_restart_routine_n s : SInv s -> SInv (fst (restart_routine_n repaired s)).
Proof.
  intros H. unfold restart_routine_n. destruct (routine s) as [r|]; [|exact H].
  set (x := getr s r). set (s1 := cancel_inst s (rcancel x)).
  assert (X1 : getr s1 r = x) by (unfold s1, getr; destruct (cancel_inst_other s (rcancel x)) as [_ [_ [C _]]]; rewrite C; reflexivity).
  assert (H1 : SInv s1) by (now apply SInv_cancel_inst).
  set (s2 := setr s1 r _).
  assert (H2 : SInv s2).
  { destruct H as [A B]. apply SInv_setr; [exact H1 | cbn; apply A | cbn; intros Hb; apply B]. unfold s1 in Hb. now rewrite bo_cancel_inst in Hb. }
  destruct (Nat.eqb (kctx s2) 0); [exact H2|]. cbn [fst]. apply SInv_do_bcast, SInv_start_rec.
  destruct H2 as [A B]. apply SInv_setr; [split; assumption | cbn; apply A | cbn; intros Hb; now apply B].
Qed.

Lemma SInv_restart_routine s : SInv s -> SInv (fst (restart_routine repaired s)).
Proof. intros H. unfold restart_routine. now apply SInv_restart_routine_n, SInv_norm. Qed.

Lemma SInv_update_sr s : SInv s -> SInv (fst (update_sr repaired s)).
Proof.
  intros H. unfold update_sr.
  pose proof (SInv_set_routine_locked s (if negb (Nat.eqb (sfn s) 0) && negb (N.eqb (sval s) 0) then sfn s else 0) (sval s) H) as G.
  destruct (set_routine_locked repaired s _ (sval s)) as [s1 [w reset]]. exact G.
Qed.
Lemma SInv_set_state_locked s v : SInv s -> SInv (fst (set_state_locked repaired s v)).
Proof.
  intros H. unfold set_state_locked. destruct (state_equal _ _ _); [exact H|].
  assert (H1 : SInv (set_sval s v)) by (apply (SInv_ext s); auto).
  pose proof (SInv_update_sr _ H1) as G. destruct (update_sr repaired (set_sval s v)) as [s1 [[w reset] running]].
  cbn [fst] in *. now apply SInv_do_bcast.
Qed.
Lemma SInv_swap_value s g : SInv s -> SInv (fst (swap_value repaired s g)).
Proof.
  intros H. unfold swap_value. destruct (negb _); [|exact H].
  pose proof (SInv_set_state_locked s (if Nat.eqb g 0 then sval s else swap_fn g (sval s)) H) as G.
  destruct (set_state_locked repaired s _) as [s1 [[[w ch] reset] running]]. exact G.
Qed.

Lemma SInv_seti s i x : SInv s -> SInv (seti s i x). Proof. intros H. apply (SInv_ext s); auto. Qed.

Lemma SInv_set_bo_some Z x : SInv Z -> SInv (set_bo Z (Some x)).
Proof. intros [A B]. split; [exact A | intros E; discriminate E]. Qed.
Lemma SInv_set_timers Z l : SInv Z -> SInv (set_timers Z l).
Proof. intros H. apply (SInv_ext Z); auto. Qed.

Lemma SInv_bookkeep s i : SInv s -> SInv (bookkeep s i).
Proof.
  intros H. unfold bookkeep. destruct (nth_error (insts s) i) as [x|]; [|exact H]. destruct (ipcv x); try exact H.
  set (s0 := seti s i (with_pc x IDone)). assert (H0 : SInv s0) by (now apply SInv_seti).
  destruct (rctx (getr s (irec x))) as [j|]; [|exact H0]. destruct (Nat.eqb j i); [|exact H0].
  assert (G : forall Z y, SInv Z -> (rsucc y = true -> rretry y = None) -> (bo Z = None -> rretry y = None) ->
              SInv (do_bcast (set_cblog (setr Z (irec x) y) (cblog (setr Z (irec x) y) ++ repeat o (ncb (setr Z (irec x) y)))))).
  { intros Z y HS A B. apply (SInv_ext (setr Z (irec x) y)); auto. now apply SInv_setr. }
  change (bo s0) with (bo s). destruct (bo s) as [[l k]|] eqn:Eb.
  - destruct (is_nil o).
    + apply G; [apply SInv_set_bo_some, SInv_stop_timer, H0 | reflexivity | reflexivity].
    + destruct (match routine (stop_timer s0 (rretry (getr s (irec x)))) with Some r' => Nat.eqb r' (irec x) | None => false end).
      * destruct (nth_error l k).
        -- apply G; [apply SInv_set_timers, SInv_set_bo_some, SInv_stop_timer, H0 | discriminate | intros E; discriminate E].
        -- apply G; [apply SInv_set_bo_some, SInv_stop_timer, H0 | reflexivity | reflexivity].
      * apply G; [apply SInv_stop_timer, H0 | reflexivity | reflexivity].
  - apply G; [exact H0 | cbn; intros _ | cbn; intros _].
    + destruct H as [_ B]. now apply B.
    + destruct H as [_ B]. now apply B.
Qed.

Lemma SInv_timer_cb s t : SInv s -> SInv (timer_cb repaired s t).
Proof.
  intros H. unfold timer_cb. destruct (nth_error (timers s) t) as [x|]; [|exact H]. destruct (tst x); try exact H.
  apply SInv_do_bcast. set (s1 := set_timers s _). assert (H1 : SInv s1) by (apply (SInv_ext s); auto).
  destruct (_ && _ && _ && _); [now apply SInv_start_rec | exact H1].
Qed.

Lemma SInv_step s e : SInv s -> SInv (step repaired s e).
Proof.
  intros H. destruct e; cbn [step].
  - now apply SInv_set_context.
  - destruct (sv s); [exact H | now apply SInv_set_routine_locked].
  - now apply SInv_restart_routine.
  - destruct (sv s); [now apply SInv_set_state_locked | exact H].
  - destruct (sv s); [now apply SInv_swap_value | exact H].
  - destruct (sv s); [|exact H]. apply SInv_update_sr. apply (SInv_ext s); auto.
  - unfold proceed. destruct (nth_error (insts s) i) as [x|]; [|exact H]. destruct (ipcv x); try exact H.
    destruct (iwait x); [destruct (pred_closed s x && icanc x); [destruct enter|destruct (pred_closed s x); [|destruct (icanc x); cbn [fx_wait repaired]]]|destruct (icanc x)];
      now apply SInv_seti.
  - unfold wake. destruct (nth_error (insts s) i) as [x|]; [|exact H]. destruct (ipcv x); try exact H.
    + destruct (pred_closed s x && icanc x); [destruct enter|destruct (pred_closed s x); [|destruct (icanc x); cbn [fx_wait repaired]]];
        try exact H; now apply SInv_seti.
    + destruct (pred_closed s x); [now apply SInv_seti | exact H].
  - unfold fn_return. destruct (nth_error (insts s) i) as [x|]; [|exact H]. destruct (ipcv x); exact H.
  - now apply SInv_bookkeep.
  - apply (SInv_ext s); auto.
  - now apply SInv_timer_cb.
  - apply (SInv_ext s); auto.
  - unfold wait_section. destruct (nth_error (waiters s) a) as [w|]; [|exact H]. destruct (wpcv w); try exact H.
    pose proof (SInv_norm s H) as Hn. unfold wait_sect_at.
    destruct (getch (b (norm s))) as [b' ch]. destruct (match routine (norm s) with Some r => _ | None => _ end); [|destruct (wcanc w)]; apply (SInv_ext (norm s)); auto.
  - unfold wait_wake. destruct (nth_error (waiters s) a) as [w|]; [|exact H]. destruct (wpcv w); try exact H.
    destruct (closed (b s) ch); [apply (SInv_ext s); auto | exact H].
  - unfold wait_cancel. destruct (nth_error (waiters s) a) as [w|]; [|exact H]. destruct (wpcv w); try exact H; apply (SInv_ext s); auto.
  - unfold wait_errch. destruct (nth_error (waiters s) a) as [w|]; [|exact H]. destruct (wpcv w); try exact H; apply (SInv_ext s); auto.
  - apply (SInv_ext s); auto.
Qed.

Lemma SInv_init v c n sc : SInv (init v c n sc).
Proof. split; intros; unfold getr; cbn; destruct r; reflexivity. Qed.

Theorem run_SInv v c n sc es : SInv (run repaired (init v c n sc) es).
Proof. unfold run. apply fold_inv; [intros s e; apply SInv_step | apply SInv_init]. Qed.

(* a retry callback never restarts a routine recorded as successful (defect D20 repaired) *)
Lemma timer_cb_success_no_spawn s t r :
  SInv s -> routine s = Some r -> rsucc (getr s r) = true -> ninst (timer_cb repaired s t) = ninst s.
Proof.
  intros [A _] Hr Hs. unfold timer_cb. destruct (nth_error (timers s) t) as [x|]; [|reflexivity]. destruct (tst x); try reflexivity.
  set (s1 := set_timers s _). change (routine s1) with (routine s). change (kctx s1) with (kctx s). rewrite Hr.
  change (getr s1 (trec x)) with (getr s (trec x)). cbn [fx_timer repaired].
  destruct (Nat.eqb_spec r (trec x)) as [<-|Hne].
  - rewrite (A r Hs). reflexivity.
  - rewrite andb_false_r, andb_false_l. destruct (match rretry (getr s (trec x)) with Some t' => Nat.eqb t' t | None => false end); reflexivity.
Qed.

Definition restarting (e : ev) : bool :=
  match e with ERestart | ESetRoutine _ | ESetState _ | ESwap _ | ESetSR _ => true | _ => false end.

(* C14, first sentence: once the current routine is recorded as successful, no event other than RestartRoutine or
   setting a routine / state starts an instance *)
Theorem success_never_rerun v c n sc es e r :
  let s := run repaired (init v c n sc) es in
  routine s = Some r -> rsucc (getr s r) = true -> restarting e = false -> ninst (step repaired s e) = ninst s.
Proof.
  intros s Hr Hs He. pose proof (run_SInv v c n sc es) as HS. pose proof (run_inv v c n sc es) as [HI [_ [_ HW]]]. fold s in HS, HI, HW.
  destruct e; try discriminate; try (apply (passive_no_spawn s); reflexivity).
  - cbn [step]. apply (set_context_success_no_spawn s c0 restart r HI Hr); [|exact Hs]. unfold InvW in HW. now rewrite Hr in HW.
  - cbn [step]. now apply (timer_cb_success_no_spawn s t r).
Qed.
