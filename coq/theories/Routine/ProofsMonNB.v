(* routine: preservation of the relation R by every harness-level step that is not a bookkeeping section, from a
   summary of what the model operation did.  Part of the proof of model_satisfies_monitors (ProofsMon.v). *)
From Util Require Import Common.Base Common.ListLemmas Routine.Model Routine.Proofs Routine.ProofsC05 Routine.ProofsC14 Routine.ProofsC14b
  Routine.Spec Routine.ProofsMonInv Routine.ProofsMonObs Routine.ProofsMonStep Routine.ProofsMonDef Routine.ProofsMonR.
Open Scope N_scope.

Lemma out_ok_pc_step p p' v : out_ok p v -> pc_step p p' -> out_ok p' v.
Proof.
  intros H [->|[A B]]; [exact H|].
  assert (v = 1) by (destruct A as [-> | [-> | ->]]; exact H). subst v.
  destruct B as [-> | [-> | [-> | ->]]]; cbn; auto.
Qed.

Lemma nth_pad (l : list N) k i : nth i (l ++ repeat 1 k) 1 = nth i l 1.
Proof.
  destruct (Nat.lt_ge_cases i (length l)) as [H|H]; [now rewrite app_nth1|].
  rewrite app_nth2 by exact H. rewrite (nth_overflow l) by exact H.
  destruct (Nat.lt_ge_cases (i - length l) k) as [G|G]; [now rewrite nth_repeat | apply nth_overflow; now rewrite repeat_length].
Qed.

Lemma list_ext_nth {A} (l l' : list A) : length l = length l' -> (forall i, nth_error l i = nth_error l' i) -> l = l'.
Proof.
  revert l'. induction l as [|x l IH]; intros [|y l'] HL H; try discriminate; [reflexivity|].
  pose proof (H 0%nat) as H0. cbn in H0. inversion H0; subst y. f_equal. apply IH; [cbn in HL; lia|]. intros i. exact (H (S i)).
Qed.

Lemma map_wcanc_quiet s s' : quiet_rel s s' -> map wcanc (waiters s') = map wcanc (waiters s).
Proof.
  intros Q. apply list_ext_nth; [rewrite !map_length; apply (q_wlen _ _ Q)|]. intros i. rewrite !nth_error_map.
  destruct (nth_error (waiters s') i) as [w'|] eqn:E.
  - destruct (q_wait _ _ Q i w' E) as (w & Hw & _ & Hc). rewrite Hw. cbn. now rewrite Hc.
  - apply nth_error_None in E. rewrite (q_wlen _ _ Q) in E. apply nth_error_None in E. now rewrite E.
Qed.

Lemma getr_quiet s s' r : quiet_rel s s' -> getr s' r = getr s r.
Proof. intros Q. unfold getr. now rewrite (q_recs _ _ Q). Qed.

Lemma status_quiet s s' : quiet_rel s s' -> rsucc_cur s' = rsucc_cur s /\ rerr_cur s' = rerr_cur s /\ curexit_of s' = curexit_of s.
Proof.
  intros Q. unfold rsucc_cur, rerr_cur, curexit_of. rewrite (q_routine _ _ Q). destruct (routine s) as [r|]; [|auto].
  rewrite (getr_quiet _ _ r Q). auto.
Qed.

Lemma pending_ok_quiet s s' d : quiet_rel s s' -> pending_ok s d -> pending_ok s' d.
Proof.
  intros Q (Hk & r & t & x & A & B & C & D). split; [now rewrite (q_kctx _ _ Q)|]. exists r, t, x.
  rewrite (q_routine _ _ Q), (getr_quiet _ _ r Q), (q_timers _ _ Q). auto.
Qed.

(* an instance of the settled state and its counterpart before the wake-ups *)
Lemma quiet_inst_fwd s s' i x : quiet_rel s s' -> nth_error (insts s) i = Some x ->
  exists x', nth_error (insts s') i = Some x' /\ irec x' = irec x /\ pc_step (ipcv x) (ipcv x').
Proof.
  intros Q Hx. assert (Hi : (i < length (insts s'))%nat) by (rewrite (q_ilen _ _ Q); eapply nth_error_nth_len; eauto).
  destruct (nth_error (insts s') i) as [x'|] eqn:E; [|apply nth_error_None in E; lia].
  destruct (q_inst _ _ Q i x' E) as (x0 & Hx0 & P & Ir). assert (x0 = x) by congruence. subst x0. eauto.
Qed.

(* the pieces of the monitor step in terms of the observation of a harness-level step *)
Section Obs.
  Variables (h : hst) (s1 : st) (ch : list (option nat)) (rets : list N) (ex : list nat).
  Let p := pobs_of rets (hmid h s1 ch ex).
  Lemma x_n_obs : x_n p = length (insts (settle s1)).
  Proof. unfold x_n, x_is, p, pobs_of. cbn [po_insts hmid hs hexit]. apply length_ituples. Qed.
  Lemma x_is_obs : x_is p = ituples ex 0 (insts (settle s1)). Proof. reflexivity. Qed.
  Lemma x_delta_obs : x_delta p = map enc_out (skipn (hlog h) (cblog (settle s1))). Proof. reflexivity. Qed.
End Obs.

(* the failure list is empty once R holds afterwards and the two-state clauses hold *)
Lemma fails_from_R m h e s1 ch rets ex :
  R (x_state m e (pobs_of rets (hmid h s1 ch ex))) (hfin h s1 ch ex) -> AllInv (settle s1) ->
  (m_exitg m = false -> x_f14a m e (pobs_of rets (hmid h s1 ch ex)) = []) ->
  x_f14e m e (pobs_of rets (hmid h s1 ch ex)) = [] ->
  (m_exitg m = false -> x_f14w m e (pobs_of rets (hmid h s1 ch ex)) = []) ->
  x_fails m e (pobs_of rets (hmid h s1 ch ex)) = [].
Proof.
  intros HR' HA' Ha He Hw. unfold x_fails. rewrite He.
  assert (E4 : x_f4 m e (pobs_of rets (hmid h s1 ch ex)) = []).
  { unfold x_f4. pose proof (c04_1_ok (hfin h s1 ch ex) HA') as G1. pose proof (c04_2_ok _ _ HR' HA') as G2.
    cbn [hs hch hexit hfin m_chans x_state] in G1, G2.
    change (x_is (pobs_of rets (hmid h s1 ch ex))) with (ituples ex 0 (insts (settle s1))).
    change (po_chans (pobs_of rets (hmid h s1 ch ex))) with (map (chcode (settle s1)) ch).
    rewrite G1, G2. reflexivity. }
  assert (E5 : x_f5 m e (pobs_of rets (hmid h s1 ch ex)) = []).
  { unfold x_f5. pose proof (c05_1_ok (hfin h s1 ch ex) HA') as G1. pose proof (c05_2_ok _ _ HR' HA') as G2. pose proof (c05_3_ok _ _ HR' HA') as G3.
    cbn [hs hch hexit hfin m_ctx m_hasr m_sv m_st x_state] in G1, G2, G3.
    change (x_is (pobs_of rets (hmid h s1 ch ex))) with (ituples ex 0 (insts (settle s1))).
    unfold x_newest, x_n. change (x_is (pobs_of rets (hmid h s1 ch ex))) with (ituples ex 0 (insts (settle s1))).
    rewrite G1, G2, G3. reflexivity. }
  rewrite E4, E5. cbn [app]. destruct (m_exitg m) eqn:Eg; [reflexivity|]. rewrite (Ha eq_refl), (Hw eq_refl). cbn [app].
  unfold x_f14c. pose proof (c14_3_ok _ _ HR' HA') as G. cbn [hs hfin m_pending m_clock x_state] in G.
  change (po_parked (pobs_of rets (hmid h s1 ch ex))) with (N.of_nat (cnt is_fired (timers (settle s1)))). rewrite G. reflexivity.
Qed.

Definition step_ok (m : mst) (h : hst) (e : list N) (s1 : st) (ch : list (option nat)) (rets : list N) (ex : list nat) : Prop :=
  R (x_state m e (pobs_of rets (hmid h s1 ch ex))) (hfin h s1 ch ex) /\ x_fails m e (pobs_of rets (hmid h s1 ch ex)) = [].

Section NonBook.
  Variables (m : mst) (h : hst) (e : list N) (s1 : st) (ch : list (option nat)) (rets : list N) (ex : list nat).
  Hypothesis HR : R m h.
  Hypothesis HA : AllInv (hs h).
  Hypothesis HA' : AllInv (settle s1).
  Local Notation s := (hs h).
  Local Notation s' := (settle s1).
  Local Notation p := (pobs_of rets (hmid h s1 ch ex)).
  Local Notation m' := (x_state m e p).
  Local Notation h' := (hfin h s1 ch ex).

  Hypothesis NBp : forall i a b, In (i, a, b) (x_pend m e p) -> b = true -> a = true.
  Hypothesis FR_cblog : cblog s1 = cblog s.
  Hypothesis FR_bo : bo s1 = bo s.
  Hypothesis FR_ncb : ncb s1 = ncb s.
  Hypothesis FR_sv : sv s1 = sv s.
  Hypothesis C_ctx : x_ctx m e p = N.of_nat (kctx s1).
  Hypothesis C_st : x_st m e p = sval s1.
  Hypothesis C_sfn : x_sfn m e = N.of_nat (sfn s1).
  Hypothesis C_clock : x_clock m e = clock s1.
  Hypothesis C_hasr : x_hasr m e p = has_routine s1.
  Hypothesis CLS : (keepA s s1 /\ x_epoch e p = false) \/ spawnB (length (insts s)) s1 \/ (freshC (length (insts s)) s1 /\ x_epoch e p = true).
  Hypothesis CLR : x_clear_ctx m e = true -> forall r, routine s1 = Some r -> rctx (getr s1 r) = None.
  Hypothesis DEAD : match e with [18; c] => c :: m_dead m | _ => m_dead m end = map N.of_nat (dead s1).
  Hypothesis IREC : forall i x, nth_error (insts s) i = Some x -> exists x1, nth_error (insts s1) i = Some x1 /\ irec x1 = irec x.
  Hypothesis OUT : forall i x1, nth_error (insts s1) i = Some x1 -> out_ok (ipcv x1) (nth i (x_out m e p) 1).
  Hypothesis OUTL : length (x_out m e p) = length (insts s1).
  Hypothesis CH : (ch = hch h /\ x_chans m e = m_chans m) \/
                  (exists w, ch = (hch h ++ [w])%list /\ x_chans m e = (m_chans m ++ [m_ninst m])%list /\ forall j, w = Some j -> S j = length (insts s)).
  Hypothesis WC : x_wcanc m e = map wcanc (waiters s1).
  Hypothesis PEND : forall d, m_pending m = Some d -> x_clears m e p = false -> pending_ok s1 d.
  Hypothesis QUIET : x_api e = false -> recs s1 = recs s /\
                     forall i x1, nth_error (insts s1) i = Some x1 -> exists x, nth_error (insts s) i = Some x /\ irec x1 = irec x.

  Let Q := quiet_settle s1.

  Lemma nb_delta : x_delta p = [].
  Proof.
    rewrite x_delta_obs, (q_cblog _ _ Q), FR_cblog, (R_hlog _ _ HR), skipn_all. reflexivity.
  Qed.
  Lemma nb_nodelta : x_nodelta p = true. Proof. unfold x_nodelta. now rewrite nb_delta. Qed.

  Lemma nb_recorded : x_recorded m e p = false. Proof. unfold x_recorded. now rewrite nb_nodelta, andb_false_r. Qed.
  Lemma nb_rec_ok : x_rec_ok m e p = false. Proof. unfold x_rec_ok. now rewrite nb_recorded. Qed.
  Lemma nb_rec_err : x_rec_err m e p = false. Proof. unfold x_rec_err. now rewrite nb_recorded. Qed.
  Lemma nb_rep_ok : x_rep_ok m e p = false. Proof. unfold x_rep_ok. now rewrite nb_nodelta, andb_false_r. Qed.
  Lemma nb_bo : x_bo m e p = (m_idx m, match m_script m with Some _ => m_pending m | None => None end).
  Proof. unfold x_bo. rewrite nb_rec_ok, nb_rec_err, nb_rep_ok. destruct (m_script m); reflexivity. Qed.

  Lemma nb_len : (length (insts s) <= length (insts s1))%nat.
  Proof.
    destruct CLS as [[(L & _) _] | [(L & _) | [(L & _) _]]]; lia.
  Qed.

  Lemma nb_spawned : x_spawned m p = Nat.ltb (length (insts s)) (length (insts s1)).
  Proof. unfold x_spawned. rewrite x_n_obs, (R_ninst _ _ HR), (q_ilen _ _ Q). reflexivity. Qed.

  Lemma nb_spawned_keep : keepA s s1 -> x_spawned m p = false.
  Proof. intros (L & _). rewrite nb_spawned, L. apply Nat.ltb_irrefl. Qed.
  Lemma nb_spawned_spawn : spawnB (length (insts s)) s1 -> x_spawned m p = true.
  Proof. intros (L & _). rewrite nb_spawned, L. apply Nat.ltb_lt. lia. Qed.
  Lemma nb_spawned_fresh : freshC (length (insts s)) s1 -> x_spawned m p = false.
  Proof. intros (L & _). rewrite nb_spawned, L. apply Nat.ltb_irrefl. Qed.

  (* the current record's status after the step *)
  Lemma nb_status :
    (if x_spawned m p || x_epoch e p then false else m_succ m) = rsucc_cur s' /\
    (if x_spawned m p || x_epoch e p then false else m_err m) = rerr_cur s' /\
    (if x_spawned m p || x_epoch e p then None else m_curexit m) = curexit_of s'.
  Proof.
    destruct (status_quiet _ _ Q) as (-> & -> & ->). unfold rsucc_cur, rerr_cur, curexit_of.
    destruct CLS as [[K Ee] | [B | [C Ee]]].
    - rewrite (nb_spawned_keep K), Ee. cbn [orb]. destruct K as (_ & Rr & K).
      rewrite (R_succ _ _ HR), (R_err _ _ HR), (R_curexit _ _ HR). unfold rsucc_cur, rerr_cur, curexit_of. rewrite Rr.
      destruct (routine s) as [r|]; [|auto]. destruct (K r eq_refl) as (A1 & A2 & A3 & _). rewrite A1, A2, A3. auto.
    - rewrite (nb_spawned_spawn B). cbn [orb]. destruct B as (_ & r & Hr & _ & _ & A1 & A2 & A3 & _). rewrite Hr, A1, A2, A3. auto.
    - rewrite Ee, orb_true_r. destruct C as (_ & [E | (r & Hr & _ & A1 & A2 & A3 & _)]); [rewrite E; auto|].
      rewrite Hr, A1, A2, A3. auto.
  Qed.

  Lemma R_nonbook : R m' h'.
  Proof.
    pose proof nb_bo as Ebo. pose proof nb_recorded as Erec. pose proof nb_rec_err as Eerr. pose proof nb_rec_ok as Eok.
    destruct nb_status as (S1 & S2 & S3).
    constructor; cbn [hs hch hlog hexitg hexit hfin m_sv m_ncb m_script m_idx m_ctx m_hasr m_sfn m_st m_clock m_ninst m_out m_chans
                      m_succ m_err m_curexit m_pending m_quiet m_cur m_exitg m_pend m_wcanc m_dead x_state].
    - rewrite (q_sv _ _ Q), FR_sv. apply (R_sv _ _ HR).
    - rewrite (q_ncb _ _ Q), FR_ncb. apply (R_ncb _ _ HR).
    - rewrite (q_ncb _ _ Q), FR_ncb. apply (R_ncb1 _ _ HR).
    - apply (R_exitg _ _ HR).
    - rewrite (q_bo _ _ Q), FR_bo, Ebo. cbn [fst]. apply (R_bo _ _ HR).
    - rewrite (q_kctx _ _ Q). exact C_ctx.
    - rewrite (q_sval _ _ Q). exact C_st.
    - rewrite (q_sfn _ _ Q). exact C_sfn.
    - rewrite (q_clock _ _ Q). exact C_clock.
    - unfold has_routine. rewrite (q_routine _ _ Q). exact C_hasr.
    - apply x_n_obs.
    - rewrite (q_ilen _ _ Q). exact OUTL.
    - intros i x' Hx'. destruct (q_inst _ _ Q i x' Hx') as (x1 & Hx1 & Hp & _). eapply out_ok_pc_step; [exact (OUT i x1 Hx1) | exact Hp].
    - destruct CH as [[-> ->] | (w & -> & -> & _)]; [apply (R_chl _ _ HR) | rewrite !app_length, (R_chl _ _ HR); reflexivity].
    - intros k j Hk. rewrite (q_ilen _ _ Q). pose proof nb_len as L.
      destruct CH as [[E1 E2] | (w & E1 & E2 & Hw)]; rewrite E1 in Hk; rewrite E2.
      + destruct (R_ch _ _ HR k j Hk) as [A B]. split; [exact A | lia].
      + apply nth_error_snoc in Hk. destruct Hk as [[_ Hk] | [Hk Ew]].
        * destruct (R_ch _ _ HR k j Hk) as [A B]. split; [|lia]. rewrite nth_error_app1; [exact A|]. apply nth_error_nth_len in A. exact A.
        * subst k. specialize (Hw j (eq_sym Ew)). split; [|lia].
          rewrite nth_error_app2 by (rewrite (R_chl _ _ HR); lia). rewrite (R_chl _ _ HR), Nat.sub_diag. cbn [nth_error].
          rewrite (R_ninst _ _ HR). now rewrite Hw.
    - rewrite Erec. unfold x_succ. rewrite Eok. exact S1.
    - rewrite Erec. unfold x_err. rewrite Eerr, Eok. exact S2.
    - unfold x_curexit. rewrite Erec. exact S3.
    - (* pending *)
      intros d Hd. unfold x_pending in Hd. rewrite Eerr, Ebo in Hd. cbn [snd] in Hd.
      destruct (x_clears m e p) eqn:Ec; [discriminate|]. destruct (m_script m); [|discriminate].
      apply (pending_ok_quiet s1); [exact Q | now apply PEND].
    - (* quiet *)
      unfold x_quiet. intros Hq i x' Hi Hx'. rewrite (q_ilen _ _ Q) in Hi. rewrite (getr_quiet _ _ _ Q).
      destruct (q_inst _ _ Q i x' Hx') as (x1 & Hx1 & _ & Ir). rewrite Ir.
      destruct CLS as [[K _] | [B | [C _]]].
      + rewrite (nb_spawned_keep K) in Hq. destruct (x_api e) eqn:Ea; [discriminate|]. destruct (QUIET eq_refl) as (Er & Hi1).
        destruct (Hi1 i x1 Hx1) as (x & Hx & Ir1). destruct K as (L & _). rewrite Ir1. unfold getr. rewrite Er.
        apply (R_quiet _ _ HR Hq i x); [lia | exact Hx].
      + destruct B as (L & r & Hr & _ & Hc & _ & _ & _ & _ & _ & x0 & Hx0 & _ & Ir0).
        assert (i = length (insts s)) by lia. subst i. assert (x1 = x0) by congruence. subst x1. now rewrite Ir0.
      + rewrite (nb_spawned_fresh C) in Hq. destruct (x_api e) eqn:Ea; [discriminate|]. destruct (QUIET eq_refl) as (Er & Hi1).
        destruct (Hi1 i x1 Hx1) as (x & Hx & Ir1). destruct C as (L & _). rewrite Ir1. unfold getr. rewrite Er.
        apply (R_quiet _ _ HR Hq i x); [lia | exact Hx].
    - (* cur1 *)
      intros r i Hr Hc. rewrite (q_routine _ _ Q) in Hr. rewrite (getr_quiet _ _ _ Q) in Hc. unfold x_cur.
      destruct CLS as [[K Ee] | [B | [C Ee]]].
      + rewrite (nb_spawned_keep K), Ee. cbn [orb]. destruct (x_clear_ctx m e) eqn:Ecl.
        * exfalso. rewrite (CLR eq_refl r Hr) in Hc. discriminate.
        * destruct K as (_ & Rr & K). rewrite Rr in Hr. destruct (K r Hr) as (_ & _ & _ & [E|E] & _); [|congruence].
          apply (R_cur1 _ _ HR r i Hr). congruence.
      + rewrite (nb_spawned_spawn B). destruct B as (L & r0 & Hr0 & _ & Hc0 & _). assert (r0 = r) by congruence. subst r0.
        unfold x_newest. rewrite x_n_obs, (q_ilen _ _ Q), L. f_equal. rewrite Hc0 in Hc. inversion Hc. lia.
      + exfalso. destruct C as (_ & [E | (r0 & Hr0 & Hc0 & _)]); [congruence|]. assert (r0 = r) by congruence. subst r0. congruence.
    - (* cur2 *)
      intros i Hi. unfold x_cur in Hi. rewrite (q_routine _ _ Q).
      destruct CLS as [[K Ee] | [B | [C Ee]]].
      + rewrite (nb_spawned_keep K), Ee in Hi. cbn [orb] in Hi. destruct (x_clear_ctx m e); [discriminate|].
        destruct (R_cur2 _ _ HR i Hi) as (x & Hx & Hr). destruct (IREC i x Hx) as (x1 & Hx1 & Ir1).
        destruct (quiet_inst_fwd _ _ i x1 Q Hx1) as (x' & Hx' & Ir' & _). exists x'. split; [exact Hx'|].
        destruct K as (_ & Rr & _). rewrite Rr, Ir', Ir1. exact Hr.
      + rewrite (nb_spawned_spawn B) in Hi. destruct B as (L & r & Hr & _ & _ & _ & _ & _ & _ & _ & x0 & Hx0 & _ & Ir0).
        unfold x_newest in Hi. rewrite x_n_obs, (q_ilen _ _ Q), L in Hi. assert (Hi' : i = length (insts s)) by (inversion Hi; lia). subst i.
        destruct (quiet_inst_fwd _ _ _ x0 Q Hx0) as (x' & Hx' & Ir' & _). exists x'. split; [exact Hx'|]. now rewrite Ir', Ir0.
      + rewrite (nb_spawned_fresh C), Ee in Hi. discriminate.
    - exact NBp.
    - rewrite WC. symmetry. apply map_wcanc_quiet. exact Q.
    - reflexivity.
    - rewrite (q_dead _ _ Q). exact DEAD.
  Qed.

  (* the clauses of this step *)
  Hypothesis NBe : x_nodelta p = true -> x_f14e m e p = [].
  Hypothesis NS1 : rsucc_cur s = true -> x_is_restart e = false -> x_epoch e p = false -> length (insts s1) = length (insts s).
  Hypothesis NS2 : rerr_cur s = true -> x_is_restart e = false -> x_is_ctx_restart e = false -> x_is_timer e = false ->
                   x_epoch e p = false -> length (insts s1) = length (insts s).

  Lemma nb_f14e : x_f14e m e p = [].
  Proof. apply NBe. exact nb_nodelta. Qed.

  Lemma nb_f14a : x_f14a m e p = [].
  Proof.
    unfold x_f14a. rewrite nb_spawned.
    destruct (Nat.ltb_spec (length (insts s)) (length (insts s1))) as [Hlt|Hge]; [|reflexivity]. cbn [andb].
    assert (G1 : negb (m_succ m) || x_is_restart e || x_epoch e p = true).
    { rewrite (R_succ _ _ HR). destruct (rsucc_cur s) eqn:E1; [|reflexivity]. cbn [negb orb].
      destruct (x_is_restart e) eqn:E2; [reflexivity|]. destruct (x_epoch e p) eqn:E3; [reflexivity|].
      specialize (NS1 eq_refl eq_refl eq_refl). lia. }
    assert (G2 : negb (m_err m) || x_is_restart e || x_is_ctx_restart e || x_is_timer e || x_epoch e p = true).
    { rewrite (R_err _ _ HR). destruct (rerr_cur s) eqn:E1; [|reflexivity]. cbn [negb orb].
      destruct (x_is_restart e) eqn:E2; [reflexivity|]. destruct (x_is_ctx_restart e) eqn:E3; [reflexivity|].
      destruct (x_is_timer e) eqn:E4; [reflexivity|]. destruct (x_epoch e p) eqn:E5; [reflexivity|].
      specialize (NS2 eq_refl eq_refl eq_refl eq_refl eq_refl). lia. }
    rewrite G1, G2. reflexivity.
  Qed.

  Hypothesis NW : m_exitg m = false -> x_f14w m e p = [].
  Lemma nb_step_ok : step_ok m h e s1 ch rets ex.
  Proof.
    split; [exact R_nonbook|]. apply fails_from_R; [exact R_nonbook | exact HA' | intros _; exact nb_f14a | exact nb_f14e | exact NW].
  Qed.
End NonBook.

