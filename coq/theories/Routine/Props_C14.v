(* C14 - routine: exit status, restart rules and back-off follow the documented machine.
   Statements only.  The facts below are per-step: they hold from EVERY state of the gate-level model (hence along
   every event list); those that need reachability say so ([run]).
   Interpretation recorded in DESIGN.md: "returned nil / an error" means RECORDED as the exit of the current
   instance by its bookkeeping section (an instance superseded between returning and recording is treated as
   cancelled and its result dropped; the pinned suite relies on this). *)
From Util Require Import Common.Base Common.ListLemmas Routine.Model Routine.Proofs Routine.ProofsC14 Routine.ProofsC14b Routine.Spec Routine.Sweep
  Routine.ProofsC05 Routine.ProofsMonInv Routine.ProofsMon.
Close Scope N_scope.

(* nothing but API calls and retry-timer callbacks can start an instance or change the routine; the context the container
   holds changes otherwise only in that a WaitExited section forgets a root context that its owner has cancelled
   (passive events include the owner's cancellation of a root context itself) *)
Theorem c14_passive_events_never_start : forall s e, passive e = true ->
  ninst (step repaired s e) = ninst s /\ routine (step repaired s e) = routine s /\
  (kctx (step repaired s e) = kctx s \/ (kctx (step repaired s e) = 0 /\ root_dead s (kctx s) = true)).
Proof. exact passive_no_spawn. Qed.
Print Assumptions c14_passive_events_never_start.

(* first sentence of C14, for every event list: once the current routine is recorded as successful, no event other than
   RestartRoutine or setting a routine / state (SetRoutine, SetState, SwapValue, SetStateRoutine) starts an instance:
   not SetContext with or without restart, not a retry callback (also not a stale one, D20), not anything else *)
Theorem c14_success_never_rerun_until_restart_or_set : forall variant cmp ncb script es e r,
  let s := run repaired (init variant cmp ncb script) es in
  routine s = Some r -> rsucc (getr s r) = true -> restarting e = false -> ninst (step repaired s e) = ninst s.
Proof. exact success_never_rerun. Qed.
Print Assumptions c14_success_never_rerun_until_restart_or_set.

(* the invariant behind it: a record marked successful has no retry pending *)
Theorem c14_success_has_no_pending_retry : forall variant cmp ncb script es r,
  let s := run repaired (init variant cmp ncb script) es in
  rsucc (getr s r) = true -> rretry (getr s r) = None.
Proof. intros v c n sc es r s. exact (proj1 (run_SInv v c n sc es) r). Qed.
Print Assumptions c14_success_has_no_pending_retry.

(* a routine recorded as successful is not re-run by SetContext, whatever the context and the restart flag *)
Theorem c14_success_not_rerun_by_setcontext : forall variant cmp ncb script es c restart r,
  let s := run repaired (init variant cmp ncb script) es in
  routine s = Some r -> rsucc (getr s r) = true ->
  ninst (fst (set_context repaired s c restart)) = ninst s.
Proof.
  intros v cm n sc es c restart r s Hr Hs. destruct (run_inv v cm n sc es) as [HI [_ [_ HW]]]. fold s in HI, HW.
  apply (set_context_success_no_spawn s c restart r HI Hr); [|exact Hs]. unfold InvW in HW. now rewrite Hr in HW.
Qed.
Print Assumptions c14_success_not_rerun_by_setcontext.

(* a routine recorded as failed is not re-run by SetContext without restart ... *)
Theorem c14_error_not_rerun_by_setcontext_norestart : forall variant cmp ncb script es c r,
  let s := run repaired (init variant cmp ncb script) es in
  routine s = Some r -> is_nil (rerr (getr s r)) = false ->
  ninst (fst (set_context repaired s c false)) = ninst s.
Proof.
  intros v cm n sc es c r s Hr He. destruct (run_inv v cm n sc es) as [HI _]. fold s in HI.
  exact (set_context_error_no_spawn s c r HI Hr He).
Qed.
Print Assumptions c14_error_not_rerun_by_setcontext_norestart.

(* ... and such a call leaves the record and every timer untouched: the pending retry survives (defect D4 repaired) *)
Theorem c14_setcontext_norestart_keeps_pending_retry : forall s c r,
  routine s = Some r -> is_nil (rerr (getr s r)) = false -> c <> 0 ->
  let s' := fst (set_context repaired s c false) in
  recs s' = recs s /\ timers s' = timers s /\ routine s' = routine s /\ kctx s' = c.
Proof. exact set_context_error_keeps_retry. Qed.
Print Assumptions c14_setcontext_norestart_keeps_pending_retry.

(* the retry: once the clock passes the deadline the timer is fired, and its callback starts a new instance *)
Theorem c14_retry_timer_fires : forall s d t x,
  nth_error (timers s) t = Some x -> tst x = TArmed -> (tdead x <= clock s + d)%N ->
  exists x', nth_error (timers (advance s d)) t = Some x' /\ tst x' = TFired /\ trec x' = trec x.
Proof. exact advance_fires. Qed.
Theorem c14_retry_callback_restarts : forall s t x r,
  nth_error (timers s) t = Some x -> tst x = TFired -> trec x = r ->
  routine s = Some r -> kctx s <> 0 -> rexited (getr s r) = true -> rretry (getr s r) = Some t -> rfn (getr s r) <> 0 ->
  ninst (timer_cb repaired s t) = S (ninst s).
Proof. exact timer_cb_restarts. Qed.
Print Assumptions c14_retry_callback_restarts.

(* what a bookkeeping section records for a current instance: error, success flag, exited; the back-off index is
   reset by a success and advanced by a failure of the container's current routine *)
Theorem c14_bookkeeping_records_exit_and_backoff : forall s i x o,
  nth_error (insts s) i = Some x -> ipcv x = IBook o -> rctx (getr s (irec x)) = Some i -> irec x < length (recs s) ->
  let y := getr (bookkeep s i) (irec x) in
  rerr y = o /\ rsucc y = is_nil o /\ rexited y = true /\ rexit y = None /\
  (forall l k, bo s = Some (l, k) ->
     bo (bookkeep s i) = Some (l, if is_nil o then 0 else if match routine s with Some r' => Nat.eqb r' (irec x) | None => false end then S k else k)).
Proof. exact bookkeep_records. Qed.
Print Assumptions c14_bookkeeping_records_exit_and_backoff.

(* exit callbacks: called by bookkeeping sections only; each of them exactly once with the instance's own outcome
   when the instance is still its record's current one, not at all otherwise *)
Theorem c14_exit_callbacks_only_from_bookkeeping : forall s e, (forall i, e <> EBook i) -> cblog (step repaired s e) = cblog s.
Proof. exact cblog_only_bookkeep. Qed.
Theorem c14_exit_callbacks_once_per_current_exit : forall s i x o,
  nth_error (insts s) i = Some x -> ipcv x = IBook o ->
  cblog (bookkeep s i) = if (match rctx (getr s (irec x)) with Some j => Nat.eqb j i | None => false end)
                         then cblog s ++ repeat o (ncb s) else cblog s.
Proof. exact bookkeep_reports. Qed.
Print Assumptions c14_exit_callbacks_once_per_current_exit.

(* WaitExited returns the recorded status of the CURRENT record (which only the bookkeeping of that record's current
   instance writes, see above), nil when asked to return if nothing runs, or Canceled if its own context is cancelled *)
Theorem c14_waitexited_reports_current_record : forall s a w o,
  nth_error (waiters s) a = Some w -> wpcv w = WGate ->
  wpcv (nth a (waiters (wait_section s a)) waiter0) = WRet o ->
  (exists r, routine s = Some r /\ kctx s <> 0 /\ root_dead s (kctx s) = false /\
             (rexited (getr s r) = true \/ rsucc (getr s r) = true) /\ o = rerr (getr s r))
  \/ (wrinr w = true /\ (routine s = None \/ kctx s = 0 \/ root_dead s (kctx s) = true) /\ o = ONil)
  \/ (wcanc w = true /\ o = OCanc).
Proof. exact wait_section_result. Qed.
Print Assumptions c14_waitexited_reports_current_record.

(* non-vacuity: error exit with back-off [100;200]: retry after 100, success resets the index *)
Example c14_example_retry :
  let s := run repaired (init false 1 1 (Some [100; 200]%N))
             [ESetCtx 1 false; ESetRoutine 1; EProceed 0 true; EReturn 0 (OErr 0); EBook 0; ESetCtx 2 false; EAdvance 100; ETimerCb 0;
              EProceed 1 true] in
  length (insts s) = 2 /\ in_user (geti s 1) = true /\ iroot (geti s 1) = 2 /\ bo s = Some ([100; 200]%N, 1) /\ cblog s = [OErr 0].
Proof. vm_compute. repeat split; reflexivity. Qed.
Example c14_example_success_final :
  let s := run repaired (init false 1 1 (Some [100]%N))
             [ESetCtx 1 false; ESetRoutine 1; EProceed 0 true; EReturn 0 ONil; EBook 0; ESetCtx 2 true; EAdvance 1000] in
  length (insts s) = 1 /\ rsucc (getr s 0) = true /\ bo s = Some ([100]%N, 0).
Proof. vm_compute. repeat split; reflexivity. Qed.

(* start()'s early return "the routine is still running" (non-forced start, r.ctx != nil && !r.exited && r.ctx.Err() == nil)
   can never be taken: both callers of a non-forced start hand it a record without an instance context (SetContext has
   just stopped the record, setRoutineLocked has just created it), and then the test is false whatever the other flags
   are.  (Coverage shows the block as never executed; dropping `r.ctx.Err() == nil` from it changes no behaviour.) *)
Theorem c14_start_still_running_branch_unreachable :
  (forall s c r, r < length (recs s) -> rctx (getr (stop_rec (set_kctx s c) r) r) = None) /\
  (forall s1 f arg, rctx (getr (set_routine (set_recs s1 (recs s1 ++ [new_rec f arg])) (Some (length (recs s1)))) (length (recs s1))) = None) /\
  (forall s r ctx w, rctx (getr s r) = None ->
     start_rec repaired s r ctx w false =
     (if rsucc (getr s r) || Nat.eqb (rfn (getr s r)) 0 then s
      else spawn (stop_rec s r) r ctx (match w with Some _ => w | None => lastexit (stop_rec s r) end))).
Proof.
  exact (conj (proj1 nonforced_start_sites_have_no_instance_context)
              (conj (proj2 nonforced_start_sites_have_no_instance_context) start_still_running_test_false)).
Qed.
Print Assumptions c14_start_still_running_branch_unreachable.

(* observation recorded while modelling the owner's cancellation of a root context (the property text does not speak
   about it): the retry callback tests `r.r.ctx != nil` but not `Err()`, so as long as no entry point has forgotten the
   cancelled context every back-off interval starts another instance, born cancelled, which exits with Canceled at
   once, is reported to the exit callbacks and arms the next retry *)
Example c14_example_retry_under_cancelled_root :
  let s := run repaired (init false 1 1 (Some [100; 100]%N))
             [ESetCtx 1 false; ESetRoutine 1; EProceed 0 true; EReturn 0 (OErr 0); EBook 0; ECancelRoot 1; EAdvance 100; ETimerCb 0;
              EProceed 1 false; EBook 1] in
  length (insts s) = 2 /\ icanc (geti s 1) = true /\ cblog s = [OErr 0; OCanc] /\ bo s = Some ([100; 100]%N, 2) /\
  map tst (timers s) = [TRan; TArmed].
Proof. vm_compute. repeat split; reflexivity. Qed.

(* The monitors (what is evaluated on implementation traces) accept the model's own behaviour - BOUNDED: every
   sequence of at most 5 events over the fixed alphabet of Routine/Sweep.v that the schedule-level model accepts, in
   five configurations (plain / back-off / exit gates / state container / state container with equality mod 2 and
   back-off), and every continuation of at most 4 events after three deeper prefixes (fired retry timer then
   RestartRoutine; a chain of three instances; a running state routine with a blocked WaitExited caller).  A kernel
   computation (kept as a regression check of the definitions); the unbounded theorem is c14_model_satisfies_monitors below. *)
Theorem c14_monitors_accept_model_bounded :
  sweep_cfg [0; 1; 1; 0; 0]%N 5 = true /\ sweep_cfg [0; 1; 2; 1; 0; 100; 200]%N 5 = true /\
  sweep_cfg [0; 1; 1; 1; 1; 100]%N 5 = true /\ sweep_cfg [1; 1; 1; 0; 0]%N 5 = true /\
  sweep_cfg [1; 2; 1; 1; 0; 100]%N 5 = true /\
  sweep_after [0; 1; 1; 1; 0; 100; 100]%N [[1; 1; 0]; [2; 1]; [8; 0; 1]; [9; 0; 2]; [10; 0]; [11; 100]; [3]]%N 4 = true /\
  sweep_after [0; 1; 1; 0; 0]%N [[1; 1; 0]; [2; 1]; [8; 0; 1]; [3]; [8; 1; 0]; [3]]%N 4 = true /\
  sweep_after [1; 1; 1; 1; 0; 100]%N [[1; 1; 0]; [6; 1]; [4; 1]; [8; 0; 1]; [13; 0]; [14; 0]]%N 4 = true.
Proof.
  exact (conj sweep_plain (conj sweep_plain_backoff (conj sweep_plain_exitgate (conj sweep_state (conj sweep_state_mod2_backoff
        (conj sweep_after_error_and_fired_timer (conj sweep_after_chain_of_three sweep_after_state_running))))))).
Qed.
Print Assumptions c14_monitors_accept_model_bounded.

(* The unbounded statement, for EVERY event list and every configuration with at least one exit callback and no zero
   back-off duration: whenever the schedule-level step function accepts the events, the monitors (the reference machine
   of C14 - clauses 14/1 no re-run after a recorded success except by RestartRoutine or a new routine/state, 14/2 no
   re-run after a recorded error except by RestartRoutine, SetContext(restart), a retry callback or a new routine/state,
   14/3 a due retry has its callback parked, 14/4 WaitExited results, 14/5 exit reports - together with the clauses of
   C04 and C05) running on the observations the model itself produces report no false clause.  Proof: a relation R
   between the monitor's state and the model state (Routine/ProofsMonR.v), the invariants of Proofs/ProofsC05/ProofsC14b
   and ProofsMonInv, one lemma per event kind, induction on the event list. *)
Theorem c14_model_satisfies_monitors : forall cfg evs, cfg_ok cfg = true ->
  monitor mon 0 (minit cfg) [] evs (run_obs step_opt (hinit cfg) evs) = [].
Proof. exact model_satisfies_monitors. Qed.
Print Assumptions c14_model_satisfies_monitors.

(* hence the whole checker (replay + monitors) accepts every history the model itself produces *)
Theorem c14_model_run_check_clean : forall cfg evs, cfg_ok cfg = true ->
  length (run_obs step_opt (hinit cfg) evs) = length evs -> run_check_routine0 cfg evs (run_obs step_opt (hinit cfg) evs) = [].
Proof. exact model_run_check_clean. Qed.
Print Assumptions c14_model_run_check_clean.

(* Both restrictions on the configuration are necessary (neither configuration is generated by the harness):
   without exit callbacks the reference machine cannot see which exit was recorded, and WaitExited's correct answer is
   judged false (14/4); a zero back-off duration fires at once in the code but only with the next clock advance in the
   model, so the model's own trace has no parked callback when the monitor demands one (14/3). *)
Example c14_cfg_needs_an_exit_callback :
  let cfg := [0; 1; 0; 0; 0]%N in let evs := [[1; 1; 0]; [2; 1]; [8; 0; 1]; [9; 0; 0]; [10; 0]; [13; 0]; [14; 0]]%N in
  cfg_ok cfg = false /\ run_check_routine0 cfg evs (run_obs step_opt (hinit cfg) evs) = [PropFalse 14 4 6].
Proof. vm_compute. split; reflexivity. Qed.
Example c14_cfg_needs_nonzero_durations :
  let cfg := [0; 1; 1; 1; 0; 0]%N in let evs := [[2; 1]; [1; 1; 0]; [8; 0; 1]; [9; 0; 3]; [10; 0]]%N in
  cfg_ok cfg = false /\ run_check_routine0 cfg evs (run_obs step_opt (hinit cfg) evs) = [PropFalse 14 3 4].
Proof. vm_compute. split; reflexivity. Qed.

(* non-vacuity, and the situation that the proof attempt exposed in the monitor: the success exit of a routine that was
   replaced meanwhile (instance 1, reported to the exit callbacks) resets the container's back-off, so the replacement's
   first failure is retried after the FIRST scripted interval (300), not the second (50); the reference machine resets
   its index on every reported success exit.  17 events accepted, no issue. *)
Example c14_example_replaced_success_resets_backoff :
  let cfg := [0; 1; 1; 1; 0; 300; 50]%N in
  let evs := [[1; 1; 0]; [2; 1]; [8; 0; 1]; [9; 0; 2]; [10; 0]; [11; 300]; [12; 0]; [8; 1; 1]; [2; 2]; [9; 1; 0]; [10; 1]; [8; 2; 1];
              [9; 2; 2]; [10; 2]; [11; 100]; [11; 200]; [12; 0]]%N in
  cfg_ok cfg = true /\ length (run_obs step_opt (hinit cfg) evs) = 17 /\
  run_check_routine0 cfg evs (run_obs step_opt (hinit cfg) evs) = [].
Proof. vm_compute. repeat split; reflexivity. Qed.

(* ---- the container built with routine.WithRetry(conf) (configuration hasbo = 2: conf = the backoff package's constant
   kind): the retry script is not supplied by the harness but computed by the model of the backoff package
   (Backoff.Model.Construct / bo_script; its own theorems are in Backoff/Props_C14_backoff.v).  The expanded
   configuration is an ordinary scripted one, all durations non-zero, so everything above applies to it. *)
Theorem c14_real_backoff_config_expands : forall v c n x d rest,
  expand (v :: c :: n :: 2 :: x :: d :: rest)%N = (v :: c :: n :: 1 :: x :: repeat (if N.eqb d 0 then 5000 else d) real_script_len)%N.
Proof. exact expand_real_constant. Qed.
Print Assumptions c14_real_backoff_config_expands.

Theorem c14_model_run_check_clean_real_backoff : forall v c n x d rest evs, nz n = true ->
  let cfg := (v :: c :: n :: 2 :: x :: d :: rest)%N in
  length (run_obs step_opt (hinit (expand cfg)) evs) = length evs ->
  run_check_routine cfg evs (run_obs step_opt (hinit (expand cfg)) evs) = [].
Proof. exact model_run_check_clean_real. Qed.
Print Assumptions c14_model_run_check_clean_real_backoff.

(* a failing instance under the package-default constant back-off (5000 ms) is retried exactly when 5000 ms have passed *)
Example c14_example_real_backoff_default :
  let cfg := [0; 1; 1; 2; 0; 0]%N in
  let evs := [[1; 1; 0]; [2; 1]; [8; 0; 1]; [9; 0; 2]; [10; 0]; [11; 4999]; [11; 1]; [12; 0]]%N in
  length (run_obs step_opt (hinit (expand cfg)) evs) = 8 /\ run_check_routine cfg evs (run_obs step_opt (hinit (expand cfg)) evs) = [].
Proof. vm_compute. split; reflexivity. Qed.

(* hasbo = 3: routine.WithRetry(&backoff.Backoff{}) - the empty configuration, i.e. the package's default exponential
   back-off 800 ms x float32(1.8) up to 20 s, in whole milliseconds as the 1 ms clock of the harness sees it *)
Theorem c14_real_default_backoff_config_expands : forall v c n x rest,
  expand (v :: c :: n :: 3 :: x :: rest)%N = (v :: c :: n :: 1 :: x :: default_expo_script)%N.
Proof. exact expand_real_default. Qed.
Print Assumptions c14_real_default_backoff_config_expands.

Theorem c14_model_run_check_clean_real_default_backoff : forall v c n x rest evs, nz n = true ->
  let cfg := (v :: c :: n :: 3 :: x :: rest)%N in
  length (run_obs step_opt (hinit (expand cfg)) evs) = length evs ->
  run_check_routine cfg evs (run_obs step_opt (hinit (expand cfg)) evs) = [].
Proof. exact model_run_check_clean_real_default. Qed.
Print Assumptions c14_model_run_check_clean_real_default_backoff.
