(* C20 (unique part): executable model of unique.KeyedList and unique.KeyedMap.
   The Go map l.vals is an association list kept sorted by key (keys are N: the harness maps
   Go's comparable keys to integers), so two equal maps are equal lists.  [cmp] (and, for
   KeyedList, [getKey]) are Section variables; V is any type.
   The only nondeterminism of the Go code is map iteration order (the removal loop of
   SetValues, the argument map of KeyedMap.SetValues/AppendValues, GetKeys/GetValues); the
   model iterates in ascending key order, and the harness sorts exactly those parts.
   No proofs in this file. *)
From Util Require Import Common.Base.
Open Scope N_scope.

Section Unique.
  Variable V : Type.
  Variable cmp : N -> V -> V -> bool.      (* cmp k a b: a (new) and b (existing) are equal *)

  Definition contents := list (N * V).

  Fixpoint lookup (k : N) (c : contents) : option V :=
    match c with
    | [] => None
    | (k', v) :: r => if N.eqb k k' then Some v else lookup k r
    end.

  (* l.vals[k] = v *)
  Fixpoint put (k : N) (v : V) (c : contents) : contents :=
    match c with
    | [] => [(k, v)]
    | (k', v') :: r =>
      if N.ltb k k' then (k, v) :: c
      else if N.eqb k k' then (k, v) :: r
      else (k', v') :: put k v r
    end.

  (* delete(l.vals, k) *)
  Fixpoint del (k : N) (c : contents) : contents :=
    match c with
    | [] => []
    | (k', v') :: r => if N.eqb k k' then del k r else (k', v') :: del k r
    end.

  (* one call of the changed callback *)
  Record note := { nk : N; nv : V; nadd : bool; nrem : bool }.

  (* the loop body shared by SetValues and AppendValues, for the entry (k, v) *)
  Definition upsert (c : contents) (e : N * V) : contents * list note :=
    let '(k, v) := e in
    match lookup k c with
    | Some ex => if cmp k v ex then (c, [])
                 else (put k v c, [{| nk := k; nv := v; nadd := false; nrem := false |}])
    | None => (put k v c, [{| nk := k; nv := v; nadd := true; nrem := false |}])
    end.

  Fixpoint upserts (c : contents) (es : list (N * V)) : contents * list note :=
    match es with
    | [] => (c, [])
    | e :: r => let '(c1, l1) := upsert c e in
                let '(c2, l2) := upserts c1 r in (c2, l1 ++ l2)
    end.

  (* the loop body of RemoveKeys / RemoveValues / the removal loop of SetValues *)
  Definition remove1 (c : contents) (k : N) : contents * list note :=
    match lookup k c with
    | Some v => (del k c, [{| nk := k; nv := v; nadd := false; nrem := true |}])
    | None => (c, [])
    end.

  Fixpoint removes (c : contents) (ks : list N) : contents * list note :=
    match ks with
    | [] => (c, [])
    | k :: r => let '(c1, l1) := remove1 c k in
                let '(c2, l2) := removes c1 r in (c2, l1 ++ l2)
    end.

  Definition mentions (k : N) (es : list (N * V)) : bool := existsb (N.eqb k) (map fst es).

  (* SetValues: notSeen = previous keys; upsert every entry (deleting its key from notSeen);
     then remove what is left in notSeen (ascending key order here, map order in Go) *)
  Definition core_set (c : contents) (es : list (N * V)) : contents * list note :=
    let '(c1, l1) := upserts c es in
    let notseen := filter (fun k => negb (mentions k es)) (map fst c) in
    let '(c2, l2) := removes c1 notseen in (c2, l1 ++ l2).

  Inductive op :=
  | OSet (es : list (N * V))        (* SetValues *)
  | OAppend (es : list (N * V))     (* AppendValues *)
  | ORemove (ks : list N).          (* RemoveKeys, RemoveValues *)

  Definition apply_op (c : contents) (o : op) : contents * list note :=
    match o with
    | OSet es => core_set c es
    | OAppend es => upserts c es
    | ORemove ks => removes c ks
    end.

  Definition run (c : contents) (ops : list op) : contents :=
    fold_left (fun c o => fst (apply_op c o)) ops c.

  (* NewKeyedList / NewKeyedMap: vals[k] = v for every initial entry, no comparison, no callback *)
  Definition init_contents (es : list (N * V)) : contents :=
    fold_left (fun c e => put (fst e) (snd e) c) es [].

  Definition keys (c : contents) : list N := map fst c.        (* GetKeys, sorted *)
  Definition values (c : contents) : list V := map snd c.      (* GetValues, sorted by key *)

  (* ---- KeyedList: entries are the values paired with their keys ---- *)
  Variable getKey : V -> N.
  Definition kl_entries (vals : list V) : list (N * V) := map (fun v => (getKey v, v)) vals.
  Definition kl_new (initial : list V) : contents := init_contents (kl_entries initial).
  Definition kl_set (c : contents) (vals : list V) := core_set c (kl_entries vals).
  Definition kl_append (c : contents) (vals : list V) := upserts c (kl_entries vals).
  Definition kl_remove_values (c : contents) (vals : list V) := removes c (map getKey vals).
  Definition kl_remove_keys (c : contents) (ks : list N) := removes c ks.

  (* ---- KeyedMap: the argument is a Go map, i.e. entries with distinct keys in some
     iteration order; [es] is that enumeration ---- *)
  Definition km_new (es : list (N * V)) : contents := init_contents es.
  Definition km_set (c : contents) (es : list (N * V)) := core_set c es.
  Definition km_append (c : contents) (es : list (N * V)) := upserts c es.
  Definition km_remove_keys (c : contents) (ks : list N) := removes c ks.
End Unique.

Arguments lookup {V} k c.
Arguments put {V} k v c.
Arguments del {V} k c.
Arguments nk {V} n.
Arguments nv {V} n.
Arguments nadd {V} n.
Arguments nrem {V} n.
Arguments Build_note {V} nk nv nadd nrem.
Arguments upsert {V} cmp c e.
Arguments upserts {V} cmp c es.
Arguments remove1 {V} c k.
Arguments removes {V} c ks.
Arguments mentions {V} k es.
Arguments core_set {V} cmp c es.
Arguments OSet {V} es.
Arguments OAppend {V} es.
Arguments ORemove {V} ks.
Arguments apply_op {V} cmp c o.
Arguments run {V} cmp c ops.
Arguments init_contents {V} es.
Arguments keys {V} c.
Arguments values {V} c.
Arguments kl_entries {V} getKey vals.
