(* C20 (unique part): the specification-level definitions (per-key effect of a call, strict
   replay of a notification log), the codec, the model-side step and the monitors.
   The monitors evaluate the property on what the IMPLEMENTATION returned: the notification
   log of the call and the contents read back through GetKeys/GetValues after it.  They use
   the map primitives lookup/put/del and the definitions of this file; they never call the
   model of the Go methods (upsert, core_set, removes, apply_op).

   Config line:  C kind mode k1 p1 k2 p2 ...
     kind 0 = KeyedList[uint64, V], 1 = KeyedMap[uint64, V] with V = struct{K, P uint64};
     mode selects cmp: 0 payloads equal, 1 never equal, 2 payloads equal mod 2, 3 always equal;
     then the initial values.
   Events:  1 k p ...  SetValues     2 k p ...  AppendValues    3 k p ...  RemoveValues (list only)
            4 k ...    RemoveKeys    5  GetKeys                 6  GetValues
   For KeyedMap the pairs of a Set/Append event are turned into a Go map (later pair wins).
   Observation of a mutating call:
     nlog (k vK vP flags)*  nkeys k*  nvals (vK vP)*       flags = added + 2*removed
   where the log is in call order EXCEPT the parts whose order is Go map iteration order,
   which the harness sorts by key: the trailing run of removed-notifications of SetValues
   (both types) and the added/changed notifications of KeyedMap.SetValues/AppendValues;
   GetKeys / GetValues results are sorted by key. *)
From Util Require Import Common.Base Unique.Model.
Open Scope N_scope.

(* ------------------------------------------------------------------ *)
Section SpecDefs.
  Variable V : Type.
  Variable cmp : N -> V -> V -> bool.
  Variable veq : V -> V -> bool.

  (* what one set of value v does to the value held for its key *)
  Definition upd (k : N) (held : option V) (v : V) : option V :=
    match held with
    | None => Some v
    | Some h => if cmp k v h then Some h else Some v
    end.

  (* per-key effect of a whole call *)
  Definition eff_append (k : N) (es : list (N * V)) (held : option V) : option V :=
    fold_left (fun h e => if N.eqb k (fst e) then upd k h (snd e) else h) es held.
  Definition eff_set (k : N) (es : list (N * V)) (held : option V) : option V :=
    if mentions k es then eff_append k es held else None.
  Definition eff_remove (k : N) (ks : list N) (held : option V) : option V :=
    if existsb (N.eqb k) ks then None else held.
  Definition key_effect (k : N) (o : op V) (held : option V) : option V :=
    match o with
    | OSet es => eff_set k es held
    | OAppend es => eff_append k es held
    | ORemove ks => eff_remove k ks held
    end.

  (* strict replay of one notification on a map: added = the key was absent; changed = the
     key was present with a value that differs (per cmp); removed = the key was present
     with exactly the notified value *)
  Definition replay1 (c : contents V) (n : note V) : option (contents V) :=
    match lookup (nk n) c with
    | None => if nadd n && negb (nrem n) then Some (put (nk n) (nv n) c) else None
    | Some old =>
      if nrem n then (if negb (nadd n) && veq old (nv n) then Some (del (nk n) c) else None)
      else if nadd n then None
      else if cmp (nk n) (nv n) old then None
      else Some (put (nk n) (nv n) c)
    end.
  Fixpoint replay_log (log : list (note V)) (c : contents V) : option (contents V) :=
    match log with
    | [] => Some c
    | n :: r => match replay1 c n with Some c' => replay_log r c' | None => None end
    end.

  Definition opt_veq (a b : option V) : bool :=
    match a, b with
    | None, None => true
    | Some x, Some y => veq x y
    | _, _ => false
    end.
  Fixpoint contents_eqb (a b : contents V) : bool :=
    match a, b with
    | [], [] => true
    | (k, v) :: a', (k', v') :: b' => N.eqb k k' && veq v v' && contents_eqb a' b'
    | _, _ => false
    end.
End SpecDefs.

Arguments upd {V} cmp k held v.
Arguments eff_append {V} cmp k es held.
Arguments eff_set {V} cmp k es held.
Arguments eff_remove {V} k ks held.
Arguments key_effect {V} cmp k o held.
Arguments replay1 {V} cmp veq c n.
Arguments replay_log {V} cmp veq log c.
Arguments opt_veq {V} veq a b.
Arguments contents_eqb {V} veq a b.

(* strictly ascending keys: one value per key *)
Fixpoint sortedb (ks : list N) : bool :=
  match ks with
  | [] => true
  | k :: r => match r with [] => true | k' :: _ => N.ltb k k' end && sortedb r
  end.

(* ------------------------------------------------------------------ *)
(* the executable instance: V = (K, P) *)
Definition val := (N * N)%type.
Definition val_eqb (a b : val) : bool := N.eqb (fst a) (fst b) && N.eqb (snd a) (snd b).
Definition cmp_of (mode : N) (k : N) (a b : val) : bool :=
  match mode with
  | 0 => N.eqb (snd a) (snd b)
  | 1 => false
  | 2 => N.eqb (snd a mod 2) (snd b mod 2)
  | _ => true
  end.

Fixpoint pairs_of (l : list N) : option (list val) :=
  match l with
  | [] => Some []
  | k :: p :: r => match pairs_of r with Some ps => Some ((k, p) :: ps) | None => None end
  | _ => None
  end.

Definition entries_of (ps : list val) : list (N * val) := kl_entries fst ps.
(* a Go map built from the pairs in order (later pair wins), enumerated by ascending key *)
Definition map_of_pairs (ps : list val) : list (N * val) := init_contents (entries_of ps).

Inductive uev :=
| UOp (o : op val)
| UGetKeys
| UGetValues.

Definition decode (is_map : bool) (e : list N) : option uev :=
  let ents ps := if is_map then map_of_pairs ps else entries_of ps in
  match e with
  | 1 :: r => option_map (fun ps => UOp (OSet (ents ps))) (pairs_of r)
  | 2 :: r => option_map (fun ps => UOp (OAppend (ents ps))) (pairs_of r)
  | 3 :: r => if is_map then None else option_map (fun ps => UOp (ORemove (map fst ps))) (pairs_of r)
  | 4 :: ks => Some (UOp (ORemove ks))
  | [5] => Some UGetKeys
  | [6] => Some UGetValues
  | _ => None
  end.

Definition enc_flags (a r : bool) : N := (if a then 1 else 0) + (if r then 2 else 0).
Definition dec_flags (f : N) : option (bool * bool) :=
  match f with
  | 0 => Some (false, false) | 1 => Some (true, false)
  | 2 => Some (false, true) | 3 => Some (true, true)
  | _ => None
  end.

Definition enc_notes (log : list (note val)) : list N :=
  concat (map (fun n => [nk n; fst (nv n); snd (nv n); enc_flags (nadd n) (nrem n)]) log).
Definition enc_log (log : list (note val)) : list N := N.of_nat (length log) :: enc_notes log.
Definition enc_keys (ks : list N) : list N := N.of_nat (length ks) :: ks.
Definition enc_pairs (vs : list val) : list N := concat (map (fun v => [fst v; snd v]) vs).
Definition enc_vals (vs : list val) : list N := N.of_nat (length vs) :: enc_pairs vs.

Fixpoint take_notes (n : nat) (l : list N) : option (list (note val) * list N) :=
  match n with
  | O => Some ([], l)
  | S n' =>
    match l with
    | k :: vk :: vp :: f :: r =>
      match dec_flags f, take_notes n' r with
      | Some (a, rm), Some (ns, r') => Some ({| nk := k; nv := (vk, vp); nadd := a; nrem := rm |} :: ns, r')
      | _, _ => None
      end
    | _ => None
    end
  end.
Fixpoint take_keys (n : nat) (l : list N) : option (list N * list N) :=
  match n with
  | O => Some ([], l)
  | S n' =>
    match l with
    | k :: r => match take_keys n' r with Some (ks, r') => Some (k :: ks, r') | None => None end
    | [] => None
    end
  end.
Fixpoint take_pairs (n : nat) (l : list N) : option (list val * list N) :=
  match n with
  | O => Some ([], l)
  | S n' =>
    match l with
    | k :: p :: r => match take_pairs n' r with Some (vs, r') => Some ((k, p) :: vs, r') | None => None end
    | _ => None
    end
  end.

(* nlog notes nkeys keys nvals values, nothing after *)
Definition dec_obs (o : list N) : option (list (note val) * list N * list val) :=
  match o with
  | nl :: r =>
    match take_notes (N.to_nat nl) r with
    | Some (log, nkk :: r2) =>
      match take_keys (N.to_nat nkk) r2 with
      | Some (ks, nv :: r3) =>
        match take_pairs (N.to_nat nv) r3 with
        | Some (vs, []) => Some (log, ks, vs)
        | _ => None
        end
      | _ => None
      end
    | _ => None
    end
  | [] => None
  end.

(* ---------- model side ---------- *)
Record ustate := { u_map : bool; u_mode : N; u_c : contents val }.

Definition init (cfg : list N) : option ustate :=
  match cfg with
  | kind :: mode :: r =>
    match pairs_of r with
    | Some ps =>
      if N.leb kind 1 && N.leb mode 3
      then Some {| u_map := N.eqb kind 1; u_mode := mode; u_c := init_contents (entries_of ps) |}
      else None
    | None => None
    end
  | _ => None
  end.

Definition step (st : option ustate) (e : list N) : option (option ustate * list N) :=
  match st with
  | None => None
  | Some s =>
    match decode (u_map s) e with
    | Some (UOp o) =>
      let '(c', log) := apply_op (cmp_of (u_mode s)) (u_c s) o in
      Some (Some {| u_map := u_map s; u_mode := u_mode s; u_c := c' |},
            enc_log log ++ enc_keys (keys c') ++ enc_vals (values c'))
    | Some UGetKeys => Some (st, enc_keys (keys (u_c s)))
    | Some UGetValues => Some (st, enc_vals (values (u_c s)))
    | None => None
    end
  end.

(* ---------- monitors: property 20, clauses 10..12 ---------- *)
Definition fails (c : nat) (ok : bool) : list (nat * nat) := if ok then [] else [(20%nat, c)].

Definition op_keys (o : op val) : list N :=
  match o with OSet es | OAppend es => map fst es | ORemove ks => ks end.

(* the monitor state is the contents OBSERVED after the previous call *)
Definition mon (m : option ustate) (e o : list N) : option ustate * list (nat * nat) :=
  match m with
  | None => (None, [])
  | Some s =>
    let prev := u_c s in
    match decode (u_map s) e with
    | Some (UOp op) =>
      match dec_obs o with
      | Some (log, ks, vs) =>
        let now := combine ks vs in
        (Some {| u_map := u_map s; u_mode := u_mode s; u_c := now |},
         (* clause 10: one value per key *)
         fails 10 (sortedb ks && Nat.eqb (length ks) (length vs)) ++
         (* clause 11: every key holds the latest set that differed from the previous one *)
         fails 11 (forallb (fun k => opt_veq val_eqb (lookup k now) (key_effect (cmp_of (u_mode s)) k op (lookup k prev)))
                           (ks ++ keys prev ++ op_keys op)) ++
         (* clause 12: the notifications, replayed on the previous contents, give the new contents *)
         fails 12 (match replay_log (cmp_of (u_mode s)) val_eqb log prev with
                   | Some c => contents_eqb val_eqb c now
                   | None => false
                   end))
      | None => (m, [(20%nat, 10%nat)])
      end
    | Some UGetKeys => (m, fails 10 (list_eqb o (enc_keys (keys prev))))
    | Some UGetValues => (m, fails 10 (list_eqb o (enc_vals (values prev))))
    | None => (m, [])
    end
  end.

Definition run_check_unique (cfg : list N) (evs obss : list (list N)) : list issue :=
  run_check step mon (init cfg) (init cfg) evs obss.
