(* C20 (unique part): all lemmas.  Stdlib only, no axioms.
   Everything is proved for an arbitrary value type V and an ARBITRARY cmp (no reflexivity,
   symmetry or transitivity of cmp is used anywhere), over all operation sequences. *)
From Util Require Import Common.Base Unique.Model Unique.Spec.
Open Scope N_scope.

(* ------------------------------------------------------------------ *)
(* strictly ascending key lists *)
Definition lb (k : N) (ks : list N) : Prop := forall k', In k' ks -> k < k'.

Lemma sortedb_cons k ks : sortedb (k :: ks) = true <-> lb k ks /\ sortedb ks = true.
Proof.
  revert k. induction ks as [|k1 r IH]; intros k.
  - cbn. split; [intros _; split; [intros k' []|reflexivity]|intros _; reflexivity].
  - change (sortedb (k :: k1 :: r)) with (N.ltb k k1 && sortedb (k1 :: r)).
    rewrite andb_true_iff, N.ltb_lt. split.
    + intros [Hlt Hs]. split; [|exact Hs]. apply IH in Hs as [Hlb _].
      intros k' [<-|Hin]; [exact Hlt|]. specialize (Hlb k' Hin). lia.
    + intros [Hlb Hs]. split; [|exact Hs]. apply Hlb. now left.
Qed.

Lemma sortedb_nodup ks : sortedb ks = true -> NoDup ks.
Proof.
  induction ks as [|k r IH]; intros H; [constructor|].
  apply sortedb_cons in H as [Hlb Hs]. constructor; [|exact (IH Hs)].
  intros Hin. specialize (Hlb k Hin). lia.
Qed.

Section MapFacts.
  Variable V : Type.
  Notation contents := (contents V).

  Definition sorted (c : contents) : Prop := sortedb (keys c) = true.

  (* ---------------- the map primitives ---------------- *)
  Lemma lookup_put_same k v (c : contents) : lookup k (put k v c) = Some v.
  Proof.
    induction c as [|[k' v'] r IH]; cbn [put lookup].
    - now rewrite N.eqb_refl.
    - destruct (N.ltb_spec k k') as [Hlt|Hge].
      + cbn [lookup]. now rewrite N.eqb_refl.
      + destruct (N.eqb_spec k k') as [He|Hne]; cbn [lookup].
        * now rewrite N.eqb_refl.
        * destruct (N.eqb_spec k k'); [contradiction|exact IH].
  Qed.

  Lemma lookup_put_other k k0 v (c : contents) : k0 <> k -> lookup k0 (put k v c) = lookup k0 c.
  Proof.
    intros Hne. induction c as [|[k' v'] r IH]; cbn [put lookup].
    - destruct (N.eqb_spec k0 k); [contradiction|reflexivity].
    - destruct (N.ltb_spec k k') as [Hlt|Hge].
      + cbn [lookup]. destruct (N.eqb_spec k0 k); [contradiction|reflexivity].
      + destruct (N.eqb_spec k k') as [He|Hne2]; cbn [lookup].
        * subst k'. destruct (N.eqb_spec k0 k); [contradiction|reflexivity].
        * destruct (N.eqb_spec k0 k'); [reflexivity|exact IH].
  Qed.

  Lemma lookup_del_same k (c : contents) : lookup k (del k c) = None.
  Proof.
    induction c as [|[k' v'] r IH]; cbn [del lookup]; [reflexivity|].
    destruct (N.eqb_spec k k') as [He|Hne]; [exact IH|].
    cbn [lookup]. destruct (N.eqb_spec k k'); [contradiction|exact IH].
  Qed.

  Lemma lookup_del_other k k0 (c : contents) : k0 <> k -> lookup k0 (del k c) = lookup k0 c.
  Proof.
    intros Hne. induction c as [|[k' v'] r IH]; cbn [del lookup]; [reflexivity|].
    destruct (N.eqb_spec k k') as [He|Hne2].
    - subst k'. destruct (N.eqb_spec k0 k); [contradiction|exact IH].
    - cbn [lookup]. destruct (N.eqb_spec k0 k'); [reflexivity|exact IH].
  Qed.

  Lemma lookup_none_iff k (c : contents) : lookup k c = None <-> ~ In k (keys c).
  Proof.
    unfold keys. induction c as [|[k' v'] r IH]; cbn [lookup map fst In].
    - tauto.
    - destruct (N.eqb_spec k k') as [He|Hne].
      + split; [discriminate|]. intros H. exfalso. apply H. left. now symmetry.
      + rewrite IH. split.
        * intros H [H1|H1]; [apply Hne; now symmetry|now apply H].
        * intros H H1. apply H. now right.
  Qed.

  Lemma lookup_some_in k v (c : contents) : lookup k c = Some v -> In (k, v) c.
  Proof.
    induction c as [|[k' v'] r IH]; cbn [lookup In]; [discriminate|].
    destruct (N.eqb_spec k k') as [He|Hne].
    - intros H. inversion H. subst. now left.
    - intros H. right. now apply IH.
  Qed.

  Lemma put_keys_in k v k0 (c : contents) : In k0 (keys (put k v c)) <-> k0 = k \/ In k0 (keys c).
  Proof.
    unfold keys. induction c as [|[k' v'] r IH]; cbn [put map fst In].
    - split; [intros [H|[]]; left; now symmetry|intros [H|[]]; left; now symmetry].
    - destruct (N.ltb_spec k k') as [Hlt|Hge]; [|destruct (N.eqb_spec k k') as [He|Hne]]; cbn [map fst In].
      + split; [intros [H|H]; [left; now symmetry|now right]|intros [H|H]; [left; now symmetry|now right]].
      + subst k'. split; [intros [H|H]; [left; now symmetry|right; now right]|intros [H|[H|H]]; [left; now symmetry|now left|now right]].
      + rewrite IH. tauto.
  Qed.

  Lemma del_keys_in k k0 (c : contents) : In k0 (keys (del k c)) <-> k0 <> k /\ In k0 (keys c).
  Proof.
    unfold keys. induction c as [|[k' v'] r IH]; cbn [del map fst In]; [tauto|].
    destruct (N.eqb_spec k k') as [He|Hne]; cbn [map fst In]; rewrite IH.
    - subst k'. split; [intros [H1 H2]; split; [exact H1|now right]|intros [H1 [H2|H2]]; [congruence|now split]].
    - split; [intros [H|[H1 H2]]; [split; [congruence|now left]|split; [exact H1|now right]]|intros [H1 [H2|H2]]; [now left|right; now split]].
  Qed.

  (* ---------------- one value per key: sortedness is an invariant ---------------- *)
  Lemma sorted_cons k v (r : contents) : sorted ((k, v) :: r) <-> lb k (keys r) /\ sorted r.
  Proof. unfold sorted, keys. cbn [map fst]. apply sortedb_cons. Qed.

  Lemma sorted_nil : sorted [].
  Proof. reflexivity. Qed.

  Lemma put_sorted k v (c : contents) : sorted c -> sorted (put k v c).
  Proof.
    induction c as [|[k' v'] r IH]; intros Hs; cbn [put].
    - reflexivity.
    - pose proof Hs as Hs0. apply sorted_cons in Hs as [Hlb Hr].
      destruct (N.ltb_spec k k') as [Hlt|Hge]; [|destruct (N.eqb_spec k k') as [He|Hne]].
      + apply sorted_cons. split; [|exact Hs0].
        intros k0 Hin. unfold keys in Hin. cbn [map fst In] in Hin.
        destruct Hin as [<-|Hin]; [exact Hlt|]. specialize (Hlb k0 Hin). lia.
      + subst k'. apply sorted_cons. split; assumption.
      + apply sorted_cons. split; [|exact (IH Hr)].
        intros k0 Hin. apply put_keys_in in Hin as [->|Hin]; [lia|exact (Hlb k0 Hin)].
  Qed.

  Lemma del_sorted k (c : contents) : sorted c -> sorted (del k c).
  Proof.
    induction c as [|[k' v'] r IH]; intros Hs; cbn [del]; [exact Hs|].
    apply sorted_cons in Hs as [Hlb Hr].
    destruct (N.eqb_spec k k') as [He|Hne]; [exact (IH Hr)|].
    apply sorted_cons. split; [|exact (IH Hr)].
    intros k0 Hin. apply del_keys_in in Hin as [_ Hin]. exact (Hlb k0 Hin).
  Qed.

  (* in a sorted map a key occurs once, so membership and lookup coincide *)
  Lemma sorted_in_lookup k v (c : contents) : sorted c -> (In (k, v) c <-> lookup k c = Some v).
  Proof.
    intros Hs. split; [|apply lookup_some_in].
    induction c as [|[k' v'] r IH]; cbn [In lookup]; [tauto|].
    apply sorted_cons in Hs as [Hlb Hr].
    intros [H|H].
    - inversion H. subst. now rewrite N.eqb_refl.
    - destruct (N.eqb_spec k k') as [He|Hne]; [|exact (IH Hr H)].
      subst k'. exfalso. assert (Hin : In k (keys r)) by (unfold keys; apply in_map_iff; now exists (k, v)).
      specialize (Hlb k Hin). lia.
  Qed.

End MapFacts.

Arguments sorted {V} c.
Arguments lookup_some_in {V} k v c _.
Arguments sorted_in_lookup {V} k v c _.

Section Facts.
  Variable V : Type.
  Variable cmp : N -> V -> V -> bool.
  Notation contents := (contents V).

  Lemma upsert_sorted c e : sorted c -> sorted (fst (upsert cmp c e)).
  Proof.
    intros Hs. destruct e as [k v]. unfold upsert.
    destruct (lookup k c) as [ex|]; [destruct (cmp k v ex)|]; cbn [fst]; try exact Hs; now apply put_sorted.
  Qed.

  Lemma upserts_cons c e r :
    upserts cmp c (e :: r) =
    (fst (upserts cmp (fst (upsert cmp c e)) r), snd (upsert cmp c e) ++ snd (upserts cmp (fst (upsert cmp c e)) r)).
  Proof. cbn [upserts]. destruct (upsert cmp c e) as [c1 l1]. cbn [fst snd]. now destruct (upserts cmp c1 r). Qed.

  Lemma removes_cons (c : contents) k r :
    removes c (k :: r) =
    (fst (removes (fst (remove1 c k)) r), snd (remove1 c k) ++ snd (removes (fst (remove1 c k)) r)).
  Proof. cbn [removes]. destruct (remove1 c k) as [c1 l1]. cbn [fst snd]. now destruct (removes c1 r). Qed.

  Definition notseen (c : contents) (es : list (N * V)) : list N :=
    filter (fun k => negb (mentions k es)) (map fst c).

  Lemma core_set_eq c es :
    core_set cmp c es =
    (fst (removes (fst (upserts cmp c es)) (notseen c es)),
     snd (upserts cmp c es) ++ snd (removes (fst (upserts cmp c es)) (notseen c es))).
  Proof.
    unfold core_set, notseen. destruct (upserts cmp c es) as [c1 l1]. cbn [fst snd].
    now destruct (removes c1 _).
  Qed.

  Lemma upserts_sorted es : forall c, sorted c -> sorted (fst (upserts cmp c es)).
  Proof.
    induction es as [|e r IH]; intros c Hs; [exact Hs|].
    rewrite upserts_cons. cbn [fst]. apply IH. now apply upsert_sorted.
  Qed.

  Lemma remove1_sorted (c : contents) k : sorted c -> sorted (fst (remove1 c k)).
  Proof.
    intros Hs. unfold remove1. destruct (lookup k c); cbn [fst]; [now apply del_sorted|exact Hs].
  Qed.

  Lemma removes_sorted ks : forall c : contents, sorted c -> sorted (fst (removes c ks)).
  Proof.
    induction ks as [|k r IH]; intros c Hs; [exact Hs|].
    rewrite removes_cons. cbn [fst]. apply IH. now apply remove1_sorted.
  Qed.

  Lemma core_set_sorted c es : sorted c -> sorted (fst (core_set cmp c es)).
  Proof. intros Hs. rewrite core_set_eq. cbn [fst]. apply removes_sorted. now apply upserts_sorted. Qed.

  Lemma apply_op_sorted c o : sorted c -> sorted (fst (apply_op cmp c o)).
  Proof.
    intros Hs. destruct o as [es|es|ks]; cbn [apply_op].
    - now apply core_set_sorted.
    - now apply upserts_sorted.
    - now apply removes_sorted.
  Qed.

  Lemma init_contents_sorted (es : list (N * V)) : sorted (init_contents es).
  Proof.
    unfold init_contents.
    assert (H : forall es (c : contents), sorted c -> sorted (fold_left (fun c e => put (fst e) (snd e) c) es c)).
    { clear es. induction es as [|e r IH]; intros c Hs; [exact Hs|]. cbn [fold_left]. apply IH. now apply put_sorted. }
    apply H, sorted_nil.
  Qed.

  Lemma run_sorted ops : forall c, sorted c -> sorted (run cmp c ops).
  Proof.
    unfold run. induction ops as [|o r IH]; intros c Hs; [exact Hs|].
    cbn [fold_left]. apply IH. now apply apply_op_sorted.
  Qed.

  (* ONE VALUE PER KEY, over every operation sequence from every initial argument (with
     duplicates): the contents are strictly ascending by key, hence no key occurs twice and
     the value found for a key is the only one stored for it *)
  Theorem unique_one_value_per_key (initial : list (N * V)) (ops : list (op V)) :
    let c := run cmp (init_contents initial) ops in
    sortedb (keys c) = true /\ NoDup (keys c) /\
    (forall k v, In (k, v) c <-> lookup k c = Some v) /\
    (forall k v v', In (k, v) c -> In (k, v') c -> v = v').
  Proof.
    cbn zeta. set (c := run cmp (init_contents initial) ops).
    assert (Hs : sorted c) by (apply run_sorted, init_contents_sorted).
    split; [exact Hs|split; [exact (sortedb_nodup _ Hs)|split]].
    - intros k v. now apply sorted_in_lookup.
    - intros k v v' H1 H2. apply (sorted_in_lookup k v c Hs) in H1. apply (sorted_in_lookup k v' c Hs) in H2. congruence.
  Qed.

  (* ---------------- per-key effect of every call ---------------- *)
  Lemma upsert_lookup c k v k0 :
    lookup k0 (fst (upsert cmp c (k, v))) = if N.eqb k0 k then upd cmp k (lookup k c) v else lookup k0 c.
  Proof.
    unfold upsert, upd. destruct (lookup k c) as [ex|] eqn:E; [destruct (cmp k v ex)|]; cbn [fst];
      destruct (N.eqb_spec k0 k) as [->|Hne]; rewrite ?lookup_put_same, ?lookup_put_other by assumption; auto.
  Qed.

  Lemma upserts_lookup es k0 : forall c,
    lookup k0 (fst (upserts cmp c es)) = eff_append cmp k0 es (lookup k0 c).
  Proof.
    induction es as [|[k v] r IH]; intros c; [reflexivity|].
    rewrite upserts_cons. cbn [fst]. rewrite IH, upsert_lookup.
    unfold eff_append. cbn [fold_left fst snd].
    destruct (N.eqb_spec k0 k) as [->|Hne]; reflexivity.
  Qed.

  Lemma remove1_lookup (c : contents) k k0 :
    lookup k0 (fst (remove1 c k)) = if N.eqb k0 k then None else lookup k0 c.
  Proof.
    unfold remove1. destruct (lookup k c) as [v|] eqn:E; cbn [fst]; destruct (N.eqb_spec k0 k) as [->|Hne].
    - apply lookup_del_same.
    - now apply lookup_del_other.
    - exact E.
    - reflexivity.
  Qed.

  Lemma removes_lookup ks k0 : forall c : contents,
    lookup k0 (fst (removes c ks)) = eff_remove k0 ks (lookup k0 c).
  Proof.
    unfold eff_remove. induction ks as [|k r IH]; intros c; [reflexivity|].
    rewrite removes_cons. cbn [fst existsb]. rewrite IH, remove1_lookup.
    destruct (N.eqb k0 k); cbn [orb]; [now destruct (existsb (N.eqb k0) r)|reflexivity].
  Qed.

  Lemma existsb_filter_eqb (p : N -> bool) k0 l :
    existsb (N.eqb k0) (filter p l) = p k0 && existsb (N.eqb k0) l.
  Proof.
    induction l as [|a l IH]; cbn [filter existsb]; [now rewrite andb_false_r|].
    destruct (p a) eqn:Hp; cbn [existsb]; rewrite IH; destruct (N.eqb_spec k0 a) as [->|Hne]; cbn [orb].
    - now rewrite Hp.
    - reflexivity.
    - now rewrite Hp.
    - reflexivity.
  Qed.

  Lemma existsb_eqb_in k0 l : existsb (N.eqb k0) l = true <-> In k0 l.
  Proof.
    rewrite existsb_exists. split.
    - intros (x & Hin & He). apply N.eqb_eq in He. now subst.
    - intros H. exists k0. split; [exact H|apply N.eqb_refl].
  Qed.

  Lemma eff_append_not_mentioned k es : forall h, mentions k es = false -> eff_append cmp k es h = h.
  Proof.
    unfold mentions, eff_append. induction es as [|e r IH]; intros h Hm; [reflexivity|].
    cbn [map existsb] in Hm. apply orb_false_iff in Hm as [H1 H2].
    cbn [fold_left]. rewrite H1. now apply IH.
  Qed.

  Lemma core_set_lookup c es k0 :
    lookup k0 (fst (core_set cmp c es)) = eff_set cmp k0 es (lookup k0 c).
  Proof.
    rewrite core_set_eq. cbn [fst]. rewrite removes_lookup, upserts_lookup.
    unfold eff_remove, eff_set, notseen. rewrite existsb_filter_eqb.
    destruct (mentions k0 es) eqn:Hm; cbn [negb andb]; [reflexivity|].
    destruct (existsb (N.eqb k0) (map fst c)) eqn:Hin; [reflexivity|].
    rewrite eff_append_not_mentioned by exact Hm.
    apply lookup_none_iff. intros H. apply existsb_eqb_in in H. unfold keys in H. congruence.
  Qed.

  (* EVERY KEY HOLDS THE LATEST SET THAT DIFFERED FROM THE PREVIOUS ONE: what a call does to a
     key depends only on the value held for that key and on the entries of the call that
     mention it, taken in call order ([upd]: a set equal per cmp to the value held keeps
     the held value, any other set replaces it) -- duplicates within the call included.
     Holds for every c (sorted or not) and every cmp. *)
  Theorem unique_key_effect c o k :
    lookup k (fst (apply_op cmp c o)) = key_effect cmp k o (lookup k c).
  Proof.
    destruct o as [es|es|ks]; cbn [apply_op key_effect].
    - apply core_set_lookup.
    - apply upserts_lookup.
    - apply removes_lookup.
  Qed.

  Theorem unique_holds_latest_differing ops : forall c k,
    lookup k (run cmp c ops) = fold_left (fun held o => key_effect cmp k o held) ops (lookup k c).
  Proof.
    unfold run. induction ops as [|o r IH]; intros c k; [reflexivity|].
    cbn [fold_left]. rewrite IH, unique_key_effect. reflexivity.
  Qed.

  (* ---------------- notifications replay ---------------- *)
  Section Replay.
    Variable veq : V -> V -> bool.
    (* the values on which veq has to be reflexive: those stored before the call and those
       passed to it (a removal notification carries the stored value and replay compares it
       with what it finds) *)
    Variable good : V -> Prop.
    Hypothesis veq_good : forall v, good v -> veq v v = true.

    Definition all_good (c : contents) : Prop := forall k v, In (k, v) c -> good v.

    Lemma put_good k v (c : contents) : good v -> all_good c -> all_good (put k v c).
    Proof.
      intros Hv. induction c as [|[k' v'] r IH]; intros Hc k0 v0; cbn [put].
      - intros [H|[]]. inversion H. now subst.
      - destruct (N.ltb k k'); [|destruct (N.eqb k k')].
        + intros [H|H]; [inversion H; now subst|exact (Hc k0 v0 H)].
        + intros [H|H]; [inversion H; now subst|apply (Hc k0 v0); now right].
        + intros [H|H]; [apply (Hc k0 v0); now left|].
          revert H. apply IH. intros k1 v1 H1. apply (Hc k1 v1). now right.
    Qed.

    Lemma del_good k (c : contents) : all_good c -> all_good (del k c).
    Proof.
      induction c as [|[k' v'] r IH]; intros Hc k0 v0; cbn [del]; [intros []|].
      assert (Hr : all_good r) by (intros k1 v1 H1; apply (Hc k1 v1); now right).
      destruct (N.eqb k k'); [exact (IH Hr k0 v0)|].
      intros [H|H]; [apply (Hc k0 v0); now left|exact (IH Hr k0 v0 H)].
    Qed.

    Lemma replay_log_app l1 : forall l2 (c : contents),
      replay_log cmp veq (l1 ++ l2) c =
      match replay_log cmp veq l1 c with Some c' => replay_log cmp veq l2 c' | None => None end.
    Proof.
      induction l1 as [|n r IH]; intros l2 c; [reflexivity|].
      cbn [app replay_log]. destruct (replay1 cmp veq c n); [apply IH|reflexivity].
    Qed.

    Lemma replay_upsert c e : replay_log cmp veq (snd (upsert cmp c e)) c = Some (fst (upsert cmp c e)).
    Proof.
      destruct e as [k v]. unfold upsert.
      destruct (lookup k c) as [ex|] eqn:E; [destruct (cmp k v ex) eqn:Ec|];
        cbn [snd fst replay_log]; unfold replay1; cbn [nk nv nadd nrem]; rewrite ?E, ?Ec; reflexivity.
    Qed.

    Lemma upsert_good c e : good (snd e) -> all_good c -> all_good (fst (upsert cmp c e)).
    Proof.
      destruct e as [k v]. cbn [snd]. intros Hv Hc. unfold upsert.
      destruct (lookup k c) as [ex|]; [destruct (cmp k v ex)|]; cbn [fst]; try exact Hc; now apply put_good.
    Qed.

    Lemma replay_upserts es : forall c,
      replay_log cmp veq (snd (upserts cmp c es)) c = Some (fst (upserts cmp c es)).
    Proof.
      induction es as [|e r IH]; intros c; [reflexivity|].
      rewrite upserts_cons. cbn [fst snd]. rewrite replay_log_app, replay_upsert. apply IH.
    Qed.

    Lemma upserts_good es : forall c,
      Forall (fun e => good (snd e)) es -> all_good c -> all_good (fst (upserts cmp c es)).
    Proof.
      induction es as [|e r IH]; intros c He Hc; [exact Hc|].
      inversion He as [|e0 r0 He1 He2]; subst.
      rewrite upserts_cons. cbn [fst]. apply IH; [exact He2|]. now apply upsert_good.
    Qed.

    Lemma replay_remove1 (c : contents) k : all_good c ->
      replay_log cmp veq (snd (remove1 c k)) c = Some (fst (remove1 c k)).
    Proof.
      intros Hc. unfold remove1. destruct (lookup k c) as [v|] eqn:E; cbn [snd fst replay_log]; [|reflexivity].
      unfold replay1. cbn [nk nv nadd nrem]. rewrite E.
      rewrite (veq_good v (Hc k v (lookup_some_in _ _ _ E))). reflexivity.
    Qed.

    Lemma remove1_good (c : contents) k : all_good c -> all_good (fst (remove1 c k)).
    Proof. intros Hc. unfold remove1. destruct (lookup k c); cbn [fst]; [now apply del_good|exact Hc]. Qed.

    Lemma replay_removes ks : forall c : contents, all_good c ->
      replay_log cmp veq (snd (removes c ks)) c = Some (fst (removes c ks)).
    Proof.
      induction ks as [|k r IH]; intros c Hc; [reflexivity|].
      rewrite removes_cons. cbn [fst snd]. rewrite replay_log_app, replay_remove1 by exact Hc.
      apply IH. now apply remove1_good.
    Qed.

    Lemma replay_core_set c es : Forall (fun e => good (snd e)) es -> all_good c ->
      replay_log cmp veq (snd (core_set cmp c es)) c = Some (fst (core_set cmp c es)).
    Proof.
      intros He Hc. rewrite core_set_eq. cbn [fst snd]. rewrite replay_log_app, replay_upserts.
      apply replay_removes. now apply upserts_good.
    Qed.

    Definition op_good (o : op V) : Prop :=
      match o with OSet es | OAppend es => Forall (fun e => good (snd e)) es | ORemove _ => True end.

    (* THE NOTIFICATION LOG, REPLAYED STRICTLY ON THE PREVIOUS CONTENTS, GIVES THE NEW CONTENTS
       (strictly: "added" only for an absent key, "changed" only for a present key whose value
       differs per cmp, "removed" only for a present key holding exactly the notified value).
       Hypothesis actually needed: veq is reflexive on the stored and the passed values.
       No hypothesis on cmp and none on sortedness of c. *)
    Lemma replay_apply_op_good c o : all_good c -> op_good o ->
      replay_log cmp veq (snd (apply_op cmp c o)) c = Some (fst (apply_op cmp c o)).
    Proof.
      intros Hc Ho. destruct o as [es|es|ks]; cbn [apply_op op_good] in *.
      - now apply replay_core_set.
      - apply replay_upserts.
      - now apply replay_removes.
    Qed.
  End Replay.

  Theorem unique_notifications_replay (veq : V -> V -> bool) :
    (forall v, veq v v = true) ->
    forall c o, replay_log cmp veq (snd (apply_op cmp c o)) c = Some (fst (apply_op cmp c o)).
  Proof.
    intros Hr c o. apply (replay_apply_op_good veq (fun _ => True)).
    - intros v _. apply Hr.
    - intros k v _. exact I.
    - destruct o as [es|es|ks]; cbn [op_good]; try exact I; apply Forall_forall; intros; exact I.
  Qed.
End Facts.

(* the reflexivity hypothesis is needed: with a veq that is not reflexive on a stored value,
   the removal notification does not replay *)
Lemma replay_without_veq_refl_refuted :
  let cmp := fun (_ : N) (a b : N) => N.eqb a b in
  let veq := fun (_ _ : N) => false in
  replay_log cmp veq (snd (apply_op cmp [(1, 5)] (ORemove [1]))) [(1, 5)] = None /\
  fst (apply_op cmp [(1, 5)] (ORemove [1])) = [].
Proof. split; reflexivity. Qed.

(* ------------------------------------------------------------------ *)
(* the monitors accept every observation the model produces, over whole histories *)
Lemma val_eqb_refl v : val_eqb v v = true.
Proof. unfold val_eqb. now rewrite !N.eqb_refl. Qed.

Lemma opt_veq_refl (x : option val) : opt_veq val_eqb x x = true.
Proof. destruct x; [apply val_eqb_refl|reflexivity]. Qed.

Lemma contents_eqb_refl (c : contents val) : contents_eqb val_eqb c c = true.
Proof. induction c as [|[k v] r IH]; [reflexivity|]. cbn [contents_eqb]. now rewrite N.eqb_refl, val_eqb_refl, IH. Qed.

Lemma list_eqb_refl l : list_eqb l l = true.
Proof. induction l as [|x r IH]; [reflexivity|]. cbn [list_eqb]. now rewrite N.eqb_refl, IH. Qed.

Lemma dec_enc_flags a r : dec_flags (enc_flags a r) = Some (a, r).
Proof. destruct a, r; reflexivity. Qed.

Lemma take_notes_enc log rest : take_notes (length log) (enc_notes log ++ rest) = Some (log, rest).
Proof.
  unfold enc_notes. induction log as [|[k [vk vp] a rm] r IH]; [reflexivity|].
  cbn [length map concat app take_notes nk nv nadd nrem fst snd].
  rewrite dec_enc_flags, IH. reflexivity.
Qed.

Lemma take_keys_enc ks rest : take_keys (length ks) (ks ++ rest) = Some (ks, rest).
Proof. induction ks as [|k r IH]; [reflexivity|]. cbn [length app take_keys]. now rewrite IH. Qed.

Lemma take_pairs_enc vs rest : take_pairs (length vs) (enc_pairs vs ++ rest) = Some (vs, rest).
Proof.
  unfold enc_pairs. induction vs as [|[k p] r IH]; [reflexivity|].
  cbn [length map concat app take_pairs fst snd]. now rewrite IH.
Qed.

Lemma dec_enc_obs log ks vs : dec_obs (enc_log log ++ enc_keys ks ++ enc_vals vs) = Some (log, ks, vs).
Proof.
  unfold dec_obs, enc_log, enc_keys, enc_vals.
  change ((N.of_nat (length log) :: enc_notes log) ++ (N.of_nat (length ks) :: ks) ++ N.of_nat (length vs) :: enc_pairs vs)
    with (N.of_nat (length log) :: enc_notes log ++ (N.of_nat (length ks) :: ks ++ N.of_nat (length vs) :: enc_pairs vs)).
  cbv beta iota. rewrite Nat2N.id, take_notes_enc. cbv beta iota.
  rewrite Nat2N.id, take_keys_enc. cbv beta iota.
  rewrite Nat2N.id, <- (app_nil_r (enc_pairs vs)), take_pairs_enc. reflexivity.
Qed.

Lemma combine_keys_values (c : contents val) : combine (keys c) (values c) = c.
Proof. unfold keys, values. induction c as [|[k v] r IH]; [reflexivity|]. cbn [map combine fst snd]. now rewrite IH. Qed.

Definition st_sorted (st : option ustate) : Prop :=
  match st with Some s => sorted (u_c s) | None => True end.

Lemma init_sorted cfg : st_sorted (init cfg).
Proof.
  unfold init. destruct cfg as [|kind [|mode r]]; try exact I.
  destruct (pairs_of r) as [ps|]; [|exact I].
  destruct (N.leb kind 1 && N.leb mode 3); [|exact I].
  cbn [st_sorted u_c]. apply init_contents_sorted. 
Qed.

(* the monitor state is the model state: the contents decoded from the observation are the
   model's contents *)
Lemma sim_step st e st' o :
  st_sorted st -> step st e = Some (st', o) -> mon st e o = (st', []) /\ st_sorted st'.
Proof.
  intros Hs Hst. destruct st as [s|]; [|discriminate]. cbn [step mon] in *. cbn [st_sorted] in Hs.
  destruct (decode (u_map s) e) as [[op| |]|]; [| | |discriminate].
  - destruct (apply_op (cmp_of (u_mode s)) (u_c s) op) as [c' log] eqn:Ea.
    inversion Hst; subst st' o; clear Hst.
    assert (Hc' : c' = fst (apply_op (cmp_of (u_mode s)) (u_c s) op)) by now rewrite Ea.
    assert (Hlog : log = snd (apply_op (cmp_of (u_mode s)) (u_c s) op)) by now rewrite Ea.
    assert (Hs' : sorted c') by (rewrite Hc'; now apply apply_op_sorted).
    change (N.of_nat (length log) :: enc_notes log ++ N.of_nat (length (keys c')) :: keys c' ++ enc_vals (values c'))
      with (enc_log log ++ enc_keys (keys c') ++ enc_vals (values c')).
    rewrite dec_enc_obs, combine_keys_values.
    split; [|exact Hs'].
    f_equal.
    assert (H10 : sortedb (keys c') && Nat.eqb (length (keys c')) (length (values c')) = true).
    { unfold sorted in Hs'. rewrite Hs'. unfold keys, values. rewrite !map_length. apply Nat.eqb_refl. }
    assert (H11 : forallb (fun k => opt_veq val_eqb (lookup k c') (key_effect (cmp_of (u_mode s)) k op (lookup k (u_c s))))
                          (keys c' ++ keys (u_c s) ++ op_keys op) = true).
    { apply forallb_forall. intros k _. rewrite Hc', unique_key_effect. apply opt_veq_refl. }
    assert (H12 : match replay_log (cmp_of (u_mode s)) val_eqb log (u_c s) with
                  | Some c => contents_eqb val_eqb c c' | None => false end = true).
    { rewrite Hlog, (unique_notifications_replay val (cmp_of (u_mode s)) val_eqb val_eqb_refl), <- Hc'. apply contents_eqb_refl. }
    rewrite H10, H11, H12. reflexivity.
  - inversion Hst; subst st' o; clear Hst. rewrite list_eqb_refl. split; [reflexivity|exact Hs].
  - inversion Hst; subst st' o; clear Hst. rewrite list_eqb_refl. split; [reflexivity|exact Hs].
Qed.

Lemma monitor_silent evs : forall st i reported,
  st_sorted st -> monitor mon i st reported evs (run_obs step st evs) = [].
Proof.
  induction evs as [|e evs IH]; intros st i reported Hs; [reflexivity|].
  cbn [run_obs]. destruct (step st e) as [[st' o]|] eqn:Hst; [|reflexivity].
  destruct (sim_step _ _ _ _ Hs Hst) as [Hm Hs'].
  cbn [monitor]. rewrite Hm. cbn [filter map app]. apply IH. exact Hs'.
Qed.

Theorem model_satisfies_monitors cfg evs :
  monitor mon 0 (init cfg) [] evs (run_obs step (init cfg) evs) = [].
Proof. apply monitor_silent, init_sorted. Qed.
