(* C18 — conc queue: bounded parallelism, every job exactly once, idle means done.
   Statements only.  "For every limit, every number of producers, every batch split, every distribution of job
   durations" = for every maxConcurrency lim (<= 0: unlimited), every number ninit of initial elements and every list
   of events of the gate-level model (any number of Enqueue / WaitIdle / WatchState calls with any batch sizes, every
   interleaving of their critical sections with the sections of the executeJob goroutines, job returns at any time,
   cancellations, errCh traffic, wake-ups in any order).
   Job ids are positions in the global enqueue order (order of the Enqueue critical sections, batch order inside). *)
From Util Require Import Common.Base Common.ListLemmas Conc.Model Conc.Spec Conc.Proofs.

(* the running counter never exceeds a positive limit *)
Theorem c18_running_le_limit : forall lim ninit es,
  let s := run lim ninit es in (0 < limit s)%Z -> (Z.of_nat (running s) <= limit s)%Z.
Proof. exact running_le_limit. Qed.
Print Assumptions c18_running_le_limit.

(* ... and limit s is the configured one *)
Theorem c18_limit_constant : forall lim ninit es, limit (run lim ninit es) = lim.
Proof. exact run_limit. Qed.
Print Assumptions c18_limit_constant.

(* the number of goroutines inside a job function is at most running (hence at most the limit) *)
Theorem c18_executing_le_running : forall lim ninit es,
  let s := run lim ninit es in cnt in_user (jobs s) <= running s.
Proof. exact executing_le_running. Qed.
Print Assumptions c18_executing_le_running.

(* every enqueued job is exactly one of: queued once and never entered / entered once, not returned, exactly one
   goroutine inside it / entered once and returned once, nobody inside: never entered twice, never lost *)
Theorem c18_each_job_exactly_once : forall lim ninit es j,
  let s := run lim ninit es in
  j < length (jobs s) ->
  let r := nth j (jobs s) jd in
  (count_occ Nat.eq_dec (queue s) j = 1 /\ ent r = 0 /\ fin r = 0 /\ cnt (runs j) (jobs s) = 0) \/
  (count_occ Nat.eq_dec (queue s) j = 0 /\ ent r = 1 /\ fin r = 0 /\ cnt (runs j) (jobs s) = 1) \/
  (count_occ Nat.eq_dec (queue s) j = 0 /\ ent r = 1 /\ fin r = 1 /\ cnt (runs j) (jobs s) = 0).
Proof. exact each_job_exactly_once. Qed.
Print Assumptions c18_each_job_exactly_once.

(* the entry log lists exactly the entries counted per job *)
Theorem c18_entry_log_counts : forall lim ninit es j,
  let s := run lim ninit es in count_occ Nat.eq_dec (entl s) j = ent (nth j (jobs s) jd).
Proof. exact entry_log_counts. Qed.
Print Assumptions c18_entry_log_counts.

(* when no internal step is enabled and no job is inside its function, nothing is queued and running = 0:
   with c18_each_job_exactly_once, every enqueued job has then run exactly once *)
Theorem c18_all_finish : forall lim ninit es,
  let s := run lim ninit es in
  quiescent s = true -> cnt in_user (jobs s) = 0 -> queue s = [] /\ running s = 0 /\ size s = 0.
Proof. exact all_finish. Qed.
Print Assumptions c18_all_finish.

(* limit 1: the jobs entered so far, in entry order, followed by the queue, are 0, 1, 2, ... in enqueue order *)
Theorem c18_limit1_fifo : forall ninit es,
  let s := run 1%Z ninit es in entl s ++ queue s = seq 0 (length (jobs s)).
Proof. exact limit1_fifo. Qed.
Print Assumptions c18_limit1_fifo.

(* queued > 0 only if running = limit: as a state invariant, and for every pair returned by Enqueue or passed to
   the WatchState callback *)
Theorem c18_queued_pos_implies_running_eq_limit : forall lim ninit es,
  let s := run lim ninit es in
  (0 < size s -> (0 < lim)%Z /\ Z.of_nat (running s) = lim) /\
  (forall a x q r, nth_error (acts s) a = Some x -> (pc x = PRet q r \/ exists ch, pc x = SCb ch q r) ->
     0 < q -> (0 < lim)%Z /\ Z.of_nat r = lim).
Proof. exact queued_pos_implies_running_eq_limit. Qed.
Print Assumptions c18_queued_pos_implies_running_eq_limit.

(* WaitIdle returned nil: every job enqueued before it was called (ids below n0) has returned.
   n0 is the number of jobs enqueued at the call (c18_waitidle_n0_at_call) and is never changed (c18_waitidle_n0_stable). *)
Theorem c18_waitidle_nil_means_earlier_jobs_finished : forall lim ninit es a x n0,
  let s := run lim ninit es in
  nth_error (acts s) a = Some x -> pc x = IRet n0 RNil -> forall j, j < n0 -> fin (nth j (jobs s) jd) = 1.
Proof. exact waitidle_nil_means_earlier_jobs_finished. Qed.
Print Assumptions c18_waitidle_nil_means_earlier_jobs_finished.

Theorem c18_waitidle_n0_at_call : forall s he,
  let s' := step s (CallIdle he) in
  nth_error (acts s') (length (acts s)) = Some (mkact (IGate (length (jobs s))) he).
Proof. exact call_idle_records_enqueued. Qed.
Print Assumptions c18_waitidle_n0_at_call.

Theorem c18_waitidle_n0_stable : forall s e a x x',
  nth_error (acts s) a = Some x -> nth_error (acts (step s e)) a = Some x' -> idle_n0 (pc x') = idle_n0 (pc x).
Proof. exact idle_n0_stable. Qed.
Print Assumptions c18_waitidle_n0_stable.

(* liveness as quiescence safety: when no internal step is enabled and nothing is running or queued, no WaitIdle is blocked *)
Theorem c18_waiters_quiescent : forall lim ninit es a x,
  let s := run lim ninit es in
  quiescent s = true -> running s = 0 -> size s = 0 -> nth_error (acts s) a = Some x -> idle_blocked x = false.
Proof. exact waiters_quiescent. Qed.
Print Assumptions c18_waiters_quiescent.

Theorem c18_size_is_queue_length : forall lim ninit es,
  let s := run lim ninit es in size s = length (queue s).
Proof. exact size_is_queue_length. Qed.
Print Assumptions c18_size_is_queue_length.

(* the monitors (Spec.clauses, evaluated on decoded observations) accept every reachable model state in which no
   blocked WaitIdle has a closed wait channel (the states the eager schedule of the correspondence run produces) *)
Theorem c18_clauses_hold_in_model : forall s, Inv s -> Settled s ->
  clauses (limit s) (kinds s) (map atrip (acts s)) (map jtrip (jobs s)) = [].
Proof. exact clauses_ok. Qed.
Print Assumptions c18_clauses_hold_in_model.

(* model_satisfies_monitors: for every configuration and every history, running the monitors on the observations the
   model itself produces (as long as it accepts the events) reports nothing *)
Theorem c18_model_satisfies_monitors : forall cfg evs,
  monitor mon 0 (minit cfg) [] evs (run_obs hstep (hinit cfg) evs) = [].
Proof. exact model_satisfies_monitors. Qed.
Print Assumptions c18_model_satisfies_monitors.

(* ---------------- non-vacuity ---------------- *)
(* limit 2, one initial element, Enqueue(4 jobs): two run, three are queued; the pair returned is (3, 2) *)
Example c18_example_bounded :
  let s := run 2%Z 1 [CallEnq 4; Sect 0] in
  running s = 2 /\ queue s = [2; 3; 4] /\ size s = 3 /\ cnt in_user (jobs s) = 2 /\
  option_map pc (nth_error (acts s) 0) = Some (PRet 3 2).
Proof. vm_compute. repeat split; reflexivity. Qed.

(* limit 1, two producers whose sections run in the opposite order of their calls; jobs are entered in section order;
   a WaitIdle called after the first section blocks, is woken by the worker's exit and returns nil; all jobs ran once *)
Example c18_example_fifo_waitidle :
  let es := [CallEnq 2; CallEnq 1; Sect 1; CallIdle false; Sect 2; Sect 0;
             JobDone 0; WSect 0; JobDone 0; WSect 0; JobDone 0; WSect 0; Wake 2; Sect 2] in
  let s := run 1%Z 0 es in
  entl s = [0; 1; 2] /\ queue s = [] /\ running s = 0 /\
  map (fun r => (ent r, fin r)) (jobs s) = [(1, 1); (1, 1); (1, 1)] /\
  option_map pc (nth_error (acts s) 2) = Some (IRet 1 RNil) /\
  quiescent s = true /\ cnt in_user (jobs s) = 0.
Proof. vm_compute. repeat split; reflexivity. Qed.

(* the WaitIdle of the previous example is really blocked before the last job returns *)
Example c18_example_waitidle_blocked :
  let es := [CallEnq 2; CallEnq 1; Sect 1; CallIdle false; Sect 2; Sect 0; Wake 2; Sect 2; JobDone 0; WSect 0] in
  let s := run 1%Z 0 es in
  cnt idle_blocked (acts s) = 1 /\ quiescent s = true /\ cnt in_user (jobs s) = 1 /\ size s = 1.
Proof. vm_compute. repeat split; reflexivity. Qed.

(* unlimited: everything is spawned at once, nothing is ever queued; WatchState sees (0, 3) *)
Example c18_example_unlimited :
  let s := run 0%Z 0 [CallEnq 3; Sect 0; CallWatch true; Sect 1] in
  running s = 3 /\ queue s = [] /\ option_map pc (nth_error (acts s) 1) = Some (SCb 0 0 3).
Proof. vm_compute. repeat split; reflexivity. Qed.

(* the model's constructor (a loop of the Enqueue body) equals the literal two-phase constructor (push all, then
   updateLocked) on a grid of configurations *)
Definition st_eqb_core (s1 s2 : st) : bool :=
  Z.eqb (limit s1) (limit s2) && Nat.eqb (running s1) (running s2) && list_eqb (map N.of_nat (queue s1)) (map N.of_nat (queue s2)) &&
  Nat.eqb (size s1) (size s2) && list_eqb (map N.of_nat (entl s1)) (map N.of_nat (entl s2)) &&
  list_eqb (flat_map (fun r => [N.of_nat (ent r); N.of_nat (fin r);
                                match wk r with WNone => 0 | WRun j => 10 + N.of_nat j | WGate => 1 | WExit => 8 end]%N) (jobs s1))
           (flat_map (fun r => [N.of_nat (ent r); N.of_nat (fin r);
                                match wk r with WNone => 0 | WRun j => 10 + N.of_nat j | WGate => 1 | WExit => 8 end]%N) (jobs s2)) &&
  match cur (b s1), cur (b s2) with None, None => Nat.eqb (nxt (b s1)) (nxt (b s2)) | _, _ => false end.
Example c18_example_constructor_two_phase :
  forallb (fun lim => forallb (fun n => st_eqb_core (init lim n) (init_two_phase lim n)) (seq 0 8))
          [(-2)%Z; (-1)%Z; 0%Z; 1%Z; 2%Z; 3%Z; 4%Z; 5%Z; 9%Z] = true.
Proof. vm_compute. reflexivity. Qed.

(* the correspondence-level run of a corpus history is accepted step by step and produces observations *)
Example c18_example_hstep_run :
  let evs := [[1; 2]; [1; 1]; [4; 1]; [2; 0]; [4; 2]; [4; 0]; [4; 2]; [6; 0]; [5; 0]; [6; 0]; [5; 0]; [6; 0]; [5; 0]; [4; 2]]%N in
  let obss := run_obs hstep (hinit [0; 1; 0]%N) evs in
  length obss = 14 /\ last obss [] = [3; 3; 7; 2; 1; 7; 0; 1; 4; 0; 0; 1; 1; 8; 1; 1; 0; 1; 1; 0]%N /\
  run_check_conc [0; 1; 0]%N evs obss = [].
Proof. vm_compute. repeat split; reflexivity. Qed.
