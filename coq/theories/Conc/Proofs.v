(* Proofs about the ConcurrentQueue model (C18). *)
From Util Require Import Common.Base Common.ListLemmas Conc.Model Conc.Spec.

(* ------------------------------------------------------------------ *)
(* upd *)
Section Upd.
  Context {A : Type}.
  Implicit Types (l : list A) (f : A -> A).

  Lemma upd_length l k f : length (upd l k f) = length l.
  Proof. unfold upd. destruct (nth_error l k); [apply length_set_nth | reflexivity]. Qed.

  Lemma upd_oob l k f : length l <= k -> upd l k f = l.
  Proof. intros H. unfold upd. apply nth_error_None in H. now rewrite H. Qed.

  Lemma upd_in l k f d : k < length l -> upd l k f = set_nth l k (f (nth k l d)).
  Proof. intros H. unfold upd. now rewrite (nth_error_nth' l d H). Qed.

  Lemma nth_upd_same l k f d : k < length l -> nth k (upd l k f) d = f (nth k l d).
  Proof. intros H. rewrite (upd_in l k f d H). now apply nth_set_nth_same. Qed.

  Lemma nth_upd_other l k f d x : x <> k -> nth x (upd l k f) d = nth x l d.
  Proof. intros H. unfold upd. destruct (nth_error l k); [now apply nth_set_nth_other | reflexivity]. Qed.

  Lemma cnt_upd (P : A -> bool) l k f d : k < length l ->
    cnt P (upd l k f) + b2n (P (nth k l d)) = cnt P l + b2n (P (f (nth k l d))).
  Proof. intros H. rewrite (upd_in l k f d H). now apply cnt_set_nth. Qed.

  Lemma cnt_upd_same (P : A -> bool) l k f : (forall r, P (f r) = P r) -> cnt P (upd l k f) = cnt P l.
  Proof.
    intros HP. destruct (Nat.lt_ge_cases k (length l)) as [H|H]; [|now rewrite upd_oob].
    destruct l as [|d l0]; [simpl in H; lia|].
    pose proof (cnt_upd P (d :: l0) k f d H) as E. rewrite HP in E. lia.
  Qed.

  Lemma lookup_upd l a f k x' : nth_error (upd l a f) k = Some x' ->
    (k <> a /\ nth_error l k = Some x') \/ (k = a /\ exists x, nth_error l a = Some x /\ x' = f x).
  Proof.
    unfold upd. destruct (nth_error l a) as [x|] eqn:G.
    - destruct (Nat.eq_dec k a) as [->|Hne].
      + rewrite nth_error_set_nth_same by (eapply nth_error_nth_len; eauto). intros H; inversion H. right. split; [reflexivity|]. now exists x.
      + rewrite nth_error_set_nth_other by exact Hne. intros H. left. now split.
    - intros H. destruct (Nat.eq_dec k a) as [->|Hne]; [congruence | now left].
  Qed.
End Upd.

Lemma nth_snoc {A} (l : list A) r d j :
  nth j (l ++ [r]) d = if j <? length l then nth j l d else if j =? length l then r else d.
Proof.
  destruct (Nat.ltb_spec j (length l)) as [H|H]; [now apply app_nth1|].
  rewrite app_nth2 by lia. destruct (Nat.eqb_spec j (length l)) as [->|Hne].
  - now rewrite Nat.sub_diag.
  - destruct (j - length l) as [|k] eqn:E; [lia|]. simpl. now destruct k.
Qed.

Lemma count_occ_fresh (q : list nat) n : Forall (fun j => j < n) q -> count_occ Nat.eq_dec q n = 0.
Proof.
  intros H. apply count_occ_not_In. intros Hin. rewrite Forall_forall in H. specialize (H _ Hin). lia.
Qed.

Lemma count_occ_snoc (l : list nat) x j :
  count_occ Nat.eq_dec (l ++ [x]) j = count_occ Nat.eq_dec l j + (if Nat.eqb j x then 1 else 0).
Proof.
  rewrite count_occ_app. simpl. destruct (Nat.eq_dec x j) as [->|Hne].
  - now rewrite Nat.eqb_refl.
  - destruct (Nat.eqb_spec j x); [congruence | reflexivity].
Qed.

Lemma cnt_snoc {A} (P : A -> bool) l r : cnt P (l ++ [r]) = cnt P l + b2n (P r).
Proof. rewrite cnt_app, cnt_cons, cnt_nil. lia. Qed.

(* weighted sums over a table *)
Definition sumw {A} (w : A -> nat) (l : list A) : nat := fold_right (fun x acc => w x + acc) 0 l.

Lemma sumw_snoc {A} (w : A -> nat) l r : sumw w (l ++ [r]) = sumw w l + w r.
Proof. induction l as [|h t IH]; cbn [sumw fold_right app]; [lia|]. fold (sumw w (t ++ [r])). fold (sumw w t). lia. Qed.

Lemma sumw_set_nth {A} (w : A -> nat) l k v d : k < length l ->
  sumw w (set_nth l k v) + w (nth k l d) = sumw w l + w v.
Proof.
  revert k. induction l as [|h t IH]; intros k Hk; cbn [length] in Hk; [lia|].
  destruct k; cbn [set_nth nth sumw fold_right]; [lia|]. fold (sumw w (set_nth t k v)). fold (sumw w t).
  specialize (IH k ltac:(lia)). lia.
Qed.

Lemma sumw_upd {A} (w : A -> nat) l k f d : k < length l ->
  sumw w (upd l k f) + w (nth k l d) = sumw w l + w (f (nth k l d)).
Proof. intros H. rewrite (upd_in l k f d H). now apply sumw_set_nth. Qed.

Lemma sumw_upd_same {A} (w : A -> nat) l k f : (forall r, w (f r) = w r) -> sumw w (upd l k f) = sumw w l.
Proof.
  intros HP. destruct (Nat.lt_ge_cases k (length l)) as [H|H]; [|now rewrite upd_oob].
  destruct l as [|d l0]; [simpl in H; lia|].
  pose proof (sumw_upd w (d :: l0) k f d H) as E. rewrite HP in E. lia.
Qed.

(* jobs inside their function, counted from the entry / return counters *)
Definition jw (r : jrec) : nat := ent r - fin r.

(* ------------------------------------------------------------------ *)
(* the job-table invariant *)
Record Core (s : st) : Prop := {
  c_q : Forall (fun j => j < length (jobs s)) (queue s);
  c_once : forall j, j < length (jobs s) -> count_occ Nat.eq_dec (queue s) j + ent (nth j (jobs s) jd) = 1;
  c_run : forall j, cnt (runs j) (jobs s) + fin (nth j (jobs s) jd) = ent (nth j (jobs s) jd);
  c_running : running s = cnt wactive (jobs s);
  c_size : size s = length (queue s);
  c_le : (0 < limit s)%Z -> (Z.of_nat (running s) <= limit s)%Z;
  c_full : queue s <> [] -> (0 < limit s)%Z /\ Z.of_nat (running s) = limit s;
  c_fifo : limit s = 1%Z -> entl s ++ queue s = seq 0 (length (jobs s));
  c_log : forall j, count_occ Nat.eq_dec (entl s) j = ent (nth j (jobs s) jd);
  c_sum : sumw jw (jobs s) = cnt in_user (jobs s) }.

Lemma core_empty lim : Core (empty lim).
Proof.
  constructor; cbn [empty jobs queue running size limit entl length]; try (intros; try reflexivity; lia).
  - constructor.
  - intros j. destruct j; reflexivity.
  - congruence.
  - intros j. destruct j; reflexivity.
Qed.

Lemma ent_le_1 s j : Core s -> ent (nth j (jobs s) jd) <= 1.
Proof.
  intros C. destruct (Nat.lt_ge_cases j (length (jobs s))) as [H|H].
  - pose proof (c_once s C j H). lia.
  - rewrite nth_overflow by exact H. cbn. lia.
Qed.

Lemma core_enq1 s : Core s -> Core (enq1 s).
Proof.
  intros C. unfold enq1, can_spawn.
  destruct ((limit s <=? 0)%Z || (Z.of_nat (running s) <? limit s)%Z) eqn:ESP.
  - (* spawn *)
    assert (Hq : queue s = []).
    { destruct (queue s) as [|h t] eqn:EQ; [reflexivity|exfalso].
      destruct (c_full s C) as [Hpos Heq]; [rewrite EQ; discriminate|].
      apply orb_true_iff in ESP as [H|H]; [apply Z.leb_le in H | apply Z.ltb_lt in H]; lia. }
    constructor; cbn [jobs queue running size limit entl b acts]; rewrite ?app_length; cbn [length].
    + rewrite Hq. constructor.
    + intros j Hj. rewrite Hq. cbn [count_occ]. rewrite nth_snoc.
      destruct (Nat.ltb_spec j (length (jobs s))) as [H|H].
      * pose proof (c_once s C j H) as E. rewrite Hq in E. exact E.
      * destruct (Nat.eqb_spec j (length (jobs s))); [reflexivity | lia].
    + intros j. rewrite cnt_snoc, nth_snoc. cbn [runs wk]. pose proof (c_run s C j) as E.
      destruct (Nat.ltb_spec j (length (jobs s))) as [H|H].
      * destruct (Nat.eqb_spec j (length (jobs s))); [lia|]. cbn [b2n]. lia.
      * rewrite nth_overflow in E by exact H. cbn [fin ent jd] in E.
        destruct (Nat.eqb_spec j (length (jobs s))); cbn [b2n fin ent jd]; lia.
    + rewrite cnt_snoc. cbn [wactive wk b2n]. rewrite (c_running s C). lia.
    + exact (c_size s C).
    + intros Hpos. apply orb_true_iff in ESP as [H|H]; [apply Z.leb_le in H | apply Z.ltb_lt in H]; lia.
    + rewrite Hq. congruence.
    + intros H1. rewrite Hq, app_nil_r. pose proof (c_fifo s C H1) as E. rewrite Hq, app_nil_r in E.
      rewrite E. rewrite Nat.add_1_r. symmetry. apply seq_S.
    + intros j. rewrite count_occ_snoc, nth_snoc. pose proof (c_log s C j) as E.
      destruct (Nat.ltb_spec j (length (jobs s))) as [H|H].
      * destruct (Nat.eqb_spec j (length (jobs s))); lia.
      * rewrite nth_overflow in E by exact H. cbn [ent jd] in E.
        destruct (Nat.eqb_spec j (length (jobs s))); cbn [ent jd]; lia.
    + rewrite sumw_snoc, cnt_snoc, (c_sum s C). unfold jw. cbn [ent fin in_user wk b2n]. lia.
  - (* queue *)
    apply orb_false_iff in ESP as [H1 H2]. apply Z.leb_gt in H1. apply Z.ltb_ge in H2.
    pose proof (c_le s C H1) as Hle.
    constructor; cbn [jobs queue running size limit entl b acts]; rewrite ?app_length; cbn [length].
    + apply Forall_app. split.
      * eapply Forall_impl; [|exact (c_q s C)]. cbn. intros; lia.
      * constructor; [lia | constructor].
    + intros j Hj. rewrite count_occ_snoc, nth_snoc.
      destruct (Nat.ltb_spec j (length (jobs s))) as [H|H].
      * pose proof (c_once s C j H). destruct (Nat.eqb_spec j (length (jobs s))); lia.
      * destruct (Nat.eqb_spec j (length (jobs s))) as [->|]; [|lia].
        rewrite (count_occ_fresh _ _ (c_q s C)). reflexivity.
    + intros j. rewrite cnt_snoc, nth_snoc. cbn [runs wk b2n]. pose proof (c_run s C j) as E.
      destruct (Nat.ltb_spec j (length (jobs s))) as [H|H]; [lia|].
      rewrite nth_overflow in E by exact H. cbn [fin ent jd] in E.
      destruct (Nat.eqb_spec j (length (jobs s))); cbn [fin ent jd]; lia.
    + rewrite cnt_snoc. cbn [wactive wk b2n]. rewrite (c_running s C). lia.
    + rewrite (c_size s C). lia.
    + intros _. exact Hle.
    + intros _. split; [exact H1 | lia].
    + intros Hl. rewrite app_assoc, (c_fifo s C Hl). rewrite Nat.add_1_r. symmetry. apply seq_S.
    + intros j. rewrite nth_snoc. pose proof (c_log s C j) as E.
      destruct (Nat.ltb_spec j (length (jobs s))) as [H|H]; [exact E|].
      rewrite nth_overflow in E by exact H. cbn [ent jd] in E.
      destruct (Nat.eqb_spec j (length (jobs s))); cbn [ent jd]; lia.
    + rewrite sumw_snoc, cnt_snoc, (c_sum s C). unfold jw. cbn [ent fin in_user wk b2n]. lia.
Qed.

Lemma core_iter n s : Core s -> Core (Nat.iter n enq1 s).
Proof. intros C. induction n as [|n IH]; [exact C|]. cbn [Nat.iter]. now apply core_enq1. Qed.

Lemma core_init lim ninit : Core (init lim ninit).
Proof. apply core_iter, core_empty. Qed.

(* what the Enqueue loop leaves alone *)
Record Ext (s s' : st) : Prop := {
  x_b : b s' = b s; x_acts : acts s' = acts s; x_lim : limit s' = limit s;
  x_len : length (jobs s) <= length (jobs s');
  x_nth : forall j, j < length (jobs s) -> nth j (jobs s') jd = nth j (jobs s) jd }.

Lemma ext_refl s : Ext s s.
Proof. constructor; auto. Qed.

Lemma ext_enq1 s : Ext s (enq1 s).
Proof.
  unfold enq1. destruct (can_spawn s); constructor; cbn [b acts limit jobs]; auto; rewrite ?app_length; cbn [length]; try lia.
  all: intros j Hj; rewrite nth_snoc; destruct (Nat.ltb_spec j (length (jobs s))); [reflexivity | lia].
Qed.

Lemma ext_trans s1 s2 s3 : Ext s1 s2 -> Ext s2 s3 -> Ext s1 s3.
Proof.
  intros [A1 A2 A3 A4 A5] [B1 B2 B3 B4 B5]. constructor; try congruence; try lia.
  intros j Hj. rewrite B5 by lia. now apply A5.
Qed.

Lemma ext_iter n s : Ext s (Nat.iter n enq1 s).
Proof. induction n as [|n IH]; [apply ext_refl|]. cbn [Nat.iter]. eapply ext_trans; [exact IH | apply ext_enq1]. Qed.

Lemma enq1_not_idle s : idle (enq1 s) = false.
Proof.
  unfold enq1, idle. destruct (can_spawn s); cbn [running size]; [reflexivity|]. now rewrite andb_false_r.
Qed.

Lemma iter_not_idle n s : n <> 0 -> idle (Nat.iter n enq1 s) = false.
Proof. destruct n as [|n]; [congruence|]. intros _. cbn [Nat.iter]. apply enq1_not_idle. Qed.

(* ------------------------------------------------------------------ *)
(* sections of executeJob and job returns *)
Lemma wk_in_range s w : wk (nth w (jobs s) jd) <> WNone -> w < length (jobs s).
Proof.
  intros H. destruct (Nat.lt_ge_cases w (length (jobs s))) as [Hl|Hl]; [exact Hl|].
  rewrite nth_overflow in H by exact Hl. now cbn in H.
Qed.

Lemma core_wexit s w : Core s -> wk (nth w (jobs s) jd) = WGate -> queue s = [] ->
  Core {| b := bcast (b s); limit := limit s; running := pred (running s); queue := []; size := size s;
          jobs := upd (jobs s) w (setwk WExit); acts := acts s; entl := entl s |}.
Proof.
  intros C G Hq. assert (Hw : w < length (jobs s)) by (apply wk_in_range; rewrite G; discriminate).
  assert (HwA : wactive (nth w (jobs s) jd) = true) by (unfold wactive; now rewrite G).
  assert (HwR : forall j, runs j (nth w (jobs s) jd) = false) by (intros j; unfold runs; now rewrite G).
  pose proof (cnt_upd wactive (jobs s) w (setwk WExit) jd Hw) as EA. cbn [wactive setwk wk] in EA. rewrite HwA in EA. cbn [b2n] in EA.
  assert (Hnth : forall j, ent (nth j (upd (jobs s) w (setwk WExit)) jd) = ent (nth j (jobs s) jd) /\
                           fin (nth j (upd (jobs s) w (setwk WExit)) jd) = fin (nth j (jobs s) jd)).
  { intros j. destruct (Nat.eq_dec j w) as [->|Hne].
    - rewrite nth_upd_same by exact Hw. split; reflexivity.
    - rewrite nth_upd_other by exact Hne. split; reflexivity. }
  constructor; cbn [jobs queue running size limit entl b acts]; rewrite ?upd_length.
  - constructor.
  - intros j Hj. destruct (Hnth j) as [-> _]. pose proof (c_once s C j Hj) as E. now rewrite Hq in E.
  - intros j. destruct (Hnth j) as [-> ->]. pose proof (c_run s C j) as E.
    pose proof (cnt_upd (runs j) (jobs s) w (setwk WExit) jd Hw) as ER. cbn [runs setwk wk] in ER. rewrite HwR in ER. cbn [b2n] in ER. lia.
  - rewrite (c_running s C). lia.
  - rewrite (c_size s C), Hq. reflexivity.
  - intros Hpos. pose proof (c_le s C Hpos). lia.
  - congruence.
  - intros Hl. pose proof (c_fifo s C Hl) as E. now rewrite Hq in E.
  - intros j. destruct (Hnth j) as [-> _]. exact (c_log s C j).
  - rewrite (sumw_upd_same jw _ w (setwk WExit) (fun r => eq_refl)).
    pose proof (cnt_upd in_user (jobs s) w (setwk WExit) jd Hw) as EU. cbn [in_user setwk wk] in EU.
    assert (HwU : in_user (nth w (jobs s) jd) = false) by (unfold in_user; now rewrite G).
    rewrite HwU in EU. cbn [b2n] in EU. rewrite (c_sum s C). lia.
Qed.

Lemma nth_setwk_fields l w p j :
  ent (nth j (upd l w (setwk p)) jd) = ent (nth j l jd) /\ fin (nth j (upd l w (setwk p)) jd) = fin (nth j l jd).
Proof.
  destruct (Nat.lt_ge_cases w (length l)) as [Hw|Hw]; [|now rewrite upd_oob].
  destruct (Nat.eq_dec j w) as [->|Hne].
  - rewrite nth_upd_same by exact Hw. split; reflexivity.
  - rewrite nth_upd_other by exact Hne. split; reflexivity.
Qed.

Lemma nth_pop_fields l w p h j : w < length l -> h < length l ->
  ent (nth j (upd (upd l w (setwk p)) h bump_ent) jd) = (if Nat.eqb j h then S (ent (nth j l jd)) else ent (nth j l jd)) /\
  fin (nth j (upd (upd l w (setwk p)) h bump_ent) jd) = fin (nth j l jd).
Proof.
  intros Hw Hh. destruct (Nat.eqb_spec j h) as [->|Hne].
  - rewrite nth_upd_same by (now rewrite upd_length). cbn [bump_ent ent fin].
    destruct (Nat.eq_dec h w) as [->|Hne2].
    + rewrite nth_upd_same by exact Hw. split; reflexivity.
    + rewrite nth_upd_other by exact Hne2. split; reflexivity.
  - rewrite nth_upd_other by exact Hne.
    destruct (Nat.eq_dec j w) as [->|Hne2].
    + rewrite nth_upd_same by exact Hw. split; reflexivity.
    + rewrite nth_upd_other by exact Hne2. split; reflexivity.
Qed.

Lemma core_wpop s w h t : Core s -> wk (nth w (jobs s) jd) = WGate -> queue s = h :: t ->
  Core {| b := b s; limit := limit s; running := running s; queue := t; size := pred (size s);
          jobs := upd (upd (jobs s) w (setwk (WRun h))) h bump_ent; acts := acts s; entl := entl s ++ [h] |}.
Proof.
  intros C G Hq. assert (Hw : w < length (jobs s)) by (apply wk_in_range; rewrite G; discriminate).
  pose proof (c_q s C) as HF. rewrite Hq in HF. inversion HF as [|h0 t0 Hh Ht]; subst h0 t0.
  assert (Hcnt : forall P : jrec -> bool, (forall r, P (bump_ent r) = P r) ->
                   cnt P (upd (upd (jobs s) w (setwk (WRun h))) h bump_ent) + b2n (P (nth w (jobs s) jd))
                   = cnt P (jobs s) + b2n (P (setwk (WRun h) (nth w (jobs s) jd)))).
  { intros P HP. rewrite (cnt_upd_same P _ h bump_ent HP). now apply cnt_upd. }
  assert (HwA : wactive (nth w (jobs s) jd) = true) by (unfold wactive; now rewrite G).
  assert (HwR : forall j, runs j (nth w (jobs s) jd) = false) by (intros j; unfold runs; now rewrite G).
  constructor; cbn [jobs queue running size limit entl b acts]; rewrite ?upd_length.
  - exact Ht.
  - intros j Hj. destruct (nth_pop_fields (jobs s) w (WRun h) h j Hw Hh) as [-> _].
    pose proof (c_once s C j Hj) as E. rewrite Hq in E. cbn [count_occ] in E.
    destruct (Nat.eq_dec h j) as [->|Hne].
    + rewrite Nat.eqb_refl. lia.
    + destruct (Nat.eqb_spec j h); [congruence | exact E].
  - intros j. destruct (nth_pop_fields (jobs s) w (WRun h) h j Hw Hh) as [-> ->].
    pose proof (c_run s C j) as E. pose proof (Hcnt (runs j) (fun r => eq_refl)) as ER.
    cbn [runs setwk wk] in ER. rewrite HwR in ER. cbn [b2n] in ER.
    destruct (Nat.eqb_spec j h); cbn [b2n] in ER; lia.
  - pose proof (Hcnt wactive (fun r => eq_refl)) as EA. cbn [wactive setwk wk] in EA. rewrite HwA in EA. cbn [b2n] in EA.
    rewrite (c_running s C). lia.
  - rewrite (c_size s C), Hq. reflexivity.
  - exact (c_le s C).
  - intros _. apply (c_full s C). rewrite Hq. discriminate.
  - intros Hl. rewrite <- app_assoc. cbn [app]. rewrite <- Hq. exact (c_fifo s C Hl).
  - intros j. destruct (nth_pop_fields (jobs s) w (WRun h) h j Hw Hh) as [-> _].
    rewrite count_occ_snoc, (c_log s C j). destruct (Nat.eqb_spec j h); lia.
  - pose proof (Hcnt in_user (fun r => eq_refl)) as EU. cbn [in_user setwk wk] in EU.
    assert (HwU : in_user (nth w (jobs s) jd) = false) by (unfold in_user; now rewrite G).
    rewrite HwU in EU. cbn [b2n] in EU.
    pose proof (sumw_upd jw (upd (jobs s) w (setwk (WRun h))) h bump_ent jd) as ES.
    rewrite upd_length in ES. specialize (ES Hh).
    rewrite (sumw_upd_same jw _ w (setwk (WRun h)) (fun r => eq_refl)) in ES.
    destruct (nth_setwk_fields (jobs s) w (WRun h) h) as [E1 E2].
    pose proof (c_once s C h Hh) as Eo. rewrite Hq in Eo. cbn [count_occ] in Eo.
    destruct (Nat.eq_dec h h) as [_|Hnn]; [|congruence].
    pose proof (c_run s C h) as Er.
    assert (Eold : jw (nth h (upd (jobs s) w (setwk (WRun h))) jd) = 0) by (unfold jw; rewrite E1, E2; lia).
    assert (Enew : jw (bump_ent (nth h (upd (jobs s) w (setwk (WRun h))) jd)) = 1)
      by (unfold jw; cbn [bump_ent ent fin]; rewrite E1, E2; lia).
    rewrite Eold, Enew, (c_sum s C) in ES. lia.
Qed.

Lemma runs_pos_in_range s w j : Core s -> wk (nth w (jobs s) jd) = WRun j ->
  w < length (jobs s) /\ j < length (jobs s) /\ fin (nth j (jobs s) jd) = 0 /\ ent (nth j (jobs s) jd) = 1.
Proof.
  intros C G. assert (Hw : w < length (jobs s)) by (apply wk_in_range; rewrite G; discriminate).
  assert (Hpos : 0 < cnt (runs j) (jobs s)).
  { apply (nth_error_cnt_pos (runs j) (jobs s) w (nth w (jobs s) jd)); [now apply nth_error_nth'|].
    unfold runs. rewrite G. apply Nat.eqb_refl. }
  pose proof (c_run s C j) as E. pose proof (ent_le_1 s j C) as Hle.
  split; [exact Hw|]. split; [|lia].
  destruct (Nat.lt_ge_cases j (length (jobs s))) as [H|H]; [exact H|].
  rewrite nth_overflow in E by exact H. cbn [ent fin jd] in E. lia.
Qed.

Lemma nth_done_fields l w p j0 j : w < length l -> j0 < length l ->
  ent (nth j (upd (upd l w (setwk p)) j0 bump_fin) jd) = ent (nth j l jd) /\
  fin (nth j (upd (upd l w (setwk p)) j0 bump_fin) jd) = (if Nat.eqb j j0 then S (fin (nth j l jd)) else fin (nth j l jd)).
Proof.
  intros Hw Hh. destruct (Nat.eqb_spec j j0) as [->|Hne].
  - rewrite nth_upd_same by (now rewrite upd_length). cbn [bump_fin ent fin].
    destruct (Nat.eq_dec j0 w) as [->|Hne2].
    + rewrite nth_upd_same by exact Hw. split; reflexivity.
    + rewrite nth_upd_other by exact Hne2. split; reflexivity.
  - rewrite nth_upd_other by exact Hne.
    destruct (Nat.eq_dec j w) as [->|Hne2].
    + rewrite nth_upd_same by exact Hw. split; reflexivity.
    + rewrite nth_upd_other by exact Hne2. split; reflexivity.
Qed.

Lemma core_jobdone s w j0 : Core s -> wk (nth w (jobs s) jd) = WRun j0 ->
  Core (with_jobs s (upd (upd (jobs s) w (setwk WGate)) j0 bump_fin)).
Proof.
  intros C G. destruct (runs_pos_in_range s w j0 C G) as (Hw & Hj0 & Hf0 & He0).
  assert (Hcnt : forall P : jrec -> bool, (forall r, P (bump_fin r) = P r) ->
                   cnt P (upd (upd (jobs s) w (setwk WGate)) j0 bump_fin) + b2n (P (nth w (jobs s) jd))
                   = cnt P (jobs s) + b2n (P (setwk WGate (nth w (jobs s) jd)))).
  { intros P HP. rewrite (cnt_upd_same P _ j0 bump_fin HP). now apply cnt_upd. }
  assert (HwA : wactive (nth w (jobs s) jd) = true) by (unfold wactive; now rewrite G).
  assert (HwR : forall j, runs j (nth w (jobs s) jd) = Nat.eqb j j0) by (intros j; unfold runs; now rewrite G).
  constructor; cbn [with_jobs jobs queue running size limit entl b acts]; rewrite ?upd_length.
  - exact (c_q s C).
  - intros j Hj. destruct (nth_done_fields (jobs s) w WGate j0 j Hw Hj0) as [-> _]. exact (c_once s C j Hj).
  - intros j. destruct (nth_done_fields (jobs s) w WGate j0 j Hw Hj0) as [-> ->].
    pose proof (c_run s C j) as E. pose proof (Hcnt (runs j) (fun r => eq_refl)) as ER.
    cbn [runs setwk wk] in ER. rewrite HwR in ER.
    destruct (Nat.eqb_spec j j0); cbn [b2n] in ER; lia.
  - pose proof (Hcnt wactive (fun r => eq_refl)) as EA. cbn [wactive setwk wk] in EA. rewrite HwA in EA. cbn [b2n] in EA.
    rewrite (c_running s C). lia.
  - exact (c_size s C).
  - exact (c_le s C).
  - exact (c_full s C).
  - exact (c_fifo s C).
  - intros j. destruct (nth_done_fields (jobs s) w WGate j0 j Hw Hj0) as [-> _]. exact (c_log s C j).
  - pose proof (Hcnt in_user (fun r => eq_refl)) as EU. cbn [in_user setwk wk] in EU.
    assert (HwU : in_user (nth w (jobs s) jd) = true) by (unfold in_user; now rewrite G).
    rewrite HwU in EU. cbn [b2n] in EU.
    pose proof (sumw_upd jw (upd (jobs s) w (setwk WGate)) j0 bump_fin jd) as ES.
    rewrite upd_length in ES. specialize (ES Hj0).
    rewrite (sumw_upd_same jw _ w (setwk WGate) (fun r => eq_refl)) in ES.
    destruct (nth_setwk_fields (jobs s) w WGate j0) as [E1 E2].
    assert (Eold : jw (nth j0 (upd (jobs s) w (setwk WGate)) jd) = 1) by (unfold jw; rewrite E1, E2; lia).
    assert (Enew : jw (bump_fin (nth j0 (upd (jobs s) w (setwk WGate)) jd)) = 0)
      by (unfold jw; cbn [bump_fin ent fin]; rewrite E1, E2; lia).
    rewrite Eold, Enew, (c_sum s C) in ES. lia.
Qed.

Lemma core_with_acts s l : Core s -> Core (with_acts s l).
Proof. intros [H1 H2 H3 H4 H5 H6 H7 H8 H9 H10]. constructor; assumption. Qed.
Lemma core_with_b_acts s b' l : Core s -> Core (with_b_acts s b' l).
Proof. intros [H1 H2 H3 H4 H5 H6 H7 H8 H9 H10]. constructor; assumption. Qed.

(* ------------------------------------------------------------------ *)
(* the invariant of the API actors *)
Definition pair_ok (s : st) (q r : nat) : Prop := 0 < q -> (0 < limit s)%Z /\ Z.of_nat r = limit s.

Definition apc_ok (s : st) (p : apc) : Prop :=
  match p with
  | IGate n0 => n0 <= length (jobs s)
  | IWait n0 ch => n0 <= length (jobs s) /\ ch < nxt (b s) /\ (closed (b s) ch = true \/ idle s = false)
  | IRet n0 RNil => forall j, j < n0 -> fin (nth j (jobs s) jd) = 1
  | PRet q r => pair_ok s q r
  | SCb _ q r => pair_ok s q r
  | _ => True
  end.

Definition WInv (s : st) : Prop :=
  bc_wf (b s) /\ forall a x, nth_error (acts s) a = Some x -> apc_ok s (pc x).

Definition Inv (s : st) : Prop := Core s /\ WInv s.

Lemma fin1_in_range l j : fin (nth j l jd) = 1 -> j < length l.
Proof.
  intros H. destruct (Nat.lt_ge_cases j (length l)) as [Hl|Hl]; [exact Hl|].
  rewrite nth_overflow in H by exact Hl. discriminate.
Qed.

Lemma apc_ok_mono s s' p :
  limit s' = limit s -> length (jobs s) <= length (jobs s') ->
  (forall j, fin (nth j (jobs s) jd) = 1 -> fin (nth j (jobs s') jd) = 1) ->
  nxt (b s) <= nxt (b s') ->
  (forall c, closed (b s) c = true -> closed (b s') c = true) ->
  (idle s = false -> idle s' = false \/ forall c, c < nxt (b s) -> closed (b s') c = true) ->
  apc_ok s p -> apc_ok s' p.
Proof.
  intros HL Hlen Hfin Hn Hc Hi. destruct p as [n|q r|n0|n0 ch|n0 r| |ch q r|ch|r]; cbn [apc_ok]; auto.
  - unfold pair_ok. now rewrite HL.
  - lia.
  - intros (H1 & H2 & [H3|H3]).
    + split; [lia|]. split; [lia|]. left. now apply Hc.
    + split; [lia|]. split; [lia|]. destruct (Hi H3) as [H4|H4]; [now right | left; now apply H4].
  - destruct r; auto.
  - unfold pair_ok. now rewrite HL.
Qed.

Lemma idle_all_fin s : Core s -> idle s = true -> forall j, j < length (jobs s) -> fin (nth j (jobs s) jd) = 1.
Proof.
  intros C Hi j Hj. unfold idle in Hi. apply andb_true_iff in Hi as [H1 H2].
  apply Nat.eqb_eq in H1. apply Nat.eqb_eq in H2.
  rewrite (c_size s C) in H2. apply length_zero_iff_nil in H2.
  pose proof (c_once s C j Hj) as E1. rewrite H2 in E1. cbn [count_occ] in E1.
  pose proof (c_run s C j) as E2.
  assert (Hle : cnt (runs j) (jobs s) <= cnt wactive (jobs s)).
  { apply cnt_le. intros r. unfold runs, wactive. destruct (wk r); auto; discriminate. }
  rewrite <- (c_running s C), H1 in Hle. lia.
Qed.

Lemma winv_upd s s' a f :
  bc_wf (b s') -> acts s' = upd (acts s) a f ->
  (forall p, apc_ok s p -> apc_ok s' p) ->
  (forall x, nth_error (acts s) a = Some x -> apc_ok s (pc x) -> apc_ok s' (pc (f x))) ->
  WInv s -> WInv s'.
Proof.
  intros Hwf Ha Ht Hself [_ HW]. split; [exact Hwf|]. intros k x' Hk. rewrite Ha in Hk.
  destruct (lookup_upd _ _ _ _ _ Hk) as [[_ Hk']|[-> [x [Hx ->]]]].
  - apply Ht. eapply HW; eauto.
  - apply Hself; [exact Hx|]. eapply HW; eauto.
Qed.

Lemma winv_same s s' :
  bc_wf (b s') -> acts s' = acts s -> (forall p, apc_ok s p -> apc_ok s' p) -> WInv s -> WInv s'.
Proof.
  intros Hwf Ha Ht [_ HW]. split; [exact Hwf|]. intros k x' Hk. rewrite Ha in Hk. apply Ht. eapply HW; eauto.
Qed.

Lemma winv_call s x : apc_ok s (pc x) -> WInv s -> WInv (with_acts s (acts s ++ [x])).
Proof.
  intros Hx [Hwf HW]. split; [exact Hwf|]. cbn [with_acts acts]. intros k y Hk.
  apply nth_error_app_inv in Hk as [Hk| ->]; [exact (HW k y Hk) | exact Hx].
Qed.

(* a step that only rewrites actor a's record, with a pc that needs nothing *)
Lemma winv_acts_only s a f :
  (forall x, nth_error (acts s) a = Some x -> apc_ok s (pc x) -> apc_ok s (pc (f x))) ->
  WInv s -> WInv (with_acts s (upd (acts s) a f)).
Proof.
  intros Hself HW. apply (winv_upd s _ a f).
  - exact (proj1 HW).
  - reflexivity.
  - intros p Hp. exact Hp.
  - intros x Hx Hok. exact (Hself x Hx Hok).
  - exact HW.
Qed.

Lemma step_inv s e : Inv s -> Inv (step s e).
Proof.
  intros [C HW]. pose proof HW as [Hwf HWa].
  destruct e as [n|he|hascb|a|w|w|a o|a|a|a|a v|a|a]; cbn [step].
  - (* CallEnq *) split; [now apply core_with_acts|]. apply winv_call; [exact I | exact HW].
  - (* CallIdle *) split; [now apply core_with_acts|]. apply winv_call; [cbn; lia | exact HW].
  - (* CallWatch *) split; [now apply core_with_acts|]. apply winv_call; [destruct hascb; exact I | exact HW].
  - (* Sect *)
    destruct (nth_error (acts s) a) as [x|] eqn:G; [|split; assumption].
    destruct (pc x) as [n|q r|n0|n0 ch|n0 r| |ch q r|ch|r] eqn:Ep; try (split; assumption).
    + (* Enqueue section *)
      pose proof (core_iter n s C) as C1. pose proof (ext_iter n s) as X.
      set (s1 := Nat.iter n enq1 s) in *.
      split; [now apply core_with_b_acts|].
      apply (winv_upd s _ a (setpc (PRet (size s1) (running s1)))); cbn [with_b_acts b acts].
      * rewrite (x_b _ _ X). destruct (Nat.eqb n 0); [exact Hwf | apply bcast_wf].
      * now rewrite (x_acts _ _ X).
      * intros p. apply apc_ok_mono; cbn [with_b_acts limit jobs b].
        -- exact (x_lim _ _ X).
        -- exact (x_len _ _ X).
        -- intros j Hj. rewrite (x_nth _ _ X); [exact Hj | now apply fin1_in_range].
        -- rewrite (x_b _ _ X). destruct (Nat.eqb n 0); cbn; lia.
        -- rewrite (x_b _ _ X). intros c Hc. destruct (Nat.eqb n 0); [exact Hc | now apply closed_mono_bcast].
        -- intros Hi. rewrite (x_b _ _ X). destruct (Nat.eqb_spec n 0) as [->|Hn].
           ++ left. exact Hi.
           ++ right. intros c Hc. now apply bcast_closes.
      * intros y Hy _. cbn [setpc pc apc_ok]. unfold pair_ok. cbn [with_b_acts limit]. intros Hpos.
        apply (c_full s1 C1). intros Hq. rewrite (c_size s1 C1), Hq in Hpos. cbn in Hpos. lia.
      * exact HW.
    + (* WaitIdle section *)
      destruct (idle s) eqn:Ei.
      * split; [now apply core_with_acts|]. apply winv_acts_only; [|exact HW].
        intros y Hy Hok. cbn [setpc pc apc_ok]. assert (y = x) by congruence. subst y. rewrite Ep in Hok. cbn [apc_ok] in Hok.
        intros j Hj. apply idle_all_fin; auto. lia.
      * pose proof (getch_open (b s) Hwf) as Hopen. pose proof (getch_nxt_mono (b s)) as Hmono.
        pose proof (getch_wf (b s) Hwf) as Hwf2. pose proof (closed_mono_getch (b s)) as Hcm.
        destruct (getch (b s)) as [b' ch] eqn:EG. cbn [fst] in *. destruct Hopen as (Hlt & Hop & Hcur).
        split; [now apply core_with_b_acts|].
        apply (winv_upd s _ a (setpc (IWait n0 ch))); cbn [with_b_acts b acts]; auto.
        -- intros p. apply apc_ok_mono; cbn [with_b_acts limit jobs b]; auto; try (intros Hi; left; exact Hi).
        -- intros y Hy Hok. assert (y = x) by congruence. subst y. rewrite Ep in Hok. cbn [apc_ok] in Hok.
           cbn [setpc pc apc_ok with_b_acts jobs b]. split; [exact Hok|]. split; [exact Hlt|]. right. exact Ei.
    + (* WatchState section *)
      pose proof (getch_nxt_mono (b s)) as Hmono.
      pose proof (getch_wf (b s) Hwf) as Hwf2. pose proof (closed_mono_getch (b s)) as Hcm.
      destruct (getch (b s)) as [b' ch] eqn:EG. cbn [fst] in *.
      split; [now apply core_with_b_acts|].
      apply (winv_upd s _ a (setpc (SCb ch (size s) (running s)))); cbn [with_b_acts b acts]; auto.
      * intros p. apply apc_ok_mono; cbn [with_b_acts limit jobs b]; auto; try (intros Hi; left; exact Hi).
      * intros y Hy _. cbn [setpc pc apc_ok]. unfold pair_ok. cbn [with_b_acts limit]. intros Hpos.
        apply (c_full s C). intros Hq. rewrite (c_size s C), Hq in Hpos. cbn in Hpos. lia.
  - (* WSect *)
    destruct (wk (nth w (jobs s) jd)) as [|j| |] eqn:G; try (split; assumption).
    assert (Hw : w < length (jobs s)) by (apply wk_in_range; rewrite G; discriminate).
    destruct (queue s) as [|h t] eqn:Hq.
    + split; [now apply core_wexit|].
      apply (winv_same s); cbn [b acts]; [apply bcast_wf | reflexivity | | exact HW].
      intros p. apply apc_ok_mono; cbn [limit jobs b]; auto.
      * now rewrite upd_length.
      * intros j Hj. destruct (Nat.eq_dec j w) as [->|Hne].
        -- rewrite nth_upd_same by exact Hw. exact Hj.
        -- now rewrite nth_upd_other by exact Hne.
      * intros c Hc. now apply closed_mono_bcast.
      * intros _. right. intros c Hc. now apply bcast_closes.
    + pose proof (c_q s C) as HF. rewrite Hq in HF. inversion HF as [|h0 t0 Hh Ht]; subst h0 t0.
      split; [now apply core_wpop|].
      apply (winv_same s); cbn [b acts]; [exact Hwf | reflexivity | | exact HW].
      intros p. apply apc_ok_mono; cbn [limit jobs b]; auto.
      * now rewrite !upd_length.
      * intros j Hj. destruct (nth_pop_fields (jobs s) w (WRun h) h j Hw Hh) as [_ ->]. exact Hj.
      * intros _. left. unfold idle. cbn [running size].
        assert (Hpos : 0 < cnt wactive (jobs s)).
        { apply (nth_error_cnt_pos wactive (jobs s) w (nth w (jobs s) jd)); [now apply nth_error_nth'|]. unfold wactive. now rewrite G. }
        rewrite (c_running s C). destruct (cnt wactive (jobs s)); [lia | reflexivity].
  - (* JobDone *)
    destruct (wk (nth w (jobs s) jd)) as [|j0| |] eqn:G; try (split; assumption).
    destruct (runs_pos_in_range s w j0 C G) as (Hw & Hj0 & Hf0 & _).
    split; [now apply core_jobdone|].
    apply (winv_same s); cbn [with_jobs b acts]; [exact Hwf | reflexivity | | exact HW].
    intros p. apply apc_ok_mono; cbn [with_jobs limit jobs b]; auto.
    + now rewrite !upd_length.
    + intros j Hj. destruct (nth_done_fields (jobs s) w WGate j0 j Hw Hj0) as [_ ->].
      destruct (Nat.eqb_spec j j0) as [->|Hne]; [congruence | exact Hj].
  - (* CbRet *)
    destruct (nth_error (acts s) a) as [x|] eqn:G; [|split; assumption].
    destruct (pc x) as [n|q r|n0|n0 ch|n0 r| |ch q r|ch|r] eqn:Ep; try (split; assumption).
    split; [now apply core_with_acts|]. apply winv_acts_only; [|exact HW].
    intros y _ _. cbn [setpc pc]. destruct o as [|[|o]]; exact I.
  - (* Wake *)
    destruct (nth_error (acts s) a) as [x|] eqn:G; [|split; assumption].
    destruct (pc x) as [n|q r|n0|n0 ch|n0 r| |ch q r|ch|r] eqn:Ep; try (split; assumption).
    + destruct (closed (b s) ch); [|split; assumption].
      split; [now apply core_with_acts|]. apply winv_acts_only; [|exact HW].
      intros y Hy Hok. assert (y = x) by congruence. subst y. rewrite Ep in Hok. cbn [apc_ok] in Hok.
      cbn [setpc pc apc_ok]. tauto.
    + destruct (closed (b s) ch); [|split; assumption].
      split; [now apply core_with_acts|]. apply winv_acts_only; [|exact HW]. intros y _ _. exact I.
  - (* CancelCtx *)
    split; [now apply core_with_acts|]. apply winv_acts_only; [|exact HW]. intros y _ Hok. exact Hok.
  - (* CancelWake *)
    destruct (nth_error (acts s) a) as [x|] eqn:G; [|split; assumption].
    destruct (canc x); [|split; assumption].
    destruct (pc x) as [n|q r|n0|n0 ch|n0 r| |ch q r|ch|r] eqn:Ep; try (split; assumption).
    all: split; [now apply core_with_acts|]; apply winv_acts_only; [|exact HW]; intros y _ _; exact I.
  - (* ErrSend *)
    split; [now apply core_with_acts|]. apply winv_acts_only; [|exact HW].
    intros y _ Hok. destruct (ehas y && negb (eclosed y)); exact Hok.
  - (* ErrClose *)
    split; [now apply core_with_acts|]. apply winv_acts_only; [|exact HW].
    intros y _ Hok. destruct (ehas y); exact Hok.
  - (* ErrWake *)
    destruct (nth_error (acts s) a) as [x|] eqn:G; [|split; assumption].
    destruct (pc x) as [n|q r|n0|n0 ch|n0 r| |ch q r|ch|r] eqn:Ep; try (split; assumption).
    destruct (ebuf x) as [|v t] eqn:Eb.
    + destruct (eclosed x); [|split; assumption].
      split; [now apply core_with_acts|]. apply winv_acts_only; [|exact HW]. intros y _ _. exact I.
    + split; [now apply core_with_acts|]. apply winv_acts_only; [|exact HW].
      intros y Hy Hok. assert (y = x) by congruence. subst y. rewrite Ep in Hok. cbn [apc_ok] in Hok.
      cbn [pc]. destruct v; cbn [apc_ok]; [exact I | tauto].
Qed.

Lemma init_inv lim ninit : Inv (init lim ninit).
Proof.
  split; [apply core_init|]. pose proof (ext_iter ninit (empty lim)) as X. fold (init lim ninit) in X.
  split.
  - rewrite (x_b _ _ X). exact I.
  - intros a x Hx. rewrite (x_acts _ _ X) in Hx. destruct a; discriminate.
Qed.

Theorem run_inv lim ninit es : Inv (run lim ninit es).
Proof. unfold run. apply fold_inv; [apply step_inv | apply init_inv]. Qed.

(* ------------------------------------------------------------------ *)
(* consequences *)
Theorem running_le_limit lim ninit es : let s := run lim ninit es in
  (0 < limit s)%Z -> (Z.of_nat (running s) <= limit s)%Z.
Proof. cbn. exact (c_le _ (proj1 (run_inv lim ninit es))). Qed.

Lemma step_limit s e : limit (step s e) = limit s.
Proof.
  assert (Hx : forall n s, limit (Nat.iter n enq1 s) = limit s) by (intros n s0; exact (x_lim _ _ (ext_iter n s0))).
  destruct e as [n|he|hascb|a|w|w|a o|a|a|a|a v|a|a]; cbn [step]; try reflexivity.
  - destruct (nth_error (acts s) a) as [x|]; [|reflexivity].
    destruct (pc x); try reflexivity.
    + cbn [with_b_acts limit]. apply Hx.
    + destruct (idle s); [reflexivity|]. destruct (getch (b s)). reflexivity.
    + destruct (getch (b s)). reflexivity.
  - destruct (wk (nth w (jobs s) jd)); try reflexivity. destruct (queue s); reflexivity.
  - destruct (wk (nth w (jobs s) jd)); reflexivity.
  - destruct (nth_error (acts s) a) as [x|]; [|reflexivity]. destruct (pc x); reflexivity.
  - destruct (nth_error (acts s) a) as [x|]; [|reflexivity]. destruct (pc x); try reflexivity; destruct (closed (b s) ch); reflexivity.
  - destruct (nth_error (acts s) a) as [x|]; [|reflexivity]. destruct (canc x); [|reflexivity]. destruct (pc x); reflexivity.
  - destruct (nth_error (acts s) a) as [x|]; [|reflexivity]. destruct (pc x); try reflexivity.
    destruct (ebuf x); [destruct (eclosed x)|]; reflexivity.
Qed.

Lemma fold_limit es : forall s, limit (fold_left step es s) = limit s.
Proof. induction es as [|e es' IH]; intros s; cbn [fold_left]; [reflexivity|]. rewrite IH. apply step_limit. Qed.

Theorem run_limit lim ninit es : limit (run lim ninit es) = lim.
Proof. unfold run. rewrite fold_limit. unfold init. rewrite (x_lim _ _ (ext_iter ninit (empty lim))). reflexivity. Qed.

Theorem executing_le_running lim ninit es : let s := run lim ninit es in cnt in_user (jobs s) <= running s.
Proof.
  cbn. rewrite (c_running _ (proj1 (run_inv lim ninit es))). apply cnt_le.
  intros r. unfold in_user, wactive. destruct (wk r); auto.
Qed.

(* every enqueued job is in exactly one of: queued (never entered), executing (entered once, one goroutine inside), finished once *)
Theorem each_job_exactly_once lim ninit es j : let s := run lim ninit es in
  j < length (jobs s) ->
  let r := nth j (jobs s) jd in
  (count_occ Nat.eq_dec (queue s) j = 1 /\ ent r = 0 /\ fin r = 0 /\ cnt (runs j) (jobs s) = 0) \/
  (count_occ Nat.eq_dec (queue s) j = 0 /\ ent r = 1 /\ fin r = 0 /\ cnt (runs j) (jobs s) = 1) \/
  (count_occ Nat.eq_dec (queue s) j = 0 /\ ent r = 1 /\ fin r = 1 /\ cnt (runs j) (jobs s) = 0).
Proof.
  cbn. intros Hj. destruct (run_inv lim ninit es) as [C _].
  pose proof (c_once _ C j Hj). pose proof (c_run _ C j). lia.
Qed.

Theorem entry_log_counts lim ninit es j : let s := run lim ninit es in
  count_occ Nat.eq_dec (entl s) j = ent (nth j (jobs s) jd).
Proof. cbn. exact (c_log _ (proj1 (run_inv lim ninit es)) j). Qed.

Lemma forallb_false_cnt {A} (P : A -> bool) l : forallb (fun r => negb (P r)) l = true -> cnt P l = 0.
Proof.
  intros H. apply cnt_zero_forall. intros a Ha. rewrite forallb_forall in H. specialize (H a Ha). now destruct (P a).
Qed.

Theorem all_finish lim ninit es : let s := run lim ninit es in
  quiescent s = true -> cnt in_user (jobs s) = 0 -> queue s = [] /\ running s = 0 /\ size s = 0.
Proof.
  cbn. intros Hq Hu. destruct (run_inv lim ninit es) as [C _]. set (s := run lim ninit es) in *.
  unfold quiescent in Hq. apply andb_true_iff in Hq as [_ Hq]. apply forallb_false_cnt in Hq.
  assert (Hr : running s = 0).
  { rewrite (c_running s C). apply cnt_zero_forall. intros r Hr.
    pose proof (proj1 (cnt_zero_forall _ _) Hq r Hr) as H1. pose proof (proj1 (cnt_zero_forall _ _) Hu r Hr) as H2.
    unfold at_wgate, in_user, wactive in *. destruct (wk r); auto. }
  assert (Hqe : queue s = []).
  { destruct (queue s) as [|h t] eqn:E; [reflexivity|exfalso].
    destruct (c_full s C) as [Hpos Heq]; [rewrite E; discriminate|]. lia. }
  split; [exact Hqe|]. split; [exact Hr|]. now rewrite (c_size s C), Hqe.
Qed.

Theorem limit1_fifo ninit es : let s := run 1%Z ninit es in entl s ++ queue s = seq 0 (length (jobs s)).
Proof. cbn. apply (c_fifo _ (proj1 (run_inv 1%Z ninit es))). apply run_limit. Qed.

Theorem queued_pos_implies_running_eq_limit lim ninit es : let s := run lim ninit es in
  (0 < size s -> (0 < lim)%Z /\ Z.of_nat (running s) = lim) /\
  (forall a x q r, nth_error (acts s) a = Some x -> (pc x = PRet q r \/ exists ch, pc x = SCb ch q r) ->
     0 < q -> (0 < lim)%Z /\ Z.of_nat r = lim).
Proof.
  cbn. destruct (run_inv lim ninit es) as [C [_ HW]]. pose proof (run_limit lim ninit es) as HL.
  set (s := run lim ninit es) in *. split.
  - intros Hpos. rewrite <- HL. apply (c_full s C). intros Hq. rewrite (c_size s C), Hq in Hpos. cbn in Hpos. lia.
  - intros a x q r Hx Hp Hpos. specialize (HW a x Hx). rewrite <- HL.
    destruct Hp as [Hp|[ch Hp]]; rewrite Hp in HW; cbn [apc_ok] in HW; exact (HW Hpos).
Qed.

Theorem waitidle_nil_means_earlier_jobs_finished lim ninit es a x n0 : let s := run lim ninit es in
  nth_error (acts s) a = Some x -> pc x = IRet n0 RNil -> forall j, j < n0 -> fin (nth j (jobs s) jd) = 1.
Proof.
  cbn. intros Hx Hp. destruct (run_inv lim ninit es) as [_ [_ HW]]. specialize (HW a x Hx). rewrite Hp in HW. exact HW.
Qed.

(* n0 is fixed by the call: it is the number of jobs enqueued at that moment and never changes afterwards *)
Definition idle_n0 (p : apc) : option nat :=
  match p with IGate n0 | IWait n0 _ | IRet n0 _ => Some n0 | _ => None end.

Lemma acts_iter n s : acts (Nat.iter n enq1 s) = acts s.
Proof. exact (x_acts _ _ (ext_iter n s)). Qed.

Theorem call_idle_records_enqueued s he :
  let s' := step s (CallIdle he) in
  nth_error (acts s') (length (acts s)) = Some (mkact (IGate (length (jobs s))) he).
Proof. cbn. rewrite nth_error_app2 by lia. now rewrite Nat.sub_diag. Qed.

Theorem idle_n0_stable s e a x x' :
  nth_error (acts s) a = Some x -> nth_error (acts (step s e)) a = Some x' -> idle_n0 (pc x') = idle_n0 (pc x).
Proof.
  intros Hx.
  assert (Hcall : forall y, nth_error (acts s ++ [y]) a = Some x' -> x' = x).
  { intros y H. rewrite nth_error_app1 in H by (eapply nth_error_nth_len; eauto). congruence. }
  destruct e as [n|he|hascb|a0|w|w|a0 o|a0|a0|a0|a0 v|a0|a0]; cbn [step].
  - cbn [with_acts acts]. intros H. now rewrite (Hcall _ H).
  - cbn [with_acts acts]. intros H. now rewrite (Hcall _ H).
  - cbn [with_acts acts]. intros H. now rewrite (Hcall _ H).
  - destruct (nth_error (acts s) a0) as [x0|] eqn:G; [|congruence].
    destruct (pc x0) eqn:Ep; try congruence.
    + cbn [with_b_acts acts]. rewrite acts_iter. intros H.
      destruct (lookup_upd _ _ _ _ _ H) as [[_ H']|[-> [y [Hy ->]]]]; [congruence|].
      assert (y = x0) by congruence. subst y. assert (x = x0) by congruence. subst x. now rewrite Ep.
    + destruct (idle s).
      * cbn [with_acts acts]. intros H. destruct (lookup_upd _ _ _ _ _ H) as [[_ H']|[-> [y [Hy ->]]]]; [congruence|].
        assert (y = x0) by congruence. subst y. assert (x = x0) by congruence. subst x. now rewrite Ep.
      * destruct (getch (b s)) as [b' ch]. cbn [with_b_acts acts]. intros H.
        destruct (lookup_upd _ _ _ _ _ H) as [[_ H']|[-> [y [Hy ->]]]]; [congruence|].
        assert (y = x0) by congruence. subst y. assert (x = x0) by congruence. subst x. now rewrite Ep.
    + destruct (getch (b s)) as [b' ch]. cbn [with_b_acts acts]. intros H.
      destruct (lookup_upd _ _ _ _ _ H) as [[_ H']|[-> [y [Hy ->]]]]; [congruence|].
      assert (y = x0) by congruence. subst y. assert (x = x0) by congruence. subst x. now rewrite Ep.
  - destruct (wk (nth w (jobs s) jd)); try congruence. destruct (queue s); cbn [acts]; congruence.
  - destruct (wk (nth w (jobs s) jd)); cbn [with_jobs acts]; congruence.
  - destruct (nth_error (acts s) a0) as [x0|] eqn:G; [|congruence].
    destruct (pc x0) eqn:Ep; try congruence. cbn [with_acts acts]. intros H.
    destruct (lookup_upd _ _ _ _ _ H) as [[_ H']|[-> [y [Hy ->]]]]; [congruence|].
    assert (y = x0) by congruence. subst y. assert (x = x0) by congruence. subst x. rewrite Ep. cbn [setpc pc].
    destruct o as [|[|o]]; reflexivity.
  - destruct (nth_error (acts s) a0) as [x0|] eqn:G; [|congruence].
    destruct (pc x0) eqn:Ep; try congruence.
    all: destruct (closed (b s) ch); [|congruence]; cbn [with_acts acts]; intros H;
      destruct (lookup_upd _ _ _ _ _ H) as [[_ H']|[-> [y [Hy ->]]]]; [congruence|];
      assert (y = x0) by congruence; subst y; assert (x = x0) by congruence; subst x; now rewrite Ep.
  - cbn [with_acts acts]. intros H. destruct (lookup_upd _ _ _ _ _ H) as [[_ H']|[-> [y [Hy ->]]]]; [congruence|].
    cbn [pc]. congruence.
  - destruct (nth_error (acts s) a0) as [x0|] eqn:G; [|congruence].
    destruct (canc x0); [|congruence].
    destruct (pc x0) eqn:Ep; try congruence.
    all: cbn [with_acts acts]; intros H;
      destruct (lookup_upd _ _ _ _ _ H) as [[_ H']|[-> [y [Hy ->]]]]; [congruence|];
      assert (y = x0) by congruence; subst y; assert (x = x0) by congruence; subst x; now rewrite Ep.
  - cbn [with_acts acts]. intros H. destruct (lookup_upd _ _ _ _ _ H) as [[_ H']|[-> [y [Hy ->]]]]; [congruence|].
    assert (y = x) by congruence. subst y. destruct (ehas x && negb (eclosed x)); reflexivity.
  - cbn [with_acts acts]. intros H. destruct (lookup_upd _ _ _ _ _ H) as [[_ H']|[-> [y [Hy ->]]]]; [congruence|].
    assert (y = x) by congruence. subst y. destruct (ehas x); reflexivity.
  - destruct (nth_error (acts s) a0) as [x0|] eqn:G; [|congruence].
    destruct (pc x0) eqn:Ep; try congruence.
    destruct (ebuf x0) as [|v t]; [destruct (eclosed x0); [|congruence]|].
    all: cbn [with_acts acts]; intros H;
      destruct (lookup_upd _ _ _ _ _ H) as [[_ H']|[-> [y [Hy ->]]]]; [congruence|];
      assert (y = x0) by congruence; subst y; assert (x = x0) by congruence; subst x; rewrite Ep; cbn [setpc pc]; try destruct v; reflexivity.
Qed.

Lemma quiescent_actor s a x : quiescent s = true -> nth_error (acts s) a = Some x ->
  at_gate x = false /\ (forall n0 ch, pc x = IWait n0 ch -> closed (b s) ch = false /\ canc x = false /\ ebuf x = [] /\ eclosed x = false).
Proof.
  unfold quiescent. intros H G. apply andb_true_iff in H as [H _]. rewrite forallb_forall in H.
  specialize (H x (nth_error_In _ _ G)). apply andb_true_iff in H as [H1 H2].
  split; [now destruct (at_gate x)|]. intros n0 ch Hp. rewrite Hp in H2.
  apply andb_true_iff in H2 as [H2 H4]. apply andb_true_iff in H2 as [H2 H3].
  split; [now destruct (closed (b s) ch)|]. split; [now destruct (canc x)|].
  destruct (ebuf x); [|discriminate]. split; [reflexivity | now destruct (eclosed x)].
Qed.

(* no WaitIdle stays blocked at a quiescent point while the queue is idle *)
Theorem waiters_quiescent lim ninit es a x : let s := run lim ninit es in
  quiescent s = true -> running s = 0 -> size s = 0 -> nth_error (acts s) a = Some x -> idle_blocked x = false.
Proof.
  cbn. intros Hq Hr Hs Hx. destruct (run_inv lim ninit es) as [_ [_ HW]]. specialize (HW a x Hx).
  unfold idle_blocked. destruct (pc x) as [n|q r|n0|n0 ch|n0 r| |ch q r|ch|r] eqn:Ep; try reflexivity.
  cbn [apc_ok] in HW. destruct HW as (_ & _ & [Hc|Hi]).
  - destruct (quiescent_actor _ _ _ Hq Hx) as [_ H]. destruct (H n0 ch Ep) as [H1 _]. congruence.
  - unfold idle in Hi. rewrite Hr, Hs in Hi. discriminate.
Qed.

Theorem size_is_queue_length lim ninit es : let s := run lim ninit es in size s = length (queue s).
Proof. cbn. exact (c_size _ (proj1 (run_inv lim ninit es))). Qed.

(* ------------------------------------------------------------------ *)
(* the monitors accept the model's own observations *)

(* parsing the observation vector *)
Lemma triples_untriple l : triples (flat_map untriple l) = l.
Proof. induction l as [|[[x y] z] t IH]; [reflexivity|]. cbn [flat_map untriple app t1 t2 t3 fst snd triples]. now rewrite IH. Qed.

Lemma flat_untriple_length l : length (flat_map untriple l) = 3 * length l.
Proof. induction l as [|h t IH]; [reflexivity|]. cbn [flat_map length]. rewrite app_length, IH. cbn [untriple length]. lia. Qed.

Lemma flat_map_map' {A B C} (g : A -> B) (f : B -> list C) l : flat_map f (map g l) = flat_map (fun x => f (g x)) l.
Proof. induction l as [|h t IH]; [reflexivity|]. cbn [map flat_map]. now rewrite IH. Qed.

Lemma firstn_app_exact {A} (l r : list A) : firstn (length l) (l ++ r) = l.
Proof. induction l as [|h t IH]; cbn [length app firstn]; [now destruct r | now rewrite IH]. Qed.
Lemma skipn_app_exact {A} (l r : list A) : skipn (length l) (l ++ r) = r.
Proof. induction l as [|h t IH]; cbn [length app skipn]; [reflexivity | exact IH]. Qed.

Lemma mon_obs m e s :
  mon m e (obs s) = ({| mlim := mlim m; mkinds := kinds_after m e; mnj := length (jobs s) |},
                     clauses (mlim m) (kinds_after m e) (map atrip (acts s)) (map jtrip (jobs s))).
Proof.
  unfold mon, obs. cbn [app]. rewrite !Nat2N.id.
  change (flat_map code_actor (acts s)) with (flat_map (fun x => untriple (atrip x)) (acts s)).
  change (flat_map code_job (jobs s)) with (flat_map (fun x => untriple (jtrip x)) (jobs s)).
  rewrite <- (flat_map_map' atrip untriple), <- (flat_map_map' jtrip untriple).
  assert (E : 3 * length (acts s) = length (flat_map untriple (map atrip (acts s))))
    by (now rewrite flat_untriple_length, map_length).
  rewrite E, firstn_app_exact, skipn_app_exact, !triples_untriple. reflexivity.
Qed.

Definition kind_of (x : actor) : N * nat :=
  match pc x with
  | PGate _ | PRet _ _ => (1%N, 0)
  | IGate n0 | IWait n0 _ | IRet n0 _ => (2%N, n0)
  | _ => (3%N, 0)
  end.
Definition kinds (s : st) : list (N * nat) := map kind_of (acts s).

(* no blocked WaitIdle has a closed wait channel (true after settle) *)
Definition Settled (s : st) : Prop :=
  forall a x n0 ch, nth_error (acts s) a = Some x -> pc x = IWait n0 ch -> closed (b s) ch = false.

Lemma forallb_map' {A B} (f : B -> bool) (g : A -> B) l : forallb f (map g l) = forallb (fun x => f (g x)) l.
Proof. induction l as [|h t IH]; [reflexivity|]. cbn [map forallb]. now rewrite IH. Qed.

Lemma combine_map {A B C} (f : A -> B) (g : A -> C) l : combine (map f l) (map g l) = map (fun x => (f x, g x)) l.
Proof. induction l as [|h t IH]; [reflexivity|]. cbn [map combine]. now rewrite IH. Qed.

Lemma exec_of_sum l : exec_of (map jtrip l) = N.of_nat (sumw jw l).
Proof.
  induction l as [|r t IH]; [reflexivity|]. cbn [map exec_of fold_right sumw].
  fold (exec_of (map jtrip t)). fold (sumw jw t). rewrite IH. unfold jtrip, jw, t1, t2. cbn [fst snd]. lia.
Qed.

Lemma cl1_ok s : Core s -> cl1 (limit s) (map jtrip (jobs s)) = true.
Proof.
  intros C. unfold cl1. rewrite exec_of_sum, (c_sum s C). destruct (Z.ltb_spec 0 (limit s)) as [Hpos|]; [|reflexivity].
  apply Z.leb_le. pose proof (c_le s C Hpos) as Hle.
  assert (Hu : cnt in_user (jobs s) <= cnt wactive (jobs s)).
  { apply cnt_le. intros r. unfold in_user, wactive. destruct (wk r); auto. }
  rewrite <- (c_running s C) in Hu. rewrite nat_N_Z. lia.
Qed.

Lemma cl2_ok s : Core s -> cl2 (map jtrip (jobs s)) = true.
Proof.
  intros C. unfold cl2. rewrite forallb_map'. apply forallb_forall. intros r Hr.
  destruct (In_nth _ _ jd Hr) as [j [_ Hj]]. pose proof (ent_le_1 s j C) as Hle. rewrite Hj in Hle.
  apply N.leb_le. unfold jtrip, t1. cbn [fst]. lia.
Qed.

Lemma quiet_facts s : quiet_of (map atrip (acts s)) (map jtrip (jobs s)) = true ->
  (forall x, In x (acts s) -> at_gate x = false) /\ (forall r, In r (jobs s) -> at_wgate r = false).
Proof.
  unfold quiet_of. rewrite !forallb_map'. intros H. apply andb_true_iff in H as [H1 H2].
  rewrite forallb_forall in H1, H2. split.
  - intros x Hx. specialize (H1 x Hx). unfold atrip, t1, at_gate in *. destruct (pc x); try reflexivity; cbn in H1; discriminate.
  - intros r Hr. specialize (H2 r Hr). unfold jtrip, t3, at_wgate in *. cbn [snd] in H2. destruct (wk r); try reflexivity; cbn in H2; discriminate.
Qed.

Lemma drained s : Core s -> (forall r, In r (jobs s) -> at_wgate r = false) -> cnt in_user (jobs s) = 0 ->
  queue s = [] /\ running s = 0 /\ size s = 0.
Proof.
  intros C Hg Hu.
  assert (Hr : running s = 0).
  { rewrite (c_running s C). apply cnt_zero_forall. intros r Hr.
    pose proof (Hg r Hr) as H1. pose proof (proj1 (cnt_zero_forall _ _) Hu r Hr) as H2.
    unfold at_wgate, in_user, wactive in *. destruct (wk r); auto. }
  assert (Hq : queue s = []).
  { destruct (queue s) as [|h t] eqn:E; [reflexivity|exfalso].
    destruct (c_full s C) as [Hpos Heq]; [rewrite E; discriminate|]. lia. }
  split; [exact Hq|]. split; [exact Hr|]. now rewrite (c_size s C), Hq.
Qed.

Lemma cl3_ok s : Core s -> cl3 (map atrip (acts s)) (map jtrip (jobs s)) = true.
Proof.
  intros C. unfold cl3.
  destruct (quiet_of (map atrip (acts s)) (map jtrip (jobs s)) && N.eqb (exec_of (map jtrip (jobs s))) 0) eqn:E; [|reflexivity].
  apply andb_true_iff in E as [Hq He]. destruct (quiet_facts s Hq) as [_ Hg].
  apply N.eqb_eq in He. rewrite exec_of_sum, (c_sum s C) in He.
  assert (Hu : cnt in_user (jobs s) = 0) by lia.
  destruct (drained s C Hg Hu) as (Hqe & _ & _).
  rewrite forallb_map'. apply forallb_forall. intros r Hr.
  destruct (In_nth _ _ jd Hr) as [j [Hj Hn]]. pose proof (c_once s C j Hj) as Eo. rewrite Hqe, Hn in Eo. cbn [count_occ] in Eo.
  apply N.eqb_eq. unfold jtrip, t1. cbn [fst]. lia.
Qed.

Lemma prefix_closed_char l :
  (forall i j, i < j -> nth j l false = true -> nth i l false = true) -> prefix_closed l = true.
Proof.
  induction l as [|[|] t IH]; intros H; cbn [prefix_closed].
  - reflexivity.
  - apply IH. intros i j Hij Hj. apply (H (S i) (S j)); [lia | exact Hj].
  - apply forallb_forall. intros x Hx. destruct x; [exfalso | reflexivity].
    destruct (In_nth _ _ false Hx) as [k [_ Hk]]. specialize (H 0 (S k) ltac:(lia) Hk). discriminate.
Qed.

Lemma app_seq_order (l1 l2 : list nat) : forall a n x y, l1 ++ l2 = seq a n -> In x l1 -> In y l2 -> x < y.
Proof.
  induction l1 as [|h t IH]; intros a n x y E Hx Hy; [destruct Hx|].
  destruct n as [|n]; [discriminate|]. cbn [app seq] in E. inversion E as [[E1 E2]]. destruct Hx as [<-|Hx].
  - assert (Hin : In y (seq (S a) n)) by (rewrite <- E2; apply in_or_app; now right).
    apply in_seq in Hin. lia.
  - exact (IH _ _ _ _ E2 Hx Hy).
Qed.

Lemma cl4_ok s : Core s -> cl4 (limit s) (map jtrip (jobs s)) = true.
Proof.
  intros C. unfold cl4. destruct (Z.eqb_spec (limit s) 1) as [Hl|]; [|reflexivity].
  apply prefix_closed_char. rewrite map_map.
  assert (Hn : forall k, nth k (map (fun r => N.leb 1 (t1 (jtrip r))) (jobs s)) false = true -> 1 <= ent (nth k (jobs s) jd)).
  { intros k Hk. change false with ((fun r => N.leb 1 (t1 (jtrip r))) jd) in Hk. rewrite map_nth in Hk.
    apply N.leb_le in Hk. unfold jtrip, t1 in Hk. cbn [fst] in Hk. lia. }
  intros i j Hij Hj. apply Hn in Hj.
  change false with ((fun r => N.leb 1 (t1 (jtrip r))) jd). rewrite map_nth. apply N.leb_le. unfold jtrip, t1. cbn [fst].
  assert (Hjl : j < length (jobs s)).
  { destruct (Nat.lt_ge_cases j (length (jobs s))) as [H|H]; [exact H|]. rewrite nth_overflow in Hj by exact H. cbn in Hj. lia. }
  destruct (ent (nth i (jobs s) jd)) as [|e] eqn:Ei; [exfalso | lia].
  pose proof (c_once s C i ltac:(lia)) as Eo. rewrite Ei in Eo.
  assert (Hiq : In i (queue s)) by (apply (count_occ_In Nat.eq_dec); lia).
  assert (Hje : In j (entl s)) by (apply (count_occ_In Nat.eq_dec); rewrite (c_log s C j); lia).
  pose proof (app_seq_order _ _ _ _ _ _ (c_fifo s C Hl) Hje Hiq). lia.
Qed.

Lemma cl5_ok s : Inv s -> cl5 (limit s) (map atrip (acts s)) = true.
Proof.
  intros [C [_ HW]]. unfold cl5.
  rewrite forallb_map'. apply forallb_forall. intros x Hx. destruct (In_nth_error _ _ Hx) as [a Ha].
  specialize (HW a x Ha). unfold atrip, t1, t2, t3. destruct (pc x) as [n|q r|n0|n0 ch|n0 r| |ch q r|ch|r]; cbn [fst snd]; try reflexivity.
  - cbn [N.eqb Pos.eqb orb]. destruct (N.ltb_spec 0 (N.of_nat q)) as [Hq|]; [|reflexivity].
    cbn [apc_ok] in HW. destruct (HW ltac:(lia)) as [Hpos Hr]. apply andb_true_iff. split.
    + now apply Z.ltb_lt.
    + apply Z.eqb_eq. rewrite nat_N_Z. exact Hr.
  - destruct r; reflexivity.
  - cbn [N.eqb Pos.eqb orb]. destruct (N.ltb_spec 0 (N.of_nat q)) as [Hq|]; [|reflexivity].
    cbn [apc_ok] in HW. destruct (HW ltac:(lia)) as [Hpos Hr]. apply andb_true_iff. split.
    + now apply Z.ltb_lt.
    + apply Z.eqb_eq. rewrite nat_N_Z. exact Hr.
  - destruct r; reflexivity.
Qed.

Lemma In_firstn_nth {A} (d : A) n : forall l r, In r (firstn n l) -> exists j, j < n /\ nth j l d = r.
Proof.
  induction n as [|n IH]; intros l r H; [destruct H|]. destruct l as [|h t]; [destruct H|].
  cbn [firstn] in H. destruct H as [<-|H].
  - exists 0. split; [lia | reflexivity].
  - destruct (IH t r H) as [j [Hj Hn]]. exists (S j). split; [lia | exact Hn].
Qed.

Lemma cl6_ok s : Inv s -> cl6 (combine (kinds s) (map atrip (acts s))) (map jtrip (jobs s)) = true.
Proof.
  intros [C [_ HW]]. unfold cl6, kinds. rewrite combine_map, forallb_map'. apply forallb_forall. intros x Hx.
  destruct (In_nth_error _ _ Hx) as [a Ha]. specialize (HW a x Ha). cbn [fst snd].
  unfold kind_of, atrip, t1. destruct (pc x) as [n|q r|n0|n0 ch|n0 r| |ch q r|ch|r]; cbn [fst snd]; try reflexivity.
  destruct r; try reflexivity. cbn [code_res N.eqb Pos.eqb andb]. cbn [apc_ok] in HW.
  rewrite firstn_map, forallb_map'. apply forallb_forall. intros r Hr.
  destruct (In_firstn_nth jd _ _ _ Hr) as [j [Hj Hn]]. specialize (HW j Hj). rewrite Hn in HW.
  apply N.leb_le. unfold jtrip, t2. cbn [fst snd]. lia.
Qed.

Lemma cl7_ok s : Inv s -> Settled s -> cl7 (combine (kinds s) (map atrip (acts s))) (map atrip (acts s)) (map jtrip (jobs s)) = true.
Proof.
  intros [C [_ HW]] HS. unfold cl7.
  destruct (quiet_of (map atrip (acts s)) (map jtrip (jobs s)) && allfin_of (map jtrip (jobs s))) eqn:E; [|reflexivity].
  apply andb_true_iff in E as [Hq Hf]. destruct (quiet_facts s Hq) as [_ Hg].
  unfold allfin_of in Hf. rewrite forallb_map', forallb_forall in Hf.
  assert (Hu : cnt in_user (jobs s) = 0).
  { apply cnt_zero_forall. intros r Hr. unfold in_user. destruct (wk r) as [|j'| |] eqn:Ew; try reflexivity. exfalso.
    destruct (In_nth _ _ jd Hr) as [w [_ Hn]]. rewrite <- Hn in Ew.
    destruct (runs_pos_in_range s w j' C Ew) as (_ & Hj' & Hf0 & _).
    specialize (Hf (nth j' (jobs s) jd) (nth_In _ _ Hj')). apply N.leb_le in Hf. unfold jtrip, t2 in Hf. cbn [fst snd] in Hf. lia. }
  destruct (drained s C Hg Hu) as (_ & Hr0 & Hs0).
  unfold kinds. rewrite combine_map, forallb_map'. apply forallb_forall. intros x Hx.
  destruct (In_nth_error _ _ Hx) as [a Ha]. specialize (HW a x Ha). cbn [fst snd].
  unfold kind_of, atrip, t1. destruct (pc x) as [n|q r|n0|n0 ch|n0 r| |ch q r|ch|r] eqn:Ep; cbn [fst snd]; try reflexivity.
  - exfalso. cbn [apc_ok] in HW. destruct HW as (_ & _ & [Hc|Hi]).
    + rewrite (HS a x n0 ch Ha Ep) in Hc. discriminate.
    + unfold idle in Hi. rewrite Hr0, Hs0 in Hi. discriminate.
  - destruct r; reflexivity.
Qed.

Theorem clauses_ok s : Inv s -> Settled s ->
  clauses (limit s) (kinds s) (map atrip (acts s)) (map jtrip (jobs s)) = [].
Proof.
  intros HI HS. unfold clauses.
  rewrite (cl1_ok s (proj1 HI)), (cl2_ok s (proj1 HI)), (cl3_ok s (proj1 HI)), (cl4_ok s (proj1 HI)),
          (cl5_ok s HI), (cl6_ok s HI), (cl7_ok s HI HS). reflexivity.
Qed.

(* ---- the kind of an actor never changes; calls append one actor ---- *)
Lemma set_nth_same {A} (l : list A) k v : nth_error l k = Some v -> set_nth l k v = l.
Proof.
  revert k. induction l as [|h t IH]; intros [|k] H; cbn [nth_error set_nth] in *; try discriminate.
  - now inversion H.
  - f_equal. now apply IH.
Qed.

Lemma map_set_nth {A B} (g : A -> B) l k v : map g (set_nth l k v) = set_nth (map g l) k (g v).
Proof. revert k. induction l as [|h t IH]; intros [|k]; cbn [set_nth map]; try reflexivity. now rewrite IH. Qed.

Lemma map_upd_at {A B} (g : A -> B) l k f :
  (forall x, nth_error l k = Some x -> g (f x) = g x) -> map g (upd l k f) = map g l.
Proof.
  intros H. unfold upd. destruct (nth_error l k) as [x|] eqn:G; [|reflexivity].
  rewrite map_set_nth, (H x eq_refl). apply set_nth_same. now rewrite nth_error_map, G.
Qed.

Definition newkind (s : st) (e : ev) : list (N * nat) :=
  match e with
  | CallEnq _ => [(1%N, 0)]
  | CallIdle _ => [(2%N, length (jobs s))]
  | CallWatch _ => [(3%N, 0)]
  | _ => []
  end.

Ltac kinds_upd G Ep :=
  unfold kinds; cbn [with_acts with_b_acts acts]; rewrite ?acts_iter; apply map_upd_at;
  let y := fresh "y" in let Hy := fresh "Hy" in
  intros y Hy; rewrite G in Hy; inversion Hy; subst y; unfold kind_of; cbn [setpc pc]; rewrite Ep; reflexivity.

Lemma step_kinds s e : kinds (step s e) = kinds s ++ newkind s e.
Proof.
  destruct e as [n|he|hascb|a|w|w|a o|a|a|a|a v|a|a]; cbn [step newkind]; rewrite ?app_nil_r.
  - unfold kinds. cbn [with_acts acts]. now rewrite map_app.
  - unfold kinds. cbn [with_acts acts]. now rewrite map_app.
  - unfold kinds. cbn [with_acts acts]. rewrite map_app. now destruct hascb.
  - destruct (nth_error (acts s) a) as [x|] eqn:G; [|reflexivity].
    destruct (pc x) as [n|q r|n0|n0 ch|n0 r| |ch q r|ch|r] eqn:Ep; try reflexivity.
    + kinds_upd G Ep.
    + destruct (idle s); [kinds_upd G Ep|]. destruct (getch (b s)) as [b' ch]. kinds_upd G Ep.
    + destruct (getch (b s)) as [b' ch]. kinds_upd G Ep.
  - destruct (wk (nth w (jobs s) jd)); try reflexivity. destruct (queue s); reflexivity.
  - destruct (wk (nth w (jobs s) jd)); reflexivity.
  - destruct (nth_error (acts s) a) as [x|] eqn:G; [|reflexivity].
    destruct (pc x) as [n|q r|n0|n0 ch|n0 r| |ch q r|ch|r] eqn:Ep; try reflexivity.
    unfold kinds; cbn [with_acts acts]. apply map_upd_at. intros y Hy. rewrite G in Hy. inversion Hy; subst y.
    unfold kind_of. cbn [setpc pc]. rewrite Ep. destruct o as [|[|o]]; reflexivity.
  - destruct (nth_error (acts s) a) as [x|] eqn:G; [|reflexivity].
    destruct (pc x) as [n|q r|n0|n0 ch|n0 r| |ch q r|ch|r] eqn:Ep; try reflexivity.
    + destruct (closed (b s) ch); [kinds_upd G Ep | reflexivity].
    + destruct (closed (b s) ch); [kinds_upd G Ep | reflexivity].
  - unfold kinds; cbn [with_acts acts]. apply map_upd_at. intros y _. reflexivity.
  - destruct (nth_error (acts s) a) as [x|] eqn:G; [|reflexivity].
    destruct (canc x); [|reflexivity].
    destruct (pc x) as [n|q r|n0|n0 ch|n0 r| |ch q r|ch|r] eqn:Ep; try reflexivity; kinds_upd G Ep.
  - unfold kinds; cbn [with_acts acts]. apply map_upd_at. intros y _. destruct (ehas y && negb (eclosed y)); reflexivity.
  - unfold kinds; cbn [with_acts acts]. apply map_upd_at. intros y _. destruct (ehas y); reflexivity.
  - destruct (nth_error (acts s) a) as [x|] eqn:G; [|reflexivity].
    destruct (pc x) as [n|q r|n0|n0 ch|n0 r| |ch q r|ch|r] eqn:Ep; try reflexivity.
    destruct (ebuf x) as [|v t]; [destruct (eclosed x); [kinds_upd G Ep | reflexivity]|].
    unfold kinds; cbn [with_acts acts]. apply map_upd_at. intros y Hy. rewrite G in Hy. inversion Hy; subst y.
    unfold kind_of. cbn [pc]. rewrite Ep. destruct v; reflexivity.
Qed.

Lemma wakes_kinds l : forall s, kinds (fold_left (fun s a => step s (Wake a)) l s) = kinds s.
Proof. induction l as [|a l IH]; intros s; cbn [fold_left]; [reflexivity|]. rewrite IH, step_kinds. cbn [newkind]. apply app_nil_r. Qed.
Lemma wakes_inv l : forall s, Inv s -> Inv (fold_left (fun s a => step s (Wake a)) l s).
Proof. induction l as [|a l IH]; intros s H; cbn [fold_left]; [exact H|]. apply IH. now apply step_inv. Qed.
Lemma wakes_limit l : forall s, limit (fold_left (fun s a => step s (Wake a)) l s) = limit s.
Proof. induction l as [|a l IH]; intros s; cbn [fold_left]; [reflexivity|]. now rewrite IH, step_limit. Qed.

Lemma after_kinds s a : kinds (after s a) = kinds s.
Proof. unfold after. rewrite !step_kinds. cbn [newkind]. now rewrite !app_nil_r. Qed.
Lemma after_inv s a : Inv s -> Inv (after s a).
Proof. intros H. unfold after. now repeat apply step_inv. Qed.
Lemma after_limit s a : limit (after s a) = limit s.
Proof. unfold after. now rewrite !step_limit. Qed.

(* settle leaves no blocked actor behind whose wait channel is closed *)
Lemma wake_facts s a : let s' := step s (Wake a) in
  b s' = b s /\ length (acts s') = length (acts s) /\
  (forall k, k <> a -> nth_error (acts s') k = nth_error (acts s) k) /\
  (forall x n0 ch, nth_error (acts s') a = Some x -> pc x = IWait n0 ch -> closed (b s) ch = false).
Proof.
  cbn [step]. destruct (nth_error (acts s) a) as [x|] eqn:G.
  2:{ repeat split; auto. intros x n0 ch H. congruence. }
  assert (Hsame : b s = b s /\ length (acts s) = length (acts s) /\
                  (forall k, k <> a -> nth_error (acts s) k = nth_error (acts s) k) /\
                  (forall y n0 ch, nth_error (acts s) a = Some y -> pc y = IWait n0 ch -> closed (b s) ch = false) \/ True) by (right; exact I).
  destruct (pc x) as [n|q r|n0|n0 ch|n0 r| |ch q r|ch|r] eqn:Ep.
  1-3,5-7,9: (repeat split; auto; intros y m c Hy Hp; assert (y = x) by congruence; subst y; congruence).
  - destruct (closed (b s) ch) eqn:Ec.
    + cbn [with_acts b acts]. rewrite upd_length. repeat split; auto.
      * intros k Hk. unfold upd. rewrite G. now apply nth_error_set_nth_other.
      * intros y m c Hy Hp. destruct (lookup_upd _ _ _ _ _ Hy) as [[Hne _]|[_ [z [Hz ->]]]]; [congruence|]. cbn [setpc pc] in Hp. discriminate.
    + repeat split; auto. intros y m c Hy Hp. assert (y = x) by congruence. subst y. rewrite Ep in Hp. inversion Hp; subst. exact Ec.
  - destruct (closed (b s) ch) eqn:Ec.
    + cbn [with_acts b acts]. rewrite upd_length. repeat split; auto.
      * intros k Hk. unfold upd. rewrite G. now apply nth_error_set_nth_other.
      * intros y m c Hy Hp. destruct (lookup_upd _ _ _ _ _ Hy) as [[Hne _]|[_ [z [Hz ->]]]]; [congruence|]. cbn [setpc pc] in Hp. discriminate.
    + repeat split; auto. intros y m c Hy Hp. assert (y = x) by congruence. subst y. congruence.
Qed.

Lemma wakes_settled len : forall start s,
  (forall a x n0 ch, a < start -> nth_error (acts s) a = Some x -> pc x = IWait n0 ch -> closed (b s) ch = false) ->
  let s' := fold_left (fun s a => step s (Wake a)) (seq start len) s in
  b s' = b s /\ length (acts s') = length (acts s) /\
  (forall a x n0 ch, a < start + len -> nth_error (acts s') a = Some x -> pc x = IWait n0 ch -> closed (b s') ch = false).
Proof.
  induction len as [|len IH]; intros start s H; cbn [seq fold_left].
  - repeat split; auto. intros a x n0 ch Ha. apply H. lia.
  - destruct (wake_facts s start) as (Hb & Hl & Ho & Hs).
    specialize (IH (S start) (step s (Wake start))). cbn zeta in IH.
    destruct IH as (Hb2 & Hl2 & H2).
    + intros a x n0 ch Ha Hx Hp. rewrite Hb. destruct (Nat.eq_dec a start) as [->|Hne].
      * eapply Hs; eauto.
      * rewrite Ho in Hx by exact Hne. eapply H; eauto. lia.
    + split; [congruence|]. split; [congruence|]. intros a x n0 ch Ha. apply H2. lia.
Qed.

Lemma settle_settled s : Settled (settle s).
Proof.
  unfold settle, Settled. destruct (wakes_settled (length (acts s)) 0 s) as (_ & Hl & H).
  - intros a x n0 ch Ha. lia.
  - intros a x n0 ch Hx Hp. eapply H; eauto. cbn. rewrite <- Hl. eapply nth_error_nth_len; eauto.
Qed.

Ltac inv_some H := match type of H with Some ?a = Some ?b => let E := fresh "E" in assert (E : b = a) by congruence; subst b; clear H end.

Lemma hstep1_facts s h s1 : hstep1 s h = Some s1 -> Inv s ->
  Inv s1 /\ limit s1 = limit s /\
  kinds s1 = kinds s ++ match h with HEnq _ => [(1%N, 0)] | HIdle _ => [(2%N, length (jobs s))] | HWatch _ => [(3%N, 0)] | _ => [] end.
Proof.
  intros H HI. destruct h as [n|k|k|a|w|w|a o|a|a v|a]; unfold hstep1 in H.
  - inv_some H. split; [now apply step_inv|]. split; [apply step_limit | apply step_kinds].
  - inv_some H. split; [now apply step_inv|]. split; [apply step_limit | apply step_kinds].
  - inv_some H. split; [now apply step_inv|]. split; [apply step_limit | apply step_kinds].
  - destruct (nth_error (acts s) a) as [x|]; [|discriminate]. destruct (at_gate x); [|discriminate]. inv_some H.
    split; [apply after_inv; now apply step_inv|]. split; [now rewrite after_limit, step_limit|].
    rewrite after_kinds, step_kinds. reflexivity.
  - destruct (at_wgate (nth w (jobs s) jd)); [|discriminate]. inv_some H.
    split; [now apply step_inv|]. split; [apply step_limit | apply step_kinds].
  - destruct (in_user (nth w (jobs s) jd)); [|discriminate]. inv_some H.
    split; [now apply step_inv|]. split; [apply step_limit | apply step_kinds].
  - destruct (nth_error (acts s) a) as [x|]; [|discriminate]. destruct (in_cb (pc x)); [|discriminate]. inv_some H.
    split; [apply after_inv; now apply step_inv|]. split; [now rewrite after_limit, step_limit|].
    rewrite after_kinds, step_kinds. reflexivity.
  - destruct (nth_error (acts s) a) as [x|]; [|discriminate]. destruct (is_waiter (pc x)); [|discriminate]. inv_some H.
    split; [now repeat apply step_inv|]. split; [now rewrite !step_limit|]. rewrite !step_kinds. cbn [newkind]. now rewrite !app_nil_r.
  - destruct (nth_error (acts s) a) as [x|]; [|discriminate].
    destruct (is_idle_call (pc x) && ehas x && negb (eclosed x)); [|discriminate]. inv_some H.
    split; [now repeat apply step_inv|]. split; [now rewrite !step_limit|]. rewrite !step_kinds. cbn [newkind]. now rewrite !app_nil_r.
  - destruct (nth_error (acts s) a) as [x|]; [|discriminate].
    destruct (is_idle_call (pc x) && ehas x && negb (eclosed x)); [|discriminate]. inv_some H.
    split; [now repeat apply step_inv|]. split; [now rewrite !step_limit|]. rewrite !step_kinds. cbn [newkind]. now rewrite !app_nil_r.
Qed.

(* monitor state vs model state *)
Definition MS (m : mst) (s : st) : Prop := mlim m = limit s /\ mkinds m = kinds s /\ mnj m = length (jobs s).

Lemma monitors_accept_model evs : forall i m rep s, Inv s -> MS m s ->
  monitor mon i m rep evs (run_obs hstep s evs) = [].
Proof.
  induction evs as [|e evs IH]; intros i m rep s HI (M1 & M2 & M3); [reflexivity|].
  cbn [run_obs]. destruct (hstep s e) as [[s' o]|] eqn:EH; [|reflexivity].
  unfold hstep in EH. destruct (decode e) as [h|] eqn:ED; [|discriminate].
  destruct (hstep1 s h) as [s1|] eqn:E1; [|discriminate]. cbn zeta in EH. inversion EH; subst s' o. clear EH.
  destruct (hstep1_facts s h s1 E1 HI) as (HI1 & HL1 & HK1).
  assert (HIs : Inv (settle s1)) by (apply wakes_inv; exact HI1).
  assert (HKs : kinds (settle s1) = kinds_after m e).
  { unfold settle. rewrite wakes_kinds, HK1. unfold kinds_after. rewrite ED, M2, M3. destruct h; rewrite ?app_nil_r; reflexivity. }
  assert (HLs : limit (settle s1) = mlim m) by (unfold settle; rewrite wakes_limit; congruence).
  cbn [monitor]. rewrite mon_obs. rewrite <- HKs, <- HLs, (clauses_ok _ HIs (settle_settled s1)).
  cbn [filter map app]. apply IH; [exact HIs|]. split; [|split]; reflexivity.
Qed.

Lemma jobs_enq1_length s : length (jobs (enq1 s)) = S (length (jobs s)).
Proof. unfold enq1. destruct (can_spawn s); cbn [jobs]; rewrite app_length; cbn [length]; lia. Qed.

Lemma jobs_iter_length n s : length (jobs (Nat.iter n enq1 s)) = n + length (jobs s).
Proof. induction n as [|n IH]; [reflexivity|]. change (Nat.iter (S n) enq1 s) with (enq1 (Nat.iter n enq1 s)). rewrite jobs_enq1_length, IH. lia. Qed.

Theorem model_satisfies_monitors cfg evs :
  monitor mon 0 (minit cfg) [] evs (run_obs hstep (hinit cfg) evs) = [].
Proof.
  apply monitors_accept_model; [apply init_inv|]. unfold MS, minit, hinit, kinds. cbn [mlim mkinds mnj].
  pose proof (ext_iter (ninit_of cfg) (empty (lim_of cfg))) as X. fold (init (lim_of cfg) (ninit_of cfg)) in X.
  split; [now rewrite (x_lim _ _ X)|]. split; [now rewrite (x_acts _ _ X)|].
  unfold init. rewrite jobs_iter_length. cbn. lia.
Qed.
