(* Proofs about the ConcurrentQueue model (C18). *)
From Util Require Import Common.Base Common.ListLemmas Conc.Model.

(* ------------------------------------------------------------------ *)
(* upd *)
Section Upd.
  Context {A : Type}.
  Implicit Types (l : list A) (f : A -> A).

  Lemma upd_length l k f : length (upd l k f) = length l.
  Proof. unfold upd. destruct (nth_error l k); [apply length_set_nth | reflexivity]. Qed.

  Lemma upd_oob l k f : length l <= k -> upd l k f = l.
  Proof. intros H. unfold upd. apply nth_error_None in H. now rewrite H. Qed.

  Lemma upd_in l k f d : k < length l -> upd l k f = set_nth l k (f (nth k l d)).
  Proof. intros H. unfold upd. now rewrite (nth_error_nth' l d H). Qed.

  Lemma nth_upd_same l k f d : k < length l -> nth k (upd l k f) d = f (nth k l d).
  Proof. intros H. rewrite (upd_in l k f d H). now apply nth_set_nth_same. Qed.

  Lemma nth_upd_other l k f d x : x <> k -> nth x (upd l k f) d = nth x l d.
  Proof. intros H. unfold upd. destruct (nth_error l k); [now apply nth_set_nth_other | reflexivity]. Qed.

  Lemma cnt_upd (P : A -> bool) l k f d : k < length l ->
    cnt P (upd l k f) + b2n (P (nth k l d)) = cnt P l + b2n (P (f (nth k l d))).
  Proof. intros H. rewrite (upd_in l k f d H). now apply cnt_set_nth. Qed.

  Lemma cnt_upd_same (P : A -> bool) l k f : (forall r, P (f r) = P r) -> cnt P (upd l k f) = cnt P l.
  Proof.
    intros HP. destruct (Nat.lt_ge_cases k (length l)) as [H|H]; [|now rewrite upd_oob].
    destruct l as [|d l0]; [simpl in H; lia|].
    pose proof (cnt_upd P (d :: l0) k f d H) as E. rewrite HP in E. lia.
  Qed.

  Lemma lookup_upd l a f k x' : nth_error (upd l a f) k = Some x' ->
    (k <> a /\ nth_error l k = Some x') \/ (k = a /\ exists x, nth_error l a = Some x /\ x' = f x).
  Proof.
    unfold upd. destruct (nth_error l a) as [x|] eqn:G.
    - destruct (Nat.eq_dec k a) as [->|Hne].
      + rewrite nth_error_set_nth_same by (eapply nth_error_nth_len; eauto). intros H; inversion H. right. split; [reflexivity|]. now exists x.
      + rewrite nth_error_set_nth_other by exact Hne. intros H. left. now split.
    - intros H. destruct (Nat.eq_dec k a) as [->|Hne]; [congruence | now left].
  Qed.
End Upd.

Lemma nth_snoc {A} (l : list A) r d j :
  nth j (l ++ [r]) d = if j <? length l then nth j l d else if j =? length l then r else d.
Proof.
  destruct (Nat.ltb_spec j (length l)) as [H|H]; [now apply app_nth1|].
  rewrite app_nth2 by lia. destruct (Nat.eqb_spec j (length l)) as [->|Hne].
  - now rewrite Nat.sub_diag.
  - destruct (j - length l) as [|k] eqn:E; [lia|]. simpl. now destruct k.
Qed.

Lemma count_occ_fresh (q : list nat) n : Forall (fun j => j < n) q -> count_occ Nat.eq_dec q n = 0.
Proof.
  intros H. apply count_occ_not_In. intros Hin. rewrite Forall_forall in H. specialize (H _ Hin). lia.
Qed.

Lemma count_occ_snoc (l : list nat) x j :
  count_occ Nat.eq_dec (l ++ [x]) j = count_occ Nat.eq_dec l j + (if Nat.eqb j x then 1 else 0).
Proof.
  rewrite count_occ_app. simpl. destruct (Nat.eq_dec x j) as [->|Hne].
  - now rewrite Nat.eqb_refl.
  - destruct (Nat.eqb_spec j x); [congruence | reflexivity].
Qed.

Lemma cnt_snoc {A} (P : A -> bool) l r : cnt P (l ++ [r]) = cnt P l + b2n (P r).
Proof. rewrite cnt_app, cnt_cons, cnt_nil. lia. Qed.

(* ------------------------------------------------------------------ *)
(* the job-table invariant *)
Record Core (s : st) : Prop := {
  c_q : Forall (fun j => j < length (jobs s)) (queue s);
  c_once : forall j, j < length (jobs s) -> count_occ Nat.eq_dec (queue s) j + ent (nth j (jobs s) jd) = 1;
  c_run : forall j, cnt (runs j) (jobs s) + fin (nth j (jobs s) jd) = ent (nth j (jobs s) jd);
  c_running : running s = cnt wactive (jobs s);
  c_size : size s = length (queue s);
  c_le : (0 < limit s)%Z -> (Z.of_nat (running s) <= limit s)%Z;
  c_full : queue s <> [] -> (0 < limit s)%Z /\ Z.of_nat (running s) = limit s;
  c_fifo : limit s = 1%Z -> entl s ++ queue s = seq 0 (length (jobs s));
  c_log : forall j, count_occ Nat.eq_dec (entl s) j = ent (nth j (jobs s) jd) }.

Lemma core_empty lim : Core (empty lim).
Proof.
  constructor; cbn [empty jobs queue running size limit entl length]; try (intros; try reflexivity; lia).
  - constructor.
  - intros j. destruct j; reflexivity.
  - congruence.
  - intros j. destruct j; reflexivity.
Qed.

Lemma ent_le_1 s j : Core s -> ent (nth j (jobs s) jd) <= 1.
Proof.
  intros C. destruct (Nat.lt_ge_cases j (length (jobs s))) as [H|H].
  - pose proof (c_once s C j H). lia.
  - rewrite nth_overflow by exact H. cbn. lia.
Qed.

Lemma core_enq1 s : Core s -> Core (enq1 s).
Proof.
  intros C. unfold enq1, can_spawn.
  destruct ((limit s <=? 0)%Z || (Z.of_nat (running s) <? limit s)%Z) eqn:ESP.
  - (* spawn *)
    assert (Hq : queue s = []).
    { destruct (queue s) as [|h t] eqn:EQ; [reflexivity|exfalso].
      destruct (c_full s C) as [Hpos Heq]; [rewrite EQ; discriminate|].
      apply orb_true_iff in ESP as [H|H]; [apply Z.leb_le in H | apply Z.ltb_lt in H]; lia. }
    constructor; cbn [jobs queue running size limit entl b acts]; rewrite ?app_length; cbn [length].
    + rewrite Hq. constructor.
    + intros j Hj. rewrite Hq. cbn [count_occ]. rewrite nth_snoc.
      destruct (Nat.ltb_spec j (length (jobs s))) as [H|H].
      * pose proof (c_once s C j H) as E. rewrite Hq in E. exact E.
      * destruct (Nat.eqb_spec j (length (jobs s))); [reflexivity | lia].
    + intros j. rewrite cnt_snoc, nth_snoc. cbn [runs wk]. pose proof (c_run s C j) as E.
      destruct (Nat.ltb_spec j (length (jobs s))) as [H|H].
      * destruct (Nat.eqb_spec j (length (jobs s))); [lia|]. cbn [b2n]. lia.
      * rewrite nth_overflow in E by exact H. cbn [fin ent jd] in E.
        destruct (Nat.eqb_spec j (length (jobs s))); cbn [b2n fin ent jd]; lia.
    + rewrite cnt_snoc. cbn [wactive wk b2n]. rewrite (c_running s C). lia.
    + exact (c_size s C).
    + intros Hpos. apply orb_true_iff in ESP as [H|H]; [apply Z.leb_le in H | apply Z.ltb_lt in H]; lia.
    + rewrite Hq. congruence.
    + intros H1. rewrite Hq, app_nil_r. pose proof (c_fifo s C H1) as E. rewrite Hq, app_nil_r in E.
      rewrite E. rewrite Nat.add_1_r. symmetry. apply seq_S.
    + intros j. rewrite count_occ_snoc, nth_snoc. pose proof (c_log s C j) as E.
      destruct (Nat.ltb_spec j (length (jobs s))) as [H|H].
      * destruct (Nat.eqb_spec j (length (jobs s))); lia.
      * rewrite nth_overflow in E by exact H. cbn [ent jd] in E.
        destruct (Nat.eqb_spec j (length (jobs s))); cbn [ent jd]; lia.
  - (* queue *)
    apply orb_false_iff in ESP as [H1 H2]. apply Z.leb_gt in H1. apply Z.ltb_ge in H2.
    pose proof (c_le s C H1) as Hle.
    constructor; cbn [jobs queue running size limit entl b acts]; rewrite ?app_length; cbn [length].
    + apply Forall_app. split.
      * eapply Forall_impl; [|exact (c_q s C)]. cbn. intros; lia.
      * constructor; [lia | constructor].
    + intros j Hj. rewrite count_occ_snoc, nth_snoc.
      destruct (Nat.ltb_spec j (length (jobs s))) as [H|H].
      * pose proof (c_once s C j H). destruct (Nat.eqb_spec j (length (jobs s))); lia.
      * destruct (Nat.eqb_spec j (length (jobs s))) as [->|]; [|lia].
        rewrite (count_occ_fresh _ _ (c_q s C)). reflexivity.
    + intros j. rewrite cnt_snoc, nth_snoc. cbn [runs wk b2n]. pose proof (c_run s C j) as E.
      destruct (Nat.ltb_spec j (length (jobs s))) as [H|H]; [lia|].
      rewrite nth_overflow in E by exact H. cbn [fin ent jd] in E.
      destruct (Nat.eqb_spec j (length (jobs s))); cbn [fin ent jd]; lia.
    + rewrite cnt_snoc. cbn [wactive wk b2n]. rewrite (c_running s C). lia.
    + rewrite (c_size s C). lia.
    + intros _. exact Hle.
    + intros _. split; [exact H1 | lia].
    + intros Hl. rewrite app_assoc, (c_fifo s C Hl). rewrite Nat.add_1_r. symmetry. apply seq_S.
    + intros j. rewrite nth_snoc. pose proof (c_log s C j) as E.
      destruct (Nat.ltb_spec j (length (jobs s))) as [H|H]; [exact E|].
      rewrite nth_overflow in E by exact H. cbn [ent jd] in E.
      destruct (Nat.eqb_spec j (length (jobs s))); cbn [ent jd]; lia.
Qed.

Lemma core_iter n s : Core s -> Core (Nat.iter n enq1 s).
Proof. intros C. induction n as [|n IH]; [exact C|]. cbn [Nat.iter]. now apply core_enq1. Qed.

Lemma core_init lim ninit : Core (init lim ninit).
Proof. apply core_iter, core_empty. Qed.

(* what the Enqueue loop leaves alone *)
Record Ext (s s' : st) : Prop := {
  x_b : b s' = b s; x_acts : acts s' = acts s; x_lim : limit s' = limit s;
  x_len : length (jobs s) <= length (jobs s');
  x_nth : forall j, j < length (jobs s) -> nth j (jobs s') jd = nth j (jobs s) jd }.

Lemma ext_refl s : Ext s s.
Proof. constructor; auto. Qed.

Lemma ext_enq1 s : Ext s (enq1 s).
Proof.
  unfold enq1. destruct (can_spawn s); constructor; cbn [b acts limit jobs]; auto; rewrite ?app_length; cbn [length]; try lia.
  all: intros j Hj; rewrite nth_snoc; destruct (Nat.ltb_spec j (length (jobs s))); [reflexivity | lia].
Qed.

Lemma ext_trans s1 s2 s3 : Ext s1 s2 -> Ext s2 s3 -> Ext s1 s3.
Proof.
  intros [A1 A2 A3 A4 A5] [B1 B2 B3 B4 B5]. constructor; try congruence; try lia.
  intros j Hj. rewrite B5 by lia. now apply A5.
Qed.

Lemma ext_iter n s : Ext s (Nat.iter n enq1 s).
Proof. induction n as [|n IH]; [apply ext_refl|]. cbn [Nat.iter]. eapply ext_trans; [exact IH | apply ext_enq1]. Qed.

Lemma enq1_not_idle s : idle (enq1 s) = false.
Proof.
  unfold enq1, idle. destruct (can_spawn s); cbn [running size]; [reflexivity|]. now rewrite andb_false_r.
Qed.

Lemma iter_not_idle n s : n <> 0 -> idle (Nat.iter n enq1 s) = false.
Proof. destruct n as [|n]; [congruence|]. intros _. cbn [Nat.iter]. apply enq1_not_idle. Qed.

(* ------------------------------------------------------------------ *)
(* sections of executeJob and job returns *)
Lemma wk_in_range s w : wk (nth w (jobs s) jd) <> WNone -> w < length (jobs s).
Proof.
  intros H. destruct (Nat.lt_ge_cases w (length (jobs s))) as [Hl|Hl]; [exact Hl|].
  rewrite nth_overflow in H by exact Hl. now cbn in H.
Qed.

Lemma core_wexit s w : Core s -> wk (nth w (jobs s) jd) = WGate -> queue s = [] ->
  Core {| b := bcast (b s); limit := limit s; running := pred (running s); queue := []; size := size s;
          jobs := upd (jobs s) w (setwk WExit); acts := acts s; entl := entl s |}.
Proof.
  intros C G Hq. assert (Hw : w < length (jobs s)) by (apply wk_in_range; rewrite G; discriminate).
  assert (HwA : wactive (nth w (jobs s) jd) = true) by (unfold wactive; now rewrite G).
  assert (HwR : forall j, runs j (nth w (jobs s) jd) = false) by (intros j; unfold runs; now rewrite G).
  pose proof (cnt_upd wactive (jobs s) w (setwk WExit) jd Hw) as EA. cbn [wactive setwk wk] in EA. rewrite HwA in EA. cbn [b2n] in EA.
  assert (Hnth : forall j, ent (nth j (upd (jobs s) w (setwk WExit)) jd) = ent (nth j (jobs s) jd) /\
                           fin (nth j (upd (jobs s) w (setwk WExit)) jd) = fin (nth j (jobs s) jd)).
  { intros j. destruct (Nat.eq_dec j w) as [->|Hne].
    - rewrite nth_upd_same by exact Hw. split; reflexivity.
    - rewrite nth_upd_other by exact Hne. split; reflexivity. }
  constructor; cbn [jobs queue running size limit entl b acts]; rewrite ?upd_length.
  - constructor.
  - intros j Hj. destruct (Hnth j) as [-> _]. pose proof (c_once s C j Hj) as E. now rewrite Hq in E.
  - intros j. destruct (Hnth j) as [-> ->]. pose proof (c_run s C j) as E.
    pose proof (cnt_upd (runs j) (jobs s) w (setwk WExit) jd Hw) as ER. cbn [runs setwk wk] in ER. rewrite HwR in ER. cbn [b2n] in ER. lia.
  - rewrite (c_running s C). lia.
  - rewrite (c_size s C), Hq. reflexivity.
  - intros Hpos. pose proof (c_le s C Hpos). lia.
  - congruence.
  - intros Hl. pose proof (c_fifo s C Hl) as E. now rewrite Hq in E.
  - intros j. destruct (Hnth j) as [-> _]. exact (c_log s C j).
Qed.

Lemma nth_pop_fields l w p h j : w < length l -> h < length l ->
  ent (nth j (upd (upd l w (setwk p)) h bump_ent) jd) = (if Nat.eqb j h then S (ent (nth j l jd)) else ent (nth j l jd)) /\
  fin (nth j (upd (upd l w (setwk p)) h bump_ent) jd) = fin (nth j l jd).
Proof.
  intros Hw Hh. destruct (Nat.eqb_spec j h) as [->|Hne].
  - rewrite nth_upd_same by (now rewrite upd_length). cbn [bump_ent ent fin].
    destruct (Nat.eq_dec h w) as [->|Hne2].
    + rewrite nth_upd_same by exact Hw. split; reflexivity.
    + rewrite nth_upd_other by exact Hne2. split; reflexivity.
  - rewrite nth_upd_other by exact Hne.
    destruct (Nat.eq_dec j w) as [->|Hne2].
    + rewrite nth_upd_same by exact Hw. split; reflexivity.
    + rewrite nth_upd_other by exact Hne2. split; reflexivity.
Qed.

Lemma core_wpop s w h t : Core s -> wk (nth w (jobs s) jd) = WGate -> queue s = h :: t ->
  Core {| b := b s; limit := limit s; running := running s; queue := t; size := pred (size s);
          jobs := upd (upd (jobs s) w (setwk (WRun h))) h bump_ent; acts := acts s; entl := entl s ++ [h] |}.
Proof.
  intros C G Hq. assert (Hw : w < length (jobs s)) by (apply wk_in_range; rewrite G; discriminate).
  pose proof (c_q s C) as HF. rewrite Hq in HF. inversion HF as [|h0 t0 Hh Ht]; subst h0 t0.
  assert (Hcnt : forall P : jrec -> bool, (forall r, P (bump_ent r) = P r) ->
                   cnt P (upd (upd (jobs s) w (setwk (WRun h))) h bump_ent) + b2n (P (nth w (jobs s) jd))
                   = cnt P (jobs s) + b2n (P (setwk (WRun h) (nth w (jobs s) jd)))).
  { intros P HP. rewrite (cnt_upd_same P _ h bump_ent HP). now apply cnt_upd. }
  assert (HwA : wactive (nth w (jobs s) jd) = true) by (unfold wactive; now rewrite G).
  assert (HwR : forall j, runs j (nth w (jobs s) jd) = false) by (intros j; unfold runs; now rewrite G).
  constructor; cbn [jobs queue running size limit entl b acts]; rewrite ?upd_length.
  - exact Ht.
  - intros j Hj. destruct (nth_pop_fields (jobs s) w (WRun h) h j Hw Hh) as [-> _].
    pose proof (c_once s C j Hj) as E. rewrite Hq in E. cbn [count_occ] in E.
    destruct (Nat.eq_dec h j) as [->|Hne].
    + rewrite Nat.eqb_refl. lia.
    + destruct (Nat.eqb_spec j h); [congruence | exact E].
  - intros j. destruct (nth_pop_fields (jobs s) w (WRun h) h j Hw Hh) as [-> ->].
    pose proof (c_run s C j) as E. pose proof (Hcnt (runs j) (fun r => eq_refl)) as ER.
    cbn [runs setwk wk] in ER. rewrite HwR in ER. cbn [b2n] in ER.
    destruct (Nat.eqb_spec j h); cbn [b2n] in ER; lia.
  - pose proof (Hcnt wactive (fun r => eq_refl)) as EA. cbn [wactive setwk wk] in EA. rewrite HwA in EA. cbn [b2n] in EA.
    rewrite (c_running s C). lia.
  - rewrite (c_size s C), Hq. reflexivity.
  - exact (c_le s C).
  - intros _. apply (c_full s C). rewrite Hq. discriminate.
  - intros Hl. rewrite <- app_assoc. cbn [app]. rewrite <- Hq. exact (c_fifo s C Hl).
  - intros j. destruct (nth_pop_fields (jobs s) w (WRun h) h j Hw Hh) as [-> _].
    rewrite count_occ_snoc, (c_log s C j). destruct (Nat.eqb_spec j h); lia.
Qed.

Lemma runs_pos_in_range s w j : Core s -> wk (nth w (jobs s) jd) = WRun j ->
  w < length (jobs s) /\ j < length (jobs s) /\ fin (nth j (jobs s) jd) = 0 /\ ent (nth j (jobs s) jd) = 1.
Proof.
  intros C G. assert (Hw : w < length (jobs s)) by (apply wk_in_range; rewrite G; discriminate).
  assert (Hpos : 0 < cnt (runs j) (jobs s)).
  { apply (nth_error_cnt_pos (runs j) (jobs s) w (nth w (jobs s) jd)); [now apply nth_error_nth'|].
    unfold runs. rewrite G. apply Nat.eqb_refl. }
  pose proof (c_run s C j) as E. pose proof (ent_le_1 s j C) as Hle.
  split; [exact Hw|]. split; [|lia].
  destruct (Nat.lt_ge_cases j (length (jobs s))) as [H|H]; [exact H|].
  rewrite nth_overflow in E by exact H. cbn [ent fin jd] in E. lia.
Qed.

Lemma nth_done_fields l w p j0 j : w < length l -> j0 < length l ->
  ent (nth j (upd (upd l w (setwk p)) j0 bump_fin) jd) = ent (nth j l jd) /\
  fin (nth j (upd (upd l w (setwk p)) j0 bump_fin) jd) = (if Nat.eqb j j0 then S (fin (nth j l jd)) else fin (nth j l jd)).
Proof.
  intros Hw Hh. destruct (Nat.eqb_spec j j0) as [->|Hne].
  - rewrite nth_upd_same by (now rewrite upd_length). cbn [bump_fin ent fin].
    destruct (Nat.eq_dec j0 w) as [->|Hne2].
    + rewrite nth_upd_same by exact Hw. split; reflexivity.
    + rewrite nth_upd_other by exact Hne2. split; reflexivity.
  - rewrite nth_upd_other by exact Hne.
    destruct (Nat.eq_dec j w) as [->|Hne2].
    + rewrite nth_upd_same by exact Hw. split; reflexivity.
    + rewrite nth_upd_other by exact Hne2. split; reflexivity.
Qed.

Lemma core_jobdone s w j0 : Core s -> wk (nth w (jobs s) jd) = WRun j0 ->
  Core (with_jobs s (upd (upd (jobs s) w (setwk WGate)) j0 bump_fin)).
Proof.
  intros C G. destruct (runs_pos_in_range s w j0 C G) as (Hw & Hj0 & _ & _).
  assert (Hcnt : forall P : jrec -> bool, (forall r, P (bump_fin r) = P r) ->
                   cnt P (upd (upd (jobs s) w (setwk WGate)) j0 bump_fin) + b2n (P (nth w (jobs s) jd))
                   = cnt P (jobs s) + b2n (P (setwk WGate (nth w (jobs s) jd)))).
  { intros P HP. rewrite (cnt_upd_same P _ j0 bump_fin HP). now apply cnt_upd. }
  assert (HwA : wactive (nth w (jobs s) jd) = true) by (unfold wactive; now rewrite G).
  assert (HwR : forall j, runs j (nth w (jobs s) jd) = Nat.eqb j j0) by (intros j; unfold runs; now rewrite G).
  constructor; cbn [with_jobs jobs queue running size limit entl b acts]; rewrite ?upd_length.
  - exact (c_q s C).
  - intros j Hj. destruct (nth_done_fields (jobs s) w WGate j0 j Hw Hj0) as [-> _]. exact (c_once s C j Hj).
  - intros j. destruct (nth_done_fields (jobs s) w WGate j0 j Hw Hj0) as [-> ->].
    pose proof (c_run s C j) as E. pose proof (Hcnt (runs j) (fun r => eq_refl)) as ER.
    cbn [runs setwk wk] in ER. rewrite HwR in ER.
    destruct (Nat.eqb_spec j j0); cbn [b2n] in ER; lia.
  - pose proof (Hcnt wactive (fun r => eq_refl)) as EA. cbn [wactive setwk wk] in EA. rewrite HwA in EA. cbn [b2n] in EA.
    rewrite (c_running s C). lia.
  - exact (c_size s C).
  - exact (c_le s C).
  - exact (c_full s C).
  - exact (c_fifo s C).
  - intros j. destruct (nth_done_fields (jobs s) w WGate j0 j Hw Hj0) as [-> _]. exact (c_log s C j).
Qed.

Lemma core_with_acts s l : Core s -> Core (with_acts s l).
Proof. intros [H1 H2 H3 H4 H5 H6 H7 H8 H9]. constructor; assumption. Qed.
Lemma core_with_b_acts s b' l : Core s -> Core (with_b_acts s b' l).
Proof. intros [H1 H2 H3 H4 H5 H6 H7 H8 H9]. constructor; assumption. Qed.

(* ------------------------------------------------------------------ *)
(* the invariant of the API actors *)
Definition pair_ok (s : st) (q r : nat) : Prop := 0 < q -> (0 < limit s)%Z /\ Z.of_nat r = limit s.

Definition apc_ok (s : st) (p : apc) : Prop :=
  match p with
  | IGate n0 => n0 <= length (jobs s)
  | IWait n0 ch => n0 <= length (jobs s) /\ ch < nxt (b s) /\ (closed (b s) ch = true \/ idle s = false)
  | IRet n0 RNil => forall j, j < n0 -> fin (nth j (jobs s) jd) = 1
  | PRet q r => pair_ok s q r
  | SCb _ q r => pair_ok s q r
  | _ => True
  end.

Definition WInv (s : st) : Prop :=
  bc_wf (b s) /\ forall a x, nth_error (acts s) a = Some x -> apc_ok s (pc x).

Definition Inv (s : st) : Prop := Core s /\ WInv s.

Lemma fin1_in_range l j : fin (nth j l jd) = 1 -> j < length l.
Proof.
  intros H. destruct (Nat.lt_ge_cases j (length l)) as [Hl|Hl]; [exact Hl|].
  rewrite nth_overflow in H by exact Hl. discriminate.
Qed.

Lemma apc_ok_mono s s' p :
  limit s' = limit s -> length (jobs s) <= length (jobs s') ->
  (forall j, fin (nth j (jobs s) jd) = 1 -> fin (nth j (jobs s') jd) = 1) ->
  nxt (b s) <= nxt (b s') ->
  (forall c, closed (b s) c = true -> closed (b s') c = true) ->
  (idle s = false -> idle s' = false \/ forall c, c < nxt (b s) -> closed (b s') c = true) ->
  apc_ok s p -> apc_ok s' p.
Proof.
  intros HL Hlen Hfin Hn Hc Hi. destruct p as [n|q r|n0|n0 ch|n0 r| |ch q r|ch|r]; cbn [apc_ok]; auto.
  - unfold pair_ok. now rewrite HL.
  - lia.
  - intros (H1 & H2 & [H3|H3]).
    + split; [lia|]. split; [lia|]. left. now apply Hc.
    + split; [lia|]. split; [lia|]. destruct (Hi H3) as [H4|H4]; [now right | left; now apply H4].
  - destruct r; auto.
  - unfold pair_ok. now rewrite HL.
Qed.

Lemma idle_all_fin s : Core s -> idle s = true -> forall j, j < length (jobs s) -> fin (nth j (jobs s) jd) = 1.
Proof.
  intros C Hi j Hj. unfold idle in Hi. apply andb_true_iff in Hi as [H1 H2].
  apply Nat.eqb_eq in H1. apply Nat.eqb_eq in H2.
  rewrite (c_size s C) in H2. apply length_zero_iff_nil in H2.
  pose proof (c_once s C j Hj) as E1. rewrite H2 in E1. cbn [count_occ] in E1.
  pose proof (c_run s C j) as E2.
  assert (Hle : cnt (runs j) (jobs s) <= cnt wactive (jobs s)).
  { apply cnt_le. intros r. unfold runs, wactive. destruct (wk r); auto; discriminate. }
  rewrite <- (c_running s C), H1 in Hle. lia.
Qed.

Lemma winv_upd s s' a f :
  bc_wf (b s') -> acts s' = upd (acts s) a f ->
  (forall p, apc_ok s p -> apc_ok s' p) ->
  (forall x, nth_error (acts s) a = Some x -> apc_ok s (pc x) -> apc_ok s' (pc (f x))) ->
  WInv s -> WInv s'.
Proof.
  intros Hwf Ha Ht Hself [_ HW]. split; [exact Hwf|]. intros k x' Hk. rewrite Ha in Hk.
  destruct (lookup_upd _ _ _ _ _ Hk) as [[_ Hk']|[-> [x [Hx ->]]]].
  - apply Ht. eapply HW; eauto.
  - apply Hself; [exact Hx|]. eapply HW; eauto.
Qed.

Lemma winv_same s s' :
  bc_wf (b s') -> acts s' = acts s -> (forall p, apc_ok s p -> apc_ok s' p) -> WInv s -> WInv s'.
Proof.
  intros Hwf Ha Ht [_ HW]. split; [exact Hwf|]. intros k x' Hk. rewrite Ha in Hk. apply Ht. eapply HW; eauto.
Qed.

Lemma winv_call s x : apc_ok s (pc x) -> WInv s -> WInv (with_acts s (acts s ++ [x])).
Proof.
  intros Hx [Hwf HW]. split; [exact Hwf|]. cbn [with_acts acts]. intros k y Hk.
  apply nth_error_app_inv in Hk as [Hk| ->]; [exact (HW k y Hk) | exact Hx].
Qed.

(* a step that only rewrites actor a's record, with a pc that needs nothing *)
Lemma winv_acts_only s a f :
  (forall x, nth_error (acts s) a = Some x -> apc_ok s (pc x) -> apc_ok s (pc (f x))) ->
  WInv s -> WInv (with_acts s (upd (acts s) a f)).
Proof.
  intros Hself HW. apply (winv_upd s _ a f).
  - exact (proj1 HW).
  - reflexivity.
  - intros p Hp. exact Hp.
  - intros x Hx Hok. exact (Hself x Hx Hok).
  - exact HW.
Qed.

Lemma step_inv s e : Inv s -> Inv (step s e).
Proof.
  intros [C HW]. pose proof HW as [Hwf HWa].
  destruct e as [n|he|hascb|a|w|w|a o|a|a|a|a v|a|a]; cbn [step].
  - (* CallEnq *) split; [now apply core_with_acts|]. apply winv_call; [exact I | exact HW].
  - (* CallIdle *) split; [now apply core_with_acts|]. apply winv_call; [cbn; lia | exact HW].
  - (* CallWatch *) split; [now apply core_with_acts|]. apply winv_call; [destruct hascb; exact I | exact HW].
  - (* Sect *)
    destruct (nth_error (acts s) a) as [x|] eqn:G; [|split; assumption].
    destruct (pc x) as [n|q r|n0|n0 ch|n0 r| |ch q r|ch|r] eqn:Ep; try (split; assumption).
    + (* Enqueue section *)
      pose proof (core_iter n s C) as C1. pose proof (ext_iter n s) as X.
      set (s1 := Nat.iter n enq1 s) in *.
      split; [now apply core_with_b_acts|].
      apply (winv_upd s _ a (setpc (PRet (size s1) (running s1)))); cbn [with_b_acts b acts].
      * rewrite (x_b _ _ X). destruct (Nat.eqb n 0); [exact Hwf | apply bcast_wf].
      * now rewrite (x_acts _ _ X).
      * intros p. apply apc_ok_mono; cbn [with_b_acts limit jobs b].
        -- exact (x_lim _ _ X).
        -- exact (x_len _ _ X).
        -- intros j Hj. rewrite (x_nth _ _ X); [exact Hj | now apply fin1_in_range].
        -- rewrite (x_b _ _ X). destruct (Nat.eqb n 0); cbn; lia.
        -- rewrite (x_b _ _ X). intros c Hc. destruct (Nat.eqb n 0); [exact Hc | now apply closed_mono_bcast].
        -- intros Hi. rewrite (x_b _ _ X). destruct (Nat.eqb_spec n 0) as [->|Hn].
           ++ left. exact Hi.
           ++ right. intros c Hc. now apply bcast_closes.
      * intros y Hy _. cbn [setpc pc apc_ok]. unfold pair_ok. cbn [with_b_acts limit]. intros Hpos.
        apply (c_full s1 C1). intros Hq. rewrite (c_size s1 C1), Hq in Hpos. cbn in Hpos. lia.
      * exact HW.
    + (* WaitIdle section *)
      destruct (idle s) eqn:Ei.
      * split; [now apply core_with_acts|]. apply winv_acts_only; [|exact HW].
        intros y Hy Hok. cbn [setpc pc apc_ok]. assert (y = x) by congruence. subst y. rewrite Ep in Hok. cbn [apc_ok] in Hok.
        intros j Hj. apply idle_all_fin; auto. lia.
      * pose proof (getch_open (b s) Hwf) as Hopen. pose proof (getch_nxt_mono (b s)) as Hmono.
        pose proof (getch_wf (b s) Hwf) as Hwf2. pose proof (closed_mono_getch (b s)) as Hcm.
        destruct (getch (b s)) as [b' ch] eqn:EG. cbn [fst] in *. destruct Hopen as (Hlt & Hop & Hcur).
        split; [now apply core_with_b_acts|].
        apply (winv_upd s _ a (setpc (IWait n0 ch))); cbn [with_b_acts b acts]; auto.
        -- intros p. apply apc_ok_mono; cbn [with_b_acts limit jobs b]; auto; try (intros Hi; left; exact Hi).
        -- intros y Hy Hok. assert (y = x) by congruence. subst y. rewrite Ep in Hok. cbn [apc_ok] in Hok.
           cbn [setpc pc apc_ok with_b_acts jobs b]. split; [exact Hok|]. split; [exact Hlt|]. right. exact Ei.
    + (* WatchState section *)
      pose proof (getch_nxt_mono (b s)) as Hmono.
      pose proof (getch_wf (b s) Hwf) as Hwf2. pose proof (closed_mono_getch (b s)) as Hcm.
      destruct (getch (b s)) as [b' ch] eqn:EG. cbn [fst] in *.
      split; [now apply core_with_b_acts|].
      apply (winv_upd s _ a (setpc (SCb ch (size s) (running s)))); cbn [with_b_acts b acts]; auto.
      * intros p. apply apc_ok_mono; cbn [with_b_acts limit jobs b]; auto; try (intros Hi; left; exact Hi).
      * intros y Hy _. cbn [setpc pc apc_ok]. unfold pair_ok. cbn [with_b_acts limit]. intros Hpos.
        apply (c_full s C). intros Hq. rewrite (c_size s C), Hq in Hpos. cbn in Hpos. lia.
  - (* WSect *)
    destruct (wk (nth w (jobs s) jd)) as [|j| |] eqn:G; try (split; assumption).
    assert (Hw : w < length (jobs s)) by (apply wk_in_range; rewrite G; discriminate).
    destruct (queue s) as [|h t] eqn:Hq.
    + split; [now apply core_wexit|].
      apply (winv_same s); cbn [b acts]; [apply bcast_wf | reflexivity | | exact HW].
      intros p. apply apc_ok_mono; cbn [limit jobs b]; auto.
      * now rewrite upd_length.
      * intros j Hj. destruct (Nat.eq_dec j w) as [->|Hne].
        -- rewrite nth_upd_same by exact Hw. exact Hj.
        -- now rewrite nth_upd_other by exact Hne.
      * intros c Hc. now apply closed_mono_bcast.
      * intros _. right. intros c Hc. now apply bcast_closes.
    + pose proof (c_q s C) as HF. rewrite Hq in HF. inversion HF as [|h0 t0 Hh Ht]; subst h0 t0.
      split; [now apply core_wpop|].
      apply (winv_same s); cbn [b acts]; [exact Hwf | reflexivity | | exact HW].
      intros p. apply apc_ok_mono; cbn [limit jobs b]; auto.
      * now rewrite !upd_length.
      * intros j Hj. destruct (nth_pop_fields (jobs s) w (WRun h) h j Hw Hh) as [_ ->]. exact Hj.
      * intros _. left. unfold idle. cbn [running size].
        assert (Hpos : 0 < cnt wactive (jobs s)).
        { apply (nth_error_cnt_pos wactive (jobs s) w (nth w (jobs s) jd)); [now apply nth_error_nth'|]. unfold wactive. now rewrite G. }
        rewrite (c_running s C). destruct (cnt wactive (jobs s)); [lia | reflexivity].
  - (* JobDone *)
    destruct (wk (nth w (jobs s) jd)) as [|j0| |] eqn:G; try (split; assumption).
    destruct (runs_pos_in_range s w j0 C G) as (Hw & Hj0 & Hf0 & _).
    split; [now apply core_jobdone|].
    apply (winv_same s); cbn [with_jobs b acts]; [exact Hwf | reflexivity | | exact HW].
    intros p. apply apc_ok_mono; cbn [with_jobs limit jobs b]; auto.
    + now rewrite !upd_length.
    + intros j Hj. destruct (nth_done_fields (jobs s) w WGate j0 j Hw Hj0) as [_ ->].
      destruct (Nat.eqb_spec j j0) as [->|Hne]; [congruence | exact Hj].
  - (* CbRet *)
    destruct (nth_error (acts s) a) as [x|] eqn:G; [|split; assumption].
    destruct (pc x) as [n|q r|n0|n0 ch|n0 r| |ch q r|ch|r] eqn:Ep; try (split; assumption).
    split; [now apply core_with_acts|]. apply winv_acts_only; [|exact HW].
    intros y _ _. cbn [setpc pc]. destruct o as [|[|o]]; exact I.
  - (* Wake *)
    destruct (nth_error (acts s) a) as [x|] eqn:G; [|split; assumption].
    destruct (pc x) as [n|q r|n0|n0 ch|n0 r| |ch q r|ch|r] eqn:Ep; try (split; assumption).
    + destruct (closed (b s) ch); [|split; assumption].
      split; [now apply core_with_acts|]. apply winv_acts_only; [|exact HW].
      intros y Hy Hok. assert (y = x) by congruence. subst y. rewrite Ep in Hok. cbn [apc_ok] in Hok.
      cbn [setpc pc apc_ok]. tauto.
    + destruct (closed (b s) ch); [|split; assumption].
      split; [now apply core_with_acts|]. apply winv_acts_only; [|exact HW]. intros y _ _. exact I.
  - (* CancelCtx *)
    split; [now apply core_with_acts|]. apply winv_acts_only; [|exact HW]. intros y _ Hok. exact Hok.
  - (* CancelWake *)
    destruct (nth_error (acts s) a) as [x|] eqn:G; [|split; assumption].
    destruct (canc x); [|split; assumption].
    destruct (pc x) as [n|q r|n0|n0 ch|n0 r| |ch q r|ch|r] eqn:Ep; try (split; assumption).
    all: split; [now apply core_with_acts|]; apply winv_acts_only; [|exact HW]; intros y _ _; exact I.
  - (* ErrSend *)
    split; [now apply core_with_acts|]. apply winv_acts_only; [|exact HW].
    intros y _ Hok. destruct (ehas y && negb (eclosed y)); exact Hok.
  - (* ErrClose *)
    split; [now apply core_with_acts|]. apply winv_acts_only; [|exact HW].
    intros y _ Hok. destruct (ehas y); exact Hok.
  - (* ErrWake *)
    destruct (nth_error (acts s) a) as [x|] eqn:G; [|split; assumption].
    destruct (pc x) as [n|q r|n0|n0 ch|n0 r| |ch q r|ch|r] eqn:Ep; try (split; assumption).
    destruct (ebuf x) as [|v t] eqn:Eb.
    + destruct (eclosed x); [|split; assumption].
      split; [now apply core_with_acts|]. apply winv_acts_only; [|exact HW]. intros y _ _. exact I.
    + split; [now apply core_with_acts|]. apply winv_acts_only; [|exact HW].
      intros y Hy Hok. assert (y = x) by congruence. subst y. rewrite Ep in Hok. cbn [apc_ok] in Hok.
      cbn [pc]. destruct v; cbn [apc_ok]; [exact I | tauto].
Qed.

Lemma init_inv lim ninit : Inv (init lim ninit).
Proof.
  split; [apply core_init|]. pose proof (ext_iter ninit (empty lim)) as X. fold (init lim ninit) in X.
  split.
  - rewrite (x_b _ _ X). exact I.
  - intros a x Hx. rewrite (x_acts _ _ X) in Hx. destruct a; discriminate.
Qed.

Theorem run_inv lim ninit es : Inv (run lim ninit es).
Proof. unfold run. apply fold_inv; [apply step_inv | apply init_inv]. Qed.

(* ------------------------------------------------------------------ *)
(* consequences *)
Theorem running_le_limit lim ninit es : let s := run lim ninit es in
  (0 < limit s)%Z -> (Z.of_nat (running s) <= limit s)%Z.
Proof. cbn. exact (c_le _ (proj1 (run_inv lim ninit es))). Qed.

Lemma step_limit s e : limit (step s e) = limit s.
Proof.
  assert (Hx : forall n s, limit (Nat.iter n enq1 s) = limit s) by (intros n s0; exact (x_lim _ _ (ext_iter n s0))).
  destruct e as [n|he|hascb|a|w|w|a o|a|a|a|a v|a|a]; cbn [step]; try reflexivity.
  - destruct (nth_error (acts s) a) as [x|]; [|reflexivity].
    destruct (pc x); try reflexivity.
    + cbn [with_b_acts limit]. apply Hx.
    + destruct (idle s); [reflexivity|]. destruct (getch (b s)). reflexivity.
    + destruct (getch (b s)). reflexivity.
  - destruct (wk (nth w (jobs s) jd)); try reflexivity. destruct (queue s); reflexivity.
  - destruct (wk (nth w (jobs s) jd)); reflexivity.
  - destruct (nth_error (acts s) a) as [x|]; [|reflexivity]. destruct (pc x); reflexivity.
  - destruct (nth_error (acts s) a) as [x|]; [|reflexivity]. destruct (pc x); try reflexivity; destruct (closed (b s) ch); reflexivity.
  - destruct (nth_error (acts s) a) as [x|]; [|reflexivity]. destruct (canc x); [|reflexivity]. destruct (pc x); reflexivity.
  - destruct (nth_error (acts s) a) as [x|]; [|reflexivity]. destruct (pc x); try reflexivity.
    destruct (ebuf x); [destruct (eclosed x)|]; reflexivity.
Qed.

Lemma fold_limit es : forall s, limit (fold_left step es s) = limit s.
Proof. induction es as [|e es' IH]; intros s; cbn [fold_left]; [reflexivity|]. rewrite IH. apply step_limit. Qed.

Theorem run_limit lim ninit es : limit (run lim ninit es) = lim.
Proof. unfold run. rewrite fold_limit. unfold init. rewrite (x_lim _ _ (ext_iter ninit (empty lim))). reflexivity. Qed.

Theorem executing_le_running lim ninit es : let s := run lim ninit es in cnt in_user (jobs s) <= running s.
Proof.
  cbn. rewrite (c_running _ (proj1 (run_inv lim ninit es))). apply cnt_le.
  intros r. unfold in_user, wactive. destruct (wk r); auto.
Qed.

(* every enqueued job is in exactly one of: queued (never entered), executing (entered once, one goroutine inside), finished once *)
Theorem each_job_exactly_once lim ninit es j : let s := run lim ninit es in
  j < length (jobs s) ->
  let r := nth j (jobs s) jd in
  (count_occ Nat.eq_dec (queue s) j = 1 /\ ent r = 0 /\ fin r = 0 /\ cnt (runs j) (jobs s) = 0) \/
  (count_occ Nat.eq_dec (queue s) j = 0 /\ ent r = 1 /\ fin r = 0 /\ cnt (runs j) (jobs s) = 1) \/
  (count_occ Nat.eq_dec (queue s) j = 0 /\ ent r = 1 /\ fin r = 1 /\ cnt (runs j) (jobs s) = 0).
Proof.
  cbn. intros Hj. destruct (run_inv lim ninit es) as [C _].
  pose proof (c_once _ C j Hj). pose proof (c_run _ C j). lia.
Qed.

Theorem entry_log_counts lim ninit es j : let s := run lim ninit es in
  count_occ Nat.eq_dec (entl s) j = ent (nth j (jobs s) jd).
Proof. cbn. exact (c_log _ (proj1 (run_inv lim ninit es)) j). Qed.

Lemma forallb_false_cnt {A} (P : A -> bool) l : forallb (fun r => negb (P r)) l = true -> cnt P l = 0.
Proof.
  intros H. apply cnt_zero_forall. intros a Ha. rewrite forallb_forall in H. specialize (H a Ha). now destruct (P a).
Qed.

Theorem all_finish lim ninit es : let s := run lim ninit es in
  quiescent s = true -> cnt in_user (jobs s) = 0 -> queue s = [] /\ running s = 0 /\ size s = 0.
Proof.
  cbn. intros Hq Hu. destruct (run_inv lim ninit es) as [C _]. set (s := run lim ninit es) in *.
  unfold quiescent in Hq. apply andb_true_iff in Hq as [_ Hq]. apply forallb_false_cnt in Hq.
  assert (Hr : running s = 0).
  { rewrite (c_running s C). apply cnt_zero_forall. intros r Hr.
    pose proof (proj1 (cnt_zero_forall _ _) Hq r Hr) as H1. pose proof (proj1 (cnt_zero_forall _ _) Hu r Hr) as H2.
    unfold at_wgate, in_user, wactive in *. destruct (wk r); auto. }
  assert (Hqe : queue s = []).
  { destruct (queue s) as [|h t] eqn:E; [reflexivity|exfalso].
    destruct (c_full s C) as [Hpos Heq]; [rewrite E; discriminate|]. lia. }
  split; [exact Hqe|]. split; [exact Hr|]. now rewrite (c_size s C), Hqe.
Qed.

Theorem limit1_fifo ninit es : let s := run 1%Z ninit es in entl s ++ queue s = seq 0 (length (jobs s)).
Proof. cbn. apply (c_fifo _ (proj1 (run_inv 1%Z ninit es))). apply run_limit. Qed.

Theorem queued_pos_implies_running_eq_limit lim ninit es : let s := run lim ninit es in
  (0 < size s -> (0 < lim)%Z /\ Z.of_nat (running s) = lim) /\
  (forall a x q r, nth_error (acts s) a = Some x -> (pc x = PRet q r \/ exists ch, pc x = SCb ch q r) ->
     0 < q -> (0 < lim)%Z /\ Z.of_nat r = lim).
Proof.
  cbn. destruct (run_inv lim ninit es) as [C [_ HW]]. pose proof (run_limit lim ninit es) as HL.
  set (s := run lim ninit es) in *. split.
  - intros Hpos. rewrite <- HL. apply (c_full s C). intros Hq. rewrite (c_size s C), Hq in Hpos. cbn in Hpos. lia.
  - intros a x q r Hx Hp Hpos. specialize (HW a x Hx). rewrite <- HL.
    destruct Hp as [Hp|[ch Hp]]; rewrite Hp in HW; cbn [apc_ok] in HW; exact (HW Hpos).
Qed.

Theorem waitidle_nil_means_earlier_jobs_finished lim ninit es a x n0 : let s := run lim ninit es in
  nth_error (acts s) a = Some x -> pc x = IRet n0 RNil -> forall j, j < n0 -> fin (nth j (jobs s) jd) = 1.
Proof.
  cbn. intros Hx Hp. destruct (run_inv lim ninit es) as [_ [_ HW]]. specialize (HW a x Hx). rewrite Hp in HW. exact HW.
Qed.

(* n0 is fixed by the call: it is the number of jobs enqueued at that moment and never changes afterwards *)
Definition idle_n0 (p : apc) : option nat :=
  match p with IGate n0 | IWait n0 _ | IRet n0 _ => Some n0 | _ => None end.

Lemma acts_iter n s : acts (Nat.iter n enq1 s) = acts s.
Proof. exact (x_acts _ _ (ext_iter n s)). Qed.

Theorem call_idle_records_enqueued s he :
  let s' := step s (CallIdle he) in
  nth_error (acts s') (length (acts s)) = Some (mkact (IGate (length (jobs s))) he).
Proof. cbn. rewrite nth_error_app2 by lia. now rewrite Nat.sub_diag. Qed.

Theorem idle_n0_stable s e a x x' :
  nth_error (acts s) a = Some x -> nth_error (acts (step s e)) a = Some x' -> idle_n0 (pc x') = idle_n0 (pc x).
Proof.
  intros Hx.
  assert (Hcall : forall y, nth_error (acts s ++ [y]) a = Some x' -> x' = x).
  { intros y H. rewrite nth_error_app1 in H by (eapply nth_error_nth_len; eauto). congruence. }
  destruct e as [n|he|hascb|a0|w|w|a0 o|a0|a0|a0|a0 v|a0|a0]; cbn [step].
  - cbn [with_acts acts]. intros H. now rewrite (Hcall _ H).
  - cbn [with_acts acts]. intros H. now rewrite (Hcall _ H).
  - cbn [with_acts acts]. intros H. now rewrite (Hcall _ H).
  - destruct (nth_error (acts s) a0) as [x0|] eqn:G; [|congruence].
    destruct (pc x0) eqn:Ep; try congruence.
    + cbn [with_b_acts acts]. rewrite acts_iter. intros H.
      destruct (lookup_upd _ _ _ _ _ H) as [[_ H']|[-> [y [Hy ->]]]]; [congruence|].
      assert (y = x0) by congruence. subst y. assert (x = x0) by congruence. subst x. now rewrite Ep.
    + destruct (idle s).
      * cbn [with_acts acts]. intros H. destruct (lookup_upd _ _ _ _ _ H) as [[_ H']|[-> [y [Hy ->]]]]; [congruence|].
        assert (y = x0) by congruence. subst y. assert (x = x0) by congruence. subst x. now rewrite Ep.
      * destruct (getch (b s)) as [b' ch]. cbn [with_b_acts acts]. intros H.
        destruct (lookup_upd _ _ _ _ _ H) as [[_ H']|[-> [y [Hy ->]]]]; [congruence|].
        assert (y = x0) by congruence. subst y. assert (x = x0) by congruence. subst x. now rewrite Ep.
    + destruct (getch (b s)) as [b' ch]. cbn [with_b_acts acts]. intros H.
      destruct (lookup_upd _ _ _ _ _ H) as [[_ H']|[-> [y [Hy ->]]]]; [congruence|].
      assert (y = x0) by congruence. subst y. assert (x = x0) by congruence. subst x. now rewrite Ep.
  - destruct (wk (nth w (jobs s) jd)); try congruence. destruct (queue s); cbn [acts]; congruence.
  - destruct (wk (nth w (jobs s) jd)); cbn [with_jobs acts]; congruence.
  - destruct (nth_error (acts s) a0) as [x0|] eqn:G; [|congruence].
    destruct (pc x0) eqn:Ep; try congruence. cbn [with_acts acts]. intros H.
    destruct (lookup_upd _ _ _ _ _ H) as [[_ H']|[-> [y [Hy ->]]]]; [congruence|].
    assert (y = x0) by congruence. subst y. assert (x = x0) by congruence. subst x. rewrite Ep. cbn [setpc pc].
    destruct o as [|[|o]]; reflexivity.
  - destruct (nth_error (acts s) a0) as [x0|] eqn:G; [|congruence].
    destruct (pc x0) eqn:Ep; try congruence.
    all: destruct (closed (b s) ch); [|congruence]; cbn [with_acts acts]; intros H;
      destruct (lookup_upd _ _ _ _ _ H) as [[_ H']|[-> [y [Hy ->]]]]; [congruence|];
      assert (y = x0) by congruence; subst y; assert (x = x0) by congruence; subst x; now rewrite Ep.
  - cbn [with_acts acts]. intros H. destruct (lookup_upd _ _ _ _ _ H) as [[_ H']|[-> [y [Hy ->]]]]; [congruence|].
    cbn [pc]. congruence.
  - destruct (nth_error (acts s) a0) as [x0|] eqn:G; [|congruence].
    destruct (canc x0); [|congruence].
    destruct (pc x0) eqn:Ep; try congruence.
    all: cbn [with_acts acts]; intros H;
      destruct (lookup_upd _ _ _ _ _ H) as [[_ H']|[-> [y [Hy ->]]]]; [congruence|];
      assert (y = x0) by congruence; subst y; assert (x = x0) by congruence; subst x; now rewrite Ep.
  - cbn [with_acts acts]. intros H. destruct (lookup_upd _ _ _ _ _ H) as [[_ H']|[-> [y [Hy ->]]]]; [congruence|].
    assert (y = x) by congruence. subst y. destruct (ehas x && negb (eclosed x)); reflexivity.
  - cbn [with_acts acts]. intros H. destruct (lookup_upd _ _ _ _ _ H) as [[_ H']|[-> [y [Hy ->]]]]; [congruence|].
    assert (y = x) by congruence. subst y. destruct (ehas x); reflexivity.
  - destruct (nth_error (acts s) a0) as [x0|] eqn:G; [|congruence].
    destruct (pc x0) eqn:Ep; try congruence.
    destruct (ebuf x0) as [|v t]; [destruct (eclosed x0); [|congruence]|].
    all: cbn [with_acts acts]; intros H;
      destruct (lookup_upd _ _ _ _ _ H) as [[_ H']|[-> [y [Hy ->]]]]; [congruence|];
      assert (y = x0) by congruence; subst y; assert (x = x0) by congruence; subst x; rewrite Ep; cbn [setpc pc]; try destruct v; reflexivity.
Qed.

Lemma quiescent_actor s a x : quiescent s = true -> nth_error (acts s) a = Some x ->
  at_gate x = false /\ (forall n0 ch, pc x = IWait n0 ch -> closed (b s) ch = false /\ canc x = false /\ ebuf x = [] /\ eclosed x = false).
Proof.
  unfold quiescent. intros H G. apply andb_true_iff in H as [H _]. rewrite forallb_forall in H.
  specialize (H x (nth_error_In _ _ G)). apply andb_true_iff in H as [H1 H2].
  split; [now destruct (at_gate x)|]. intros n0 ch Hp. rewrite Hp in H2.
  apply andb_true_iff in H2 as [H2 H4]. apply andb_true_iff in H2 as [H2 H3].
  split; [now destruct (closed (b s) ch)|]. split; [now destruct (canc x)|].
  destruct (ebuf x); [|discriminate]. split; [reflexivity | now destruct (eclosed x)].
Qed.

(* no WaitIdle stays blocked at a quiescent point while the queue is idle *)
Theorem waiters_quiescent lim ninit es a x : let s := run lim ninit es in
  quiescent s = true -> running s = 0 -> size s = 0 -> nth_error (acts s) a = Some x -> idle_blocked x = false.
Proof.
  cbn. intros Hq Hr Hs Hx. destruct (run_inv lim ninit es) as [_ [_ HW]]. specialize (HW a x Hx).
  unfold idle_blocked. destruct (pc x) as [n|q r|n0|n0 ch|n0 r| |ch q r|ch|r] eqn:Ep; try reflexivity.
  cbn [apc_ok] in HW. destruct HW as (_ & _ & [Hc|Hi]).
  - destruct (quiescent_actor _ _ _ Hq Hx) as [_ H]. destruct (H n0 ch Ep) as [H1 _]. congruence.
  - unfold idle in Hi. rewrite Hr, Hs in Hi. discriminate.
Qed.

Theorem size_is_queue_length lim ninit es : let s := run lim ninit es in size s = length (queue s).
Proof. cbn. exact (c_size _ (proj1 (run_inv lim ninit es))). Qed.
