(* conc.ConcurrentQueue at gate granularity (C18).  No proofs in this file.

   State: the Broadcast, maxConcurrency (limit <= 0 = unlimited), running, the job queue (FIFO: LinkedList.Push appends
   at the tail, Pop removes the head), jobQueueSize, one record per job (how often its function was entered / has
   returned, and the state of the executeJob goroutine that was spawned for it, if any), the API-call actors and the
   log of job entries.

   Job ids are the positions in the global enqueue order: a job receives its id when the critical section of the
   Enqueue call that carries it runs (initial elements of NewConcurrentQueue come first).  An executeJob goroutine
   ("worker") is named by the job it was spawned for.

   Actors: Enqueue(n jobs) parks at the HoldLock entry gate and runs one section; WaitIdle / WatchState park at the
   gate before every section, block in their select, return; workers are inside the harness-owned job function
   (until JobDone), then at the HoldLock gate of executeJob, then inside the next job or gone.
   Blocked actors leave their select by separate events (Wake / CancelWake / ErrWake), so every placement of a
   wake-up, including "several cases ready", is an event list. *)
From Util Require Import Common.Base Common.ListLemmas.

Inductive res := RNil | RCanceled | RErr.

(* executeJob goroutine spawned for a job *)
Inductive wpc :=
| WNone               (* the job was queued: no goroutine was spawned for it *)
| WRun (j : nat)      (* inside the job function of job j *)
| WGate               (* job returned; parked at the HoldLock entry of executeJob *)
| WExit.              (* found the queue empty: running--, broadcast, returned *)

Record jrec := { ent : nat;      (* number of times the job function was entered *)
                 fin : nat;      (* number of times it returned *)
                 wk : wpc }.
Definition jd : jrec := {| ent := 0; fin := 0; wk := WNone |}.

Inductive apc :=
| PGate (n : nat)                  (* Enqueue(n jobs) at the HoldLock entry *)
| PRet (q r : nat)                 (* Enqueue returned (queued, running) *)
| IGate (n0 : nat)                 (* WaitIdle at the HoldLock entry; n0 = number of jobs enqueued when it was called *)
| IWait (n0 ch : nat)              (* WaitIdle blocked in select on wait channel ch *)
| IRet (n0 : nat) (r : res)        (* WaitIdle returned *)
| SGate                            (* WatchState at the HoldLock entry *)
| SCb (ch q r : nat)               (* WatchState inside the callback cb(q, r), holding wait channel ch *)
| SWait (ch : nat)                 (* WatchState blocked in select *)
| SRet (r : res).                  (* WatchState returned *)

Record actor := { pc : apc;
                  canc : bool;          (* its context is cancelled *)
                  ehas : bool;          (* errCh is non-nil *)
                  ebuf : list bool;     (* values buffered in errCh: true = non-nil error *)
                  eclosed : bool }.     (* errCh was closed *)
Definition mkact (p : apc) (e : bool) : actor := {| pc := p; canc := false; ehas := e; ebuf := []; eclosed := false |}.

Record st := { b : bc; limit : Z; running : nat; queue : list nat; size : nat;
               jobs : list jrec; acts : list actor; entl : list nat }.

Inductive ev :=
| CallEnq (n : nat)                 (* Enqueue with n jobs, in a new actor *)
| CallIdle (haserr : bool)          (* WaitIdle(ctx, errCh) in a new actor *)
| CallWatch (hascb : bool)          (* WatchState(ctx, errCh, cb) in a new actor; cb = nil returns nil at once *)
| Sect (a : nat)                    (* API actor a runs its critical section *)
| WSect (w : nat)                   (* worker w runs the section of executeJob *)
| JobDone (w : nat)                 (* the job function worker w is in returns *)
| CbRet (a : nat) (o : nat)         (* the WatchState callback returns: 0 (true,nil)  1 (false,nil)  other: an error *)
| Wake (a : nat)                    (* blocked actor a sees its wait channel closed *)
| CancelCtx (a : nat)               (* the context of a is cancelled *)
| CancelWake (a : nat)              (* blocked actor a sees ctx.Done *)
| ErrSend (a : nat) (v : bool)      (* a value is put into a's errCh *)
| ErrClose (a : nat)                (* a's errCh is closed *)
| ErrWake (a : nat).                (* blocked WaitIdle a receives from errCh *)

Definition can_spawn (s : st) : bool := (limit s <=? 0)%Z || (Z.of_nat (running s) <? limit s)%Z.

(* one iteration of the loop in Enqueue *)
Definition enq1 (s : st) : st :=
  let j := length (jobs s) in
  if can_spawn s
  then {| b := b s; limit := limit s; running := S (running s); queue := queue s; size := size s;
          jobs := jobs s ++ [{| ent := 1; fin := 0; wk := WRun j |}]; acts := acts s; entl := entl s ++ [j] |}
  else {| b := b s; limit := limit s; running := running s; queue := queue s ++ [j]; size := S (size s);
          jobs := jobs s ++ [{| ent := 0; fin := 0; wk := WNone |}]; acts := acts s; entl := entl s |}.

Definition empty (lim : Z) : st :=
  {| b := bc0; limit := lim; running := 0; queue := []; size := 0; jobs := []; acts := []; entl := [] |}.

(* NewConcurrentQueue(lim, ninit elements): see init_two_phase below for the literal reading of the constructor *)
Definition init (lim : Z) (ninit : nat) : st := Nat.iter ninit enq1 (empty lim).

Definition upd {A} (l : list A) (k : nat) (f : A -> A) : list A :=
  match nth_error l k with Some x => set_nth l k (f x) | None => l end.

Definition setwk (p : wpc) (r : jrec) : jrec := {| ent := ent r; fin := fin r; wk := p |}.
Definition bump_ent (r : jrec) : jrec := {| ent := S (ent r); fin := fin r; wk := wk r |}.
Definition bump_fin (r : jrec) : jrec := {| ent := ent r; fin := S (fin r); wk := wk r |}.
Definition setpc (p : apc) (x : actor) : actor :=
  {| pc := p; canc := canc x; ehas := ehas x; ebuf := ebuf x; eclosed := eclosed x |}.

(* the literal constructor: push every element, then updateLocked pops while a goroutine may be spawned *)
Definition upd1 (s : st) : st :=
  match queue s with
  | [] => s
  | h :: t =>
    if can_spawn s
    then {| b := bcast (b s); limit := limit s; running := S (running s); queue := t; size := pred (size s);
            jobs := upd (upd (jobs s) h (setwk (WRun h))) h bump_ent; acts := acts s; entl := entl s ++ [h] |}
    else s
  end.
Definition init_two_phase (lim : Z) (ninit : nat) : st :=
  Nat.iter ninit upd1
    {| b := bc0; limit := lim; running := 0; queue := seq 0 ninit; size := ninit;
       jobs := repeat jd ninit; acts := []; entl := [] |}.

Definition idle (s : st) : bool := Nat.eqb (running s) 0 && Nat.eqb (size s) 0.

Definition with_acts (s : st) (l : list actor) : st :=
  {| b := b s; limit := limit s; running := running s; queue := queue s; size := size s;
     jobs := jobs s; acts := l; entl := entl s |}.
Definition with_b_acts (s : st) (b' : bc) (l : list actor) : st :=
  {| b := b'; limit := limit s; running := running s; queue := queue s; size := size s;
     jobs := jobs s; acts := l; entl := entl s |}.
Definition with_jobs (s : st) (l : list jrec) : st :=
  {| b := b s; limit := limit s; running := running s; queue := queue s; size := size s;
     jobs := l; acts := acts s; entl := entl s |}.

Definition step (s : st) (e : ev) : st :=
  match e with
  | CallEnq n => with_acts s (acts s ++ [mkact (PGate n) false])
  | CallIdle he => with_acts s (acts s ++ [mkact (IGate (length (jobs s))) he])
  | CallWatch hascb => with_acts s (acts s ++ [mkact (if hascb then SGate else SRet RNil) false])
  | Sect a =>
    match nth_error (acts s) a with
    | None => s
    | Some x =>
      match pc x with
      | PGate n =>
        let s1 := Nat.iter n enq1 s in
        with_b_acts s1 (if Nat.eqb n 0 then b s1 else bcast (b s1)) (upd (acts s1) a (setpc (PRet (size s1) (running s1))))
      | IGate n0 =>
        if idle s then with_acts s (upd (acts s) a (setpc (IRet n0 RNil)))
        else let '(b', ch) := getch (b s) in with_b_acts s b' (upd (acts s) a (setpc (IWait n0 ch)))
      | SGate =>
        let '(b', ch) := getch (b s) in with_b_acts s b' (upd (acts s) a (setpc (SCb ch (size s) (running s))))
      | _ => s
      end
    end
  | WSect w =>
    match wk (nth w (jobs s) jd) with
    | WGate =>
      match queue s with
      | [] => {| b := bcast (b s); limit := limit s; running := pred (running s); queue := []; size := size s;
                 jobs := upd (jobs s) w (setwk WExit); acts := acts s; entl := entl s |}
      | h :: t => {| b := b s; limit := limit s; running := running s; queue := t; size := pred (size s);
                     jobs := upd (upd (jobs s) w (setwk (WRun h))) h bump_ent; acts := acts s; entl := entl s ++ [h] |}
      end
    | _ => s
    end
  | JobDone w =>
    match wk (nth w (jobs s) jd) with
    | WRun j => with_jobs s (upd (upd (jobs s) w (setwk WGate)) j bump_fin)
    | _ => s
    end
  | CbRet a o =>
    match nth_error (acts s) a with
    | None => s
    | Some x =>
      match pc x with
      | SCb ch _ _ => with_acts s (upd (acts s) a (setpc (match o with 0 => SWait ch | 1 => SRet RNil | _ => SRet RErr end)))
      | _ => s
      end
    end
  | Wake a =>
    match nth_error (acts s) a with
    | None => s
    | Some x =>
      match pc x with
      | IWait n0 ch => if closed (b s) ch then with_acts s (upd (acts s) a (setpc (IGate n0))) else s
      | SWait ch => if closed (b s) ch then with_acts s (upd (acts s) a (setpc SGate)) else s
      | _ => s
      end
    end
  | CancelCtx a =>
    with_acts s (upd (acts s) a (fun x => {| pc := pc x; canc := true; ehas := ehas x; ebuf := ebuf x; eclosed := eclosed x |}))
  | CancelWake a =>
    match nth_error (acts s) a with
    | None => s
    | Some x =>
      if canc x then
        match pc x with
        | IWait n0 _ => with_acts s (upd (acts s) a (setpc (IRet n0 RCanceled)))
        | SWait _ => with_acts s (upd (acts s) a (setpc (SRet RCanceled)))
        | _ => s
        end
      else s
    end
  | ErrSend a v =>
    with_acts s (upd (acts s) a (fun x => if ehas x && negb (eclosed x)
                                          then {| pc := pc x; canc := canc x; ehas := ehas x; ebuf := ebuf x ++ [v]; eclosed := eclosed x |}
                                          else x))
  | ErrClose a =>
    with_acts s (upd (acts s) a (fun x => if ehas x
                                          then {| pc := pc x; canc := canc x; ehas := ehas x; ebuf := ebuf x; eclosed := true |}
                                          else x))
  | ErrWake a =>
    match nth_error (acts s) a with
    | None => s
    | Some x =>
      match pc x with
      | IWait n0 _ =>
        match ebuf x with
        | v :: t => with_acts s (upd (acts s) a (fun x => {| pc := if v then IRet n0 RErr else IGate n0; canc := canc x; ehas := ehas x;
                                                              ebuf := t; eclosed := eclosed x |}))
        | [] => if eclosed x then with_acts s (upd (acts s) a (setpc (IRet n0 RCanceled))) else s
        end
      | _ => s
      end
    end
  end.

Definition run (lim : Z) (ninit : nat) (es : list ev) : st := fold_left step es (init lim ninit).

(* ---- derived notions used by the statements ---- *)
Definition runs (j : nat) (r : jrec) : bool := match wk r with WRun j' => Nat.eqb j j' | _ => false end.
Definition in_user (r : jrec) : bool := match wk r with WRun _ => true | _ => false end.
Definition wactive (r : jrec) : bool := match wk r with WRun _ | WGate => true | _ => false end.
Definition at_wgate (r : jrec) : bool := match wk r with WGate => true | _ => false end.

Definition at_gate (x : actor) : bool := match pc x with PGate _ | IGate _ | SGate => true | _ => false end.
Definition idle_blocked (x : actor) : bool := match pc x with IWait _ _ => true | _ => false end.

(* no internal step is enabled: nobody at a gate, no blocked actor with a ready select case.
   (Job functions and callbacks in progress are the environment's.) *)
Definition quiescent (s : st) : bool :=
  forallb (fun x => negb (at_gate x) &&
                    match pc x with
                    | IWait _ ch => negb (closed (b s) ch) && negb (canc x) && match ebuf x with [] => negb (eclosed x) | _ => false end
                    | SWait ch => negb (closed (b s) ch) && negb (canc x)
                    | _ => true
                    end) (acts s)
  && forallb (fun r => negb (at_wgate r)) (jobs s).
