(* conc.ConcurrentQueue: codec between harness histories and model events, the eager schedule the harness realises,
   the observation vector, and the monitors of C18 on observed traces.

   Config   [neg; abs; ninit]   maxConcurrency = (if neg = 1 then -abs else abs), ninit initial elements.
   Events   [1; n]     Enqueue(n jobs) in a new actor (parks at the HoldLock gate)
            [2; k]     WaitIdle(ctx, errCh) in a new actor; k = 1: errCh non-nil (buffered), 0: nil
            [3; k]     WatchState(ctx, nil, cb) in a new actor; k = 1: cb non-nil, 0: nil
            [4; a]     API actor a (at a gate) runs its critical section
            [5; w]     worker w (the executeJob goroutine spawned for job w, at its gate) runs its section
            [6; w]     the job function worker w is in returns
            [7; a; o]  the WatchState callback of a returns  o = 0 (true,nil) 1 (false,nil) 2 (false,err) 3 (true,err)
            [8; a]     cancel the context of a
            [9; a; v]  send v (0 nil, 1 an error) on a's errCh        [10; a]  close a's errCh
   Observation  [na; nj] ++ per API actor [code; x; y] ++ per job [entered; returned; worker]
            code  1 at a gate, 2 blocked in select, 3 inside the WatchState callback with arguments (x, y),
                  4 returned nil, 5 returned context.Canceled, 6 returned the error it was given (errCh value / callback
                  error), 7 Enqueue returned (x, y); never produced by the model: 9 panicked, 11 returned
                  context.DeadlineExceeded, 12 returned the cause of its context (hctx.ErrCause), 13 returned any other error.
                  The contexts handed to WaitIdle / WatchState are plain, deadline-like or cancelled-with-a-cause in turn
                  (harness/hctx, chosen from the number of context-taking calls so far); the code returns the literal
                  context.Canceled for all of them, so the flavour is not part of the event
            worker (goroutine spawned for this job)  0 none, 1 at its gate, 8 returned, 10 + j inside the function of job j *)
From Util Require Import Common.Base Common.ListLemmas Conc.Model.

Definition lim_of (cfg : list N) : Z :=
  match cfg with
  | neg :: a :: _ => if N.eqb neg 1 then (- Z.of_N a)%Z else Z.of_N a
  | _ => 0%Z
  end.
Definition ninit_of (cfg : list N) : nat := match cfg with _ :: _ :: n :: _ => N.to_nat n | _ => 0 end.
Definition hinit (cfg : list N) : st := init (lim_of cfg) (ninit_of cfg).

(* every blocked actor whose wait channel is closed wakes up and runs to its gate *)
Definition settle (s : st) : st := fold_left (fun s a => step s (Wake a)) (seq 0 (length (acts s))) s.
(* actor a has just reached its select: ready cases fire (the harness never makes two of them ready at once) *)
Definition after (s : st) (a : nat) : st := step (step (step s (CancelWake a)) (ErrWake a)) (Wake a).

Definition t1 (p : N * N * N) : N := fst (fst p).
Definition t2 (p : N * N * N) : N := snd (fst p).
Definition t3 (p : N * N * N) : N := snd p.
Definition untriple (p : N * N * N) : list N := [t1 p; t2 p; t3 p].

Definition code_res (r : res) : N := match r with RNil => 4 | RCanceled => 5 | RErr => 6 end%N.
Definition atrip (x : actor) : N * N * N :=
  match pc x with
  | PGate _ | IGate _ | SGate => (1, 0, 0)
  | IWait _ _ | SWait _ => (2, 0, 0)
  | SCb _ q r => (3, N.of_nat q, N.of_nat r)
  | IRet _ r | SRet r => (code_res r, 0, 0)
  | PRet q r => (7, N.of_nat q, N.of_nat r)
  end%N.
Definition code_actor (x : actor) : list N := untriple (atrip x).
Definition code_wk (p : wpc) : N :=
  match p with WNone => 0 | WGate => 1 | WExit => 8 | WRun j => 10 + N.of_nat j end%N.
Definition jtrip (r : jrec) : N * N * N := (N.of_nat (ent r), N.of_nat (fin r), code_wk (wk r)).
Definition code_job (r : jrec) : list N := untriple (jtrip r).

Definition obs (s : st) : list N :=
  [N.of_nat (length (acts s)); N.of_nat (length (jobs s))] ++ flat_map code_actor (acts s) ++ flat_map code_job (jobs s).

Definition is_waiter (p : apc) : bool := match p with PGate _ | PRet _ _ => false | _ => true end.
Definition is_idle_call (p : apc) : bool := match p with IGate _ | IWait _ _ | IRet _ _ => true | _ => false end.
Definition in_cb (p : apc) : bool := match p with SCb _ _ _ => true | _ => false end.

(* decoded harness events *)
Inductive hev :=
| HEnq (n : nat) | HIdle (k : bool) | HWatch (k : bool) | HSect (a : nat) | HWSect (w : nat) | HDone (w : nat)
| HCb (a o : nat) | HCancel (a : nat) | HErr (a : nat) (v : bool) | HClose (a : nat).

Definition decode (e : list N) : option hev :=
  match e with
  | [1; n] => if N.leb n 64 then Some (HEnq (N.to_nat n)) else None
  | [2; k] => Some (HIdle (N.eqb k 1))
  | [3; k] => Some (HWatch (N.eqb k 1))
  | [4; a] => Some (HSect (N.to_nat a))
  | [5; w] => Some (HWSect (N.to_nat w))
  | [6; w] => Some (HDone (N.to_nat w))
  | [7; a; o] => if N.leb o 3 then Some (HCb (N.to_nat a) (N.to_nat o)) else None
  | [8; a] => Some (HCancel (N.to_nat a))
  | [9; a; v] => if N.leb v 1 then Some (HErr (N.to_nat a) (N.eqb v 1)) else None
  | [10; a] => Some (HClose (N.to_nat a))
  | _ => None
  end%N.

(* the model steps of one harness event; None = the implementation could not have produced it now *)
Definition hstep1 (s : st) (h : hev) : option st :=
  match h with
  | HEnq n => Some (step s (CallEnq n))
  | HIdle k => Some (step s (CallIdle k))
  | HWatch k => Some (step s (CallWatch k))
  | HSect a =>
    match nth_error (acts s) a with
    | Some x => if at_gate x then Some (after (step s (Sect a)) a) else None
    | None => None
    end
  | HWSect w => if at_wgate (nth w (jobs s) jd) then Some (step s (WSect w)) else None
  | HDone w => if in_user (nth w (jobs s) jd) then Some (step s (JobDone w)) else None
  | HCb a o =>
    match nth_error (acts s) a with
    | Some x => if in_cb (pc x) then Some (after (step s (CbRet a o)) a) else None
    | None => None
    end
  | HCancel a =>
    match nth_error (acts s) a with
    | Some x => if is_waiter (pc x) then Some (step (step s (CancelCtx a)) (CancelWake a)) else None
    | None => None
    end
  | HErr a v =>
    match nth_error (acts s) a with
    | Some x => if is_idle_call (pc x) && ehas x && negb (eclosed x)
                then Some (step (step s (ErrSend a v)) (ErrWake a)) else None
    | None => None
    end
  | HClose a =>
    match nth_error (acts s) a with
    | Some x => if is_idle_call (pc x) && ehas x && negb (eclosed x)
                then Some (step (step s (ErrClose a)) (ErrWake a)) else None
    | None => None
    end
  end.

Definition hstep (s : st) (e : list N) : option (st * list N) :=
  match decode e with
  | Some h => match hstep1 s h with
              | Some s1 => let s' := settle s1 in Some (s', obs s')
              | None => None
              end
  | None => None
  end.

(* ---------------- monitors: clauses of property 18 on the implementation's observations only ----------------
   clause 1  jobs inside their function <= limit (limit > 0)
   clause 2  no job function entered more than once
   clause 3  at a quiescent point with no job inside its function, every enqueued job was entered (exactly once)
   clause 4  limit = 1: the jobs entered so far are an initial segment of the enqueue order
   clause 5  every (queued, running) returned by Enqueue or passed to the WatchState callback: queued > 0 -> there is a limit
             (limit > 0) and running = limit.  "For every limit (including unlimited)": a queue without limit (maxConcurrency <= 0)
             has no limit that running could equal, so it never reports queued > 0 (it starts every job at once)
   clause 6  WaitIdle returned nil -> every job enqueued before it was called has returned
   clause 7  at a quiescent point with every enqueued job returned, no WaitIdle is blocked *)
Record mst := { mlim : Z;
                mkinds : list (N * nat);   (* per API actor: kind (1 Enqueue, 2 WaitIdle, 3 WatchState), jobs enqueued at its call *)
                mnj : nat }.               (* number of jobs enqueued so far *)
Definition minit (cfg : list N) : mst := {| mlim := lim_of cfg; mkinds := []; mnj := ninit_of cfg |}.

Fixpoint triples (l : list N) : list (N * N * N) :=
  match l with
  | x :: y :: z :: t => (x, y, z) :: triples t
  | _ => []
  end.

(* no true after a false *)
Fixpoint prefix_closed (l : list bool) : bool :=
  match l with
  | [] => true
  | true :: t => prefix_closed t
  | false :: t => forallb negb t
  end.

(* the clauses on the decoded observation: limit, per API actor (kind, jobs enqueued at its call) and triple, per job triple *)
Definition exec_of (jl : list (N * N * N)) : N := fold_right (fun p acc => (t1 p - t2 p + acc)%N) 0%N jl.
Definition quiet_of (al jl : list (N * N * N)) : bool :=
  forallb (fun p => negb (N.eqb (t1 p) 1)) al && forallb (fun p => negb (N.eqb (t3 p) 1)) jl.
Definition allfin_of (jl : list (N * N * N)) : bool := forallb (fun p => N.leb 1 (t2 p)) jl.

Definition cl1 (lim : Z) (jl : list (N * N * N)) : bool :=
  if (0 <? lim)%Z then (Z.of_N (exec_of jl) <=? lim)%Z else true.
Definition cl2 (jl : list (N * N * N)) : bool := forallb (fun p => N.leb (t1 p) 1) jl.
Definition cl3 (al jl : list (N * N * N)) : bool :=
  if quiet_of al jl && N.eqb (exec_of jl) 0 then forallb (fun p => N.eqb (t1 p) 1) jl else true.
Definition cl4 (lim : Z) (jl : list (N * N * N)) : bool :=
  if (lim =? 1)%Z then prefix_closed (map (fun p => N.leb 1 (t1 p)) jl) else true.
Definition cl5 (lim : Z) (al : list (N * N * N)) : bool :=
  forallb (fun p => if N.eqb (t1 p) 7 || N.eqb (t1 p) 3
                    then (if N.ltb 0 (t2 p) then (0 <? lim)%Z && (Z.of_N (t3 p) =? lim)%Z else true) else true) al.
Definition cl6 (ka : list ((N * nat) * (N * N * N))) (jl : list (N * N * N)) : bool :=
  forallb (fun kp : (N * nat) * (N * N * N) =>
             if N.eqb (fst (fst kp)) 2 && N.eqb (t1 (snd kp)) 4
             then forallb (fun p => N.leb 1 (t2 p)) (firstn (snd (fst kp)) jl) else true) ka.
Definition cl7 (ka : list ((N * nat) * (N * N * N))) (al jl : list (N * N * N)) : bool :=
  if quiet_of al jl && allfin_of jl
  then forallb (fun kp : (N * nat) * (N * N * N) => negb (N.eqb (fst (fst kp)) 2 && N.eqb (t1 (snd kp)) 2)) ka
  else true.

Definition clauses (lim : Z) (kinds : list (N * nat)) (al jl : list (N * N * N)) : list (nat * nat) :=
  let ka := combine kinds al in
  (if cl1 lim jl then [] else [(18, 1)]) ++ (if cl2 jl then [] else [(18, 2)]) ++ (if cl3 al jl then [] else [(18, 3)]) ++
  (if cl4 lim jl then [] else [(18, 4)]) ++ (if cl5 lim al then [] else [(18, 5)]) ++ (if cl6 ka jl then [] else [(18, 6)]) ++
  (if cl7 ka al jl then [] else [(18, 7)]).

Definition kinds_after (m : mst) (e : list N) : list (N * nat) :=
  match decode e with
  | Some (HEnq _) => mkinds m ++ [(1%N, 0)]
  | Some (HIdle _) => mkinds m ++ [(2%N, mnj m)]
  | Some (HWatch _) => mkinds m ++ [(3%N, 0)]
  | _ => mkinds m
  end.

Definition mon (m : mst) (e o : list N) : mst * list (nat * nat) :=
  let kinds := kinds_after m e in
  match o with
  | na :: nj :: rest =>
    let na' := N.to_nat na in
    let al := triples (firstn (3 * na') rest) in
    let jl := triples (skipn (3 * na') rest) in
    ({| mlim := mlim m; mkinds := kinds; mnj := N.to_nat nj |}, clauses (mlim m) kinds al jl)
  | _ => ({| mlim := mlim m; mkinds := kinds; mnj := mnj m |}, [])
  end.

Definition run_check_conc (cfg : list N) (evs obss : list (list N)) : list issue :=
  run_check hstep mon (hinit cfg) (minit cfg) evs obss.
