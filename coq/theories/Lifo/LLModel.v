(* linkedlist.LinkedList (C12): a singly linked list with head and tail pointers, every method one
   critical section of l.mtx.

   /repo/linkedlist/linkedlist.go (each under l.mtx):
     pushElem(v): elem := &cell{val: v}; if tail == nil { head = elem } else { tail.next = elem }; tail = elem
     PushFront(v): elem := &cell{val: v}; if head != nil { elem.next = head } else { tail = elem }; head = elem
     Pop(): exists := head != nil; if exists { val = head.val;
              if head.next != nil { head = head.next } else { head = nil; tail = nil } }
     Peek(): head != nil ? head.val      PeekTail(): tail != nil ? tail.val
     IsEmpty(): head == nil              Reset(): head, tail = nil, nil

   The pointer structure is modelled as it is (a heap of cells with a mutable next field, addresses are
   indices, allocation appends, no reuse: the garbage-collector assumption).  The list it represents is
   a THEOREM (LLProofs.v), not part of the state.

   One actor per API call: [LCall o] invokes (the caller is about to take the mutex), [LStep a] is the
   whole critical section of actor a (its linearization point), [LRet a] the return to the caller.  The
   mutex makes the critical sections atomic; this is the only use of the mutex in the model (trusted:
   Go's sync.RWMutex).  step is total.  No proofs in this file. *)
From Util Require Import Common.Base Common.ListLemmas.

Definition caddr := nat.
Record cell := { cval : N; cnext : option caddr }.

Inductive dop := DPush (v : N) | DPushFront (v : N) | DPop | DPeek | DPeekTail | DIsEmpty | DReset.
(* result of a call: (value, flag).  Push/PushFront/Reset: (0,false); Pop/Peek/PeekTail: (val, exists);
   IsEmpty: (0, empty) *)
Definition dret := (N * bool)%type.

Inductive lpc := LCalled (o : dop) | LRetp (r : dret) | LDone (r : dret).

Record llst := { lheap : list cell; lhead : option caddr; ltail : option caddr; lacts : list lpc }.
Inductive llev := LCall (o : dop) | LStep (a : nat) | LRet (a : nat).

Definition llinit : llst := {| lheap := []; lhead := None; ltail := None; lacts := [] |}.

Definition cval_at (h : list cell) (p : option caddr) : option N :=
  match p with
  | Some a => match nth_error h a with Some c => Some (cval c) | None => None end
  | None => None
  end.

(* the body of one method on the pointer structure: new (heap, head, tail) and the result *)
Definition lmethod (h : list cell) (hd tl : option caddr) (o : dop)
  : list cell * option caddr * option caddr * dret :=
  match o with
  | DPush v =>
    let e := length h in
    let h1 := h ++ [{| cval := v; cnext := None |}] in
    match tl with
    | None => (h1, Some e, Some e, (0%N, false))
    | Some t =>
      match nth_error h t with
      | Some c => (set_nth h1 t {| cval := cval c; cnext := Some e |}, hd, Some e, (0%N, false))
      | None => (h1, hd, Some e, (0%N, false))      (* dangling tail: excluded by the invariant *)
      end
    end
  | DPushFront v =>
    let e := length h in
    match hd with
    | Some a => (h ++ [{| cval := v; cnext := Some a |}], Some e, tl, (0%N, false))
    | None => (h ++ [{| cval := v; cnext := None |}], Some e, Some e, (0%N, false))
    end
  | DPop =>
    match hd with
    | None => (h, hd, tl, (0%N, false))
    | Some a =>
      match nth_error h a with
      | Some c =>
        match cnext c with
        | Some n => (h, Some n, tl, (cval c, true))
        | None => (h, None, None, (cval c, true))
        end
      | None => (h, hd, tl, (0%N, true))             (* dangling head: excluded by the invariant *)
      end
    end
  | DPeek =>
    match hd with
    | None => (h, hd, tl, (0%N, false))
    | Some a => (h, hd, tl, (match nth_error h a with Some c => cval c | None => 0%N end, true))
    end
  | DPeekTail =>
    match tl with
    | None => (h, hd, tl, (0%N, false))
    | Some a => (h, hd, tl, (match nth_error h a with Some c => cval c | None => 0%N end, true))
    end
  | DIsEmpty => (h, hd, tl, (0%N, match hd with None => true | Some _ => false end))
  | DReset => (h, None, None, (0%N, false))
  end.

Definition llstep (s : llst) (e : llev) : llst :=
  match e with
  | LCall o => {| lheap := lheap s; lhead := lhead s; ltail := ltail s; lacts := lacts s ++ [LCalled o] |}
  | LStep a =>
    match nth_error (lacts s) a with
    | Some (LCalled o) =>
      match lmethod (lheap s) (lhead s) (ltail s) o with
      | (h', hd', tl', r) => {| lheap := h'; lhead := hd'; ltail := tl'; lacts := set_nth (lacts s) a (LRetp r) |}
      end
    | _ => s
    end
  | LRet a =>
    match nth_error (lacts s) a with
    | Some (LRetp r) => {| lheap := lheap s; lhead := lhead s; ltail := ltail s; lacts := set_nth (lacts s) a (LDone r) |}
    | _ => s
    end
  end.

Definition llrun (es : list llev) : llst := fold_left llstep es llinit.

(* values reachable from head (fuel = heap size suffices) *)
Fixpoint cwalk (fuel : nat) (h : list cell) (p : option caddr) : list N :=
  match fuel, p with
  | S f, Some a => match nth_error h a with
                   | Some c => cval c :: cwalk f h (cnext c)
                   | None => []
                   end
  | _, _ => []
  end.
Definition labs (s : llst) : list N := cwalk (length (lheap s)) (lheap s) (lhead s).

(* sequential specification: a double-ended queue of values, head first *)
Definition dseq (l : list N) (o : dop) : list N * dret :=
  match o with
  | DPush v => (l ++ [v], (0%N, false))
  | DPushFront v => (v :: l, (0%N, false))
  | DPop => match l with [] => ([], (0%N, false)) | x :: t => (t, (x, true)) end
  | DPeek => match l with [] => (l, (0%N, false)) | x :: _ => (l, (x, true)) end
  | DPeekTail => match l with [] => (l, (0%N, false)) | _ => (l, (last l 0%N, true)) end
  | DIsEmpty => (l, (0%N, match l with [] => true | _ => false end))
  | DReset => ([], (0%N, false))
  end.
