(* ProofsMon.v -- monitor-side half of "the lifo model satisfies its monitors" (C12, Spec.lmon).

   A WITNESS for an operation table [all] (the monitor's m_ops ++ m_drain) is a list L of its completed
   operations, ordered by response time, that is a legal sequential LIFO execution from the empty stack
   ending in the stack [stk] (Wit).  From a witness alone (no model in sight) every clause of lmon is
   silent:
     clause 1  the search lin_search accepts           (clause1_ok, via Proofs.linearizable_lifo_correct)
     clause 2  no Pop that returned zero is "bad"      (clause2_ok, counting: completed pushes = non-zero pops + |stk|)
     clause 3  nothing lost at a drain (stk = [])      (clause3_ok)
     clause 4  nothing popped that was not pushed      (clause4_ok)
   ProofsMon2.v shows that the model maintains a witness whose final stack is the abstract stack. *)
From Coq Require Import Permutation.
From Util Require Import Common.Base Common.ListLemmas Lifo.Model Lifo.Spec Lifo.Proofs.

(* ------------------------------------------------------------------ *)
(* small list facts *)
Lemma remove1_in' x : forall b, In x b -> exists b', remove1 x b = Some b' /\ Permutation b (x :: b').
Proof.
  induction b as [|y b IH]; intros Hin; [destruct Hin|]. cbn [remove1].
  destruct (N.eqb_spec x y) as [->|Hne].
  - exists b. split; [reflexivity | apply Permutation_refl].
  - destruct Hin as [->|Hin]; [congruence|]. destruct (IH Hin) as [b' [Hr Hp]]. rewrite Hr.
    exists (y :: b'). split; [reflexivity|]. eapply Permutation_trans; [apply perm_skip; exact Hp | apply perm_swap].
Qed.

Lemma msub_count : forall a b,
  (forall v, count_occ N.eq_dec a v <= count_occ N.eq_dec b v) -> msub a b = true.
Proof.
  induction a as [|x a IH]; intros b Hc; [reflexivity|]. cbn [msub].
  assert (Hin : In x b).
  { apply (count_occ_In N.eq_dec). specialize (Hc x). rewrite count_occ_cons_eq in Hc by reflexivity. lia. }
  destruct (remove1_in' x b Hin) as [b' [Hr Hp]]. rewrite Hr. apply IH. intros v.
  pose proof (proj1 (Permutation_count_occ N.eq_dec b (x :: b')) Hp v) as E.
  specialize (Hc v). rewrite E in Hc. rewrite !count_occ_cons_b in Hc. lia.
Qed.

Lemma mdiff_msub : forall a b, msub a b = true -> mdiff a b = 0.
Proof.
  induction a as [|x a IH]; intros b H; [reflexivity|]. cbn [msub mdiff] in *.
  destruct (remove1 x b) as [b'|]; [now apply IH | discriminate].
Qed.

Lemma filter_idem {A} (f : A -> bool) l : filter f (filter f l) = filter f l.
Proof.
  induction l as [|x l IH]; [reflexivity|]. cbn [filter]. destruct (f x) eqn:E; [|exact IH].
  cbn [filter]. now rewrite E, IH.
Qed.

Lemma filter_neg_nil {A} (f : A -> bool) l : filter f (filter (fun x => negb (f x)) l) = [].
Proof.
  induction l as [|x l IH]; [reflexivity|]. cbn [filter]. destruct (f x) eqn:E; cbn [negb]; [exact IH|].
  cbn [filter]. now rewrite E.
Qed.

Lemma filter_all {A} (f : A -> bool) l : (forall x, In x l -> f x = true) -> filter f l = l.
Proof.
  induction l as [|x l IH]; intros H; [reflexivity|]. cbn [filter]. rewrite (H x (or_introl eq_refl)).
  f_equal. apply IH. intros y Hy. apply H. now right.
Qed.

Lemma filter_len_le {A} (f g : A -> bool) l :
  (forall x, In x l -> f x = true -> g x = true) -> length (filter f l) <= length (filter g l).
Proof.
  induction l as [|x l IH]; intros H; [apply le_n|]. cbn [filter].
  assert (IH' : length (filter f l) <= length (filter g l)) by (apply IH; intros y Hy; apply H; now right).
  destruct (f x) eqn:Ef.
  - rewrite (H x (or_introl eq_refl) Ef). cbn [length]. lia.
  - destruct (g x); cbn [length]; lia.
Qed.

Lemma count_b_map {A} (f : A -> bool) l : count_b (map f l) = length (filter f l).
Proof.
  unfold count_b. induction l as [|x l IH]; [reflexivity|]. cbn [map filter].
  destruct (f x); cbn [length]; now rewrite IH.
Qed.

Lemma picks_mid {A} (x : A) l2 : forall l1, In (x, l1 ++ l2) (picks (l1 ++ x :: l2)).
Proof.
  induction l1 as [|y l1 IH]; cbn [picks app]; [now left|]. right.
  apply in_map_iff. exists (x, l1 ++ l2). split; [reflexivity | exact IH].
Qed.

Lemma in_set_nth {A} (x c : A) : forall l i, In x (set_nth l i c) -> x = c \/ In x l.
Proof.
  induction l as [|y l IH]; intros i H; [destruct H|]. destruct i as [|i]; cbn [set_nth] in H.
  - destruct H as [<-|H]; [now left | right; now right].
  - destruct H as [<-|H]; [right; now left|]. destruct (IH i H) as [->|Hin]; [now left | right; now right].
Qed.

Lemma set_nth_same_id {A} (x : A) : forall l i, nth_error l i = Some x -> set_nth l i x = l.
Proof.
  induction l as [|y l IH]; intros i H; [reflexivity|]. destruct i as [|i]; cbn [set_nth nth_error] in *.
  - now inversion H.
  - f_equal. now apply IH.
Qed.

(* ------------------------------------------------------------------ *)
(* witnesses *)
Definition rt (o : mop) : nat := match mo_res o with Some (j, _) => j | None => 0 end.

Fixpoint replay_ops (stk : list N) (L : list mop) : option (list N) :=
  match L with
  | [] => Some stk
  | c :: L' => match apply_op c stk with Some stk' => replay_ops stk' L' | None => None end
  end.

Fixpoint sorted_rt (L : list mop) : Prop :=
  match L with
  | [] => True
  | c :: L' => (forall o, In o L' -> rt c <= rt o) /\ sorted_rt L'
  end.

Record Wit (all L : list mop) (stk : list N) : Prop := {
  w_perm : Permutation L (filter completed all);
  w_sorted : sorted_rt L;
  w_inv : forall o, In o L -> mo_inv o < rt o;
  w_replay : replay_ops [] L = Some stk;
  w_nz : forall o, In o all -> mo_push o = true -> mo_val o <> 0%N
}.

Lemma replay_app L2 : forall L1 stk,
  replay_ops stk (L1 ++ L2) = match replay_ops stk L1 with Some s1 => replay_ops s1 L2 | None => None end.
Proof.
  induction L1 as [|c L1 IH]; intros stk; [reflexivity|]. cbn [app replay_ops].
  destruct (apply_op c stk); [apply IH | reflexivity].
Qed.

Lemma sorted_app L2 : forall L1, sorted_rt L1 -> sorted_rt L2 ->
  (forall a b, In a L1 -> In b L2 -> rt a <= rt b) -> sorted_rt (L1 ++ L2).
Proof.
  induction L1 as [|c L1 IH]; intros H1 H2 H12; [exact H2|]. cbn [app sorted_rt] in *.
  destruct H1 as [Hc H1]. split.
  - intros o Ho. apply in_app_or in Ho as [Ho|Ho]; [now apply Hc | apply H12; [now left | exact Ho]].
  - apply IH; [exact H1 | exact H2|]. intros a b Ha Hb. apply H12; [now right | exact Hb].
Qed.

Lemma wit_in_L all L stk o : Wit all L stk -> In o L -> In o all /\ completed o = true.
Proof.
  intros W Ho. apply (Permutation_in _ (w_perm _ _ _ W)) in Ho. now apply filter_In in Ho.
Qed.

(* ------------------------------------------------------------------ *)
(* clause 1: the operations in response order are a lin_ok witness *)
Lemma lin_ok_sorted : forall L stk stk' todo,
  Permutation L (filter completed todo) -> sorted_rt L -> (forall o, In o L -> mo_inv o < rt o) ->
  replay_ops stk L = Some stk' -> lin_ok stk todo.
Proof.
  induction L as [|c L IH]; intros stk stk' todo Hp Hs Hi Hr.
  - apply lin_done. intros o Ho. apply Permutation_nil in Hp. destruct (completed o) eqn:E; [|reflexivity].
    assert (Hin : In o (filter completed todo)) by (apply filter_In; now split). rewrite Hp in Hin. destruct Hin.
  - cbn [replay_ops] in Hr. destruct (apply_op c stk) as [stk1|] eqn:Ea; [|discriminate].
    assert (Hc : In c (filter completed todo)) by (eapply Permutation_in; [exact Hp | now left]).
    apply filter_In in Hc as [Hct Hcc]. apply in_split in Hct as [l1 [l2 ->]].
    apply (lin_pick stk _ c (l1 ++ l2) stk1).
    + apply picks_mid.
    + unfold minimal. apply forallb_forall. intros o' Ho'.
      destruct (mo_res o') as [[j r]|] eqn:Er; [|reflexivity].
      apply negb_true_iff, Nat.ltb_ge.
      assert (Hin : In o' (c :: L)).
      { eapply Permutation_in; [apply Permutation_sym; exact Hp|]. apply filter_In. split; [exact Ho'|].
        unfold completed. now rewrite Er. }
      assert (Hj : rt o' = j) by (unfold rt; now rewrite Er).
      pose proof (Hi c (or_introl eq_refl)) as Hic.
      destruct Hin as [<-|Hin]; [lia|]. destruct Hs as [Hle _]. specialize (Hle _ Hin). lia.
    + exact Ea.
    + apply (IH stk1 stk').
      * rewrite filter_app in Hp |- *. cbn [filter] in Hp. rewrite Hcc in Hp.
        now apply Permutation_cons_app_inv in Hp.
      * apply Hs.
      * intros o Ho. apply Hi. now right.
      * exact Hr.
Qed.

Lemma clause1_ok all L stk : Wit all L stk -> linearizable_lifo all = true.
Proof.
  intros W. apply linearizable_lifo_correct.
  apply (lin_ok_sorted L [] stk).
  - rewrite filter_app, filter_idem, filter_neg_nil, app_nil_r. apply (w_perm _ _ _ W).
  - apply (w_sorted _ _ _ W).
  - apply (w_inv _ _ _ W).
  - apply (w_replay _ _ _ W).
Qed.

(* ------------------------------------------------------------------ *)
(* counting along a legal sequential execution *)
Definition nz (v : N) : Prop := v <> 0%N.

Definition pcf (o : mop) : list N := if mo_push o && completed o then [mo_val o] else [].
Definition pvf (o : mop) : list N :=
  if mo_push o then [] else match mo_res o with Some (_, r) => if N.eqb r 0 then [] else [r] | None => [] end.

Lemma pc_cons c l : pushed_completed (c :: l) = pcf c ++ pushed_completed l.
Proof. unfold pushed_completed, pcf. cbn [filter]. destruct (mo_push c && completed c); reflexivity. Qed.
Lemma pv_cons c l : popped_vals (c :: l) = pvf c ++ popped_vals l.
Proof. reflexivity. Qed.
Lemma pc_flat l : pushed_completed l = flat_map pcf l.
Proof. induction l as [|c l IH]; [reflexivity|]. rewrite pc_cons. cbn [flat_map]. now rewrite IH. Qed.
Lemma pv_flat l : popped_vals l = flat_map pvf l.
Proof. reflexivity. Qed.

Lemma pc_filter l : pushed_completed (filter completed l) = pushed_completed l.
Proof.
  induction l as [|c l IH]; [reflexivity|]. cbn [filter]. destruct (completed c) eqn:E.
  - now rewrite !pc_cons, IH.
  - rewrite pc_cons, IH. unfold pcf. rewrite E, andb_false_r. reflexivity.
Qed.
Lemma pv_filter l : popped_vals (filter completed l) = popped_vals l.
Proof.
  induction l as [|c l IH]; [reflexivity|]. cbn [filter]. destruct (completed c) eqn:E.
  - now rewrite !pv_cons, IH.
  - rewrite pv_cons, IH. unfold pvf. unfold completed in E. destruct (mo_res c); [discriminate|].
    destruct (mo_push c); reflexivity.
Qed.

Lemma replay_count : forall L stk stk', replay_ops stk L = Some stk' ->
  (forall o, In o L -> completed o = true) ->
  (forall o, In o L -> mo_push o = true -> mo_val o <> 0%N) -> Forall nz stk ->
  Forall nz stk' /\
  (forall v, count_occ N.eq_dec stk v + count_occ N.eq_dec (pushed_completed L) v =
             count_occ N.eq_dec (popped_vals L) v + count_occ N.eq_dec stk' v) /\
  length stk + length (pushed_completed L) = length (popped_vals L) + length stk'.
Proof.
  induction L as [|c L IH]; intros stk stk' Hr Hc Hv Hnz.
  - cbn [replay_ops] in Hr. inversion Hr; subst stk'. split; [exact Hnz|]. split; [intros v|]; cbn; lia.
  - cbn [replay_ops] in Hr. destruct (apply_op c stk) as [stk1|] eqn:Ea; [|discriminate].
    assert (Hc' : forall o, In o L -> completed o = true) by (intros o Ho; apply Hc; now right).
    assert (Hv' : forall o, In o L -> mo_push o = true -> mo_val o <> 0%N) by (intros o Ho; apply Hv; now right).
    pose proof (Hc c (or_introl eq_refl)) as Hcc.
    rewrite pc_cons, pv_cons. unfold pcf, pvf. rewrite Hcc.
    unfold apply_op in Ea. destruct (mo_push c) eqn:Ep; cbn [andb].
    + inversion Ea; subst stk1. clear Ea.
      assert (Hnz1 : Forall nz (mo_val c :: stk)).
      { constructor; [|exact Hnz]. apply (Hv c (or_introl eq_refl) Ep). }
      destruct (IH _ _ Hr Hc' Hv' Hnz1) as [N1 [C1 L1]]. split; [exact N1|]. split.
      * intros v. specialize (C1 v). cbn [app]. rewrite !count_occ_cons_b in *. lia.
      * cbn [app length] in *. lia.
    + unfold completed in Hcc. destruct (mo_res c) as [[j r]|]; [|discriminate].
      destruct stk as [|x t].
      * destruct (N.eqb r 0) eqn:Er; [|discriminate]. inversion Ea; subst stk1. clear Ea.
        destruct (IH _ _ Hr Hc' Hv' Hnz) as [N1 [C1 L1]]. split; [exact N1|]. split; [exact C1 | exact L1].
      * destruct (N.eqb_spec r x) as [Erx|]; [subst r|discriminate]. inversion Ea; subst stk1. clear Ea.
        inversion Hnz as [|x' t' Hx Ht]; subst.
        destruct (N.eqb_spec x 0) as [E0|_]; [contradiction|].
        destruct (IH _ _ Hr Hc' Hv' Ht) as [N1 [C1 L1]]. split; [exact N1|]. split.
        -- intros v. specialize (C1 v). cbn [app]. rewrite !count_occ_cons_b in *. lia.
        -- cbn [app length] in *. lia.
Qed.

Lemma wit_counts all L stk : Wit all L stk ->
  Forall nz stk /\
  (forall v, count_occ N.eq_dec (pushed_completed all) v =
             count_occ N.eq_dec (popped_vals all) v + count_occ N.eq_dec stk v) /\
  length (pushed_completed all) = length (popped_vals all) + length stk.
Proof.
  intros W.
  destruct (replay_count L [] stk (w_replay _ _ _ W)) as [N1 [C1 L1]].
  - intros o Ho. now destruct (wit_in_L _ _ _ _ W Ho).
  - intros o Ho. destruct (wit_in_L _ _ _ _ W Ho) as [Hin _]. now apply (w_nz _ _ _ W).
  - constructor.
  - assert (P1 : Permutation (pushed_completed L) (pushed_completed all)).
    { rewrite <- (pc_filter all), !pc_flat. apply Permutation_flat_map. apply (w_perm _ _ _ W). }
    assert (P2 : Permutation (popped_vals L) (popped_vals all)).
    { rewrite <- (pv_filter all), !pv_flat. apply Permutation_flat_map. apply (w_perm _ _ _ W). }
    split; [exact N1|]. split.
    + intros v. specialize (C1 v). cbn [count_occ] in C1.
      rewrite <- (proj1 (Permutation_count_occ N.eq_dec _ _) P1 v), <- (proj1 (Permutation_count_occ N.eq_dec _ _) P2 v). lia.
    + rewrite <- (Permutation_length P1), <- (Permutation_length P2). cbn [length] in L1. lia.
Qed.

Lemma pc_le_pi l v : count_occ N.eq_dec (pushed_completed l) v <= count_occ N.eq_dec (pushed_invoked l) v.
Proof.
  induction l as [|c l IH]; [apply le_n|]. rewrite pc_cons. unfold pcf, pushed_invoked in *. cbn [filter].
  destruct (mo_push c); cbn [andb map app].
  - destruct (completed c); cbn [app]; rewrite ?count_occ_cons_b; lia.
  - exact IH.
Qed.

Lemma clause4_ok all L stk : Wit all L stk -> msub (popped_vals all) (pushed_invoked all) = true.
Proof.
  intros W. destruct (wit_counts _ _ _ W) as [_ [C _]]. apply msub_count. intros v.
  pose proof (pc_le_pi all v). specialize (C v). lia.
Qed.

Lemma clause3_ok all L : Wit all L [] -> mdiff (pushed_completed all) (popped_vals all) = 0.
Proof.
  intros W. destruct (wit_counts _ _ _ W) as [_ [C _]]. apply mdiff_msub, msub_count. intros v.
  specialize (C v). cbn [count_occ] in C. lia.
Qed.

Lemma pv_length l :
  length (popped_vals l) =
  length (filter (fun p => negb (mo_push p) &&
                           match mo_res p with Some (_, rp) => negb (N.eqb rp 0) | None => false end) l).
Proof.
  induction l as [|c l IH]; [reflexivity|]. rewrite pv_cons, app_length, IH. cbn [filter]. unfold pvf.
  destruct (mo_push c); cbn [negb andb length]; [reflexivity|].
  destruct (mo_res c) as [[j r]|]; [|reflexivity]. destruct (N.eqb r 0); reflexivity.
Qed.

(* clause 2: a Pop that returned zero when the witness stack is empty and every recorded operation was
   invoked before its response cannot be "bad" *)
Lemma clause2_ok all L stk o : Wit all L stk ->
  (forall j, mo_push o = false -> mo_res o = Some (j, 0%N) ->
             stk = [] /\ forall p, In p all -> mo_inv p < j) ->
  zero_pop_bad all o = false.
Proof.
  intros W H. unfold zero_pop_bad. destruct (mo_res o) as [[j r]|] eqn:Er; [|reflexivity].
  destruct (mo_push o) eqn:Ep; [reflexivity|]. cbn [negb andb].
  destruct (N.eqb_spec r 0) as [->|]; [|reflexivity]. cbn [andb].
  destruct (H j eq_refl eq_refl) as [-> Hinv]. clear H.
  destruct (wit_counts _ _ _ W) as [_ [_ Len]]. cbn [length] in Len.
  apply Nat.ltb_ge. rewrite !count_b_map.
  etransitivity; [|etransitivity].
  2: { unfold pushed_completed in Len. rewrite map_length in Len. rewrite Nat.add_0_r in Len.
       rewrite pv_length in Len. apply Nat.eq_le_incl. exact Len. }
  - apply filter_len_le. intros p _ Hp. apply andb_true_iff in Hp as [-> Hp]. cbn [andb].
    unfold completed. destruct (mo_res p); [reflexivity | discriminate].
  - apply filter_len_le. intros p Hin Hp. apply andb_true_iff in Hp as [Hp1 Hp2]. rewrite Hp1. cbn [andb].
    specialize (Hinv p Hin). apply Nat.ltb_lt in Hinv. rewrite Hinv. cbn [andb].
    destruct (mo_res p) as [[jp rp]|]; [exact Hp2 | reflexivity].
Qed.

(* all clauses at once *)
Lemma witness_silences_clauses all L stk : Wit all L stk ->
  linearizable_lifo all = true /\
  msub (popped_vals all) (pushed_invoked all) = true /\
  (stk = [] -> mdiff (pushed_completed all) (popped_vals all) = 0) /\
  (forall o, (forall j, mo_push o = false -> mo_res o = Some (j, 0%N) ->
                        stk = [] /\ forall p, In p all -> mo_inv p < j) ->
             zero_pop_bad all o = false).
Proof.
  intros W. split; [exact (clause1_ok _ _ _ W)|]. split; [exact (clause4_ok _ _ _ W)|].
  split; [intros ->; exact (clause3_ok _ _ W) | intros o; exact (clause2_ok _ _ _ o W)].
Qed.

(* ------------------------------------------------------------------ *)
(* how a witness evolves *)
Definition times_ok (clk : nat) (all : list mop) : Prop :=
  forall o, In o all -> mo_inv o < clk /\ rt o < clk.

Lemma times_mono clk clk' all : clk <= clk' -> times_ok clk all -> times_ok clk' all.
Proof. intros Hle H o Ho. destruct (H o Ho). lia. Qed.

(* a call: one more pending operation *)
Lemma Wit_pending ops dr L stk op : completed op = false -> (mo_push op = true -> mo_val op <> 0%N) ->
  Wit (ops ++ dr) L stk -> Wit ((ops ++ [op]) ++ dr) L stk.
Proof.
  intros Hp Hv W. constructor.
  - rewrite !filter_app. cbn [filter]. rewrite Hp, app_nil_r. rewrite <- filter_app. apply (w_perm _ _ _ W).
  - apply (w_sorted _ _ _ W).
  - apply (w_inv _ _ _ W).
  - apply (w_replay _ _ _ W).
  - intros o Ho. apply in_app_or in Ho as [Ho|Ho].
    + apply in_app_or in Ho as [Ho|[<-|[]]]; [|exact Hv]. apply (w_nz _ _ _ W). apply in_or_app. now left.
    + apply (w_nz _ _ _ W). apply in_or_app. now right.
Qed.

Lemma filter_set_nth_perm (c op : mop) : forall l i, nth_error l i = Some op -> completed op = false -> completed c = true ->
  Permutation (filter completed (set_nth l i c)) (c :: filter completed l).
Proof.
  induction l as [|y l IH]; intros i Hn Hop Hc; [destruct i; discriminate|].
  destruct i as [|i]; cbn [nth_error set_nth filter] in *.
  - inversion Hn; subst y. rewrite Hop, Hc. apply Permutation_refl.
  - destruct (completed y).
    + eapply Permutation_trans; [apply perm_skip; apply (IH i Hn Hop Hc) | apply perm_swap].
    + now apply IH.
Qed.

(* an operation completes (now, later than everything recorded) *)
Lemma Wit_complete ops dr L stk stk' i op c :
  nth_error ops i = Some op -> completed op = false -> completed c = true ->
  mo_inv c < rt c -> (forall o, In o (ops ++ dr) -> rt o <= rt c) ->
  apply_op c stk = Some stk' -> (mo_push c = true -> mo_val c <> 0%N) ->
  Wit (ops ++ dr) L stk -> Wit (set_nth ops i c ++ dr) (L ++ [c]) stk'.
Proof.
  intros Hn Hop Hc Hic Hrt Ha Hv W. constructor.
  - rewrite filter_app. eapply Permutation_trans; [apply Permutation_sym, Permutation_cons_append|].
    eapply Permutation_trans; [apply perm_skip; apply (w_perm _ _ _ W)|]. rewrite filter_app.
    apply Permutation_sym. apply (Permutation_app_tail _ (filter_set_nth_perm c op ops i Hn Hop Hc)).
  - apply sorted_app; [apply (w_sorted _ _ _ W) | split; [intros o [] | exact I] |].
    intros a b Ha' [<-|[]]. apply Hrt. now destruct (wit_in_L _ _ _ _ W Ha').
  - intros o Ho. apply in_app_or in Ho as [Ho|[<-|[]]]; [now apply (w_inv _ _ _ W) | exact Hic].
  - rewrite replay_app, (w_replay _ _ _ W). cbn [replay_ops]. now rewrite Ha.
  - intros o Ho. apply in_app_or in Ho as [Ho|Ho].
    + apply in_set_nth in Ho as [->|Ho]; [exact Hv|]. apply (w_nz _ _ _ W). apply in_or_app. now left.
    + apply (w_nz _ _ _ W). apply in_or_app. now right.
Qed.

(* the pops of a drain *)
Lemma drain_ops_spec : forall ds k o, In o (drain_ops k ds true) ->
  mo_push o = false /\ completed o = true /\ k <= mo_inv o /\ mo_inv o < rt o /\ rt o <= k + 2 * length ds + 1 /\
  (forall j, mo_res o = Some (j, 0%N) -> Forall nz ds -> j = k + 2 * length ds + 1).
Proof.
  induction ds as [|d ds IH]; intros k o Hin; cbn [drain_ops] in Hin.
  - destruct Hin as [<-|[]]. unfold rt, completed. cbn [mo_push mo_res mo_inv length].
    repeat split; try lia. intros j E _. inversion E. lia.
  - destruct Hin as [<-|Hin].
    + unfold rt, completed. cbn [mo_push mo_res mo_inv length]. repeat split; try lia.
      intros j E Hnz. inversion E; subst. inversion Hnz as [|x t Hx Ht]; subst. now destruct Hx.
    + destruct (IH _ _ Hin) as [H1 [H2 [H3 [H4 [H5 H6]]]]]. cbn [length]. repeat split; try assumption; try lia.
      intros j E Hnz. inversion Hnz as [|x t Hx Ht]; subst. specialize (H6 j E Ht). lia.
Qed.

Lemma drain_ops_sorted : forall ds k, sorted_rt (drain_ops k ds true).
Proof.
  induction ds as [|d ds IH]; intros k; cbn [drain_ops sorted_rt].
  - split; [intros o [] | exact I].
  - split; [|apply IH]. intros o Ho. destruct (drain_ops_spec _ _ _ Ho) as [_ [_ [H3 [H4 _]]]].
    unfold rt at 1. cbn [mo_res]. lia.
Qed.

Lemma drain_ops_replay : forall stk k, replay_ops stk (drain_ops k stk true) = Some [].
Proof.
  induction stk as [|d t IH]; intros k; cbn [drain_ops replay_ops].
  - reflexivity.
  - unfold apply_op. cbn [mo_push mo_res]. rewrite N.eqb_refl. apply IH.
Qed.

Lemma Wit_drain ops dr L stk k : times_ok k (ops ++ dr) ->
  Wit (ops ++ dr) L stk -> Wit (ops ++ dr ++ drain_ops (S k) stk true) (L ++ drain_ops (S k) stk true) [].
Proof.
  intros Ht W. set (D := drain_ops (S k) stk true).
  assert (HD : forall o, In o D -> mo_push o = false /\ completed o = true /\ S k <= mo_inv o /\ mo_inv o < rt o).
  { intros o Ho. destruct (drain_ops_spec _ _ _ Ho) as [H1 [H2 [H3 [H4 _]]]]. auto. }
  constructor.
  - rewrite app_assoc, filter_app. rewrite (filter_all completed D) by (intros o Ho; now destruct (HD o Ho) as [_ [? _]]).
    apply Permutation_app_tail. apply (w_perm _ _ _ W).
  - apply sorted_app; [apply (w_sorted _ _ _ W) | apply drain_ops_sorted |].
    intros a b Ha Hb. destruct (wit_in_L _ _ _ _ W Ha) as [Hin _]. destruct (Ht a Hin) as [_ Hra].
    destruct (HD b Hb) as [_ [_ [H3 H4]]]. lia.
  - intros o Ho. apply in_app_or in Ho as [Ho|Ho]; [now apply (w_inv _ _ _ W) | now destruct (HD o Ho) as [_ [_ [_ ?]]]].
  - rewrite replay_app, (w_replay _ _ _ W). apply drain_ops_replay.
  - intros o Ho Hp. rewrite app_assoc in Ho. apply in_app_or in Ho as [Ho|Ho]; [now apply (w_nz _ _ _ W)|].
    destruct (HD o Ho) as [Hf _]. congruence.
Qed.
