(* LinkedList: codec, observations and the monitors of C12 (property 12) on observed traces.

   Config: f :: elems   f = 1 free-running stream, otherwise scheduled; elems = arguments of NewLinkedList.
   Events (every call is one whole critical section; calls of a history run in the order of its events):
     [1; v] Push(v)   [2; v] PushFront(v)   [3] Pop()   [4] Peek()   [5] PeekTail()   [6] IsEmpty()   [7] Reset()
     [8]     drain: Pop until it reports "not exists" (at most a bound)
     [9; v]  free-running stream (config f = 1 only): v is one of the values pushed by the stream
     [10]    the stream ran: concurrent goroutines pushed those values (Push or PushFront) and popped; then the
             list was drained
   Observations:
     after 1..7:  [val; flag]   Pop/Peek/PeekTail: value and exists; IsEmpty: [0; empty]; others [0; 0]
     after 8:     z :: ds       ds = the values popped, z = 1 iff the last Pop reported "not exists"
     after 9:     nothing
     after 10:    all values returned by successful Pops of the stream and the final drain, sorted *)
From Util Require Import Common.Base Common.ListLemmas Lifo.LLModel.
From Util Require Import Lifo.Spec.   (* isort, remove1, msub, mdiff *)

Record lhst := { lms : llst; lfree : bool }.

(* a whole call by a fresh actor: invoke, critical section, return *)
Definition call_now (s : llst) (o : dop) : llst * dret :=
  let a := length (lacts s) in
  let s' := llstep (llstep (llstep s (LCall o)) (LStep a)) (LRet a) in
  (s', match nth_error (lacts s') a with Some (LDone r) => r | _ => (0%N, false) end).

Definition lhinit (cfg : list N) : lhst :=
  match cfg with
  | f :: elems => {| lms := fold_left (fun s v => fst (call_now s (DPush v))) elems llinit; lfree := N.eqb f 1 |}
  | [] => {| lms := llinit; lfree := false |}
  end.

(* decoded harness events *)
Inductive lhev := HOp (o : dop) | HDrain | HFreeVal (v : N) | HFreeRun.
Definition decode (e : list N) : option lhev :=
  match e with
  | [1; v] => Some (HOp (DPush v))
  | [2; v] => Some (HOp (DPushFront v))
  | [3] => Some (HOp DPop)
  | [4] => Some (HOp DPeek)
  | [5] => Some (HOp DPeekTail)
  | [6] => Some (HOp DIsEmpty)
  | [7] => Some (HOp DReset)
  | [8] => Some HDrain
  | [9; v] => Some (HFreeVal v)
  | [10] => Some HFreeRun
  | _ => None
  end%N.

Definition enc_ret (r : dret) : list N := [fst r; if snd r then 1%N else 0%N].

Fixpoint ldrain (fuel : nat) (s : llst) : llst * list N :=
  match fuel with
  | 0 => (s, [])
  | S f => let (s1, r) := call_now s DPop in
           if snd r then let (s2, l) := ldrain f s1 in (s2, fst r :: l) else (s1, [])
  end.

Definition lhstep (h : lhst) (e : list N) : option (lhst * list N) :=
  let s := lms h in
  match decode e with
  | Some (HOp o) =>
    if lfree h then None
    else let (s', r) := call_now s o in Some ({| lms := s'; lfree := false |}, enc_ret r)
  | Some HDrain =>
    if lfree h then None
    else let (s', l) := ldrain (S (length (lheap s))) s in Some ({| lms := s'; lfree := false |}, 1%N :: l)
  (* the free stream is replayed in ONE schedule of the model (all pushes, then the drain) and compared
     order-free *)
  | Some (HFreeVal v) =>
    if lfree h then Some ({| lms := fst (call_now s (DPush v)); lfree := true |}, []) else None
  | Some HFreeRun =>
    if lfree h
    then let (s', l) := ldrain (S (length (lheap s))) s in Some ({| lms := s'; lfree := true |}, isort l)
    else None
  | None => None
  end.

(* ---------------- monitors (on the implementation's observations only) ---------------- *)
(* the sequential deque the history must be equivalent to, and the bag of elements that are inside *)
Record dmst := { d_list : list N; d_bag : list N }.
Definition dminit (cfg : list N) : dmst := {| d_list := tl cfg; d_bag := tl cfg |}.

Definition bag_remove (x : N) (b : list N) : list N := match remove1 x b with Some b' => b' | None => b end.

Definition dmon (m : dmst) (e o : list N) : dmst * list (nat * nat) :=
  match decode e with
  | Some (HOp op) =>
    let (l', r) := dseq (d_list m) op in
    let ok1 := list_eqb o (enc_ret r) in
    (* conservation, judged from the observed results alone *)
    let bag' := match op with
                | DPush v | DPushFront v => v :: d_bag m
                | DPop => match o with [v; 1%N] => bag_remove v (d_bag m) | _ => d_bag m end
                | DReset => []
                | _ => d_bag m
                end in
    let ok4 := match op, o with
               | DPop, [v; 1%N] => match remove1 v (d_bag m) with Some _ => true | None => false end
               | _, _ => true
               end in
    ({| d_list := l'; d_bag := bag' |}, (if ok1 then [] else [(12, 1)]) ++ (if ok4 then [] else [(12, 4)]))
  | Some HDrain =>
    let z := match o with 1%N :: _ => true | _ => false end in
    let ds := tl o in
    ({| d_list := []; d_bag := [] |},
     (if z && list_eqb ds (d_list m) then [] else [(12, 1)]) ++
     (if z && negb (msub (d_bag m) ds) then [(12, 3)] else []) ++
     (if msub ds (d_bag m) then [] else [(12, 4)]))
  | Some (HFreeVal v) => ({| d_list := d_list m ++ [v]; d_bag := v :: d_bag m |}, [])
  | Some HFreeRun =>
    ({| d_list := []; d_bag := [] |},
     (if msub (d_bag m) o then [] else [(12, 3)]) ++ (if msub o (d_bag m) then [] else [(12, 4)]))
  | None => (m, [])
  end.

Definition run_check_linkedlist (cfg : list N) (evs obss : list (list N)) : list issue :=
  run_check lhstep dmon (lhinit cfg) (dminit cfg) evs obss.
