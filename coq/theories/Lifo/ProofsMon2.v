(* ProofsMon2.v -- the lifo model satisfies its monitors (C12, Spec.lmon), for every config and every
   event list accepted by the schedule-level step function Spec.hstep.

   Relation R between the monitor state and the model state:
     scheduled histories (hfree = false): the monitor's operation table m_ops ++ m_drain has a witness
       (ProofsMon.Wit) whose final stack is the abstract stack abs (ms h) of the model -- the completed
       operations in response order ARE the operations in the order of their linearization points,
       because a scheduled step runs an actor from its linearization point on to its return;
       every recorded time is below the monitor clock; entry i of m_ops describes the program counter
       of actor hmap[i] (pending <-> parked, completed <-> done);
     free-running streams (hfree = true): m_ops is a list of completed pushes whose values are a
       permutation of the abstract stack.
   mon_step: R is preserved by every accepted event and lmon reports nothing. *)
From Coq Require Import Permutation.
From Util Require Import Common.Base Common.ListLemmas Lifo.Lin Lifo.Model Lifo.Spec Lifo.Proofs Lifo.ProofsMon.

(* ------------------------------------------------------------------ *)
(* small facts *)
Lemma set_nth_twice {A} (x y : A) : forall l k, set_nth (set_nth l k x) k y = set_nth l k y.
Proof. induction l as [|z l IH]; intros [|k]; cbn [set_nth]; try reflexivity. now rewrite IH. Qed.

Lemma nth_error_snoc_last {A} (l : list A) x : nth_error (l ++ [x]) (length l) = Some x.
Proof. rewrite nth_error_app2 by lia. now rewrite Nat.sub_diag. Qed.

Lemma Forall2_imp {A B} (P Q : A -> B -> Prop) l1 l2 :
  (forall a b, In b l2 -> P a b -> Q a b) -> Forall2 P l1 l2 -> Forall2 Q l1 l2.
Proof.
  intros H F. induction F as [|a b l1 l2 Hab F IH]; constructor.
  - apply H; [now left | exact Hab].
  - apply IH. intros a' b' Hb. apply H. now right.
Qed.

Lemma Forall2_nth_r {A B} (P : A -> B -> Prop) l1 l2 : Forall2 P l1 l2 ->
  forall i b, nth_error l2 i = Some b -> exists a, nth_error l1 i = Some a /\ P a b.
Proof.
  intros F. induction F as [|a0 b0 l1 l2 Hab F IH]; intros i b Hi; [destruct i; discriminate|].
  destruct i as [|i]; cbn [nth_error] in *.
  - inversion Hi; subst. now exists a0.
  - now apply IH.
Qed.

Lemma combine_same_newly (l : list mop) :
  filter (fun p : mop * mop => negb (completed (fst p)) && completed (snd p)) (combine l l) = [].
Proof.
  induction l as [|x l IH]; [reflexivity|]. cbn [combine filter fst snd].
  destruct (completed x); cbn [negb andb]; exact IH.
Qed.

Lemma newly_set_nth c : forall (l : list mop) i p,
  In p (filter (fun p : mop * mop => negb (completed (fst p)) && completed (snd p)) (combine l (set_nth l i c))) ->
  snd p = c.
Proof.
  induction l as [|y l IH]; intros i p H; [destruct i; destruct H|].
  destruct i as [|i]; cbn [set_nth combine filter fst snd] in H.
  - rewrite combine_same_newly in H. destruct (negb (completed y) && completed c); [|destruct H].
    destruct H as [<-|[]]. reflexivity.
  - destruct (completed y); cbn [negb andb] in H; now apply IH in H.
Qed.

Lemma oaddr_eqb_refl x : oaddr_eqb x x = true.
Proof. now apply oaddr_eqb_eq. Qed.

Lemma insert_perm' x : forall l, Permutation (insert x l) (x :: l).
Proof.
  induction l as [|y l IH]; [apply Permutation_refl|]. cbn [insert]. destruct (N.leb x y); [apply Permutation_refl|].
  eapply Permutation_trans; [apply perm_skip; exact IH | apply perm_swap].
Qed.
Lemma isort_perm' : forall l, Permutation (isort l) l.
Proof.
  induction l as [|x l IH]; [apply Permutation_refl|]. unfold isort in *. cbn [fold_right].
  eapply Permutation_trans; [apply insert_perm' | now apply perm_skip].
Qed.
Lemma msub_perm' a b : Permutation a b -> msub a b = true.
Proof.
  intros Hp. apply msub_count. intros v. rewrite (proj1 (Permutation_count_occ N.eq_dec a b) Hp v). apply le_n.
Qed.

(* ------------------------------------------------------------------ *)
(* single model steps, seen through the abstraction *)
Definition hdo (l : list N) : option N := match l with [] => None | v :: _ => Some v end.

Definition done_pc (o : lop) (stk : list N) : pc :=
  match o with OPush v => PushDone v | OPop => PopDone (hdo stk) end.

Lemma pend_parked p o : phase_of p = PhPend o -> parked p = true.
Proof. destruct p; cbn; intros H; try discriminate; reflexivity. Qed.
Lemma parked_pend p : parked p = true -> exists o, phase_of p = PhPend o.
Proof. destruct p; cbn; intros H; try discriminate; eexists; reflexivity. Qed.

Lemma abs_len s l : LInv s l -> length (abs s) <= length (heap s).
Proof.
  intros HI. rewrite (abs_vals _ _ HI). unfold vals. rewrite map_length.
  apply nodup_bound; [apply (li_nodup _ _ HI)|]. intros a Ha. eapply lseg_lt; [apply (li_seg _ _ HI) | exact Ha].
Qed.

(* a linearization-point step *)
Lemma step_lp_spec s l a p o : LInv s l -> nth_error (acts s) a = Some p -> phase_of p = PhPend o ->
  is_lp s a = true ->
  (exists l', LInv (lstep s (Step a)) l') /\
  abs (lstep s (Step a)) = fst (lseq (abs s) o) /\
  acts (lstep s (Step a)) = set_nth (acts s) a (lin_pc o (abs s)).
Proof.
  intros HI Ha Hph Hlp. split; [exists (next_l s l (Step a)); now apply lstep_inv|].
  pose proof (step_abs s l a HI) as H. cbn zeta in H. rewrite Hlp in H.
  destruct H as [p0 [o0 [Ha0 [Hph0 [Habs Hacts]]]]].
  rewrite Ha in Ha0. inversion Ha0; subst p0. rewrite Hph in Hph0. inversion Hph0; subst o0. now split.
Qed.

Lemma ret_done s l a p o stk : LInv s l -> nth_error (acts s) a = Some p -> p = lin_pc o stk ->
  (exists l', LInv (lstep s (Ret a)) l') /\ abs (lstep s (Ret a)) = abs s /\
  acts (lstep s (Ret a)) = set_nth (acts s) a (done_pc o stk).
Proof.
  intros HI Ha ->. split; [exists (next_l s l (Ret a)); now apply lstep_inv|].
  split; [apply (call_abs s l _ HI); intros; discriminate|].
  cbn [lstep]. rewrite Ha. destruct o as [v|]; reflexivity.
Qed.

Lemma ret_parked s a p : nth_error (acts s) a = Some p -> parked p = true -> lstep s (Ret a) = s.
Proof. intros Ha Hp. cbn [lstep]. rewrite Ha. destruct p; try discriminate; reflexivity. Qed.

(* one scheduled step: the actor runs from its gate to the next gate or to its return *)
Definition sstep (s : lst) (a : nat) : lst := lstep (lstep s (Step a)) (Ret a).

Lemma sched_step_spec s l a p : LInv s l -> nth_error (acts s) a = Some p -> parked p = true ->
  (exists l2, LInv (sstep s a) l2) /\
  exists p', acts (sstep s a) = set_nth (acts s) a p' /\
    ((parked p' = true /\ phase_of p' = phase_of p /\ abs (sstep s a) = abs s) \/
     (exists o, phase_of p = PhPend o /\ p' = done_pc o (abs s) /\ abs (sstep s a) = fst (lseq (abs s) o))).
Proof.
  intros HI Ha Hpk. unfold sstep.
  assert (Hl : a < length (acts s)) by (eapply nth_error_nth_len; eauto).
  destruct (is_lp s a) eqn:Hlp.
  - destruct (parked_pend p Hpk) as [o Hph].
    destruct (step_lp_spec s l a p o HI Ha Hph Hlp) as [[l1 HI1] [Hab1 Hac1]].
    assert (Ha1 : nth_error (acts (lstep s (Step a))) a = Some (lin_pc o (abs s))).
    { rewrite Hac1. now apply nth_error_set_nth_same. }
    destruct (ret_done _ l1 a _ o (abs s) HI1 Ha1 eq_refl) as [HI2 [Hab2 Hac2]].
    split; [exact HI2|]. exists (done_pc o (abs s)). split.
    + rewrite Hac2, Hac1. apply set_nth_twice.
    + right. exists o. split; [exact Hph|]. split; [reflexivity|]. now rewrite Hab2.
  - pose proof (step_abs s l a HI) as H. cbn zeta in H. rewrite Hlp in H. destruct H as [Hab1 Hcase].
    assert (HI1 : LInv (lstep s (Step a)) (next_l s l (Step a))) by now apply lstep_inv.
    destruct Hcase as [Hsame|[p0 [p' [o [Ha0 [Hac1 [Hph Hph']]]]]]].
    + rewrite Hsame. rewrite (ret_parked s a p Ha Hpk). split; [now exists l|].
      exists p. split; [symmetry; now apply set_nth_same_id|]. left. auto.
    + rewrite Ha in Ha0. inversion Ha0; subst p0.
      assert (Ha1 : nth_error (acts (lstep s (Step a))) a = Some p').
      { rewrite Hac1. now apply nth_error_set_nth_same. }
      rewrite (ret_parked _ a p' Ha1 (pend_parked _ _ Hph')). split; [eexists; exact HI1|].
      exists p'. split; [exact Hac1|]. left. split; [exact (pend_parked _ _ Hph')|]. split; [congruence | exact Hab1].
Qed.

Lemma lseq_pop_fst stk : fst (lseq stk OPop) = tl stk.
Proof. destruct stk; reflexivity. Qed.

(* the load of a Pop that sees a non-empty stack *)
Lemma pop_load_spec s l a o : LInv s l -> nth_error (acts s) a = Some PopStart -> top s = Some o ->
  LInv (lstep s (Step a)) l /\ abs (lstep s (Step a)) = abs s /\ top (lstep s (Step a)) = Some o /\
  exists nx, acts (lstep s (Step a)) = set_nth (acts s) a (PopLoaded o nx).
Proof.
  intros HI Ha Ht.
  pose proof (lstep_inv s l (Step a) HI) as HI1. cbn [next_l] in HI1. rewrite Ha in HI1.
  pose proof (step_abs s l a HI) as H. cbn zeta in H. unfold is_lp in H. rewrite Ha, Ht in H. destruct H as [Hab _].
  split; [exact HI1|]. split; [exact Hab|].
  pose proof (li_seg _ _ HI) as Hseg. rewrite Ht in Hseg. destruct (lseg_head _ _ _ Hseg) as [c [l' [_ [Hc _]]]].
  cbn [lstep]. rewrite Ha, Ht, Hc. cbn [top acts]. split; [reflexivity|]. now exists (nnext c).
Qed.

(* the load of a Push *)
Lemma push_load_spec s l a v n : LInv s l -> nth_error (acts s) a = Some (PushAlloc v n) ->
  LInv (lstep s (Step a)) l /\ abs (lstep s (Step a)) = abs s /\ top (lstep s (Step a)) = top s /\
  acts (lstep s (Step a)) = set_nth (acts s) a (PushLoaded v n (top s)).
Proof.
  intros HI Ha.
  pose proof (lstep_inv s l (Step a) HI) as HI1. cbn [next_l] in HI1. rewrite Ha in HI1.
  pose proof (step_abs s l a HI) as H. cbn zeta in H. unfold is_lp in H. rewrite Ha in H. destruct H as [Hab _].
  split; [exact HI1|]. split; [exact Hab|]. cbn [lstep]. rewrite Ha. cbn [top acts]. split; reflexivity.
Qed.

Lemma step_popret_stutter s a r : nth_error (acts s) a = Some (PopRet r) -> lstep s (Step a) = s.
Proof. intros Ha. cbn [lstep]. now rewrite Ha. Qed.

(* a whole Pop by a fresh actor *)
Lemma pop_now_spec s l : LInv s l ->
  (exists l', LInv (fst (pop_now s)) l') /\
  abs (fst (pop_now s)) = tl (abs s) /\
  snd (pop_now s) = retval (hdo (abs s)) /\
  (forall a, a < length (acts s) -> nth_error (acts (fst (pop_now s))) a = nth_error (acts s) a).
Proof.
  intros HI. unfold pop_now. cbn [fst snd]. set (a := length (acts s)).
  set (s0 := lstep s CallPop).
  assert (HI0 : LInv s0 l) by (apply (lstep_inv s l CallPop HI)).
  assert (Hab0 : abs s0 = abs s) by (apply (call_abs s l _ HI); intros; discriminate).
  assert (Hac0 : acts s0 = acts s ++ [PopStart]) by reflexivity.
  assert (Ha0 : nth_error (acts s0) a = Some PopStart) by (rewrite Hac0; apply nth_error_snoc_last).
  assert (Hl0 : a < length (acts s0)) by (eapply nth_error_nth_len; eauto).
  (* after the two steps: linearized *)
  assert (H2 : exists l2, LInv (lstep (lstep s0 (Step a)) (Step a)) l2 /\
                          abs (lstep (lstep s0 (Step a)) (Step a)) = tl (abs s) /\
                          acts (lstep (lstep s0 (Step a)) (Step a)) = set_nth (acts s0) a (PopRet (hdo (abs s)))).
  { destruct (top s) as [o|] eqn:Et.
    - assert (Et0 : top s0 = Some o) by exact Et.
      destruct (pop_load_spec s0 l a o HI0 Ha0 Et0) as [HI1 [Hab1 [Ht1 [nx Hac1]]]].
      set (s1 := lstep s0 (Step a)) in *.
      assert (Ha1 : nth_error (acts s1) a = Some (PopLoaded o nx)) by (rewrite Hac1; now apply nth_error_set_nth_same).
      assert (Hlp : is_lp s1 a = true) by (unfold is_lp; rewrite Ha1, Ht1; apply oaddr_eqb_refl).
      destruct (step_lp_spec s1 l a _ OPop HI1 Ha1 eq_refl Hlp) as [[l2 HI2] [Hab2 Hac2]].
      exists l2. split; [exact HI2|]. split.
      + rewrite Hab2, lseq_pop_fst, Hab1, Hab0. reflexivity.
      + rewrite Hac2, Hac1, set_nth_twice, Hab1, Hab0. reflexivity.
    - assert (Et0 : top s0 = None) by exact Et.
      assert (Hlp : is_lp s0 a = true) by (unfold is_lp; now rewrite Ha0, Et0).
      destruct (step_lp_spec s0 l a _ OPop HI0 Ha0 eq_refl Hlp) as [[l1 HI1] [Hab1 Hac1]].
      assert (Ha1 : nth_error (acts (lstep s0 (Step a))) a = Some (PopRet (hdo (abs s0)))).
      { rewrite Hac1. now apply nth_error_set_nth_same. }
      rewrite (step_popret_stutter _ a _ Ha1).
      exists l1. split; [exact HI1|]. split.
      + rewrite Hab1, lseq_pop_fst, Hab0. reflexivity.
      + rewrite Hac1, Hab0. reflexivity. }
  destruct H2 as [l2 [HI2 [Hab2 Hac2]]]. set (s2 := lstep (lstep s0 (Step a)) (Step a)) in *.
  assert (Ha2 : nth_error (acts s2) a = Some (lin_pc OPop (abs s))) by (rewrite Hac2; now apply nth_error_set_nth_same).
  destruct (ret_done s2 l2 a _ OPop (abs s) HI2 Ha2 eq_refl) as [HI3 [Hab3 Hac3]].
  set (s3 := lstep s2 (Ret a)) in *. cbn [done_pc] in Hac3.
  assert (Ha3 : nth_error (acts s3) a = Some (PopDone (hdo (abs s)))).
  { rewrite Hac3. apply nth_error_set_nth_same. rewrite Hac2, length_set_nth. exact Hl0. }
  split; [exact HI3|]. split; [now rewrite Hab3|]. split; [now rewrite Ha3|].
  intros b Hb. rewrite Hac3, Hac2, set_nth_twice.
  rewrite nth_error_set_nth_other by (unfold a; lia). rewrite Hac0. now apply nth_error_app1.
Qed.

(* a whole Push by a fresh actor *)
Lemma push_now_spec s l v : LInv s l ->
  (exists l', LInv (push_now s v) l') /\ abs (push_now s v) = v :: abs s.
Proof.
  intros HI. unfold push_now. set (a := length (acts s)).
  set (s0 := lstep s (CallPush v)).
  assert (HI0 : LInv s0 l) by (apply (lstep_inv s l (CallPush v) HI)).
  assert (Hab0 : abs s0 = abs s) by (apply (call_abs s l _ HI); intros; discriminate).
  assert (Hac0 : acts s0 = acts s ++ [PushAlloc v (length (heap s))]) by reflexivity.
  assert (Ha0 : nth_error (acts s0) a = Some (PushAlloc v (length (heap s)))) by (rewrite Hac0; apply nth_error_snoc_last).
  assert (Hl0 : a < length (acts s0)) by (eapply nth_error_nth_len; eauto).
  destruct (push_load_spec s0 l a v _ HI0 Ha0) as [HI1 [Hab1 [Ht1 Hac1]]].
  set (s1 := lstep s0 (Step a)) in *.
  assert (Ha1 : nth_error (acts s1) a = Some (PushLoaded v (length (heap s)) (top s0))).
  { rewrite Hac1. now apply nth_error_set_nth_same. }
  assert (Hlp : is_lp s1 a = true) by (unfold is_lp; rewrite Ha1, Ht1; apply oaddr_eqb_refl).
  destruct (step_lp_spec s1 l a _ (OPush v) HI1 Ha1 eq_refl Hlp) as [[l2 HI2] [Hab2 Hac2]].
  set (s2 := lstep s1 (Step a)) in *.
  assert (Ha2 : nth_error (acts s2) a = Some (lin_pc (OPush v) (abs s1))).
  { rewrite Hac2. apply nth_error_set_nth_same. rewrite Hac1, length_set_nth. exact Hl0. }
  destruct (ret_done s2 l2 a _ (OPush v) (abs s1) HI2 Ha2 eq_refl) as [HI3 [Hab3 _]].
  split; [exact HI3|]. rewrite Hab3, Hab2. cbn [lseq fst]. now rewrite Hab1, Hab0.
Qed.

(* a drain empties the stack and returns its contents, top first *)
Lemma drain_spec : forall fuel s l, LInv s l -> Forall nz (abs s) -> length (abs s) < fuel ->
  (exists l', LInv (fst (drain fuel s)) l') /\ abs (fst (drain fuel s)) = [] /\ snd (drain fuel s) = abs s /\
  (forall a, a < length (acts s) -> nth_error (acts (fst (drain fuel s))) a = nth_error (acts s) a).
Proof.
  induction fuel as [|f IH]; intros s l HI Hnz Hlen; [lia|]. cbn [drain].
  destruct (pop_now_spec s l HI) as [[l1 HI1] [Hab1 [Hv Hpre1]]].
  destruct (pop_now s) as [s1 v] eqn:Ep. cbn [fst snd] in *.
  destruct (abs s) as [|x t] eqn:Eabs; cbn [hdo retval tl] in *.
  - subst v. cbn [N.eqb fst snd]. split; [now exists l1|]. split; [exact Hab1|]. split; [reflexivity | exact Hpre1].
  - subst v. inversion Hnz as [|x' t' Hx Ht [Ex' Et']]. clear Ex' Et'.
    destruct (N.eqb_spec x 0) as [E0|_]; [now destruct Hx|].
    destruct (IH s1 l1 HI1) as [HI2 [Hab2 [Hd2 Hpre2]]]; [now rewrite Hab1 | rewrite Hab1; cbn [length] in Hlen; lia|].
    destruct (drain f s1) as [s2 d] eqn:Ed. cbn [fst snd] in *.
    split; [exact HI2|]. split; [exact Hab2|]. split; [now rewrite Hd2, Hab1|].
    intros a Ha. rewrite Hpre2; [now apply Hpre1|].
    apply nth_error_Some. rewrite (Hpre1 a Ha). now apply nth_error_Some.
Qed.

(* ------------------------------------------------------------------ *)
(* the monitor's operation table against the program counters *)
Definition rel_op (op : mop) (p : pc) : Prop :=
  match p with
  | PushAlloc v _ | PushLoaded v _ _ => mo_push op = true /\ mo_val op = v /\ mo_res op = None
  | PopStart | PopLoaded _ _ => mo_push op = false /\ mo_res op = None
  | PushDone _ | PopDone _ => completed op = true
  | PushRet _ | PopRet _ => False
  end.

Definition relA (s : lst) (op : mop) (a : nat) : Prop :=
  exists p, nth_error (acts s) a = Some p /\ rel_op op p.

Definition upd1 (k : nat) (op : mop) (c : N) : mop :=
  match mo_res op with
  | Some _ => op
  | None =>
    if mo_push op
    then if N.eqb c 5 then {| mo_push := true; mo_val := mo_val op; mo_inv := mo_inv op; mo_res := Some (k, 0%N) |} else op
    else if N.leb 10 c then {| mo_push := false; mo_val := 0%N; mo_inv := mo_inv op; mo_res := Some (k, (c - 10)%N) |} else op
  end.

Lemma upd_ops_cons k op ops c o : upd_ops k (op :: ops) (c :: o) = upd1 k op c :: upd_ops k ops o.
Proof. reflexivity. Qed.

Lemma upd1_stable k op p : rel_op op p -> upd1 k op (code_pc p) = op.
Proof.
  unfold upd1. destruct p; cbn [rel_op code_pc]; intros H.
  - destruct H as [Hp [_ Hr]]. rewrite Hr, Hp. reflexivity.
  - destruct H as [Hp [_ Hr]]. rewrite Hr, Hp. reflexivity.
  - destruct H.
  - unfold completed in H. destruct (mo_res op); [reflexivity | discriminate].
  - destruct H as [Hp Hr]. rewrite Hr, Hp. reflexivity.
  - destruct H as [Hp Hr]. rewrite Hr, Hp. reflexivity.
  - destruct H.
  - unfold completed in H. destruct (mo_res op); [reflexivity | discriminate].
Qed.

(* the completed form of a pending operation *)
Definition comp_op (k : nat) (op : mop) (o : lop) (stk : list N) : mop :=
  match o with
  | OPush v => {| mo_push := true; mo_val := v; mo_inv := mo_inv op; mo_res := Some (k, 0%N) |}
  | OPop => {| mo_push := false; mo_val := 0%N; mo_inv := mo_inv op; mo_res := Some (k, retval (hdo stk)) |}
  end.

Lemma upd1_done k op p o stk : rel_op op p -> phase_of p = PhPend o ->
  upd1 k op (code_pc (done_pc o stk)) = comp_op k op o stk.
Proof.
  intros Hr Hph. unfold upd1.
  destruct p; cbn [phase_of] in Hph; try discriminate; inversion Hph; subst o; cbn [rel_op] in Hr;
    cbn [done_pc code_pc comp_op].
  - destruct Hr as [Hp [Hv Hres]]. rewrite Hres, Hp, Hv. reflexivity.
  - destruct Hr as [Hp [Hv Hres]]. rewrite Hres, Hp, Hv. reflexivity.
  - destruct Hr as [Hp Hres]. rewrite Hres, Hp.
    replace (N.leb 10 (10 + retval (hdo stk))) with true by (symmetry; apply N.leb_le; lia).
    replace (10 + retval (hdo stk) - 10)%N with (retval (hdo stk)) by lia. reflexivity.
  - destruct Hr as [Hp Hres]. rewrite Hres, Hp.
    replace (N.leb 10 (10 + retval (hdo stk))) with true by (symmetry; apply N.leb_le; lia).
    replace (10 + retval (hdo stk) - 10)%N with (retval (hdo stk)) by lia. reflexivity.
Qed.

Lemma rel_op_pend op p : rel_op op p -> parked p = true -> completed op = false.
Proof.
  unfold completed. destruct p; cbn [rel_op parked]; intros H Hp; try discriminate.
  - destruct H as [_ [_ ->]]. reflexivity.
  - destruct H as [_ [_ ->]]. reflexivity.
  - destruct H as [_ ->]. reflexivity.
  - destruct H as [_ ->]. reflexivity.
Qed.

Lemma rel_op_phase op p p' : phase_of p' = phase_of p -> parked p = true -> rel_op op p -> rel_op op p'.
Proof.
  intros Hph Hpk Hr.
  destruct p; try discriminate Hpk; destruct p'; cbn [phase_of] in Hph; try discriminate Hph;
    cbn [rel_op] in *; inversion Hph; subst; exact Hr.
Qed.

Lemma rel_op_done k op o stk : rel_op (comp_op k op o stk) (done_pc o stk).
Proof. destruct o; reflexivity. Qed.

Lemma code_at s a p : nth_error (acts s) a = Some p -> code s a = code_pc p.
Proof. intros H. unfold code. now rewrite H. Qed.

Lemma relA_lt s op a : relA s op a -> a < length (acts s).
Proof. intros [p [Hp _]]. eapply nth_error_nth_len; eauto. Qed.

Lemma relA_in_lt s ops hm a : Forall2 (relA s) ops hm -> In a hm -> a < length (acts s).
Proof.
  intros F. induction F as [|op b ops hm Hr F IH]; intros Hin; [destruct Hin|].
  destruct Hin as [<-|Hin]; [eapply relA_lt; eauto | now apply IH].
Qed.

Lemma upd_ops_stable s k : forall ops hm, Forall2 (relA s) ops hm -> upd_ops k ops (map (code s) hm) = ops.
Proof.
  intros ops hm F. induction F as [|op a ops hm Hr F IH]; [reflexivity|].
  cbn [map]. rewrite upd_ops_cons. destruct Hr as [p [Hp Hr]].
  now rewrite (code_at _ _ _ Hp), (upd1_stable _ _ _ Hr), IH.
Qed.

Lemma code_other s s' a p' x : acts s' = set_nth (acts s) a p' -> x <> a -> code s' x = code s x.
Proof. intros Hac Hne. unfold code. now rewrite Hac, nth_error_set_nth_other. Qed.

Lemma upd_ops_one s s' k a p' : acts s' = set_nth (acts s) a p' ->
  forall ops hm, Forall2 (relA s) ops hm -> NoDup hm ->
  forall i op, nth_error hm i = Some a -> nth_error ops i = Some op ->
  upd_ops k ops (map (code s') hm) = set_nth ops i (upd1 k op (code_pc p')).
Proof.
  intros Hac ops hm F. induction F as [|op0 a0 ops hm Hr F IH]; intros Hnd i op Hi Ho; [destruct i; discriminate|].
  inversion Hnd as [|x t Hnin Hnd']; subst. cbn [map]. rewrite upd_ops_cons.
  destruct i as [|i]; cbn [nth_error set_nth] in *.
  - inversion Hi; inversion Ho; subst. f_equal.
    + f_equal. unfold code. rewrite Hac. rewrite nth_error_set_nth_same by (eapply relA_lt; eauto). reflexivity.
    + rewrite (map_ext_in (code s') (code s)); [now apply (upd_ops_stable s)|].
      intros x Hx. apply (code_other _ _ _ _ _ Hac). intros ->. contradiction.
  - assert (Hne : a0 <> a) by (intros ->; apply Hnin; eapply nth_error_In; eauto).
    f_equal; [|now apply IH].
    rewrite (code_other _ _ _ _ _ Hac Hne). destruct Hr as [p [Hp Hr]].
    now rewrite (code_at _ _ _ Hp), (upd1_stable _ _ _ Hr).
Qed.

Lemma relA_other s s' a p' op x : acts s' = set_nth (acts s) a p' -> x <> a -> relA s op x -> relA s' op x.
Proof. intros Hac Hne [p [Hp Hr]]. exists p. split; [|exact Hr]. now rewrite Hac, nth_error_set_nth_other. Qed.

Lemma relA_update s s' a p' c : acts s' = set_nth (acts s) a p' -> a < length (acts s) -> rel_op c p' ->
  forall ops hm, Forall2 (relA s) ops hm -> NoDup hm ->
  forall i, nth_error hm i = Some a -> Forall2 (relA s') (set_nth ops i c) hm.
Proof.
  intros Hac Hl Hc ops hm F. induction F as [|op0 a0 ops hm Hr F IH]; intros Hnd i Hi; [destruct i; discriminate|].
  inversion Hnd as [|x t Hnin Hnd']; subst.
  destruct i as [|i]; cbn [nth_error set_nth] in *.
  - inversion Hi; subst. constructor.
    + exists p'. split; [|exact Hc]. rewrite Hac. now apply nth_error_set_nth_same.
    + apply (Forall2_imp (relA s)); [|exact F]. intros op b Hb. apply (relA_other _ _ _ _ _ _ Hac). intros ->. contradiction.
  - assert (Hne : a0 <> a) by (intros ->; apply Hnin; eapply nth_error_In; eauto).
    constructor; [now apply (relA_other _ _ _ _ _ _ Hac Hne) | now apply IH].
Qed.

Lemma relA_mono s s' ops hm :
  (forall a, a < length (acts s) -> nth_error (acts s') a = nth_error (acts s) a) ->
  Forall2 (relA s) ops hm -> Forall2 (relA s') ops hm.
Proof.
  intros Hpre. apply Forall2_imp. intros op a _ Hr. pose proof (relA_lt _ _ _ Hr) as Hl.
  destruct Hr as [p [Hp Hr]]. exists p. split; [|exact Hr]. now rewrite Hpre.
Qed.

Lemma apply_comp k op o stk : apply_op (comp_op k op o stk) stk = Some (fst (lseq stk o)).
Proof.
  destruct o as [v|]; unfold apply_op; cbn [comp_op mo_push mo_val mo_res lseq fst]; [reflexivity|].
  destruct stk as [|x t]; cbn [hdo retval fst]; [reflexivity | now rewrite N.eqb_refl].
Qed.

(* ------------------------------------------------------------------ *)
(* lmon, event by event *)
Definition lmon_tail (m : lmst) (ops1 : list mop) (o : list N) : lmst * list (nat * nat) :=
  let k := m_clock m in
  let ops2 := upd_ops (S k) ops1 o in
  let newly := filter (fun p : mop * mop => negb (completed (fst p)) && completed (snd p)) (combine ops1 ops2) in
  let all := ops2 ++ m_drain m in
  let m' := {| m_ops := ops2; m_drain := m_drain m; m_clock := k + 2 |} in
  match newly with
  | [] => (m', [])
  | _ =>
    (m', (if Nat.leb (length ops2) max_search_ops && negb (linearizable_lifo all) then [(12, 1)] else []) ++
         (if existsb (fun p : mop * mop => zero_pop_bad all (snd p)) newly then [(12, 2)] else []) ++
         (if msub (popped_vals all) (pushed_invoked all) then [] else [(12, 4)]))
  end.

Lemma lmon_push m v o :
  lmon m [1%N; v] o =
  lmon_tail m (m_ops m ++ [{| mo_push := true; mo_val := v; mo_inv := m_clock m; mo_res := None |}]) o.
Proof. reflexivity. Qed.
Lemma lmon_pop m o :
  lmon m [2%N] o =
  lmon_tail m (m_ops m ++ [{| mo_push := false; mo_val := 0%N; mo_inv := m_clock m; mo_res := None |}]) o.
Proof. reflexivity. Qed.
Lemma lmon_sched m i o : lmon m [3%N; i] o = lmon_tail m (m_ops m) o.
Proof. reflexivity. Qed.

Lemma lmon_drain m l :
  lmon m [4%N] (1%N :: l) =
  let k := m_clock m in
  let dr := m_drain m ++ drain_ops (S k) l true in
  let all := m_ops m ++ dr in
  ({| m_ops := m_ops m; m_drain := dr; m_clock := k + 2 * (length l) + 4 |},
   (if Nat.leb (length (m_ops m)) max_search_ops && negb (linearizable_lifo all) then [(12, 1)] else []) ++
   (if existsb (zero_pop_bad all) (drain_ops (S k) l true) then [(12, 2)] else []) ++
   (if true && Nat.ltb (count_b (map (fun p => negb (mo_push p) && negb (completed p)) all))
                       (mdiff (pushed_completed all) (popped_vals all)) then [(12, 3)] else []) ++
   (if msub (popped_vals all) (pushed_invoked all) then [] else [(12, 4)])).
Proof. reflexivity. Qed.

Lemma lmon_free_push m v o :
  lmon m [9%N; v] o =
  ({| m_ops := m_ops m ++ [{| mo_push := true; mo_val := v; mo_inv := m_clock m; mo_res := Some (S (m_clock m), 0%N) |}];
      m_drain := m_drain m; m_clock := m_clock m + 2 |}, []).
Proof. reflexivity. Qed.
Lemma lmon_free_run m o :
  lmon m [10%N] o =
  ({| m_ops := []; m_drain := []; m_clock := m_clock m + 2 |},
   (if msub (pushed_completed (m_ops m)) o then [] else [(12, 3)]) ++
   (if msub o (pushed_invoked (m_ops m)) then [] else [(12, 4)])).
Proof. reflexivity. Qed.

Lemma lmon_tail_nil m ops1 o :
  filter (fun p : mop * mop => negb (completed (fst p)) && completed (snd p))
         (combine ops1 (upd_ops (S (m_clock m)) ops1 o)) = [] ->
  lmon_tail m ops1 o =
  ({| m_ops := upd_ops (S (m_clock m)) ops1 o; m_drain := m_drain m; m_clock := m_clock m + 2 |}, []).
Proof. intros H. unfold lmon_tail. cbn zeta. now rewrite H. Qed.

Lemma lmon_tail_quiet m ops1 o L stk c :
  Wit (upd_ops (S (m_clock m)) ops1 o ++ m_drain m) L stk ->
  (forall p, In p (filter (fun p : mop * mop => negb (completed (fst p)) && completed (snd p))
                          (combine ops1 (upd_ops (S (m_clock m)) ops1 o))) -> snd p = c) ->
  (forall j, mo_push c = false -> mo_res c = Some (j, 0%N) ->
             stk = [] /\ forall p, In p (upd_ops (S (m_clock m)) ops1 o ++ m_drain m) -> mo_inv p < j) ->
  lmon_tail m ops1 o =
  ({| m_ops := upd_ops (S (m_clock m)) ops1 o; m_drain := m_drain m; m_clock := m_clock m + 2 |}, []).
Proof.
  intros W Hnew Hz. unfold lmon_tail. cbn zeta.
  set (ops2 := upd_ops (S (m_clock m)) ops1 o) in *.
  set (newly := filter _ (combine ops1 ops2)) in *.
  destruct newly as [|q newly'] eqn:En; [reflexivity|].
  rewrite (clause1_ok _ _ _ W), (clause4_ok _ _ _ W). cbn [negb]. rewrite andb_false_r.
  assert (E2 : existsb (fun p : mop * mop => zero_pop_bad (ops2 ++ m_drain m) (snd p)) (q :: newly') = false).
  { apply not_true_is_false. intros Hex. apply existsb_exists in Hex as [p [Hin Hbad]].
    rewrite (Hnew p Hin) in Hbad. rewrite (clause2_ok _ _ _ c W Hz) in Hbad. discriminate. }
  rewrite E2. reflexivity.
Qed.

(* ------------------------------------------------------------------ *)
(* the relation *)
Definition Rsched (m : lmst) (h : hst) : Prop :=
  exists L, Wit (m_ops m ++ m_drain m) L (abs (ms h)) /\
            times_ok (m_clock m) (m_ops m ++ m_drain m) /\
            Forall2 (relA (ms h)) (m_ops m) (hmap h) /\ NoDup (hmap h).

Definition Rfree (m : lmst) (h : hst) : Prop :=
  hmap h = [] /\ Forall (fun o => mo_push o = true /\ completed o = true) (m_ops m) /\
  Permutation (map mo_val (m_ops m)) (abs (ms h)) /\ Forall nz (abs (ms h)).

Definition R (m : lmst) (h : hst) : Prop :=
  (exists l, LInv (ms h) l) /\ if hfree h then Rfree m h else Rsched m h.

Lemma R_init cfg : R (lminit cfg) (hinit cfg).
Proof.
  split; [exists []; exact linit_inv|]. unfold hinit, lminit. cbn [hfree ms hmap].
  assert (Hs : Rsched {| m_ops := []; m_drain := []; m_clock := 0 |} {| ms := linit; hmap := []; hfree := false |}).
  { exists []. cbn [m_ops m_drain m_clock ms hmap app]. split; [|split; [|split]].
    - constructor; cbn; try constructor; try (intros o []); reflexivity.
    - intros o [].
    - constructor.
    - constructor. }
  assert (Hf : Rfree {| m_ops := []; m_drain := []; m_clock := 0 |} {| ms := linit; hmap := []; hfree := true |}).
  { split; [reflexivity|]. split; [constructor|]. split; [apply Permutation_refl | constructor]. }
  destruct cfg as [|c cfg]; [exact Hs|]. destruct c as [|[p|p|]]; try exact Hs.
  destruct cfg; [exact Hf | exact Hs].
Qed.

(* which events the schedule-level step accepts *)
Lemma hstep_cases h e h' o : hstep h e = Some (h', o) ->
  (exists v, e = [1%N; v]) \/ e = [2%N] \/ (exists i, e = [3%N; i]) \/ e = [4%N] \/
  (exists v, e = [9%N; v]) \/ e = [10%N].
Proof.
  unfold hstep. intros H.
  repeat match type of H with
         | context [match ?x with _ => _ end] => is_var x; destruct x; try discriminate H
         end; eauto 10.
Qed.

Lemma hstep_push h v :
  hstep h [1%N; v] =
  if hfree h || N.eqb v 0 then None
  else Some ({| ms := lstep (ms h) (CallPush v); hmap := hmap h ++ [length (acts (ms h))]; hfree := false |},
             obs {| ms := lstep (ms h) (CallPush v); hmap := hmap h ++ [length (acts (ms h))]; hfree := false |}).
Proof. reflexivity. Qed.
Lemma hstep_pop h :
  hstep h [2%N] =
  if hfree h then None
  else Some ({| ms := lstep (ms h) CallPop; hmap := hmap h ++ [length (acts (ms h))]; hfree := false |},
             obs {| ms := lstep (ms h) CallPop; hmap := hmap h ++ [length (acts (ms h))]; hfree := false |}).
Proof. reflexivity. Qed.
Lemma hstep_sched h i :
  hstep h [3%N; i] =
  match nth_error (hmap h) (N.to_nat i) with
  | Some a =>
    match nth_error (acts (ms h)) a with
    | Some p => if parked p
                then Some ({| ms := sstep (ms h) a; hmap := hmap h; hfree := hfree h |},
                           obs {| ms := sstep (ms h) a; hmap := hmap h; hfree := hfree h |})
                else None
    | None => None
    end
  | None => None
  end.
Proof. reflexivity. Qed.
Lemma hstep_drain h :
  hstep h [4%N] =
  if hfree h then None
  else let (s', l) := drain (S (length (heap (ms h)))) (ms h) in
       Some ({| ms := s'; hmap := hmap h; hfree := false |}, 1%N :: l).
Proof. reflexivity. Qed.
Lemma hstep_free_push h v :
  hstep h [9%N; v] =
  if hfree h && negb (N.eqb v 0)
  then Some ({| ms := push_now (ms h) v; hmap := hmap h; hfree := true |}, [])
  else None.
Proof. reflexivity. Qed.
Lemma hstep_free_run h :
  hstep h [10%N] =
  if hfree h
  then let (s', l) := drain (S (length (heap (ms h)))) (ms h) in
       Some ({| ms := s'; hmap := hmap h; hfree := true |}, isort l)
  else None.
Proof. reflexivity. Qed.

(* a call: one more actor, one more pending operation *)
Lemma mon_call m h l s1 pnew newop :
  LInv (ms h) l -> Rsched m h ->
  LInv s1 l -> abs s1 = abs (ms h) -> acts s1 = acts (ms h) ++ [pnew] ->
  rel_op newop pnew -> completed newop = false -> mo_inv newop = m_clock m ->
  (mo_push newop = true -> mo_val newop <> 0%N) ->
  let h1 := {| ms := s1; hmap := hmap h ++ [length (acts (ms h))]; hfree := false |} in
  exists m', lmon_tail m (m_ops m ++ [newop]) (obs h1) = (m', []) /\ R m' h1.
Proof.
  intros HI [L [W [Ht [F Hnd]]]] HI1 Hab1 Hac1 Hrel Hpend Hinv Hv h1.
  assert (F1 : Forall2 (relA s1) (m_ops m ++ [newop]) (hmap h ++ [length (acts (ms h))])).
  { apply Forall2_app.
    - apply (relA_mono (ms h)); [|exact F]. intros a Ha. rewrite Hac1. now apply nth_error_app1.
    - constructor; [|constructor]. exists pnew. split; [|exact Hrel]. rewrite Hac1. apply nth_error_snoc_last. }
  assert (E2 : upd_ops (S (m_clock m)) (m_ops m ++ [newop]) (obs h1) = m_ops m ++ [newop]).
  { unfold obs, h1. cbn [ms hmap]. now apply (upd_ops_stable s1). }
  eexists. split.
  - apply lmon_tail_nil. rewrite E2. apply combine_same_newly.
  - rewrite E2. split; [now exists l|]. unfold h1. cbn [hfree]. exists L. cbn [m_ops m_drain m_clock ms hmap].
    split; [|split; [|split]].
    + rewrite Hab1. now apply Wit_pending.
    + intros o Ho. apply in_app_or in Ho as [Ho|Ho].
      * apply in_app_or in Ho as [Ho|[<-|[]]].
        -- destruct (Ht o (in_or_app _ _ _ (or_introl Ho))). lia.
        -- unfold rt. unfold completed in Hpend. destruct (mo_res newop); [discriminate|]. lia.
      * destruct (Ht o (in_or_app _ _ _ (or_intror Ho))). lia.
    + exact F1.
    + apply NoDup_snoc; [exact Hnd|]. intros Hin. pose proof (relA_in_lt _ _ _ _ F Hin). lia.
Qed.

Lemma mon_step m h e h' o : R m h -> hstep h e = Some (h', o) ->
  exists m', lmon m e o = (m', []) /\ R m' h'.
Proof.
  intros [[l HI] HR] Hs.
  destruct (hstep_cases _ _ _ _ Hs) as [[v ->]|[->|[[i ->]|[->|[[v ->]| ->]]]]].
  - (* Push(v) in a new actor *)
    rewrite hstep_push in Hs. destruct (hfree h) eqn:Ef; [discriminate|]. cbn [orb] in Hs.
    destruct (N.eqb_spec v 0) as [|Hv]; [discriminate|]. inversion Hs; subst h' o. clear Hs.
    rewrite lmon_push.
    assert (H1 : LInv (lstep (ms h) (CallPush v)) l) by apply (lstep_inv _ l (CallPush v) HI).
    assert (H2 : abs (lstep (ms h) (CallPush v)) = abs (ms h)) by (apply (call_abs _ l _ HI); intros; discriminate).
    refine (mon_call m h l (lstep (ms h) (CallPush v)) (PushAlloc v (length (heap (ms h))))
                     {| mo_push := true; mo_val := v; mo_inv := m_clock m; mo_res := None |}
                     HI HR H1 H2 eq_refl _ eq_refl eq_refl _).
    + cbn [rel_op mo_push mo_val mo_res]. auto.
    + intros _. exact Hv.
  - (* Pop() in a new actor *)
    rewrite hstep_pop in Hs. destruct (hfree h) eqn:Ef; [discriminate|]. inversion Hs; subst h' o. clear Hs.
    rewrite lmon_pop.
    assert (H1 : LInv (lstep (ms h) CallPop) l) by apply (lstep_inv _ l CallPop HI).
    assert (H2 : abs (lstep (ms h) CallPop) = abs (ms h)) by (apply (call_abs _ l _ HI); intros; discriminate).
    refine (mon_call m h l (lstep (ms h) CallPop) PopStart
                     {| mo_push := false; mo_val := 0%N; mo_inv := m_clock m; mo_res := None |}
                     HI HR H1 H2 eq_refl _ eq_refl eq_refl _).
    + cbn [rel_op mo_push mo_res]. auto.
    + intros Hp. discriminate Hp.
  - (* a scheduled step of actor hmap[i] *)
    rewrite hstep_sched in Hs.
    destruct (nth_error (hmap h) (N.to_nat i)) as [a|] eqn:Ei; [|discriminate].
    destruct (nth_error (acts (ms h)) a) as [p|] eqn:Ea; [|discriminate].
    destruct (parked p) eqn:Epk; [|discriminate]. inversion Hs; subst h' o. clear Hs.
    rewrite lmon_sched.
    assert (Ef : hfree h = false).
    { destruct (hfree h); [|reflexivity]. destruct HR as [Hm _]. rewrite Hm in Ei. destruct (N.to_nat i); discriminate. }
    rewrite Ef in HR. destruct HR as [L [W [Ht [F Hnd]]]].
    destruct (Forall2_nth_r _ _ _ F _ _ Ei) as [op [Hop [p0 [Hp0 Hrel]]]].
    rewrite Ea in Hp0. inversion Hp0; subst p0. clear Hp0.
    assert (Hl : a < length (acts (ms h))) by (eapply nth_error_nth_len; eauto).
    destruct (sched_step_spec (ms h) l a p HI Ea Epk) as [HI2 [p' [Hac2 Hcase]]].
    set (s2 := sstep (ms h) a) in *.
    set (k := m_clock m) in *.
    assert (E2 : upd_ops (S k) (m_ops m) (obs {| ms := s2; hmap := hmap h; hfree := hfree h |}) =
                 set_nth (m_ops m) (N.to_nat i) (upd1 (S k) op (code_pc p'))).
    { unfold obs. cbn [ms hmap]. now apply (upd_ops_one (ms h) s2 (S k) a p' Hac2 _ _ F Hnd). }
    assert (Hopin : In op (m_ops m ++ m_drain m)) by (apply in_or_app; left; eapply nth_error_In; eauto).
    destruct Hcase as [[Hpk' [Hph' Hab2]]|[o0 [Hph [-> Hab2]]]].
    + (* still parked *)
      pose proof (rel_op_phase op p p' Hph' Epk Hrel) as Hrel'.
      rewrite (upd1_stable _ _ _ Hrel'), (set_nth_same_id _ _ _ Hop) in E2.
      eexists. split.
      * apply lmon_tail_nil. fold k. rewrite E2. apply combine_same_newly.
      * fold k. rewrite E2. split; [exact HI2|]. cbn [hfree]. rewrite Ef. exists L. cbn [m_ops m_drain m_clock ms hmap].
        split; [now rewrite Hab2|]. split; [apply (times_mono k); [lia | exact Ht]|]. split; [|exact Hnd].
        rewrite <- (set_nth_same_id _ _ _ Hop). now apply (relA_update (ms h) s2 a p' op Hac2 Hl Hrel' _ _ F Hnd).
    + (* linearized and returned *)
      rewrite (upd1_done _ _ _ _ _ Hrel Hph) in E2.
      set (c := comp_op (S k) op o0 (abs (ms h))) in *.
      assert (Hcc : completed c = true) by (unfold c; destruct o0; reflexivity).
      assert (Hci : mo_inv c = mo_inv op) by (unfold c; destruct o0; reflexivity).
      assert (Hcr : rt c = S k) by (unfold c; destruct o0; reflexivity).
      destruct (Ht op Hopin) as [Hopi _].
      assert (W' : Wit (set_nth (m_ops m) (N.to_nat i) c ++ m_drain m) (L ++ [c]) (abs s2)).
      { apply (Wit_complete _ _ _ (abs (ms h)) _ _ op); try assumption.
        - now apply (rel_op_pend op p).
        - lia.
        - intros x Hx. destruct (Ht x Hx). lia.
        - rewrite Hab2. apply apply_comp.
        - intros Hpc. unfold c in *. destruct o0 as [v|]; [|discriminate Hpc]. cbn [comp_op mo_val].
          destruct p; cbn [phase_of] in Hph; try discriminate; inversion Hph; subst; cbn [rel_op] in Hrel;
            destruct Hrel as [Hpp [Hvv _]]; rewrite <- Hvv; now apply (w_nz _ _ _ W). }
      eexists. split.
      * apply (lmon_tail_quiet m (m_ops m) _ (L ++ [c]) (abs s2) c); fold k; rewrite E2.
        -- exact W'.
        -- apply newly_set_nth.
        -- intros j Hpc Hres. split.
           ++ rewrite Hab2. unfold c in Hpc, Hres. destruct o0 as [v|]; [discriminate Hpc|].
              cbn [comp_op mo_res] in Hres. inversion Hres as [[Hj Hr0]].
              destruct (wit_counts _ _ _ W) as [Hnz _].
              destruct (abs (ms h)) as [|x t]; [reflexivity|]. cbn [hdo retval] in Hr0.
              inversion Hnz as [|x' t' Hx Hxt]; subst. now destruct Hx.
           ++ assert (Hj : j = S k) by (unfold rt in Hcr; rewrite Hres in Hcr; exact Hcr). subst j.
              intros q Hq. apply in_app_or in Hq as [Hq|Hq].
              ** apply in_set_nth in Hq as [->|Hq]; [lia|]. destruct (Ht q (in_or_app _ _ _ (or_introl Hq))). lia.
              ** destruct (Ht q (in_or_app _ _ _ (or_intror Hq))). lia.
      * fold k. rewrite E2. split; [exact HI2|]. cbn [hfree]. rewrite Ef. exists (L ++ [c]).
        cbn [m_ops m_drain m_clock ms hmap]. split; [exact W'|]. split; [|split; [|exact Hnd]].
        -- intros q Hq. apply in_app_or in Hq as [Hq|Hq].
           ++ apply in_set_nth in Hq as [->|Hq]; [lia|]. destruct (Ht q (in_or_app _ _ _ (or_introl Hq))). lia.
           ++ destruct (Ht q (in_or_app _ _ _ (or_intror Hq))). lia.
        -- apply (relA_update (ms h) s2 a _ c Hac2 Hl); [apply rel_op_done | exact F | exact Hnd | exact Ei].
  - (* drain *)
    rewrite hstep_drain in Hs. destruct (hfree h) eqn:Ef; [discriminate|].
    destruct HR as [L [W [Ht [F Hnd]]]].
    destruct (wit_counts _ _ _ W) as [Hnz _].
    destruct (drain_spec (S (length (heap (ms h)))) (ms h) l HI Hnz) as [HI' [Hab' [Hd Hpre]]].
    { pose proof (abs_len _ _ HI). lia. }
    destruct (drain (S (length (heap (ms h)))) (ms h)) as [s' d] eqn:Ed. cbn [fst snd] in *.
    inversion Hs; subst h' o. clear Hs. subst d.
    rewrite lmon_drain. cbn zeta. set (k := m_clock m) in *.
    set (D := drain_ops (S k) (abs (ms h)) true).
    pose proof (Wit_drain _ _ _ _ k Ht W) as W'. fold D in W'.
    rewrite (clause1_ok _ _ _ W'), (clause3_ok _ _ W'), (clause4_ok _ _ _ W'). cbn [negb]. rewrite andb_false_r.
    assert (E2 : existsb (zero_pop_bad (m_ops m ++ m_drain m ++ D)) D = false).
    { apply not_true_is_false. intros Hex. apply existsb_exists in Hex as [q [Hin Hbad]].
      rewrite (clause2_ok _ _ _ q W') in Hbad; [discriminate|].
      intros j _ Hres. split; [reflexivity|]. intros x Hx.
      destruct (drain_ops_spec _ _ _ Hin) as [_ [_ [_ [_ [_ Hj]]]]]. specialize (Hj j Hres Hnz).
      rewrite app_assoc in Hx. apply in_app_or in Hx as [Hx|Hx].
      - destruct (Ht x Hx). lia.
      - destruct (drain_ops_spec _ _ _ Hx) as [_ [_ [_ [H4 [H5 _]]]]]. lia. }
    rewrite E2. cbn [andb Nat.ltb Nat.leb app].
    eexists. split; [reflexivity|]. split; [exact HI'|]. cbn [hfree]. exists (L ++ D).
    cbn [m_ops m_drain m_clock ms hmap]. rewrite Hab'. split; [exact W'|]. split; [|split; [|exact Hnd]].
    + intros x Hx. rewrite app_assoc in Hx. apply in_app_or in Hx as [Hx|Hx].
      * destruct (Ht x Hx). lia.
      * destruct (drain_ops_spec _ _ _ Hx) as [_ [_ [_ [H4 [H5 _]]]]]. lia.
    + apply (relA_mono (ms h)); [exact Hpre | exact F].
  - (* a value of the free-running stream *)
    rewrite hstep_free_push in Hs. destruct (hfree h) eqn:Ef; [|discriminate]. cbn [andb] in Hs.
    destruct (N.eqb_spec v 0) as [|Hv]; [discriminate|]. cbn [negb] in Hs. inversion Hs; subst h' o. clear Hs.
    rewrite lmon_free_push. destruct HR as [Hm [Hall [Hp Hnz]]].
    destruct (push_now_spec (ms h) l v HI) as [HI' Hab'].
    eexists. split; [reflexivity|]. split; [exact HI'|]. cbn [hfree]. unfold Rfree. cbn [ms hmap m_ops]. split; [exact Hm|]. split; [|split].
    + apply Forall_app. split; [exact Hall|]. constructor; [|constructor]. split; reflexivity.
    + rewrite map_app, Hab'. cbn [map mo_val].
      eapply Permutation_trans; [apply Permutation_sym, Permutation_cons_append | now apply perm_skip].
    + rewrite Hab'. constructor; [exact Hv | exact Hnz].
  - (* the free-running stream ran *)
    rewrite hstep_free_run in Hs. destruct (hfree h) eqn:Ef; [|discriminate].
    destruct HR as [Hm [Hall [Hp Hnz]]].
    destruct (drain_spec (S (length (heap (ms h)))) (ms h) l HI Hnz) as [HI' [Hab' [Hd _]]].
    { pose proof (abs_len _ _ HI). lia. }
    destruct (drain (S (length (heap (ms h)))) (ms h)) as [s' d] eqn:Ed. cbn [fst snd] in *.
    inversion Hs; subst h' o. clear Hs. subst d.
    rewrite lmon_free_run.
    assert (E1 : pushed_completed (m_ops m) = map mo_val (m_ops m)).
    { unfold pushed_completed. f_equal. apply filter_all. intros x Hx.
      destruct (proj1 (Forall_forall _ _) Hall x Hx) as [-> ->]. reflexivity. }
    assert (E2 : pushed_invoked (m_ops m) = map mo_val (m_ops m)).
    { unfold pushed_invoked. f_equal. apply filter_all. intros x Hx.
      now destruct (proj1 (Forall_forall _ _) Hall x Hx) as [-> _]. }
    assert (Hp' : Permutation (map mo_val (m_ops m)) (isort (abs (ms h)))).
    { eapply Permutation_trans; [exact Hp | apply Permutation_sym, isort_perm']. }
    rewrite E1, E2, (msub_perm' _ _ Hp'), (msub_perm' _ _ (Permutation_sym Hp')). cbn [app].
    eexists. split; [reflexivity|]. split; [exact HI'|]. cbn [hfree]. unfold Rfree. cbn [ms hmap m_ops]. split; [exact Hm|].
    split; [constructor|]. rewrite Hab'. split; [apply Permutation_refl | constructor].
Qed.

(* ------------------------------------------------------------------ *)
Theorem lifo_model_satisfies_monitors_gen evs : forall h m i rep, R m h ->
  monitor lmon i m rep evs (run_obs hstep h evs) = [].
Proof.
  induction evs as [|e evs IH]; intros h m i rep HR; [reflexivity|].
  cbn [run_obs]. destruct (hstep h e) as [[h' o]|] eqn:E; [|reflexivity].
  destruct (mon_step m h e h' o HR E) as (m' & Em & HR').
  cbn [monitor]. rewrite Em. cbn [filter map app]. now apply IH.
Qed.

(* the monitors report nothing on the model's own observations: every config, every event list *)
Theorem lifo_model_satisfies_monitors cfg evs :
  monitor lmon 0 (lminit cfg) [] evs (run_obs hstep (hinit cfg) evs) = [].
Proof. apply lifo_model_satisfies_monitors_gen, R_init. Qed.

Lemma list_eqb_refl' l : list_eqb l l = true.
Proof. induction l as [|x l IH]; [reflexivity|]. cbn [list_eqb]. now rewrite N.eqb_refl, IH. Qed.

Lemma lifo_replay_own evs : forall h i, length (run_obs hstep h evs) = length evs ->
  replay hstep i h evs (run_obs hstep h evs) = [].
Proof.
  induction evs as [|e evs IH]; intros h i Hl; [reflexivity|]. cbn [run_obs replay] in *.
  destruct (hstep h e) as [[h' o]|]; [|discriminate Hl]. cbn [length] in Hl. rewrite list_eqb_refl'. apply IH. lia.
Qed.

(* hence the whole checker accepts every history the model itself produces *)
Theorem lifo_model_run_check_clean cfg evs :
  length (run_obs hstep (hinit cfg) evs) = length evs ->
  run_check_lifo cfg evs (run_obs hstep (hinit cfg) evs) = [].
Proof.
  intros Hl. unfold run_check_lifo, run_check.
  rewrite (lifo_replay_own evs (hinit cfg) 0 Hl), lifo_model_satisfies_monitors. reflexivity.
Qed.
