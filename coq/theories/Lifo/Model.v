(* cqueue.AtomicLIFO at the granularity of its individual atomic operations (C12).

   /repo/cqueue/lifo.go:
     Push(v):  newNode := &node{value: v}
               for { (site 3) oldTop := top.Load(); newNode.next = oldTop; (site 0)
                     if top.CompareAndSwap(oldTop, newNode) { break } }
     Pop():    for { (site 2) oldTop := top.Load(); if oldTop == nil { return zero }
                     next := oldTop.next; (site 1)
                     if top.CompareAndSwap(oldTop, next) { return oldTop.value } }

   Memory model of this file (ASSUMPTION, listed in the trusted base of C12): the heap is a list of nodes,
   a node's address is its index, allocation appends, and an address is never reused.  This IS the
   garbage-collector / no-ABA assumption: a Go pointer that some goroutine still holds keeps its object
   alive, so a compare-and-swap that succeeds on an address succeeds on the same node.  A node is
   written only by the Push call that allocated it and only before that call's successful CAS; published
   nodes are immutable.  Atomic loads and CAS are sequentially consistent single steps.

   One actor per API call.  [Step a] runs actor a from the schedule point at which it is parked to the
   next one (one shared-memory access per step); [Ret a] is the return of the call to its caller (a
   separate event so that the theorems cover every placement of the response after the linearization
   point).  step is total: an ill-timed event is a stutter.  No proofs in this file. *)
From Util Require Import Common.Base Common.ListLemmas.

Definition addr := nat.
Record node := { nval : N; nnext : option addr }.

Inductive pc :=
| PushAlloc (v : N) (n : addr)                      (* node n allocated, parked before the load (site 3) *)
| PushLoaded (v : N) (n : addr) (old : option addr) (* n.next = old written, parked before the CAS (site 0) *)
| PushRet (v : N)                                   (* CAS succeeded (linearized), not yet returned *)
| PushDone (v : N)
| PopStart                                          (* parked before the load (site 2) *)
| PopLoaded (old : addr) (next : option addr)       (* parked before the CAS (site 1) *)
| PopRet (r : option N)                             (* linearized: Some v = removed v, None = saw nil *)
| PopDone (r : option N).

Record lst := { heap : list node; top : option addr; acts : list pc }.

Inductive lev := CallPush (v : N) | CallPop | Step (a : nat) | Ret (a : nat).

Definition linit : lst := {| heap := []; top := None; acts := [] |}.

Definition oaddr_eqb (x y : option addr) : bool :=
  match x, y with
  | None, None => true
  | Some a, Some b => Nat.eqb a b
  | _, _ => false
  end.

(* the value Pop hands to its caller: the zero value when it saw nil *)
Definition retval (r : option N) : N := match r with Some v => v | None => 0%N end.

Definition setpc (s : lst) (a : nat) (p : pc) : list pc := set_nth (acts s) a p.

Definition lstep (s : lst) (e : lev) : lst :=
  match e with
  | CallPush v =>
    {| heap := heap s ++ [{| nval := v; nnext := None |}]; top := top s;
       acts := acts s ++ [PushAlloc v (length (heap s))] |}
  | CallPop => {| heap := heap s; top := top s; acts := acts s ++ [PopStart] |}
  | Step a =>
    match nth_error (acts s) a with
    | None => s
    | Some p =>
      match p with
      | PushAlloc v n =>
        (* oldTop := top.Load(); newNode.next = oldTop *)
        {| heap := set_nth (heap s) n {| nval := v; nnext := top s |}; top := top s;
           acts := setpc s a (PushLoaded v n (top s)) |}
      | PushLoaded v n old =>
        if oaddr_eqb (top s) old
        then {| heap := heap s; top := Some n; acts := setpc s a (PushRet v) |}
        else {| heap := heap s; top := top s; acts := setpc s a (PushAlloc v n) |}
      | PopStart =>
        match top s with
        | None => {| heap := heap s; top := top s; acts := setpc s a (PopRet None) |}
        | Some o =>
          match nth_error (heap s) o with
          | Some c => {| heap := heap s; top := top s; acts := setpc s a (PopLoaded o (nnext c)) |}
          | None => s   (* dangling top: excluded by the invariant *)
          end
        end
      | PopLoaded o next =>
        if oaddr_eqb (top s) (Some o)
        then match nth_error (heap s) o with
             | Some c => {| heap := heap s; top := next; acts := setpc s a (PopRet (Some (nval c))) |}
             | None => s
             end
        else {| heap := heap s; top := top s; acts := setpc s a PopStart |}
      | _ => s
      end
    end
  | Ret a =>
    match nth_error (acts s) a with
    | Some (PushRet v) => {| heap := heap s; top := top s; acts := setpc s a (PushDone v) |}
    | Some (PopRet r) => {| heap := heap s; top := top s; acts := setpc s a (PopDone r) |}
    | _ => s
    end
  end.

Definition lrun (es : list lev) : lst := fold_left lstep es linit.

(* the abstract stack: values reachable from a pointer, top first (fuel = heap size suffices) *)
Fixpoint walk (fuel : nat) (h : list node) (p : option addr) : list N :=
  match fuel, p with
  | S f, Some a => match nth_error h a with
                   | Some c => nval c :: walk f h (nnext c)
                   | None => []
                   end
  | _, _ => []
  end.
Definition abs (s : lst) : list N := walk (length (heap s)) (heap s) (top s).

(* is the step [Step a] in state s a linearization point? *)
Definition is_lp (s : lst) (a : nat) : bool :=
  match nth_error (acts s) a with
  | Some (PushLoaded _ _ old) => oaddr_eqb (top s) old
  | Some PopStart => match top s with None => true | Some _ => false end
  | Some (PopLoaded o _) => oaddr_eqb (top s) (Some o)
  | _ => false
  end.

(* sequential specification: a stack of values; Pop on the empty stack returns the zero value *)
Inductive lop := OPush (v : N) | OPop.
Definition lseq (l : list N) (o : lop) : list N * N :=
  match o with
  | OPush v => (v :: l, 0%N)
  | OPop => match l with [] => ([], 0%N) | v :: l' => (l', v) end
  end.

(* counting predicates for conservation *)
Definition pushed_lin (v : N) (p : pc) : bool :=
  match p with PushRet w | PushDone w => N.eqb v w | _ => false end.
Definition popped (v : N) (p : pc) : bool :=
  match p with PopRet (Some w) | PopDone (Some w) => N.eqb v w | _ => false end.
Definition push_of (v : N) (p : pc) : bool :=
  match p with PushAlloc w _ | PushLoaded w _ _ | PushRet w | PushDone w => N.eqb v w | _ => false end.
