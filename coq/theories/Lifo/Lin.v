(* Lin.v -- index-based Herlihy-Wing linearizability of a history of invoke/response events against a
   sequential specification, and the meta-theorem [lp_run_linearizable]:

     an LP-annotated run (every operation has a linearization-point step between its invocation and
     its response) that the per-thread automaton accepts, whose responses equal the results computed at
     the linearization points, yields a sequential witness S: no duplicate operations, every entry an
     invocation of H with the matching response value if it has one, every completed operation of H
     included, S legal for the sequential specification, real-time order preserved.

   Generic in the operation / result / abstract-state types; instantiated for AtomicLIFO (Proofs.v) and
   LinkedList (LLProofs.v).  [sim_run] at the end turns a per-step forward simulation between a model
   and the annotated automaton into an accepted annotated run for EVERY event list of the model.
   Axiom-free (copied from notes/proto/Lin_proto.v). *)
From Util Require Import Common.Base.
Set Implicit Arguments.
Section Lin.
Variables (Op Ret St : Type).
Variable seq : St -> Op -> St * Ret.
Variable s0 : St.

(* history events (what a client can observe) and annotated events (with linearization points) *)
Inductive hev := Inv (t:nat) (o:Op) | Res (t:nat) (r:Ret).
Inductive aev := AInv (t:nat) (o:Op) | ALp (t:nat) | ARes (t:nat) (r:Ret).

Fixpoint erase (a:list aev) : list hev :=
  match a with
  | [] => []
  | AInv t o :: a' => Inv t o :: erase a'
  | ALp _ :: a' => erase a'
  | ARes t r :: a' => Res t r :: erase a'
  end.

(* an entry of a sequential witness: index of the invocation in H, thread, op, result *)
Record ent := { e_inv : nat; e_t : nat; e_op : Op; e_ret : Ret }.

Fixpoint legal (s:St) (S:list ent) : Prop :=
  match S with
  | [] => True
  | e :: S' => let '(s', r) := seq s (e_op e) in r = e_ret e /\ legal s' S'
  end.

(* first response of thread t in a list of events, with its offset *)
Fixpoint find_res (t:nat) (h:list hev) (off:nat) : option (nat * Ret) :=
  match h with
  | [] => None
  | Res t' r :: h' => if Nat.eqb t t' then Some (off, r) else find_res t h' (S off)
  | Inv _ _ :: h' => find_res t h' (S off)
  end.
Definition response_of (H:list hev) (i:nat) (t:nat) : option (nat * Ret) := find_res t (skipn (S i) H) (S i).

Definition before (S:list ent) (a b:ent) : Prop := exists S1 S2 S3, S = S1 ++ a :: S2 ++ b :: S3.

(* Herlihy-Wing linearizability of H, witnessed by S *)
Record linearization (H:list hev) (S:list ent) : Prop := {
  lin_nodup : NoDup (map e_inv S);
  lin_ops   : forall e, In e S -> nth_error H (e_inv e) = Some (Inv (e_t e) (e_op e)) /\
                                  (forall j r, response_of H (e_inv e) (e_t e) = Some (j, r) -> r = e_ret e);
  lin_compl : forall i t o j r, nth_error H i = Some (Inv t o) -> response_of H i t = Some (j, r) ->
                                exists e, In e S /\ e_inv e = i;
  lin_legal : legal s0 S;
  lin_rt    : forall a b j r, In a S -> In b S -> response_of H (e_inv a) (e_t a) = Some (j, r) -> j < e_inv b -> before S a b
}.

(* running an annotated trace: per-thread status *)
Inductive tst := Idle | Pend (i:nat) (o:Op) | Lind (i:nat) (r:Ret).
Record rs := { st : St; th : nat -> tst; wit : list ent; hlen : nat }.
Definition updt (f:nat->tst) (t:nat) (v:tst) : nat -> tst := fun x => if Nat.eqb x t then v else f x.

Definition astep (s:rs) (e:aev) : option rs :=
  match e with
  | AInv t o => match th s t with Idle => Some {| st := st s; th := updt (th s) t (Pend (hlen s) o); wit := wit s; hlen := S (hlen s) |} | _ => None end
  | ALp t => match th s t with
             | Pend i o => let '(s', r) := seq (st s) o in
                           Some {| st := s'; th := updt (th s) t (Lind i r); wit := wit s ++ [{| e_inv := i; e_t := t; e_op := o; e_ret := r |}]; hlen := hlen s |}
             | _ => None end
  | ARes t r => match th s t with Lind i r' => Some {| st := st s; th := updt (th s) t Idle; wit := wit s; hlen := S (hlen s) |} | _ => None end
  end.
(* NOTE: ARes must return the value computed at the LP; checked separately below to keep Ret without decidable equality *)
Definition res_ok (s:rs) (e:aev) : Prop := match e with ARes t r => match th s t with Lind _ r' => r = r' | _ => True end | _ => True end.

Fixpoint arun (s:rs) (a:list aev) : option rs :=
  match a with [] => Some s | e :: a' => match astep s e with Some s' => arun s' a' | None => None end end.
Fixpoint ares_ok (s:rs) (a:list aev) : Prop :=
  match a with [] => True | e :: a' => res_ok s e /\ match astep s e with Some s' => ares_ok s' a' | None => True end end.

Definition init : rs := {| st := s0; th := fun _ => Idle; wit := []; hlen := 0 |}.


(* ---------- lemmas on responses under extension of the history ---------- *)
Lemma find_res_app t h e off :
  find_res t (h ++ [e]) off =
  match find_res t h off with
  | Some x => Some x
  | None => match e with Res t' r => if Nat.eqb t t' then Some (off + length h, r) else None | Inv _ _ => None end
  end.
Proof.
  revert off; induction h as [|x h IH]; intros off; simpl.
  - destruct e; simpl; auto. rewrite Nat.add_0_r. destruct (Nat.eqb t t0); reflexivity.
  - destruct x as [t' o|t' r].
    + rewrite IH. destruct (find_res t h (S off)); auto. destruct e; auto. replace (S off + length h) with (off + S (length h)) by lia. reflexivity.
    + destruct (Nat.eqb t t'); auto. rewrite IH. destruct (find_res t h (S off)); auto. destruct e; auto. replace (S off + length h) with (off + S (length h)) by lia. reflexivity.
Qed.

Lemma skipn_app_le A (l:list A) x n : n <= length l -> skipn n (l ++ [x]) = skipn n l ++ [x].
Proof. revert n; induction l; intros [|n] H; simpl in *; try lia; auto. apply IHl; lia. Qed.

Lemma response_app H e i t : i < length H ->
  response_of (H ++ [e]) i t =
  match response_of H i t with
  | Some x => Some x
  | None => match e with Res t' r => if Nat.eqb t t' then Some (length H, r) else None | Inv _ _ => None end
  end.
Proof.
  intros Hi. unfold response_of. rewrite skipn_app_le by lia. rewrite find_res_app.
  destruct (find_res t (skipn (S i) H) (S i)); auto. destruct e; auto.
  rewrite skipn_length. replace (S i + (length H - S i)) with (length H) by lia. reflexivity.
Qed.

Lemma response_last H e t : response_of (H ++ [e]) (length H) t = None.
Proof. unfold response_of. rewrite skipn_all2; [reflexivity|]. rewrite app_length; simpl; lia. Qed.

Lemma find_res_ge t h off j r : find_res t h off = Some (j, r) -> off <= j.
Proof. revert off; induction h as [|x h IH]; intros off; simpl; [discriminate|].
  destruct x; [intros E; apply IH in E; lia|]. destruct (Nat.eqb t t0); [intros E; inversion E; lia|intros E; apply IH in E; lia]. Qed.
Lemma response_gt H i t j r : response_of H i t = Some (j, r) -> i < j.
Proof. unfold response_of. intros E. apply find_res_ge in E. lia. Qed.
Lemma find_res_lt t h off j r : find_res t h off = Some (j, r) -> j < off + length h.
Proof. revert off; induction h as [|x h IH]; intros off; simpl; [discriminate|].
  destruct x; [intros E; apply IH in E; lia|]. destruct (Nat.eqb t t0); [intros E; inversion E; lia|intros E; apply IH in E; lia]. Qed.
Lemma response_lt H i t j r : i < length H -> response_of H i t = Some (j, r) -> j < length H.
Proof. unfold response_of. intros Hi E. apply find_res_lt in E. rewrite skipn_length in E. lia. Qed.

Lemma before_app S a b x : before S a b -> before (S ++ [x]) a b.
Proof. intros (S1 & S2 & S3 & ->). exists S1, S2, (S3 ++ [x]). rewrite <- !app_assoc. simpl. rewrite <- !app_assoc. reflexivity. Qed.
Lemma before_last S a x : In a S -> before (S ++ [x]) a x.
Proof. intros Hin. apply in_split in Hin. destruct Hin as (S1 & S2 & ->). exists S1, S2, []. rewrite <- app_assoc. reflexivity. Qed.

(* legal as a fold, to carry the final abstract state *)
Fixpoint exec (s:St) (S:list ent) : St := match S with [] => s | e :: S' => exec (fst (seq s (e_op e))) S' end.
Lemma legal_app s S e : legal s S -> snd (seq (exec s S) (e_op e)) = e_ret e -> legal s (S ++ [e]) /\ exec s (S ++ [e]) = fst (seq (exec s S) (e_op e)).
Proof. revert s; induction S as [|x S IH]; intros s; simpl.
  - intros _ E. destruct (seq s (e_op e)) as [s' r] eqn:Q. simpl in *. auto.
  - destruct (seq s (e_op x)) as [s' r] eqn:Q. simpl. intros [-> L] E. destruct (IH s' L E) as [L' X]. auto. Qed.

(* ---------- the invariant ---------- *)
Definition closed_op (H:list hev) (t i:nat) : Prop := forall o, nth_error H i = Some (Inv t o) -> response_of H i t <> None.

Record Invt (H:list hev) (s:rs) : Prop := {
  i_len : hlen s = length H;
  i_nodup : NoDup (map e_inv (wit s));
  i_ops : forall e, In e (wit s) -> nth_error H (e_inv e) = Some (Inv (e_t e) (e_op e));
  i_ret : forall e j r, In e (wit s) -> response_of H (e_inv e) (e_t e) = Some (j, r) -> r = e_ret e;
  i_compl : forall i t o j r, nth_error H i = Some (Inv t o) -> response_of H i t = Some (j, r) -> exists e, In e (wit s) /\ e_inv e = i;
  i_legal : legal s0 (wit s) /\ exec s0 (wit s) = st s;
  i_rt : forall a b j r, In a (wit s) -> In b (wit s) -> response_of H (e_inv a) (e_t a) = Some (j, r) -> j < e_inv b -> before (wit s) a b;
  i_th : forall t, match th s t with
         | Idle => forall i, closed_op H t i
         | Pend i o => nth_error H i = Some (Inv t o) /\ response_of H i t = None /\ ~ In i (map e_inv (wit s)) /\ (forall k, k <> i -> closed_op H t k)
         | Lind i r => response_of H i t = None /\ (exists e, In e (wit s) /\ e_inv e = i /\ e_t e = t /\ e_ret e = r) /\ (forall k, k <> i -> closed_op H t k)
         end
}.

Lemma nth_app_lt A (l:list A) x i : i < length l -> nth_error (l ++ [x]) i = nth_error l i.
Proof. intros. apply nth_error_app1; auto. Qed.
Lemma nth_app_eq A (l:list A) x : nth_error (l ++ [x]) (length l) = Some x.
Proof. rewrite nth_error_app2 by lia. rewrite Nat.sub_diag. reflexivity. Qed.
Lemma nth_some_lt A (l:list A) i x : nth_error l i = Some x -> i < length l.
Proof. intros E. apply nth_error_Some. congruence. Qed.

Lemma init_inv : Invt [] init.
Proof. constructor; simpl; auto; try (intros; contradiction); try constructor; auto.
  - intros [|?] ? ? ? ? E; discriminate.
  - intros t i o E. destruct i; discriminate.
Qed.

Lemma erase_app a b : erase (a ++ b) = erase a ++ erase b.
Proof. induction a as [|x a IH]; simpl; auto. destruct x; simpl; rewrite ?IH; auto. Qed.

Lemma NoDup_snoc A (l:list A) x : NoDup l -> ~ In x l -> NoDup (l ++ [x]).
Proof. induction l as [|y l IH]; simpl; intros N H.
  - constructor; [intros []|constructor].
  - inversion N; subst. constructor.
    + intros X. apply in_app_or in X. destruct X as [X|[X|[]]]; [auto | subst; apply H; auto].
    + apply IH; auto. Qed.
Lemma NoDup_map_inj A B (f:A->B) l a b : NoDup (map f l) -> In a l -> In b l -> f a = f b -> a = b.
Proof. induction l as [|x l IH]; simpl; intros N Ha Hb E; [contradiction|]. inversion N; subst.
  destruct Ha as [->|Ha], Hb as [->|Hb]; auto.
  - exfalso. apply H1. rewrite E. apply in_map; auto.
  - exfalso. apply H1. rewrite <- E. apply in_map; auto. Qed.

Lemma wit_lt H s e : Invt H s -> In e (wit s) -> e_inv e < length H.
Proof. intros I Hin. eapply nth_some_lt. eapply i_ops; eauto. Qed.

Ltac inv_some := match goal with H: Some _ = Some _ |- _ => inversion H; subst; clear H end.

(* closedness is preserved by extending the history *)
Lemma closed_ext H e t k : k < length H -> closed_op H t k -> closed_op (H ++ [e]) t k.
Proof. intros Hk C o E. rewrite nth_app_lt in E by auto. specialize (C o E). rewrite response_app by auto.
  destruct (response_of H k t); congruence. Qed.

Lemma step_inv A s e s' : Invt (erase A) s -> astep s e = Some s' -> res_ok s e -> Invt (erase (A ++ [e])) s'.
Proof.
  intros I ST RO. rewrite erase_app. set (H := erase A) in *. pose proof (i_len I) as HL.
  destruct e as [t o|t|t r]; simpl in ST; simpl erase.
  - (* AInv *)
    destruct (th s t) eqn:T; try discriminate. inv_some.
    assert (WL: forall e, In e (wit s) -> e_inv e < length H) by (intros; eapply wit_lt; eauto).
    constructor; simpl.
    + rewrite app_length; simpl; lia.
    + apply (i_nodup I).
    + intros e Hin. rewrite nth_app_lt by auto. apply (i_ops I); auto.
    + intros e j r Hin R. rewrite response_app in R by auto. destruct (response_of H (e_inv e) (e_t e)) eqn:Q; [|discriminate]. inv_some. eapply (i_ret I); eauto.
    + intros i t1 o1 j r E R. pose proof (nth_some_lt _ _ E) as L. rewrite app_length in L; simpl in L.
      destruct (Nat.eq_dec i (length H)) as [->|N]; [rewrite response_last in R; discriminate|].
      rewrite nth_app_lt in E by lia. rewrite response_app in R by lia. destruct (response_of H i t1) eqn:Q; [|discriminate]. inv_some. eapply (i_compl I); eauto.
    + apply (i_legal I).
    + intros a b j r Ha Hb R Lt. rewrite response_app in R by auto. destruct (response_of H (e_inv a) (e_t a)) eqn:Q; [|discriminate]. inv_some. eapply (i_rt I); eauto.
    + intros u. unfold updt. destruct (Nat.eqb_spec u t) as [->|NE].
      * rewrite HL. repeat split.
        -- apply nth_app_eq.
        -- apply response_last.
        -- intros X. apply in_map_iff in X. destruct X as (e & E1 & E2). specialize (WL _ E2). lia.
        -- intros k NK o1 E. pose proof (nth_some_lt _ _ E) as L. rewrite app_length in L; simpl in L.
           pose proof (i_th I t) as TH. rewrite T in TH. assert (Lk: k < length H) by lia.
           exact (@closed_ext H (Inv t o) t k Lk (TH k) o1 E).
      * pose proof (i_th I u) as TH.
        assert (CE: forall k, closed_op H u k -> closed_op (H ++ [Inv t o]) u k).
        { intros k C o1 E. pose proof (nth_some_lt _ _ E) as L. rewrite app_length in L; simpl in L.
          destruct (Nat.eq_dec k (length H)) as [->|N]; [rewrite nth_app_eq in E; inversion E; congruence|].
          assert (Lk: k < length H) by lia. exact (@closed_ext H (Inv t o) u k Lk C o1 E). }
        destruct (th s u) eqn:TU.
        -- intros i. apply CE, TH.
        -- destruct TH as (E1 & E2 & E3 & E4). pose proof (nth_some_lt _ _ E1). repeat split; auto.
           ++ rewrite nth_app_lt by auto; auto.
           ++ rewrite response_app by auto. rewrite E2. reflexivity.
        -- destruct TH as (E2 & E3 & E4). repeat split; auto.
           destruct E3 as (e & Hin & Ei & _). specialize (WL _ Hin). rewrite response_app by lia. rewrite E2. reflexivity.
  - (* ALp *)
    destruct (th s t) as [|i o|] eqn:T; try discriminate. destruct (seq (st s) o) as [s1 r] eqn:Q. inv_some.
    pose proof (i_th I t) as THt. rewrite T in THt. destruct THt as (E1 & E2 & E3 & E4).
    rewrite app_nil_r. set (enew := {| e_inv := i; e_t := t; e_op := o; e_ret := r |}).
    constructor; simpl.
    + exact HL.
    + rewrite map_app. simpl. apply NoDup_snoc; [apply (i_nodup I)|exact E3].
    + intros e Hin. apply in_app_or in Hin. destruct Hin as [Hin|[<-|[]]]; [apply (i_ops I); auto|exact E1].
    + intros e j r1 Hin R. apply in_app_or in Hin. destruct Hin as [Hin|[<-|[]]]; [eapply (i_ret I); eauto|]. simpl in R. congruence.
    + intros k t1 o1 j r1 E R. destruct (@i_compl _ _ I _ _ _ _ _ E R) as (e & Hin & Ei). exists e. split; auto. apply in_or_app; auto.
    + destruct (i_legal I) as [LG EX]. destruct (@legal_app s0 (wit s) enew LG) as [L1 L2].
      * simpl. rewrite EX, Q. reflexivity.
      * split; auto. rewrite L2. simpl. rewrite EX, Q. reflexivity.
    + intros a b j r1 Ha Hb R Lt. apply in_app_or in Ha. apply in_app_or in Hb.
      destruct Ha as [Ha|[<-|[]]]; [|simpl in R; congruence].
      destruct Hb as [Hb|[<-|[]]]; [apply before_app; eapply (i_rt I); eauto|apply before_last; auto].
    + intros u. unfold updt. destruct (Nat.eqb_spec u t) as [->|NE].
      * repeat split; auto. exists enew. repeat split; auto. apply in_or_app; right; left; reflexivity.
      * pose proof (i_th I u) as TH. destruct (th s u) eqn:TU; auto.
        -- destruct TH as (F1 & F2 & F3 & F4). repeat split; auto. rewrite map_app. simpl. intros X. apply in_app_or in X. destruct X as [X|[X|[]]]; auto.
           subst. rewrite E1 in F1. inversion F1. congruence.
        -- destruct TH as (F2 & (e & Hin & F3) & F4). repeat split; auto. exists e. split; auto. apply in_or_app; auto.
  - (* ARes *)
    destruct (th s t) as [| |i r'] eqn:T; try discriminate. inv_some. simpl in RO. rewrite T in RO. subst r'.
    assert (WL: forall e, In e (wit s) -> e_inv e < length H) by (intros; eapply wit_lt; eauto).
    pose proof (i_th I t) as THt. rewrite T in THt. destruct THt as (E2 & (e0 & Hin0 & Ei0 & Et0 & Er0) & E4).
    assert (OPEN: forall k o1, k < length H -> nth_error H k = Some (Inv t o1) -> response_of H k t = None -> k = i).
    { intros k o1 Lk E R. destruct (Nat.eq_dec k i); auto. exfalso. apply (E4 k n o1 E R). }
    constructor; simpl.
    + rewrite app_length; simpl; lia.
    + apply (i_nodup I).
    + intros e Hin. rewrite nth_app_lt by auto. apply (i_ops I); auto.
    + intros e j r1 Hin R. rewrite response_app in R by auto. destruct (response_of H (e_inv e) (e_t e)) eqn:Q.
      * injection R as ->. eapply (i_ret I); eauto.
      * destruct (Nat.eqb_spec (e_t e) t) as [Et|]; [|discriminate]. injection R as <- <-.
        assert (e_inv e = i). { eapply OPEN; eauto. rewrite <- Et. apply (i_ops I); auto. rewrite <- Et; auto. }
        assert (e = e0). { eapply NoDup_map_inj; eauto using (i_nodup I). congruence. } subst. auto.
    + intros k t1 o1 j r1 E R. pose proof (nth_some_lt _ _ E) as L. rewrite app_length in L; simpl in L.
      destruct (Nat.eq_dec k (length H)) as [->|N]; [rewrite nth_app_eq in E; discriminate|].
      rewrite nth_app_lt in E by lia. rewrite response_app in R by lia. destruct (response_of H k t1) eqn:Q.
      * injection R as ->. eapply (i_compl I); eauto.
      * destruct (Nat.eqb_spec t1 t) as [->|]; [|discriminate]. exists e0. split; auto. rewrite Ei0. symmetry. eapply OPEN; eauto. lia.
    + apply (i_legal I).
    + intros a b j r1 Ha Hb R Lt. rewrite response_app in R by auto. destruct (response_of H (e_inv a) (e_t a)) eqn:Q.
      * injection R as ->. eapply (i_rt I); eauto.
      * destruct (Nat.eqb (e_t a) t); [|discriminate]. injection R as <- <-. specialize (WL _ Hb). lia.
    + intros u. unfold updt. destruct (Nat.eqb_spec u t) as [->|NE].
      * intros k o1 E. pose proof (nth_some_lt _ _ E) as L. rewrite app_length in L; simpl in L.
        destruct (Nat.eq_dec k (length H)) as [->|N]; [rewrite nth_app_eq in E; discriminate|].
        destruct (Nat.eq_dec k i) as [->|NK].
        -- rewrite response_app by lia. rewrite E2. rewrite Nat.eqb_refl. discriminate.
        -- assert (Lk: k < length H) by lia. exact (@closed_ext H (Res t r) t k Lk (E4 k NK) o1 E).
      * pose proof (i_th I u) as TH.
        assert (CE: forall k, closed_op H u k -> closed_op (H ++ [Res t r]) u k).
        { intros k C o1 E. pose proof (nth_some_lt _ _ E) as L. rewrite app_length in L; simpl in L.
          destruct (Nat.eq_dec k (length H)) as [->|N]; [rewrite nth_app_eq in E; discriminate|].
          assert (Lk: k < length H) by lia. exact (@closed_ext H (Res t r) u k Lk C o1 E). }
        assert (NEb: Nat.eqb u t = false) by (apply Nat.eqb_neq; auto).
        destruct (th s u) eqn:TU.
        -- intros k. apply CE, TH.
        -- destruct TH as (F1 & F2 & F3 & F4). pose proof (nth_some_lt _ _ F1). repeat split; auto.
           ++ rewrite nth_app_lt by auto; auto.
           ++ rewrite response_app by auto. rewrite F2, NEb. reflexivity.
        -- destruct TH as (F2 & F3 & F4). repeat split; auto.
           destruct F3 as (e & Hin & Ei & _). specialize (WL _ Hin). rewrite response_app by lia. rewrite F2, NEb. reflexivity.
Qed.

(* ---------- main theorem ---------- *)
Lemma run_inv A0 s A f : Invt (erase A0) s -> arun s A = Some f -> ares_ok s A -> Invt (erase (A0 ++ A)) f.
Proof. revert A0 s. induction A as [|e A IH]; intros A0 s I R OK; simpl in *.
  - inv_some. rewrite app_nil_r. auto.
  - destruct (astep s e) as [s'|] eqn:ST; [|discriminate]. destruct OK as [O1 O2].
    replace (A0 ++ e :: A) with ((A0 ++ [e]) ++ A) by (rewrite <- app_assoc; reflexivity).
    eapply IH; eauto. eapply step_inv; eauto. Qed.

Theorem lp_run_linearizable A f : arun init A = Some f -> ares_ok init A -> linearization (erase A) (wit f).
Proof. intros R OK. pose proof (@run_inv [] init A f init_inv R OK) as I. simpl in I.
  constructor.
  - apply (i_nodup I).
  - intros e Hin. split. apply (i_ops I); auto. intros j r X. eapply (i_ret I); eauto.
  - apply (i_compl I).
  - apply (i_legal I).
  - apply (i_rt I).
Qed.


(* ---------- composition lemmas and the generic forward-simulation wrapper ---------- *)
Lemma arun_app s a b : arun s (a ++ b) = match arun s a with Some s' => arun s' b | None => None end.
Proof. revert s; induction a as [|e a IH]; intros s; simpl; [reflexivity|]. destruct (astep s e); [apply IH|reflexivity]. Qed.

Lemma ares_ok_app s a b s' : arun s a = Some s' -> ares_ok s a -> ares_ok s' b -> ares_ok s (a ++ b).
Proof.
  revert s; induction a as [|e a IH]; intros s; simpl.
  - intros E _ Hb. inversion E; subst. exact Hb.
  - destruct (astep s e) as [s1|] eqn:ST; [|discriminate]. intros E [O1 O2] Hb. split; [exact O1|]. eapply IH; eauto.
Qed.

Section Sim.
  Variables (mstate mev : Type).
  Variable mstep : mstate -> mev -> mstate.
  Variable annot : mstate -> mev -> list aev.
  Variable R : mstate -> rs -> Prop.
  Hypothesis sim_step : forall s e r, R s r ->
    exists r', arun r (annot s e) = Some r' /\ ares_ok r (annot s e) /\ R (mstep s e) r'.

  (* the annotated trace of an event list from state s *)
  Fixpoint atrace (s : mstate) (es : list mev) : list aev :=
    match es with [] => [] | e :: es' => annot s e ++ atrace (mstep s e) es' end.

  Lemma sim_run es : forall s r, R s r ->
    exists f, arun r (atrace s es) = Some f /\ ares_ok r (atrace s es) /\ R (fold_left mstep es s) f.
  Proof.
    induction es as [|e es IH]; intros s r HR; simpl.
    - exists r. repeat split; auto.
    - destruct (sim_step e HR) as (r1 & A1 & O1 & R1). destruct (IH _ _ R1) as (f & A2 & O2 & R2).
      exists f. split; [|split; [|exact R2]].
      + rewrite arun_app, A1. exact A2.
      + eapply ares_ok_app; eauto.
  Qed.
End Sim.

End Lin.
Print Assumptions lp_run_linearizable.
