(* Proofs about the AtomicLIFO model: representation invariant, abstraction function, linearization
   points, linearizability (via Lin.v), conservation. *)
From Util Require Import Common.Base Common.ListLemmas Lifo.Model Lifo.Lin.

(* ------------------------------------------------------------------ *)
(* list segments in the heap *)
Fixpoint lseg (h : list node) (p : option addr) (l : list addr) : Prop :=
  match l with
  | [] => p = None
  | a :: l' => p = Some a /\ exists c, nth_error h a = Some c /\ lseg h (nnext c) l'
  end.

Definition val_at (h : list node) (a : addr) : N :=
  match nth_error h a with Some c => nval c | None => 0%N end.
Definition vals (h : list node) (l : list addr) : list N := map (val_at h) l.

Lemma lseg_lt h : forall l p a, lseg h p l -> In a l -> a < length h.
Proof.
  induction l as [|x l IH]; intros p a Hs Hin; [destruct Hin|].
  destruct Hs as [_ [c [Hc Hs]]]. destruct Hin as [<-|Hin].
  - eapply nth_error_nth_len; eauto.
  - eapply IH; eauto.
Qed.

Lemma lseg_ext h h' : forall l p, (forall a, In a l -> nth_error h' a = nth_error h a) -> lseg h p l -> lseg h' p l.
Proof.
  induction l as [|x l IH]; intros p He Hs; [exact Hs|].
  destruct Hs as [Hp [c [Hc Hs]]]. split; [exact Hp|]. exists c. split.
  - rewrite He; [exact Hc | now left].
  - apply IH; [|exact Hs]. intros a Ha. apply He. now right.
Qed.

Lemma vals_ext h h' l : (forall a, In a l -> nth_error h' a = nth_error h a) -> vals h' l = vals h l.
Proof. intros He. unfold vals. apply map_ext_in. intros a Ha. unfold val_at. now rewrite He. Qed.

Lemma walk_lseg h : forall l fuel p, lseg h p l -> length l <= fuel -> walk fuel h p = vals h l.
Proof.
  induction l as [|x l IH]; intros fuel p Hs Hl.
  - cbn in Hs. subst p. destruct fuel; reflexivity.
  - destruct Hs as [-> [c [Hc Hs]]]. cbn [length] in Hl. destruct fuel as [|f]; [lia|].
    cbn [walk vals map]. rewrite Hc. unfold val_at at 1. rewrite Hc. f_equal. apply IH; [exact Hs | lia].
Qed.

Lemma nodup_bound (l : list nat) n : NoDup l -> (forall a, In a l -> a < n) -> length l <= n.
Proof.
  intros Hnd Hlt. rewrite <- (seq_length n 0). apply NoDup_incl_length; [exact Hnd|].
  intros a Ha. apply in_seq. specialize (Hlt a Ha). lia.
Qed.

(* ------------------------------------------------------------------ *)
(* the representation invariant *)
Definition owns (p : pc) (n : addr) : Prop :=
  match p with PushAlloc _ m | PushLoaded _ m _ => m = n | _ => False end.
Definition owned (s : lst) (n : addr) : Prop :=
  exists a p, nth_error (acts s) a = Some p /\ owns p n.

Definition act_ok (s : lst) (p : pc) : Prop :=
  match p with
  | PushAlloc v n => exists c, nth_error (heap s) n = Some c /\ nval c = v
  | PushLoaded v n old => nth_error (heap s) n = Some {| nval := v; nnext := old |}
  | PopLoaded o next => exists c, nth_error (heap s) o = Some c /\ nnext c = next /\ ~ owned s o
  | _ => True
  end.

Record LInv (s : lst) (l : list addr) : Prop := {
  li_seg : lseg (heap s) (top s) l;
  li_nodup : NoDup l;
  li_pub : forall n, In n l -> ~ owned s n;
  li_uniq : forall a b p q n, nth_error (acts s) a = Some p -> nth_error (acts s) b = Some q ->
                              owns p n -> owns q n -> a = b;
  li_act : forall a p, nth_error (acts s) a = Some p -> act_ok s p
}.

Lemma linit_inv : LInv linit [].
Proof.
  constructor; cbn.
  - reflexivity.
  - constructor.
  - intros n [].
  - intros a b p q n Ha. destruct a; discriminate.
  - intros a p Ha. destruct a; discriminate.
Qed.

Lemma owns_lt s l a p n : LInv s l -> nth_error (acts s) a = Some p -> owns p n -> n < length (heap s).
Proof.
  intros HI Ha Ho. pose proof (li_act _ _ HI a p Ha) as Hok.
  destruct p; cbn in Ho; try contradiction; subst; cbn in Hok.
  - destruct Hok as [c [Hc _]]. eapply nth_error_nth_len; eauto.
  - eapply nth_error_nth_len; eauto.
Qed.

Lemma abs_vals s l : LInv s l -> abs s = vals (heap s) l.
Proof.
  intros HI. unfold abs. apply walk_lseg; [apply (li_seg _ _ HI)|].
  apply nodup_bound; [apply (li_nodup _ _ HI)|]. intros a Ha. eapply lseg_lt; [apply (li_seg _ _ HI) | exact Ha].
Qed.

(* the chain after an event *)
Definition next_l (s : lst) (l : list addr) (e : lev) : list addr :=
  match e with
  | Step a =>
    match nth_error (acts s) a with
    | Some (PushLoaded _ n old) => if oaddr_eqb (top s) old then n :: l else l
    | Some (PopLoaded o _) => if oaddr_eqb (top s) (Some o) then tl l else l
    | _ => l
    end
  | _ => l
  end.

Lemma oaddr_eqb_eq x y : oaddr_eqb x y = true <-> x = y.
Proof.
  destruct x as [a|], y as [b|]; cbn; split; intros H; try discriminate; try reflexivity.
  - apply Nat.eqb_eq in H. now subst.
  - inversion H. apply Nat.eqb_refl.
Qed.

(* ownership after replacing the pc of one actor by one that owns no more *)
Lemma owned_set_sub s h' t' a p p' n :
  nth_error (acts s) a = Some p -> (forall m, owns p' m -> owns p m) ->
  owned {| heap := h'; top := t'; acts := set_nth (acts s) a p' |} n -> owned s n.
Proof.
  intros Ha Hsub [b [q [Hb Ho]]]. cbn [acts] in Hb.
  destruct (Nat.eq_dec b a) as [->|Hne].
  - rewrite nth_error_set_nth_same in Hb by (eapply nth_error_nth_len; eauto). inversion Hb; subst q.
    exists a, p. split; [exact Ha | now apply Hsub].
  - rewrite nth_error_set_nth_other in Hb by exact Hne. exists b, q. now split.
Qed.

Lemma uniq_set_sub s a p p' :
  nth_error (acts s) a = Some p -> (forall m, owns p' m -> owns p m) ->
  (forall x y px py n, nth_error (acts s) x = Some px -> nth_error (acts s) y = Some py -> owns px n -> owns py n -> x = y) ->
  forall x y px py n, nth_error (set_nth (acts s) a p') x = Some px -> nth_error (set_nth (acts s) a p') y = Some py ->
                      owns px n -> owns py n -> x = y.
Proof.
  intros Ha Hsub Hu x y px py n Hx Hy Hox Hoy.
  assert (Hl : a < length (acts s)) by (eapply nth_error_nth_len; eauto).
  assert (Hgen : forall z pz, nth_error (set_nth (acts s) a p') z = Some pz -> owns pz n ->
                              exists pz', nth_error (acts s) z = Some pz' /\ owns pz' n).
  { intros z pz Hz Hoz. destruct (Nat.eq_dec z a) as [->|Hne].
    - rewrite nth_error_set_nth_same in Hz by exact Hl. inversion Hz; subst pz. exists p. split; [exact Ha | now apply Hsub].
    - rewrite nth_error_set_nth_other in Hz by exact Hne. now exists pz. }
  destruct (Hgen x px Hx Hox) as [px' [Hx' Hox']]. destruct (Hgen y py Hy Hoy) as [py' [Hy' Hoy']].
  eapply Hu; eauto.
Qed.

Definition paddr (p : pc) : option addr :=
  match p with PushAlloc _ n | PushLoaded _ n _ => Some n | PopLoaded o _ => Some o | _ => None end.

Lemma act_ok_frame s s' p :
  (forall m c, paddr p = Some m -> nth_error (heap s) m = Some c -> nth_error (heap s') m = Some c) ->
  (forall n, paddr p = Some n -> owned s' n -> owned s n) ->
  act_ok s p -> act_ok s' p.
Proof.
  intros Hh Ho Hok. destruct p as [v n|v n old|v|v| |o nx|r|r]; cbn [act_ok paddr] in *; try exact I.
  - destruct Hok as [c [Hc Hv]]. exists c. split; [now apply (Hh n)|exact Hv].
  - now apply (Hh n).
  - destruct Hok as [c [Hc [Hn Hno]]]. exists c. split; [now apply (Hh o)|]. split; [exact Hn|].
    intros Hown. apply Hno. now apply Ho.
Qed.

Lemma nth_error_snoc_inv {A} (l : list A) y a x :
  nth_error (l ++ [y]) a = Some x -> (a < length l /\ nth_error l a = Some x) \/ (a = length l /\ x = y).
Proof.
  intros H. destruct (Nat.lt_ge_cases a (length l)) as [Hl|Hl].
  - left. split; [exact Hl|]. now rewrite nth_error_app1 in H.
  - right. rewrite nth_error_app2 in H by lia. destruct (a - length l) as [|k] eqn:E; cbn in H.
    + split; [lia | congruence].
    + destruct k; discriminate.
Qed.

(* a step that only replaces the pc of actor a (heap unchanged), the new pc owning no more *)
Lemma inv_setpc s l a p p' t' l' :
  LInv s l -> nth_error (acts s) a = Some p -> (forall m, owns p' m -> owns p m) ->
  lseg (heap s) t' l' -> NoDup l' ->
  (forall n, In n l' -> In n l \/ (owns p n /\ ~ owns p' n)) ->
  act_ok s p' ->
  LInv {| heap := heap s; top := t'; acts := set_nth (acts s) a p' |} l'.
Proof.
  intros HI Ha Hsub Hseg Hnd Hin Hok'.
  assert (Hl : a < length (acts s)) by (eapply nth_error_nth_len; eauto).
  assert (Hown : forall n, owned {| heap := heap s; top := t'; acts := set_nth (acts s) a p' |} n -> owned s n)
    by (intros n; eapply owned_set_sub; eauto).
  constructor; cbn [heap top acts].
  - exact Hseg.
  - exact Hnd.
  - intros n Hn Ho. destruct (Hin n Hn) as [Hn'|[Hop Hnop]].
    + apply (li_pub _ _ HI n Hn'). now apply Hown.
    + destruct Ho as [b [q [Hb Hoq]]]. cbn [acts] in Hb. destruct (Nat.eq_dec b a) as [->|Hne].
      * rewrite nth_error_set_nth_same in Hb by exact Hl. inversion Hb; subst q. contradiction.
      * rewrite nth_error_set_nth_other in Hb by exact Hne.
        apply Hne. eapply (li_uniq _ _ HI); eauto.
  - eapply uniq_set_sub; eauto. apply (li_uniq _ _ HI).
  - intros b q Hb. destruct (Nat.eq_dec b a) as [->|Hne].
    + rewrite nth_error_set_nth_same in Hb by exact Hl. inversion Hb; subst q.
      eapply act_ok_frame; [| |exact Hok']; cbn [heap]; auto.
    + rewrite nth_error_set_nth_other in Hb by exact Hne.
      eapply act_ok_frame; [| |apply (li_act _ _ HI b q Hb)]; cbn [heap]; auto.
Qed.

(* a call: a new actor, possibly with a freshly allocated node *)
Lemma inv_call s l hx p' :
  LInv s l -> (forall n, owns p' n -> n = length (heap s)) ->
  act_ok {| heap := heap s ++ hx; top := top s; acts := acts s ++ [p'] |} p' ->
  LInv {| heap := heap s ++ hx; top := top s; acts := acts s ++ [p'] |} l.
Proof.
  intros HI Hfresh Hok'.
  assert (Hold : forall n, n < length (heap s) ->
            owned {| heap := heap s ++ hx; top := top s; acts := acts s ++ [p'] |} n -> owned s n).
  { intros n Hn [b [q [Hb Hoq]]]. cbn [acts] in Hb. apply nth_error_snoc_inv in Hb as [[_ Hb]|[_ ->]].
    - exists b, q. now split.
    - apply Hfresh in Hoq. lia. }
  assert (Hgrow : forall m c, nth_error (heap s) m = Some c -> nth_error (heap s ++ hx) m = Some c).
  { intros m c Hm. rewrite nth_error_app1; [exact Hm | eapply nth_error_nth_len; eauto]. }
  constructor; cbn [heap top acts].
  - eapply lseg_ext; [|apply (li_seg _ _ HI)]. intros a Ha.
    rewrite nth_error_app1; [reflexivity|]. eapply lseg_lt; [apply (li_seg _ _ HI)|exact Ha].
  - apply (li_nodup _ _ HI).
  - intros n Hn Ho. apply (li_pub _ _ HI n Hn). apply Hold; [|exact Ho].
    eapply lseg_lt; [apply (li_seg _ _ HI)|exact Hn].
  - intros a b p q n Ha Hb Hop Hoq.
    apply nth_error_snoc_inv in Ha as [[Hla Ha]|[-> ->]]; apply nth_error_snoc_inv in Hb as [[Hlb Hb]|[-> ->]].
    + eapply (li_uniq _ _ HI); eauto.
    + apply Hfresh in Hoq. pose proof (owns_lt _ _ _ _ _ HI Ha Hop). lia.
    + apply Hfresh in Hop. pose proof (owns_lt _ _ _ _ _ HI Hb Hoq). lia.
    + reflexivity.
  - intros b q Hb. apply nth_error_snoc_inv in Hb as [[_ Hb]|[_ ->]]; [|exact Hok'].
    pose proof (li_act _ _ HI b q Hb) as Hok.
    eapply act_ok_frame; [| |exact Hok]; cbn [heap].
    + intros m c _ Hm. now apply Hgrow.
    + intros n Hp. apply Hold.
      destruct q as [v m|v m old|v|v| |o nx|r|r]; cbn [paddr] in Hp; try discriminate; inversion Hp; subst; cbn [act_ok] in Hok.
      * destruct Hok as [c [Hc _]]. eapply nth_error_nth_len; eauto.
      * eapply nth_error_nth_len; eauto.
      * destruct Hok as [c [Hc _]]. eapply nth_error_nth_len; eauto.
Qed.

(* the private write of a Push to its own node: newNode.next = oldTop *)
Lemma inv_write s l a v n :
  LInv s l -> nth_error (acts s) a = Some (PushAlloc v n) ->
  LInv {| heap := set_nth (heap s) n {| nval := v; nnext := top s |}; top := top s;
          acts := set_nth (acts s) a (PushLoaded v n (top s)) |} l.
Proof.
  intros HI Ha.
  assert (Hl : a < length (acts s)) by (eapply nth_error_nth_len; eauto).
  assert (Hn : n < length (heap s)) by (eapply owns_lt; eauto; reflexivity).
  assert (Hsub : forall m, owns (PushLoaded v n (top s)) m -> owns (PushAlloc v n) m) by (intros m Hm; exact Hm).
  assert (Howned : owned s n) by (exists a, (PushAlloc v n); split; [exact Ha | reflexivity]).
  constructor; cbn [heap top acts].
  - eapply lseg_ext; [|apply (li_seg _ _ HI)]. intros x Hx. apply nth_error_set_nth_other.
    intros ->. now apply (li_pub _ _ HI n Hx).
  - apply (li_nodup _ _ HI).
  - intros m Hm Ho. apply (li_pub _ _ HI m Hm). eapply (owned_set_sub s _ _ a (PushAlloc v n) (PushLoaded v n (top s))); [exact Ha | exact Hsub | exact Ho].
  - eapply uniq_set_sub; eauto. apply (li_uniq _ _ HI).
  - intros b q Hb. destruct (Nat.eq_dec b a) as [->|Hne].
    + rewrite nth_error_set_nth_same in Hb by exact Hl. inversion Hb; subst q. cbn [act_ok heap].
      now apply nth_error_set_nth_same.
    + rewrite nth_error_set_nth_other in Hb by exact Hne.
      pose proof (li_act _ _ HI b q Hb) as Hok.
      eapply act_ok_frame; [| |exact Hok]; cbn [heap].
      * intros m c Hp Hm. rewrite nth_error_set_nth_other; [exact Hm|]. intros ->.
        destruct q as [v' m|v' m old|v'|v'| |o nx|r|r]; cbn [paddr] in Hp; try discriminate; inversion Hp; subst.
        -- apply Hne. eapply (li_uniq _ _ HI); eauto; reflexivity.
        -- apply Hne. eapply (li_uniq _ _ HI); eauto; reflexivity.
        -- cbn [act_ok] in Hok. destruct Hok as [c' [_ [_ Hno]]]. now apply Hno.
      * intros m _ Ho. eapply (owned_set_sub s _ _ a (PushAlloc v n) (PushLoaded v n (top s))); [exact Ha | exact Hsub | exact Ho].
Qed.

Lemma lseg_head h o l : lseg h (Some o) l -> exists c l', l = o :: l' /\ nth_error h o = Some c /\ lseg h (nnext c) l'.
Proof.
  destruct l as [|x l']; cbn; [discriminate|]. intros [Hx [c [Hc Hs]]]. inversion Hx; subst x. now exists c, l'.
Qed.

Lemma lstep_inv s l e : LInv s l -> LInv (lstep s e) (next_l s l e).
Proof.
  intros HI. destruct e as [v| |a|a]; cbn [lstep next_l].
  - (* CallPush *)
    apply inv_call; [exact HI | |].
    + intros n Ho. cbn in Ho. now subst.
    + cbn [act_ok heap]. exists {| nval := v; nnext := None |}. split; [|reflexivity].
      rewrite nth_error_app2 by lia. now rewrite Nat.sub_diag.
  - (* CallPop *)
    pose proof (inv_call s l [] PopStart HI) as H. rewrite app_nil_r in H. apply H.
    + intros n [].
    + exact I.
  - (* Step *)
    destruct (nth_error (acts s) a) as [p|] eqn:Ha; [|exact HI].
    destruct p as [v n|v n old|v|v| |o nx|r|r]; try exact HI.
    + (* load of a Push *) now apply inv_write.
    + (* CAS of a Push *)
      pose proof (li_act _ _ HI a _ Ha) as Hok. cbn [act_ok] in Hok.
      destruct (oaddr_eqb (top s) old) eqn:E.
      * apply oaddr_eqb_eq in E.
        apply (inv_setpc s l a _ (PushRet v) (Some n) (n :: l) HI Ha).
        -- intros m [].
        -- split; [reflexivity|]. exists {| nval := v; nnext := old |}. split; [exact Hok|]. cbn [nnext].
           rewrite <- E. apply (li_seg _ _ HI).
        -- constructor; [|apply (li_nodup _ _ HI)]. intros Hin. apply (li_pub _ _ HI n Hin).
           exists a, (PushLoaded v n old). split; [exact Ha | reflexivity].
        -- intros m [<-|Hm]; [right; split; [reflexivity | intros []] | now left].
        -- exact I.
      * apply (inv_setpc s l a _ (PushAlloc v n) (top s) l HI Ha).
        -- intros m Hm. exact Hm.
        -- apply (li_seg _ _ HI).
        -- apply (li_nodup _ _ HI).
        -- intros m Hm. now left.
        -- cbn [act_ok]. eexists. split; [exact Hok | reflexivity].
    + (* load of a Pop *)
      destruct (top s) as [o|] eqn:Et.
      * destruct (nth_error (heap s) o) as [c|] eqn:Ho; [|exact HI].
        pose proof (li_seg _ _ HI) as Hseg. rewrite Et in Hseg.
        apply (inv_setpc s l a _ (PopLoaded o (nnext c)) (Some o) l HI Ha).
        -- intros m [].
        -- exact Hseg.
        -- apply (li_nodup _ _ HI).
        -- intros m Hm. now left.
        -- cbn [act_ok]. exists c. split; [exact Ho|]. split; [reflexivity|].
           apply (li_pub _ _ HI). destruct (lseg_head _ _ _ Hseg) as [c' [l' [-> _]]]. now left.
      * pose proof (li_seg _ _ HI) as Hseg. rewrite Et in Hseg.
        apply (inv_setpc s l a _ (PopRet None) None l HI Ha).
        -- intros m [].
        -- exact Hseg.
        -- apply (li_nodup _ _ HI).
        -- intros m Hm. now left.
        -- exact I.
    + (* CAS of a Pop *)
      pose proof (li_act _ _ HI a _ Ha) as Hok. cbn [act_ok] in Hok. destruct Hok as [c [Hc [Hnx Hno]]].
      destruct (oaddr_eqb (top s) (Some o)) eqn:E.
      * apply oaddr_eqb_eq in E. rewrite Hc.
        pose proof (li_seg _ _ HI) as Hseg. rewrite E in Hseg.
        destruct (lseg_head _ _ _ Hseg) as [c' [l' [-> [Hc' Hseg']]]].
        rewrite Hc in Hc'. inversion Hc'; subst c'. cbn [tl].
        apply (inv_setpc s (o :: l') a _ (PopRet (Some (nval c))) nx l' HI Ha).
        -- intros m [].
        -- now rewrite <- Hnx.
        -- pose proof (li_nodup _ _ HI) as Hnd. now inversion Hnd.
        -- intros m Hm. left. now right.
        -- exact I.
      * apply (inv_setpc s l a _ PopStart (top s) l HI Ha).
        -- intros m [].
        -- apply (li_seg _ _ HI).
        -- apply (li_nodup _ _ HI).
        -- intros m Hm. now left.
        -- exact I.
  - (* Ret *)
    destruct (nth_error (acts s) a) as [p|] eqn:Ha; [|exact HI].
    destruct p as [v n|v n old|v|v| |o nx|r|r]; try exact HI.
    + apply (inv_setpc s l a _ (PushDone v) (top s) l HI Ha); try exact I.
      * intros m [].
      * apply (li_seg _ _ HI).
      * apply (li_nodup _ _ HI).
      * intros m Hm. now left.
    + apply (inv_setpc s l a _ (PopDone r) (top s) l HI Ha); try exact I.
      * intros m [].
      * apply (li_seg _ _ HI).
      * apply (li_nodup _ _ HI).
      * intros m Hm. now left.
Qed.

Theorem lrun_inv es : exists l, LInv (lrun es) l.
Proof.
  unfold lrun. apply (fold_inv (fun s => exists l, LInv s l)).
  - intros s e [l HI]. exists (next_l s l e). now apply lstep_inv.
  - exists []. exact linit_inv.
Qed.

(* ------------------------------------------------------------------ *)
(* the abstract stack along a step *)
Lemma heap_step_same s e :
  (forall v, e <> CallPush v) ->
  (forall a v n, e = Step a -> nth_error (acts s) a <> Some (PushAlloc v n)) ->
  heap (lstep s e) = heap s.
Proof.
  intros H1 H2. destruct e as [v| |a|a]; cbn [lstep].
  - now destruct (H1 v).
  - reflexivity.
  - destruct (nth_error (acts s) a) as [p|] eqn:Ha; [|reflexivity].
    destruct p as [v n|v n old|v|v| |o nx|r|r]; try reflexivity.
    + now destruct (H2 a v n eq_refl).
    + destruct (oaddr_eqb (top s) old); reflexivity.
    + destruct (top s) as [o|]; [|reflexivity]. destruct (nth_error (heap s) o); reflexivity.
    + destruct (oaddr_eqb (top s) (Some o)); [|reflexivity]. destruct (nth_error (heap s) o); reflexivity.
  - destruct (nth_error (acts s) a) as [p|] eqn:Ha; [|reflexivity].
    destruct p; reflexivity.
Qed.

Lemma abs_step s l e : LInv s l -> abs (lstep s e) = vals (heap s) (next_l s l e).
Proof.
  intros HI. rewrite (abs_vals _ _ (lstep_inv s l e HI)).
  destruct e as [v| |a|a].
  - cbn [lstep next_l heap]. apply vals_ext. intros x Hx. apply nth_error_app1.
    eapply lseg_lt; [apply (li_seg _ _ HI)|exact Hx].
  - now rewrite heap_step_same by (intros; discriminate).
  - destruct (nth_error (acts s) a) as [p|] eqn:Ha.
    + destruct p as [v n|v n old|v|v| |o nx|r|r].
      2-8: rewrite heap_step_same; [reflexivity | intros; discriminate | intros a0 v0 n0 E; inversion E; subst a0; rewrite Ha; discriminate].
      cbn [lstep next_l]. rewrite Ha. cbn [heap]. apply vals_ext. intros x Hx. apply nth_error_set_nth_other.
      intros ->. apply (li_pub _ _ HI n Hx). exists a, (PushAlloc v n). split; [exact Ha | reflexivity].
    + rewrite heap_step_same; [reflexivity | intros; discriminate | intros a0 v0 n0 E; inversion E; subst a0; rewrite Ha; discriminate].
  - now rewrite heap_step_same by (intros; discriminate).
Qed.

(* phase of a call as seen from outside *)
Inductive phase := PhPend (o : lop) | PhLin (r : N) | PhIdle.
Definition phase_of (p : pc) : phase :=
  match p with
  | PushAlloc v _ | PushLoaded v _ _ => PhPend (OPush v)
  | PopStart | PopLoaded _ _ => PhPend OPop
  | PushRet _ => PhLin 0%N
  | PopRet r => PhLin (retval r)
  | PushDone _ | PopDone _ => PhIdle
  end.

Lemma lseg_none h l : lseg h None l -> l = [].
Proof. destruct l; cbn; [reflexivity | intros [H _]; discriminate]. Qed.

(* the pc of an actor right after its linearization point *)
Definition lin_pc (o : lop) (stk : list N) : pc :=
  match o with
  | OPush v => PushRet v
  | OPop => PopRet (match stk with [] => None | v :: _ => Some v end)
  end.

Lemma lin_pc_phase o stk : phase_of (lin_pc o stk) = PhLin (snd (lseq stk o)).
Proof. destruct o as [v|]; [reflexivity|]. destruct stk; reflexivity. Qed.

(* what one [Step a] does, seen through the abstraction:
   - at a linearization point the pending operation o of actor a is applied to the abstract stack
     and the actor keeps the result computed there;
   - every other step leaves the abstract stack unchanged and the actor pending on the same operation *)
Lemma step_abs s l a : LInv s l ->
  let s' := lstep s (Step a) in
  if is_lp s a
  then exists p o, nth_error (acts s) a = Some p /\ phase_of p = PhPend o /\
                   abs s' = fst (lseq (abs s) o) /\
                   acts s' = set_nth (acts s) a (lin_pc o (abs s))
  else abs s' = abs s /\
       (s' = s \/ exists p p' o, nth_error (acts s) a = Some p /\ acts s' = set_nth (acts s) a p' /\
                                 phase_of p = PhPend o /\ phase_of p' = PhPend o).
Proof.
  intros HI s'. pose proof (abs_step s l (Step a) HI) as Habs. fold s' in Habs.
  pose proof (abs_vals s l HI) as Habs0.
  unfold is_lp. subst s'. cbn [lstep next_l] in *.
  destruct (nth_error (acts s) a) as [p|] eqn:Ha; [|split; [congruence | now left]].
  destruct p as [v n|v n old|v|v| |o nx|r|r]; try (split; [congruence | now left]).
  - (* Push load *)
    split; [congruence|]. right. exists (PushAlloc v n), (PushLoaded v n (top s)), (OPush v). repeat split; reflexivity.
  - (* Push CAS *)
    pose proof (li_act _ _ HI a _ Ha) as Hok. cbn [act_ok] in Hok.
    destruct (oaddr_eqb (top s) old) eqn:E.
    + exists (PushLoaded v n old), (OPush v). cbn [phase_of lseq fst snd acts lin_pc].
      repeat split; try reflexivity. rewrite Habs, Habs0. cbn [vals map]. unfold val_at at 1. now rewrite Hok.
    + split; [congruence|]. right. exists (PushLoaded v n old), (PushAlloc v n), (OPush v). repeat split; reflexivity.
  - (* Pop load *)
    pose proof (li_seg _ _ HI) as Hseg.
    destruct (top s) as [o|] eqn:Et.
    + split; [congruence|]. destruct (nth_error (heap s) o) as [c|] eqn:Ho; [|now left].
      right. exists PopStart, (PopLoaded o (nnext c)), OPop. repeat split; reflexivity.
    + apply lseg_none in Hseg. subst l. cbn [vals map] in *.
      exists PopStart, OPop. rewrite Habs0. cbn [phase_of lseq fst snd acts lin_pc].
      repeat split; try reflexivity. exact Habs.
  - (* Pop CAS *)
    pose proof (li_act _ _ HI a _ Ha) as Hok. cbn [act_ok] in Hok. destruct Hok as [c [Hc [Hnx Hno]]].
    destruct (oaddr_eqb (top s) (Some o)) eqn:E.
    + apply oaddr_eqb_eq in E. pose proof (li_seg _ _ HI) as Hseg. rewrite E in Hseg.
      destruct (lseg_head _ _ _ Hseg) as [c' [l' [-> [Hc' Hseg']]]].
      rewrite Hc in Habs |- *. cbn [tl vals map] in *.
      exists (PopLoaded o nx), OPop. rewrite Habs0.
      assert (Hv : val_at (heap s) o = nval c) by (unfold val_at; now rewrite Hc).
      rewrite Hv. cbn [phase_of lseq fst snd acts lin_pc].
      repeat split; try reflexivity. exact Habs.
    + split; [congruence|]. right. exists (PopLoaded o nx), PopStart, OPop. repeat split; reflexivity.
Qed.

Lemma call_abs s l e : LInv s l -> (forall a, e <> Step a) -> abs (lstep s e) = abs s.
Proof.
  intros HI Hne. rewrite (abs_step s l e HI), (abs_vals s l HI).
  destruct e as [v| |a|a]; try reflexivity. now destruct (Hne a).
Qed.

(* ------------------------------------------------------------------ *)
(* linearizability: the model's events, annotated with invocations, linearization points and responses,
   are accepted by the automaton of Lin.v *)
Definition lannot (s : lst) (e : lev) : list (aev lop N) :=
  match e with
  | CallPush v => [@AInv lop N (length (acts s)) (OPush v)]
  | CallPop => [@AInv lop N (length (acts s)) OPop]
  | Step a => if is_lp s a then [@ALp lop N a] else []
  | Ret a => match nth_error (acts s) a with
             | Some (PushRet _) => [@ARes lop N a 0%N]
             | Some (PopRet r) => [@ARes lop N a (retval r)]
             | _ => []
             end
  end.

(* the history (invocations and responses only) of an event list; thread = actor index *)
Definition lhistory (es : list lev) : list (hev lop N) := erase (atrace lstep lannot linit es).

Definition thr_ok (t : tst lop N) (op : option pc) : Prop :=
  match op with
  | None => t = @Idle lop N
  | Some p => match phase_of p with
              | PhPend o => exists i, t = @Pend lop N i o
              | PhLin v => exists i, t = @Lind lop N i v
              | PhIdle => t = @Idle lop N
              end
  end.

Definition LR (s : lst) (r : rs lop N (list N)) : Prop :=
  (exists l, LInv s l) /\ st r = abs s /\ forall a, thr_ok (th r a) (nth_error (acts s) a).

Lemma updt_same (f : nat -> tst lop N) t v : updt f t v t = v.
Proof. unfold updt. now rewrite Nat.eqb_refl. Qed.
Lemma updt_other (f : nat -> tst lop N) t v x : x <> t -> updt f t v x = f x.
Proof. intros H. unfold updt. destruct (Nat.eqb_spec x t); [contradiction | reflexivity]. Qed.

Lemma thr_ok_snoc (f : nat -> tst lop N) (l : list pc) p t :
  (forall a, thr_ok (f a) (nth_error l a)) -> thr_ok t (Some p) ->
  forall a, thr_ok (updt f (length l) t a) (nth_error (l ++ [p]) a).
Proof.
  intros Hf Ht a. destruct (Nat.eq_dec a (length l)) as [->|Hne].
  - rewrite updt_same. rewrite nth_error_app2 by lia. now rewrite Nat.sub_diag.
  - rewrite updt_other by exact Hne. specialize (Hf a).
    destruct (Nat.lt_ge_cases a (length l)) as [Hl|Hl].
    + now rewrite nth_error_app1 by exact Hl.
    + assert (E1 : nth_error l a = None) by (apply nth_error_None; lia).
      assert (E2 : nth_error (l ++ [p]) a = None) by (apply nth_error_None; rewrite app_length; cbn; lia).
      now rewrite E2, <- E1.
Qed.

Lemma thr_ok_set (f : nat -> tst lop N) (l : list pc) p t k :
  k < length l -> (forall a, thr_ok (f a) (nth_error l a)) -> thr_ok t (Some p) ->
  forall a, thr_ok (updt f k t a) (nth_error (set_nth l k p) a).
Proof.
  intros Hk Hf Ht a. destruct (Nat.eq_dec a k) as [->|Hne].
  - rewrite updt_same. now rewrite nth_error_set_nth_same.
  - rewrite updt_other by exact Hne. rewrite nth_error_set_nth_other by exact Hne. apply Hf.
Qed.

Lemma thr_ok_set_same (f : nat -> tst lop N) (l : list pc) p p' k :
  nth_error l k = Some p -> phase_of p' = phase_of p -> (forall a, thr_ok (f a) (nth_error l a)) ->
  forall a, thr_ok (f a) (nth_error (set_nth l k p') a).
Proof.
  intros Hk Hp Hf a. destruct (Nat.eq_dec a k) as [->|Hne].
  - rewrite nth_error_set_nth_same by (eapply nth_error_nth_len; eauto).
    specialize (Hf k). rewrite Hk in Hf. unfold thr_ok in *. now rewrite Hp.
  - rewrite nth_error_set_nth_other by exact Hne. apply Hf.
Qed.

Lemma lsim_step s e r : LR s r ->
  exists r', arun lseq r (lannot s e) = Some r' /\ ares_ok lseq r (lannot s e) /\ LR (lstep s e) r'.
Proof.
  intros [[l HI] [Hst Hth]].
  assert (HI' : exists l', LInv (lstep s e) l') by (exists (next_l s l e); now apply lstep_inv).
  destruct e as [v| |a|a].
  - (* CallPush *)
    cbn [lannot arun astep ares_ok res_ok].
    pose proof (Hth (length (acts s))) as Hn.
    rewrite (proj2 (nth_error_None (acts s) (length (acts s))) (le_n _)) in Hn. cbn [thr_ok] in Hn. rewrite Hn.
    eexists. split; [reflexivity|]. split; [now split|].
    split; [exact HI'|]. split.
    + cbn [st]. rewrite Hst. symmetry. apply (call_abs s l _ HI). intros; discriminate.
    + cbn [th lstep acts]. apply thr_ok_snoc; [exact Hth|]. cbn [thr_ok phase_of]. now eexists.
  - (* CallPop *)
    cbn [lannot arun astep ares_ok res_ok].
    pose proof (Hth (length (acts s))) as Hn.
    rewrite (proj2 (nth_error_None (acts s) (length (acts s))) (le_n _)) in Hn. cbn [thr_ok] in Hn. rewrite Hn.
    eexists. split; [reflexivity|]. split; [now split|].
    split; [exact HI'|]. split.
    + cbn [st]. rewrite Hst. symmetry. apply (call_abs s l _ HI). intros; discriminate.
    + cbn [th lstep acts]. apply thr_ok_snoc; [exact Hth|]. cbn [thr_ok phase_of]. now eexists.
  - (* Step *)
    pose proof (step_abs s l a HI) as Hstep. cbn zeta in Hstep. cbn [lannot].
    destruct (is_lp s a) eqn:Elp.
    + destruct Hstep as [p [o [Ha [Hph [Habs Hacts]]]]]. pose proof (lin_pc_phase o (abs s)) as Hph'.
      pose proof (Hth a) as Hta. rewrite Ha in Hta. cbn [thr_ok] in Hta. rewrite Hph in Hta. destruct Hta as [i Hta].
      cbn [arun astep ares_ok res_ok]. rewrite Hta. rewrite Hst.
      destruct (lseq (abs s) o) as [s1 v] eqn:Q. cbn [fst snd] in *.
      eexists. split; [reflexivity|]. split; [now split|].
      split; [exact HI'|]. split.
      * cbn [st]. now rewrite Habs.
      * cbn [th]. rewrite Hacts. apply thr_ok_set; [eapply nth_error_nth_len; eauto | exact Hth|].
        cbn [thr_ok]. rewrite Hph'. now eexists.
    + destruct Hstep as [Habs Hacts]. cbn [arun ares_ok]. exists r. split; [reflexivity|]. split; [exact I|].
      split; [exact HI'|]. split; [now rewrite Habs|].
      destruct Hacts as [->|[p [p' [o [Ha [Hacts [Hph Hph']]]]]]]; [exact Hth|].
      rewrite Hacts. eapply thr_ok_set_same; eauto. congruence.
  - (* Ret *)
    assert (Habs : abs (lstep s (Ret a)) = abs s) by (apply (call_abs s l _ HI); intros; discriminate).
    cbn [lannot]. destruct (nth_error (acts s) a) as [p|] eqn:Ha.
    + destruct p as [v n|v n old|v|v| |o nx|r0|r0].
      1,2,4,5,6,8: (cbn [arun ares_ok]; exists r; split; [reflexivity|]; split; [exact I|];
                   cbn [lstep]; rewrite Ha; split; [now exists l|]; split; [exact Hst | exact Hth]).
      * pose proof (Hth a) as Hta. rewrite Ha in Hta. cbn [thr_ok phase_of] in Hta. destruct Hta as [i Hta].
        cbn [arun astep ares_ok res_ok]. rewrite Hta.
        eexists. split; [reflexivity|]. split; [now split|].
        split; [exact HI'|]. split; [cbn [st]; now rewrite Habs|].
        cbn [th lstep]. rewrite Ha. cbn [acts]. unfold setpc.
        apply thr_ok_set; [eapply nth_error_nth_len; eauto | exact Hth | reflexivity].
      * pose proof (Hth a) as Hta. rewrite Ha in Hta. cbn [thr_ok phase_of] in Hta. destruct Hta as [i Hta].
        cbn [arun astep ares_ok res_ok]. rewrite Hta.
        eexists. split; [reflexivity|]. split; [now split|].
        split; [exact HI'|]. split; [cbn [st]; now rewrite Habs|].
        cbn [th lstep]. rewrite Ha. cbn [acts]. unfold setpc.
        apply thr_ok_set; [eapply nth_error_nth_len; eauto | exact Hth | reflexivity].
    + cbn [arun ares_ok]. exists r. split; [reflexivity|]. split; [exact I|].
      cbn [lstep]. rewrite Ha. split; [now exists l|]. split; [exact Hst | exact Hth].
Qed.

Lemma LR_init : LR linit (init lop N []).
Proof.
  split; [exists []; exact linit_inv|]. split; [reflexivity|].
  intros a. cbn. destruct a; reflexivity.
Qed.

(* every event list of the model yields a linearizable history; the sequential witness ends in the
   abstract stack of the final state *)
Theorem lifo_linearizable es :
  exists S, linearization lseq [] (lhistory es) S /\ exec lseq [] S = abs (lrun es).
Proof.
  destruct (sim_run lseq lstep lannot LR lsim_step es linit (init lop N []) LR_init) as [f [Hrun [Hok [_ [Hst _]]]]].
  exists (wit f). split.
  - unfold lhistory. now apply lp_run_linearizable.
  - pose proof (@run_inv lop N (list N) lseq [] [] (init lop N []) _ f (init_inv lseq []) Hrun Hok) as HInv.
    destruct (i_legal HInv) as [_ Hex]. rewrite Hex. exact Hst.
Qed.

(* ------------------------------------------------------------------ *)
(* conservation *)
Definition pdflt : pc := PopDone None.

Lemma cnt_set (P : pc -> bool) l k p p' : nth_error l k = Some p ->
  cnt P (set_nth l k p') + b2n (P p) = cnt P l + b2n (P p').
Proof.
  intros Hk. pose proof (cnt_set_nth P l k p' pdflt (nth_error_nth_len _ _ _ Hk)) as H.
  now rewrite (nth_error_nth _ _ pdflt Hk) in H.
Qed.

Lemma pend_not_counted p o v : phase_of p = PhPend o -> pushed_lin v p = false /\ popped v p = false.
Proof. destruct p; cbn; intros H; try discriminate; split; reflexivity. Qed.

Definition conserved (s : lst) : Prop :=
  forall v, cnt (pushed_lin v) (acts s) = cnt (popped v) (acts s) + count_occ N.eq_dec (abs s) v.

Lemma count_occ_cons_b (l : list N) w v : count_occ N.eq_dec (w :: l) v = b2n (N.eqb v w) + count_occ N.eq_dec l v.
Proof.
  cbn [count_occ]. destruct (N.eq_dec w v) as [->|Hne].
  - now rewrite N.eqb_refl.
  - destruct (N.eqb_spec v w); [congruence | reflexivity].
Qed.

Lemma conserved_step s l e : LInv s l -> conserved s -> conserved (lstep s e).
Proof.
  intros HI Hc v. specialize (Hc v). destruct e as [w| |a|a].
  - rewrite (call_abs s l _ HI) by (intros; discriminate). cbn [lstep acts].
    rewrite !cnt_app. unfold cnt at 2 4. cbn. lia.
  - rewrite (call_abs s l _ HI) by (intros; discriminate). cbn [lstep acts].
    rewrite !cnt_app. unfold cnt at 2 4. cbn. lia.
  - pose proof (step_abs s l a HI) as Hstep. cbn zeta in Hstep. destruct (is_lp s a).
    + destruct Hstep as [p [o [Ha [Hph [Habs Hacts]]]]]. rewrite Hacts, Habs.
      destruct (pend_not_counted p o v Hph) as [Hp1 Hp2].
      pose proof (cnt_set (pushed_lin v) _ _ _ (lin_pc o (abs s)) Ha) as C1.
      pose proof (cnt_set (popped v) _ _ _ (lin_pc o (abs s)) Ha) as C2.
      rewrite Hp1 in C1. rewrite Hp2 in C2. cbn [b2n] in C1, C2.
      destruct o as [w|]; cbn [lin_pc lseq fst] in *.
      * cbn [pushed_lin popped b2n] in C1, C2. rewrite count_occ_cons_b. lia.
      * destruct (abs s) as [|w t] eqn:Eabs; cbn [pushed_lin popped b2n fst] in C1, C2 |- *.
        -- cbn [count_occ] in *. lia.
        -- rewrite count_occ_cons_b in Hc. lia.
    + destruct Hstep as [Habs [->|[p [p' [o [Ha [Hacts [Hph Hph']]]]]]]]; [exact Hc|].
      rewrite Hacts, Habs.
      destruct (pend_not_counted p o v Hph) as [Hp1 Hp2]. destruct (pend_not_counted p' o v Hph') as [Hq1 Hq2].
      pose proof (cnt_set (pushed_lin v) _ _ _ p' Ha) as C1.
      pose proof (cnt_set (popped v) _ _ _ p' Ha) as C2.
      rewrite Hp1, Hq1 in C1. rewrite Hp2, Hq2 in C2. cbn [b2n] in C1, C2. lia.
  - rewrite (call_abs s l _ HI) by (intros; discriminate). cbn [lstep].
    destruct (nth_error (acts s) a) as [p|] eqn:Ha; [|exact Hc].
    destruct p as [w n|w n old|w|w| |o nx|r|r]; try exact Hc; cbn [acts]; unfold setpc.
    + pose proof (cnt_set (pushed_lin v) _ _ _ (PushDone w) Ha) as C1.
      pose proof (cnt_set (popped v) _ _ _ (PushDone w) Ha) as C2. cbn [pushed_lin popped b2n] in C1, C2. lia.
    + pose proof (cnt_set (pushed_lin v) _ _ _ (PopDone r) Ha) as C1.
      pose proof (cnt_set (popped v) _ _ _ (PopDone r) Ha) as C2. cbn [pushed_lin popped b2n] in C1, C2. lia.
Qed.

(* multiset of linearized pushes = popped (+) remaining, value by value, in every reachable state *)
Theorem lifo_conservation es : conserved (lrun es).
Proof.
  unfold lrun.
  assert (H : (fun s => (exists l, LInv s l) /\ conserved s) (fold_left lstep es linit)).
  { apply fold_inv.
    - intros s e [[l HI] Hc]. split; [exists (next_l s l e); now apply lstep_inv | eapply conserved_step; eauto].
    - split; [exists []; exact linit_inv|]. intros v. reflexivity. }
  exact (proj2 H).
Qed.

(* the values pushed by the calls of an event list *)
Definition push_vals (es : list lev) : list N :=
  flat_map (fun e => match e with CallPush v => [v] | _ => [] end) es.

Lemma push_of_step s e v :
  cnt (push_of v) (acts (lstep s e)) =
  cnt (push_of v) (acts s) + match e with CallPush w => b2n (N.eqb v w) | _ => 0 end.
Proof.
  destruct e as [w| |a|a]; cbn [lstep].
  - cbn [acts]. rewrite cnt_app. unfold cnt at 2. cbn. destruct (N.eqb v w); reflexivity.
  - cbn [acts]. rewrite cnt_app. unfold cnt at 2. cbn. lia.
  - destruct (nth_error (acts s) a) as [p|] eqn:Ha; [|lia].
    destruct p as [w n|w n old|w|w| |o nx|r|r]; try lia; cbn [acts]; unfold setpc.
    + pose proof (cnt_set (push_of v) _ _ _ (PushLoaded w n (top s)) Ha) as C. cbn [push_of] in C. lia.
    + destruct (oaddr_eqb (top s) old); cbn [acts].
      * pose proof (cnt_set (push_of v) _ _ _ (PushRet w) Ha) as C. cbn [push_of] in C. lia.
      * pose proof (cnt_set (push_of v) _ _ _ (PushAlloc w n) Ha) as C. cbn [push_of] in C. lia.
    + destruct (top s) as [o|]; cbn [acts].
      * destruct (nth_error (heap s) o) as [c|]; [|lia]. cbn [acts].
        pose proof (cnt_set (push_of v) _ _ _ (PopLoaded o (nnext c)) Ha) as C. cbn [push_of b2n] in C. lia.
      * pose proof (cnt_set (push_of v) _ _ _ (PopRet None) Ha) as C. cbn [push_of b2n] in C. lia.
    + destruct (oaddr_eqb (top s) (Some o)); cbn [acts].
      * destruct (nth_error (heap s) o) as [c|]; [|lia]. cbn [acts].
        pose proof (cnt_set (push_of v) _ _ _ (PopRet (Some (nval c))) Ha) as C. cbn [push_of b2n] in C. lia.
      * pose proof (cnt_set (push_of v) _ _ _ PopStart Ha) as C. cbn [push_of b2n] in C. lia.
  - destruct (nth_error (acts s) a) as [p|] eqn:Ha; [|lia].
    destruct p as [w n|w n old|w|w| |o nx|r|r]; try lia; cbn [acts]; unfold setpc.
    + pose proof (cnt_set (push_of v) _ _ _ (PushDone w) Ha) as C. cbn [push_of] in C. lia.
    + pose proof (cnt_set (push_of v) _ _ _ (PopDone r) Ha) as C. cbn [push_of b2n] in C. lia.
Qed.

Lemma push_of_run es v : forall s,
  cnt (push_of v) (acts (fold_left lstep es s)) = cnt (push_of v) (acts s) + count_occ N.eq_dec (push_vals es) v.
Proof.
  induction es as [|e es IH]; intros s; cbn [fold_left push_vals flat_map]; [cbn; lia|].
  rewrite IH, push_of_step. fold (push_vals es). rewrite count_occ_app.
  destruct e as [w| |a|a]; cbn [count_occ]; try lia.
  destruct (N.eq_dec w v) as [->|Hne]; [rewrite N.eqb_refl; cbn; lia|].
  destruct (N.eqb_spec v w); [congruence | cbn; lia].
Qed.

Lemma pushed_le_calls es v : cnt (pushed_lin v) (acts (lrun es)) <= count_occ N.eq_dec (push_vals es) v.
Proof.
  pose proof (push_of_run es v linit) as H. cbn [linit acts] in H. unfold cnt at 2 in H. cbn in H.
  unfold lrun. rewrite <- H. apply cnt_le. intros p. destruct p; cbn [pushed_lin push_of]; auto; discriminate.
Qed.

(* no value is returned more often than it was pushed; with distinct pushed values at most once *)
Theorem lifo_no_duplication es v :
  cnt (popped v) (acts (lrun es)) + count_occ N.eq_dec (abs (lrun es)) v <= count_occ N.eq_dec (push_vals es) v.
Proof. rewrite <- (lifo_conservation es v). apply pushed_le_calls. Qed.

Theorem lifo_popped_once es v : NoDup (push_vals es) ->
  cnt (popped v) (acts (lrun es)) + count_occ N.eq_dec (abs (lrun es)) v <= 1.
Proof.
  intros Hnd. pose proof (lifo_no_duplication es v) as H.
  pose proof (proj1 (NoDup_count_occ N.eq_dec (push_vals es)) Hnd v). lia.
Qed.

(* everything on the abstract stack was pushed by some call *)
Lemma abs_in_pushed es v : In v (abs (lrun es)) -> In v (push_vals es).
Proof.
  intros Hin. apply (count_occ_In N.eq_dec) in Hin. pose proof (lifo_no_duplication es v) as H.
  apply (count_occ_In N.eq_dec). lia.
Qed.

(* ------------------------------------------------------------------ *)
(* Pop returns the zero value exactly when the abstract stack is empty at its linearization point *)
Theorem pop_zero_iff_empty es a p :
  let s := lrun es in
  let s' := lstep s (Step a) in
  nth_error (acts s) a = Some p -> phase_of p = PhPend OPop -> is_lp s a = true ->
  exists r, nth_error (acts s') a = Some (PopRet r) /\
            (r = None <-> abs s = []) /\
            match r with None => abs s' = [] | Some v => abs s = v :: abs s' end /\
            ((forall v, In v (push_vals es) -> v <> 0%N) -> (retval r = 0%N <-> abs s = [])).
Proof.
  intros s s' Ha Hph Hlp. destruct (lrun_inv es) as [l HI]. fold s in HI.
  pose proof (step_abs s l a HI) as Hstep. cbn zeta in Hstep. rewrite Hlp in Hstep.
  destruct Hstep as [p0 [o [Ha0 [Hph0 [Habs Hacts]]]]]. rewrite Ha in Ha0. inversion Ha0; subst p0.
  rewrite Hph in Hph0. inversion Hph0; subst o. fold s' in Habs, Hacts.
  cbn [lin_pc lseq] in *.
  exists (match abs s with [] => None | v :: _ => Some v end).
  split; [rewrite Hacts; apply nth_error_set_nth_same; eapply nth_error_nth_len; eauto|].
  destruct (abs s) as [|v t] eqn:Eabs; cbn [fst] in Habs.
  - repeat split; auto.
  - split; [split; discriminate|]. split; [now rewrite Habs|]. intros Hnz. cbn [retval].
    split; [|discriminate]. intros ->. exfalso. apply (Hnz 0%N); [|reflexivity].
    apply abs_in_pushed. fold s. rewrite Eabs. now left.
Qed.

(* ------------------------------------------------------------------ *)
(* the abstraction theorem for reachable states: linearization points perform the sequential
   operation on the abstract stack, every other event leaves it unchanged *)
Theorem lifo_abs es e :
  let s := lrun es in
  let s' := lstep s e in
  match e with
  | Step a =>
    if is_lp s a
    then exists p o, nth_error (acts s) a = Some p /\ phase_of p = PhPend o /\
                     abs s' = fst (lseq (abs s) o) /\
                     acts s' = set_nth (acts s) a (lin_pc o (abs s))
    else abs s' = abs s
  | _ => abs s' = abs s
  end.
Proof.
  cbn zeta. destruct (lrun_inv es) as [l HI].
  destruct e as [v| |a|a]; try (apply (call_abs _ l _ HI); intros; discriminate).
  pose proof (step_abs _ l a HI) as H. cbn zeta in H. destruct (is_lp (lrun es) a); [exact H | exact (proj1 H)].
Qed.

(* ------------------------------------------------------------------ *)
(* the search used by monitor clause 1 decides what it is meant to decide: the existence of a
   sequential LIFO execution of the recorded operations (all completed ones, any pending ones) in an
   order in which no operation is placed before one that responded before its invocation *)
From Util Require Import Lifo.Spec.

Inductive lin_ok : list N -> list mop -> Prop :=
| lin_done stk todo : (forall o, In o todo -> completed o = false) -> lin_ok stk todo
| lin_pick stk todo o rest stk' :
    In (o, rest) (picks todo) -> minimal o todo = true -> apply_op o stk = Some stk' ->
    lin_ok stk' rest -> lin_ok stk todo.

Lemma find_true_iff {A} (f : A -> bool) l : find_true f l = true <-> exists x, In x l /\ f x = true.
Proof.
  induction l as [|y l IH]; cbn [find_true].
  - split; [discriminate | intros [x [[] _]]].
  - destruct (f y) eqn:E.
    + split; [intros _; exists y; split; [now left | exact E] | reflexivity].
    + rewrite IH. split; intros [x [Hin Hx]]; exists x; (split; [|exact Hx]).
      * now right.
      * destruct Hin as [->|Hin]; [congruence | exact Hin].
Qed.

Lemma picks_length {A} (l : list A) x rest : In (x, rest) (picks l) -> length l = S (length rest).
Proof.
  revert x rest. induction l as [|y l IH]; intros x rest Hin; [destruct Hin|].
  cbn [picks] in Hin. destruct Hin as [Heq|Hin].
  - inversion Heq; subst. reflexivity.
  - apply in_map_iff in Hin as [[x' r'] [Heq Hin]]. cbn [fst snd] in Heq. inversion Heq; subst.
    cbn [length]. f_equal. exact (IH _ _ Hin).
Qed.

Lemma all_pending_iff todo :
  forallb (fun o => negb (completed o)) todo = true <-> (forall o, In o todo -> completed o = false).
Proof.
  rewrite forallb_forall. split; intros H o Ho; specialize (H o Ho).
  - now destruct (completed o).
  - now rewrite H.
Qed.

Theorem lin_search_correct : forall fuel stk todo, length todo < fuel ->
  (lin_search fuel stk todo = true <-> lin_ok stk todo).
Proof.
  induction fuel as [|f IH]; intros stk todo Hlen; [lia|]. cbn [lin_search].
  destruct (forallb (fun o => negb (completed o)) todo) eqn:Eall.
  - split; [intros _|reflexivity]. apply lin_done. now apply all_pending_iff.
  - rewrite find_true_iff. split.
    + intros [[o rest] [Hin Ht]]. cbn [fst snd] in Ht.
      destruct (minimal o todo) eqn:Emin; [|discriminate].
      destruct (apply_op o stk) as [stk'|] eqn:Eap; [|discriminate].
      apply (lin_pick stk todo o rest stk' Hin Emin Eap).
      apply IH; [|exact Ht]. pose proof (picks_length _ _ _ Hin). lia.
    + intros Hok. destruct Hok as [stk todo Hall|stk todo o rest stk' Hin Hmin Hap Hrest].
      * apply all_pending_iff in Hall. congruence.
      * exists (o, rest). split; [exact Hin|]. cbn [fst snd]. rewrite Hmin, Hap.
        apply IH; [|exact Hrest]. pose proof (picks_length _ _ _ Hin). lia.
Qed.

Corollary linearizable_lifo_correct ops :
  linearizable_lifo ops = true <->
  lin_ok [] (filter completed ops ++ filter (fun o => negb (completed o)) ops).
Proof.
  unfold linearizable_lifo. apply lin_search_correct.
  rewrite app_length.
  assert (E : forall l : list mop, length (filter (fun o => negb (completed o)) l) + length (filter completed l) = length l).
  { induction l as [|x l IHl]; [reflexivity|]. cbn [filter]. destruct (completed x); cbn [negb length]; lia. }
  specialize (E ops). lia.
Qed.
