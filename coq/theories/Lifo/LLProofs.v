(* Proofs about the LinkedList model: the pointer structure represents a list (head/tail/next), every
   method refines the sequential deque operation, every event list yields a linearizable history. *)
From Util Require Import Common.Base Common.ListLemmas Lifo.LLModel Lifo.Lin.

(* ------------------------------------------------------------------ *)
(* list segments: the cells l, in order, linked by next from p, the last one with next = nil *)
Fixpoint cseg (h : list cell) (p : option caddr) (l : list caddr) : Prop :=
  match l with
  | [] => p = None
  | a :: l' => p = Some a /\ exists c, nth_error h a = Some c /\ cseg h (cnext c) l'
  end.

Definition cv (h : list cell) (a : caddr) : N := match nth_error h a with Some c => cval c | None => 0%N end.
Definition cvals (h : list cell) (l : list caddr) : list N := map (cv h) l.
Definition last_opt (l : list caddr) : option caddr := match l with [] => None | _ => Some (last l 0) end.

Lemma cseg_lt h : forall l p a, cseg h p l -> In a l -> a < length h.
Proof.
  induction l as [|x l IH]; intros p a Hs Hin; [destruct Hin|].
  destruct Hs as [_ [c [Hc Hs]]]. destruct Hin as [<-|Hin].
  - eapply nth_error_nth_len; eauto.
  - eapply IH; eauto.
Qed.

Lemma cseg_ext h h' : forall l p, (forall a, In a l -> nth_error h' a = nth_error h a) -> cseg h p l -> cseg h' p l.
Proof.
  induction l as [|x l IH]; intros p He Hs; [exact Hs|].
  destruct Hs as [Hp [c [Hc Hs]]]. split; [exact Hp|]. exists c. split.
  - rewrite He; [exact Hc | now left].
  - apply IH; [|exact Hs]. intros a Ha. apply He. now right.
Qed.

Lemma cvals_ext h h' l : (forall a, In a l -> nth_error h' a = nth_error h a) -> cvals h' l = cvals h l.
Proof. intros He. unfold cvals. apply map_ext_in. intros a Ha. unfold cv. now rewrite He. Qed.

Lemma cwalk_cseg h : forall l fuel p, cseg h p l -> length l <= fuel -> cwalk fuel h p = cvals h l.
Proof.
  induction l as [|x l IH]; intros fuel p Hs Hl.
  - cbn in Hs. subst p. destruct fuel; reflexivity.
  - destruct Hs as [-> [c [Hc Hs]]]. cbn [length] in Hl. destruct fuel as [|f]; [lia|].
    cbn [cwalk cvals map]. rewrite Hc. unfold cv at 1. rewrite Hc. f_equal. apply IH; [exact Hs | lia].
Qed.

Lemma nodup_bound (l : list nat) n : NoDup l -> (forall a, In a l -> a < n) -> length l <= n.
Proof.
  intros Hnd Hlt. rewrite <- (seq_length n 0). apply NoDup_incl_length; [exact Hnd|].
  intros a Ha. apply in_seq. specialize (Hlt a Ha). lia.
Qed.

Lemma cseg_none h l : cseg h None l -> l = [].
Proof. destruct l; cbn; [reflexivity | intros [H _]; discriminate]. Qed.

Lemma cseg_head h a l : cseg h (Some a) l -> exists c l', l = a :: l' /\ nth_error h a = Some c /\ cseg h (cnext c) l'.
Proof.
  destruct l as [|x l']; cbn; [discriminate|]. intros [Hx [c [Hc Hs]]]. inversion Hx; subst x. now exists c, l'.
Qed.

Lemma last_opt_none l : last_opt l = None -> l = [].
Proof. destruct l; [reflexivity | discriminate]. Qed.

Lemma last_opt_some l t : last_opt l = Some t -> exists l0, l = l0 ++ [t].
Proof.
  destruct l as [|x l]; [discriminate|]. intros H.
  assert (E : x :: l = removelast (x :: l) ++ [last (x :: l) 0]) by (apply app_removelast_last; discriminate).
  exists (removelast (x :: l)). unfold last_opt in H. injection H as H. rewrite <- H. exact E.
Qed.

Lemma last_opt_snoc l e : last_opt (l ++ [e]) = Some e.
Proof. unfold last_opt. destruct (l ++ [e]) eqn:E; [now destruct l|]. rewrite <- E. now rewrite last_last. Qed.

Lemma last_opt_cons x l : l <> [] -> last_opt (x :: l) = last_opt l.
Proof. destruct l; [congruence|]. reflexivity. Qed.

(* ------------------------------------------------------------------ *)
(* the representation invariant *)
Record Repr (h : list cell) (hd tl : option caddr) (l : list caddr) : Prop := {
  r_seg : cseg h hd l;
  r_nodup : NoDup l;
  r_tail : tl = last_opt l
}.

Definition LLInv (s : llst) (l : list caddr) : Prop := Repr (lheap s) (lhead s) (ltail s) l.

Lemma repr_empty_iff h hd tl l : Repr h hd tl l -> (hd = None <-> l = []) /\ (tl = None <-> l = []) /\ (tl = None <-> hd = None).
Proof.
  intros [Hs _ Ht].
  assert (H1 : hd = None <-> l = []).
  { split; [intros ->; now apply cseg_none in Hs | intros ->; exact Hs]. }
  assert (H2 : tl = None <-> l = []).
  { split; [intros ->; now apply last_opt_none | intros ->; exact Ht]. }
  split; [exact H1|]. split; [exact H2|]. rewrite H1, H2. reflexivity.
Qed.

Lemma labs_vals s l : LLInv s l -> labs s = cvals (lheap s) l.
Proof.
  intros [Hs Hnd _]. unfold labs. apply cwalk_cseg; [exact Hs|].
  apply nodup_bound; [exact Hnd|]. intros a Ha. eapply cseg_lt; eauto.
Qed.

(* appending a fresh cell after the last cell t: tail.next = elem *)
Lemma cseg_snoc h v : forall l0 p t c,
  cseg h p (l0 ++ [t]) -> NoDup (l0 ++ [t]) -> nth_error h t = Some c ->
  cseg (set_nth (h ++ [{| cval := v; cnext := None |}]) t {| cval := cval c; cnext := Some (length h) |}) p (l0 ++ [t; length h]).
Proof.
  induction l0 as [|x l0 IH]; intros p t c Hs Hnd Hc.
  - cbn [app] in *. destruct Hs as [-> [c' [Hc' Hnil]]]. rewrite Hc in Hc'. inversion Hc'; subst c'.
    assert (Ht : t < length h) by (eapply nth_error_nth_len; eauto).
    split; [reflexivity|]. eexists. split.
    + apply nth_error_set_nth_same. rewrite app_length. cbn. lia.
    + cbn [cnext]. split; [reflexivity|]. eexists. split.
      * rewrite nth_error_set_nth_other by lia. rewrite nth_error_app2 by lia. now rewrite Nat.sub_diag.
      * reflexivity.
  - cbn [app] in *. destruct Hs as [-> [cx [Hcx Hs]]]. inversion Hnd as [|? ? Hnin Hnd']; subst.
    assert (Hx : x < length h) by (eapply nth_error_nth_len; eauto).
    assert (Hxt : x <> t) by (intros ->; apply Hnin; apply in_or_app; right; now left).
    split; [reflexivity|]. exists cx. split.
    + rewrite nth_error_set_nth_other by exact Hxt. now rewrite nth_error_app1 by exact Hx.
    + now apply IH.
Qed.

Lemma cvals_snoc h v l t c :
  (forall a, In a l -> a < length h) -> nth_error h t = Some c ->
  cvals (set_nth (h ++ [{| cval := v; cnext := None |}]) t {| cval := cval c; cnext := Some (length h) |}) (l ++ [length h])
  = cvals h l ++ [v].
Proof.
  intros Hlt Hc. assert (Ht : t < length h) by (eapply nth_error_nth_len; eauto).
  unfold cvals. rewrite map_app. f_equal.
  - apply map_ext_in. intros a Ha. specialize (Hlt a Ha). unfold cv.
    destruct (Nat.eq_dec a t) as [->|Hne].
    + rewrite nth_error_set_nth_same by (rewrite app_length; cbn; lia). now rewrite Hc.
    + rewrite nth_error_set_nth_other by exact Hne. now rewrite nth_error_app1 by exact Hlt.
  - cbn [map]. unfold cv. rewrite nth_error_set_nth_other by lia. rewrite nth_error_app2 by lia. now rewrite Nat.sub_diag.
Qed.

Lemma last_map_cv h l : l <> [] -> last (cvals h l) 0%N = cv h (last l 0).
Proof.
  induction l as [|x l IH]; [congruence|]. intros _. destruct l as [|y l]; [reflexivity|].
  change (last (cv h x :: cvals h (y :: l)) 0%N = cv h (last (y :: l) 0)).
  cbn [cvals map last] in *. apply IH. discriminate.
Qed.

(* every method body refines the sequential deque operation *)
Theorem lmethod_refines h hd tl l o : Repr h hd tl l ->
  match lmethod h hd tl o with
  | (h', hd', tl', r) =>
    exists l', Repr h' hd' tl' l' /\
               cvals h' l' = fst (dseq (cvals h l) o) /\ r = snd (dseq (cvals h l) o)
  end.
Proof.
  intros HR. pose proof HR as [Hs Hnd Ht].
  assert (Hlt : forall a, In a l -> a < length h) by (intros a Ha; eapply cseg_lt; eauto).
  assert (Hfresh : ~ In (length h) l) by (intros Hin; specialize (Hlt _ Hin); lia).
  destruct o as [v|v| | | | |]; cbn [lmethod dseq].
  - (* Push *)
    destruct tl as [t|].
    + symmetry in Ht. destruct (last_opt_some _ _ Ht) as [l0 ->].
      assert (Hint : In t (l0 ++ [t])) by (apply in_or_app; right; now left).
      destruct (nth_error h t) as [c|] eqn:Hc; [|pose proof (Hlt t Hint) as Hl; apply nth_error_None in Hc; lia].
      exists ((l0 ++ [t]) ++ [length h]). split; [|split; [|reflexivity]].
      * constructor.
        -- rewrite <- app_assoc. cbn [app]. now apply cseg_snoc.
        -- apply NoDup_snoc; assumption.
        -- now rewrite last_opt_snoc.
      * cbn [fst]. now apply cvals_snoc.
    + symmetry in Ht. apply last_opt_none in Ht. subst l. cbn [cvals map app fst snd].
      exists [length h]. split; [|split; [|reflexivity]].
      * constructor.
        -- split; [reflexivity|]. eexists. split; [rewrite nth_error_app2 by lia; now rewrite Nat.sub_diag|reflexivity].
        -- constructor; [intros []|constructor].
        -- reflexivity.
      * cbn [cvals map]. unfold cv. rewrite nth_error_app2 by lia. now rewrite Nat.sub_diag.
  - (* PushFront *)
    destruct hd as [a|].
    + destruct (cseg_head _ _ _ Hs) as [c [l' [-> [Hc Hs']]]].
      exists (length h :: a :: l'). split; [|split; [|reflexivity]].
      * constructor.
        -- split; [reflexivity|]. eexists. split; [rewrite nth_error_app2 by lia; now rewrite Nat.sub_diag|].
           cbn [cnext]. eapply cseg_ext; [|exact Hs]. intros x Hx. apply nth_error_app1. now apply Hlt.
        -- constructor; assumption.
        -- rewrite last_opt_cons by discriminate. exact Ht.
      * cbn [fst cvals map]. f_equal.
        -- unfold cv. rewrite nth_error_app2 by lia. now rewrite Nat.sub_diag.
        -- apply (cvals_ext h (h ++ _) (a :: l')). intros x Hx. apply nth_error_app1. now apply Hlt.
    + apply cseg_none in Hs. subst l. cbn [cvals map fst snd].
      exists [length h]. split; [|split; [|reflexivity]].
      * constructor.
        -- split; [reflexivity|]. eexists. split; [rewrite nth_error_app2 by lia; now rewrite Nat.sub_diag|reflexivity].
        -- constructor; [intros []|constructor].
        -- reflexivity.
      * cbn [cvals map]. unfold cv. rewrite nth_error_app2 by lia. now rewrite Nat.sub_diag.
  - (* Pop *)
    destruct hd as [a|].
    + destruct (cseg_head _ _ _ Hs) as [c [l' [-> [Hc Hs']]]]. rewrite Hc.
      assert (Hv : cv h a = cval c) by (unfold cv; now rewrite Hc).
      cbn [cvals map fst snd]. rewrite Hv. inversion Hnd as [|? ? Hnin Hnd']; subst.
      destruct (cnext c) as [n|] eqn:Hn.
      * exists l'. split; [|split; reflexivity]. constructor; [exact Hs' | exact Hnd'|].
        apply last_opt_cons. destruct (cseg_head _ _ _ Hs') as [? [? [-> _]]]. discriminate.
      * apply cseg_none in Hs' as ->. exists []. split; [|split; reflexivity].
        constructor; [reflexivity | constructor | reflexivity].
    + apply cseg_none in Hs as Hl. subst l. exists []. split; [exact HR|]. split; reflexivity.
  - (* Peek *)
    destruct hd as [a|].
    + destruct (cseg_head _ _ _ Hs) as [c [l' [-> [Hc Hs']]]]. rewrite Hc.
      assert (Hv : cv h a = cval c) by (unfold cv; now rewrite Hc).
      exists (a :: l'). split; [exact HR|]. cbn [cvals map fst snd]. rewrite Hv. split; reflexivity.
    + apply cseg_none in Hs as Hl. subst l. exists []. split; [exact HR|]. split; reflexivity.
  - (* PeekTail *)
    destruct tl as [t|].
    + symmetry in Ht. exists l. split; [exact HR|].
      assert (Hne : l <> []) by (intros ->; discriminate).
      assert (Hne' : cvals h l <> []) by (destruct l; [congruence | discriminate]).
      destruct (cvals h l) as [|x r] eqn:Ev; [congruence|]. cbn [fst snd]. split; [reflexivity|].
      rewrite <- Ev. rewrite last_map_cv by exact Hne.
      destruct l as [|y l]; [congruence|]. unfold last_opt in Ht. inversion Ht. reflexivity.
    + symmetry in Ht. apply last_opt_none in Ht. subst l. exists []. split; [exact HR|]. split; reflexivity.
  - (* IsEmpty *)
    exists l. split; [exact HR|]. split; [destruct (cvals h l); reflexivity|].
    destruct hd as [a|].
    + destruct (cseg_head _ _ _ Hs) as [c [l' [-> _]]]. reflexivity.
    + apply cseg_none in Hs. subst l. reflexivity.
  - (* Reset *)
    exists []. split; [|split; reflexivity]. constructor; [reflexivity | constructor | reflexivity].
Qed.

(* ------------------------------------------------------------------ *)
(* the invariant along every event list; the abstract deque along a step *)
Lemma llinit_inv : LLInv llinit [].
Proof. constructor; [reflexivity | constructor | reflexivity]. Qed.

Lemma llstep_spec s l e : LLInv s l ->
  let s' := llstep s e in
  (exists l', LLInv s' l') /\
  match e with
  | LStep a =>
    match nth_error (lacts s) a with
    | Some (LCalled o) => labs s' = fst (dseq (labs s) o) /\
                          lacts s' = set_nth (lacts s) a (LRetp (snd (dseq (labs s) o)))
    | _ => s' = s
    end
  | LCall o => labs s' = labs s /\ lacts s' = lacts s ++ [LCalled o]
  | LRet a =>
    match nth_error (lacts s) a with
    | Some (LRetp r) => labs s' = labs s /\ lacts s' = set_nth (lacts s) a (LDone r)
    | _ => s' = s
    end
  end.
Proof.
  intros HI. destruct e as [o|a|a]; cbn [llstep].
  - split; [exists l; exact HI|]. split; reflexivity.
  - destruct (nth_error (lacts s) a) as [p|] eqn:Ha; [|split; [exists l; exact HI | reflexivity]].
    destruct p as [o|r|r]; try (split; [exists l; exact HI | reflexivity]).
    pose proof (lmethod_refines _ _ _ _ o HI) as Href.
    destruct (lmethod (lheap s) (lhead s) (ltail s) o) as [[[h' hd'] tl'] r].
    destruct Href as [l' [HR' [Hv Hr]]].
    assert (HI' : LLInv {| lheap := h'; lhead := hd'; ltail := tl'; lacts := set_nth (lacts s) a (LRetp r) |} l') by exact HR'.
    split; [exists l'; exact HI'|]. rewrite (labs_vals _ _ HI'), (labs_vals _ _ HI). cbn [lheap lacts].
    split; [exact Hv | now rewrite Hr].
  - destruct (nth_error (lacts s) a) as [p|] eqn:Ha; [|split; [exists l; exact HI | reflexivity]].
    destruct p as [o|r|r]; try (split; [exists l; exact HI | reflexivity]).
    split; [exists l; exact HI|]. split; reflexivity.
Qed.

Theorem llrun_inv es : exists l, LLInv (llrun es) l.
Proof.
  unfold llrun. apply (fold_inv (fun s => exists l, LLInv s l)).
  - intros s e [l HI]. exact (proj1 (llstep_spec s l e HI)).
  - exists []. exact llinit_inv.
Qed.

(* ------------------------------------------------------------------ *)
(* linearizability *)
Definition llannot (s : llst) (e : llev) : list (aev dop dret) :=
  match e with
  | LCall o => [@AInv dop dret (length (lacts s)) o]
  | LStep a => match nth_error (lacts s) a with Some (LCalled _) => [@ALp dop dret a] | _ => [] end
  | LRet a => match nth_error (lacts s) a with Some (LRetp r) => [@ARes dop dret a r] | _ => [] end
  end.

Definition llhistory (es : list llev) : list (hev dop dret) := erase (atrace llstep llannot llinit es).

Definition lthr_ok (t : tst dop dret) (op : option lpc) : Prop :=
  match op with
  | None => t = @Idle dop dret
  | Some (LCalled o) => exists i, t = @Pend dop dret i o
  | Some (LRetp r) => exists i, t = @Lind dop dret i r
  | Some (LDone _) => t = @Idle dop dret
  end.

Definition LLR (s : llst) (r : rs dop dret (list N)) : Prop :=
  (exists l, LLInv s l) /\ st r = labs s /\ forall a, lthr_ok (th r a) (nth_error (lacts s) a).

Lemma lupdt_same (f : nat -> tst dop dret) t v : updt f t v t = v.
Proof. unfold updt. now rewrite Nat.eqb_refl. Qed.
Lemma lupdt_other (f : nat -> tst dop dret) t v x : x <> t -> updt f t v x = f x.
Proof. intros H. unfold updt. destruct (Nat.eqb_spec x t); [contradiction | reflexivity]. Qed.

Lemma lthr_ok_snoc (f : nat -> tst dop dret) (l : list lpc) p t :
  (forall a, lthr_ok (f a) (nth_error l a)) -> lthr_ok t (Some p) ->
  forall a, lthr_ok (updt f (length l) t a) (nth_error (l ++ [p]) a).
Proof.
  intros Hf Ht a. destruct (Nat.eq_dec a (length l)) as [->|Hne].
  - rewrite lupdt_same. rewrite nth_error_app2 by lia. now rewrite Nat.sub_diag.
  - rewrite lupdt_other by exact Hne. specialize (Hf a).
    destruct (Nat.lt_ge_cases a (length l)) as [Hl|Hl].
    + now rewrite nth_error_app1 by exact Hl.
    + assert (E1 : nth_error l a = None) by (apply nth_error_None; lia).
      assert (E2 : nth_error (l ++ [p]) a = None) by (apply nth_error_None; rewrite app_length; cbn; lia).
      now rewrite E2, <- E1.
Qed.

Lemma lthr_ok_set (f : nat -> tst dop dret) (l : list lpc) p t k :
  k < length l -> (forall a, lthr_ok (f a) (nth_error l a)) -> lthr_ok t (Some p) ->
  forall a, lthr_ok (updt f k t a) (nth_error (set_nth l k p) a).
Proof.
  intros Hk Hf Ht a. destruct (Nat.eq_dec a k) as [->|Hne].
  - rewrite lupdt_same. now rewrite nth_error_set_nth_same.
  - rewrite lupdt_other by exact Hne. rewrite nth_error_set_nth_other by exact Hne. apply Hf.
Qed.

Lemma llsim_step s e r : LLR s r ->
  exists r', arun dseq r (llannot s e) = Some r' /\ ares_ok dseq r (llannot s e) /\ LLR (llstep s e) r'.
Proof.
  intros [[l HI] [Hst Hth]]. pose proof (llstep_spec s l e HI) as [HI' Hspec]. cbn zeta in Hspec.
  destruct e as [o|a|a]; cbn [llannot].
  - destruct Hspec as [Habs Hacts].
    cbn [arun astep ares_ok res_ok].
    pose proof (Hth (length (lacts s))) as Hn.
    rewrite (proj2 (nth_error_None (lacts s) (length (lacts s))) (le_n _)) in Hn. cbn [lthr_ok] in Hn. rewrite Hn.
    eexists. split; [reflexivity|]. split; [now split|].
    split; [exact HI'|]. split; [cbn [st]; now rewrite Habs|].
    cbn [th]. rewrite Hacts. apply lthr_ok_snoc; [exact Hth|]. cbn [lthr_ok]. now eexists.
  - destruct (nth_error (lacts s) a) as [p|] eqn:Ha.
    + destruct p as [o|r0|r0].
      * destruct Hspec as [Habs Hacts].
        pose proof (Hth a) as Hta. rewrite Ha in Hta. cbn [lthr_ok] in Hta. destruct Hta as [i Hta].
        cbn [arun astep ares_ok res_ok]. rewrite Hta, Hst.
        destruct (dseq (labs s) o) as [s1 v] eqn:Q. cbn [fst snd] in *.
        eexists. split; [reflexivity|]. split; [now split|].
        split; [exact HI'|]. split; [cbn [st]; now rewrite Habs|].
        cbn [th]. rewrite Hacts. apply lthr_ok_set; [eapply nth_error_nth_len; eauto | exact Hth|].
        cbn [lthr_ok]. now eexists.
      * rewrite Hspec. cbn [arun ares_ok]. exists r. repeat split; auto. now exists l.
      * rewrite Hspec. cbn [arun ares_ok]. exists r. repeat split; auto. now exists l.
    + rewrite Hspec. cbn [arun ares_ok]. exists r. repeat split; auto. now exists l.
  - destruct (nth_error (lacts s) a) as [p|] eqn:Ha.
    + destruct p as [o|r0|r0].
      * rewrite Hspec. cbn [arun ares_ok]. exists r. repeat split; auto. now exists l.
      * destruct Hspec as [Habs Hacts].
        pose proof (Hth a) as Hta. rewrite Ha in Hta. cbn [lthr_ok] in Hta. destruct Hta as [i Hta].
        cbn [arun astep ares_ok res_ok]. rewrite Hta.
        eexists. split; [reflexivity|]. split; [now split|].
        split; [exact HI'|]. split; [cbn [st]; now rewrite Habs|].
        cbn [th]. rewrite Hacts. apply lthr_ok_set; [eapply nth_error_nth_len; eauto | exact Hth | reflexivity].
      * rewrite Hspec. cbn [arun ares_ok]. exists r. repeat split; auto. now exists l.
    + rewrite Hspec. cbn [arun ares_ok]. exists r. repeat split; auto. now exists l.
Qed.

Lemma LLR_init : LLR llinit (init dop dret []).
Proof.
  split; [exists []; exact llinit_inv|]. split; [reflexivity|]. intros a. cbn. destruct a; reflexivity.
Qed.

Theorem linkedlist_linearizable es :
  exists S, linearization dseq [] (llhistory es) S /\ exec dseq [] S = labs (llrun es).
Proof.
  destruct (sim_run dseq llstep llannot LLR llsim_step es llinit (init dop dret []) LLR_init) as [f [Hrun [Hok [_ [Hst _]]]]].
  exists (wit f). split.
  - unfold llhistory. now apply lp_run_linearizable.
  - pose proof (@run_inv dop dret (list N) dseq [] [] (init dop dret []) _ f (init_inv dseq []) Hrun Hok) as HInv.
    destruct (i_legal HInv) as [_ Hex]. rewrite Hex. exact Hst.
Qed.

(* representation theorem for reachable states *)
Theorem linkedlist_repr es :
  let s := llrun es in
  exists l, Repr (lheap s) (lhead s) (ltail s) l /\ labs s = cvals (lheap s) l /\
            (ltail s = None <-> lhead s = None) /\ (lhead s = None <-> labs s = []).
Proof.
  cbn zeta. destruct (llrun_inv es) as [l HI]. exists l. split; [exact HI|]. split; [now apply labs_vals|].
  destruct (repr_empty_iff _ _ _ _ HI) as [H1 [H2 H3]]. split; [exact H3|].
  rewrite (labs_vals _ _ HI), H1. unfold cvals. split; [intros ->; reflexivity|]. now destruct l.
Qed.

(* refinement for reachable states: the critical section of a pending call performs the sequential
   deque operation on the represented list and the call keeps that operation's result *)
Theorem linkedlist_refines_deque es a o :
  let s := llrun es in
  let s' := llstep s (LStep a) in
  nth_error (lacts s) a = Some (LCalled o) ->
  labs s' = fst (dseq (labs s) o) /\ nth_error (lacts s') a = Some (LRetp (snd (dseq (labs s) o))).
Proof.
  cbn zeta. intros Ha. destruct (llrun_inv es) as [l HI].
  pose proof (llstep_spec _ l (LStep a) HI) as [_ H]. cbn zeta in H. rewrite Ha in H. destruct H as [H1 H2].
  split; [exact H1|]. rewrite H2. apply nth_error_set_nth_same. eapply nth_error_nth_len; eauto.
Qed.

(* ------------------------------------------------------------------ *)
(* the monitors of LLSpec accept every observation the model produces *)
From Coq Require Import Permutation.
From Util Require Import Lifo.Spec Lifo.LLSpec.

Lemma list_eqb_refl l : list_eqb l l = true.
Proof. induction l as [|x l IH]; [reflexivity|]. cbn. now rewrite N.eqb_refl, IH. Qed.

Lemma remove1_in x : forall b, In x b -> exists b', remove1 x b = Some b' /\ Permutation b (x :: b').
Proof.
  induction b as [|y b IH]; intros Hin; [destruct Hin|]. cbn [remove1].
  destruct (N.eqb_spec x y) as [->|Hne].
  - exists b. split; [reflexivity | apply Permutation_refl].
  - destruct Hin as [->|Hin]; [congruence|]. destruct (IH Hin) as [b' [Hr Hp]]. rewrite Hr.
    exists (y :: b'). split; [reflexivity|]. eapply Permutation_trans; [apply perm_skip; exact Hp | apply perm_swap].
Qed.

Lemma msub_perm : forall a b, Permutation a b -> msub a b = true.
Proof.
  induction a as [|x a IH]; intros b Hp; [reflexivity|]. cbn [msub].
  assert (Hin : In x b) by (eapply Permutation_in; [exact Hp | now left]).
  destruct (remove1_in x b Hin) as [b' [Hr Hp']]. rewrite Hr. apply IH.
  apply (Permutation_cons_inv (a := x)). eapply Permutation_trans; [exact Hp | exact Hp'].
Qed.

Lemma insert_perm x : forall l, Permutation (insert x l) (x :: l).
Proof.
  induction l as [|y l IH]; [apply Permutation_refl|]. cbn [insert]. destruct (N.leb x y); [apply Permutation_refl|].
  eapply Permutation_trans; [apply perm_skip; exact IH | apply perm_swap].
Qed.

Lemma isort_perm : forall l, Permutation (isort l) l.
Proof.
  induction l as [|x l IH]; [apply Permutation_refl|]. unfold isort in *. cbn [fold_right].
  eapply Permutation_trans; [apply insert_perm | now apply perm_skip].
Qed.

(* a whole call by a fresh actor performs the sequential operation *)
Lemma call_now_spec s l o : LLInv s l ->
  (exists l', LLInv (fst (call_now s o)) l') /\
  labs (fst (call_now s o)) = fst (dseq (labs s) o) /\ snd (call_now s o) = snd (dseq (labs s) o).
Proof.
  intros HI. unfold call_now. cbn [fst snd].
  set (a := length (lacts s)).
  pose proof (llstep_spec s l (LCall o) HI) as [[l1 HI1] [Hab1 Hac1]]. cbn zeta in *.
  set (s1 := llstep s (LCall o)) in *.
  assert (Ha1 : nth_error (lacts s1) a = Some (LCalled o)).
  { rewrite Hac1. unfold a. rewrite nth_error_app2 by lia. now rewrite Nat.sub_diag. }
  pose proof (llstep_spec s1 l1 (LStep a) HI1) as [[l2 HI2] H2]. cbn zeta in H2. rewrite Ha1 in H2.
  destruct H2 as [Hab2 Hac2]. set (s2 := llstep s1 (LStep a)) in *.
  assert (Hlen : a < length (lacts s1)) by (eapply nth_error_nth_len; eauto).
  assert (Ha2 : nth_error (lacts s2) a = Some (LRetp (snd (dseq (labs s1) o)))).
  { rewrite Hac2. now apply nth_error_set_nth_same. }
  pose proof (llstep_spec s2 l2 (LRet a) HI2) as [[l3 HI3] H3]. cbn zeta in H3. rewrite Ha2 in H3.
  destruct H3 as [Hab3 Hac3]. set (s3 := llstep s2 (LRet a)) in *.
  split; [now exists l3|]. split; [now rewrite Hab3, Hab2, Hab1|].
  rewrite Hac3. rewrite nth_error_set_nth_same by (rewrite Hac2, length_set_nth; exact Hlen). now rewrite Hab1.
Qed.

Lemma push_all_spec vs : forall s l, LLInv s l ->
  let s' := fold_left (fun s v => fst (call_now s (DPush v))) vs s in
  (exists l', LLInv s' l') /\ labs s' = labs s ++ vs.
Proof.
  induction vs as [|v vs IH]; intros s l HI; cbn [fold_left].
  - split; [now exists l | now rewrite app_nil_r].
  - destruct (call_now_spec s l (DPush v) HI) as [[l1 HI1] [Hab _]].
    destruct (IH _ l1 HI1) as [HI' Hab']. cbn zeta in *. split; [exact HI'|].
    rewrite Hab', Hab. cbn [dseq fst]. now rewrite <- app_assoc.
Qed.

Lemma ldrain_spec : forall fuel s l, LLInv s l -> length (labs s) < fuel ->
  (exists l', LLInv (fst (ldrain fuel s)) l') /\ labs (fst (ldrain fuel s)) = [] /\ snd (ldrain fuel s) = labs s.
Proof.
  induction fuel as [|f IH]; intros s l HI Hlen; [lia|]. cbn [ldrain].
  destruct (call_now_spec s l DPop HI) as [[l1 HI1] [Hab Hr]].
  destruct (call_now s DPop) as [s1 r] eqn:Ec. cbn [fst snd] in *.
  destruct (labs s) as [|x t] eqn:El; cbn [dseq fst snd] in *.
  - subst r. cbn [snd]. cbn [fst snd]. split; [now exists l1|]. split; [exact Hab | reflexivity].
  - subst r. cbn [snd fst]. cbn [length] in Hlen.
    destruct (IH s1 l1 HI1 ltac:(rewrite Hab; lia)) as [HI' [Hab' Hd]].
    destruct (ldrain f s1) as [s2 d] eqn:Ed. cbn [fst snd] in *.
    split; [exact HI'|]. split; [exact Hab'|]. now rewrite Hd, Hab.
Qed.

Lemma labs_len s l : LLInv s l -> length (labs s) <= length (lheap s).
Proof.
  intros HI. rewrite (labs_vals _ _ HI). unfold cvals. rewrite map_length.
  destruct HI as [Hs Hnd _]. apply nodup_bound; [exact Hnd|]. intros a Ha. eapply cseg_lt; eauto.
Qed.

(* simulation between the model state and the state of the monitors *)
Definition MR (h : lhst) (m : dmst) : Prop :=
  (exists l, LLInv (lms h) l) /\ d_list m = labs (lms h) /\ Permutation (d_bag m) (d_list m).

Lemma MR_init cfg : MR (lhinit cfg) (dminit cfg).
Proof.
  destruct cfg as [|f elems]; cbn [lhinit dminit tl lms].
  - split; [exists []; exact llinit_inv|]. split; [reflexivity | apply Permutation_refl].
  - destruct (push_all_spec elems llinit [] llinit_inv) as [HI Hab]. cbn zeta in *.
    split; [exact HI|]. split; [cbn [d_list lms]; rewrite Hab; reflexivity | apply Permutation_refl].
Qed.

Lemma ll_sim_step h m e h' o : MR h m -> lhstep h e = Some (h', o) ->
  exists m', dmon m e o = (m', []) /\ MR h' m'.
Proof.
  intros [[l HI] [Hl Hb]] Hs. unfold lhstep in Hs. unfold dmon.
  destruct (decode e) as [[op| |v|]|]; [| | | |discriminate].
  - (* a method call *)
    destruct (lfree h); [discriminate|].
    destruct (call_now_spec (lms h) l op HI) as [HI' [Hab Hr]].
    destruct (call_now (lms h) op) as [s' r] eqn:Ec. cbn [fst snd] in *. inversion Hs; subst h' o. clear Hs.
    rewrite Hl. subst r.
    destruct op as [v|v| | | | |].
    + cbn [dseq fst snd] in *. rewrite list_eqb_refl.
      eexists. split; [reflexivity|]. split; [exact HI'|]. split; [cbn [lms d_list]; now rewrite Hab|]. cbn [d_bag d_list].
      eapply Permutation_trans; [apply perm_skip; exact Hb | rewrite Hl; apply Permutation_cons_append].
    + cbn [dseq fst snd] in *. rewrite list_eqb_refl.
      eexists. split; [reflexivity|]. split; [exact HI'|]. split; [cbn [lms d_list]; now rewrite Hab|]. cbn [d_bag d_list].
      apply perm_skip. now rewrite <- Hl.
    + destruct (labs (lms h)) as [|x t] eqn:El; cbn [dseq fst snd enc_ret] in *; rewrite list_eqb_refl.
      * eexists. split; [reflexivity|]. split; [exact HI'|]. split; [cbn [lms d_list]; now rewrite Hab|]. cbn [d_bag d_list]. now rewrite <- Hl.
      * assert (Hin : In x (d_bag m)) by (eapply Permutation_in; [apply Permutation_sym; exact Hb | rewrite Hl; now left]).
        destruct (remove1_in x _ Hin) as [b' [Hrm Hp]]. unfold bag_remove. rewrite Hrm.
        eexists. split; [reflexivity|]. split; [exact HI'|]. split; [cbn [lms d_list]; now rewrite Hab|]. cbn [d_bag d_list].
        apply (Permutation_cons_inv (a := x)). eapply Permutation_trans; [apply Permutation_sym; exact Hp|]. now rewrite <- Hl.
    + destruct (labs (lms h)) as [|x t] eqn:El; cbn [dseq fst snd enc_ret] in *; rewrite list_eqb_refl;
        (eexists; split; [reflexivity|]; split; [exact HI'|]; split; [cbn [lms d_list]; now rewrite Hab|]; cbn [d_bag d_list]; now rewrite <- Hl).
    + destruct (labs (lms h)) as [|x t] eqn:El; cbn [dseq fst snd enc_ret] in *; rewrite list_eqb_refl;
        (eexists; split; [reflexivity|]; split; [exact HI'|]; split; [cbn [lms d_list]; now rewrite Hab|]; cbn [d_bag d_list]; now rewrite <- Hl).
    + cbn [dseq fst snd] in *. rewrite list_eqb_refl.
      eexists. split; [reflexivity|]. split; [exact HI'|]. split; [cbn [lms d_list]; now rewrite Hab|]. cbn [d_bag d_list]. now rewrite <- Hl.
    + cbn [dseq fst snd] in *. rewrite list_eqb_refl.
      eexists. split; [reflexivity|]. split; [exact HI'|]. split; [cbn [lms d_list]; now rewrite Hab|]. apply Permutation_refl.
  - (* drain *)
    destruct (lfree h); [discriminate|].
    destruct (ldrain_spec (S (length (lheap (lms h)))) (lms h) l HI) as [HI' [Hab Hd]].
    { pose proof (labs_len _ _ HI). lia. }
    destruct (ldrain (S (length (lheap (lms h)))) (lms h)) as [s' d] eqn:Ed. cbn [fst snd] in *.
    inversion Hs; subst h' o. clear Hs. cbn [tl]. subst d. rewrite <- Hl.
    rewrite list_eqb_refl. rewrite (msub_perm _ _ Hb). rewrite (msub_perm _ _ (Permutation_sym Hb)). cbn.
    eexists. split; [reflexivity|]. split; [exact HI'|]. split; [cbn [lms d_list]; now rewrite Hab | apply Permutation_refl].
  - (* a value of the free stream *)
    destruct (lfree h); [|discriminate].
    destruct (call_now_spec (lms h) l (DPush v) HI) as [HI' [Hab _]].
    set (s1 := fst (call_now (lms h) (DPush v))) in *. clearbody s1.
    inversion Hs; subst h' o. clear Hs.
    exists {| d_list := d_list m ++ [v]; d_bag := v :: d_bag m |}.
    split; [reflexivity|]. split; [exact HI'|]. split; [cbn [lms d_list]; rewrite Hab, Hl; reflexivity|]. cbn [d_list d_bag].
    eapply Permutation_trans; [apply perm_skip; exact Hb | apply Permutation_cons_append].
  - (* the free stream ran *)
    destruct (lfree h); [|discriminate].
    destruct (ldrain_spec (S (length (lheap (lms h)))) (lms h) l HI) as [HI' [Hab Hd]].
    { pose proof (labs_len _ _ HI). lia. }
    destruct (ldrain (S (length (lheap (lms h)))) (lms h)) as [s' d] eqn:Ed. cbn [fst snd] in *.
    inversion Hs; subst h' o. clear Hs. subst d.
    assert (Hp : Permutation (d_bag m) (isort (labs (lms h)))).
    { eapply Permutation_trans; [exact Hb|]. rewrite Hl. apply Permutation_sym, isort_perm. }
    rewrite (msub_perm _ _ Hp), (msub_perm _ _ (Permutation_sym Hp)). cbn.
    eexists. split; [reflexivity|]. split; [exact HI'|]. split; [cbn [lms d_list]; now rewrite Hab | apply Permutation_refl].
Qed.

Lemma ll_monitor_silent evs : forall h m i reported,
  MR h m -> monitor dmon i m reported evs (run_obs lhstep h evs) = [].
Proof.
  induction evs as [|e evs IH]; intros h m i reported HR; [reflexivity|].
  cbn [run_obs]. destruct (lhstep h e) as [[h' o]|] eqn:Hs; [|reflexivity].
  destruct (ll_sim_step _ _ _ _ _ HR Hs) as (m' & Hm & HR').
  cbn [monitor]. rewrite Hm. cbn [filter map app]. apply IH. exact HR'.
Qed.

Theorem ll_model_satisfies_monitors cfg evs :
  monitor dmon 0 (dminit cfg) [] evs (run_obs lhstep (lhinit cfg) evs) = [].
Proof. apply ll_monitor_silent, MR_init. Qed.
