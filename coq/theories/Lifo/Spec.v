(* AtomicLIFO: codec between harness histories and model events, observations, and the monitors of
   C12 (property 12) on observed traces.

   Events (lines of integers):
     [1; v]   Push(v) in a new actor (v <> 0); the actor parks at site 3 (before its load of top)
     [2]      Pop() in a new actor; it parks at site 2
     [3; i]   let harness actor i run from its gate to the next gate or to its return
     [4]      drain: the controller itself pops until Pop returns the zero value (at most a bound)
     [9; v]   free-running stream (config [1] only): v is one of the values pushed by the stream
     [10]     the stream ran: unparked goroutines pushed those values and popped concurrently; afterwards
              the structure was drained
   Observations:
     after 1/2/3: one status code per harness actor
                  1 parked at site 0 (Push before CAS)   2 parked at site 1 (Pop before CAS)
                  3 parked at site 2 (Pop before load)   4 parked at site 3 (Push before load)
                  5 Push returned                        10+v Pop returned v (10 = the zero value)
     after 4:     z :: ds   ds = the non-zero values popped, in order; z = 1 iff the last Pop returned zero
     after 9:     nothing
     after 10:    all non-zero values returned by Pops of the stream and of the final drain, sorted *)
From Util Require Import Common.Base Common.ListLemmas Lifo.Model.

Record hst := { ms : lst; hmap : list nat; hfree : bool }.
Definition hinit (cfg : list N) : hst :=
  {| ms := linit; hmap := []; hfree := match cfg with [1%N] => true | _ => false end |}.

Definition code_pc (p : pc) : N :=
  match p with
  | PushLoaded _ _ _ => 1
  | PopLoaded _ _ => 2
  | PopStart => 3
  | PushAlloc _ _ => 4
  | PushRet _ | PushDone _ => 5
  | PopRet r | PopDone r => 10 + retval r
  end%N.

Definition code (s : lst) (a : nat) : N :=
  match nth_error (acts s) a with Some p => code_pc p | None => 0%N end.
Definition obs (h : hst) : list N := map (code (ms h)) (hmap h).

Definition parked (p : pc) : bool :=
  match p with PushAlloc _ _ | PushLoaded _ _ _ | PopStart | PopLoaded _ _ => true | _ => false end.

(* a whole Pop by a fresh uncontended actor: call, load, CAS, return *)
Definition pop_now (s : lst) : lst * N :=
  let a := length (acts s) in
  let s' := lstep (lstep (lstep (lstep s CallPop) (Step a)) (Step a)) (Ret a) in
  (s', match nth_error (acts s') a with Some (PopDone r) => retval r | _ => 0%N end).

Fixpoint drain (fuel : nat) (s : lst) : lst * list N :=
  match fuel with
  | 0 => (s, [])
  | S f => let (s1, v) := pop_now s in
           if N.eqb v 0 then (s1, [])
           else let (s2, l) := drain f s1 in (s2, v :: l)
  end.

(* a whole Push by a fresh uncontended actor *)
Definition push_now (s : lst) (v : N) : lst :=
  let a := length (acts s) in
  lstep (lstep (lstep (lstep s (CallPush v)) (Step a)) (Step a)) (Ret a).

Fixpoint insert (x : N) (l : list N) : list N :=
  match l with
  | [] => [x]
  | y :: l' => if N.leb x y then x :: l else y :: insert x l'
  end.
Definition isort (l : list N) : list N := fold_right insert [] l.

Definition hstep (h : hst) (e : list N) : option (hst * list N) :=
  let s := ms h in
  let ret h' := Some (h', obs h') in
  match e with
  | [1; v] =>
    if hfree h || N.eqb v 0 then None
    else ret {| ms := lstep s (CallPush v); hmap := hmap h ++ [length (acts s)]; hfree := false |}
  | [2] =>
    if hfree h then None
    else ret {| ms := lstep s CallPop; hmap := hmap h ++ [length (acts s)]; hfree := false |}
  | [3; i] =>
    match nth_error (hmap h) (N.to_nat i) with
    | Some a =>
      match nth_error (acts s) a with
      | Some p => if parked p
                  then ret {| ms := lstep (lstep s (Step a)) (Ret a); hmap := hmap h; hfree := hfree h |}
                  else None
      | None => None
      end
    | None => None
    end
  | [4] =>
    if hfree h then None
    else let (s', l) := drain (S (length (heap s))) s in
         Some ({| ms := s'; hmap := hmap h; hfree := false |}, 1 :: l)
  (* the free stream is replayed in ONE schedule of the model (all pushes, then the drain) and compared
     order-free; by conservation (Proofs.lifo_conservation) every schedule returns the same multiset *)
  | [9; v] =>
    if hfree h && negb (N.eqb v 0)
    then Some ({| ms := push_now s v; hmap := hmap h; hfree := true |}, [])
    else None
  | [10] =>
    if hfree h
    then let (s', l) := drain (S (length (heap s))) s in
         Some ({| ms := s'; hmap := hmap h; hfree := true |}, isort l)
    else None
  | _ => None
  end%N.

(* ---------------- monitors (on the implementation's observations only) ---------------- *)
(* one operation of the observed history: kind, pushed value, invocation time, response (time, value) *)
Record mop := { mo_push : bool; mo_val : N; mo_inv : nat; mo_res : option (nat * N) }.
Record lmst := { m_ops : list mop;      (* one per harness actor *)
                 m_drain : list mop;    (* the pops of drains *)
                 m_clock : nat }.
Definition lminit (cfg : list N) : lmst := {| m_ops := []; m_drain := []; m_clock := 0 |}.

Definition completed (o : mop) : bool := match mo_res o with Some _ => true | None => false end.

(* multiset inclusion on lists *)
Fixpoint remove1 (x : N) (l : list N) : option (list N) :=
  match l with
  | [] => None
  | y :: l' => if N.eqb x y then Some l' else match remove1 x l' with Some r => Some (y :: r) | None => None end
  end.
Fixpoint msub (a b : list N) : bool :=
  match a with
  | [] => true
  | x :: a' => match remove1 x b with Some b' => msub a' b' | None => false end
  end.

(* number of elements of a (with multiplicity) that have no partner in b *)
Fixpoint mdiff (a b : list N) : nat :=
  match a with
  | [] => 0
  | x :: a' => match remove1 x b with Some b' => mdiff a' b' | None => S (mdiff a' b) end
  end.

(* every way of taking one element out of a list *)
Fixpoint picks {A} (l : list A) : list (A * list A) :=
  match l with
  | [] => []
  | x :: l' => (x, l') :: map (fun p : A * list A => (fst p, x :: snd p)) (picks l')
  end.

(* o may be linearized next: no other remaining operation has responded before o was invoked *)
Definition minimal (o : mop) (todo : list mop) : bool :=
  forallb (fun o' => match mo_res o' with Some (j, _) => negb (Nat.ltb j (mo_inv o)) | None => true end) todo.

Definition apply_op (o : mop) (stk : list N) : option (list N) :=
  if mo_push o then Some (mo_val o :: stk)
  else match mo_res o with
       | Some (_, r) =>
         match stk with
         | [] => if N.eqb r 0 then Some [] else None
         | v :: t => if N.eqb r v then Some t else None
         end
       | None => Some (tl stk)      (* a pending Pop may have removed the top *)
       end.

(* first-success search with explicit [if] (so that evaluation inside Coq short-circuits too) *)
Fixpoint find_true {A} (f : A -> bool) (l : list A) : bool :=
  match l with
  | [] => false
  | x :: l' => if f x then true else find_true f l'
  end.

(* search for a linearization: a sequential LIFO execution that contains every completed operation with
   its result, any subset of the pending ones, and respects the real-time order.  Depth-first, fuelled
   by the number of operations.  Used by the monitor only, never inside a proof; that it decides the
   existence of such an execution is Proofs.lin_search_correct. *)
Fixpoint lin_search (fuel : nat) (stk : list N) (todo : list mop) : bool :=
  match fuel with
  | 0 => false
  | S f =>
    if forallb (fun o => negb (completed o)) todo then true
    else find_true (fun p : mop * list mop =>
                      if minimal (fst p) todo
                      then match apply_op (fst p) stk with
                           | Some stk' => lin_search f stk' (snd p)
                           | None => false
                           end
                      else false) (picks todo)
  end.
(* completed operations are tried first (the order of the list does not change the verdict) *)
Definition linearizable_lifo (ops : list mop) : bool :=
  lin_search (S (length ops)) [] (filter completed ops ++ filter (fun o => negb (completed o)) ops).

(* status vector -> responses *)
Fixpoint upd_ops (k : nat) (ops : list mop) (o : list N) : list mop :=
  match ops, o with
  | op :: ops', c :: o' =>
    (match mo_res op with
     | Some _ => op
     | None =>
       if mo_push op
       then if N.eqb c 5 then {| mo_push := true; mo_val := mo_val op; mo_inv := mo_inv op; mo_res := Some (k, 0%N) |} else op
       else if N.leb 10 c then {| mo_push := false; mo_val := 0%N; mo_inv := mo_inv op; mo_res := Some (k, (c - 10)%N) |} else op
     end) :: upd_ops k ops' o'
  | _, _ => ops
  end.

Fixpoint drain_ops (k : nat) (ds : list N) (z : bool) : list mop :=
  match ds with
  | [] => if z then [{| mo_push := false; mo_val := 0%N; mo_inv := k; mo_res := Some (S k, 0%N) |}] else []
  | d :: ds' => {| mo_push := false; mo_val := 0%N; mo_inv := k; mo_res := Some (S k, d) |} :: drain_ops (S (S k)) ds' z
  end.

Definition count_b (l : list bool) : nat := length (filter (fun x => x) l).

(* clause 2: a Pop that returned the zero value although the stack cannot have been empty at any moment
   of its interval: more Pushes had returned before it was invoked than there are other Pops, invoked
   before it returned, that removed or may have removed an element *)
Definition zero_pop_bad (all : list mop) (o : mop) : bool :=
  match mo_res o with
  | Some (j, r) =>
    negb (mo_push o) && N.eqb r 0 &&
    let a := count_b (map (fun p => mo_push p && match mo_res p with Some (jp, _) => Nat.ltb jp (mo_inv o) | None => false end) all) in
    let b := count_b (map (fun p => negb (mo_push p) && Nat.ltb (mo_inv p) j &&
                                    match mo_res p with Some (_, rp) => negb (N.eqb rp 0) | None => true end) all) in
    Nat.ltb b a
  | None => false
  end.

Definition pushed_completed (ops : list mop) : list N :=
  map mo_val (filter (fun o => mo_push o && completed o) ops).
Definition pushed_invoked (ops : list mop) : list N := map mo_val (filter mo_push ops).
Definition popped_vals (ops : list mop) : list N :=
  flat_map (fun o => if mo_push o then [] else match mo_res o with Some (_, r) => if N.eqb r 0 then [] else [r] | None => [] end) ops.

Definition max_search_ops : nat := 10.

Definition lmon (m : lmst) (e o : list N) : lmst * list (nat * nat) :=
  let k := m_clock m in
  match e with
  | [9%N; v] =>
    ({| m_ops := m_ops m ++ [{| mo_push := true; mo_val := v; mo_inv := k; mo_res := Some (S k, 0%N) |}];
        m_drain := m_drain m; m_clock := k + 2 |}, [])
  | [10%N] =>
    ({| m_ops := []; m_drain := []; m_clock := k + 2 |},
     (if msub (pushed_completed (m_ops m)) o then [] else [(12, 3)]) ++
     (if msub o (pushed_invoked (m_ops m)) then [] else [(12, 4)]))
  | [4%N] =>
    let z := match o with 1 :: _ => true | _ => false end%N in
    let ds := tl o in
    let dr := m_drain m ++ drain_ops (S k) ds z in
    let all := m_ops m ++ dr in
    let m' := {| m_ops := m_ops m; m_drain := dr; m_clock := k + 2 * (length ds) + 4 |} in
    (m', (if Nat.leb (length (m_ops m)) max_search_ops && negb (linearizable_lifo all) then [(12, 1)] else []) ++
         (if existsb (zero_pop_bad all) (drain_ops (S k) ds z) then [(12, 2)] else []) ++
         (* nothing lost: every value whose Push returned was popped or drained, except that each Pop
            still pending may hold one *)
         (if z && Nat.ltb (count_b (map (fun p => negb (mo_push p) && negb (completed p)) all))
                          (mdiff (pushed_completed all) (popped_vals all)) then [(12, 3)] else []) ++
         (if msub (popped_vals all) (pushed_invoked all) then [] else [(12, 4)]))
  | _ =>
    let ops1 := match e with
                | [1; v] => m_ops m ++ [{| mo_push := true; mo_val := v; mo_inv := k; mo_res := None |}]
                | [2] => m_ops m ++ [{| mo_push := false; mo_val := 0; mo_inv := k; mo_res := None |}]
                | _ => m_ops m
                end%N in
    let ops2 := upd_ops (S k) ops1 o in
    let newly := filter (fun p : mop * mop => negb (completed (fst p)) && completed (snd p)) (combine ops1 ops2) in
    let all := ops2 ++ m_drain m in
    let m' := {| m_ops := ops2; m_drain := m_drain m; m_clock := k + 2 |} in
    match newly with
    | [] => (m', [])
    | _ =>
      (m', (if Nat.leb (length ops2) max_search_ops && negb (linearizable_lifo all) then [(12, 1)] else []) ++
           (if existsb (fun p : mop * mop => zero_pop_bad all (snd p)) newly then [(12, 2)] else []) ++
           (if msub (popped_vals all) (pushed_invoked all) then [] else [(12, 4)]))
    end
  end.

Definition run_check_lifo (cfg : list N) (evs obss : list (list N)) : list issue :=
  run_check hstep lmon (hinit cfg) (lminit cfg) evs obss.
