(* C12 -- cqueue/linkedlist: concurrent Push/Pop are linearizable and conserve elements.
   Statements only; each closed by [exact] of a lemma of Proofs.v / LLProofs.v / Lin.v.

   "For every number of goroutines, every operation mix and every interleaving of the individual atomic
   loads and compare-and-swaps" = for every list of events of the model of Model.v: any number of calls
   (one actor each), [Step a] = the next atomic access of actor a (load of top / compare-and-swap),
   [Ret a] = the return of its call, in any order.  Memory assumption (Model.v header): node addresses
   are never reused (garbage collection; this excludes ABA).  For LinkedList (LLModel.v) a step is one
   whole critical section of the mutex. *)
From Util Require Import Common.Base Common.ListLemmas.
From Util Require Import Lifo.Lin Lifo.Model Lifo.Proofs Lifo.LLModel Lifo.LLProofs Lifo.Spec Lifo.LLSpec.
From Util Require Import Lifo.ProofsMon Lifo.ProofsMon2.

(* ---------------- AtomicLIFO ---------------- *)

(* abs s = the values reachable from top (Model.abs = walk from top); in every reachable state a
   linearization-point step (successful CAS, or the load of Pop that saw nil) performs the sequential
   push/pop of the pending operation on abs and fixes the result the call will return; every other
   event -- calls, loads, failed CAS, returns -- leaves abs unchanged *)
Theorem c12_lifo_abs : forall es e,
  let s := lrun es in
  let s' := lstep s e in
  abs s = walk (length (heap s)) (heap s) (top s) /\
  match e with
  | Step a =>
    if is_lp s a
    then exists p o, nth_error (acts s) a = Some p /\ phase_of p = PhPend o /\
                     abs s' = fst (lseq (abs s) o) /\
                     acts s' = set_nth (acts s) a (lin_pc o (abs s))
    else abs s' = abs s
  | _ => abs s' = abs s
  end.
Proof. intros es e. split; [reflexivity | exact (lifo_abs es e)]. Qed.
Print Assumptions c12_lifo_abs.

(* the representation invariant behind it: top leads through distinct, published (no longer writable)
   nodes to nil *)
Theorem c12_lifo_repr : forall es, exists l, LInv (lrun es) l.
Proof. exact lrun_inv. Qed.
Print Assumptions c12_lifo_repr.

(* every concurrent history (invocations = Call events, responses = Ret events, thread = actor) is
   linearizable w.r.t. the sequential LIFO specification lseq (Pop on the empty stack returns the zero
   value): there is a sequential witness S without duplicates, containing every completed operation
   with its response, legal for lseq from the empty stack, preserving the real-time order
   (Lin.linearization); S moreover ends in the abstract stack of the final state *)
Theorem c12_lifo_linearizable : forall es,
  exists S, linearization lseq [] (lhistory es) S /\ exec lseq [] S = abs (lrun es).
Proof. exact lifo_linearizable. Qed.
Print Assumptions c12_lifo_linearizable.

(* the meta-theorem used (Herlihy-Wing from linearization-point annotated runs), for the record *)
Theorem c12_lp_run_linearizable : forall (Op Ret St : Type) (seq : St -> Op -> St * Ret) (s0 : St) A f,
  arun seq (init Op Ret s0) A = Some f -> ares_ok seq (init Op Ret s0) A ->
  linearization seq s0 (erase A) (wit f).
Proof. intros Op Ret St seq s0 A f. exact (@lp_run_linearizable Op Ret St seq s0 A f). Qed.
Print Assumptions c12_lp_run_linearizable.

(* at the linearization point of a Pop: it will return "nothing" iff the abstract stack is empty there,
   otherwise it removes and returns the top; if no zero value was ever pushed, the returned VALUE is
   the zero value iff the stack was empty *)
Theorem c12_pop_zero_iff_empty_at_lp : forall es a p,
  let s := lrun es in
  let s' := lstep s (Step a) in
  nth_error (acts s) a = Some p -> phase_of p = PhPend OPop -> is_lp s a = true ->
  exists r, nth_error (acts s') a = Some (PopRet r) /\
            (r = None <-> abs s = []) /\
            match r with None => abs s' = [] | Some v => abs s = v :: abs s' end /\
            ((forall v, In v (push_vals es) -> v <> 0%N) -> (retval r = 0%N <-> abs s = [])).
Proof. exact pop_zero_iff_empty. Qed.
Print Assumptions c12_pop_zero_iff_empty_at_lp.

(* conservation, value by value (multiset equality): linearized pushes = popped (+) still on the stack *)
Theorem c12_lifo_conservation : forall es v,
  let s := lrun es in
  cnt (pushed_lin v) (acts s) = cnt (popped v) (acts s) + count_occ N.eq_dec (abs s) v.
Proof. exact lifo_conservation. Qed.
Print Assumptions c12_lifo_conservation.

(* nothing is returned (or kept) more often than it was pushed; with distinct pushed values every value
   is returned at most once, and never while it is still on the stack *)
Theorem c12_lifo_no_duplication : forall es v,
  let s := lrun es in
  cnt (popped v) (acts s) + count_occ N.eq_dec (abs s) v <= count_occ N.eq_dec (push_vals es) v.
Proof. exact lifo_no_duplication. Qed.
Print Assumptions c12_lifo_no_duplication.

Theorem c12_lifo_popped_once : forall es v, NoDup (push_vals es) ->
  let s := lrun es in cnt (popped v) (acts s) + count_occ N.eq_dec (abs s) v <= 1.
Proof. exact lifo_popped_once. Qed.
Print Assumptions c12_lifo_popped_once.

(* the executable search behind monitor clause 1 (Spec.lin_search, run on OBSERVED histories) decides
   exactly the existence of a sequential LIFO execution of the recorded operations -- every completed
   one with its observed result, any subset of the pending ones -- in which no operation is placed
   before one that had responded before it was invoked (lin_ok): the clause reports neither more nor
   less than non-linearizability of the observed history *)
Theorem c12_lin_search_correct : forall fuel stk todo, length todo < fuel ->
  (lin_search fuel stk todo = true <-> lin_ok stk todo).
Proof. exact lin_search_correct. Qed.
Print Assumptions c12_lin_search_correct.

(* ---------------- LinkedList ---------------- *)

(* head/tail/heap represent a list: head leads through distinct cells to nil, tail is the last cell;
   tail = nil <-> head = nil <-> the list is empty *)
Theorem c12_linkedlist_repr : forall es,
  let s := llrun es in
  exists l, Repr (lheap s) (lhead s) (ltail s) l /\ labs s = cvals (lheap s) l /\
            (ltail s = None <-> lhead s = None) /\ (lhead s = None <-> labs s = []).
Proof. exact linkedlist_repr. Qed.
Print Assumptions c12_linkedlist_repr.

(* each method body (Push, PushFront, Pop, Peek, PeekTail, IsEmpty, Reset), run on ANY pointer structure
   that represents a list, yields a structure representing the result of the sequential deque operation
   and returns that operation's result *)
Theorem c12_linkedlist_refines_deque : forall h hd tl l o, Repr h hd tl l ->
  match lmethod h hd tl o with
  | (h', hd', tl', r) =>
    exists l', Repr h' hd' tl' l' /\ cvals h' l' = fst (dseq (cvals h l) o) /\ r = snd (dseq (cvals h l) o)
  end.
Proof. exact lmethod_refines. Qed.
Print Assumptions c12_linkedlist_refines_deque.

(* ... hence in every reachable state the critical section of a pending call applies dseq to labs *)
Theorem c12_linkedlist_step_refines : forall es a o,
  let s := llrun es in
  let s' := llstep s (LStep a) in
  nth_error (lacts s) a = Some (LCalled o) ->
  labs s' = fst (dseq (labs s) o) /\ nth_error (lacts s') a = Some (LRetp (snd (dseq (labs s) o))).
Proof. exact linkedlist_refines_deque. Qed.
Print Assumptions c12_linkedlist_step_refines.

(* every concurrent history of LinkedList calls (any interleaving of invocations, whole critical
   sections and returns) is linearizable w.r.t. the sequential deque specification dseq *)
Theorem c12_linkedlist_linearizable : forall es,
  exists S, linearization dseq [] (llhistory es) S /\ exec dseq [] S = labs (llrun es).
Proof. exact linkedlist_linearizable. Qed.
Print Assumptions c12_linkedlist_linearizable.

(* the monitors that ./check runs on the implementation's observations (LLSpec.dmon: sequential deque
   result by result, nothing lost at a drain, nothing returned twice) accept every observation the model
   itself produces, for every config and every event list the codec-level step accepts *)
Theorem c12_linkedlist_model_satisfies_monitors : forall cfg evs,
  monitor dmon 0 (dminit cfg) [] evs (run_obs lhstep (lhinit cfg) evs) = [].
Proof. exact ll_model_satisfies_monitors. Qed.
Print Assumptions c12_linkedlist_model_satisfies_monitors.

(* the same for AtomicLIFO: the monitors Spec.lmon (clause 1 = the search over linearization orders,
   clause 2 = no Pop returns zero although the stack cannot have been empty, clause 3 = nothing lost at a
   drain / in a free-running stream, clause 4 = nothing popped that was not pushed) accept every
   observation of the schedule-level step function Spec.hstep, for every config (scheduled histories and
   free-running streams) and every event list, no bound.  Proof (ProofsMon.v, ProofsMon2.v): the
   monitor's operation table always has a WITNESS -- its completed operations in response order (= the
   order of their linearization points in the model, because a scheduled step runs an actor from its
   linearization point on to its return) are a legal sequential LIFO execution from the empty stack that
   ends in the abstract stack abs of the model state and respects the recorded real-time order *)
Theorem c12_lifo_model_satisfies_monitors : forall cfg evs,
  monitor lmon 0 (lminit cfg) [] evs (run_obs hstep (hinit cfg) evs) = [].
Proof. exact lifo_model_satisfies_monitors. Qed.
Print Assumptions c12_lifo_model_satisfies_monitors.

(* the per-event simulation behind it: R relates monitor state and model state *)
Theorem c12_lifo_mon_step : forall m h e h' o, R m h -> hstep h e = Some (h', o) ->
  exists m', lmon m e o = (m', []) /\ R m' h'.
Proof. exact mon_step. Qed.
Print Assumptions c12_lifo_mon_step.

(* a witness alone (no model in sight) silences every clause: this is the reading of the clauses *)
Theorem c12_lifo_witness_silences_clauses : forall all L stk, Wit all L stk ->
  linearizable_lifo all = true /\
  msub (popped_vals all) (pushed_invoked all) = true /\
  (stk = [] -> mdiff (pushed_completed all) (popped_vals all) = 0%nat) /\
  (forall o, (forall j, mo_push o = false -> mo_res o = Some (j, 0%N) ->
                        stk = [] /\ forall p, In p all -> mo_inv p < j) ->
             zero_pop_bad all o = false).
Proof. exact witness_silences_clauses. Qed.
Print Assumptions c12_lifo_witness_silences_clauses.

(* hence the whole checker (replay + monitors) accepts every history the lifo model itself produces *)
Theorem c12_lifo_model_run_check_clean : forall cfg evs,
  length (run_obs hstep (hinit cfg) evs) = length evs ->
  run_check_lifo cfg evs (run_obs hstep (hinit cfg) evs) = [].
Proof. exact lifo_model_run_check_clean. Qed.
Print Assumptions c12_lifo_model_run_check_clean.

(* ---------------- examples (non-vacuity) ---------------- *)
Open Scope N_scope.

(* a forced CAS failure: A = Push 7 loads top = nil and parks; B = Push 8 runs to completion; A's CAS
   fails and A is back before its load; after the retry the stack is [7; 8] *)
Example c12_example_push_cas_failure :
  let es := [CallPush 7; CallPush 8; Step 0; Step 1; Step 1; Step 0] in
  is_lp (lrun (firstn 5 es)) 0 = false /\
  nth_error (acts (lrun es)) 0 = Some (PushAlloc 7 0%nat) /\ abs (lrun es) = [8] /\
  abs (lrun (es ++ [Step 0; Step 0; Ret 0])) = [7; 8].
Proof. vm_compute. repeat split; reflexivity. Qed.

(* the ABA shape: A = Pop loads top = node of 1 (next = nil); B pops 1 and pushes 2, 3; A's CAS must
   fail (the top is a different node) and its retry returns 3 *)
Example c12_example_pop_cas_failure :
  let es := [CallPush 1; Step 0; Step 0; Ret 0; CallPop; Step 1;
             CallPop; Step 2; Step 2; Ret 2; CallPush 2; Step 3; Step 3; CallPush 3; Step 4; Step 4] in
  nth_error (acts (lrun es)) 2 = Some (PopDone (Some 1)) /\
  is_lp (lrun es) 1 = false /\
  nth_error (acts (lrun (es ++ [Step 1]))) 1 = Some PopStart /\
  nth_error (acts (lrun (es ++ [Step 1; Step 1; Step 1; Ret 1]))) 1 = Some (PopDone (Some 3)) /\
  abs (lrun (es ++ [Step 1; Step 1; Step 1; Ret 1])) = [2].
Proof. vm_compute. repeat split; reflexivity. Qed.

(* Pop on the empty stack is linearized at its load and returns the zero value *)
Example c12_example_pop_empty :
  let es := [CallPop; Step 0; Ret 0] in
  is_lp (lrun [CallPop]) 0 = true /\ nth_error (acts (lrun es)) 0 = Some (PopDone None) /\ retval None = 0.
Proof. vm_compute. repeat split; reflexivity. Qed.

(* the history of the first example: two overlapping pushes *)
Example c12_example_history :
  lhistory [CallPush 7; CallPush 8; Step 0; Step 1; Step 1; Ret 1; Step 0; Step 0; Step 0; Ret 0] =
  [Inv N 0%nat (OPush 7); Inv N 1%nat (OPush 8); Res lop 1%nat 0; Res lop 0%nat 0].
Proof. vm_compute. reflexivity. Qed.

(* LinkedList: Pop of the last element clears tail; PushFront on the empty list sets tail *)
Example c12_example_linkedlist :
  let es := [LCall (DPush 5); LStep 0; LCall DPop; LStep 1; LCall DPeekTail; LStep 2;
             LCall (DPushFront 6); LStep 3; LCall DPeekTail; LStep 4; LCall (DPush 7); LStep 5; LCall DPop; LStep 6] in
  let s := llrun es in
  nth_error (lacts s) 1 = Some (LRetp (5, true)) /\ nth_error (lacts s) 2 = Some (LRetp (0, false)) /\
  nth_error (lacts s) 4 = Some (LRetp (6, true)) /\ nth_error (lacts s) 6 = Some (LRetp (6, true)) /\
  labs s = [7].
Proof. vm_compute. repeat split; reflexivity. Qed.

(* the monitored lifo model on the ABA-shaped schedule: 15 accepted events (no BadEvent), the monitors
   stay silent; the observation after event 13 shows the retried Pop returning 2, the drain finds nothing *)
Example c12_example_lifo_monitored_run :
  let evs := [[1;1]; [3;0]; [3;0]; [2]; [3;1]; [2]; [3;2]; [3;2]; [1;2]; [3;3]; [3;3]; [3;1]; [3;1]; [3;1]; [4]] in
  length (run_obs hstep (hinit []) evs) = length evs /\
  run_check_lifo [] evs (run_obs hstep (hinit []) evs) = [] /\
  nth 13 (run_obs hstep (hinit []) evs) [] = [5; 12; 11; 5] /\
  nth 14 (run_obs hstep (hinit []) evs) [] = [1].
Proof. vm_compute. repeat split; reflexivity. Qed.
