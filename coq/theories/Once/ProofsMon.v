(* C16, monitors vs. model, part 1: the codec-level step of Spec.v (hstep) decomposed into model steps, and the
   state-level facts the simulation of ProofsMon2.v needs:
   the actor map stays a bijection onto the callers/goroutines of the model, the harness states are settled
   (no caller sits in Await on a resolved promise or with a cancelled context), how callers and goroutines
   move in one harness step. *)
From Util Require Import Common.Base Common.ListLemmas Once.Model Once.Spec Once.Proofs.

(* ------------------------------------------------------------------ list plumbing *)
Lemma existsb_false_intro {A} (f : A -> bool) l : (forall x, In x l -> f x = false) -> existsb f l = false.
Proof.
  induction l as [|h t IH]; intros H; [reflexivity|]. cbn [existsb].
  rewrite (H h (or_introl eq_refl)). apply IH. intros x Hx. apply H. now right.
Qed.

Lemma in_combine_nth {A B} (l1 : list A) (l2 : list B) a b :
  In (a, b) (combine l1 l2) -> exists i, nth_error l1 i = Some a /\ nth_error l2 i = Some b.
Proof.
  revert l2. induction l1 as [|h1 t1 IH]; intros l2 H; [destruct H|].
  destruct l2 as [|h2 t2]; [destruct H|]. cbn [combine] in H. destruct H as [H|H].
  - inversion H; subst. exists 0. auto.
  - destruct (IH t2 H) as (i & H1 & H2). exists (S i). auto.
Qed.

Lemma nth_error_combine {A B} (l1 : list A) (l2 : list B) i a b :
  nth_error l1 i = Some a -> nth_error l2 i = Some b -> nth_error (combine l1 l2) i = Some (a, b).
Proof.
  revert l2 i. induction l1 as [|h1 t1 IH]; intros l2 i H1 H2; [destruct i; discriminate|].
  destruct l2 as [|h2 t2]; [destruct i; discriminate|]. destruct i as [|i]; cbn in *.
  - congruence.
  - now apply IH.
Qed.

Lemma combine_nth_error {A B} (l1 : list A) (l2 : list B) i a b :
  nth_error (combine l1 l2) i = Some (a, b) -> nth_error l1 i = Some a /\ nth_error l2 i = Some b.
Proof.
  revert l2 i. induction l1 as [|h1 t1 IH]; intros l2 i H; [destruct i; discriminate|].
  destruct l2 as [|h2 t2]; [destruct i; discriminate|]. destruct i as [|i]; cbn in *.
  - inversion H; auto.
  - now apply IH.
Qed.

Lemma set_nth_lookup {A} (l : list A) k v j y :
  nth_error (set_nth l k v) j = Some y -> (j = k /\ y = v /\ k < length l) \/ (j <> k /\ nth_error l j = Some y).
Proof.
  intros H. destruct (Nat.eq_dec j k) as [->|Hne].
  - left. assert (Hl : k < length l) by (rewrite <- (length_set_nth l k v); eapply nth_error_nth_len; eauto).
    rewrite nth_error_set_nth_same in H by exact Hl. inversion H. auto.
  - right. rewrite nth_error_set_nth_other in H by exact Hne. auto.
Qed.

Lemma upd_length {A} (l : list A) i f : length (upd l i f) = length l.
Proof. unfold upd. destruct (nth_error l i); [apply length_set_nth | reflexivity]. Qed.

Lemma upd_lookup {A} (l : list A) i f j y : nth_error (upd l i f) j = Some y ->
  (j = i /\ exists x, nth_error l i = Some x /\ y = f x) \/ (j <> i /\ nth_error l j = Some y).
Proof.
  unfold upd. destruct (nth_error l i) as [x|] eqn:G; intros H.
  - apply set_nth_lookup in H as [(-> & -> & _)|(Hne & H)]; [left; eauto | right; auto].
  - destruct (Nat.eq_dec j i) as [->|Hne]; [congruence | right; auto].
Qed.

Lemma app_lookup {A} (l : list A) y i z :
  nth_error (l ++ [y]) i = Some z -> nth_error l i = Some z \/ (i = length l /\ z = y).
Proof.
  intros H. apply nth_error_app_new in H as [[_ H]|[H1 H2]]; auto.
Qed.

Lemma nth_error_app_last {A} (l : list A) y : nth_error (l ++ [y]) (length l) = Some y.
Proof. rewrite nth_error_app2 by lia. now rewrite Nat.sub_diag. Qed.

Lemma nth_error_app_old {A} (l r : list A) i x : nth_error l i = Some x -> nth_error (l ++ r) i = Some x.
Proof. intros H. rewrite nth_error_app1; [exact H | eapply nth_error_nth_len; eauto]. Qed.

Lemma existsb_filter_false {A} (f p : A -> bool) l :
  (forall z, In z l -> p z = true -> f z = false) -> existsb f (filter p l) = false.
Proof.
  intros H. apply existsb_false_intro. intros z Hz. apply filter_In in Hz as [Hz Hp]. auto.
Qed.

Lemma nth_error_map_inv {A B} (f : A -> B) l j b : nth_error (map f l) j = Some b -> exists a, nth_error l j = Some a /\ b = f a.
Proof.
  revert j. induction l as [|h t IH]; intros [|j] H; try discriminate; cbn in H.
  - inversion H. exists h. auto.
  - apply IH in H as [a [H1 H2]]. exists a. auto.
Qed.

(* ------------------------------------------------------------------ observations as pairs *)
Definition rcode (r : res) : N * N := match r with RVal v => (3, v) | RCanceled => (4, 0) | RErr e => (5, e) end%N.
Definition ccode (x : caller) : N * N :=
  match cp x with CGate => (1, 0) | CAwait _ => (2, 0) | CRet r _ => rcode r end%N.
Definition gcode (y : gor) : N * N :=
  match gp y with
  | GInCb ec => (6, if ec then 1 else 0) | GClear _ => (7, 0) | GSet _ => (8, 0) | GPub _ => (10, 0) | GDone _ => (9, 0)
  end%N.
Definition codep (s : st) (h : hact) : N * N :=
  match h with
  | HC a => match nth_error (cs s) a with Some x => ccode x | None => (0, 0)%N end
  | HG g => match nth_error (gs s) g with Some y => gcode y | None => (0, 0)%N end
  end.

Lemma code_codep s h : code s h = [fst (codep s h); snd (codep s h)].
Proof.
  destruct h as [a|g]; cbn [code codep].
  - destruct (nth_error (cs s) a) as [x|]; [|reflexivity]. unfold ccode. destruct (cp x) as [| |r src]; try reflexivity.
    destruct r; reflexivity.
  - destruct (nth_error (gs s) g) as [y|]; [|reflexivity]. unfold gcode. destruct (gp y); reflexivity.
Qed.

Lemma pairs_obs h : pairs (obs h) = map (codep (ms h)) (hmap h).
Proof.
  unfold obs. induction (hmap h) as [|x l IH]; [reflexivity|].
  cbn [flat_map map]. rewrite code_codep. cbn [app pairs]. rewrite IH. now destruct (codep (ms h) x).
Qed.

(* ------------------------------------------------------------------ decomposition of hstep *)
Inductive hdec (h : hst) : list N -> hst -> Prop :=
| D_res c : N.leb c 1 = true ->
    hdec h [1; c]%N {| ms := step (ms h) (Resolve (N.eqb c 1)); hmap := hmap h ++ [HC (length (cs (ms h)))] |}
| D_sect i ch a x : nth_error (hmap h) (N.to_nat i) = Some (HC a) -> nth_error (cs (ms h)) a = Some x -> cp x = CGate ->
    hdec h [3; i; ch]%N {| ms := await (step (ms h) (Sect a)) a ch;
                           hmap := match prom (ms h) with Some _ => hmap h | None => hmap h ++ [HG (length (gs (ms h)))] end |}
| D_gstep i ch g y : nth_error (hmap h) (N.to_nat i) = Some (HG g) -> nth_error (gs (ms h)) g = Some y ->
    (exists o, gp y = GClear o \/ gp y = GSet o) ->
    hdec h [3; i; ch]%N {| ms := step (ms h) (GStep g); hmap := hmap h |}
| D_pub i ch g y r : nth_error (hmap h) (N.to_nat i) = Some (HG g) -> nth_error (gs (ms h)) g = Some y -> gp y = GPub r ->
    hdec h [3; i; ch]%N {| ms := settle (step (ms h) (GStep g)); hmap := hmap h |}
| D_cancel i a x : nth_error (hmap h) (N.to_nat i) = Some (HC a) -> nth_error (cs (ms h)) a = Some x ->
    hdec h [4; i]%N {| ms := step (step (ms h) (CancelCtx a)) (WakeCtx a); hmap := hmap h |}
| D_cb i k g y ec o : nth_error (hmap h) (N.to_nat i) = Some (HG g) -> nth_error (gs (ms h)) g = Some y -> gp y = GInCb ec ->
    outcome i k = Some o ->
    hdec h [5; i; k]%N {| ms := step (ms h) (CbReturn g o); hmap := hmap h |}.

Lemma sect_hmap s a x : nth_error (cs s) a = Some x -> cp x = CGate ->
  Nat.ltb (length (gs s)) (length (gs (step s (Sect a)))) = match prom s with Some _ => false | None => true end.
Proof.
  intros G Ep. cbn [step]. rewrite G, Ep. destruct (prom s); cbn [gs].
  - apply Nat.ltb_irrefl.
  - rewrite app_length. cbn [length]. apply Nat.ltb_lt. lia.
Qed.

Opaque step await settle.
Lemma hstep_hdec h e h' o : hstep h e = Some (h', o) -> hdec h e h' /\ o = obs h'.
Proof.
  unfold hstep. intros H.
  repeat (match type of H with context [match ?t with _ => _ end] => destruct t eqn:?; try discriminate H end).
  all: injection H as Hs Ho; subst o; subst h'; (split; [|reflexivity]).
  all: subst.
  all: try (match goal with
            | Hb : Nat.ltb _ _ = _, Hx : nth_error (cs (ms ?hh)) ?a = Some ?x, Hc : cp ?x = CGate,
              Hm : nth_error (hmap ?hh) _ = Some (HC ?a) |- hdec ?hh [_; ?i; ?ch] _ =>
              rewrite (sect_hmap _ _ _ Hx Hc) in Hb; pose proof (D_sect hh i ch a x Hm Hx Hc) as D;
              destruct (prom (ms hh)); [try discriminate Hb; exact D | try discriminate Hb; exact D]
            end).
  - eapply D_cb; eauto.
  - eapply D_gstep; eauto.
  - eapply D_gstep; eauto.
  - eapply D_pub; eauto.
  - eapply D_cancel; eauto.
  - apply D_res. assumption.
Qed.
Transparent step await settle.

(* ------------------------------------------------------------------ callers leaving Await *)
Definition is_cret (p : cpc) : bool := match p with CRet _ _ => true | _ => false end.

(* x' is x, or x was in Await on p and has left it (to the gate or to a return); a result read from a promise is read from p *)
Definition woken (x x' : caller) : Prop :=
  cc x' = cc x /\
  (cp x' = cp x \/
   exists p, cp x = CAwait p /\ (forall q, cp x' <> CAwait q) /\ (forall r q, cp x' = CRet r (Some q) -> q = p)).

Lemma woken_refl x : woken x x.
Proof. split; [reflexivity | now left]. Qed.

Lemma woken_trans x1 x2 x3 : woken x1 x2 -> woken x2 x3 -> woken x1 x3.
Proof.
  intros [Hc1 H1] [Hc2 H2]. split; [congruence|].
  destruct H1 as [H1|(p & Hp & Hn & Hr)].
  - destruct H2 as [H2|(p & Hp & Hn & Hr)]; [left; congruence|]. right. exists p. rewrite <- H1. auto.
  - destruct H2 as [H2|(p2 & Hp2 & _)]; [|exfalso; eapply Hn; eauto].
    right. exists p. split; [exact Hp|]. rewrite H2. auto.
Qed.

Definition cmove (s s' : st) : Prop :=
  prom s' = prom s /\ gs s' = gs s /\ length (cs s') = length (cs s) /\
  forall a x x', nth_error (cs s) a = Some x -> nth_error (cs s') a = Some x' -> woken x x'.

Lemma cmove_refl s : cmove s s.
Proof.
  refine (conj eq_refl (conj eq_refl (conj eq_refl _))).
  intros a x x' H H'. rewrite H in H'. inversion H'. apply woken_refl.
Qed.

Lemma cmove_trans s1 s2 s3 : cmove s1 s2 -> cmove s2 s3 -> cmove s1 s3.
Proof.
  intros (P1 & G1 & L1 & W1) (P2 & G2 & L2 & W2).
  refine (conj _ (conj _ (conj _ _))); try congruence.
  intros a x x3 H H3. destruct (nth_error (cs s2) a) as [x2|] eqn:H2.
  - eapply woken_trans; eauto.
  - apply nth_error_None in H2. apply nth_error_nth_len in H. lia.
Qed.

(* a state in which only caller a has changed, to x' *)
Lemma cmove_setc s a p x : nth_error (cs s) a = Some x -> woken x {| cp := p; cc := cc x |} ->
  cmove s {| prom := prom s; cs := setc s a p; gs := gs s |}.
Proof.
  intros G W. refine (conj eq_refl (conj eq_refl (conj _ _))); cbn [prom cs gs]; [apply setc_length|].
  intros k z z' H H'. destruct (setc_lookup _ _ _ _ _ H') as [[_ H1]|[-> [z0 [Hz0 ->]]]].
  - rewrite H in H1. inversion H1. apply woken_refl.
  - rewrite G in H. inversion H; subst z. rewrite G in Hz0. inversion Hz0; subst z0. exact W.
Qed.

Lemma cmove_wakedone s a : cmove s (step s (WakeDone a)).
Proof.
  cbn [step]. destruct (nth_error (cs s) a) as [x|] eqn:G; [|apply cmove_refl].
  destruct (cp x) as [|p|r0 src] eqn:Ep; try apply cmove_refl.
  destruct (done_res s p) as [r|] eqn:ED; [|apply cmove_refl].
  apply (cmove_setc _ _ _ x G). split; [reflexivity|]. right. exists p. cbn [cp]. split; [exact Ep|].
  destruct r as [v|e|]; [| |destruct (cc x)]; (split; [intros q; discriminate|]); intros r' q Hq; try discriminate; now inversion Hq.
Qed.

Lemma cmove_wakectx s a : cmove s (step s (WakeCtx a)).
Proof.
  cbn [step]. destruct (nth_error (cs s) a) as [x|] eqn:G; [|apply cmove_refl].
  destruct (cp x) as [|p|r0 src] eqn:Ep; try apply cmove_refl.
  destruct (cc x) eqn:Ec; [|apply cmove_refl].
  apply (cmove_setc _ _ _ x G). split; [reflexivity|]. right. exists p. cbn [cp]. split; [exact Ep|].
  split; [intros q; discriminate | intros r' q Hq; discriminate].
Qed.

Lemma await_cmove s a ch : cmove s (await s a ch).
Proof.
  unfold await. destruct (nth_error (cs s) a) as [x|]; [|apply cmove_refl].
  destruct (cp x); try apply cmove_refl. destruct (done_res s p).
  - destruct (cc x && N.eqb ch 1); [apply cmove_wakectx | apply cmove_wakedone].
  - destruct (cc x); [apply cmove_wakectx | apply cmove_refl].
Qed.

(* only caller a moves in await *)
Lemma wake_other s a k e : (e = WakeDone a \/ e = WakeCtx a) -> k <> a -> nth_error (cs (step s e)) k = nth_error (cs s) k.
Proof.
  intros [->| ->] Hne; cbn [step]; destruct (nth_error (cs s) a) as [x|]; try reflexivity; destruct (cp x); try reflexivity.
  - destruct (done_res s p); [|reflexivity]. cbn [cs]. now apply setc_other.
  - destruct (cc x); [|reflexivity]. cbn [cs]. now apply setc_other.
Qed.

Lemma await_other s a ch k : k <> a -> nth_error (cs (await s a ch)) k = nth_error (cs s) k.
Proof.
  intros Hne. unfold await. destruct (nth_error (cs s) a) as [x|]; [|reflexivity].
  destruct (cp x); try reflexivity. destruct (done_res s p).
  - destruct (cc x && N.eqb ch 1); apply (wake_other _ a); auto.
  - destruct (cc x); [apply (wake_other _ a); auto | reflexivity].
Qed.

(* after await caller a is not left in Await with a cancelled context or on a resolved promise *)
Lemma await_settled s a ch x' p : nth_error (cs (await s a ch)) a = Some x' -> cp x' = CAwait p ->
  cc x' = false /\ dres (gs s) p = None.
Proof.
  unfold await. destruct (nth_error (cs s) a) as [x|] eqn:G; [|congruence].
  destruct (cp x) as [|p0|r0 src] eqn:Ep; try (intros H; rewrite G in H; inversion H; subst x'; congruence).
  destruct (done_res s p0) as [r|] eqn:ED.
  - destruct (cc x && N.eqb ch 1) eqn:Eb.
    + apply andb_true_iff in Eb as [Ec _]. cbn [step]. rewrite G, Ep, Ec. cbn [cs]. rewrite (setc_same _ _ _ _ G).
      intros H; inversion H; subst x'. discriminate.
    + cbn [step]. rewrite G, Ep, ED. cbn [cs]. rewrite (setc_same _ _ _ _ G). intros H; inversion H; subst x'. cbn [cp].
      destruct r; try discriminate. destruct (cc x); discriminate.
  - destruct (cc x) eqn:Ec.
    + cbn [step]. rewrite G, Ep, Ec. cbn [cs]. rewrite (setc_same _ _ _ _ G). intros H; inversion H; subst x'. discriminate.
    + intros H. rewrite G in H. inversion H; subst x'. rewrite Ep. intros Hp; inversion Hp; subst p0.
      split; [exact Ec | exact ED].
Qed.

Lemma settle_fold s l : fold_left (fun s a => step s (WakeDone a)) l s = fold_left step (map WakeDone l) s.
Proof. revert s. induction l as [|a l IH]; intros s; cbn [fold_left map]; [reflexivity | apply IH]. Qed.

Lemma wakes_cmove l : forall s, cmove s (fold_left (fun s a => step s (WakeDone a)) l s).
Proof.
  induction l as [|a l IH]; intros s; cbn [fold_left]; [apply cmove_refl|].
  eapply cmove_trans; [apply cmove_wakedone | apply IH].
Qed.

Lemma settle_cmove s : cmove s (settle s).
Proof. apply wakes_cmove. Qed.

Lemma wakes_settled l : forall s a, In a l -> forall x' p,
  nth_error (cs (fold_left (fun s a => step s (WakeDone a)) l s)) a = Some x' -> cp x' = CAwait p -> dres (gs s) p = None.
Proof.
  induction l as [|b l IH]; intros s a Hin x' p Hx Hp; [destruct Hin|]. cbn [fold_left] in Hx.
  destruct (in_dec Nat.eq_dec a l) as [Hl|Hl].
  - specialize (IH _ _ Hl _ _ Hx Hp). destruct (cmove_wakedone s b) as (_ & Hg & _). now rewrite Hg in IH.
  - destruct Hin as [->|Hin]; [|contradiction].
    destruct (wakes_cmove l (step s (WakeDone a))) as (_ & _ & Hlen & HW).
    destruct (nth_error (cs (step s (WakeDone a))) a) as [x1|] eqn:G1;
      [|apply nth_error_None in G1; apply nth_error_nth_len in Hx; lia].
    destruct (HW _ _ _ G1 Hx) as [_ [Hsame|(p1 & _ & Hn & _)]]; [|exfalso; eapply Hn; eauto].
    rewrite Hp in Hsame. symmetry in Hsame.
    (* caller a just after its own WakeDone *)
    revert G1. cbn [step]. destruct (nth_error (cs s) a) as [x|] eqn:G; [|congruence].
    destruct (cp x) as [|p0|r0 src] eqn:Ep; try (intros H; rewrite G in H; inversion H; subst x1; congruence).
    destruct (done_res s p0) as [r|] eqn:ED.
    + cbn [cs]. rewrite (setc_same _ _ _ _ G). intros H; inversion H; subst x1. cbn [cp] in Hsame.
      destruct r; try discriminate. destruct (cc x); discriminate.
    + intros H. rewrite G in H. inversion H; subst x1. rewrite Ep in Hsame. inversion Hsame; subst p0. exact ED.
Qed.

Lemma settle_settled s a x' p : nth_error (cs (settle s)) a = Some x' -> cp x' = CAwait p -> dres (gs s) p = None.
Proof.
  intros Hx Hp. unfold settle in Hx. eapply wakes_settled; [|exact Hx|exact Hp].
  apply in_seq. destruct (settle_cmove s) as (_ & _ & Hlen & _). apply nth_error_nth_len in Hx. unfold settle in Hlen. lia.
Qed.

(* ------------------------------------------------------------------ predicates closed under step are closed under hstep *)
Section Closed.
  Variable P : st -> Prop.
  Hypothesis Pstep : forall s e, P s -> P (step s e).

  Lemma await_closed s a ch : P s -> P (await s a ch).
  Proof.
    intros H. unfold await. destruct (nth_error (cs s) a) as [x|]; [|exact H]. destruct (cp x); try exact H.
    destruct (done_res s p); [destruct (cc x && N.eqb ch 1); now apply Pstep|]. destruct (cc x); [now apply Pstep | exact H].
  Qed.

  Lemma settle_closed s : P s -> P (settle s).
  Proof. intros H. unfold settle. rewrite settle_fold. apply fold_inv; [exact Pstep | exact H]. Qed.

  Lemma hdec_closed h e h' : hdec h e h' -> P (ms h) -> P (ms h').
  Proof.
    intros D H. destruct D; cbn [ms]; auto using await_closed, settle_closed.
  Qed.
End Closed.

Lemma hdec_inv h e h' : hdec h e h' -> Inv (ms h) -> Inv (ms h').
Proof. apply hdec_closed. intros s e0. apply step_inv. Qed.

(* ------------------------------------------------------------------ the actor map *)
Definition HM (h : hst) : Prop :=
  (forall j1 j2 x, nth_error (hmap h) j1 = Some x -> nth_error (hmap h) j2 = Some x -> j1 = j2) /\
  (forall j a, nth_error (hmap h) j = Some (HC a) -> a < length (cs (ms h))) /\
  (forall j g, nth_error (hmap h) j = Some (HG g) -> g < length (gs (ms h))) /\
  (forall g, g < length (gs (ms h)) -> exists j, nth_error (hmap h) j = Some (HG g)).

Lemma HM_init : HM hinit.
Proof.
  unfold HM, hinit; cbn [ms hmap init cs gs length].
  refine (conj _ (conj _ (conj _ _))); try (intros [|?]; intros; discriminate). intros g Hg. lia.
Qed.

Lemma HM_same h h' : hmap h' = hmap h -> length (cs (ms h')) = length (cs (ms h)) -> length (gs (ms h')) = length (gs (ms h)) ->
  HM h -> HM h'.
Proof. intros E1 E2 E3 (H1 & H2 & H3 & H4). unfold HM. rewrite E1, E2, E3. auto. Qed.

Lemma HM_new h h' x :
  hmap h' = hmap h ++ [x] ->
  match x with
  | HC a => a = length (cs (ms h)) /\ length (cs (ms h')) = S a /\ length (gs (ms h')) = length (gs (ms h))
  | HG g => g = length (gs (ms h)) /\ length (gs (ms h')) = S g /\ length (cs (ms h')) = length (cs (ms h))
  end -> HM h -> HM h'.
Proof.
  intros E Hx (H1 & H2 & H3 & H4). unfold HM. rewrite E.
  assert (Hfresh : forall j, nth_error (hmap h) j = Some x -> False).
  { intros j Hj. destruct x as [a|g].
    - destruct Hx as (-> & _). specialize (H2 _ _ Hj). lia.
    - destruct Hx as (-> & _). specialize (H3 _ _ Hj). lia. }
  refine (conj _ (conj _ (conj _ _))).
  - intros j1 j2 z Hj1 Hj2. apply app_lookup in Hj1 as [Hj1|[-> ->]]; apply app_lookup in Hj2 as [Hj2|[-> Ez]]; subst;
      try (exfalso; eapply Hfresh; eassumption); eauto.
  - intros j a Hj. apply app_lookup in Hj as [Hj|[-> Ez]].
    + specialize (H2 _ _ Hj). destruct x; destruct Hx as (Hx0 & Hx1 & Hx2); lia.
    + subst x. lia.
  - intros j g Hj. apply app_lookup in Hj as [Hj|[-> Ez]].
    + specialize (H3 _ _ Hj). destruct x; destruct Hx as (Hx0 & Hx1 & Hx2); lia.
    + subst x. lia.
  - intros g Hg. destruct x as [a|g0].
    + destruct Hx as (_ & _ & Hx). rewrite Hx in Hg. destruct (H4 _ Hg) as [j Hj]. exists j. now apply nth_error_app_old.
    + destruct Hx as (-> & Hx & _). rewrite Hx in Hg. destruct (Nat.eq_dec g (length (gs (ms h)))) as [->|Hne].
      * exists (length (hmap h)). apply nth_error_app_last.
      * assert (Hg' : g < length (gs (ms h))) by lia. destruct (H4 _ Hg') as [j Hj]. exists j. now apply nth_error_app_old.
Qed.

Lemma cs_len_step s e : (forall b, e <> Resolve b) -> length (cs (step s e)) = length (cs s).
Proof.
  intros Hne. destruct e as [pre|a|a|a|a|g o|g]; cbn [step]; [exfalso; eapply Hne; reflexivity| | | | | |].
  - destruct (nth_error (cs s) a) as [x|]; [|reflexivity]. destruct (cp x); try reflexivity.
    destruct (prom s); cbn [cs]; apply setc_length.
  - destruct (nth_error (cs s) a) as [x|]; [|reflexivity]. destruct (cp x); try reflexivity.
    destruct (done_res s p); [|reflexivity]. cbn [cs]. apply setc_length.
  - destruct (nth_error (cs s) a) as [x|]; [|reflexivity]. destruct (cp x); try reflexivity.
    destruct (cc x); [|reflexivity]. cbn [cs]. apply setc_length.
  - destruct (nth_error (cs s) a) as [x|]; [|reflexivity]. cbn [cs]. apply length_set_nth.
  - destruct (nth_error (gs s) g) as [y|]; [|reflexivity]. destruct (gp y); reflexivity.
  - destruct (nth_error (gs s) g) as [y|]; [|reflexivity]. destruct (gp y); reflexivity.
Qed.

Lemma gs_len_step s e : (forall a, e <> Sect a) -> length (gs (step s e)) = length (gs s).
Proof.
  intros Hne. destruct e as [pre|a|a|a|a|g o|g]; cbn [step]; [reflexivity|exfalso; eapply Hne; reflexivity| | | | |].
  - destruct (nth_error (cs s) a) as [x|]; [|reflexivity]. destruct (cp x); try reflexivity.
    destruct (done_res s p); reflexivity.
  - destruct (nth_error (cs s) a) as [x|]; [|reflexivity]. destruct (cp x); try reflexivity.
    destruct (cc x); reflexivity.
  - destruct (nth_error (cs s) a) as [x|]; reflexivity.
  - destruct (nth_error (gs s) g) as [y|]; [|reflexivity]. destruct (gp y); try reflexivity. cbn [gs]. apply setg_length.
  - destruct (nth_error (gs s) g) as [y|]; [|reflexivity]. destruct (gp y); try reflexivity; cbn [gs]; apply setg_length.
Qed.

Lemma sect_gate s a x : nth_error (cs s) a = Some x -> cp x = CGate ->
  step s (Sect a) =
  match prom s with
  | Some p => {| prom := prom s; cs := setc s a (CAwait p); gs := gs s |}
  | None => {| prom := Some (length (gs s)); cs := setc s a (CAwait (length (gs s))); gs := gs s ++ [{| gp := GInCb (cc x); gsp := a |}] |}
  end.
Proof. intros G Ep. cbn [step]. now rewrite G, Ep. Qed.

Lemma hdec_HM h e h' : hdec h e h' -> HM h -> HM h'.
Proof.
  intros D HH. destruct D as [c Hc|i ch a x Hm G Ep|i ch g y Hm G Hp|i ch g y r Hm G Hp|i a x Hm G|i k g y ec o Hm G Hp Ho].
  - eapply HM_new; [reflexivity | | exact HH]. cbn [ms hmap step cs gs]. rewrite app_length. cbn [length]. repeat split; lia.
  - destruct (await_cmove (step (ms h) (Sect a)) a ch) as (_ & Eg & El & _).
    pose proof (sect_gate _ _ _ G Ep) as Es. destruct (prom (ms h)) as [p|] eqn:EP.
    + apply (HM_same h); [| | |exact HH]; cbn [ms hmap]; [reflexivity | rewrite El, Es; cbn [cs]; apply setc_length | rewrite Eg, Es; reflexivity].
    + eapply HM_new; [reflexivity | | exact HH]. cbn [ms hmap]. rewrite Eg, El, Es. cbn [cs gs]. rewrite app_length, setc_length.
      cbn [length]. repeat split; lia.
  - apply (HM_same h); [| | |exact HH]; cbn [ms hmap]; [reflexivity | apply cs_len_step; intros; discriminate | apply gs_len_step; intros; discriminate].
  - destruct (settle_cmove (step (ms h) (GStep g))) as (_ & Eg & El & _).
    apply (HM_same h); [| | |exact HH]; cbn [ms hmap]; [reflexivity | rewrite El; apply cs_len_step; intros; discriminate
                                       | rewrite Eg; apply gs_len_step; intros; discriminate].
  - apply (HM_same h); [| | |exact HH]; cbn [ms hmap]; [reflexivity | | ].
    + rewrite !cs_len_step by (intros; discriminate). reflexivity.
    + rewrite !gs_len_step by (intros; discriminate). reflexivity.
  - apply (HM_same h); [| | |exact HH]; cbn [ms hmap]; [reflexivity | apply cs_len_step; intros; discriminate | apply gs_len_step; intros; discriminate].
Qed.

(* ------------------------------------------------------------------ settled states *)
(* at the harness level nobody sits in Await with a cancelled context or on a resolved promise *)
Definition HS (s : st) : Prop :=
  forall a x p, nth_error (cs s) a = Some x -> cp x = CAwait p -> cc x = false /\ dres (gs s) p = None.

Lemma HS_init : HS init.
Proof. intros [|a] x p H; discriminate. Qed.

Lemma dres_setg_none s g q p : (forall r, q <> GDone r) -> dres (gs s) p = None -> dres (setg s g q) p = None.
Proof.
  intros Hq H. destruct (Nat.eq_dec p g) as [->|Hne].
  - unfold dres. destruct (nth_error (setg s g q) g) as [y'|] eqn:E; [|reflexivity].
    destruct (setg_lookup _ _ _ _ _ E) as [[Hc _]|[_ [y [_ ->]]]]; [congruence|]. cbn [gp].
    destruct q; try reflexivity. exfalso. eapply Hq; reflexivity.
  - unfold dres in *. now rewrite setg_other.
Qed.

Lemma dres_app_none l y p : p < length l -> dres l p = None -> dres (l ++ [y]) p = None.
Proof. intros Hl H. unfold dres in *. now rewrite nth_error_app1. Qed.

Lemma hdec_HS h e h' : hdec h e h' -> Inv (ms h) -> HS (ms h) -> HS (ms h').
Proof.
  intros D HI HH. pose proof HI as HI0. inv_names HI0.
  destruct D as [c Hc|i ch a0 x0 Hm G Ep|i ch g y Hm G Hp|i ch g y r Hm G Hp|i a0 x0 Hm G|i k g y ec o Hm G Hp Ho]; cbn [ms].
  - intros a x p Hx Hcp. cbn [step cs gs] in *. apply app_lookup in Hx as [Hx|[_ ->]]; [eauto|]. cbn [cp] in Hcp.
    destruct (N.eqb c 1); discriminate.
  - pose proof (sect_gate _ _ _ G Ep) as Es. destruct (await_cmove (step (ms h) (Sect a0)) a0 ch) as (_ & Eg & _ & _).
    intros a x p Hx Hcp. rewrite Eg. destruct (Nat.eq_dec a a0) as [->|Hne].
    + eapply await_settled; eauto.
    + rewrite await_other in Hx by exact Hne. rewrite Es in Hx |- *.
      destruct (prom (ms h)) as [p0|]; cbn [cs gs] in *; rewrite setc_other in Hx by exact Hne.
      * eauto.
      * destruct (HH _ _ _ Hx Hcp) as [Hc Hd]. split; [exact Hc|]. apply dres_app_none; [eapply I4; eauto | exact Hd].
  - intros a x p Hx Hcp. cbn [step] in *. rewrite G in *. destruct Hp as [o [Hp|Hp]]; rewrite Hp in *; cbn [cs gs] in *;
      destruct (HH _ _ _ Hx Hcp) as [Hc Hd]; (split; [exact Hc|]); apply dres_setg_none; auto; intros; discriminate.
  - destruct (settle_cmove (step (ms h) (GStep g))) as (_ & Eg & El & HW).
    intros a x p Hx Hcp. rewrite Eg. split; [|eapply settle_settled; eauto].
    assert (Ecs : cs (step (ms h) (GStep g)) = cs (ms h)) by (cbn [step]; rewrite G, Hp; reflexivity).
    destruct (nth_error (cs (ms h)) a) as [x1|] eqn:G1;
      [|apply nth_error_None in G1; apply nth_error_nth_len in Hx; rewrite El, Ecs in Hx; lia].
    rewrite <- Ecs in G1. destruct (HW _ _ _ G1 Hx) as [Hc [Hsame|(p1 & _ & Hn & _)]]; [|exfalso; eapply Hn; eauto].
    rewrite Ecs in G1. rewrite Hc. assert (Hcp1 : cp x1 = CAwait p) by congruence. exact (proj1 (HH _ _ _ G1 Hcp1)).
  - intros a x p Hx Hcp.
    assert (Eg : gs (step (step (ms h) (CancelCtx a0)) (WakeCtx a0)) = gs (ms h)).
    { destruct (cmove_wakectx (step (ms h) (CancelCtx a0)) a0) as (_ & Eg & _). rewrite Eg. cbn [step]. now rewrite G. }
    rewrite Eg. destruct (Nat.eq_dec a a0) as [->|Hne].
    + exfalso. revert Hx. cbn [step]. rewrite G. cbn [cs].
      rewrite nth_error_set_nth_same by (eapply nth_error_nth_len; eauto). cbn [cp cc].
      destruct (cp x0) eqn:E0; cbn [cs]; try (rewrite nth_error_set_nth_same by (eapply nth_error_nth_len; eauto); intros H; inversion H; subst x; cbn [cp] in Hcp; congruence).
      unfold setc. cbn [cs]. rewrite nth_error_set_nth_same by (eapply nth_error_nth_len; eauto).
      rewrite nth_error_set_nth_same by (rewrite length_set_nth; eapply nth_error_nth_len; eauto).
      intros H; inversion H; subst x. discriminate.
    + rewrite (wake_other _ a0) in Hx by auto. cbn [step] in Hx. rewrite G in Hx. cbn [cs] in Hx.
      rewrite nth_error_set_nth_other in Hx by exact Hne. eauto.
  - intros a x p Hx Hcp. cbn [step] in *. rewrite G, Hp in *. cbn [cs gs] in *.
    destruct (HH _ _ _ Hx Hcp) as [Hc Hd]. split; [exact Hc|]. apply dres_setg_none; auto. intros r. destruct (is_ok o); discriminate.
Qed.

(* ------------------------------------------------------------------ how one harness step moves a caller *)
Definition ecanc (h : hst) (e : list N) (a : nat) : bool :=
  match e with
  | [4; i] => match nth_error (hmap h) (N.to_nat i) with Some (HC a') => Nat.eqb a' a | _ => false end
  | _ => false
  end%N.

(* canc: this step cancels the caller's context.  A return value is never changed; a caller that returns in this
   step a result read from promise p did not find p resolved with an error before the step *)
Definition cframe (s : st) (canc : bool) (x x' : caller) : Prop :=
  cc x' = cc x || canc /\
  (is_cret (cp x) = true -> cp x' = cp x) /\
  (is_cret (cp x) = false -> forall r p, cp x' = CRet r (Some p) ->
     forall y r0, nth_error (gs s) p = Some y -> gp y = GDone r0 -> is_ok r0 = true).

Lemma cframe_woken s x x' : (forall p, cp x = CAwait p -> dres (gs s) p = None) -> woken x x' -> cframe s false x x'.
Proof.
  intros Hd [Hc Hw]. split; [now rewrite orb_false_r|]. destruct Hw as [Hw|(p & Hp & Hn & Hr)].
  - split; [auto|]. intros Hx r p Hp. rewrite Hw in Hp. rewrite Hp in Hx. discriminate.
  - split; [rewrite Hp; discriminate|]. intros _ r q Hq y r0 Hy Hg. apply Hr in Hq. subst q.
    specialize (Hd _ Hp). unfold dres in Hd. rewrite Hy, Hg in Hd. discriminate.
Qed.

Lemma cframe_same s x : cframe s false x x.
Proof.
  split; [now rewrite orb_false_r|]. split; [auto|]. intros Hx r p Hp. rewrite Hp in Hx. discriminate.
Qed.

Lemma hdec_callers h e h' : hdec h e h' -> Inv (ms h) -> HS (ms h) ->
  forall a x', nth_error (cs (ms h')) a = Some x' ->
  (exists x, nth_error (cs (ms h)) a = Some x /\ cframe (ms h) (ecanc h e a) x x') \/
  (a = length (cs (ms h)) /\ exists c, e = [1; c]%N /\
     x' = {| cp := if N.eqb c 1 then CRet RCanceled None else CGate; cc := N.eqb c 1 |}).
Proof.
  intros D HI HH. pose proof HI as HI0. inv_names HI0.
  destruct D as [c Hc|i ch a0 x0 Hm G Ep|i ch g y Hm G Hp|i ch g y r Hm G Hp|i a0 x0 Hm G|i k g y ec o Hm G Hp Ho];
    cbn [ms]; intros a x' Hx.
  - cbn [step cs] in Hx. apply app_lookup in Hx as [Hx|[-> ->]].
    + left. exists x'. split; [exact Hx | apply cframe_same].
    + right. split; [reflexivity|]. exists c. split; [reflexivity|]. destruct (N.eqb c 1); reflexivity.
  - left. cbn [ecanc]. pose proof (sect_gate _ _ _ G Ep) as Es.
    destruct (await_cmove (step (ms h) (Sect a0)) a0 ch) as (_ & _ & _ & HW).
    destruct (Nat.eq_dec a a0) as [->|Hne].
    + exists x0. split; [exact G|].
      assert (exists p, nth_error (cs (step (ms h) (Sect a0))) a0 = Some {| cp := CAwait p; cc := cc x0 |} /\
                        (prom (ms h) = Some p \/ (prom (ms h) = None /\ p = length (gs (ms h))))) as (p & G1 & Hpp).
      { rewrite Es. destruct (prom (ms h)) as [p|]; cbn [cs].
        - exists p. split; [now apply setc_same | now left].
        - eexists. split; [now apply setc_same | now right]. }
      destruct (HW _ _ _ G1 Hx) as [Hc Hw]. cbn [cc cp] in Hc, Hw.
      split; [now rewrite orb_false_r|]. split; [rewrite Ep; discriminate|].
      intros _ r q Hq y r0 Hy Hg.
      destruct Hw as [Hw|(p1 & Hp1 & _ & Hr)]; [congruence|]. inversion Hp1; subst p1. apply Hr in Hq. subst q.
      destruct Hpp as [Hpp|[_ ->]]; [|apply nth_error_nth_len in Hy; lia].
      destruct (I2 _ Hpp) as [_ [y1 [Hy1 Hh]]]. rewrite Hy in Hy1. inversion Hy1; subst y1. unfold holds in Hh. now rewrite Hg in Hh.
    + exists x'. rewrite await_other in Hx by exact Hne. rewrite Es in Hx.
      destruct (prom (ms h)); cbn [cs] in Hx; rewrite setc_other in Hx by exact Hne; (split; [exact Hx | apply cframe_same]).
  - left. exists x'. cbn [ecanc]. split; [|apply cframe_same]. revert Hx. cbn [step]. rewrite G.
    destruct Hp as [o [Hp|Hp]]; rewrite Hp; auto.
  - left. cbn [ecanc]. destruct (settle_cmove (step (ms h) (GStep g))) as (_ & _ & El & HW).
    assert (Ecs : cs (step (ms h) (GStep g)) = cs (ms h)) by (cbn [step]; rewrite G, Hp; reflexivity).
    destruct (nth_error (cs (ms h)) a) as [x1|] eqn:G1;
      [|apply nth_error_None in G1; apply nth_error_nth_len in Hx; rewrite El, Ecs in Hx; lia].
    exists x1. split; [reflexivity|]. apply cframe_woken.
    + intros p Hp1. exact (proj2 (HH _ _ _ G1 Hp1)).
    + rewrite <- Ecs in G1. eapply HW; eauto.
  - left. cbn [ecanc]. rewrite Hm.
    destruct (cmove_wakectx (step (ms h) (CancelCtx a0)) a0) as (_ & _ & _ & HW).
    destruct (Nat.eq_dec a a0) as [->|Hne].
    + rewrite Nat.eqb_refl. exists x0. split; [exact G|].
      assert (G1 : nth_error (cs (step (ms h) (CancelCtx a0))) a0 = Some {| cp := cp x0; cc := true |}).
      { cbn [step]. rewrite G. cbn [cs]. apply nth_error_set_nth_same. eapply nth_error_nth_len; eauto. }
      destruct (HW _ _ _ G1 Hx) as [Hc Hw]. cbn [cc cp] in Hc, Hw.
      split; [rewrite Hc; now rewrite orb_true_r|].
      destruct Hw as [Hw|(p & Hp & Hn & Hr)].
      * split; [auto|]. intros Hx0 r p Hp. rewrite Hw in Hp. rewrite Hp in Hx0. discriminate.
      * split; [rewrite Hp; discriminate|]. intros _ r q Hq y r0 Hy Hg. apply Hr in Hq. subst q.
        pose proof (proj2 (HH _ _ _ G Hp)) as Hd. unfold dres in Hd. rewrite Hy, Hg in Hd. discriminate.
    + assert (E : Nat.eqb a0 a = false) by (apply Nat.eqb_neq; congruence). rewrite E.
      exists x'. split; [|apply cframe_same].
      rewrite (wake_other _ a0) in Hx by auto. cbn [step] in Hx. rewrite G in Hx. cbn [cs] in Hx.
      now rewrite nth_error_set_nth_other in Hx by exact Hne.
  - left. exists x'. split; [|apply cframe_same]. revert Hx. cbn [step]. rewrite G, Hp. auto.
Qed.

(* ------------------------------------------------------------------ how one harness step moves a callback goroutine *)
Definition gres (y : gor) : option res :=
  match gp y with GInCb _ => None | GClear o | GSet o | GPub o | GDone o => Some o end.

Definition ecb (h : hst) (e : list N) (g : nat) : option (N * N) :=
  match e with
  | [5; i; k] => match nth_error (hmap h) (N.to_nat i) with
                 | Some (HG g') => if Nat.eqb g' g then Some (i, k) else None
                 | _ => None
                 end
  | _ => None
  end%N.

Definition gframe (s : st) (cb : option (N * N)) (y y' : gor) : Prop :=
  (forall r, gp y = GDone r -> gp y' = GDone r) /\
  gsp y' = gsp y /\
  (* an error is passed to SetResult only if the starter's context is live at that moment *)
  (forall e, gp y' = GPub (RErr e) \/ gp y' = GDone (RErr e) ->
     (gp y = GPub (RErr e) \/ gp y = GDone (RErr e)) \/ ctx_cancelled s (gsp y) = false) /\
  match cb with
  | Some (i, k) => gres y = None /\ exists o, outcome i k = Some o /\ gres y' = Some o
  | None => gres y' = gres y \/ exists o, gres y = Some o /\ is_ok o = false /\ gres y' = Some RCanceled
  end.

Lemma gframe_same s y : gframe s None y y.
Proof. split; [auto|]. split; [reflexivity|]. split; [auto | now left]. Qed.

Lemma hdec_gors h e h' : hdec h e h' ->
  forall g y', nth_error (gs (ms h')) g = Some y' ->
  (exists y, nth_error (gs (ms h)) g = Some y /\ gframe (ms h) (ecb h e g) y y') \/
  (g = length (gs (ms h)) /\ gres y' = None /\ prom (ms h) = None /\ hmap h' = hmap h ++ [HG g] /\
   exists i ch, e = [3; i; ch]%N /\ nth_error (hmap h) (N.to_nat i) = Some (HC (gsp y'))).
Proof.
  intros D.
  destruct D as [c Hc|i ch a0 x0 Hm G Ep|i ch g0 y0 Hm G Hp|i ch g0 y0 r Hm G Hp|i a0 x0 Hm G|i k g0 y0 ec o Hm G Hp Ho];
    cbn [ms hmap]; intros g y' Hy.
  - left. exists y'. split; [exact Hy | apply gframe_same].
  - destruct (await_cmove (step (ms h) (Sect a0)) a0 ch) as (_ & Eg & _). rewrite Eg, (sect_gate _ _ _ G Ep) in Hy.
    destruct (prom (ms h)) as [p|]; cbn [gs] in Hy.
    + left. exists y'. split; [exact Hy | apply gframe_same].
    + apply app_lookup in Hy as [Hy|[-> ->]].
      * left. exists y'. split; [exact Hy | apply gframe_same].
      * right. cbn [gsp]. repeat split; eauto.
  - left. cbn [ecb]. cbn [step] in Hy. rewrite G in Hy.
    destruct Hp as [o [Hp|Hp]]; rewrite Hp in Hy; cbn [gs] in Hy;
      (destruct (setg_lookup _ _ _ _ _ Hy) as [[_ H1]|[-> [y1 [Hy1 ->]]]]; [exists y'; split; [exact H1 | apply gframe_same]|]);
      rewrite G in Hy1; inversion Hy1; subst y1; exists y0; (split; [exact G|]); (split; [rewrite Hp; discriminate|]);
      (split; [reflexivity|]); cbn [gp gsp].
    + split; [intros e0 [H|H]; discriminate|]. unfold gres; rewrite Hp; cbn [gp]. now left.
    + split.
      * intros e0 [H|H]; [|discriminate]. right. inversion H as [Hf]. unfold final_res in Hf.
        destruct o as [v|e1|]; [discriminate| |]; destruct (ctx_cancelled (ms h) (gsp y0)); try discriminate; reflexivity.
      * unfold gres; rewrite Hp; cbn [gp]. destruct o as [v|e0|]; unfold final_res;
          [left; reflexivity | | left; destruct (ctx_cancelled (ms h) (gsp y0)); reflexivity].
        destruct (ctx_cancelled (ms h) (gsp y0)); [right; exists (RErr e0); auto | left; reflexivity].
  - left. cbn [ecb]. destruct (settle_cmove (step (ms h) (GStep g0))) as (_ & Eg & _). rewrite Eg in Hy.
    cbn [step] in Hy. rewrite G, Hp in Hy. cbn [gs] in Hy.
    destruct (setg_lookup _ _ _ _ _ Hy) as [[_ H1]|[-> [y1 [Hy1 ->]]]]; [exists y'; split; [exact H1 | apply gframe_same]|].
    rewrite G in Hy1; inversion Hy1; subst y1. exists y0. split; [exact G|]. split; [rewrite Hp; discriminate|].
    split; [reflexivity|]. cbn [gp gsp]. split; [intros e0 [H|H]; [discriminate|]; inversion H; subst r; left; now left|].
    left. unfold gres. now rewrite Hp.
  - left. exists y'. split; [|apply gframe_same].
    destruct (cmove_wakectx (step (ms h) (CancelCtx a0)) a0) as (_ & Eg & _). rewrite Eg in Hy. cbn [step] in Hy. now rewrite G in Hy.
  - left. cbn [ecb]. rewrite Hm. cbn [step] in Hy. rewrite G, Hp in Hy. cbn [gs] in Hy.
    destruct (setg_lookup _ _ _ _ _ Hy) as [[Hne H1]|[-> [y1 [Hy1 ->]]]].
    + assert (E : Nat.eqb g0 g = false) by (apply Nat.eqb_neq; congruence). rewrite E.
      exists y'. split; [exact H1 | apply gframe_same].
    + rewrite Nat.eqb_refl. rewrite G in Hy1; inversion Hy1; subst y1. exists y0. split; [exact G|].
      split; [rewrite Hp; discriminate|]. split; [reflexivity|]. cbn [gp gsp].
      split; [intros e0 [H|H]; destruct (is_ok o); discriminate|].
      split; [unfold gres; now rewrite Hp|]. exists o. split; [exact Ho|].
      unfold gres. cbn [gp]. destruct (is_ok o); reflexivity.
Qed.

(* the actor map grows only with a new Resolve call or a new callback goroutine *)
Lemma hdec_hmap h e h' : hdec h e h' ->
  (hmap h' = hmap h /\ (forall c, e <> [1; c]%N) /\ length (gs (ms h')) = length (gs (ms h))) \/
  (exists c, e = [1; c]%N /\ hmap h' = hmap h ++ [HC (length (cs (ms h)))]) \/
  (exists i ch, e = [3; i; ch]%N /\ prom (ms h) = None /\ hmap h' = hmap h ++ [HG (length (gs (ms h)))]).
Proof.
  intros D.
  destruct D as [c Hc|i ch a0 x0 Hm G Ep|i ch g0 y0 Hm G Hp|i ch g0 y0 r Hm G Hp|i a0 x0 Hm G|i k g0 y0 ec o Hm G Hp Ho];
    cbn [ms hmap].
  - right. left. eauto.
  - destruct (prom (ms h)) as [p|] eqn:EP.
    + left. split; [reflexivity|]. split; [intros; discriminate|].
      destruct (await_cmove (step (ms h) (Sect a0)) a0 ch) as (_ & Eg & _). rewrite Eg, (sect_gate _ _ _ G Ep), EP. reflexivity.
    + right. right. eauto.
  - left. split; [reflexivity|]. split; [intros; discriminate|]. apply gs_len_step. intros; discriminate.
  - left. split; [reflexivity|]. split; [intros; discriminate|].
    destruct (settle_cmove (step (ms h) (GStep g0))) as (_ & Eg & _). rewrite Eg. apply gs_len_step. intros; discriminate.
  - left. split; [reflexivity|]. split; [intros; discriminate|]. rewrite !gs_len_step by (intros; discriminate). reflexivity.
  - left. split; [reflexivity|]. split; [intros; discriminate|]. apply gs_len_step. intros; discriminate.
Qed.

(* a cancelled context stays cancelled *)
Lemma step_ctx_mono s e a : ctx_cancelled s a = true -> ctx_cancelled (step s e) a = true.
Proof.
  unfold ctx_cancelled. destruct (nth_error (cs s) a) as [x|] eqn:G; [|discriminate]. intros Hc.
  assert (Hsetc : forall k p, match nth_error (setc s k p) a with Some x0 => cc x0 | None => false end = true).
  { intros k p. destruct (Nat.eq_dec a k) as [->|Hne]; [rewrite (setc_same _ _ _ _ G); exact Hc | rewrite setc_other, G by exact Hne; exact Hc]. }
  destruct e as [pre|k|k|k|k|g o|g]; cbn [step].
  - cbn [cs]. rewrite (nth_error_app_old _ _ _ _ G). exact Hc.
  - destruct (nth_error (cs s) k) as [x1|]; [|now rewrite G]. destruct (cp x1); try (now rewrite G). destruct (prom s); cbn [cs]; apply Hsetc.
  - destruct (nth_error (cs s) k) as [x1|]; [|now rewrite G]. destruct (cp x1); try (now rewrite G).
    destruct (done_res s p); [cbn [cs]; apply Hsetc | now rewrite G].
  - destruct (nth_error (cs s) k) as [x1|]; [|now rewrite G]. destruct (cp x1); try (now rewrite G).
    destruct (cc x1); [cbn [cs]; apply Hsetc | now rewrite G].
  - destruct (nth_error (cs s) k) as [x1|] eqn:G1; [|now rewrite G]. cbn [cs]. destruct (Nat.eq_dec a k) as [->|Hne].
    + rewrite nth_error_set_nth_same by (eapply nth_error_nth_len; eauto). reflexivity.
    + rewrite nth_error_set_nth_other, G by exact Hne. exact Hc.
  - destruct (nth_error (gs s) g) as [y|]; [|now rewrite G]. destruct (gp y); cbn [cs]; now rewrite G.
  - destruct (nth_error (gs s) g) as [y|]; [|now rewrite G]. destruct (gp y); cbn [cs]; now rewrite G.
Qed.

Lemma hdec_ctx_mono h e h' a : hdec h e h' -> ctx_cancelled (ms h) a = true -> ctx_cancelled (ms h') a = true.
Proof. apply (hdec_closed (fun s => ctx_cancelled s a = true)). intros s e0. apply step_ctx_mono. Qed.

(* success *)
Lemma gres_succeeded s g y v : Inv s -> nth_error (gs s) g = Some y -> gres y = Some (RVal v) -> succeeded s g v.
Proof.
  intros HI G H. exists y. split; [exact G|]. unfold gres in H. inv_names HI.
  destruct (gp y) eqn:E; inversion H; subst; auto. specialize (I3 _ _ _ G E). discriminate.
Qed.

Lemma succeeded_gres s g v : succeeded s g v -> exists y, nth_error (gs s) g = Some y /\ gres y = Some (RVal v).
Proof. intros [y [G H]]. exists y. split; [exact G|]. unfold gres. destruct H as [-> | [-> | ->]]; reflexivity. Qed.

Definition NoSucc (s : st) : Prop := forall g v, ~ succeeded s g v.

Lemma hdec_nosucc h e h' : hdec h e h' -> Inv (ms h) -> NoSucc (ms h) -> (forall i, e <> [5; i; 0]%N) -> NoSucc (ms h').
Proof.
  intros D HI HN He g v HS. destruct (succeeded_gres _ _ _ HS) as [y' [Hy' Hr']].
  destruct (hdec_gors _ _ _ D _ _ Hy') as [[y [Hy (_ & _ & _ & Hf)]]|(_ & Hn & _)]; [|congruence].
  destruct (ecb h e g) as [[i k]|] eqn:Ecb.
  - destruct Hf as [_ [o [Ho Hro]]]. rewrite Hr' in Hro. inversion Hro; subst o.
    unfold outcome in Ho. destruct (N.eqb_spec k 0) as [->|Hk].
    + unfold ecb in Ecb. destruct e as [|n1 [|n2 [|n3 [|n4 t]]]]; try discriminate.
      all: repeat (match type of Ecb with context [match ?t with _ => _ end] => destruct t eqn:?; try discriminate Ecb end).
      inversion Ecb; subst. exfalso. eapply He. reflexivity.
    + destruct (N.eqb k 2); [discriminate|]. destruct (N.leb k 64); discriminate.
  - destruct Hf as [Hf|[o [_ [_ Hf]]]]; [|congruence]. rewrite Hr' in Hf.
    apply (HN g v). symmetry in Hf. eapply gres_succeeded; eauto.
Qed.

(* a value returned by the callback: the attempt has succeeded *)
Lemma hdec_success h i h' : hdec h [5; i; 0]%N h' -> Inv (ms h) ->
  exists g, succeeded (ms h') g (i + 1)%N.
Proof.
  intros D HI. inversion D as [| | | | |i0 k g y ec o Hm G Hp Ho]; subst.
  exists g. unfold outcome in Ho. cbn in Ho. inversion Ho; subst o.
  cbn [ms step]. rewrite G, Hp. cbn [is_ok]. eexists. cbn [gs]. split; [apply setg_same; exact G|]. cbn [gp]. auto.
Qed.

(* ------------------------------------------------------------------ clause 11: a cancelled caller let run from gate 1 returns *)
(* the section, then Await with a cancelled context: whatever the select picks, the caller has returned *)
Lemma sect_await_cancelled s a ch x : nth_error (cs s) a = Some x -> cp x = CGate -> cc x = true ->
  exists x', nth_error (cs (await (step s (Sect a)) a ch)) a = Some x' /\ is_cret (cp x') = true.
Proof.
  intros G Ep Ec. rewrite (sect_gate _ _ _ G Ep).
  set (s1 := match prom s with Some p => _ | None => _ end).
  assert (G1 : exists p, nth_error (cs s1) a = Some {| cp := CAwait p; cc := true |}).
  { subst s1. destruct (prom s); cbn [cs]; eexists; rewrite <- Ec; apply setc_same; exact G. }
  destruct G1 as [p G1]. clearbody s1.
  unfold await. rewrite G1. cbn [cp cc]. destruct (done_res s1 p) as [r|] eqn:ED.
  - cbn [andb]. destruct (N.eqb ch 1).
    + cbn [step]. rewrite G1. cbn [cp cc cs]. rewrite (setc_same _ _ _ _ G1). eexists. split; reflexivity.
    + cbn [step]. rewrite G1. cbn [cp]. rewrite ED. cbn [cs cc]. rewrite (setc_same _ _ _ _ G1).
      eexists. split; [reflexivity|]. destruct r; reflexivity.
  - cbn [step]. rewrite G1. cbn [cp cc cs]. rewrite (setc_same _ _ _ _ G1). eexists. split; reflexivity.
Qed.

Lemma hdec_cancelled_ret h i ch h' a : hdec h [3; i; ch]%N h' ->
  nth_error (hmap h) (N.to_nat i) = Some (HC a) -> ctx_cancelled (ms h) a = true ->
  exists x', nth_error (cs (ms h')) a = Some x' /\ is_cret (cp x') = true.
Proof.
  intros D Hm Hc.
  inversion D as [|i0 ch0 a0 x0 Hm0 G Ep|i0 ch0 g y Hm0 G Hp|i0 ch0 g y r Hm0 G Hp| |]; subst; rewrite Hm in Hm0; try discriminate.
  inversion Hm0; subst a0. cbn [ms]. unfold ctx_cancelled in Hc. rewrite G in Hc.
  eapply sect_await_cancelled; eauto.
Qed.

(* in the model, after [3 i ch] on a caller whose context is cancelled, that caller is not parked at gate 1 *)
Lemma hstep_cancelled_not_gate h i ch h' o a : hstep h [3; i; ch]%N = Some (h', o) ->
  nth_error (hmap h) (N.to_nat i) = Some (HC a) -> ctx_cancelled (ms h) a = true ->
  fst (codep (ms h') (HC a)) <> 1%N.
Proof.
  intros Hst Hm Hc. apply hstep_hdec in Hst as [D _].
  destruct (hdec_cancelled_ret _ _ _ _ _ D Hm Hc) as (x' & Gx & Hr). cbn [codep]. rewrite Gx.
  unfold ccode. destruct (cp x') as [| |r src]; try discriminate. destruct r; discriminate.
Qed.
