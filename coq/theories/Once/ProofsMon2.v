(* C16, monitors vs. model, part 2: the simulation between the state of the monitors of Spec.v (mon_once) and the
   model state, and the theorem: for EVERY list of harness events the monitors report nothing on the model's own
   observations. *)
From Util Require Import Common.Base Common.ListLemmas Once.Model Once.Spec Once.Proofs Once.ProofsMon.

(* ------------------------------------------------------------------ mon_once, with its parts named *)
Definition zt := (mact * (N * N))%type.
Definition zc (z : zt) : N := fst (snd z).
Definition zv (z : zt) : N := snd (snd z).

Definition m_acts1 (m : monst) (e : list N) : list mact :=
  match e with
  | [1; c] => macts m ++ [new_caller (mstepno m) (N.eqb c 1)]
  | [4; j] => upd (macts m) (N.to_nat j) set_canc
  | [5; j; k] => upd (macts m) (N.to_nat j) (set_out (out_code k) (starter_canc (macts m) (N.to_nat j)))
  | _ => macts m
  end%N.
Definition m_starter (e : list N) : nat := match e with [3; j; _] => N.to_nat j | _ => 0%nat end%N.
Definition m_succ1 (m : monst) (e : list N) : option (N * nat) :=
  match e with
  | [5; j; 0] => match msucc m with None => Some (j + 1, mstepno m) | Some x => Some x end
  | _ => msucc m
  end%N.
Definition m_nnew (m : monst) (e o : list N) : nat := length (pairs o) - length (m_acts1 m e).
Definition m_acts2 (m : monst) (e o : list N) : list mact :=
  m_acts1 m e ++ repeat (new_gor (mstepno m) (m_starter e)) (m_nnew m e o).
Definition is_newly (z : zt) : bool := mcaller (fst z) && negb (mretd (fst z)) && is_ret_code (zc z).
Definition bad_val (succ1 : option (N * nat)) (z : zt) : bool :=
  N.eqb (zc z) 3 && negb (match succ1 with Some (v, _) => N.eqb v (zv z) | None => false end).
Definition bad_later (succ1 : option (N * nat)) (z : zt) : bool :=
  match succ1 with
  | Some (_, t) => Nat.ltb t (mborn (fst z)) && negb (mcanc (fst z)) && negb (N.eqb (zc z) 3)
  | None => false
  end.
Definition bad_err (acts2 : list mact) (z : zt) : bool :=
  N.eqb (zc z) 5 &&
  (N.eqb (zv z) 0 ||
   match nth_error acts2 (N.to_nat (zv z - 1)) with
   | Some g => negb (negb (mcaller g) && N.eqb (mout g) 2) ||
               match mpub g with Some t => Nat.ltb t (mborn (fst z)) | None => false end
   | None => true
   end).
Definition bad_taint (acts2 : list mact) (z : zt) : bool :=
  N.eqb (zc z) 5 && negb (mcanc (fst z)) &&
  match nth_error acts2 (N.to_nat (zv z - 1)) with
  | Some g => negb (mcaller g) && mtaint g
  | None => false
  end.
Definition bad_canc (z : zt) : bool := N.eqb (zc z) 4 && negb (mcanc (fst z)).
Definition is_blocked (z : zt) : bool := N.eqb (zc z) 2.
Definition is_cblocked (z : zt) : bool := mcaller (fst z) && mcanc (fst z) && N.eqb (zc z) 2.
Definition is_active (z : zt) : bool := N.eqb (zc z) 6 || N.eqb (zc z) 7 || N.eqb (zc z) 8 || N.eqb (zc z) 10.
Definition is_panic (z : zt) : bool := N.eqb (zc z) 11.
Definition is_ctxerr (z : zt) : bool := N.eqb (zc z) 12 || N.eqb (zc z) 13.
Definition err_ret (zs : list zt) (e : N) : bool := existsb (fun z : zt => N.eqb (zc z) 5 && N.eqb (zv z) e) zs.
Definition bk (i : nat) (zs : list zt) (jz : nat * zt) : mact :=
  let j := fst jz in let a := fst (snd jz) in let c := fst (snd (snd jz)) in
  {| mcaller := mcaller a; mborn := mborn a; mcanc := mcanc a;
     mretd := mretd a || (mcaller a && is_ret_code c);
     mout := mout a;
     mpub := match mpub a with
             | Some t => Some t
             | None => if negb (mcaller a) && N.eqb (mout a) 2 && (N.eqb c 9 || err_ret zs (N.of_nat j + 1)%N)
                       then Some i else None
             end;
     mstart := mstart a; mtaint := mtaint a |}.

Definition m_f11 (m : monst) (e o : list N) : bool :=
  match e with
  | [3; j; _] => match nth_error (macts m) (N.to_nat j), nth_error (pairs o) (N.to_nat j) with
                 | Some a, Some p => mcaller a && mcanc a && N.eqb (fst p) 1
                 | _, _ => false
                 end
  | _ => false
  end%N.

Lemma mon_once_eq m e o :
  mon_once m e o =
  let i := mstepno m in
  let acts2 := m_acts2 m e o in
  let succ1 := m_succ1 m e in
  let zs := combine acts2 (pairs o) in
  let newly := filter is_newly zs in
  ({| mstepno := S i;
      macts := map (bk i zs) (combine (seq 0 (length zs)) zs) ++ skipn (length zs) acts2;
      msucc := succ1 |},
   (if Nat.ltb 1 (length (filter (fun z : zt => N.eqb (zc z) 6) zs)) then [(16, 1)] else []) ++
   (if (is_some (msucc m) && Nat.ltb 0 (m_nnew m e o)) || existsb (bad_val succ1) newly || existsb (bad_later succ1) newly
    then [(16, 2)] else []) ++
   (if existsb (bad_err acts2) newly then [(16, 3)] else []) ++
   (if existsb bad_canc newly then [(16, 4)] else []) ++
   (if existsb is_cblocked zs || (existsb is_blocked zs && negb (existsb is_active zs)) then [(16, 5)] else []) ++
   (if existsb is_panic zs then [(16, 8)] else []) ++
   (if existsb (bad_taint acts2) newly then [(16, 9)] else []) ++
   (if existsb is_ctxerr zs then [(16, 10)] else []) ++
   (if m_f11 m e o then [(16, 11)] else [])).
Proof. reflexivity. Qed.

(* ------------------------------------------------------------------ the simulation relation *)
Definition grel (j : nat) (mx : mact) (y : gor) : Prop :=
  mcaller mx = false /\
  match gres y with
  | None => mout mx = 0
  | Some (RVal _) => mout mx = 1
  | Some (RErr e) => mout mx = 2 /\ e = N.of_nat j + 1
  | Some RCanceled => mout mx = 2 \/ mout mx = 3
  end%N.

(* a tainted invocation (starter already cancelled when the callback returned) never passes an error to SetResult *)
Definition tsafe (s : st) (mx : mact) (y : gor) : Prop :=
  mtaint mx = true -> ctx_cancelled s (gsp y) = true /\ forall e, gp y <> GPub (RErr e) /\ gp y <> GDone (RErr e).

Definition arel (h : hst) (j : nat) (mx : mact) (hx : hact) : Prop :=
  let s := ms h in
  match hx with
  | HC a => exists x, nth_error (cs s) a = Some x /\ mcaller mx = true /\ mcanc mx = cc x /\ mretd mx = is_cret (cp x)
  | HG g => exists y, nth_error (gs s) g = Some y /\ grel j mx y /\ (mpub mx <> None -> exists r, gp y = GDone r) /\
              nth_error (hmap h) (mstart mx) = Some (HC (gsp y)) /\ tsafe s mx y
  end.

(* msucc: no attempt has succeeded so far / attempt g has succeeded at step t with v, and every caller born later
   is a late caller with respect to the state s0 just after the callback returned *)
Definition srel (succ : option (N * nat)) (acts : list mact) (h : hst) : Prop :=
  match succ with
  | None => NoSucc (ms h)
  | Some (v, t) => exists g s0, SuccRel s0 g v (ms h) /\
      forall j a mx, nth_error (hmap h) j = Some (HC a) -> nth_error acts j = Some mx -> t < mborn mx -> length (cs s0) <= a
  end.

Definition R (m : monst) (h : hst) : Prop :=
  length (macts m) = length (hmap h) /\
  (forall j mx hx, nth_error (macts m) j = Some mx -> nth_error (hmap h) j = Some hx ->
     mborn mx <= mstepno m /\ arel h j mx hx) /\
  srel (msucc m) (macts m) h.

Definition HR (h : hst) : Prop := Inv (ms h) /\ HS (ms h) /\ HM h.

(* between the event and the bookkeeping: the table against the NEW model state, returned/delivered flags still old *)
Definition amid (h h' : hst) (j : nat) (mx : mact) (hx : hact) : Prop :=
  let s := ms h in let s' := ms h' in
  match hx with
  | HC a => exists x', nth_error (cs s') a = Some x' /\ mcaller mx = true /\ mcanc mx = cc x' /\
              (mretd mx = true -> is_cret (cp x') = true) /\
              (mretd mx = false -> forall r p, cp x' = CRet r (Some p) ->
                 forall y r0, nth_error (gs s) p = Some y -> gp y = GDone r0 -> is_ok r0 = true)
  | HG g => exists y', nth_error (gs s') g = Some y' /\ grel j mx y' /\
              (mpub mx <> None -> exists y r, nth_error (gs s) g = Some y /\ gp y = GDone r /\ gp y' = GDone r) /\
              nth_error (hmap h') (mstart mx) = Some (HC (gsp y')) /\ tsafe s' mx y'
  end.

Definition Mid (i : nat) (acts2 : list mact) (h h' : hst) : Prop :=
  length acts2 = length (hmap h') /\
  forall j mx hx, nth_error acts2 j = Some mx -> nth_error (hmap h') j = Some hx ->
    mborn mx <= i /\ amid h h' j mx hx.

(* ------------------------------------------------------------------ the event's effect on one entry of the table *)
Definition eupd (m : monst) (e : list N) (j : nat) : mact -> mact :=
  match e with
  | [4; i] => if Nat.eqb (N.to_nat i) j then set_canc else (fun a => a)
  | [5; i; k] => if Nat.eqb (N.to_nat i) j then set_out (out_code k) (starter_canc (macts m) j) else (fun a => a)
  | _ => fun a => a
  end%N.

Definition eshape (e : list N) : Prop :=
  (exists c, e = [1; c]%N) \/ (exists i ch, e = [3; i; ch]%N) \/ (exists i, e = [4; i]%N) \/ (exists i k, e = [5; i; k]%N).

Lemma hdec_shape h e h' : hdec h e h' -> eshape e.
Proof. intros D. unfold eshape. destruct D; eauto 6. Qed.

Lemma upd_nth {A} (l : list A) i f j : nth_error (upd l i f) j = if Nat.eqb i j then option_map f (nth_error l j) else nth_error l j.
Proof.
  unfold upd. destruct (Nat.eqb_spec i j) as [->|Hne].
  - destruct (nth_error l j) as [x|] eqn:G; [|now rewrite G].
    cbn [option_map]. apply nth_error_set_nth_same. eapply nth_error_nth_len; eauto.
  - destruct (nth_error l i); [|reflexivity]. apply nth_error_set_nth_other. congruence.
Qed.

Lemma acts1_old m e j mx0 : eshape e -> nth_error (macts m) j = Some mx0 -> nth_error (m_acts1 m e) j = Some (eupd m e j mx0).
Proof.
  intros Hs G. destruct Hs as [[c ->]|[(i & ch & ->)|[[i ->]|(i & k & ->)]]]; cbn [m_acts1 eupd].
  - now apply nth_error_app_old.
  - exact G.
  - rewrite upd_nth, G. destruct (Nat.eqb (N.to_nat i) j); reflexivity.
  - rewrite upd_nth, G. destruct (Nat.eqb_spec (N.to_nat i) j) as [->|Hne]; reflexivity.
Qed.

Lemma acts1_length m e : eshape e ->
  length (m_acts1 m e) = length (macts m) + match e with [1; _]%N => 1 | _ => 0 end.
Proof.
  intros Hs. destruct Hs as [[c ->]|[(i & ch & ->)|[[i ->]|(i & k & ->)]]]; cbn [m_acts1].
  - rewrite app_length. reflexivity.
  - lia.
  - rewrite upd_length. lia.
  - rewrite upd_length. lia.
Qed.

Lemma eupd_fixed m e j mx : eshape e ->
  mcaller (eupd m e j mx) = mcaller mx /\ mborn (eupd m e j mx) = mborn mx /\ mretd (eupd m e j mx) = mretd mx /\
  mpub (eupd m e j mx) = mpub mx /\ mstart (eupd m e j mx) = mstart mx.
Proof.
  intros Hs. destruct Hs as [[c ->]|[(i & ch & ->)|[[i ->]|(i & k & ->)]]]; cbn [eupd]; auto;
    destruct (Nat.eqb (N.to_nat i) j); auto.
Qed.

Lemma eupd_canc m h e j a mx : eshape e -> HM h -> nth_error (hmap h) j = Some (HC a) ->
  mcanc (eupd m e j mx) = mcanc mx || ecanc h e a.
Proof.
  intros Hs (H1 & _) Hj. destruct Hs as [[c ->]|[(i & ch & ->)|[[i ->]|(i & k & ->)]]]; cbn [eupd ecanc];
    try (now rewrite orb_false_r).
  - destruct (Nat.eqb_spec (N.to_nat i) j) as [->|Hne].
    + rewrite Hj, Nat.eqb_refl. cbn [set_canc mcanc]. now rewrite orb_true_r.
    + destruct (nth_error (hmap h) (N.to_nat i)) as [[a'|g']|] eqn:Hi; try (now rewrite orb_false_r).
      destruct (Nat.eqb_spec a' a) as [->|Hna]; [|now rewrite orb_false_r]. exfalso. apply Hne. eapply H1; eauto.
  - destruct (Nat.eqb (N.to_nat i) j); cbn [set_out mcanc]; now rewrite orb_false_r.
Qed.

Lemma eupd_out m h e j g mx : eshape e -> HM h -> nth_error (hmap h) j = Some (HG g) ->
  match ecb h e g with
  | Some (i, k) => N.to_nat i = j /\ mout (eupd m e j mx) = out_code k /\ mtaint (eupd m e j mx) = starter_canc (macts m) j
  | None => mout (eupd m e j mx) = mout mx /\ mtaint (eupd m e j mx) = mtaint mx
  end.
Proof.
  intros Hs (H1 & _) Hj. destruct Hs as [[c ->]|[(i & ch & ->)|[[i ->]|(i & k & ->)]]]; cbn [eupd ecb]; try (split; reflexivity).
  - destruct (Nat.eqb (N.to_nat i) j); split; reflexivity.
  - destruct (Nat.eqb_spec (N.to_nat i) j) as [E|Hne].
    + rewrite E, Hj, !Nat.eqb_refl. split; [exact E | split; reflexivity].
    + destruct (nth_error (hmap h) (N.to_nat i)) as [[a'|g']|] eqn:Hi; try (split; reflexivity).
      destruct (Nat.eqb_spec g' g) as [->|Hng]; [|split; reflexivity]. exfalso. apply Hne. eapply H1; eauto.
Qed.

(* ------------------------------------------------------------------ the table after the event, against the new state *)
Lemma outcome_cases i k o : outcome i k = Some o ->
  ((o = RVal (i + 1) /\ out_code k = 1) \/ (o = RErr (i + 1) /\ out_code k = 2) \/ (o = RCanceled /\ out_code k = 3))%N.
Proof.
  unfold outcome, out_code. destruct (N.eqb_spec k 0) as [->|H0]; [intros H; inversion H; auto|].
  destruct (N.eqb_spec k 2) as [->|H2]; [intros H; inversion H; auto|].
  destruct (N.leb k 64); [intros H; inversion H; auto | discriminate].
Qed.

Lemma hdec_hmap_prefix h e h' k x : hdec h e h' -> nth_error (hmap h) k = Some x -> nth_error (hmap h') k = Some x.
Proof.
  intros D G. destruct (hdec_hmap _ _ _ D) as [(Eh & _)|[(c & _ & Eh)|(i & ch & _ & _ & Eh)]]; rewrite Eh; auto using nth_error_app_old.
Qed.

Lemma starter_canc_ctx m h j mx0 (y : gor) : R m h -> nth_error (macts m) j = Some mx0 ->
  nth_error (hmap h) (mstart mx0) = Some (HC (gsp y)) -> starter_canc (macts m) j = true -> ctx_cancelled (ms h) (gsp y) = true.
Proof.
  intros (RL & RA & _) Gm G4 Ht. unfold starter_canc in Ht. rewrite Gm in Ht.
  destruct (nth_error (macts m) (mstart mx0)) as [c|] eqn:Gc; [|discriminate].
  destruct (RA _ _ _ Gc G4) as [_ Ha]. cbn [arel] in Ha. destruct Ha as (x & Gx & _ & A2 & _).
  unfold ctx_cancelled. rewrite Gx. congruence.
Qed.

Lemma mid_old m h e h' j mx0 hx : HR h -> R m h -> hdec h e h' ->
  nth_error (macts m) j = Some mx0 -> nth_error (hmap h) j = Some hx -> nth_error (hmap h') j = Some hx ->
  mborn (eupd m e j mx0) <= mstepno m /\ amid h h' j (eupd m e j mx0) hx.
Proof.
  intros (HI & HSs & HMh) HRm D Gm Gh Gh'. pose proof HRm as (RL & RA & RS).
  pose proof (hdec_shape _ _ _ D) as Hs. pose proof (hdec_HM _ _ _ D HMh) as HMh'.
  destruct (RA _ _ _ Gm Gh) as [Hb Ha]. destruct (eupd_fixed m e j mx0 Hs) as (F1 & F2 & F3 & F4 & F5).
  split; [now rewrite F2|]. destruct HMh' as (_ & HMc & HMg & _).
  destruct hx as [a|g]; cbn [arel amid] in *.
  - destruct Ha as (x & Gx & A1 & A2 & A3).
    specialize (HMc _ _ Gh'). destruct (nth_error (cs (ms h')) a) as [x'|] eqn:Gx'; [|apply nth_error_None in Gx'; lia].
    destruct (hdec_callers _ _ _ D HI HSs _ _ Gx') as [(x0 & Gx0 & C1 & C2 & C3)|[Hnew _]];
      [|apply nth_error_nth_len in Gx; lia].
    rewrite Gx in Gx0. inversion Gx0; subst x0. exists x'. split; [reflexivity|].
    split; [congruence|]. split; [rewrite (eupd_canc m h e j a mx0 Hs HMh Gh); congruence|]. rewrite F3, A3. split.
    + intros Hr. rewrite (C2 Hr). exact Hr.
    + exact C3.
  - destruct Ha as (y & Gy & [G1 G2] & G3 & G4 & G5).
    specialize (HMg _ _ Gh'). destruct (nth_error (gs (ms h')) g) as [y'|] eqn:Gy'; [|apply nth_error_None in Gy'; lia].
    destruct (hdec_gors _ _ _ D _ _ Gy') as [(y0 & Gy0 & S1 & Sg & ST & S2)|[Hnew _]]; [|apply nth_error_nth_len in Gy; lia].
    rewrite Gy in Gy0. inversion Gy0; subst y0. exists y'. split; [reflexivity|].
    pose proof (eupd_out m h e j g mx0 Hs HMh Gh) as Ho.
    split; [|split; [|split]].
    + split; [congruence|].
      destruct (ecb h e g) as [[i k]|].
      * destruct Ho as (Hij & Ho & _). destruct S2 as (Hn & o & Hoc & Hr'). rewrite Hr', Ho.
        destruct (outcome_cases _ _ _ Hoc) as [[-> ->]|[[-> ->]|[-> ->]]]; [reflexivity| |right; reflexivity].
        split; [reflexivity|]. rewrite <- Hij, N2Nat.id. reflexivity.
      * destruct Ho as [Ho _]. rewrite Ho. destruct S2 as [S2|(o & Hro & Hok & Hr')]; [now rewrite S2|].
        rewrite Hr'. rewrite Hro in G2. destruct o as [v|e0|]; [discriminate| |exact G2]. left. exact (proj1 G2).
    + rewrite F4. intros Hp. destruct (G3 Hp) as [r Hr]. exists y, r. auto.
    + rewrite F5, Sg. eapply hdec_hmap_prefix; eauto.
    + intros Ht.
      assert (Hctx : ctx_cancelled (ms h) (gsp y) = true /\ forall e0, gp y <> GPub (RErr e0) /\ gp y <> GDone (RErr e0)).
      { destruct (ecb h e g) as [[i k]|].
        - destruct Ho as (_ & _ & Ho). rewrite Ho in Ht. split; [eapply starter_canc_ctx; eauto|].
          destruct S2 as (Hn & _). intros e0. unfold gres in Hn. split; intros Hc; rewrite Hc in Hn; discriminate.
        - destruct Ho as (_ & Ho). rewrite Ho in Ht. exact (G5 Ht). }
      destruct Hctx as [Hc Hno]. rewrite Sg. split; [eapply hdec_ctx_mono; eauto|].
      intros e0. split; intros Hy'.
      * destruct (ST e0 (or_introl Hy')) as [[H|H]|H]; [exact (proj1 (Hno e0) H) | exact (proj2 (Hno e0) H) | congruence].
      * destruct (ST e0 (or_intror Hy')) as [[H|H]|H]; [exact (proj1 (Hno e0) H) | exact (proj2 (Hno e0) H) | congruence].
Qed.

Lemma mid_of_step m h e h' : HR h -> R m h -> hdec h e h' -> Mid (mstepno m) (m_acts2 m e (obs h')) h h'.
Proof.
  intros HRh HRm D. pose proof HRh as (HI & HSs & HMh). pose proof HRm as (RL & RA & RS).
  pose proof (hdec_shape _ _ _ D) as Hs. pose proof (hdec_HM _ _ _ D HMh) as HMh'.
  assert (Hps : length (pairs (obs h')) = length (hmap h')) by (rewrite pairs_obs; apply map_length).
  assert (Hold : forall j mx hx, j < length (hmap h) -> nth_error (m_acts1 m e) j = Some mx -> nth_error (hmap h) j = Some hx ->
                   nth_error (hmap h') j = Some hx -> mborn mx <= mstepno m /\ amid h h' j mx hx).
  { intros j mx hx Hj G1 Gh Gh'. rewrite <- RL in Hj. destruct (nth_error (macts m) j) as [mx0|] eqn:G0; [|apply nth_error_None in G0; lia].
    rewrite (acts1_old m e j mx0 Hs G0) in G1. inversion G1; subst mx. eapply mid_old; eauto. }
  unfold Mid, m_acts2, m_nnew. rewrite Hps.
  destruct (hdec_hmap _ _ _ D) as [(Eh & Hne & _)|[(c & -> & Eh)|(i & ch & -> & EP & Eh)]].
  - assert (El : length (m_acts1 m e) = length (macts m)).
    { rewrite (acts1_length m e Hs). destruct Hs as [[c ->]|[(i & ch & ->)|[[i ->]|(i & k & ->)]]]; try lia. exfalso. eapply Hne; reflexivity. }
    rewrite El, Eh, RL, Nat.sub_diag. cbn [repeat]. rewrite app_nil_r. split; [congruence|].
    intros j mx hx G1 Gh. assert (Hj : j < length (hmap h)) by (eapply nth_error_nth_len; eauto).
    apply (Hold j mx hx); [exact Hj | exact G1 | exact Gh | congruence].
  - cbn [m_acts1]. rewrite Eh, !app_length, RL. cbn [length]. rewrite Nat.sub_diag. cbn [repeat]. rewrite app_nil_r.
    split; [repeat rewrite app_length; cbn [length]; lia|].
    intros j mx hx G1 Gh. apply app_lookup in Gh as [Gh|[-> ->]].
    + assert (Hj : j < length (hmap h)) by (eapply nth_error_nth_len; eauto).
      apply (Hold j mx hx); [exact Hj | | exact Gh | rewrite Eh; now apply nth_error_app_old].
      cbn [m_acts1]. exact G1.
    + rewrite <- RL, nth_error_app_last in G1. inversion G1; subst mx. cbn [new_caller mborn]. split; [lia|].
      cbn [amid]. destruct HMh' as (_ & HMc & _).
      assert (Gh' : nth_error (hmap h') (length (hmap h)) = Some (HC (length (cs (ms h))))) by (rewrite Eh; apply nth_error_app_last).
      specialize (HMc _ _ Gh'). destruct (nth_error (cs (ms h')) (length (cs (ms h)))) as [x'|] eqn:Gx'; [|apply nth_error_None in Gx'; lia].
      destruct (hdec_callers _ _ _ D HI HSs _ _ Gx') as [(x0 & Gx0 & _)|[_ (c' & Ec & ->)]]; [apply nth_error_nth_len in Gx0; lia|].
      inversion Ec; subst c'. exists {| cp := if N.eqb c 1 then CRet RCanceled None else CGate; cc := N.eqb c 1 |}.
      split; [reflexivity|]. cbn [mcaller mcanc mretd cc cp]. repeat split; try discriminate.
      intros _ r p Hp. destruct (N.eqb c 1); discriminate.
  - cbn [m_acts1]. rewrite Eh, !app_length, RL. cbn [length]. replace (length (hmap h) + 1 - length (hmap h)) with 1 by lia.
    cbn [repeat]. split; [repeat rewrite app_length; cbn [length]; lia|].
    intros j mx hx G1 Gh. apply app_lookup in Gh as [Gh|[-> ->]].
    + assert (Hj : j < length (hmap h)) by (eapply nth_error_nth_len; eauto).
      apply (Hold j mx hx); [exact Hj | | exact Gh | rewrite Eh; now apply nth_error_app_old].
      cbn [m_acts1]. apply app_lookup in G1 as [G1|[Hj' _]]; [exact G1 | lia].
    + rewrite <- RL, nth_error_app_last in G1. inversion G1; subst mx. cbn [new_gor mborn]. split; [lia|].
      cbn [amid]. destruct HMh' as (_ & _ & HMg & _).
      assert (Gh' : nth_error (hmap h') (length (hmap h)) = Some (HG (length (gs (ms h))))) by (rewrite Eh; apply nth_error_app_last).
      specialize (HMg _ _ Gh'). destruct (nth_error (gs (ms h')) (length (gs (ms h)))) as [y'|] eqn:Gy'; [|apply nth_error_None in Gy'; lia].
      destruct (hdec_gors _ _ _ D _ _ Gy') as [(y0 & Gy0 & _)|(_ & Hn & _ & _ & i0 & ch0 & Ee & Gst)]; [apply nth_error_nth_len in Gy0; lia|].
      inversion Ee; subst i0 ch0.
      exists y'. split; [reflexivity|]. split; [split; [reflexivity|]; rewrite Hn; reflexivity|]. cbn [new_gor mpub mstart mtaint m_starter].
      split; [intros Hc; exfalso; apply Hc; reflexivity|]. split; [eapply hdec_hmap_prefix; eauto|]. intros Hc. discriminate.
Qed.

(* where the entries of the table come from *)
Lemma acts2_struct m h e h' : HR h -> R m h -> hdec h e h' ->
  forall j mx hx, nth_error (m_acts2 m e (obs h')) j = Some mx -> nth_error (hmap h') j = Some hx ->
  (exists mx0, nth_error (macts m) j = Some mx0 /\ nth_error (hmap h) j = Some hx /\ mborn mx = mborn mx0) \/
  (j = length (hmap h) /\ mborn mx = mstepno m /\ forall a, hx = HC a -> a = length (cs (ms h))).
Proof.
  intros HRh HRm D. pose proof HRh as (HI & HSs & HMh). pose proof HRm as (RL & RA & RS).
  pose proof (hdec_shape _ _ _ D) as Hs.
  assert (Hps : length (pairs (obs h')) = length (hmap h')) by (rewrite pairs_obs; apply map_length).
  assert (Hold : forall j mx hx, j < length (hmap h) -> nth_error (m_acts1 m e) j = Some mx -> nth_error (hmap h) j = Some hx ->
                   exists mx0, nth_error (macts m) j = Some mx0 /\ nth_error (hmap h) j = Some hx /\ mborn mx = mborn mx0).
  { intros j mx hx Hj G1 Gh. rewrite <- RL in Hj. destruct (nth_error (macts m) j) as [mx0|] eqn:G0; [|apply nth_error_None in G0; lia].
    rewrite (acts1_old m e j mx0 Hs G0) in G1. inversion G1; subst mx. exists mx0. repeat split; auto.
    apply (eupd_fixed m e j mx0 Hs). }
  unfold m_acts2, m_nnew. rewrite Hps.
  destruct (hdec_hmap _ _ _ D) as [(Eh & Hne & _)|[(c & -> & Eh)|(i & ch & -> & EP & Eh)]].
  - assert (El : length (m_acts1 m e) = length (macts m)).
    { rewrite (acts1_length m e Hs). destruct Hs as [[c ->]|[(i & ch & ->)|[[i ->]|(i & k & ->)]]]; try lia. exfalso. eapply Hne; reflexivity. }
    rewrite El, Eh, RL, Nat.sub_diag. cbn [repeat]. rewrite app_nil_r.
    intros j mx hx G1 Gh. left. assert (Hj : j < length (hmap h)) by (eapply nth_error_nth_len; eauto). eauto.
  - cbn [m_acts1]. rewrite Eh, !app_length, RL. cbn [length]. rewrite Nat.sub_diag. cbn [repeat]. rewrite app_nil_r.
    intros j mx hx G1 Gh. apply app_lookup in Gh as [Gh|[-> ->]].
    + left. assert (Hj : j < length (hmap h)) by (eapply nth_error_nth_len; eauto). apply (Hold j mx hx); auto.
    + right. rewrite <- RL, nth_error_app_last in G1. inversion G1; subst mx. cbn [new_caller mborn].
      repeat split; auto. intros a Ha. now inversion Ha.
  - cbn [m_acts1]. rewrite Eh, !app_length, RL. cbn [length]. replace (length (hmap h) + 1 - length (hmap h)) with 1 by lia.
    cbn [repeat].
    intros j mx hx G1 Gh. apply app_lookup in Gh as [Gh|[-> ->]].
    + left. assert (Hj : j < length (hmap h)) by (eapply nth_error_nth_len; eauto). apply (Hold j mx hx); auto.
      cbn [m_acts1]. apply app_lookup in G1 as [G1|[Hj' _]]; [exact G1 | lia].
    + right. rewrite <- RL, nth_error_app_last in G1. inversion G1; subst mx. cbn [new_gor mborn].
      repeat split; auto. intros a Ha. discriminate.
Qed.

Lemma succ1_cases m e : eshape e ->
  (exists i, e = [5; i; 0]%N /\
             m_succ1 m e = match msucc m with None => Some ((i + 1)%N, mstepno m) | Some x => Some x end) \/
  ((forall i, e <> [5; i; 0]%N) /\ m_succ1 m e = msucc m).
Proof.
  intros Hs. destruct Hs as [[c ->]|[(i & ch & ->)|[[i ->]|(i & k & ->)]]]; try (right; split; [intros; discriminate | reflexivity]).
  destruct k as [|p]; [left; exists i; split; reflexivity|]. right. split; [intros; discriminate | reflexivity].
Qed.

Lemma late_ge s0 g a : length (cs s0) <= a -> late s0 g a.
Proof. intros H. now left. Qed.

Lemma srel_step m h e h' : HR h -> R m h -> hdec h e h' -> srel (m_succ1 m e) (m_acts2 m e (obs h')) h'.
Proof.
  intros HRh HRm D. pose proof HRh as (HI & HSs & HMh). pose proof HRm as (RL & RA & RS).
  pose proof (hdec_shape _ _ _ D) as Hs. pose proof (hdec_inv _ _ _ D HI) as HI'.
  destruct (msucc m) as [[v t]|] eqn:Em.
  - assert (E1 : m_succ1 m e = Some (v, t)).
    { destruct (succ1_cases m e Hs) as [(i & _ & E)|[_ E]]; rewrite E, Em; reflexivity. }
    rewrite E1. cbn [srel] in RS |- *. destruct RS as (g & s0 & HSR & HB). exists g, s0. split.
    + apply (hdec_closed (SuccRel s0 g v) (fun s e0 H => succrel_step s0 g v s e0 H) _ _ _ D HSR).
    + intros j a mx Gh G2 Ht. destruct (acts2_struct _ _ _ _ HRh HRm D _ _ _ G2 Gh) as [(mx0 & G0 & Gh0 & Eb)|(_ & _ & Ha)].
      * rewrite Eb in Ht. eapply HB; eauto.
      * rewrite (Ha a eq_refl). destruct HSR as (_ & _ & _ & _ & HLc & _). exact HLc.
  - destruct (succ1_cases m e Hs) as [(i & -> & E)|[Hne E]]; rewrite E, Em.
    + cbn [srel]. destruct (hdec_success _ _ _ D HI) as [g HSu]. exists g, (ms h'). split; [apply succrel_init; assumption|].
      intros j a mx Gh G2 Ht. destruct (mid_of_step _ _ _ _ HRh HRm D) as [_ HMid]. destruct (HMid _ _ _ G2 Gh) as [Hb _]. lia.
    + cbn [srel] in RS |- *. eapply hdec_nosucc; eauto.
Qed.

(* ------------------------------------------------------------------ the clauses *)
Lemma succ_unique s g1 v1 g2 v2 : Inv s -> succeeded s g1 v1 -> succeeded s g2 v2 -> g1 = g2 /\ v1 = v2.
Proof.
  intros HI H1 H2. pose proof (succeeded_prom _ _ _ HI H1) as P1. pose proof (succeeded_prom _ _ _ HI H2) as P2.
  assert (g1 = g2) by congruence. subst g2. split; [reflexivity|].
  destruct (succeeded_gres _ _ _ H1) as [y1 [G1 R1]]. destruct (succeeded_gres _ _ _ H2) as [y2 [G2 R2]]. congruence.
Qed.

Lemma ccode_fst x : let c := fst (ccode x) in (c = 1 \/ c = 2 \/ c = 3 \/ c = 4 \/ c = 5)%N.
Proof. unfold ccode. destruct (cp x) as [|p|r src]; cbn; auto. destruct r; cbn; auto. Qed.
Lemma gcode_fst y : let c := fst (gcode y) in (c = 6 \/ c = 7 \/ c = 8 \/ c = 10 \/ c = 9)%N.
Proof. unfold gcode. destruct (gp y); cbn; auto. Qed.

Section Clauses.
  Variables (i : nat) (A2 : list mact) (h h' : hst) (succ1 : option (N * nat)).
  Hypothesis HMid : Mid i A2 h h'.
  Hypothesis HI' : Inv (ms h').
  Hypothesis HS' : HS (ms h').
  Hypothesis HM' : HM h'.
  Hypothesis HSR : srel succ1 A2 h'.
  Let zs : list zt := combine A2 (pairs (obs h')).

  Definition zcaller (z : zt) (j a : nat) (x' : caller) : Prop :=
    nth_error (hmap h') j = Some (HC a) /\ nth_error (cs (ms h')) a = Some x' /\ snd z = ccode x' /\
    mcaller (fst z) = true /\ mcanc (fst z) = cc x' /\
    (mretd (fst z) = true -> is_cret (cp x') = true) /\
    (mretd (fst z) = false -> forall r p, cp x' = CRet r (Some p) ->
       forall y r0, nth_error (gs (ms h)) p = Some y -> gp y = GDone r0 -> is_ok r0 = true).
  Definition zgor (z : zt) (j g : nat) (y' : gor) : Prop :=
    nth_error (hmap h') j = Some (HG g) /\ nth_error (gs (ms h')) g = Some y' /\ snd z = gcode y' /\
    grel j (fst z) y' /\
    (mpub (fst z) <> None -> exists y r, nth_error (gs (ms h)) g = Some y /\ gp y = GDone r /\ gp y' = GDone r) /\
    nth_error (hmap h') (mstart (fst z)) = Some (HC (gsp y')) /\ tsafe (ms h') (fst z) y'.

  Lemma zs_nth j z : nth_error zs j = Some z ->
    nth_error A2 j = Some (fst z) /\ mborn (fst z) <= i /\
    ((exists a x', zcaller z j a x') \/ (exists g y', zgor z j g y')).
  Proof.
    intros H. destruct z as [mx cv]. apply combine_nth_error in H as [H1 H2]. rewrite pairs_obs in H2.
    apply nth_error_map_inv in H2 as [hx [Gh Ec]]. cbn [fst snd]. split; [exact H1|].
    destruct HMid as [_ HMd]. destruct (HMd _ _ _ H1 Gh) as [Hb Ha]. split; [exact Hb|].
    destruct hx as [a|g]; cbn [amid] in Ha.
    - left. destruct Ha as (x' & Gx & A1 & A3 & A4 & A5). exists a, x'. unfold zcaller. cbn [fst snd].
      cbn [codep] in Ec. rewrite Gx in Ec. auto 10.
    - right. destruct Ha as (y' & Gy & A1 & A3 & A4 & A5). exists g, y'. unfold zgor. cbn [fst snd].
      cbn [codep] in Ec. rewrite Gy in Ec. auto 10.
  Qed.

  Lemma zs_in z : In z zs -> exists j,
    nth_error zs j = Some z /\ nth_error A2 j = Some (fst z) /\ mborn (fst z) <= i /\
    ((exists a x', zcaller z j a x') \/ (exists g y', zgor z j g y')).
  Proof. intros H. apply In_nth_error in H as [j Hj]. exists j. split; [exact Hj | now apply zs_nth]. Qed.

  (* the zs entry of an actor *)
  Lemma zs_of j hx : nth_error (hmap h') j = Some hx -> exists mx, nth_error A2 j = Some mx /\ nth_error zs j = Some (mx, codep (ms h') hx).
  Proof.
    intros Gh. destruct HMid as [HL _]. destruct (nth_error A2 j) as [mx|] eqn:G2;
      [|apply nth_error_None in G2; apply nth_error_nth_len in Gh; lia].
    exists mx. split; [reflexivity|]. apply nth_error_combine; [exact G2|]. rewrite pairs_obs. now apply map_nth_error.
  Qed.

  (* clause 1 *)
  Lemma cl1 : Nat.ltb 1 (length (filter (fun z : zt => N.eqb (zc z) 6) zs)) = false.
  Proof.
    apply Nat.ltb_ge. change (cnt (fun z : zt => N.eqb (zc z) 6) zs <= 1). apply uniq_cnt_le1.
    assert (Hg : forall j z, nth_error zs j = Some z -> N.eqb (zc z) 6 = true -> exists g, nth_error (hmap h') j = Some (HG g) /\ prom (ms h') = Some g).
    { intros j z Hz Hc. apply N.eqb_eq in Hc. unfold zc in Hc. destruct (zs_nth _ _ Hz) as (_ & _ & [(a & x' & Z)|(g & y' & Z)]).
      - destruct Z as (_ & _ & Ec & _). rewrite Ec in Hc. pose proof (ccode_fst x') as Hx. cbn zeta in Hx. lia.
      - destruct Z as (Gh & Gy & Ec & _). exists g. split; [exact Gh|]. rewrite Ec in Hc. inv_names HI'.
        apply (I1 _ _ Gy). unfold gcode in Hc. unfold holds. destruct (gp y'); cbn in Hc; try discriminate; reflexivity. }
    intros j1 j2 z1 z2 H1 H2 P1 P2. destruct (Hg _ _ H1 P1) as (g1 & Gh1 & Pr1). destruct (Hg _ _ H2 P2) as (g2 & Gh2 & Pr2).
    assert (g1 = g2) by congruence. subst g2. destruct HM' as (Hnd & _). eapply Hnd; eauto.
  Qed.

  (* a returned caller *)
  Lemma z_ret z j a x' : zcaller z j a x' -> is_ret_code (zc z) = true -> exists r src, cp x' = CRet r src /\ snd z = rcode r.
  Proof.
    intros (_ & _ & Ec & _) Hc. unfold zc in Hc. rewrite Ec in *. unfold ccode in *.
    destruct (cp x') as [|p|r src]; cbn in Hc; try discriminate. eauto.
  Qed.
  Lemma z_gor_not_ret z j g y' : zgor z j g y' -> is_ret_code (zc z) = false.
  Proof.
    intros (_ & _ & Ec & _). unfold zc. rewrite Ec. unfold gcode. destruct (gp y'); reflexivity.
  Qed.

  (* a value returned is the value of the successful attempt *)
  Lemma cl2_val z : In z zs -> bad_val succ1 z = false.
  Proof.
    intros Hz. unfold bad_val. destruct (N.eqb_spec (zc z) 3) as [Hc|Hc]; [|reflexivity]. cbn [andb].
    destruct (zs_in _ Hz) as (j & _ & _ & _ & [(a & x' & Z)|(g & y' & Z)]).
    - destruct (z_ret _ _ _ _ Z) as (r & src & Ecp & Ez); [unfold is_ret_code; now rewrite Hc|].
      unfold zc in Hc. unfold zv. rewrite Ez in *. destruct r as [v'|e0|]; cbn in Hc; try discriminate. cbn [rcode snd].
      destruct Z as (_ & Gx & _). pose proof HI' as HIc. inv_names HIc.
      destruct src as [p|]; [|specialize (I7 _ _ _ Gx Ecp); discriminate].
      pose proof (I6 _ _ _ _ Gx Ecp) as Hd. unfold dres in Hd. destruct (nth_error (gs (ms h')) p) as [y|] eqn:Gy; [|discriminate].
      destruct (gp y) eqn:Ey; try discriminate. inversion Hd; subst r.
      assert (HSu : succeeded (ms h') p v') by (exists y; auto).
      destruct succ1 as [[v t]|]; cbn [srel] in HSR.
      + destruct HSR as (g & s0 & (_ & _ & HSg & _) & _). destruct (succ_unique _ _ _ _ _ HI' HSg HSu) as [_ ->].
        now rewrite N.eqb_refl.
      + exfalso. eapply HSR; eauto.
    - exfalso. pose proof (z_gor_not_ret _ _ _ _ Z) as Hn. unfold is_ret_code in Hn. rewrite Hc in Hn. discriminate.
  Qed.

  Lemma cl2_later z : In z zs -> is_newly z = true -> bad_later succ1 z = false.
  Proof.
    intros Hz Hn. unfold bad_later. destruct succ1 as [[v t]|]; [|reflexivity]. cbn [srel] in HSR.
    destruct HSR as (g & s0 & (_ & _ & _ & _ & _ & HL) & HB).
    unfold is_newly in Hn. apply andb_true_iff in Hn as [Hn Hrc]. apply andb_true_iff in Hn as [Hcl _].
    destruct (zs_in _ Hz) as (j & _ & G2 & _ & [(a & x' & Z)|(g' & y' & Z)]);
      [|rewrite (z_gor_not_ret _ _ _ _ Z) in Hrc; discriminate].
    destruct (z_ret _ _ _ _ Z Hrc) as (r & src & Ecp & Ez). destruct Z as (Gh & Gx & _ & _ & Hcc & _).
    destruct (Nat.ltb_spec t (mborn (fst z))) as [Ht|Ht]; [|reflexivity]. cbn [andb].
    specialize (HB _ _ _ Gh G2 Ht). destruct (HL _ _ Gx (late_ge _ g _ HB)) as [H|[H|[H|[src' H]]]]; rewrite Ecp in H; try discriminate.
    - inversion H; subst r src. unfold zc. rewrite Ez. cbn. now rewrite andb_false_r.
    - inversion H; subst r src'. pose proof HI' as HIc. inv_names HIc. rewrite Hcc, (I5 _ _ _ Gx Ecp). reflexivity.
  Qed.

  (* clause 4 *)
  Lemma cl4 z : In z zs -> bad_canc z = false.
  Proof.
    intros Hz. unfold bad_canc. destruct (N.eqb_spec (zc z) 4) as [Hc|Hc]; [|reflexivity]. cbn [andb].
    destruct (zs_in _ Hz) as (j & _ & _ & _ & [(a & x' & Z)|(g & y' & Z)]).
    - destruct (z_ret _ _ _ _ Z) as (r & src & Ecp & Ez); [unfold is_ret_code; now rewrite Hc, orb_true_r|].
      unfold zc in Hc. rewrite Ez in Hc. destruct r; cbn in Hc; try discriminate.
      destruct Z as (_ & Gx & _ & _ & Hcc & _). pose proof HI' as HIc. inv_names HIc. now rewrite Hcc, (I5 _ _ _ Gx Ecp).
    - exfalso. pose proof (z_gor_not_ret _ _ _ _ Z) as Hn. unfold is_ret_code in Hn. rewrite Hc in Hn. discriminate.
  Qed.

  (* an error returned: where it comes from *)
  Lemma z_err z j a x' : zcaller z j a x' -> zc z = 5%N ->
    exists p yp jp gx, cp x' = CRet (RErr (zv z)) (Some p) /\ nth_error (gs (ms h')) p = Some yp /\ gp yp = GDone (RErr (zv z)) /\
                       nth_error (hmap h') jp = Some (HG p) /\ nth_error A2 jp = Some gx /\ zgor (gx, gcode yp) jp p yp /\
                       zv z = (N.of_nat jp + 1)%N /\ mout gx = 2%N /\ mcaller gx = false.
  Proof.
    intros Z Hc. destruct (z_ret _ _ _ _ Z) as (r & src & Ecp & Ez); [unfold is_ret_code; now rewrite Hc, orb_true_r|].
    unfold zc in Hc. unfold zv. rewrite Ez in *. destruct r as [v'|e0|]; cbn in Hc; try discriminate. cbn [rcode snd].
    destruct Z as (_ & Gx & _). pose proof HI' as HIc. inv_names HIc.
    destruct src as [p|]; [|specialize (I7 _ _ _ Gx Ecp); discriminate].
    pose proof (I6 _ _ _ _ Gx Ecp) as Hd. unfold dres in Hd. destruct (nth_error (gs (ms h')) p) as [yp|] eqn:Gy; [|discriminate].
    destruct (gp yp) eqn:Ey; try discriminate. inversion Hd; subst r.
    destruct HM' as (_ & _ & _ & Hcov). destruct (Hcov p (nth_error_nth_len _ _ _ Gy)) as [jp Gjp].
    destruct (zs_of _ _ Gjp) as (gx & G2 & Gz). cbn [codep] in Gz. rewrite Gy in Gz.
    destruct (zs_nth _ _ Gz) as (_ & _ & [(a1 & x1 & (Gh1 & _))|(g1 & y1 & Zg)]); [congruence|].
    pose proof Zg as (Gh1 & Gy1 & _ & [Gc Gr] & _). rewrite Gjp in Gh1. inversion Gh1; subst g1. rewrite Gy in Gy1. inversion Gy1; subst y1.
    cbn [fst] in Gc, Gr. unfold gres in Gr. rewrite Ey in Gr. destruct Gr as [Go Ge].
    exists p, yp, jp, gx. split; [exact Ecp|]. split; [exact Gy|]. split; [exact Ey|]. split; [exact Gjp|]. split; [exact G2|].
    split; [exact Zg|]. split; [exact Ge|]. split; [exact Go | exact Gc].
  Qed.

  (* clause 3 *)
  Lemma cl3 z : In z zs -> is_newly z = true -> bad_err A2 z = false.
  Proof.
    intros Hz Hn. unfold bad_err. destruct (N.eqb_spec (zc z) 5) as [Hc|Hc]; [|reflexivity]. cbn [andb].
    unfold is_newly in Hn. apply andb_true_iff in Hn as [Hn Hrc]. apply andb_true_iff in Hn as [_ Hnr]. apply negb_true_iff in Hnr.
    destruct (zs_in _ Hz) as (j & _ & _ & _ & [(a & x' & Z)|(g' & y' & Z)]);
      [|rewrite (z_gor_not_ret _ _ _ _ Z) in Hrc; discriminate].
    destruct (z_err _ _ _ _ Z Hc) as (p & yp & jp & gx & Ecp & Gy & Ey & Gjp & G2 & Zg & Ev & Ho & Hcl).
    rewrite Ev. replace (N.of_nat jp + 1 - 1)%N with (N.of_nat jp) by lia. rewrite Nat2N.id, G2, Hcl, Ho.
    replace (N.eqb (N.of_nat jp + 1) 0) with false by (symmetry; apply N.eqb_neq; lia). cbn [negb andb orb N.eqb Pos.eqb].
    destruct (mpub gx) as [t|] eqn:Ep; [|reflexivity]. exfalso.
    destruct Zg as (_ & _ & _ & _ & Hpub & _). cbn [fst] in Hpub. destruct Hpub as (y & r & Gy0 & Ey0 & Ey1); [congruence|].
    rewrite Ey in Ey1. inversion Ey1; subst r.
    destruct Z as (_ & _ & _ & _ & _ & _ & Hnew). specialize (Hnew Hnr _ _ Ecp _ _ Gy0 Ey0). discriminate.
  Qed.

  (* clause 9 *)
  Lemma cl9 z : In z zs -> bad_taint A2 z = false.
  Proof.
    intros Hz. unfold bad_taint. destruct (N.eqb_spec (zc z) 5) as [Hc|Hc]; [|reflexivity]. cbn [andb].
    destruct (zs_in _ Hz) as (j & _ & _ & _ & [(a & x' & Z)|(g' & y' & Z)]).
    - destruct (z_err _ _ _ _ Z Hc) as (p & yp & jp & gx & Ecp & Gy & Ey & Gjp & G2 & Zg & Ev & Ho & Hcl).
      rewrite Ev. replace (N.of_nat jp + 1 - 1)%N with (N.of_nat jp) by lia. rewrite Nat2N.id, G2, Hcl.
      destruct (mtaint gx) eqn:Et; [|now rewrite andb_false_r]. exfalso.
      destruct Zg as (_ & _ & _ & _ & _ & _ & Hts). cbn [fst] in Hts. destruct (Hts Et) as [_ Hno].
      exact (proj2 (Hno _) Ey).
    - exfalso. pose proof (z_gor_not_ret _ _ _ _ Z) as Hn. unfold is_ret_code in Hn. rewrite Hc in Hn. rewrite !orb_true_r in Hn. discriminate.
  Qed.

  (* clause 5 *)
  Lemma cl5a z : In z zs -> is_cblocked z = false.
  Proof.
    intros Hz. unfold is_cblocked. destruct (N.eqb_spec (zc z) 2) as [Hc|Hc]; [|now rewrite andb_false_r]. rewrite andb_true_r.
    destruct (zs_in _ Hz) as (j & _ & _ & _ & [(a & x' & Z)|(g & y' & Z)]).
    - destruct Z as (_ & Gx & Ec & _ & Hcc & _). unfold zc in Hc. rewrite Ec in Hc. unfold ccode in Hc.
      destruct (cp x') as [|p|r src] eqn:Ecp; cbn in Hc; try discriminate; [|destruct r; discriminate].
      rewrite Hcc, (proj1 (HS' _ _ _ Gx Ecp)). apply andb_false_r.
    - destruct Z as (_ & _ & _ & [Hcl _] & _). now rewrite Hcl.
  Qed.

  Lemma cl5b : existsb is_blocked zs && negb (existsb is_active zs) = false.
  Proof.
    destruct (existsb is_blocked zs) eqn:Eb; [|reflexivity]. cbn [andb]. apply negb_false_iff.
    apply existsb_exists in Eb as (z & Hz & Hb). unfold is_blocked in Hb. apply N.eqb_eq in Hb.
    destruct (zs_in _ Hz) as (j & _ & _ & _ & [(a & x' & Z)|(g & y' & Z)]).
    - destruct Z as (_ & Gx & Ec & _). unfold zc in Hb. rewrite Ec in Hb. unfold ccode in Hb.
      destruct (cp x') as [|p|r src] eqn:Ecp; cbn in Hb; try discriminate; [|destruct r; discriminate].
      pose proof (proj2 (HS' _ _ _ Gx Ecp)) as Hd. pose proof HI' as HIc. inv_names HIc. pose proof (I4 _ _ _ Gx Ecp) as Hl.
      destruct HM' as (_ & _ & _ & Hcov). destruct (Hcov p Hl) as [jp Gjp]. destruct (zs_of _ _ Gjp) as (gx & _ & Gz).
      apply existsb_exists. eexists. split; [eapply nth_error_In; exact Gz|].
      unfold is_active, zc. cbn [fst snd codep]. unfold dres in Hd.
      destruct (nth_error (gs (ms h')) p) as [yp|] eqn:Gy; [|apply nth_error_None in Gy; lia].
      unfold gcode. destruct (gp yp); try reflexivity. discriminate.
    - destruct Z as (_ & _ & Ec & _). unfold zc in Hb. rewrite Ec in Hb. pose proof (gcode_fst y') as Hy. cbn zeta in Hy. lia.
  Qed.

  (* clause 8 *)
  Lemma cl8 z : In z zs -> is_panic z = false.
  Proof.
    intros Hz. unfold is_panic. apply N.eqb_neq. unfold zc.
    destruct (zs_in _ Hz) as (j & _ & _ & _ & [(a & x' & Z)|(g & y' & Z)]).
    - destruct Z as (_ & _ & Ec & _). rewrite Ec. pose proof (ccode_fst x') as Hx. cbn zeta in Hx. lia.
    - destruct Z as (_ & _ & Ec & _). rewrite Ec. pose proof (gcode_fst y') as Hy. cbn zeta in Hy. lia.
  Qed.

  (* clause 10: the model's callers return a value, Canceled or a callback's error: never status 12 / 13 *)
  Lemma cl10 z : In z zs -> is_ctxerr z = false.
  Proof.
    intros Hz. unfold is_ctxerr. apply orb_false_iff. split; apply N.eqb_neq; unfold zc.
    - destruct (zs_in _ Hz) as (j & _ & _ & _ & [(a & x' & Z)|(g & y' & Z)]).
      + destruct Z as (_ & _ & Ec & _). rewrite Ec. pose proof (ccode_fst x') as Hx. cbn zeta in Hx. lia.
      + destruct Z as (_ & _ & Ec & _). rewrite Ec. pose proof (gcode_fst y') as Hy. cbn zeta in Hy. lia.
    - destruct (zs_in _ Hz) as (j & _ & _ & _ & [(a & x' & Z)|(g & y' & Z)]).
      + destruct Z as (_ & _ & Ec & _). rewrite Ec. pose proof (ccode_fst x') as Hx. cbn zeta in Hx. lia.
      + destruct Z as (_ & _ & Ec & _). rewrite Ec. pose proof (gcode_fst y') as Hy. cbn zeta in Hy. lia.
  Qed.
End Clauses.

(* ------------------------------------------------------------------ the bookkeeping re-establishes the relation *)
Lemma combine_seq_nth {A} (l : list A) : forall b j k z, nth_error (combine (seq b (length l)) l) j = Some (k, z) ->
  k = b + j /\ nth_error l j = Some z.
Proof.
  induction l as [|x l IH]; intros b j k z H; [destruct j; discriminate|]. cbn [length seq combine] in H.
  destruct j as [|j]; cbn [nth_error] in *.
  - inversion H. split; [lia | reflexivity].
  - apply IH in H as [H1 H2]. split; [lia | exact H2].
Qed.

Lemma ccode_ret x : is_ret_code (fst (ccode x)) = is_cret (cp x).
Proof. unfold ccode. destruct (cp x) as [|p|r src]; try reflexivity. destruct r; reflexivity. Qed.

Lemma book_rel i A2 h h' succ1 :
  Mid i A2 h h' -> Inv (ms h') -> HS (ms h') -> HM h' -> srel succ1 A2 h' ->
  let zs := combine A2 (pairs (obs h')) in
  R {| mstepno := S i; macts := map (bk i zs) (combine (seq 0 (length zs)) zs) ++ skipn (length zs) A2; msucc := succ1 |} h'.
Proof.
  intros HMid HI' HS' HM' HSR zs.
  assert (Hlz : length zs = length A2).
  { unfold zs. rewrite combine_length, pairs_obs, map_length. destruct HMid as [HL _]. lia. }
  assert (Hl2 : length A2 = length (hmap h')) by (destruct HMid; assumption).
  assert (Hent : forall j mx', nth_error (map (bk i zs) (combine (seq 0 (length zs)) zs) ++ skipn (length zs) A2) j = Some mx' ->
                   exists z, nth_error zs j = Some z /\ mx' = bk i zs (j, z)).
  { intros j mx' H. rewrite Hlz, skipn_all, app_nil_r, <- Hlz in H. apply nth_error_map_inv in H as [[k z] [H ->]].
    apply combine_seq_nth in H as [-> H]. exists z. auto. }
  unfold R. cbn [mstepno macts msucc]. split; [|split].
  - rewrite app_length, map_length, combine_length, seq_length, Nat.min_id, Hlz, skipn_all. cbn [length]. lia.
  - intros j mx' hx G Gh. destruct (Hent _ _ G) as (z & Gz & ->).
    destruct (zs_nth i A2 h h' HMid _ _ Gz) as (G2 & Hb & Hz). split; [cbn [bk mborn fst snd]; lia|].
    destruct Hz as [(a & x' & Z)|(g & y' & Z)].
    + destruct Z as (Gh1 & Gx & Ec & Hcl & Hcc & Hr1 & _). rewrite Gh in Gh1. inversion Gh1; subst hx. cbn [arel].
      exists x'. split; [exact Gx|]. cbn [bk mcaller mcanc mretd fst snd]. split; [exact Hcl|]. split; [exact Hcc|].
      rewrite Hcl, Ec, ccode_ret. cbn [andb]. destruct (mretd (fst z)); [cbn [orb]; symmetry; now apply Hr1 | reflexivity].
    + pose proof Z as (Gh1 & Gy & Ec & [Hcl Hgr] & Hpub & Hst & Hts). rewrite Gh in Gh1. inversion Gh1; subst hx. cbn [arel].
      exists y'. split; [exact Gy|]. split; [split; [exact Hcl | exact Hgr]|].
      split; [|split; [exact Hst | exact Hts]].
      cbn [bk mpub fst snd]. destruct (mpub (fst z)) as [t|] eqn:Ep.
      * intros _. destruct Hpub as (y & r & _ & _ & Hy'); [congruence|]. eauto.
      * destruct (negb (mcaller (fst z)) && N.eqb (mout (fst z)) 2 &&
                  (N.eqb (fst (snd z)) 9 || err_ret zs (N.of_nat j + 1))) eqn:Eb; [|congruence]. intros _.
        apply andb_true_iff in Eb as [_ Eb]. apply orb_true_iff in Eb as [Eb|Eb].
        -- apply N.eqb_eq in Eb. rewrite Ec in Eb. unfold gcode in Eb. destruct (gp y'); cbn in Eb; try discriminate. eauto.
        -- unfold err_ret in Eb. apply existsb_exists in Eb as (z2 & Hz2 & Eb). apply andb_true_iff in Eb as [E5 Ev].
           apply N.eqb_eq in E5. apply N.eqb_eq in Ev.
           destruct (zs_in i A2 h h' HMid _ Hz2) as (j2 & _ & _ & _ & [(a2 & x2 & Z2)|(g2 & y2 & Z2)]).
           ++ destruct (z_err i A2 h h' HMid HI' HM' _ _ _ _ Z2 E5) as (p & yp & jp & gx & _ & Gyp & Eyp & Gjp & _ & _ & Ejp & _).
              rewrite Ev in Ejp. assert (jp = j) by lia. subst jp. rewrite Gh in Gjp. inversion Gjp; subst p.
              rewrite Gy in Gyp. inversion Gyp; subst yp. eauto.
           ++ exfalso. pose proof (z_gor_not_ret _ _ _ _ _ _ Z2) as Hn. unfold is_ret_code in Hn. rewrite E5 in Hn. discriminate.
  - destruct succ1 as [[v t]|]; cbn [srel] in *; [|exact HSR].
    destruct HSR as (g & s0 & HSu & HB). exists g, s0. split; [exact HSu|].
    intros j a mx' Gh G Ht. destruct (Hent _ _ G) as (z & Gz & ->).
    destruct (zs_nth i A2 h h' HMid _ _ Gz) as (G2 & _). cbn [bk mborn fst snd] in Ht. eapply HB; eauto.
Qed.

(* ------------------------------------------------------------------ one step, and the theorem *)
Lemma nnew_ok m h e h' : HR h -> R m h -> hdec h e h' -> is_some (msucc m) && Nat.ltb 0 (m_nnew m e (obs h')) = false.
Proof.
  intros (HI & HSs & HMh) (RL & RA & RS) D. destruct (msucc m) as [[v t]|]; [|reflexivity]. cbn [is_some andb srel] in *.
  destruct RS as (g & s0 & (_ & HP & _) & _). pose proof (hdec_shape _ _ _ D) as Hs.
  apply Nat.ltb_ge. unfold m_nnew. rewrite pairs_obs, map_length, (acts1_length m e Hs).
  destruct (hdec_hmap _ _ _ D) as [(Eh & Hne & _)|[(c & -> & Eh)|(i & ch & -> & EP & Eh)]].
  - rewrite Eh. lia.
  - rewrite Eh, app_length. cbn [length]. lia.
  - congruence.
Qed.

(* clause 11: a caller whose context was cancelled before the step and that is let run from gate 1 has returned *)
Lemma cl11 m h e h' : HR h -> R m h -> hdec h e h' -> m_f11 m e (obs h') = false.
Proof.
  intros (HI & HSs & HMh) (RL & RA & RS) D. unfold m_f11.
  destruct (hdec_shape _ _ _ D) as [[c ->]|[(i & ch & ->)|[[i ->]|(i & k & ->)]]]; try reflexivity.
  destruct (nth_error (macts m) (N.to_nat i)) as [mx|] eqn:Gm; [|reflexivity].
  destruct (nth_error (pairs (obs h')) (N.to_nat i)) as [p|] eqn:Gp; [|reflexivity].
  destruct (mcaller mx) eqn:Ecl; [|reflexivity]. destruct (mcanc mx) eqn:Ecc; [|reflexivity]. cbn [andb].
  apply N.eqb_neq.
  destruct (nth_error (hmap h) (N.to_nat i)) as [hx|] eqn:Gh;
    [|apply nth_error_None in Gh; apply nth_error_nth_len in Gm; lia].
  destruct (RA _ _ _ Gm Gh) as [_ Ha]. destruct hx as [a|g]; cbn [arel] in Ha.
  - destruct Ha as (x & Gx & _ & A2 & _).
    assert (Hc : ctx_cancelled (ms h) a = true) by (unfold ctx_cancelled; rewrite Gx; congruence).
    destruct (hdec_cancelled_ret _ _ _ _ _ D Gh Hc) as (x' & Gx' & Hr).
    rewrite pairs_obs in Gp. apply nth_error_map_inv in Gp as [hx' [Gh' ->]].
    rewrite (hdec_hmap_prefix _ _ _ _ _ D Gh) in Gh'. inversion Gh'; subst hx'. cbn [codep]. rewrite Gx'.
    unfold ccode. destruct (cp x') as [| |r src]; try discriminate. destruct r; discriminate.
  - destruct Ha as (y & _ & [Hcl _] & _). congruence.
Qed.

Lemma mon_step m h e h' o : HR h -> R m h -> hstep h e = Some (h', o) ->
  exists m', mon_once m e o = (m', []) /\ R m' h' /\ HR h'.
Proof.
  intros HRh HRm Hst. apply hstep_hdec in Hst as [D ->]. pose proof HRh as (HI & HSs & HMh).
  pose proof (hdec_inv _ _ _ D HI) as HI'. pose proof (hdec_HS _ _ _ D HI HSs) as HS'. pose proof (hdec_HM _ _ _ D HMh) as HM'.
  pose proof (mid_of_step _ _ _ _ HRh HRm D) as HMid. pose proof (srel_step _ _ _ _ HRh HRm D) as HSR.
  rewrite mon_once_eq. cbv zeta.
  rewrite (nnew_ok _ _ _ _ HRh HRm D).
  set (A2 := m_acts2 m e (obs h')) in *. set (succ1 := m_succ1 m e) in *.
  rewrite (cl1 _ _ _ _ HMid HI' HM').
  rewrite (existsb_filter_false (bad_val succ1) is_newly) by (intros z Hz _; exact (cl2_val _ _ _ _ _ HMid HI' HSR z Hz)).
  rewrite (existsb_filter_false (bad_later succ1) is_newly) by (intros z Hz Hn; exact (cl2_later _ _ _ _ _ HMid HI' HSR z Hz Hn)).
  rewrite (existsb_filter_false (bad_err A2) is_newly) by (intros z Hz Hn; exact (cl3 _ _ _ _ HMid HI' HM' z Hz Hn)).
  rewrite (existsb_filter_false bad_canc is_newly) by (intros z Hz _; exact (cl4 _ _ _ _ HMid HI' z Hz)).
  rewrite (existsb_false_intro is_cblocked) by (intros z Hz; exact (cl5a _ _ _ _ HMid HS' z Hz)).
  rewrite (cl5b _ _ _ _ HMid HI' HS' HM').
  rewrite (existsb_false_intro is_panic) by (intros z Hz; exact (cl8 _ _ _ _ HMid z Hz)).
  rewrite (existsb_filter_false (bad_taint A2) is_newly) by (intros z Hz _; exact (cl9 _ _ _ _ HMid HI' HM' z Hz)).
  rewrite (existsb_false_intro is_ctxerr) by (intros z Hz; exact (cl10 _ _ _ _ HMid z Hz)).
  rewrite (cl11 _ _ _ _ HRh HRm D).
  cbn [orb app]. eexists. split; [reflexivity|]. split; [|exact (conj HI' (conj HS' HM'))].
  exact (book_rel _ _ _ _ _ HMid HI' HS' HM' HSR).
Qed.

Theorem model_satisfies_monitors_gen evs : forall h m i rep, HR h -> R m h ->
  monitor mon_once i m rep evs (run_obs hstep h evs) = [].
Proof.
  induction evs as [|e evs IH]; intros h m i rep Hh Hm; [reflexivity|].
  cbn [run_obs]. destruct (hstep h e) as [[h' o]|] eqn:E; [|reflexivity].
  destruct (mon_step m h e h' o Hh Hm E) as (m' & Em & Hm' & Hh').
  cbn [monitor]. rewrite Em. cbn [filter map app]. apply IH; assumption.
Qed.

Lemma HR_init : HR hinit.
Proof. split; [apply init_inv|]. split; [apply HS_init | apply HM_init]. Qed.

Lemma R_init : R monit hinit.
Proof.
  split; [reflexivity|]. split; [intros j mx hx H; destruct j; discriminate|].
  cbn [srel msucc monit]. intros g v [y [G _]]. destruct g; discriminate.
Qed.

(* the monitors of C16 report nothing on the model's own observations, for every event list *)
Theorem model_satisfies_monitors evs : monitor mon_once 0 monit [] evs (run_obs hstep hinit evs) = [].
Proof. apply model_satisfies_monitors_gen; [apply HR_init | apply R_init]. Qed.

Lemma list_eqb_refl l : list_eqb l l = true.
Proof. induction l as [|x t IH]; [reflexivity|]. cbn [list_eqb]. now rewrite N.eqb_refl, IH. Qed.

Lemma replay_own {state} (step : state -> list N -> option (state * list N)) evs : forall s i,
  length (run_obs step s evs) = length evs -> replay step i s evs (run_obs step s evs) = [].
Proof.
  induction evs as [|e evs IH]; intros s i Hl; [reflexivity|]. cbn [run_obs replay] in *.
  destruct (step s e) as [[s' o]|]; [|discriminate Hl]. cbn [length] in Hl. rewrite list_eqb_refl. apply IH. lia.
Qed.

(* hence the whole checker accepts every history the model itself produces (cfg is ignored by run_check_once) *)
Theorem model_run_check_clean cfg evs :
  length (run_obs hstep hinit evs) = length evs -> run_check_once cfg evs (run_obs hstep hinit evs) = [].
Proof.
  intros Hl. unfold run_check_once, run_check. rewrite (replay_own hstep evs hinit 0 Hl), model_satisfies_monitors. reflexivity.
Qed.
