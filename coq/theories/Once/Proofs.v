(* Proofs about the Once / MemoizeFunc models (C16). *)
From Util Require Import Common.Base Common.ListLemmas Once.Model Once.Spec.

(* ------------------------------------------------------------------ generic *)
Lemma uniq_cnt_le1 {A} (P : A -> bool) (l : list A) :
  (forall i j x y, nth_error l i = Some x -> nth_error l j = Some y -> P x = true -> P y = true -> i = j) ->
  cnt P l <= 1.
Proof.
  induction l as [|h t IH]; intros H; [unfold cnt; simpl; lia|].
  rewrite cnt_cons. destruct (P h) eqn:Eh; cbn [b2n].
  - assert (Hz : cnt P t = 0).
    { apply cnt_zero_forall. intros a Ha. destruct (P a) eqn:Ea; [|reflexivity].
      apply In_nth_error in Ha as [k Hk]. specialize (H 0 (S k) h a eq_refl Hk Eh Ea). discriminate. }
    lia.
  - apply IH. intros i j x y Hi Hj Hx Hy. specialize (H (S i) (S j) x y Hi Hj Hx Hy). lia.
Qed.

Lemma nth_error_app_new {A} (l : list A) (y : A) k x :
  nth_error (l ++ [y]) k = Some x -> (k < length l /\ nth_error l k = Some x) \/ (k = length l /\ x = y).
Proof.
  intros H. destruct (Nat.lt_ge_cases k (length l)) as [Hl|Hl].
  - left. split; [exact Hl|]. now rewrite nth_error_app1 in H.
  - right. rewrite nth_error_app2 in H by lia. destruct (k - length l) as [|n] eqn:E; simpl in H.
    + split; [lia | congruence].
    + destruct n; discriminate.
Qed.

(* ------------------------------------------------------------------ Once: lookups *)
Lemma setc_lookup s a p k x' :
  nth_error (setc s a p) k = Some x' ->
  (k <> a /\ nth_error (cs s) k = Some x') \/
  (k = a /\ exists x, nth_error (cs s) a = Some x /\ x' = {| cp := p; cc := cc x |}).
Proof.
  unfold setc. destruct (nth_error (cs s) a) as [x|] eqn:G.
  - destruct (Nat.eq_dec k a) as [->|Hne].
    + rewrite nth_error_set_nth_same by (eapply nth_error_nth_len; eauto). intros H; inversion H. right. split; [reflexivity|]. now exists x.
    + rewrite nth_error_set_nth_other by exact Hne. intros H. left. now split.
  - intros H. destruct (Nat.eq_dec k a) as [->|Hne]; [congruence | now left].
Qed.

Lemma setg_lookup s g p k y' :
  nth_error (setg s g p) k = Some y' ->
  (k <> g /\ nth_error (gs s) k = Some y') \/
  (k = g /\ exists y, nth_error (gs s) g = Some y /\ y' = {| gp := p; gsp := gsp y |}).
Proof.
  unfold setg. destruct (nth_error (gs s) g) as [y|] eqn:G.
  - destruct (Nat.eq_dec k g) as [->|Hne].
    + rewrite nth_error_set_nth_same by (eapply nth_error_nth_len; eauto). intros H; inversion H. right. split; [reflexivity|]. now exists y.
    + rewrite nth_error_set_nth_other by exact Hne. intros H. left. now split.
  - intros H. destruct (Nat.eq_dec k g) as [->|Hne]; [congruence | now left].
Qed.

Lemma setg_length s g p : length (setg s g p) = length (gs s).
Proof. unfold setg. destruct (nth_error (gs s) g); [apply length_set_nth | reflexivity]. Qed.
Lemma setc_length s a p : length (setc s a p) = length (cs s).
Proof. unfold setc. destruct (nth_error (cs s) a); [apply length_set_nth | reflexivity]. Qed.

Lemma setg_same s g p y : nth_error (gs s) g = Some y -> nth_error (setg s g p) g = Some {| gp := p; gsp := gsp y |}.
Proof. intros G. unfold setg. rewrite G. apply nth_error_set_nth_same. eapply nth_error_nth_len; eauto. Qed.
Lemma setg_other s g p k : k <> g -> nth_error (setg s g p) k = nth_error (gs s) k.
Proof. intros H. unfold setg. destruct (nth_error (gs s) g); [now apply nth_error_set_nth_other | reflexivity]. Qed.
Lemma setc_same s a p x : nth_error (cs s) a = Some x -> nth_error (setc s a p) a = Some {| cp := p; cc := cc x |}.
Proof. intros G. unfold setc. rewrite G. apply nth_error_set_nth_same. eapply nth_error_nth_len; eauto. Qed.
Lemma setc_other s a p k : k <> a -> nth_error (setc s a p) k = nth_error (cs s) k.
Proof. intros H. unfold setc. destruct (nth_error (cs s) a); [now apply nth_error_set_nth_other | reflexivity]. Qed.

(* done_res only looks at the goroutine table *)
Definition dres (l : list gor) (p : nat) : option res :=
  match nth_error l p with
  | Some y => match gp y with GDone r => Some r | _ => None end
  | None => None
  end.
Lemma done_res_dres s p : done_res s p = dres (gs s) p.
Proof. reflexivity. Qed.

Lemma dres_lt l p r : dres l p = Some r -> p < length l.
Proof. unfold dres. destruct (nth_error l p) eqn:E; [|discriminate]. intros _. eapply nth_error_nth_len; eauto. Qed.

Lemma dres_app l y p r : dres l p = Some r -> dres (l ++ [y]) p = Some r.
Proof. intros H. pose proof (dres_lt _ _ _ H) as Hl. unfold dres in *. now rewrite nth_error_app1 by exact Hl. Qed.

(* changing a goroutine that is not finished to another pc keeps every finished result *)
Lemma dres_setg s g q p r y :
  nth_error (gs s) g = Some y -> (forall r0, gp y <> GDone r0) ->
  dres (gs s) p = Some r -> dres (setg s g q) p = Some r.
Proof.
  intros G Hnd H. destruct (Nat.eq_dec p g) as [->|Hne].
  - unfold dres in H. rewrite G in H. destruct (gp y) eqn:E; try discriminate. exfalso. eapply Hnd; eauto.
  - unfold dres in *. now rewrite setg_other by exact Hne.
Qed.

Lemma is_ok_final s y o : is_ok (final_res s y o) = is_ok o.
Proof. unfold final_res. destruct o; cbn [is_ok]; try reflexivity; destruct (ctx_cancelled s (gsp y)); reflexivity. Qed.

(* ------------------------------------------------------------------ Once: the invariant *)
Definition Inv (s : st) : Prop :=
  (* the current promise is exactly the one whose goroutine "holds" *)
  (forall g y, nth_error (gs s) g = Some y -> holds y = true -> prom s = Some g) /\
  (forall g, prom s = Some g -> S g = length (gs s) /\ exists y, nth_error (gs s) g = Some y /\ holds y = true) /\
  (forall g y o, nth_error (gs s) g = Some y -> gp y = GClear o -> is_ok o = false) /\
  (forall a x p, nth_error (cs s) a = Some x -> cp x = CAwait p -> p < length (gs s)) /\
  (forall a x src, nth_error (cs s) a = Some x -> cp x = CRet RCanceled src -> cc x = true) /\
  (forall a x r p, nth_error (cs s) a = Some x -> cp x = CRet r (Some p) -> dres (gs s) p = Some r) /\
  (forall a x r, nth_error (cs s) a = Some x -> cp x = CRet r None -> r = RCanceled).

Lemma init_inv : Inv init.
Proof.
  unfold Inv, init; cbn [prom cs gs]. repeat split; try (intros [|?]; intros; discriminate).
  all: intros; discriminate.
Qed.

Ltac inv_names HI := destruct HI as (I1 & I2 & I3 & I4 & I5 & I6 & I7).

Lemma step_inv s e : Inv s -> Inv (step s e).
Proof.
  intros HI0.
  destruct e as [pre|a|a|a|a|g o|g]; cbn [step].
  - (* Resolve *)
    pose proof HI0 as HI; inv_names HI.
    unfold Inv; cbn [prom cs gs]. repeat split; try assumption; try (apply I2; assumption).
    + intros a x p Hk Hp. apply nth_error_app_new in Hk as [[_ Hk]|[_ ->]]; [eauto|]. cbn [cp] in Hp. destruct pre; discriminate.
    + intros a x src Hk Hp. apply nth_error_app_new in Hk as [[_ Hk]|[_ ->]]; [eauto|]. cbn [cp cc] in *. destruct pre; [reflexivity | discriminate].
    + intros a x r p Hk Hp. apply nth_error_app_new in Hk as [[_ Hk]|[_ ->]]; [eauto|]. cbn [cp] in Hp. destruct pre; discriminate.
    + intros a x r Hk Hp. apply nth_error_app_new in Hk as [[_ Hk]|[_ ->]]; [eauto|]. cbn [cp] in Hp. destruct pre; [congruence | discriminate].
  - (* Sect *)
    destruct (nth_error (cs s) a) as [x|] eqn:G; [|exact HI0].
    destruct (cp x) eqn:Ep; try exact HI0.
    destruct (prom s) as [p|] eqn:EP; pose proof HI0 as HI; inv_names HI.
    + unfold Inv; cbn [prom cs gs]. rewrite <- EP. repeat split; try assumption; try (apply I2; assumption).
      * intros k z q Hk Hp. destruct (setc_lookup _ _ _ _ _ Hk) as [[_ H1]|[_ [z0 [_ ->]]]]; [eauto|].
        cbn [cp] in Hp. inversion Hp; subst q. destruct (I2 p EP) as [Hl _]. lia.
      * intros k z src Hk Hp. destruct (setc_lookup _ _ _ _ _ Hk) as [[_ H1]|[_ [z0 [_ ->]]]]; [eauto | discriminate].
      * intros k z r q Hk Hp. destruct (setc_lookup _ _ _ _ _ Hk) as [[_ H1]|[_ [z0 [_ ->]]]]; [eauto | discriminate].
      * intros k z r Hk Hp. destruct (setc_lookup _ _ _ _ _ Hk) as [[_ H1]|[_ [z0 [_ ->]]]]; [eauto | discriminate].
    + unfold Inv; cbn [prom cs gs]. repeat split.
      * intros g y Hk Hh. apply nth_error_app_new in Hk as [[_ Hk]|[-> _]]; [|reflexivity].
        specialize (I1 g y Hk Hh). congruence.
      * inversion H; subst g. rewrite app_length. cbn. lia.
      * inversion H; subst g. exists {| gp := GInCb (cc x); gsp := a |}. split; [|reflexivity].
        rewrite nth_error_app2 by lia. now rewrite Nat.sub_diag.
      * intros g y o Hk Hp. apply nth_error_app_new in Hk as [[_ Hk]|[_ ->]]; [eauto | discriminate].
      * intros k z q Hk Hp. rewrite app_length. cbn [length].
        destruct (setc_lookup _ _ _ _ _ Hk) as [[_ H1]|[_ [z0 [_ ->]]]].
        -- specialize (I4 _ _ _ H1 Hp). lia.
        -- cbn [cp] in Hp. inversion Hp. lia.
      * intros k z src Hk Hp. destruct (setc_lookup _ _ _ _ _ Hk) as [[_ H1]|[_ [z0 [_ ->]]]]; [eauto | discriminate].
      * intros k z r q Hk Hp. destruct (setc_lookup _ _ _ _ _ Hk) as [[_ H1]|[_ [z0 [_ ->]]]]; [|discriminate].
        apply dres_app. eauto.
      * intros k z r Hk Hp. destruct (setc_lookup _ _ _ _ _ Hk) as [[_ H1]|[_ [z0 [_ ->]]]]; [eauto | discriminate].
  - (* WakeDone *)
    destruct (nth_error (cs s) a) as [x|] eqn:G; [|exact HI0].
    destruct (cp x) eqn:Ep; try exact HI0.
    destruct (done_res s p) as [r|] eqn:ED; [|exact HI0].
    pose proof HI0 as HI; inv_names HI.
    unfold Inv; cbn [prom cs gs]. repeat split; try assumption; try (apply I2; assumption).
    + intros k z q Hk Hp. destruct (setc_lookup _ _ _ _ _ Hk) as [[_ H1]|[_ [z0 [_ ->]]]]; [eauto|].
      cbn [cp] in Hp. destruct r; try discriminate. destruct (cc x); discriminate.
    + intros k z src Hk Hp. destruct (setc_lookup _ _ _ _ _ Hk) as [[_ H1]|[_ [z0 [Hz ->]]]]; [eauto|].
      cbn [cp cc] in *. rewrite G in Hz. inversion Hz; subst z0. destruct r; try discriminate. destruct (cc x); [reflexivity | discriminate].
    + intros k z r0 q Hk Hp. destruct (setc_lookup _ _ _ _ _ Hk) as [[_ H1]|[_ [z0 [Hz ->]]]]; [eauto|].
      cbn [cp] in Hp. rewrite done_res_dres in ED.
      destruct r; try (inversion Hp; subst; exact ED). destruct (cc x); [inversion Hp; subst; exact ED | discriminate].
    + intros k z r0 Hk Hp. destruct (setc_lookup _ _ _ _ _ Hk) as [[_ H1]|[_ [z0 [Hz ->]]]]; [eauto|].
      cbn [cp] in Hp. destruct r; try discriminate. destruct (cc x); discriminate.
  - (* WakeCtx *)
    destruct (nth_error (cs s) a) as [x|] eqn:G; [|exact HI0].
    destruct (cp x) eqn:Ep; try exact HI0.
    destruct (cc x) eqn:Ec; [|exact HI0].
    pose proof HI0 as HI; inv_names HI.
    unfold Inv; cbn [prom cs gs]. repeat split; try assumption; try (apply I2; assumption).
    + intros k z q Hk Hp. destruct (setc_lookup _ _ _ _ _ Hk) as [[_ H1]|[_ [z0 [_ ->]]]]; [eauto | discriminate].
    + intros k z src Hk Hp. destruct (setc_lookup _ _ _ _ _ Hk) as [[_ H1]|[_ [z0 [Hz ->]]]]; [eauto|].
      cbn [cc]. rewrite G in Hz. inversion Hz; subst z0. exact Ec.
    + intros k z r0 q Hk Hp. destruct (setc_lookup _ _ _ _ _ Hk) as [[_ H1]|[_ [z0 [Hz ->]]]]; [eauto | discriminate].
    + intros k z r0 Hk Hp. destruct (setc_lookup _ _ _ _ _ Hk) as [[_ H1]|[_ [z0 [Hz ->]]]]; [eauto|].
      cbn [cp] in Hp. congruence.
  - (* CancelCtx *)
    destruct (nth_error (cs s) a) as [x|] eqn:G; [|exact HI0].
    pose proof HI0 as HI; inv_names HI.
    assert (Hl : a < length (cs s)) by (eapply nth_error_nth_len; eauto).
    assert (Hlk : forall k z, nth_error (set_nth (cs s) a {| cp := cp x; cc := true |}) k = Some z ->
                    exists z0, nth_error (cs s) k = Some z0 /\ cp z = cp z0 /\ (cc z0 = true -> cc z = true) /\ (k = a -> cc z = true)).
    { intros k z Hk. destruct (Nat.eq_dec k a) as [->|Hne].
      - rewrite nth_error_set_nth_same in Hk by exact Hl. inversion Hk; subst z. exists x. cbn. repeat split; auto.
      - rewrite nth_error_set_nth_other in Hk by exact Hne. exists z. repeat split; auto. }
    unfold Inv; cbn [prom cs gs]. repeat split; try assumption; try (apply I2; assumption).
    + intros k z q Hk Hp. destruct (Hlk _ _ Hk) as [z0 [H0 [Hc _]]]. rewrite Hc in Hp. eauto.
    + intros k z src Hk Hp. destruct (Hlk _ _ Hk) as [z0 [H0 [Hc [Hm _]]]]. rewrite Hc in Hp. apply Hm. eauto.
    + intros k z r q Hk Hp. destruct (Hlk _ _ Hk) as [z0 [H0 [Hc _]]]. rewrite Hc in Hp. eauto.
    + intros k z r Hk Hp. destruct (Hlk _ _ Hk) as [z0 [H0 [Hc _]]]. rewrite Hc in Hp. eauto.
  - (* CbReturn *)
    destruct (nth_error (gs s) g) as [y|] eqn:G; [|exact HI0].
    destruct (gp y) eqn:Ep; try exact HI0.
    pose proof HI0 as HI; inv_names HI.
    assert (Hh : holds y = true) by (unfold holds; now rewrite Ep).
    unfold Inv; cbn [prom cs gs]. rewrite setg_length. repeat split; try assumption.
    + intros k z Hk Hz. destruct (setg_lookup _ _ _ _ _ Hk) as [[_ H1]|[-> _]]; eauto.
    + apply I2; assumption.
    + destruct (I2 _ H) as [_ [y0 [Hy0 Hh0]]]. destruct (Nat.eq_dec g0 g) as [->|Hne].
      * eexists. split; [apply setg_same; exact G|]. unfold holds; cbn [gp]. destruct (is_ok o) eqn:Eo; [exact Eo | reflexivity].
      * exists y0. split; [now rewrite setg_other | exact Hh0].
    + intros k z o0 Hk Hp. destruct (setg_lookup _ _ _ _ _ Hk) as [[_ H1]|[_ [z0 [_ ->]]]]; [eauto|].
      cbn [gp] in Hp. destruct (is_ok o) eqn:Eo; [discriminate | congruence].
    + intros k z r q Hk Hp. eapply dres_setg; eauto. intros r0. congruence.
  - (* GStep *)
    destruct (nth_error (gs s) g) as [y|] eqn:G; [|exact HI0].
    destruct (gp y) eqn:Ep; try exact HI0; pose proof HI0 as HI; inv_names HI.
    + (* clear section *)
      assert (Hh : holds y = true) by (unfold holds; now rewrite Ep).
      pose proof (I1 _ _ G Hh) as EP. pose proof (I3 _ _ _ G Ep) as Eo.
      unfold Inv; cbn [prom cs gs]. rewrite EP, Nat.eqb_refl, setg_length. repeat split; try assumption; try discriminate.
      * intros k z Hk Hz. destruct (setg_lookup _ _ _ _ _ Hk) as [[Hne H1]|[_ [z0 [_ ->]]]].
        -- specialize (I1 _ _ H1 Hz). congruence.
        -- unfold holds in Hz; cbn [gp] in Hz. congruence.
      * intros k z o0 Hk Hp. destruct (setg_lookup _ _ _ _ _ Hk) as [[_ H1]|[_ [z0 [_ ->]]]]; [eauto | discriminate].
      * intros k z r q Hk Hp. eapply dres_setg; eauto. intros r0. congruence.
    + (* SetResult *)
      unfold Inv; cbn [prom cs gs]. rewrite setg_length. repeat split; try assumption.
      * intros k z Hk Hz. destruct (setg_lookup _ _ _ _ _ Hk) as [[_ H1]|[-> [z0 [Hz0 ->]]]]; [eauto|].
        unfold holds in Hz; cbn [gp] in Hz. rewrite is_ok_final in Hz. apply (I1 _ y G). unfold holds. now rewrite Ep.
      * apply I2; assumption.
      * destruct (I2 _ H) as [_ [y0 [Hy0 Hh0]]]. destruct (Nat.eq_dec g0 g) as [->|Hne].
        -- eexists. split; [apply setg_same; exact G|]. unfold holds; cbn [gp]. rewrite is_ok_final.
           rewrite G in Hy0. inversion Hy0; subst y0. unfold holds in Hh0. now rewrite Ep in Hh0.
        -- exists y0. split; [now rewrite setg_other | exact Hh0].
      * intros k z o0 Hk Hp. destruct (setg_lookup _ _ _ _ _ Hk) as [[_ H1]|[_ [z0 [_ ->]]]]; [eauto | discriminate].
      * intros k z r q Hk Hp. eapply dres_setg; eauto. intros r0. congruence.
    + (* publish: fields written, done closed *)
      unfold Inv; cbn [prom cs gs]. rewrite setg_length. repeat split; try assumption.
      * intros k z Hk Hz. destruct (setg_lookup _ _ _ _ _ Hk) as [[_ H1]|[-> [z0 [Hz0 ->]]]]; [eauto|].
        unfold holds in Hz; cbn [gp] in Hz. apply (I1 _ y G). unfold holds. now rewrite Ep.
      * apply I2; assumption.
      * destruct (I2 _ H) as [_ [y0 [Hy0 Hh0]]]. destruct (Nat.eq_dec g0 g) as [->|Hne].
        -- eexists. split; [apply setg_same; exact G|]. unfold holds; cbn [gp].
           rewrite G in Hy0. inversion Hy0; subst y0. unfold holds in Hh0. now rewrite Ep in Hh0.
        -- exists y0. split; [now rewrite setg_other | exact Hh0].
      * intros k z o0 Hk Hp. destruct (setg_lookup _ _ _ _ _ Hk) as [[_ H1]|[_ [z0 [_ ->]]]]; [eauto | discriminate].
      * intros k z r0 q Hk Hp. eapply dres_setg; eauto. intros r1. congruence.
Qed.

Theorem run_inv es : Inv (run es).
Proof. unfold run. apply fold_inv; [apply step_inv | apply init_inv]. Qed.

Lemma run_app es es' : run (es ++ es') = fold_left step es' (run es).
Proof. unfold run. apply fold_left_app. Qed.

Lemma fold_inv_from s es : Inv s -> Inv (fold_left step es s).
Proof. apply fold_inv. apply step_inv. Qed.

(* ------------------------------------------------------------------ at most one callback in user code *)
Lemma in_cb_holds y : in_cb y = true -> holds y = true.
Proof. unfold in_cb, holds. destruct (gp y); auto; discriminate. Qed.

Lemma holds_unique s : Inv s -> forall g1 g2 y1 y2,
  nth_error (gs s) g1 = Some y1 -> nth_error (gs s) g2 = Some y2 -> holds y1 = true -> holds y2 = true -> g1 = g2.
Proof.
  intros HI g1 g2 y1 y2 H1 H2 Hh1 Hh2. inv_names HI.
  pose proof (I1 _ _ H1 Hh1) as E1. pose proof (I1 _ _ H2 Hh2) as E2. congruence.
Qed.

Theorem at_most_one_cb es :
  let s := run es in
  cnt in_cb (gs s) <= 1 /\ cnt holds (gs s) <= 1 /\
  forall g y, nth_error (gs s) g = Some y -> in_cb y = true -> prom s = Some g /\ done_res s g = None.
Proof.
  cbn. pose proof (run_inv es) as HI. split; [|split].
  - apply uniq_cnt_le1. intros i j x y Hi Hj Hx Hy. eapply holds_unique; eauto using in_cb_holds.
  - apply uniq_cnt_le1. intros i j x y Hi Hj Hx Hy. eapply holds_unique; eauto.
  - intros g y G Hc. inv_names HI. split; [apply (I1 _ _ G (in_cb_holds _ Hc))|].
    unfold done_res. rewrite G. unfold in_cb in Hc. destruct (gp y); try discriminate; reflexivity.
Qed.

(* a new callback is entered only by a section that finds no current promise; then no other goroutine holds *)
Theorem cb_entry_needs_no_current s a : Inv s ->
  length (gs (step s (Sect a))) <> length (gs s) -> prom s = None /\ cnt holds (gs s) = 0.
Proof.
  intros HI. cbn [step]. destruct (nth_error (cs s) a) as [x|]; [|congruence].
  destruct (cp x); try congruence. destruct (prom s) as [p|] eqn:EP; cbn [gs]; [congruence|].
  intros _. split; [reflexivity|]. apply cnt_zero_forall. intros y Hy. destruct (holds y) eqn:Eh; [|reflexivity].
  apply In_nth_error in Hy as [k Hk]. inv_names HI. specialize (I1 _ _ Hk Eh). congruence.
Qed.

(* ------------------------------------------------------------------ success is final *)
Definition late (s0 : st) (g : nat) (a : nat) : Prop :=
  length (cs s0) <= a \/ exists x, nth_error (cs s0) a = Some x /\ (cp x = CGate \/ cp x = CAwait g).

Definition SuccRel (s0 : st) (g : nat) (v : N) (s : st) : Prop :=
  Inv s /\ prom s = Some g /\ succeeded s g v /\ length (gs s) = length (gs s0) /\ length (cs s0) <= length (cs s) /\
  forall a x, nth_error (cs s) a = Some x -> late s0 g a ->
    cp x = CGate \/ cp x = CAwait g \/ cp x = CRet (RVal v) (Some g) \/ (exists src, cp x = CRet RCanceled src).

Lemma succeeded_prom s g v : Inv s -> succeeded s g v -> prom s = Some g.
Proof.
  intros HI [y [G Hy]]. inv_names HI. apply (I1 _ _ G). unfold holds. destruct Hy as [-> | [-> | ->]]; reflexivity.
Qed.

Lemma succrel_init s g v : Inv s -> succeeded s g v -> SuccRel s g v s.
Proof.
  intros HI HS. unfold SuccRel.
  refine (conj HI (conj _ (conj HS (conj eq_refl (conj (le_n _) _))))); [eapply succeeded_prom; eauto|].
  intros a x G [Hl | [x0 [G0 Hx0]]].
  - apply nth_error_nth_len in G. lia.
  - rewrite G in G0. inversion G0; subst x0. destruct Hx0; auto.
Qed.

Lemma succrel_step s0 g v s e : SuccRel s0 g v s -> SuccRel s0 g v (step s e).
Proof.
  intros (HI & HP & HS & HLg & HLc & HL).
  assert (HI' : Inv (step s e)) by (apply step_inv; exact HI).
  pose proof HS as HS0. destruct HS as [yg [Gg Hyg]].
  unfold SuccRel. split; [exact HI'|]. clear HI'.
  assert (Hsame : prom s = Some g /\ succeeded s g v /\ length (gs s) = length (gs s0) /\ length (cs s0) <= length (cs s) /\
                  forall a x, nth_error (cs s) a = Some x -> late s0 g a ->
                    cp x = CGate \/ cp x = CAwait g \/ cp x = CRet (RVal v) (Some g) \/ (exists src, cp x = CRet RCanceled src))
    by (refine (conj HP (conj HS0 (conj HLg (conj HLc HL))))).
  destruct e as [pre|a|a|a|a|g' o|g']; cbn [step].
  - (* Resolve *)
    cbn [prom cs gs]. refine (conj HP (conj HS0 (conj HLg (conj _ _)))).
    + rewrite app_length. cbn. lia.
    + intros a x Hk Hl. apply nth_error_app_new in Hk as [[_ Hk]|[_ ->]]; [eauto|].
      cbn [cp]. destruct pre; [right; right; right; eauto | left; reflexivity].
  - (* Sect *)
    destruct (nth_error (cs s) a) as [x|] eqn:G; [|exact Hsame].
    destruct (cp x) eqn:Ep; try exact Hsame.
    rewrite HP. cbn [prom cs gs]. refine (conj eq_refl (conj HS0 (conj HLg (conj _ _)))).
    + rewrite setc_length. exact HLc.
    + intros k z Hk Hl. destruct (setc_lookup _ _ _ _ _ Hk) as [[_ H1]|[_ [z0 [_ ->]]]]; [eauto|]. cbn [cp]. auto.
  - (* WakeDone *)
    destruct (nth_error (cs s) a) as [x|] eqn:G; [|exact Hsame].
    destruct (cp x) eqn:Ep; try exact Hsame.
    destruct (done_res s p) as [r|] eqn:ED; [|exact Hsame].
    cbn [prom cs gs]. refine (conj HP (conj HS0 (conj HLg (conj _ _)))).
    + rewrite setc_length. exact HLc.
    + intros k z Hk Hl. destruct (setc_lookup _ _ _ _ _ Hk) as [[_ H1]|[-> [z0 [Hz0 ->]]]]; [eauto|]. cbn [cp].
      destruct (HL _ _ G Hl) as [H|[H|[H|[src H]]]]; rewrite Ep in H; try discriminate.
      inversion H; subst p. unfold done_res in ED. rewrite Gg in ED.
      destruct Hyg as [Hy|[Hy|Hy]]; rewrite Hy in ED; try discriminate. inversion ED; subst r. auto.
  - (* WakeCtx *)
    destruct (nth_error (cs s) a) as [x|] eqn:G; [|exact Hsame].
    destruct (cp x) eqn:Ep; try exact Hsame.
    destruct (cc x) eqn:Ec; [|exact Hsame].
    cbn [prom cs gs]. refine (conj HP (conj HS0 (conj HLg (conj _ _)))).
    + rewrite setc_length. exact HLc.
    + intros k z Hk Hl. destruct (setc_lookup _ _ _ _ _ Hk) as [[_ H1]|[-> [z0 [Hz0 ->]]]]; [eauto|]. cbn [cp]. eauto.
  - (* CancelCtx *)
    destruct (nth_error (cs s) a) as [x|] eqn:G; [|exact Hsame].
    cbn [prom cs gs]. refine (conj HP (conj HS0 (conj HLg (conj _ _)))).
    + rewrite length_set_nth. exact HLc.
    + intros k z Hk Hl. destruct (Nat.eq_dec k a) as [->|Hne].
      * rewrite nth_error_set_nth_same in Hk by (eapply nth_error_nth_len; eauto). inversion Hk; subst z. cbn [cp]. eauto.
      * rewrite nth_error_set_nth_other in Hk by exact Hne. eauto.
  - (* CbReturn: impossible, no callback is running *)
    destruct (nth_error (gs s) g') as [y|] eqn:G; [|exact Hsame].
    destruct (gp y) eqn:Ep; try exact Hsame.
    exfalso. pose proof HI as HIc. inv_names HIc.
    assert (Hh : holds y = true) by (unfold holds; now rewrite Ep).
    pose proof (I1 _ _ G Hh) as E. rewrite HP in E. inversion E; subst g'. rewrite Gg in G. inversion G; subst y.
    destruct Hyg as [Hy|[Hy|Hy]]; rewrite Hy in Ep; discriminate.
  - (* GStep *)
    destruct (nth_error (gs s) g') as [y|] eqn:G; [|exact Hsame].
    destruct (gp y) eqn:Ep; try exact Hsame.
    + exfalso. pose proof HI as HIc. inv_names HIc.
      assert (Hh : holds y = true) by (unfold holds; now rewrite Ep).
      pose proof (I1 _ _ G Hh) as E. rewrite HP in E. inversion E; subst g'. rewrite Gg in G. inversion G; subst y.
      destruct Hyg as [Hy|[Hy|Hy]]; rewrite Hy in Ep; discriminate.
    + cbn [prom cs gs]. rewrite setg_length. refine (conj HP (conj _ (conj HLg (conj HLc HL)))).
      destruct (Nat.eq_dec g g') as [<-|Hne].
      * rewrite Gg in G. inversion G; subst y. eexists. cbn [gs]. split; [apply setg_same; exact Gg|]. cbn [gp].
        destruct Hyg as [Hy|[Hy|Hy]]; rewrite Hy in Ep; try discriminate. inversion Ep; subst o. right. left. reflexivity.
      * exists yg. cbn [gs]. split; [now rewrite setg_other | exact Hyg].
    + cbn [prom cs gs]. rewrite setg_length. refine (conj HP (conj _ (conj HLg (conj HLc HL)))).
      destruct (Nat.eq_dec g g') as [<-|Hne].
      * rewrite Gg in G. inversion G; subst y. eexists. cbn [gs]. split; [apply setg_same; exact Gg|]. cbn [gp].
        destruct Hyg as [Hy|[Hy|Hy]]; rewrite Hy in Ep; try discriminate. inversion Ep; subst r. right. right. reflexivity.
      * exists yg. cbn [gs]. split; [now rewrite setg_other | exact Hyg].
Qed.

Theorem success_is_final es g v :
  let s := run es in
  succeeded s g v -> forall es',
  let s' := fold_left step es' s in
  prom s' = Some g /\ succeeded s' g v /\ length (gs s') = length (gs s) /\
  (forall a x v' src, nth_error (cs s') a = Some x -> cp x = CRet (RVal v') src -> v' = v /\ src = Some g) /\
  (forall a x r src, nth_error (cs s') a = Some x -> late s g a -> cp x = CRet r src -> cc x = false -> r = RVal v).
Proof.
  cbn. intros HS es'.
  assert (HR : SuccRel (run es) g v (fold_left step es' (run es))).
  { apply (fold_inv (SuccRel (run es) g v) step); [intros; now apply succrel_step|]. apply succrel_init; [apply run_inv | exact HS]. }
  destruct HR as (HI & HP & HS' & HLg & HLc & HL).
  assert (Hval : forall a x v' src, nth_error (cs (fold_left step es' (run es))) a = Some x -> cp x = CRet (RVal v') src -> v' = v /\ src = Some g).
  { intros a x v' src H H0. split.
  - pose proof HI as HIc. inv_names HIc. destruct src as [p|]; [|specialize (I7 _ _ _ H H0); discriminate].
    pose proof (I6 _ _ _ _ H H0) as Hd. unfold dres in Hd. destruct (nth_error (gs (fold_left step es' (run es))) p) as [y|] eqn:G; [|discriminate].
    destruct (gp y) eqn:Ep; try discriminate. inversion Hd; subst r.
    assert (Hh : holds y = true) by (unfold holds; now rewrite Ep).
    pose proof (I1 _ _ G Hh) as E. rewrite HP in E. inversion E; subst p.
    destruct HS' as [y' [G' Hy']]. rewrite G in G'. inversion G'; subst y'. destruct Hy' as [Hy|[Hy|Hy]]; rewrite Hy in Ep; congruence.
  - pose proof HI as HIc. inv_names HIc. destruct src as [p|]; [|specialize (I7 _ _ _ H H0); discriminate].
    pose proof (I6 _ _ _ _ H H0) as Hd. unfold dres in Hd. destruct (nth_error (gs (fold_left step es' (run es))) p) as [y|] eqn:G; [|discriminate].
    destruct (gp y) eqn:Ep; try discriminate. inversion Hd; subst r.
    assert (Hh : holds y = true) by (unfold holds; now rewrite Ep).
    pose proof (I1 _ _ G Hh) as E. rewrite HP in E. congruence. }
  refine (conj HP (conj HS' (conj HLg (conj Hval _)))).
  - intros a x r src G Hl Hp Hc. destruct (HL _ _ G Hl) as [H|[H|[H|[src' H]]]]; rewrite Hp in H; try discriminate.
    + congruence.
    + inversion H; subst r. inv_names HI. rewrite (I5 _ _ _ G Hp) in Hc. discriminate.
Qed.

(* ------------------------------------------------------------------ an error allows a retry *)
Definition FailRel (s0 : st) (g : nat) (s : st) : Prop :=
  Inv s /\ failed s g /\ length (cs s0) <= length (cs s) /\
  forall a x, nth_error (cs s) a = Some x -> length (cs s0) <= a ->
    match cp x with
    | CGate => True
    | CAwait p => g < p
    | CRet _ (Some p) => g < p
    | CRet _ None => True
    end.

Lemma failed_not_holds s g : failed s g -> exists y, nth_error (gs s) g = Some y /\ holds y = false.
Proof.
  intros [y [G [[o [Hy Ho]]|[[r [Hy Hr]]|[r [Hy Hr]]]]]]; exists y; (split; [exact G|]); unfold holds; rewrite Hy; assumption.
Qed.

Lemma failed_prom s g : Inv s -> failed s g -> prom s <> Some g /\ g < length (gs s) /\ forall p, prom s = Some p -> g < p.
Proof.
  intros HI HF. destruct (failed_not_holds _ _ HF) as [y [G Hh]]. inv_names HI.
  assert (Hne : prom s <> Some g).
  { intros E. destruct (I2 _ E) as [_ [y' [G' Hh']]]. congruence. }
  pose proof (nth_error_nth_len _ _ _ G) as Hl. refine (conj Hne (conj Hl _)).
  intros p E. destruct (I2 _ E) as [Hp _]. assert (p <> g) by congruence. lia.
Qed.

Lemma failrel_init s g : Inv s -> failed s g -> FailRel s g s.
Proof.
  intros HI HF. unfold FailRel. refine (conj HI (conj HF (conj (le_n _) _))).
  intros a x G Hl. apply nth_error_nth_len in G. lia.
Qed.

Lemma failed_setg_other s g g' q : g' <> g -> failed s g -> failed {| prom := prom s; cs := cs s; gs := setg s g' q |} g.
Proof. intros Hne [y [G H]]. exists y. cbn [gs]. split; [now rewrite setg_other by congruence | exact H]. Qed.

Lemma failrel_step s0 g s e : FailRel s0 g s -> FailRel s0 g (step s e).
Proof.
  intros (HI & HF & HLc & HL).
  assert (HI' : Inv (step s e)) by (apply step_inv; exact HI).
  destruct (failed_prom _ _ HI HF) as (HPne & Hgl & HPlt).
  unfold FailRel. split; [exact HI'|]. clear HI'.
  assert (Hsame : failed s g /\ length (cs s0) <= length (cs s) /\
                  forall a x, nth_error (cs s) a = Some x -> length (cs s0) <= a ->
                    match cp x with CGate => True | CAwait p => g < p | CRet _ (Some p) => g < p | CRet _ None => True end)
    by (refine (conj HF (conj HLc HL))).
  assert (HFcs : forall c' p', failed {| prom := p'; cs := c'; gs := gs s |} g).
  { intros c' p'. destruct HF as [y [Gy Hy]]. exists y. cbn [gs]. auto. }
  destruct e as [pre|a|a|a|a|g' o|g']; cbn [step].
  - (* Resolve *)
    refine (conj (HFcs _ _) (conj _ _)); cbn [prom cs gs].
    + rewrite app_length. cbn. lia.
    + intros a x Hk Hl. apply nth_error_app_new in Hk as [[_ Hk]|[_ ->]]; [exact (HL _ _ Hk Hl)|]. cbn [cp]. destruct pre; exact I.
  - (* Sect *)
    destruct (nth_error (cs s) a) as [x|] eqn:G; [|exact Hsame].
    destruct (cp x) eqn:Ep; try exact Hsame.
    destruct (prom s) as [p|] eqn:EP.
    + refine (conj (HFcs _ _) (conj _ _)); cbn [prom cs gs].
      * rewrite setc_length. exact HLc.
      * intros k z Hk Hl. destruct (setc_lookup _ _ _ _ _ Hk) as [[_ H1]|[_ [z0 [_ ->]]]]; [exact (HL _ _ H1 Hl)|]. cbn [cp]. now apply HPlt.
    + refine (conj _ (conj _ _)); cbn [prom cs gs].
      * destruct HF as [y [Gy Hy]]. exists y. cbn [gs]. split; [|exact Hy]. rewrite nth_error_app1; [exact Gy | exact Hgl].
      * rewrite setc_length. exact HLc.
      * intros k z Hk Hl. destruct (setc_lookup _ _ _ _ _ Hk) as [[_ H1]|[_ [z0 [_ ->]]]]; [exact (HL _ _ H1 Hl)|]. cbn [cp]. exact Hgl.
  - (* WakeDone *)
    destruct (nth_error (cs s) a) as [x|] eqn:G; [|exact Hsame].
    destruct (cp x) eqn:Ep; try exact Hsame.
    destruct (done_res s p) as [r|] eqn:ED; [|exact Hsame].
    refine (conj (HFcs _ _) (conj _ _)); cbn [prom cs gs].
    + rewrite setc_length. exact HLc.
    + intros k z Hk Hl. destruct (setc_lookup _ _ _ _ _ Hk) as [[_ H1]|[-> [z0 [Hz0 ->]]]]; [exact (HL _ _ H1 Hl)|]. cbn [cp].
      specialize (HL _ _ G Hl). rewrite Ep in HL. destruct r; try exact HL. destruct (cc x); [exact HL | exact I].
  - (* WakeCtx *)
    destruct (nth_error (cs s) a) as [x|] eqn:G; [|exact Hsame].
    destruct (cp x) eqn:Ep; try exact Hsame.
    destruct (cc x) eqn:Ec; [|exact Hsame].
    refine (conj (HFcs _ _) (conj _ _)); cbn [prom cs gs].
    + rewrite setc_length. exact HLc.
    + intros k z Hk Hl. destruct (setc_lookup _ _ _ _ _ Hk) as [[_ H1]|[-> [z0 [Hz0 ->]]]]; [exact (HL _ _ H1 Hl)|]. cbn [cp]. exact I.
  - (* CancelCtx *)
    destruct (nth_error (cs s) a) as [x|] eqn:G; [|exact Hsame].
    refine (conj (HFcs _ _) (conj _ _)); cbn [prom cs gs].
    + rewrite length_set_nth. exact HLc.
    + intros k z Hk Hl. destruct (Nat.eq_dec k a) as [->|Hne].
      * rewrite nth_error_set_nth_same in Hk by (eapply nth_error_nth_len; eauto). inversion Hk; subst z. cbn [cp]. exact (HL _ _ G Hl).
      * rewrite nth_error_set_nth_other in Hk by exact Hne. exact (HL _ _ Hk Hl).
  - (* CbReturn *)
    destruct (nth_error (gs s) g') as [y|] eqn:G; [|exact Hsame].
    destruct (gp y) eqn:Ep; try exact Hsame.
    refine (conj _ (conj HLc HL)). apply failed_setg_other; [|exact HF].
    intros ->. destruct HF as [y' [G' [[o' [Hy' _]]|[[r' [Hy' _]]|[r' [Hy' _]]]]]]; rewrite G in G'; inversion G'; subst y'; congruence.
  - (* GStep *)
    destruct (nth_error (gs s) g') as [y|] eqn:G; [|exact Hsame].
    destruct (gp y) eqn:Ep; try exact Hsame.
    + refine (conj _ (conj HLc HL)).
      destruct HF as [y' [G' H']]. exists y'. cbn [gs]. split; [|exact H'].
      rewrite setg_other; [exact G'|]. intros ->. rewrite G in G'; inversion G'; subst y'.
      destruct H' as [[o' [Hy' _]]|[[r' [Hy' _]]|[r' [Hy' _]]]]; congruence.
    + refine (conj _ (conj HLc HL)).
      destruct (Nat.eq_dec g g') as [<-|Hne]; [|apply failed_setg_other; [congruence | exact HF]].
      destruct HF as [y' [G' H']]. rewrite G in G'. inversion G'; subst y'.
      eexists. cbn [gs]. split; [apply setg_same; exact G|]. cbn [gp]. right. left. eexists. split; [reflexivity|].
      rewrite is_ok_final. destruct H' as [[o' [Hy' Ho']]|[[r' [Hy' _]]|[r' [Hy' _]]]]; congruence.
    + refine (conj _ (conj HLc HL)).
      destruct (Nat.eq_dec g g') as [<-|Hne]; [|apply failed_setg_other; [congruence | exact HF]].
      destruct HF as [y' [G' H']]. rewrite G in G'. inversion G'; subst y'.
      eexists. cbn [gs]. split; [apply setg_same; exact G|]. cbn [gp]. right. right. eexists. split; [reflexivity|].
      destruct H' as [[o' [Hy' Ho']]|[[r' [Hy' Hr']]|[r' [Hy' _]]]]; congruence.
Qed.

Theorem error_allows_retry es g :
  let s := run es in
  failed s g -> forall es',
  let s' := fold_left step es' s in
  prom s' <> Some g /\ failed s' g /\
  (forall p, prom s' = Some p -> g < p) /\
  (forall a x, nth_error (cs s') a = Some x -> length (cs s) <= a ->
     (forall p, cp x = CAwait p -> g < p) /\
     (forall r p, cp x = CRet r (Some p) -> g < p /\ done_res s' p = Some r)).
Proof.
  cbn. intros HF es'.
  assert (HR : FailRel (run es) g (fold_left step es' (run es))).
  { apply (fold_inv (FailRel (run es) g) step); [intros; now apply failrel_step|]. apply failrel_init; [apply run_inv | exact HF]. }
  destruct HR as (HI & HF' & HLc & HL). destruct (failed_prom _ _ HI HF') as (HPne & Hgl & HPlt).
  refine (conj HPne (conj HF' (conj HPlt _))).
  intros a x G Hl. specialize (HL _ _ G Hl). split.
  - intros p Hp. now rewrite Hp in HL.
  - intros r p Hp. rewrite Hp in HL. split; [exact HL|]. inv_names HI. rewrite done_res_dres. eauto.
Qed.

(* the section of a caller that finds no current promise starts a new invocation of the callback *)
Theorem section_starts_new_attempt s a x :
  nth_error (cs s) a = Some x -> cp x = CGate -> prom s = None ->
  let s' := step s (Sect a) in
  prom s' = Some (length (gs s)) /\
  nth_error (gs s') (length (gs s)) = Some {| gp := GInCb (cc x); gsp := a |} /\
  nth_error (cs s') a = Some {| cp := CAwait (length (gs s)); cc := cc x |}.
Proof.
  intros G Ep EP. cbn [step]. rewrite G, Ep, EP. cbn [prom cs gs]. repeat split.
  - rewrite nth_error_app2 by lia. now rewrite Nat.sub_diag.
  - now apply setc_same.
Qed.

(* ------------------------------------------------------------------ cancellation and quiescence *)
Theorem canceled_only_if_cancelled es a x src :
  nth_error (cs (run es)) a = Some x -> cp x = CRet RCanceled src -> cc x = true.
Proof. intros G Hp. pose proof (run_inv es) as HI. inv_names HI. eauto. Qed.

Lemma quiescent_caller s a x : quiescent s = true -> nth_error (cs s) a = Some x -> c_enabled s x = false.
Proof.
  unfold quiescent. intros H G. apply andb_true_iff in H as [H _]. rewrite forallb_forall in H.
  specialize (H x (nth_error_In _ _ G)). now destruct (c_enabled s x).
Qed.
Lemma quiescent_gor s g y : quiescent s = true -> nth_error (gs s) g = Some y -> g_enabled y = false.
Proof.
  unfold quiescent. intros H G. apply andb_true_iff in H as [_ H]. rewrite forallb_forall in H.
  specialize (H y (nth_error_In _ _ G)). now destruct (g_enabled y).
Qed.

Theorem quiescent_blocked es a x p :
  let s := run es in
  quiescent s = true -> nth_error (cs s) a = Some x -> cp x = CAwait p ->
  cc x = false /\ prom s = Some p /\ done_res s p = None /\
  exists y ec, nth_error (gs s) p = Some y /\ gp y = GInCb ec.
Proof.
  cbn. intros Hq G Hp. pose proof (run_inv es) as HI. inv_names HI.
  pose proof (quiescent_caller _ _ _ Hq G) as Hc. unfold c_enabled in Hc. rewrite Hp in Hc.
  apply orb_false_iff in Hc as [Hc Hd].
  destruct (done_res (run es) p) as [r|] eqn:ED; [discriminate|].
  pose proof (I4 _ _ _ G Hp) as Hl. destruct (nth_error (gs (run es)) p) as [y|] eqn:Gy; [|apply nth_error_None in Gy; lia].
  pose proof (quiescent_gor _ _ _ Hq Gy) as Hg. unfold g_enabled in Hg. unfold done_res in ED. rewrite Gy in ED.
  destruct (gp y) eqn:Ey; try discriminate.
  repeat split; auto.
  - apply (I1 _ _ Gy). unfold holds. now rewrite Ey.
  - exists y, ec. auto.
Qed.

Theorem quiescent_cancelled_not_blocked es a x :
  let s := run es in
  quiescent s = true -> nth_error (cs s) a = Some x -> cc x = true -> exists src, cp x = CRet RCanceled src \/ exists r, cp x = CRet r src.
Proof.
  cbn. intros Hq G Hc. pose proof (quiescent_caller _ _ _ Hq G) as He. unfold c_enabled in He.
  destruct (cp x) eqn:Ep; try discriminate.
  - rewrite Hc in He. discriminate.
  - exists src. right. eauto.
Qed.

(* ------------------------------------------------------------------ MemoizeFunc *)
Definition MInv (s : mst) : Prop :=
  (forall f p, nth_error (mcs s) f = Some p -> is_first p = true -> started s = true) /\
  (forall f1 f2 p1 p2, nth_error (mcs s) f1 = Some p1 -> nth_error (mcs s) f2 = Some p2 ->
                       is_first p1 = true -> is_first p2 = true -> f1 = f2) /\
  (started s = true -> exists f p, nth_error (mcs s) f = Some p /\ is_first p = true) /\
  (forall f o, nth_error (mcs s) f = Some (MWrote o) \/ nth_error (mcs s) f = Some (MRetF o) -> mresult s = Some o) /\
  (forall o, mresult s = Some o -> exists f, nth_error (mcs s) f = Some (MWrote o) \/ nth_error (mcs s) f = Some (MRetF o)) /\
  (mdone s = true -> exists f o, nth_error (mcs s) f = Some (MRetF o)) /\
  (forall a r, nth_error (mcs s) a = Some (MRet r) -> exists f, nth_error (mcs s) f = Some (MRetF r)) /\
  (forall f o, nth_error (mcs s) f = Some (MRetF o) -> mdone s = true).

Lemma minit_inv : MInv minit.
Proof.
  unfold MInv, minit; cbn [started mresult mdone mcs]. repeat split; try discriminate.
  all: try (intros [|?]; intros; discriminate).
  intros f o [H|H]; destruct f; discriminate.
Qed.

Lemma mset_lookup (l : list mpc) a p k q :
  nth_error (set_nth l a p) k = Some q -> (k <> a /\ nth_error l k = Some q) \/ (k = a /\ q = p /\ a < length l).
Proof.
  intros H. destruct (Nat.eq_dec k a) as [->|Hne].
  - right. assert (Hl : a < length l) by (rewrite <- (length_set_nth l a p); eapply nth_error_nth_len; eauto).
    rewrite nth_error_set_nth_same in H by exact Hl. inversion H. auto.
  - left. rewrite nth_error_set_nth_other in H by exact Hne. auto.
Qed.

Ltac minv_names HI := destruct HI as (M1 & M2 & M3 & M4 & M5 & M6 & M7 & M8).

(* an existing entry other than a survives an update of a *)
Lemma keep_other (l : list mpc) a p f q : nth_error l f = Some q -> f <> a -> nth_error (set_nth l a p) f = Some q.
Proof. intros H Hne. now rewrite nth_error_set_nth_other. Qed.

Lemma mstep_inv s e : MInv s -> MInv (mstep s e).
Proof.
  intros HI0. destruct e as [|a|a o|a|a|a]; cbn [mstep].
  - (* call *)
    minv_names HI0. unfold MInv; cbn [started mresult mdone mcs].
    assert (Hold : forall f q, nth_error (mcs s) f = Some q -> nth_error (mcs s ++ [MStart]) f = Some q).
    { intros f q H. rewrite nth_error_app1; [exact H | eapply nth_error_nth_len; eauto]. }
    refine (conj _ (conj _ (conj _ (conj _ (conj _ (conj _ (conj _ _))))))).
    + intros f p Hk Hp. apply nth_error_app_new in Hk as [[_ Hk]|[_ ->]]; [eauto | discriminate].
    + intros f1 f2 p1 p2 H1 H2 Hp1 Hp2.
      apply nth_error_app_new in H1 as [[_ H1]|[_ ->]]; [|discriminate].
      apply nth_error_app_new in H2 as [[_ H2]|[_ ->]]; [eauto | discriminate].
    + intros Hs. destruct (M3 Hs) as [f [p [Hf Hp]]]. exists f, p. auto.
    + intros f o [H|H]; apply nth_error_app_new in H as [[_ H]|[_ H]]; try discriminate; eauto.
    + intros o Ho. destruct (M5 _ Ho) as [f [H|H]]; exists f; auto.
    + intros Hd. destruct (M6 Hd) as [f [o H]]. exists f, o. auto.
    + intros a r H. apply nth_error_app_new in H as [[_ H]|[_ H]]; [|discriminate]. destruct (M7 _ _ H) as [f Hf]. exists f. auto.
    + intros f o H. apply nth_error_app_new in H as [[_ H]|[_ H]]; [eauto | discriminate].
  - (* swap *)
    destruct (nth_error (mcs s) a) as [[]|] eqn:G; try exact HI0.
    minv_names HI0. destruct (started s) eqn:ES; unfold MInv, mset; cbn [started mresult mdone mcs].
    + (* lost *)
      refine (conj _ (conj _ (conj _ (conj _ (conj _ (conj _ (conj _ _))))))).
      * intros; reflexivity.
      * intros f1 f2 p1 p2 H1 H2 Hp1 Hp2.
        destruct (mset_lookup _ _ _ _ _ H1) as [[_ H1']|[_ [-> _]]]; [|discriminate].
        destruct (mset_lookup _ _ _ _ _ H2) as [[_ H2']|[_ [-> _]]]; [eauto | discriminate].
      * intros _. destruct (M3 eq_refl) as [f [p [Hf Hp]]]. exists f, p. split; [|exact Hp].
        apply keep_other; [exact Hf|]. intros ->. rewrite G in Hf. inversion Hf; subst p. discriminate.
      * intros f o [H|H]; destruct (mset_lookup _ _ _ _ _ H) as [[_ H']|[_ [E _]]]; try discriminate; eauto.
      * intros o Ho. destruct (M5 _ Ho) as [f [H|H]]; exists f; [left|right]; (apply keep_other; [exact H|]; intros ->; congruence).
      * intros Hd. destruct (M6 Hd) as [f [o H]]. exists f, o. apply keep_other; [exact H|]. intros ->; congruence.
      * intros k r H. destruct (mset_lookup _ _ _ _ _ H) as [[_ H']|[_ [E _]]]; [|discriminate].
        destruct (M7 _ _ H') as [f Hf]. exists f. apply keep_other; [exact Hf|]. intros ->; congruence.
      * intros f8 o8 H8. destruct (mset_lookup _ _ _ _ _ H8) as [[_ H8']|[_ [E8 _]]]; [eauto | discriminate].
    + (* won *)
      assert (Hnone : forall f p, nth_error (mcs s) f = Some p -> is_first p = false).
      { intros f p Hf. destruct (is_first p) eqn:E; [|reflexivity]. specialize (M1 _ _ Hf E). congruence. }
      refine (conj _ (conj _ (conj _ (conj _ (conj _ (conj _ (conj _ _))))))).
      * intros; reflexivity.
      * intros f1 f2 p1 p2 H1 H2 Hp1 Hp2.
        destruct (mset_lookup _ _ _ _ _ H1) as [[_ H1']|[-> _]]; [rewrite (Hnone _ _ H1') in Hp1; discriminate|].
        destruct (mset_lookup _ _ _ _ _ H2) as [[_ H2']|[-> _]]; [rewrite (Hnone _ _ H2') in Hp2; discriminate | reflexivity].
      * intros _. exists a, MInFn. split; [|reflexivity]. apply nth_error_set_nth_same. eapply nth_error_nth_len; eauto.
      * intros f o [H|H]; destruct (mset_lookup _ _ _ _ _ H) as [[_ H']|[_ [E _]]]; try discriminate; eauto.
      * intros o Ho. destruct (M5 _ Ho) as [f [H|H]]; exists f; [left|right]; (apply keep_other; [exact H|]; intros ->; congruence).
      * intros Hd. destruct (M6 Hd) as [f [o H]]. exists f, o. apply keep_other; [exact H|]. intros ->; congruence.
      * intros k r H. destruct (mset_lookup _ _ _ _ _ H) as [[_ H']|[_ [E _]]]; [|discriminate].
        destruct (M7 _ _ H') as [f Hf]. exists f. apply keep_other; [exact Hf|]. intros ->; congruence.
      * intros f8 o8 H8. destruct (mset_lookup _ _ _ _ _ H8) as [[_ H8']|[_ [E8 _]]]; [eauto | discriminate].
  - (* fn returns *)
    destruct (nth_error (mcs s) a) as [[]|] eqn:G; try exact HI0.
    minv_names HI0. unfold MInv, mset; cbn [started mresult mdone mcs].
    refine (conj _ (conj _ (conj _ (conj _ (conj _ (conj _ (conj _ _))))))).
    + intros f p Hk Hp. destruct (mset_lookup _ _ _ _ _ Hk) as [[_ H']|[-> _]]; [eauto|]. apply (M1 _ _ G eq_refl).
    + intros f1 f2 p1 p2 H1 H2 Hp1 Hp2.
      destruct (mset_lookup _ _ _ _ _ H1) as [[_ H1']|[-> _]]; destruct (mset_lookup _ _ _ _ _ H2) as [[_ H2']|[-> _]]; eauto.
    + intros _. exists a, (MGot o). split; [|reflexivity]. apply nth_error_set_nth_same. eapply nth_error_nth_len; eauto.
    + intros f o' [H|H]; destruct (mset_lookup _ _ _ _ _ H) as [[_ H']|[_ [E _]]]; try discriminate; eauto.
    + intros o' Ho. destruct (M5 _ Ho) as [f [H|H]]; exists f; [left|right]; (apply keep_other; [exact H|]; intros ->; congruence).
    + intros Hd. destruct (M6 Hd) as [f [o' H]]. exists f, o'. apply keep_other; [exact H|]. intros ->; congruence.
    + intros k r H. destruct (mset_lookup _ _ _ _ _ H) as [[_ H']|[_ [E _]]]; [|discriminate].
      destruct (M7 _ _ H') as [f Hf]. exists f. apply keep_other; [exact Hf|]. intros ->; congruence.
    + intros f8 o8 H8. destruct (mset_lookup _ _ _ _ _ H8) as [[_ H8']|[_ [E8 _]]]; [eauto | discriminate].
  - (* write *)
    destruct (nth_error (mcs s) a) as [[]|] eqn:G; try exact HI0.
    minv_names HI0. unfold MInv, mset; cbn [started mresult mdone mcs].
    assert (Hl : a < length (mcs s)) by (eapply nth_error_nth_len; eauto).
    assert (Honly : forall f p, nth_error (mcs s) f = Some p -> is_first p = true -> f = a).
    { intros f p Hf Hp. apply (M2 _ _ _ _ Hf G Hp eq_refl). }
    refine (conj _ (conj _ (conj _ (conj _ (conj _ (conj _ (conj _ _))))))).
    + intros f p Hk Hp. destruct (mset_lookup _ _ _ _ _ Hk) as [[_ H']|[-> _]]; [eauto|]. apply (M1 _ _ G eq_refl).
    + intros f1 f2 p1 p2 H1 H2 Hp1 Hp2.
      destruct (mset_lookup _ _ _ _ _ H1) as [[_ H1']|[-> _]]; destruct (mset_lookup _ _ _ _ _ H2) as [[_ H2']|[-> _]]; eauto;
        try (symmetry; eauto).
    + intros _. exists a, (MWrote o). split; [|reflexivity]. now apply nth_error_set_nth_same.
    + intros f o' [H|H]; destruct (mset_lookup _ _ _ _ _ H) as [[Hne H']|[_ [E _]]]; try congruence.
      * exfalso. apply Hne. eapply Honly; eauto.
      * exfalso. apply Hne. eapply Honly; eauto.
    + intros o' Ho. inversion Ho; subst o'. exists a. left. now apply nth_error_set_nth_same.
    + intros Hd. destruct (M6 Hd) as [f [o' H]]. exfalso. assert (f = a) by (eapply Honly; eauto). subst f. congruence.
    + intros k r H. destruct (mset_lookup _ _ _ _ _ H) as [[_ H']|[_ [E _]]]; [|discriminate].
      destruct (M7 _ _ H') as [f Hf]. exfalso. assert (f = a) by (eapply Honly; eauto). subst f. congruence.
    + intros f8 o8 H8. destruct (mset_lookup _ _ _ _ _ H8) as [[_ H8']|[_ [E8 _]]]; [eauto | discriminate].
  - (* close *)
    destruct (nth_error (mcs s) a) as [[]|] eqn:G; try exact HI0.
    minv_names HI0. unfold MInv, mset; cbn [started mresult mdone mcs].
    assert (Hl : a < length (mcs s)) by (eapply nth_error_nth_len; eauto).
    assert (Honly : forall f p, nth_error (mcs s) f = Some p -> is_first p = true -> f = a).
    { intros f p Hf Hp. apply (M2 _ _ _ _ Hf G Hp eq_refl). }
    refine (conj _ (conj _ (conj _ (conj _ (conj _ (conj _ (conj _ _))))))).
    + intros f p Hk Hp. destruct (mset_lookup _ _ _ _ _ Hk) as [[_ H']|[-> _]]; [eauto|]. apply (M1 _ _ G eq_refl).
    + intros f1 f2 p1 p2 H1 H2 Hp1 Hp2.
      destruct (mset_lookup _ _ _ _ _ H1) as [[_ H1']|[-> _]]; destruct (mset_lookup _ _ _ _ _ H2) as [[_ H2']|[-> _]]; eauto;
        try (symmetry; eauto).
    + intros _. exists a, (MRetF o). split; [|reflexivity]. now apply nth_error_set_nth_same.
    + intros f o' [H|H]; destruct (mset_lookup _ _ _ _ _ H) as [[Hne H']|[_ [E _]]]; try discriminate; eauto.
      inversion E; subst o'. eauto.
    + intros o' Ho. destruct (M5 _ Ho) as [f [H|H]]; assert (f = a) by (eapply Honly; eauto); subst f.
      * rewrite G in H. inversion H; subst o'. exists a. right. now apply nth_error_set_nth_same.
      * congruence.
    + intros _. exists a, o. now apply nth_error_set_nth_same.
    + intros k r H. destruct (mset_lookup _ _ _ _ _ H) as [[_ H']|[_ [E _]]]; [|discriminate].
      destruct (M7 _ _ H') as [f Hf]. exfalso. assert (f = a) by (eapply Honly; eauto). subst f. congruence.
    + intros; reflexivity.
  - (* wake *)
    destruct (nth_error (mcs s) a) as [[]|] eqn:G; try exact HI0.
    destruct (mdone s) eqn:ED; [|exact HI0].
    minv_names HI0. unfold MInv, mset; cbn [started mresult mdone mcs].
    destruct (M6 ED) as [f0 [o0 Hf0]]. assert (Hne0 : f0 <> a) by (intros ->; congruence).
    pose proof (M4 f0 o0 (or_intror Hf0)) as ER. rewrite ER.
    refine (conj _ (conj _ (conj _ (conj _ (conj _ (conj _ (conj _ _))))))).
    + intros f p Hk Hp. destruct (mset_lookup _ _ _ _ _ Hk) as [[_ H']|[_ [-> _]]]; [eauto | discriminate].
    + intros f1 f2 p1 p2 H1 H2 Hp1 Hp2.
      destruct (mset_lookup _ _ _ _ _ H1) as [[_ H1']|[_ [-> _]]]; [|discriminate].
      destruct (mset_lookup _ _ _ _ _ H2) as [[_ H2']|[_ [-> _]]]; [eauto | discriminate].
    + intros _. exists f0, (MRetF o0). split; [|reflexivity]. now apply keep_other.
    + intros f o' [H|H]; destruct (mset_lookup _ _ _ _ _ H) as [[Hne H']|[_ [E _]]]; try discriminate; rewrite <- ER; eauto.
    + intros o' Ho. inversion Ho; subst o'. exists f0. right. now apply keep_other.
    + intros _. exists f0, o0. now apply keep_other.
    + intros k r H. destruct (mset_lookup _ _ _ _ _ H) as [[_ H']|[_ [E _]]].
      * destruct (M7 _ _ H') as [f Hf]. exists f. apply keep_other; [exact Hf|]. intros ->; congruence.
      * inversion E; subst r. exists f0. now apply keep_other.
    + intros; reflexivity.
Qed.

Theorem mrun_inv es : MInv (mrun es).
Proof. unfold mrun. apply fold_inv; [apply mstep_inv | apply minit_inv]. Qed.

(* fn is called exactly once in total *)
Theorem memo_exactly_one_call es :
  let s := mrun es in
  cnt is_first (mcs s) = b2n (started s) /\ cnt is_first (mcs s) <= 1 /\ cnt m_in_fn (mcs s) <= 1 /\
  (forall a p r, nth_error (mcs s) a = Some p -> m_returned p = Some r -> cnt is_first (mcs s) = 1).
Proof.
  cbn. pose proof (mrun_inv es) as HI. minv_names HI.
  assert (Hle : cnt is_first (mcs (mrun es)) <= 1) by (apply uniq_cnt_le1; exact M2).
  assert (Heq : cnt is_first (mcs (mrun es)) = b2n (started (mrun es))).
  { destruct (started (mrun es)) eqn:ES; cbn [b2n].
    - destruct (M3 eq_refl) as [f [p [Hf Hp]]]. pose proof (nth_error_cnt_pos is_first _ _ _ Hf Hp). lia.
    - apply cnt_zero_forall. intros p Hp. destruct (is_first p) eqn:E; [|reflexivity].
      apply In_nth_error in Hp as [k Hk]. specialize (M1 _ _ Hk E). congruence. }
  refine (conj Heq (conj Hle (conj _ _))).
  - pose proof (cnt_le m_in_fn is_first (mcs (mrun es))) as H. assert (forall x, m_in_fn x = true -> is_first x = true) by (intros []; auto).
    specialize (H H0). lia.
  - intros a p r Ha Hr. assert (exists f o, nth_error (mcs (mrun es)) f = Some (MRetF o)) as [f [o Hf]].
    { destruct p; try discriminate; [eauto|]. destruct (M7 _ _ Ha) as [f Hf]. eauto. }
    pose proof (nth_error_cnt_pos is_first _ _ _ Hf eq_refl). lia.
Qed.

(* every caller that has returned returned what the (unique) first caller got from fn, and that is what was published *)
Theorem memo_all_get_that_result es a p r :
  let s := mrun es in
  nth_error (mcs s) a = Some p -> m_returned p = Some r ->
  exists f, nth_error (mcs s) f = Some (MRetF r) /\ mresult s = Some r /\ mdone s = true /\
            forall f' p', nth_error (mcs s) f' = Some p' -> is_first p' = true -> f' = f.
Proof.
  cbn. intros Ha Hr. pose proof (mrun_inv es) as HI. minv_names HI.
  assert (exists f, nth_error (mcs (mrun es)) f = Some (MRetF r)) as [f Hf].
  { destruct p; try discriminate; inversion Hr; subst; [eauto|]. destruct (M7 _ _ Ha) as [f Hf]. eauto. }
  exists f. refine (conj Hf (conj (M4 _ _ (or_intror Hf)) (conj (M8 _ _ Hf) _))).
  intros f' p' H' Hp'. apply (M2 _ _ _ _ H' Hf Hp' eq_refl).
Qed.

(* publish before close: once done is closed the result variables hold what fn returned ... *)
Theorem memo_publish_before_close es :
  let s := mrun es in
  mdone s = true -> exists f o, nth_error (mcs s) f = Some (MRetF o) /\ mresult s = Some o.
Proof.
  cbn. intros Hd. pose proof (mrun_inv es) as HI. minv_names HI.
  destruct (M6 Hd) as [f [o Hf]]. exists f, o. split; [exact Hf|]. apply (M4 f o). now right.
Qed.

(* ... and they are written once: no step changes a written result *)
Theorem memo_result_written_once es o e :
  let s := mrun es in mresult s = Some o -> mresult (mstep s e) = Some o.
Proof.
  cbn. intros Hr. pose proof (mrun_inv es) as HI. minv_names HI.
  destruct e as [|a|a o'|a|a|a]; cbn [mstep]; try exact Hr.
  - destruct (nth_error (mcs (mrun es)) a) as [[]|]; try exact Hr. destruct (started (mrun es)); exact Hr.
  - destruct (nth_error (mcs (mrun es)) a) as [[]|]; exact Hr.
  - destruct (nth_error (mcs (mrun es)) a) as [[]|] eqn:G; try exact Hr. exfalso.
    destruct (M5 _ Hr) as [f [H|H]]; assert (f = a) by (apply (M2 _ _ _ _ H G eq_refl eq_refl)); subst f; congruence.
  - destruct (nth_error (mcs (mrun es)) a) as [[]|]; exact Hr.
  - destruct (nth_error (mcs (mrun es)) a) as [[]|]; try exact Hr. destruct (mdone (mrun es)); exact Hr.
Qed.

(* a waiter is released only by the close, and then reads the published result *)
Theorem memo_waiter_reads_published es a :
  let s := mrun es in
  nth_error (mcs s) a = Some MWait -> mdone s = true ->
  exists r, mresult s = Some r /\ nth_error (mcs (mstep s (MWake a))) a = Some (MRet r).
Proof.
  cbn. intros Ha Hd. destruct (memo_publish_before_close es Hd) as [f [o [Hf Hr]]].
  exists o. split; [exact Hr|]. cbn [mstep]. rewrite Ha, Hd, Hr. cbn [mcs]. unfold mset.
  apply nth_error_set_nth_same. eapply nth_error_nth_len; eauto.
Qed.

(* ------------------------------------------------------------------ statements as used by Props_C16.v *)
Theorem cancelled_caller_gets_canceled_others_progress es :
  let s := run es in
  (forall a x src, nth_error (cs s) a = Some x -> cp x = CRet RCanceled src -> cc x = true) /\
  (quiescent s = true -> forall a x p, nth_error (cs s) a = Some x -> cp x = CAwait p ->
     cc x = false /\ prom s = Some p /\ done_res s p = None /\
     exists y ec, nth_error (gs s) p = Some y /\ gp y = GInCb ec) /\
  (quiescent s = true -> forall a x, nth_error (cs s) a = Some x -> cc x = true ->
     exists src, cp x = CRet RCanceled src \/ exists r, cp x = CRet r src).
Proof.
  cbn. split; [|split].
  - intros a x src. exact (canceled_only_if_cancelled es a x src).
  - intros Hq a x p. exact (quiescent_blocked es a x p Hq).
  - intros Hq a x. exact (quiescent_cancelled_not_blocked es a x Hq).
Qed.

Theorem memo_publish_before_close_all es :
  let s := mrun es in
  (mdone s = true -> exists f o, nth_error (mcs s) f = Some (MRetF o) /\ mresult s = Some o) /\
  (forall o e, mresult s = Some o -> mresult (mstep s e) = Some o) /\
  (forall a, nth_error (mcs s) a = Some MWait -> mdone s = true ->
     exists r, mresult s = Some r /\ nth_error (mcs (mstep s (MWake a))) a = Some (MRet r)).
Proof.
  cbn. split; [|split].
  - exact (memo_publish_before_close es).
  - intros o e. exact (memo_result_written_once es o e).
  - intros a. exact (memo_waiter_reads_published es a).
Qed.

(* ------------------------------------------------------------------ monitors vs. model (bounded)
   The monitors of Spec.v run on the model's OWN observations and report nothing, for every event sequence the
   codec-level step accepts: checked exhaustively (vm_compute) up to a depth from the initial state and from
   the end of hand-picked prefixes that reach the interesting regions (failed attempt with pending SetResult,
   success, spawner cancelled, callback returning Canceled, cancelled caller at the gate).  The sweep returns the
   number of accepted sequences it explored, 0 as soon as a monitor reports a failure.
   (The unbounded statement -- for ALL accepted event lists -- is proved in ProofsMon2.v / ProofsMonMemo.v.) *)
Definition once_alphabet (h : hst) : list (list N) :=
  ([1; 0] :: [1; 1] ::
  flat_map (fun i : nat => let j := N.of_nat i in
     [[3; j; 0]; [3; j; 1]; [4; j]; [5; j; 0]; [5; j; 1]; [5; j; 2]]) (seq 0 (length (hmap h))))%N.

Fixpoint once_sweep (fuel : nat) (h : hst) (m : monst) : N :=
  match fuel with
  | O => 1%N
  | S f =>
    fold_left (fun acc e =>
      match acc with
      | 0%N => 0%N
      | _ =>
        match hstep h e with
        | None => acc
        | Some (h', o) =>
          match mon_once m e o with
          | (m', []) => match once_sweep f h' m' with 0%N => 0%N | k => (acc + k)%N end
          | (_, _ :: _) => 0%N
          end
        end
      end) (once_alphabet h) 1%N
  end.

Fixpoint once_from (prefix : list (list N)) (fuel : nat) (h : hst) (m : monst) : N :=
  match prefix with
  | [] => once_sweep fuel h m
  | e :: t => match hstep h e with
              | None => 0%N
              | Some (h', o) => match mon_once m e o with
                                | (m', []) => once_from t fuel h' m'
                                | _ => 0%N
                                end
              end
  end.

Definition once_seeds : list (list (list N)) :=
 [ (* attempt 1 failed and is parked before SetResult, attempt 4 succeeded and sits inside SetResult (window) *)
   [[1;0];[3;0;0];[1;0];[3;2;0];[5;1;1];[3;1;0];[1;0];[3;3;0];[5;4;0];[3;4;0]];
   (* ... and published *)
   [[1;0];[3;0;0];[1;0];[3;2;0];[5;1;1];[3;1;0];[1;0];[3;3;0];[5;4;0];[3;4;0];[3;4;0]];
   (* spawner cancelled, failed attempt resolved with Canceled, the other waiter back at the gate *)
   [[1;0];[3;0;0];[1;0];[3;2;0];[4;0];[5;1;1];[3;1;0];[3;1;0];[3;1;0]];
   [[1;0];[4;0];[3;0;1];[1;0];[3;2;0];[5;1;2];[3;1;0]];
   [[1;0];[3;0;0];[1;0];[3;2;0];[5;1;2];[3;1;0];[3;1;0];[3;1;0];[3;0;0]];
   (* success inside SetResult (window) with a cancelled caller parked at the gate *)
   [[1;0];[3;0;0];[5;1;0];[3;1;0];[1;0];[4;2]];
   [[1;0];[3;0;0];[5;1;0];[3;1;0];[3;1;0];[1;0];[4;2]];
   (* failed attempt inside SetResult (window), a new caller at the gate *)
   [[1;0];[3;0;0];[1;0];[3;2;0];[5;1;1];[3;1;0];[3;1;0];[1;0]] ]%N.

Lemma once_monitors_accept_model_bounded :
  N.ltb 0 (once_sweep 7 hinit monit) = true /\
  forallb (fun p => N.ltb 0 (once_from p 4 hinit monit)) once_seeds = true.
Proof. vm_compute. split; reflexivity. Qed.

Definition memo_alphabet (s : mst) : list (list N) :=
  ([1] :: [3; 2; 0] :: [3; 2; 1] :: [3; 3; 0] :: [3; 3; 2] ::
  flat_map (fun i : nat => let j := N.of_nat i in [[2; j; 0]; [2; j; 1]]) (seq 0 (length (mcs s))))%N.

Fixpoint memo_sweep (fuel : nat) (s : mst) (m : mmon) : N :=
  match fuel with
  | O => 1%N
  | S f =>
    fold_left (fun acc e =>
      match acc with
      | 0%N => 0%N
      | _ =>
        match mhstep s e with
        | None => acc
        | Some (s', o) =>
          match mon_memo m e o with
          | (m', []) => match memo_sweep f s' m' with 0%N => 0%N | k => (acc + k)%N end
          | (_, _ :: _) => 0%N
          end
        end
      end) (memo_alphabet s) 1%N
  end.

Lemma memo_monitors_accept_model_bounded : N.ltb 0 (memo_sweep 7 minit mmonit) = true.
Proof. vm_compute. reflexivity. Qed.

(* the monitors are not vacuous: which clause of property 16 a checked trace falsifies *)
Definition flagged (l : list issue) (c : nat) : bool :=
  existsb (fun i => match i with PropFalse 16 c' _ => Nat.eqb c c' | _ => false end) l.
