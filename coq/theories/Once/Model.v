(* promise.Once and memo.MemoizeFunc (C16).  No proofs here.

   ---- Once (/repo/promise/once.go) ----
   Resolve(ctx):   for { if ctx.Err()!=nil return Canceled          (folded into the step that reaches it)
                         [gate 1]  lock; p := o.prom; if p==nil { p = new; o.prom = p; go cbgoroutine(ctx,p) }; unlock
                         r := p.Await(ctx)      select on p.done | ctx.Done
                         if r is Canceled continue; return r }
   cbgoroutine:    r := cb(ctx)                                      user code (GInCb)
                   error:   [gate 2] lock; if o.prom==p {o.prom=nil}; unlock      (GClear)
                            [gate 3] SetResult(Canceled if ctx.Err()!=nil else err) (GSet)
                   success: [gate 3] SetResult(value)                              (GSet)
                   SetResult(r): isDone.Swap(true); [site 0] result,err := r; close(done)   (GPub r, then GDone r)
   The Once carries its own promise component: a promise is identified with the goroutine that
   resolves it (index into gs); "done closed and result published" is pc GDone r.  Nobody but that
   goroutine calls SetResult on it; the window inside SetResult between the swap of isDone and the publication
   (fields written, done closed) is pc GPub r: the promise is NOT yet resolved for any waiter (done is open),
   so a caller that reaches Await in that window blocks like on any unresolved promise.

   A caller that wakes up from Await with a Canceled result re-runs the loop head: it returns Canceled
   when its OWN context is cancelled and otherwise goes to gate 1 again.  This covers both "my context
   fired" and "the promise was resolved with Canceled because the SPAWNER's context was cancelled". *)
From Util Require Import Common.Base Common.ListLemmas.

Inductive res := RVal (v : N) | RErr (e : N) | RCanceled.
Definition is_ok (r : res) : bool := match r with RVal _ => true | _ => false end.

(* callers.  CRet r src: returned r; src = the promise the result was read from (ghost; None when the
   Canceled came from the caller's own context) *)
Inductive cpc := CGate | CAwait (p : nat) | CRet (r : res) (src : option nat).
Record caller := { cp : cpc; cc : bool (* own context cancelled *) }.

(* callback goroutines = promises *)
Inductive gpc :=
| GInCb (ec : bool)       (* inside the user callback; ec: its context was already cancelled on entry *)
| GClear (o : res)        (* callback returned an error o, parked before the clear section *)
| GSet (o : res)          (* parked before SetResult *)
| GPub (r : res)          (* inside Promise.SetResult(r): isDone swapped, result fields not yet written, done still open (site 0) *)
| GDone (r : res).        (* promise resolved with r: fields written, done closed *)
Record gor := { gp : gpc; gsp : nat (* the caller whose context the callback captured *) }.

Record st := { prom : option nat; cs : list caller; gs : list gor }.
Definition init : st := {| prom := None; cs := []; gs := [] |}.

Inductive ev :=
| Resolve (pre : bool)        (* new Resolve call; pre: its context is already cancelled *)
| Sect (a : nat)              (* caller at gate 1 runs the critical section and reaches Await *)
| WakeDone (a : nat)          (* Await takes the p.done case *)
| WakeCtx (a : nat)           (* Await takes the ctx.Done case *)
| CancelCtx (a : nat)
| CbReturn (g : nat) (o : res)
| GStep (g : nat).            (* goroutine runs its clear section / SetResult *)

Definition setc (s : st) (a : nat) (p : cpc) : list caller :=
  match nth_error (cs s) a with
  | Some x => set_nth (cs s) a {| cp := p; cc := cc x |}
  | None => cs s
  end.
Definition setg (s : st) (g : nat) (p : gpc) : list gor :=
  match nth_error (gs s) g with
  | Some y => set_nth (gs s) g {| gp := p; gsp := gsp y |}
  | None => gs s
  end.

Definition ctx_cancelled (s : st) (a : nat) : bool :=
  match nth_error (cs s) a with Some x => cc x | None => false end.

(* what the goroutine passes to SetResult *)
Definition final_res (s : st) (y : gor) (o : res) : res :=
  match o with
  | RVal _ => o
  | _ => if ctx_cancelled s (gsp y) then RCanceled else o
  end.

Definition done_res (s : st) (p : nat) : option res :=
  match nth_error (gs s) p with
  | Some y => match gp y with GDone r => Some r | _ => None end
  | None => None
  end.

Definition step (s : st) (e : ev) : st :=
  match e with
  | Resolve pre =>
    {| prom := prom s; cs := cs s ++ [{| cp := if pre then CRet RCanceled None else CGate; cc := pre |}]; gs := gs s |}
  | Sect a =>
    match nth_error (cs s) a with
    | Some x =>
      match cp x with
      | CGate =>
        match prom s with
        | Some p => {| prom := prom s; cs := setc s a (CAwait p); gs := gs s |}
        | None => let p := length (gs s) in
                  {| prom := Some p; cs := setc s a (CAwait p); gs := gs s ++ [{| gp := GInCb (cc x); gsp := a |}] |}
        end
      | _ => s
      end
    | None => s
    end
  | WakeDone a =>
    match nth_error (cs s) a with
    | Some x =>
      match cp x with
      | CAwait p =>
        match done_res s p with
        | Some r =>
          {| prom := prom s;
             cs := setc s a (match r with
                             | RCanceled => if cc x then CRet RCanceled (Some p) else CGate
                             | _ => CRet r (Some p)
                             end);
             gs := gs s |}
        | None => s
        end
      | _ => s
      end
    | None => s
    end
  | WakeCtx a =>
    match nth_error (cs s) a with
    | Some x =>
      match cp x with
      | CAwait _ => if cc x then {| prom := prom s; cs := setc s a (CRet RCanceled None); gs := gs s |} else s
      | _ => s
      end
    | None => s
    end
  | CancelCtx a =>
    match nth_error (cs s) a with
    | Some x => {| prom := prom s; cs := set_nth (cs s) a {| cp := cp x; cc := true |}; gs := gs s |}
    | None => s
    end
  | CbReturn g o =>
    match nth_error (gs s) g with
    | Some y =>
      match gp y with
      | GInCb _ => {| prom := prom s; cs := cs s; gs := setg s g (if is_ok o then GSet o else GClear o) |}
      | _ => s
      end
    | None => s
    end
  | GStep g =>
    match nth_error (gs s) g with
    | Some y =>
      match gp y with
      | GClear o =>
        {| prom := match prom s with Some p => if Nat.eqb p g then None else Some p | None => None end;
           cs := cs s; gs := setg s g (GSet o) |}
      | GSet o => {| prom := prom s; cs := cs s; gs := setg s g (GPub (final_res s y o)) |}
      | GPub r => {| prom := prom s; cs := cs s; gs := setg s g (GDone r) |}
      | _ => s
      end
    | None => s
    end
  end.

Definition run (es : list ev) : st := fold_left step es init.

(* ---- predicates used by the statements ---- *)
Definition in_cb (y : gor) : bool := match gp y with GInCb _ => true | _ => false end.
(* the goroutine's promise is (still) the Once's current promise *)
Definition holds (y : gor) : bool :=
  match gp y with
  | GInCb _ | GClear _ => true
  | GSet o | GPub o | GDone o => is_ok o
  end.
Definition succeeded (s : st) (g : nat) (v : N) : Prop :=
  exists y, nth_error (gs s) g = Some y /\ (gp y = GSet (RVal v) \/ gp y = GPub (RVal v) \/ gp y = GDone (RVal v)).
(* the callback returned an error and the clear section has run *)
Definition failed (s : st) (g : nat) : Prop :=
  exists y, nth_error (gs s) g = Some y /\
    ((exists o, gp y = GSet o /\ is_ok o = false) \/ (exists r, gp y = GPub r /\ is_ok r = false) \/
     (exists r, gp y = GDone r /\ is_ok r = false)).

Definition c_enabled (s : st) (x : caller) : bool :=
  match cp x with
  | CGate => true
  | CAwait p => cc x || match done_res s p with Some _ => true | None => false end
  | CRet _ _ => false
  end.
Definition g_enabled (y : gor) : bool := match gp y with GClear _ | GSet _ | GPub _ => true | _ => false end.
(* no internal step (Sect, WakeDone, WakeCtx, GStep) is enabled; a callback inside user code waits for the environment *)
Definition quiescent (s : st) : bool :=
  forallb (fun x => negb (c_enabled s x)) (cs s) && forallb (fun y => negb (g_enabled y)) (gs s).

(* ---- MemoizeFunc (/repo/memo/memo.go) ----
   call:   if !started.Swap(true) { defer close(done); result, doneErr = fn(); return result, doneErr }
           else { <-done; return result, doneErr }
   Every atomic operation / plain access is its own step: swap, fn (user code), write of the result
   variables, close(done), and the read after <-done. *)
Inductive mpc :=
| MStart                  (* called, before the swap *)
| MInFn                   (* won the swap, inside fn *)
| MGot (o : res)          (* fn returned o, result variables not yet written *)
| MWrote (o : res)        (* result variables written, done not yet closed *)
| MRetF (o : res)         (* first caller returned (done closed by its defer) *)
| MWait                   (* lost the swap, blocked on <-done *)
| MRet (r : res).         (* a later caller returned what it read *)

Record mst := { started : bool; mresult : option res; mdone : bool; mcs : list mpc }.
Definition minit : mst := {| started := false; mresult := None; mdone := false; mcs := [] |}.

Inductive mev := MCall | MSwap (a : nat) | MFnReturn (a : nat) (o : res) | MWriteRes (a : nat) | MClose (a : nat) | MWake (a : nat).

Definition mset (s : mst) (a : nat) (p : mpc) : list mpc := set_nth (mcs s) a p.

Definition mstep (s : mst) (e : mev) : mst :=
  match e with
  | MCall => {| started := started s; mresult := mresult s; mdone := mdone s; mcs := mcs s ++ [MStart] |}
  | MSwap a =>
    match nth_error (mcs s) a with
    | Some MStart =>
      if started s then {| started := true; mresult := mresult s; mdone := mdone s; mcs := mset s a MWait |}
      else {| started := true; mresult := mresult s; mdone := mdone s; mcs := mset s a MInFn |}
    | _ => s
    end
  | MFnReturn a o =>
    match nth_error (mcs s) a with
    | Some MInFn => {| started := started s; mresult := mresult s; mdone := mdone s; mcs := mset s a (MGot o) |}
    | _ => s
    end
  | MWriteRes a =>
    match nth_error (mcs s) a with
    | Some (MGot o) => {| started := started s; mresult := Some o; mdone := mdone s; mcs := mset s a (MWrote o) |}
    | _ => s
    end
  | MClose a =>
    match nth_error (mcs s) a with
    | Some (MWrote o) => {| started := started s; mresult := mresult s; mdone := true; mcs := mset s a (MRetF o) |}
    | _ => s
    end
  | MWake a =>
    match nth_error (mcs s) a with
    | Some MWait =>
      if mdone s
      then {| started := started s; mresult := mresult s; mdone := mdone s;
              mcs := mset s a (MRet (match mresult s with Some r => r | None => RVal 0 end)) |}
      else s
    | _ => s
    end
  end.

Definition mrun (es : list mev) : mst := fold_left mstep es minit.

(* the caller that called fn *)
Definition is_first (p : mpc) : bool := match p with MInFn | MGot _ | MWrote _ | MRetF _ => true | _ => false end.
Definition m_in_fn (p : mpc) : bool := match p with MInFn => true | _ => false end.
Definition m_returned (p : mpc) : option res := match p with MRetF o | MRet o => Some o | _ => None end.
