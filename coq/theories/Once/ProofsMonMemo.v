(* C16, monitors vs. model for memo.MemoizeFunc: for EVERY list of harness events the monitors of Spec.v (mon_memo)
   report nothing on the observations the model itself produces under the codec-level step mhstep. *)
From Util Require Import Common.Base Common.ListLemmas Once.Model Once.Spec Once.Proofs Once.ProofsMon.

(* ------------------------------------------------------------------ one model step, entry by entry *)
Definition mtrans (s : mst) (e : mev) (j : nat) (p q : mpc) : Prop :=
  (e = MSwap j /\ p = MStart /\ q = if started s then MWait else MInFn) \/
  (exists o, e = MFnReturn j o /\ p = MInFn /\ q = MGot o) \/
  (exists o, e = MWriteRes j /\ p = MGot o /\ q = MWrote o) \/
  (exists o, e = MClose j /\ p = MWrote o /\ q = MRetF o) \/
  (exists r, e = MWake j /\ p = MWait /\ q = MRet r).

Lemma mset_nth (l : list mpc) a p j q : nth_error (set_nth l a p) j = Some q ->
  (j <> a /\ nth_error l j = Some q) \/ (j = a /\ q = p).
Proof. intros H. apply mset_lookup in H as [[H1 H2]|[H1 [H2 _]]]; auto. Qed.

Lemma mstep_entry s e j q : nth_error (mcs (mstep s e)) j = Some q ->
  nth_error (mcs s) j = Some q \/ (j = length (mcs s) /\ e = MCall /\ q = MStart) \/
  (exists p, nth_error (mcs s) j = Some p /\ mtrans s e j p q).
Proof.
  unfold mtrans. destruct e as [|a|a o|a|a|a]; cbn [mstep].
  - cbn [mcs]. intros H. apply app_lookup in H as [H|[-> ->]]; auto.
  - destruct (nth_error (mcs s) a) as [[]|] eqn:G; auto.
    destruct (started s) eqn:ES; cbn [mcs]; unfold mset; intros H; apply mset_nth in H as [[_ H]|[-> ->]]; auto;
      right; right; exists MStart; split; auto.
  - destruct (nth_error (mcs s) a) as [[]|] eqn:G; auto.
    cbn [mcs]; unfold mset; intros H; apply mset_nth in H as [[_ H]|[-> ->]]; auto. right; right; exists MInFn; split; eauto 8.
  - destruct (nth_error (mcs s) a) as [[]|] eqn:G; auto.
    cbn [mcs]; unfold mset; intros H; apply mset_nth in H as [[_ H]|[-> ->]]; auto. right; right; exists (MGot o); split; eauto 8.
  - destruct (nth_error (mcs s) a) as [[]|] eqn:G; auto.
    cbn [mcs]; unfold mset; intros H; apply mset_nth in H as [[_ H]|[-> ->]]; auto. right; right; exists (MWrote o); split; eauto 10.
  - destruct (nth_error (mcs s) a) as [[]|] eqn:G; auto. destruct (mdone s); auto.
    cbn [mcs]; unfold mset; intros H; apply mset_nth in H as [[_ H]|[-> ->]]; auto. right; right; exists MWait; split; eauto 10.
Qed.

Lemma mstep_fwd s e j p : nth_error (mcs s) j = Some p ->
  nth_error (mcs (mstep s e)) j = Some p \/ exists q, nth_error (mcs (mstep s e)) j = Some q /\ mtrans s e j p q.
Proof.
  intros G. pose proof (nth_error_nth_len _ _ _ G) as Hl.
  destruct (nth_error (mcs (mstep s e)) j) as [q|] eqn:G'.
  - destruct (mstep_entry _ _ _ _ G') as [H|[(Hj & _)|(p0 & Hp0 & Ht)]]; [left; congruence | lia |].
    right. exists q. split; [reflexivity|]. congruence.
  - exfalso. apply nth_error_None in G'. revert G'. destruct e as [|a|a o|a|a|a]; cbn [mstep].
    + cbn [mcs]. rewrite app_length. cbn [length]. lia.
    + destruct (nth_error (mcs s) a) as [[]|]; try lia. destruct (started s); cbn [mcs]; unfold mset; rewrite length_set_nth; lia.
    + destruct (nth_error (mcs s) a) as [[]|]; try lia. cbn [mcs]; unfold mset; rewrite length_set_nth; lia.
    + destruct (nth_error (mcs s) a) as [[]|]; try lia. cbn [mcs]; unfold mset; rewrite length_set_nth; lia.
    + destruct (nth_error (mcs s) a) as [[]|]; try lia. cbn [mcs]; unfold mset; rewrite length_set_nth; lia.
    + destruct (nth_error (mcs s) a) as [[]|]; try lia. destruct (mdone s); try lia. cbn [mcs]; unfold mset; rewrite length_set_nth; lia.
Qed.

Lemma mstep_started s e : started s = true -> started (mstep s e) = true.
Proof.
  intros H. destruct e as [|a|a o|a|a|a]; cbn [mstep]; auto.
  - destruct (nth_error (mcs s) a) as [[]|]; auto. destruct (started s); reflexivity.
  - destruct (nth_error (mcs s) a) as [[]|]; auto.
  - destruct (nth_error (mcs s) a) as [[]|]; auto.
  - destruct (nth_error (mcs s) a) as [[]|]; auto.
  - destruct (nth_error (mcs s) a) as [[]|]; auto. destruct (mdone s); auto.
Qed.

(* ------------------------------------------------------------------ runs of model steps *)
Definition mfold (evl : list mev) (s : mst) : mst := fold_left mstep evl s.

Lemma mfold_inv evl s : MInv s -> MInv (mfold evl s).
Proof. apply fold_inv. intros; now apply mstep_inv. Qed.

Lemma mfold_started evl s : started s = true -> started (mfold evl s) = true.
Proof. apply (fold_inv (fun s => started s = true)). intros; now apply mstep_started. Qed.

Lemma mfold_retf evl s f o : nth_error (mcs s) f = Some (MRetF o) -> nth_error (mcs (mfold evl s)) f = Some (MRetF o).
Proof.
  apply (fold_inv (fun s => nth_error (mcs s) f = Some (MRetF o))). intros s0 e H.
  destruct (mstep_fwd s0 e _ _ H) as [H'|(q & _ & Ht)]; [exact H'|]. exfalso. unfold mtrans in Ht.
  destruct Ht as [(_ & Hp & _)|[(o' & _ & Hp & _)|[(o' & _ & Hp & _)|[(o' & _ & Hp & _)|(r & _ & Hp & _)]]]]; discriminate.
Qed.

Lemma mfold_no_retf evl : forall s, (forall a, ~ In (MClose a) evl) -> (forall f o, nth_error (mcs s) f <> Some (MRetF o)) ->
  forall f o, nth_error (mcs (mfold evl s)) f <> Some (MRetF o).
Proof.
  induction evl as [|e evl IH]; intros s Hn H; [exact H|]. cbn [mfold fold_left]. apply IH.
  - intros a Ha. apply (Hn a). now right.
  - intros f o G'. destruct (mstep_entry _ _ _ _ G') as [G|[(_ & _ & Hq)|(p & _ & Ht)]]; [eapply H; eauto | discriminate|].
    unfold mtrans in Ht. destruct Ht as [(_ & _ & Hq)|[(o' & _ & _ & Hq)|[(o' & _ & _ & Hq)|[(o' & He & _ & _)|(r & _ & _ & Hq)]]]];
      try discriminate.
    + destruct (started s); discriminate.
    + apply (Hn f). left. auto.
Qed.

Lemma mfold_infn_back evl : forall s j, started s = true -> nth_error (mcs (mfold evl s)) j = Some MInFn -> nth_error (mcs s) j = Some MInFn.
Proof.
  induction evl as [|e evl IH]; intros s j Hs H; [exact H|]. cbn [mfold fold_left] in H.
  apply IH in H; [|now apply mstep_started].
  destruct (mstep_entry _ _ _ _ H) as [G|[(_ & _ & Hq)|(p & _ & Ht)]]; [exact G | discriminate|].
  exfalso. unfold mtrans in Ht. rewrite Hs in Ht.
  destruct Ht as [(_ & _ & Hq)|[(o' & _ & _ & Hq)|[(o' & _ & _ & Hq)|[(o' & _ & _ & Hq)|(r & _ & _ & Hq)]]]]; discriminate.
Qed.

Lemma mfold_infn_fwd evl : forall s j, (forall o, ~ In (MFnReturn j o) evl) -> nth_error (mcs s) j = Some MInFn ->
  nth_error (mcs (mfold evl s)) j = Some MInFn.
Proof.
  induction evl as [|e evl IH]; intros s j Hn H; [exact H|]. cbn [mfold fold_left]. apply IH.
  - intros o Ho. apply (Hn o). now right.
  - destruct (mstep_fwd s e _ _ H) as [H'|(q & _ & Ht)]; [exact H'|]. exfalso. unfold mtrans in Ht.
    destruct Ht as [(_ & Hp & _)|[(o' & He & _)|[(o' & _ & Hp & _)|[(o' & _ & Hp & _)|(r & _ & Hp & _)]]]]; try discriminate.
    apply (Hn o'). left. auto.
Qed.

Lemma mfold_app l1 l2 s : mfold (l1 ++ l2) s = mfold l2 (mfold l1 s).
Proof. apply fold_left_app. Qed.

(* ------------------------------------------------------------------ decomposition of mhstep *)
Lemma msettle_fold s : exists l, msettle s = mfold (map MWake l) s.
Proof.
  exists (seq 0 (length (mcs s))). unfold msettle, mfold. generalize (seq 0 (length (mcs s))) as l. generalize s as s0.
  intros s0 l. revert s0. induction l as [|a l IH]; intros s0; cbn [fold_left map]; [reflexivity | apply IH].
Qed.

Lemma calls_fold k : forall b s, fold_left (fun s (_ : nat) => mstep s MCall) (seq b k) s = mfold (repeat MCall k) s.
Proof. induction k as [|k IH]; intros b s; cbn [seq repeat fold_left mfold]; [reflexivity | apply IH]. Qed.

Lemma swaps_fold l : forall s, fold_left (fun s a => mstep s (MSwap a)) l s = mfold (map MSwap l) s.
Proof. induction l as [|a l IH]; intros s; cbn [map fold_left mfold]; [reflexivity | apply IH]. Qed.

Lemma calls_mcs k : forall s, mcs (mfold (repeat MCall k) s) = mcs s ++ repeat MStart k /\ started (mfold (repeat MCall k) s) = started s.
Proof.
  induction k as [|k IH]; intros s; cbn [repeat mfold fold_left]; [now rewrite app_nil_r|].
  destruct (IH (mstep s MCall)) as [H1 H2]. unfold mfold in *. rewrite H1, H2. cbn [mstep mcs started]. rewrite <- app_assoc. auto.
Qed.

Inductive mdec (s : mst) : list N -> mst -> Prop :=
| MD_call : mdec s [1]%N (mfold [MCall; MSwap (length (mcs s)); MWake (length (mcs s))] s)
| MD_ret i k o l : nth_error (mcs s) (N.to_nat i) = Some MInFn -> moutcome i k = Some o ->
    mdec s [2; i; k]%N (mfold ([MFnReturn (N.to_nat i) o; MWriteRes (N.to_nat i); MClose (N.to_nat i)] ++ map MWake l) s)
| MD_many n w l : N.ltb w n = true ->
    mdec s [3; n; w]%N (mfold (repeat MCall (N.to_nat n) ++ [MSwap (length (mcs s) + N.to_nat w)] ++
                               map MSwap (seq (length (mcs s)) (N.to_nat n)) ++ map MWake l) s).

Opaque mstep.
Lemma mhstep_mdec s e s' o : mhstep s e = Some (s', o) -> mdec s e s' /\ o = mobs s'.
Proof.
  unfold mhstep. intros H.
  repeat (match type of H with context [match ?t with _ => _ end] => destruct t eqn:?; try discriminate H end).
  all: injection H as Hs Ho; subst o; subst s'; (split; [|reflexivity]); subst.
  - apply MD_call.
  - match goal with |- mdec _ _ (msettle ?s3) => destruct (msettle_fold s3) as [l ->] end.
    match goal with Hi : nth_error _ _ = Some MInFn, Ho : moutcome _ _ = Some _ |- _ => pose proof (MD_ret s _ _ _ l Hi Ho) as D end.
    rewrite mfold_app in D. exact D.
  - match goal with |- mdec _ _ (msettle ?s3) => destruct (msettle_fold s3) as [l ->] end.
    match goal with Hb : (_ && _)%bool = true |- _ => apply andb_true_iff in Hb as [Hb _]; pose proof (MD_many s _ _ l Hb) as D end.
    rewrite !mfold_app in D. rewrite calls_fold, swaps_fold. exact D.
Qed.
Transparent mstep.
