(* C16, monitors vs. model for memo.MemoizeFunc: for EVERY list of harness events the monitors of Spec.v (mon_memo)
   report nothing on the observations the model itself produces under the codec-level step mhstep. *)
From Util Require Import Common.Base Common.ListLemmas Once.Model Once.Spec Once.Proofs Once.ProofsMon.

(* ------------------------------------------------------------------ one model step, entry by entry *)
Definition mtrans (s : mst) (e : mev) (j : nat) (p q : mpc) : Prop :=
  (e = MSwap j /\ p = MStart /\ q = if started s then MWait else MInFn) \/
  (exists o, e = MFnReturn j o /\ p = MInFn /\ q = MGot o) \/
  (exists o, e = MWriteRes j /\ p = MGot o /\ q = MWrote o) \/
  (exists o, e = MClose j /\ p = MWrote o /\ q = MRetF o) \/
  (exists r, e = MWake j /\ p = MWait /\ q = MRet r).

Lemma mset_nth (l : list mpc) a p j q : nth_error (set_nth l a p) j = Some q ->
  (j <> a /\ nth_error l j = Some q) \/ (j = a /\ q = p).
Proof. intros H. apply mset_lookup in H as [[H1 H2]|[H1 [H2 _]]]; auto. Qed.

Lemma mstep_entry s e j q : nth_error (mcs (mstep s e)) j = Some q ->
  nth_error (mcs s) j = Some q \/ (j = length (mcs s) /\ e = MCall /\ q = MStart) \/
  (exists p, nth_error (mcs s) j = Some p /\ mtrans s e j p q).
Proof.
  unfold mtrans. destruct e as [|a|a o|a|a|a]; cbn [mstep].
  - cbn [mcs]. intros H. apply app_lookup in H as [H|[-> ->]]; auto.
  - destruct (nth_error (mcs s) a) as [[]|] eqn:G; auto.
    destruct (started s) eqn:ES; cbn [mcs]; unfold mset; intros H; apply mset_nth in H as [[_ H]|[-> ->]]; auto;
      right; right; exists MStart; split; auto.
  - destruct (nth_error (mcs s) a) as [[]|] eqn:G; auto.
    cbn [mcs]; unfold mset; intros H; apply mset_nth in H as [[_ H]|[-> ->]]; auto. right; right; exists MInFn; split; eauto 8.
  - destruct (nth_error (mcs s) a) as [[]|] eqn:G; auto.
    cbn [mcs]; unfold mset; intros H; apply mset_nth in H as [[_ H]|[-> ->]]; auto. right; right; exists (MGot o); split; eauto 8.
  - destruct (nth_error (mcs s) a) as [[]|] eqn:G; auto.
    cbn [mcs]; unfold mset; intros H; apply mset_nth in H as [[_ H]|[-> ->]]; auto. right; right; exists (MWrote o); split; eauto 10.
  - destruct (nth_error (mcs s) a) as [[]|] eqn:G; auto. destruct (mdone s); auto.
    cbn [mcs]; unfold mset; intros H; apply mset_nth in H as [[_ H]|[-> ->]]; auto. right; right; exists MWait; split; eauto 10.
Qed.

Lemma mstep_fwd s e j p : nth_error (mcs s) j = Some p ->
  nth_error (mcs (mstep s e)) j = Some p \/ exists q, nth_error (mcs (mstep s e)) j = Some q /\ mtrans s e j p q.
Proof.
  intros G. pose proof (nth_error_nth_len _ _ _ G) as Hl.
  destruct (nth_error (mcs (mstep s e)) j) as [q|] eqn:G'.
  - destruct (mstep_entry _ _ _ _ G') as [H|[(Hj & _)|(p0 & Hp0 & Ht)]]; [left; congruence | lia |].
    right. exists q. split; [reflexivity|]. congruence.
  - exfalso. apply nth_error_None in G'. revert G'. destruct e as [|a|a o|a|a|a]; cbn [mstep].
    + cbn [mcs]. rewrite app_length. cbn [length]. lia.
    + destruct (nth_error (mcs s) a) as [[]|]; try lia. destruct (started s); cbn [mcs]; unfold mset; rewrite length_set_nth; lia.
    + destruct (nth_error (mcs s) a) as [[]|]; try lia. cbn [mcs]; unfold mset; rewrite length_set_nth; lia.
    + destruct (nth_error (mcs s) a) as [[]|]; try lia. cbn [mcs]; unfold mset; rewrite length_set_nth; lia.
    + destruct (nth_error (mcs s) a) as [[]|]; try lia. cbn [mcs]; unfold mset; rewrite length_set_nth; lia.
    + destruct (nth_error (mcs s) a) as [[]|]; try lia. destruct (mdone s); try lia. cbn [mcs]; unfold mset; rewrite length_set_nth; lia.
Qed.

Lemma mstep_started s e : started s = true -> started (mstep s e) = true.
Proof.
  intros H. destruct e as [|a|a o|a|a|a]; cbn [mstep]; auto.
  - destruct (nth_error (mcs s) a) as [[]|]; auto. destruct (started s); reflexivity.
  - destruct (nth_error (mcs s) a) as [[]|]; auto.
  - destruct (nth_error (mcs s) a) as [[]|]; auto.
  - destruct (nth_error (mcs s) a) as [[]|]; auto.
  - destruct (nth_error (mcs s) a) as [[]|]; auto. destruct (mdone s); auto.
Qed.

(* ------------------------------------------------------------------ runs of model steps *)
Definition mfold (evl : list mev) (s : mst) : mst := fold_left mstep evl s.

Lemma mfold_inv evl s : MInv s -> MInv (mfold evl s).
Proof. apply fold_inv. intros; now apply mstep_inv. Qed.

Lemma mfold_started evl s : started s = true -> started (mfold evl s) = true.
Proof. apply (fold_inv (fun s => started s = true)). intros; now apply mstep_started. Qed.

Lemma mfold_retf evl s f o : nth_error (mcs s) f = Some (MRetF o) -> nth_error (mcs (mfold evl s)) f = Some (MRetF o).
Proof.
  apply (fold_inv (fun s => nth_error (mcs s) f = Some (MRetF o))). intros s0 e H.
  destruct (mstep_fwd s0 e _ _ H) as [H'|(q & _ & Ht)]; [exact H'|]. exfalso. unfold mtrans in Ht.
  destruct Ht as [(_ & Hp & _)|[(o' & _ & Hp & _)|[(o' & _ & Hp & _)|[(o' & _ & Hp & _)|(r & _ & Hp & _)]]]]; discriminate.
Qed.

Lemma mfold_no_retf evl : forall s, (forall a, ~ In (MClose a) evl) -> (forall f o, nth_error (mcs s) f <> Some (MRetF o)) ->
  forall f o, nth_error (mcs (mfold evl s)) f <> Some (MRetF o).
Proof.
  induction evl as [|e evl IH]; intros s Hn H; [exact H|]. cbn [mfold fold_left]. apply IH.
  - intros a Ha. apply (Hn a). now right.
  - intros f o G'. destruct (mstep_entry _ _ _ _ G') as [G|[(_ & _ & Hq)|(p & _ & Ht)]]; [eapply H; eauto | discriminate|].
    unfold mtrans in Ht. destruct Ht as [(_ & _ & Hq)|[(o' & _ & _ & Hq)|[(o' & _ & _ & Hq)|[(o' & He & _ & _)|(r & _ & _ & Hq)]]]];
      try discriminate.
    + destruct (started s); discriminate.
    + apply (Hn f). left. auto.
Qed.

Lemma mfold_infn_back evl : forall s j, started s = true -> nth_error (mcs (mfold evl s)) j = Some MInFn -> nth_error (mcs s) j = Some MInFn.
Proof.
  induction evl as [|e evl IH]; intros s j Hs H; [exact H|]. cbn [mfold fold_left] in H.
  apply IH in H; [|now apply mstep_started].
  destruct (mstep_entry _ _ _ _ H) as [G|[(_ & _ & Hq)|(p & _ & Ht)]]; [exact G | discriminate|].
  exfalso. unfold mtrans in Ht. rewrite Hs in Ht.
  destruct Ht as [(_ & _ & Hq)|[(o' & _ & _ & Hq)|[(o' & _ & _ & Hq)|[(o' & _ & _ & Hq)|(r & _ & _ & Hq)]]]]; discriminate.
Qed.

Lemma mfold_infn_fwd evl : forall s j, (forall o, ~ In (MFnReturn j o) evl) -> nth_error (mcs s) j = Some MInFn ->
  nth_error (mcs (mfold evl s)) j = Some MInFn.
Proof.
  induction evl as [|e evl IH]; intros s j Hn H; [exact H|]. cbn [mfold fold_left]. apply IH.
  - intros o Ho. apply (Hn o). now right.
  - destruct (mstep_fwd s e _ _ H) as [H'|(q & _ & Ht)]; [exact H'|]. exfalso. unfold mtrans in Ht.
    destruct Ht as [(_ & Hp & _)|[(o' & He & _)|[(o' & _ & Hp & _)|[(o' & _ & Hp & _)|(r & _ & Hp & _)]]]]; try discriminate.
    apply (Hn o'). left. auto.
Qed.

Lemma mfold_app l1 l2 s : mfold (l1 ++ l2) s = mfold l2 (mfold l1 s).
Proof. apply fold_left_app. Qed.

(* ------------------------------------------------------------------ decomposition of mhstep *)
Lemma msettle_fold s : exists l, msettle s = mfold (map MWake l) s.
Proof.
  exists (seq 0 (length (mcs s))). unfold msettle, mfold. generalize (seq 0 (length (mcs s))) as l. generalize s as s0.
  intros s0 l. revert s0. induction l as [|a l IH]; intros s0; cbn [fold_left map]; [reflexivity | apply IH].
Qed.

Lemma calls_fold k : forall b s, fold_left (fun s (_ : nat) => mstep s MCall) (seq b k) s = mfold (repeat MCall k) s.
Proof. induction k as [|k IH]; intros b s; cbn [seq repeat fold_left mfold]; [reflexivity | apply IH]. Qed.

Lemma swaps_fold l : forall s, fold_left (fun s a => mstep s (MSwap a)) l s = mfold (map MSwap l) s.
Proof. induction l as [|a l IH]; intros s; cbn [map fold_left mfold]; [reflexivity | apply IH]. Qed.

Lemma calls_mcs k : forall s, mcs (mfold (repeat MCall k) s) = mcs s ++ repeat MStart k /\ started (mfold (repeat MCall k) s) = started s.
Proof.
  induction k as [|k IH]; intros s; cbn [repeat mfold fold_left]; [now rewrite app_nil_r|].
  destruct (IH (mstep s MCall)) as [H1 H2]. unfold mfold in *. rewrite H1, H2. cbn [mstep mcs started]. rewrite <- app_assoc. auto.
Qed.

Inductive mdec (s : mst) : list N -> mst -> Prop :=
| MD_call : mdec s [1]%N (mfold [MCall; MSwap (length (mcs s)); MWake (length (mcs s))] s)
| MD_ret i k o l : nth_error (mcs s) (N.to_nat i) = Some MInFn -> moutcome i k = Some o ->
    mdec s [2; i; k]%N (mfold ([MFnReturn (N.to_nat i) o; MWriteRes (N.to_nat i); MClose (N.to_nat i)] ++ map MWake l) s)
| MD_many n w l : N.ltb w n = true ->
    mdec s [3; n; w]%N (mfold (repeat MCall (N.to_nat n) ++ [MSwap (length (mcs s) + N.to_nat w)] ++
                               map MSwap (seq (length (mcs s)) (N.to_nat n)) ++ map MWake l) s).

Opaque mstep.
Lemma mhstep_mdec s e s' o : mhstep s e = Some (s', o) -> mdec s e s' /\ o = mobs s'.
Proof.
  unfold mhstep. intros H.
  repeat (match type of H with context [match ?t with _ => _ end] => destruct t eqn:?; try discriminate H end).
  all: injection H as Hs Ho; subst o; subst s'; (split; [|reflexivity]); subst.
  all: try apply MD_call.
  - match goal with |- mdec _ _ (msettle ?s3) => destruct (msettle_fold s3) as [l ->] end.
    match goal with Hb : (_ && _)%bool = true |- _ => apply andb_true_iff in Hb as [Hb _]; pose proof (MD_many s _ _ l Hb) as D end.
    rewrite !mfold_app in D. rewrite calls_fold, swaps_fold. exact D.
  - match goal with |- mdec _ _ (msettle ?s3) => destruct (msettle_fold s3) as [l ->] end.
    match goal with Hi : nth_error _ _ = Some MInFn, Ho : moutcome _ _ = Some _ |- _ => pose proof (MD_ret s _ _ _ l Hi Ho) as D end.
    rewrite mfold_app in D. exact D.
Qed.
Transparent mstep.

(* ------------------------------------------------------------------ what one harness step does to the model *)
Lemma swap_start s a : nth_error (mcs s) a = Some MStart ->
  started (mstep s (MSwap a)) = true /\ (started s = false -> nth_error (mcs (mstep s (MSwap a))) a = Some MInFn).
Proof.
  intros G. cbn [mstep]. rewrite G. destruct (started s); cbn [started mcs]; (split; [reflexivity|]); [discriminate|].
  intros _. unfold mset. apply nth_error_set_nth_same. eapply nth_error_nth_len; eauto.
Qed.

Lemma in_map_inv {A B} (f : A -> B) l b : In b (map f l) -> exists a, b = f a.
Proof. intros H. apply in_map_iff in H as (a & <- & _). eauto. Qed.

Definition MFacts (s : mst) (e : list N) (s' : mst) : Prop :=
  MInv s' /\ started s' = true /\
  (started s = true -> forall j, nth_error (mcs s') j = Some MInFn -> nth_error (mcs s) j = Some MInFn) /\
  (started s = false -> exists j, nth_error (mcs s') j = Some MInFn) /\
  (forall f o, nth_error (mcs s) f = Some (MRetF o) -> nth_error (mcs s') f = Some (MRetF o)) /\
  (forall i k, e = [2; i; k]%N -> exists o, moutcome i k = Some o /\ nth_error (mcs s') (N.to_nat i) = Some (MRetF o)) /\
  ((forall i k, e <> [2; i; k]%N) -> (forall f o, nth_error (mcs s) f <> Some (MRetF o)) ->
   forall f o, nth_error (mcs s') f <> Some (MRetF o)).

Lemma mdec_facts s e s' : mdec s e s' -> MInv s -> MFacts s e s'.
Proof.
  intros D HI. unfold MFacts. destruct D as [|i k o l Gi Ho|n w l Hw].
  - set (a := length (mcs s)).
    assert (G1 : nth_error (mcs (mstep s MCall)) a = Some MStart) by (cbn [mstep mcs]; apply nth_error_app_last).
    destruct (swap_start _ _ G1) as [Hst Hin].
    change (mfold [MCall; MSwap a; MWake a] s) with (mfold [MWake a] (mstep (mstep s MCall) (MSwap a))).
    refine (conj _ (conj _ (conj _ (conj _ (conj _ (conj _ _)))))).
    + apply mfold_inv. now repeat apply mstep_inv.
    + now apply mfold_started.
    + intros Hs j Hj. change (mfold [MWake a] (mstep (mstep s MCall) (MSwap a))) with (mfold [MCall; MSwap a; MWake a] s) in Hj.
      exact (mfold_infn_back _ _ _ Hs Hj).
    + intros Hs. exists a. apply mfold_infn_fwd; [|apply Hin; exact Hs]. intros o [H|[]]. discriminate.
    + intros f o G. change (mfold [MWake a] (mstep (mstep s MCall) (MSwap a))) with (mfold [MCall; MSwap a; MWake a] s). now apply mfold_retf.
    + intros i k H. discriminate.
    + intros _ Hn. change (mfold [MWake a] (mstep (mstep s MCall) (MSwap a))) with (mfold [MCall; MSwap a; MWake a] s).
      apply mfold_no_retf; [|exact Hn]. intros a0 [H|[H|[H|[]]]]; discriminate.
  - set (a := N.to_nat i) in *. pose proof HI as HI0. minv_names HI0. pose proof (M1 _ _ Gi eq_refl) as Hs.
    assert (Hl : a < length (mcs s)) by (eapply nth_error_nth_len; eauto).
    assert (G3 : nth_error (mcs (mfold [MFnReturn a o; MWriteRes a; MClose a] s)) a = Some (MRetF o)).
    { cbn [mfold fold_left]. cbn [mstep]. rewrite Gi. cbn [mcs]. unfold mset. rewrite nth_error_set_nth_same by exact Hl.
      cbn [mcs]. rewrite nth_error_set_nth_same by (rewrite length_set_nth; exact Hl).
      cbn [mcs]. apply nth_error_set_nth_same. rewrite !length_set_nth. exact Hl. }
    refine (conj _ (conj _ (conj _ (conj _ (conj _ (conj _ _)))))).
    + now apply mfold_inv.
    + now apply mfold_started.
    + intros _ j Hj. exact (mfold_infn_back _ _ _ Hs Hj).
    + congruence.
    + intros f o0 G. now apply mfold_retf.
    + intros i0 k0 H. inversion H; subst i0 k0. exists o. split; [exact Ho|]. rewrite mfold_app. now apply mfold_retf.
    + intros Hn. exfalso. eapply Hn; reflexivity.
  - set (b := length (mcs s)) in *. set (k := N.to_nat n) in *. apply N.ltb_lt in Hw.
    destruct (calls_mcs k s) as [Hc Hcs].
    assert (G1 : nth_error (mcs (mfold (repeat MCall k) s)) (b + N.to_nat w) = Some MStart).
    { rewrite Hc, nth_error_app2 by (unfold b; lia). replace (b + N.to_nat w - length (mcs s)) with (N.to_nat w) by (unfold b; lia).
      apply nth_error_repeat. unfold k. lia. }
    destruct (swap_start _ _ G1) as [Hst Hin].
    refine (conj _ (conj _ (conj _ (conj _ (conj _ (conj _ _)))))).
    + now apply mfold_inv.
    + rewrite mfold_app. change (mfold ([MSwap (b + N.to_nat w)] ++ ?t) ?s0) with (mfold t (mstep s0 (MSwap (b + N.to_nat w)))).
      now apply mfold_started.
    + intros Hs j Hj. exact (mfold_infn_back _ _ _ Hs Hj).
    + intros Hs. exists (b + N.to_nat w). rewrite mfold_app.
      change (mfold ([MSwap (b + N.to_nat w)] ++ ?t) ?s0) with (mfold t (mstep s0 (MSwap (b + N.to_nat w)))).
      apply mfold_infn_fwd; [|apply Hin; congruence].
      intros o H. apply in_app_or in H as [H|H]; apply in_map_inv in H as [x Hx]; discriminate.
    + intros f o G. now apply mfold_retf.
    + intros i k0 H. discriminate.
    + intros _ Hn. apply mfold_no_retf; [|exact Hn]. intros a0 H.
      apply in_app_or in H as [H|H]; [apply repeat_spec in H; discriminate|].
      apply in_app_or in H as [H|H]; [destruct H as [H|[]]; discriminate|].
      apply in_app_or in H as [H|H]; apply in_map_inv in H as [x Hx]; discriminate.
Qed.

(* ------------------------------------------------------------------ mon_memo, with its parts named *)
Definition mcodep (p : mpc) : N * N :=
  match p with
  | MStart => (1, 0) | MInFn => (6, 0) | MGot _ | MWrote _ => (7, 0) | MWait => (2, 0)
  | MRetF o | MRet o => rcode o
  end%N.
Definition mc1 (p : mpc) : N := fst (mcodep p).

Lemma mcode_mcodep p : mcode p = [fst (mcodep p); snd (mcodep p)].
Proof. destruct p as [| |o|o|o| |o]; try reflexivity; destruct o; reflexivity. Qed.

Lemma pairs_mobs s : pairs (mobs s) = map mcodep (mcs s).
Proof.
  unfold mobs. induction (mcs s) as [|x l IH]; [reflexivity|].
  cbn [flat_map map]. rewrite mcode_mcodep. cbn [app pairs]. rewrite IH. now destruct (mcodep x).
Qed.

Definition mm_entered (prev : list N) (returning : option nat) (jc : nat * N) : bool :=
  N.eqb (snd jc) 6 &&
  (negb (N.eqb (nth (fst jc) prev 0%N) 6) || match returning with Some a => Nat.eqb a (fst jc) | None => false end).
Definition mm_returning (e : list N) : option nat := match e with [2; i; _] => Some (N.to_nat i) | _ => None end%N.
Definition mm_ret1 (m : mmon) (e : list N) : option (N * N) :=
  match e with
  | [2; i; k] => match mm_ret m with
                 | Some x => Some x
                 | None => Some (if N.eqb k 0 then (3, i + 1) else (5, epack (k - 1) (i + 1)))
                 end
  | _ => mm_ret m
  end%N.
Definition mm_bad (ret1 : option (N * N)) (p : N * N) : bool :=
  match ret1 with
  | Some (c, v) => negb (N.eqb c (fst p) && N.eqb v (snd p))
  | None => true
  end.

Lemma mon_memo_eq m e o :
  mon_memo m e o =
  let ps := pairs o in
  let codes := map fst ps in
  let entries := mm_entries m + length (filter (mm_entered (mm_prev m) (mm_returning e)) (combine (seq 0 (length codes)) codes)) in
  let ret1 := mm_ret1 m e in
  let returned := filter (fun p : N * N => is_ret_code (fst p)) ps in
  ({| mm_prev := codes; mm_entries := entries; mm_ret := ret1 |},
   (if Nat.ltb 1 entries || (Nat.ltb 0 (length returned) && Nat.eqb entries 0) then [(16, 6)] else []) ++
   (if existsb (mm_bad ret1) returned then [(16, 7)] else []) ++
   (if existsb (fun p : N * N => N.eqb (fst p) 11) ps then [(16, 8)] else [])).
Proof. reflexivity. Qed.

(* ------------------------------------------------------------------ the simulation relation *)
Definition retrel (ret : option (N * N)) (s : mst) : Prop :=
  match ret with
  | Some cv => exists f o, nth_error (mcs s) f = Some (MRetF o) /\ rcode o = cv
  | None => forall f o, nth_error (mcs s) f <> Some (MRetF o)
  end.

Definition RM (m : mmon) (s : mst) : Prop :=
  MInv s /\ mm_prev m = map mc1 (mcs s) /\ mm_entries m = b2n (started s) /\ retrel (mm_ret m) s.

Lemma mc1_infn p : mc1 p = 6%N <-> p = MInFn.
Proof.
  split; [|intros ->; reflexivity]. unfold mc1. destruct p as [| |o|o|o| |o]; cbn; try discriminate; auto; destruct o; discriminate.
Qed.

Lemma filter_combine_seq {A} (f : nat * A -> bool) (P : A -> bool) (l : list A) : forall b,
  (forall j c, nth_error l j = Some c -> f (b + j, c) = P c) ->
  length (filter f (combine (seq b (length l)) l)) = length (filter P l).
Proof.
  induction l as [|x l IH]; intros b H; [reflexivity|]. cbn [length seq combine filter].
  pose proof (H 0 x eq_refl) as H0. rewrite Nat.add_0_r in H0. rewrite H0.
  assert (IH' : length (filter f (combine (seq (S b) (length l)) l)) = length (filter P l)).
  { apply IH. intros j c Hj. replace (S b + j) with (b + S j) by lia. now apply H. }
  destruct (P x); cbn [length]; now rewrite IH'.
Qed.

Lemma cnt_infn_codes l : length (filter (fun c => N.eqb c 6) (map mc1 l)) = cnt m_in_fn l.
Proof.
  unfold cnt. induction l as [|p l IH]; [reflexivity|]. cbn [map filter].
  assert (E : N.eqb (mc1 p) 6 = m_in_fn p).
  { destruct (N.eqb_spec (mc1 p) 6) as [H|H].
    - apply mc1_infn in H. now subst p.
    - destruct p; try reflexivity. exfalso. apply H. reflexivity. }
  rewrite E. destruct (m_in_fn p); cbn [length]; now rewrite IH.
Qed.

Lemma nth_prev s j : nth j (map mc1 (mcs s)) 0%N = 6%N -> nth_error (mcs s) j = Some MInFn.
Proof.
  intros H. destruct (nth_error (mcs s) j) as [p|] eqn:G.
  - erewrite (nth_error_nth (map mc1 (mcs s)) j 0%N) in H by (apply map_nth_error; exact G). apply mc1_infn in H. now subst p.
  - apply nth_error_None in G. rewrite nth_overflow in H by (rewrite map_length; exact G). discriminate.
Qed.

Lemma mdec_shape s e s' : mdec s e s' -> e = [1]%N \/ (exists i k, e = [2; i; k]%N) \/ (exists n w, e = [3; n; w]%N).
Proof. intros D. destruct D; eauto 6. Qed.

Lemma retf_unique s f1 o1 f2 o2 : MInv s -> nth_error (mcs s) f1 = Some (MRetF o1) -> nth_error (mcs s) f2 = Some (MRetF o2) -> o1 = o2.
Proof.
  intros HI H1 H2. minv_names HI. assert (f1 = f2) by (eapply M2; eauto). subst f2. congruence.
Qed.

Lemma ret1_rel m s e s' : RM m s -> mdec s e s' -> MFacts s e s' -> retrel (mm_ret1 m e) s'.
Proof.
  intros (HI & _ & _ & HR) D (HI' & _ & _ & _ & F5 & F6 & F7).
  destruct (mdec_shape _ _ _ D) as [->|[(i & k & ->)|(n & w & ->)]]; cbn [mm_ret1].
  - destruct (mm_ret m) as [cv|]; cbn [retrel] in *.
    + destruct HR as (f & o & G & E). exists f, o. auto.
    + apply F7; [intros; discriminate | exact HR].
  - destruct (F6 _ _ eq_refl) as (o & Ho & Go). destruct (mm_ret m) as [cv|]; cbn [retrel] in *.
    + destruct HR as (f & o1 & G & E). exists f, o1. auto.
    + exists (N.to_nat i), o. split; [exact Go|]. unfold moutcome in Ho.
      destruct (N.eqb k 0); [inversion Ho; reflexivity|]. destruct (N.leb k 64); inversion Ho. reflexivity.
  - destruct (mm_ret m) as [cv|]; cbn [retrel] in *.
    + destruct HR as (f & o & G & E). exists f, o. auto.
    + apply F7; [intros; discriminate | exact HR].
Qed.

Lemma mcodep_ret p : is_ret_code (fst (mcodep p)) = true -> exists o, (p = MRetF o \/ p = MRet o) /\ mcodep p = rcode o.
Proof. destruct p; cbn; try discriminate; eauto. Qed.

Lemma mon_step_memo m s e s' o : RM m s -> mhstep s e = Some (s', o) ->
  exists m', mon_memo m e o = (m', []) /\ RM m' s'.
Proof.
  intros HRm Hst. apply mhstep_mdec in Hst as [D ->]. pose proof HRm as (HI & HP & HE & HR).
  pose proof (mdec_facts _ _ _ D HI) as HF. pose proof (ret1_rel _ _ _ _ HRm D HF) as HR1.
  destruct HF as (HI' & Hst' & F3 & F4 & F5 & F6 & F7).
  rewrite mon_memo_eq. cbv zeta. rewrite pairs_mobs, map_map. change (map (fun x => fst (mcodep x)) (mcs s')) with (map mc1 (mcs s')).
  (* fn has been entered exactly once so far *)
  assert (Hent : mm_entries m + length (filter (mm_entered (mm_prev m) (mm_returning e))
                                         (combine (seq 0 (length (map mc1 (mcs s')))) (map mc1 (mcs s')))) = 1).
  { rewrite HE, HP. destruct (started s) eqn:Es; cbn [b2n].
    - rewrite (filter_combine_seq _ (fun _ => false)).
      + replace (length (filter (fun _ : N => false) (map mc1 (mcs s')))) with 0; [reflexivity|].
        symmetry. generalize (map mc1 (mcs s')) as l. induction l; cbn; auto.
      + intros j c Hj. cbn [Nat.add]. unfold mm_entered. cbn [fst snd].
        destruct (N.eqb_spec c 6) as [->|Hc]; [|reflexivity]. cbn [andb].
        apply nth_error_map_inv in Hj as (p & Gp & Ep). symmetry in Ep. apply mc1_infn in Ep. subst p.
        pose proof (F3 eq_refl _ Gp) as G0.
        erewrite (nth_error_nth (map mc1 (mcs s)) j 0%N) by (apply map_nth_error; exact G0). cbn [mc1 mcodep fst N.eqb Pos.eqb negb orb].
        destruct (mdec_shape _ _ _ D) as [->|[(i & k & ->)|(n & w & ->)]]; cbn [mm_returning]; try reflexivity.
        destruct (F6 _ _ eq_refl) as (o & _ & Go). apply Nat.eqb_neq. intros <-. congruence.
    - rewrite (filter_combine_seq _ (fun c => N.eqb c 6)).
      + rewrite cnt_infn_codes. destruct (F4 eq_refl) as [j Gj].
        pose proof (nth_error_cnt_pos m_in_fn _ _ _ Gj eq_refl) as Hpos.
        assert (Hle : cnt m_in_fn (mcs s') <= 1).
        { pose proof HI' as HIc. minv_names HIc.
          pose proof (cnt_le m_in_fn is_first (mcs s')) as Hc. assert (Himp : forall x, m_in_fn x = true -> is_first x = true) by (intros []; auto).
          specialize (Hc Himp). pose proof (uniq_cnt_le1 is_first (mcs s') M2). lia. }
        lia.
      + intros j c Hj. cbn [Nat.add]. unfold mm_entered. cbn [fst snd].
        destruct (N.eqb_spec (nth j (map mc1 (mcs s)) 0%N) 6) as [H6|H6]; [|cbn [negb orb]; now rewrite andb_true_r].
        exfalso. apply nth_prev in H6. pose proof HI as HIc. minv_names HIc. specialize (M1 _ _ H6 eq_refl). congruence. }
  rewrite Hent. cbn [Nat.ltb Nat.leb Nat.eqb orb]. rewrite andb_false_r.
  (* every returned caller has the result of that call *)
  assert (H7 : existsb (mm_bad (mm_ret1 m e)) (filter (fun p : N * N => is_ret_code (fst p)) (map mcodep (mcs s'))) = false).
  { apply existsb_filter_false. intros p Hp Hrc. apply in_map_iff in Hp as (q & <- & Hq). apply In_nth_error in Hq as [f Gf].
    destruct (mcodep_ret _ Hrc) as (o & Hq & Ec).
    assert (exists f0, nth_error (mcs s') f0 = Some (MRetF o)) as [f0 G0].
    { destruct Hq as [->| ->]; [eauto|]. pose proof HI' as HIc. minv_names HIc. exact (M7 _ _ Gf). }
    unfold mm_bad. destruct (mm_ret1 m e) as [[c v]|]; cbn [retrel] in HR1.
    - destruct HR1 as (f1 & o1 & G1 & E1). rewrite (retf_unique _ _ _ _ _ HI' G1 G0) in E1. rewrite Ec, E1. cbn [fst snd].
      now rewrite !N.eqb_refl.
    - exfalso. eapply HR1; eauto. }
  rewrite H7.
  assert (H8 : existsb (fun p : N * N => N.eqb (fst p) 11) (map mcodep (mcs s')) = false).
  { apply existsb_false_intro. intros p Hp. apply in_map_iff in Hp as (q & <- & _). destruct q as [| |o|o|o| |o]; try reflexivity; destruct o; reflexivity. }
  rewrite H8. cbn [app]. eexists. split; [reflexivity|].
  unfold RM. cbn [mm_prev mm_entries mm_ret]. rewrite Hst'. auto.
Qed.

Theorem memo_satisfies_monitors_gen evs : forall s m i rep, RM m s ->
  monitor mon_memo i m rep evs (run_obs mhstep s evs) = [].
Proof.
  induction evs as [|e evs IH]; intros s m i rep Hm; [reflexivity|].
  cbn [run_obs]. destruct (mhstep s e) as [[s' o]|] eqn:E; [|reflexivity].
  destruct (mon_step_memo m s e s' o Hm E) as (m' & Em & Hm').
  cbn [monitor]. rewrite Em. cbn [filter map app]. apply IH; assumption.
Qed.

Lemma RM_init : RM mmonit minit.
Proof.
  split; [apply minit_inv|]. split; [reflexivity|]. split; [reflexivity|]. intros f o H. destruct f; discriminate.
Qed.

(* the memo monitors of C16 report nothing on the model's own observations, for every event list *)
Theorem memo_satisfies_monitors evs : monitor mon_memo 0 mmonit [] evs (run_obs mhstep minit evs) = [].
Proof. apply memo_satisfies_monitors_gen. apply RM_init. Qed.

Lemma replay_own_memo evs : forall s i,
  length (run_obs mhstep s evs) = length evs -> replay mhstep i s evs (run_obs mhstep s evs) = [].
Proof.
  induction evs as [|e evs IH]; intros s i Hl; [reflexivity|]. cbn [run_obs replay] in *.
  destruct (mhstep s e) as [[s' o]|]; [|discriminate Hl]. cbn [length] in Hl.
  assert (E : forall l, list_eqb l l = true) by (induction l as [|x t IHl]; [reflexivity | cbn [list_eqb]; now rewrite N.eqb_refl, IHl]).
  rewrite E. apply IH. lia.
Qed.

Theorem memo_run_check_clean cfg evs :
  length (run_obs mhstep minit evs) = length evs -> run_check_memo cfg evs (run_obs mhstep minit evs) = [].
Proof.
  intros Hl. unfold run_check_memo, run_check. rewrite (replay_own_memo evs minit 0 Hl), memo_satisfies_monitors. reflexivity.
Qed.
