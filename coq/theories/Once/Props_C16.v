(* C16 — Once/MemoizeFunc: one call in flight, success kept forever, failure retried.
   Statements only.  "For all schedules" = for every list of events of the models of Once/Model.v: any number of
   Resolve calls (with live or already cancelled contexts), every interleaving of the callers' critical sections,
   of the two ways an Await can wake up, of the callback goroutine's clear section and SetResult, of context
   cancellations and callback outcomes (value / error / Canceled); for MemoizeFunc every interleaving of the
   individual atomic operations and plain accesses of any number of callers. *)
From Util Require Import Common.Base Common.ListLemmas Once.Model Once.Spec Once.Proofs Once.ProofsMon Once.ProofsMon2 Once.ProofsMonMemo.

(* ---- Once: never two invocations of the callback at the same time.
   At most one goroutine is inside user code; more precisely at most one goroutine "holds" (is inside the callback,
   has returned an error and not yet run its clear section, or has succeeded -- before, inside or after
   SetResult), and a goroutine inside the callback
   is the one whose promise is the Once's current promise, still unresolved.  The window between the clear
   section and SetResult of a failed attempt is not "holding": a new attempt may start there, the old callback has
   returned. *)
Theorem c16_once_at_most_one_cb : forall es,
  let s := run es in
  cnt in_cb (gs s) <= 1 /\ cnt holds (gs s) <= 1 /\
  forall g y, nth_error (gs s) g = Some y -> in_cb y = true -> prom s = Some g /\ done_res s g = None.
Proof. exact at_most_one_cb. Qed.
Print Assumptions c16_once_at_most_one_cb.

(* a callback is entered only by a section that finds no current promise, and then nothing holds *)
Theorem c16_once_cb_entry_needs_no_current : forall s a, Inv s ->
  length (gs (step s (Sect a))) <> length (gs s) -> prom s = None /\ cnt holds (gs s) = 0.
Proof. exact cb_entry_needs_no_current. Qed.
Print Assumptions c16_once_cb_entry_needs_no_current.

(* ---- Once: success is final.  Once the callback of attempt g has returned a value v (succeeded: parked before
   SetResult, inside SetResult between the swap of isDone and the publication, or resolved), then in every future: the promise is never cleared, no callback is ever entered again
   (the goroutine table does not grow), every value any caller returns is v read from that promise, and every
   caller whose critical section runs afterwards (started later, or parked at the gate, or already waiting on g)
   and whose context is live when it has returned, returned v.
   (Full text "every Resolve with a live context, concurrent or later, returns that value": a waiter that joined an
   EARLIER failed attempt whose SetResult is delayed past the success still receives that attempt's error; this
   is the behaviour of the code and is what `late` excludes.) *)
Theorem c16_success_is_final : forall es g v,
  let s := run es in
  succeeded s g v -> forall es',
  let s' := fold_left step es' s in
  prom s' = Some g /\ succeeded s' g v /\ length (gs s') = length (gs s) /\
  (forall a x v' src, nth_error (cs s') a = Some x -> cp x = CRet (RVal v') src -> v' = v /\ src = Some g) /\
  (forall a x r src, nth_error (cs s') a = Some x -> late s g a -> cp x = CRet r src -> cc x = false -> r = RVal v).
Proof. exact success_is_final. Qed.
Print Assumptions c16_success_is_final.

(* ---- Once: an error allows a retry.  Once attempt g has failed and run its clear section, then in every
   future the Once's current promise is never g again (it is None or a later attempt), and every Resolve started
   afterwards waits only on later attempts p > g and, if it returns a result read from a promise, read it from
   such a later attempt: the callback was called again for it. *)
Theorem c16_error_allows_retry : forall es g,
  let s := run es in
  failed s g -> forall es',
  let s' := fold_left step es' s in
  prom s' <> Some g /\ failed s' g /\
  (forall p, prom s' = Some p -> g < p) /\
  (forall a x, nth_error (cs s') a = Some x -> length (cs s) <= a ->
     (forall p, cp x = CAwait p -> g < p) /\
     (forall r p, cp x = CRet r (Some p) -> g < p /\ done_res s' p = Some r)).
Proof. exact error_allows_retry. Qed.
Print Assumptions c16_error_allows_retry.

(* the critical section of a caller that finds no current promise enters the callback anew, with that caller's context *)
Theorem c16_section_starts_new_attempt : forall s a x,
  nth_error (cs s) a = Some x -> cp x = CGate -> prom s = None ->
  let s' := step s (Sect a) in
  prom s' = Some (length (gs s)) /\
  nth_error (gs s') (length (gs s)) = Some {| gp := GInCb (cc x); gsp := a |} /\
  nth_error (cs s') a = Some {| cp := CAwait (length (gs s)); cc := cc x |}.
Proof. exact section_starts_new_attempt. Qed.
Print Assumptions c16_section_starts_new_attempt.

(* ---- Once: a cancelled caller gets Canceled, the others progress.
   (a) Canceled is returned only to a caller whose own context is cancelled;
   (b) quiescence: in a state without enabled internal step, a caller that is still blocked has a live context and
       waits on the Once's current promise, which is unresolved and whose callback is inside user code -- never
       on a resolved or orphaned promise;
   (c) in such a state a caller with a cancelled context has returned. *)
Theorem c16_cancelled_caller_gets_canceled_others_progress : forall es,
  let s := run es in
  (forall a x src, nth_error (cs s) a = Some x -> cp x = CRet RCanceled src -> cc x = true) /\
  (quiescent s = true -> forall a x p, nth_error (cs s) a = Some x -> cp x = CAwait p ->
     cc x = false /\ prom s = Some p /\ done_res s p = None /\
     exists y ec, nth_error (gs s) p = Some y /\ gp y = GInCb ec) /\
  (quiescent s = true -> forall a x, nth_error (cs s) a = Some x -> cc x = true ->
     exists src, cp x = CRet RCanceled src \/ exists r, cp x = CRet r src).
Proof. exact cancelled_caller_gets_canceled_others_progress. Qed.
Print Assumptions c16_cancelled_caller_gets_canceled_others_progress.

(* the inductive invariant behind all of the above *)
Theorem c16_once_invariant : forall es, Inv (run es).
Proof. exact run_inv. Qed.
Print Assumptions c16_once_invariant.

(* ---- MemoizeFunc: fn is called exactly once in total: the number of callers that ever entered fn equals the
   started flag (so it is at most one, at every moment and in total), and is one as soon as any caller has returned *)
Theorem c16_memo_exactly_one_call : forall es,
  let s := mrun es in
  cnt is_first (mcs s) = b2n (started s) /\ cnt is_first (mcs s) <= 1 /\ cnt m_in_fn (mcs s) <= 1 /\
  (forall a p r, nth_error (mcs s) a = Some p -> m_returned p = Some r -> cnt is_first (mcs s) = 1).
Proof. exact memo_exactly_one_call. Qed.
Print Assumptions c16_memo_exactly_one_call.

(* every caller that has returned, returned the result of that one call (the unique first caller f returned it
   from fn), which is also what the result variables hold, and done is closed *)
Theorem c16_memo_all_get_that_result : forall es a p r,
  let s := mrun es in
  nth_error (mcs s) a = Some p -> m_returned p = Some r ->
  exists f, nth_error (mcs s) f = Some (MRetF r) /\ mresult s = Some r /\ mdone s = true /\
            forall f' p', nth_error (mcs s) f' = Some p' -> is_first p' = true -> f' = f.
Proof. exact memo_all_get_that_result. Qed.
Print Assumptions c16_memo_all_get_that_result.

(* publish before close (used by C13): done closed => the result is written; a written result is never written again;
   a waiter released by the close reads exactly it *)
Theorem c16_memo_publish_before_close : forall es,
  let s := mrun es in
  (mdone s = true -> exists f o, nth_error (mcs s) f = Some (MRetF o) /\ mresult s = Some o) /\
  (forall o e, mresult s = Some o -> mresult (mstep s e) = Some o) /\
  (forall a, nth_error (mcs s) a = Some MWait -> mdone s = true ->
     exists r, mresult s = Some r /\ nth_error (mcs (mstep s (MWake a))) a = Some (MRet r)).
Proof. exact memo_publish_before_close_all. Qed.
Print Assumptions c16_memo_publish_before_close.

(* ---- monitors vs. model, for EVERY list of harness events (no bound on length or number of actors): on the
   observations the model itself produces under the codec-level step of Spec.v (eager schedule; the run stops at the
   first event the model does not accept) no clause of the monitors of Spec.v is ever false.  So the model satisfies
   the property in exactly the form the checks evaluate on the implementation's traces, and the monitors cannot raise
   an alarm on an implementation that behaves like the model.  (Proofs: ProofsMon.v, ProofsMon2.v, ProofsMonMemo.v.) *)
Theorem c16_once_model_satisfies_monitors : forall evs,
  monitor mon_once 0 monit [] evs (run_obs hstep hinit evs) = [].
Proof. exact model_satisfies_monitors. Qed.
Print Assumptions c16_once_model_satisfies_monitors.

(* hence the extracted checker reports nothing at all on any history that the model accepts completely *)
Theorem c16_once_model_run_check_clean : forall cfg evs,
  length (run_obs hstep hinit evs) = length evs -> run_check_once cfg evs (run_obs hstep hinit evs) = [].
Proof. exact model_run_check_clean. Qed.
Print Assumptions c16_once_model_run_check_clean.

Theorem c16_memo_model_satisfies_monitors : forall evs,
  monitor mon_memo 0 mmonit [] evs (run_obs mhstep minit evs) = [].
Proof. exact memo_satisfies_monitors. Qed.
Print Assumptions c16_memo_model_satisfies_monitors.

Theorem c16_memo_model_run_check_clean : forall cfg evs,
  length (run_obs mhstep minit evs) = length evs -> run_check_memo cfg evs (run_obs mhstep minit evs) = [].
Proof. exact memo_run_check_clean. Qed.
Print Assumptions c16_memo_model_run_check_clean.

(* the older bounded sweeps (kept; now implied by the theorems above): for every event sequence
   accepted by the codec-level step, of length <= 7 from the initial state and of length <= 4 after each of eight
   prefixes that reach the interesting regions (incl. the window inside SetResult), the monitors of Spec.v report nothing on the model's own observations *)
Theorem c16_once_monitors_accept_model_bounded :
  N.ltb 0 (once_sweep 7 hinit monit) = true /\
  forallb (fun p => N.ltb 0 (once_from p 4 hinit monit)) once_seeds = true.
Proof. exact once_monitors_accept_model_bounded. Qed.
Print Assumptions c16_once_monitors_accept_model_bounded.

Theorem c16_memo_monitors_accept_model_bounded : N.ltb 0 (memo_sweep 7 minit mmonit) = true.
Proof. exact memo_monitors_accept_model_bounded. Qed.
Print Assumptions c16_memo_monitors_accept_model_bounded.

(* ---------------- non-vacuity ---------------- *)
(* a failed attempt whose SetResult is delayed, a second attempt that succeeds in the window, a late caller *)
Example c16_example_retry_window :
  let s := run [Resolve false; Sect 0; Resolve false; Sect 1;          (* callers 0,1 wait on attempt 0 *)
                CbReturn 0 (RErr 7); GStep 0;                           (* error, clear section; SetResult pending *)
                Resolve false; Sect 2; CbReturn 1 (RVal 5); GStep 1; GStep 1; WakeDone 2;   (* attempt 1 succeeds in the window *)
                GStep 0; GStep 0; WakeDone 0; WakeDone 1;               (* the old error is delivered to its waiters *)
                Resolve false; Sect 3; WakeDone 3] in
  failed s 0 /\ succeeded s 1 5 /\ prom s = Some 1 /\ quiescent s = true /\
  map cp (cs s) = [CRet (RErr 7) (Some 0); CRet (RErr 7) (Some 0); CRet (RVal 5) (Some 1); CRet (RVal 5) (Some 1)].
Proof.
  vm_compute. repeat split; try reflexivity.
  - eexists. split; [reflexivity|]. right. right. eexists. split; reflexivity.
  - eexists. split; [reflexivity|]. right. right. reflexivity.
Qed.

(* the spawner's context is cancelled: it returns Canceled, the attempt is resolved with Canceled, the other
   waiter goes round the loop and starts a new attempt with ITS context *)
Example c16_example_spawner_cancelled :
  let s := run [Resolve false; Sect 0; Resolve false; Sect 1; CancelCtx 0; WakeCtx 0;
                CbReturn 0 (RErr 3); GStep 0; GStep 0; GStep 0; WakeDone 1; Sect 1] in
  map cp (cs s) = [CRet RCanceled None; CAwait 1] /\ map gp (gs s) = [GDone RCanceled; GInCb false] /\
  map gsp (gs s) = [0; 1] /\ prom s = Some 1 /\ quiescent s = true.
Proof. vm_compute. repeat split; reflexivity. Qed.

(* inside SetResult, after the swap and before the publication: the promise is still the current one, nobody can
   read a result yet (a caller that reaches Await now blocks), and the state is not quiescent *)
Example c16_example_setresult_window :
  let s := run [Resolve false; Sect 0; CbReturn 0 (RVal 4); GStep 0; Resolve false; Sect 1; WakeDone 1; WakeDone 0] in
  map gp (gs s) = [GPub (RVal 4)] /\ succeeded s 0 4 /\ prom s = Some 0 /\ done_res s 0 = None /\
  map cp (cs s) = [CAwait 0; CAwait 0] /\ quiescent s = false /\
  map cp (cs (fold_left step [GStep 0; WakeDone 1; WakeDone 0] s)) = [CRet (RVal 4) (Some 0); CRet (RVal 4) (Some 0)].
Proof.
  vm_compute. repeat split; try reflexivity. eexists. split; [reflexivity|]. right. left. reflexivity.
Qed.

(* a blocked caller at quiescence: its callback is inside user code *)
Example c16_example_quiescent_blocked :
  let s := run [Resolve false; Sect 0; Resolve false; Sect 1; Resolve true] in
  quiescent s = true /\ cnt in_cb (gs s) = 1 /\ map cp (cs s) = [CAwait 0; CAwait 0; CRet RCanceled None].
Proof. vm_compute. repeat split; reflexivity. Qed.

Example c16_example_memo :
  let s := mrun [MCall; MCall; MSwap 1; MSwap 0; MCall; MSwap 2; MFnReturn 1 (RVal 9); MWriteRes 1; MWake 0; MClose 1; MWake 0; MWake 2] in
  mcs s = [MRet (RVal 9); MRetF (RVal 9); MRet (RVal 9)] /\ mresult s = Some (RVal 9) /\ mdone s = true /\ cnt is_first (mcs s) = 1.
Proof. vm_compute. repeat split; reflexivity. Qed.

(* the monitors do reject: one observed trace per clause (taken from runs against seeded changes of the library) *)
Open Scope N_scope.
Example c16_monitor_rejects_two_callbacks :
  flagged (run_check_once [] [[1;0];[1;0];[3;0;0];[3;1;0];[4;0];[4;1];[1;0];[3;3;0]]
     [[1;0];[1;0;1;0];[2;0;1;0;6;0];[2;0;2;0;6;0];[4;0;2;0;6;0];[4;0;4;0;6;0];[4;0;4;0;6;0;1;0];[4;0;4;0;6;0;2;0;6;0]]) 1 = true.
Proof. vm_compute. reflexivity. Qed.
Example c16_monitor_rejects_callback_after_success :
  flagged (run_check_once [] [[1;0];[3;0;0];[4;0];[5;1;0];[3;1;0];[1;0];[4;2];[3;2;1]]
     [[1;0];[2;0;6;0];[4;0;6;0];[4;0;8;0];[4;0;9;0];[4;0;9;0;1;0];[4;0;9;0;1;0];[4;0;9;0;4;0;6;1]]) 2 = true.
Proof. vm_compute. reflexivity. Qed.
Example c16_monitor_rejects_stale_error :
  flagged (run_check_once [] [[1;0];[3;0;0];[5;1;1];[3;1;0];[3;1;0];[1;0];[3;2;0]]
     [[1;0];[2;0;6;0];[2;0;7;0];[2;0;8;0];[5;2;9;0];[5;2;9;0;1;0];[5;2;9;0;5;2]]) 3 = true.
Proof. vm_compute. reflexivity. Qed.
Example c16_monitor_rejects_foreign_canceled :
  flagged (run_check_once [] [[1;0];[4;0];[3;0;1];[1;0];[5;1;1];[3;2;0];[3;1;0];[3;1;0]]
     [[1;0];[1;0];[4;0;6;1];[4;0;6;1;1;0];[4;0;7;0;1;0];[4;0;7;0;2;0];[4;0;8;0;2;0];[4;0;9;0;4;0]]) 4 = true.
Proof. vm_compute. reflexivity. Qed.
Example c16_monitor_rejects_orphaned_waiter :
  flagged (run_check_once [] [[1;0];[4;0];[3;0;1];[1;0];[5;1;1];[3;2;0];[3;1;0];[3;1;0]]
     [[1;0];[1;0];[4;0;6;1];[4;0;6;1;1;0];[4;0;7;0;1;0];[4;0;7;0;2;0];[4;0;8;0;2;0];[4;0;9;0;2;0]]) 5 = true.
Proof. vm_compute. reflexivity. Qed.
Example c16_monitor_rejects_second_fn_call :
  flagged (run_check_memo [] [[3;8;1]] [[2;0;6;0;2;0;2;0;2;0;6;0;2;0;2;0]]) 6 = true.
Proof. vm_compute. reflexivity. Qed.
(* a (value, error) result: the waiters get the error without the value that fn returned with it (seeded change C16_2C) *)
Example c16_monitor_rejects_value_dropped_from_error_result :
  flagged (run_check_memo [] [[3;7;0];[2;0;4]]
     [[6;0;2;0;2;0;2;0;2;0;2;0;2;0];[5;3145729;5;1;5;1;5;1;5;1;5;1;5;1]]) 7 = true.
Proof. vm_compute. reflexivity. Qed.
(* the starter's context is cancelled while the callback runs, the callback fails with an error of its own, and the
   live waiter is handed that error instead of retrying (seeded change C16_2A) *)
Example c16_monitor_rejects_error_of_cancelled_starter :
  flagged (run_check_once [] [[1;0];[3;0;0];[1;0];[3;2;0];[4;0];[5;1;1];[3;1;0];[3;1;0];[3;1;0]]
     [[1;0];[2;0;6;0];[2;0;6;0;1;0];[2;0;6;0;2;0];[4;0;6;0;2;0];[4;0;7;0;2;0];[4;0;8;0;2;0];[4;0;10;0;2;0];[4;0;9;0;5;2]]) 9 = true.
Proof. vm_compute. reflexivity. Qed.
(* the same error is accepted when the starter's context was live when the callback returned and up to the goroutine's
   ctx.Err() test, and is cancelled only afterwards (here: inside SetResult): the waiter receives the error *)
Example c16_monitor_accepts_error_of_live_starter :
  let evs := [[1;0];[3;0;0];[1;0];[3;2;0];[5;1;1];[3;1;0];[3;1;0];[4;0];[3;1;0]] in
  run_check_once [] evs (run_obs hstep hinit evs) = [] /\ nth 8 (run_obs hstep hinit evs) [] = [4;0;9;0;5;2].
Proof. vm_compute. split; reflexivity. Qed.
(* a caller whose context ended like a deadline (status 12) / was cancelled with a cause (status 13) while it waited is handed
   that context's own error / the cause instead of context.Canceled (seeded change C16_4B: Promise.Await returns
   context.Cause(ctx)); on the unchanged library, and on the model, the same events end in status 4 (Canceled) *)
Example c16_monitor_rejects_deadline_error_for_cancelled_caller :
  flagged (run_check_once [] [[1;1];[1;0];[3;1;0];[4;1]] [[4;0];[4;0;1;0];[4;0;2;0;6;0];[4;0;12;0;6;0]]) 10 = true /\
  flagged (run_check_once [] [[1;1];[1;0];[3;1;0];[4;1]] [[4;0];[4;0;1;0];[4;0;2;0;6;0];[4;0;13;0;6;0]]) 10 = true /\
  run_obs hstep hinit [[1;1];[1;0];[3;1;0];[4;1]] = [[4;0];[4;0;1;0];[4;0;2;0;6;0];[4;0;4;0;6;0]] /\
  run_check_once [] [[1;1];[1;0];[3;1;0];[4;1]] [[4;0];[4;0;1;0];[4;0;2;0;6;0];[4;0;4;0;6;0]] = [].
Proof. vm_compute. repeat split; reflexivity. Qed.
(* clause 11: caller 2 is parked at gate 1 behind a running callback, its context is cancelled there (the [4;2] step leaves
   it at gate 1, which is accepted), then it is let run: it must return (the model: Canceled, status 4); an
   implementation that loops back to gate 1 without testing ctx.Err() is reported (with the Mismatch of that step) *)
Example c16_monitor_rejects_cancelled_caller_back_at_gate :
  let evs := [[1;0];[3;0;0];[1;0];[4;2];[3;2;0]] in
  let pre := [[1;0];[2;0;6;0];[2;0;6;0;1;0];[2;0;6;0;1;0]] in
  let r := run_check_once [] evs (pre ++ [[2;0;6;0;1;0]]) in
  flagged r 11 = true /\ In (PropFalse 16 11 4) r /\ r = [Mismatch 4 [2;0;6;0;4;0] [2;0;6;0;1;0]; PropFalse 16 11 4] /\
  run_check_once [] [[1;0];[3;0;0];[1;0];[4;2]] pre = [] /\
  run_obs hstep hinit evs = pre ++ [[2;0;6;0;4;0]] /\
  run_check_once [] evs (pre ++ [[2;0;6;0;4;0]]) = [].
Proof. vm_compute. repeat split; try reflexivity. right. left. reflexivity. Qed.
Example c16_monitor_rejects_early_return :
  flagged (run_check_memo [] [[1];[1]] [[6;0];[6;0;3;0]]) 7 = true.
Proof. vm_compute. reflexivity. Qed.
(* and accept the corresponding traces of the unchanged library *)
Example c16_monitor_accepts_window_history :
  run_check_once [] [[1;0];[3;0;0];[1;0];[3;2;0];[5;1;1];[3;1;0];[1;0];[3;3;0];[5;4;0];[3;4;0];[3;4;0];[3;1;0];[3;1;0];[1;0];[3;5;0]]
    [[1;0];
     [2;0;6;0];
     [2;0;6;0;1;0];
     [2;0;6;0;2;0];
     [2;0;7;0;2;0];
     [2;0;8;0;2;0];
     [2;0;8;0;2;0;1;0];
     [2;0;8;0;2;0;2;0;6;0];
     [2;0;8;0;2;0;2;0;8;0];
     [2;0;8;0;2;0;2;0;10;0];
     [2;0;8;0;2;0;3;5;9;0];
     [2;0;10;0;2;0;3;5;9;0];
     [5;2;9;0;5;2;3;5;9;0];
     [5;2;9;0;5;2;3;5;9;0;1;0];
     [5;2;9;0;5;2;3;5;9;0;3;5]] = [].
Proof. vm_compute. reflexivity. Qed.

(* the hypothesis of c16_once_model_run_check_clean / c16_memo_model_run_check_clean is satisfiable by non-trivial histories *)
Example c16_example_model_accepts_window_history :
  let evs := [[1;0];[3;0;0];[1;0];[3;2;0];[5;1;1];[3;1;0];[1;0];[3;3;0];[5;4;0];[3;4;0];[3;4;0];[3;1;0];[3;1;0];[1;0];[3;5;0]] in
  length (run_obs hstep hinit evs) = length evs /\
  nth 12 (run_obs hstep hinit evs) [] = [5;2;9;0;5;2;3;5;9;0].
Proof. vm_compute. split; reflexivity. Qed.
Example c16_example_model_accepts_memo_history :
  let evs := [[3;3;1];[1];[2;1;0];[1]] in
  length (run_obs mhstep minit evs) = length evs /\
  nth 3 (run_obs mhstep minit evs) [] = [3;2;3;2;3;2;3;2;3;2].
Proof. vm_compute. split; reflexivity. Qed.
