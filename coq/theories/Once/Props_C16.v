(* C16 - statements only (filled in below). *)
From Util Require Import Common.Base Common.ListLemmas Once.Model Once.Proofs.
