(* Once / MemoizeFunc: codec between harness histories and model events, the eager schedule the harness
   realises, observation vectors, and the monitors of C16 on observed traces.

   ---- once ----
   Events   [1 c]     Resolve in a new actor (c=1: with an already cancelled context)
            [3 i ch]  let actor i run from its gate (caller at gate 1: critical section, then Await;
                      goroutine at gate 2: clear section; at gate 3: up to the swap inside SetResult; at site 0
                      (inside SetResult after the swap): publish the result and close done).  ch is the select choice the
                      implementation made when both Await cases were ready (1 = ctx.Done), read off the result
            [4 i]     cancel the context of caller i
            [5 i k]   the user callback running on goroutine actor i returns: k=0 value i+1, k=1 error i+1, k=2 context.Canceled,
                      k>=3 the non-zero value k-2 TOGETHER WITH error i+1 (Once drops the value: every caller sees (0, error i+1))
   Observation: two integers per actor, in order of creation (callback goroutines become actors when the callback is entered)
            1 0 caller parked at gate 1     2 0 caller blocked in Await    3 v returned (v,nil)   4 0 returned Canceled
            5 p returned (v, error e), p = v*2^20 + e (so p = e when the value is the zero value)
            6 c goroutine inside the user callback (c=1: its ctx was cancelled on entry)
            7 0 goroutine at gate 2         8 0 goroutine at gate 3         9 0 goroutine finished
            10 0 goroutine inside SetResult between the swap of isDone and the publication
            11 0 the Resolve call panicked (the model never produces it; clause 8)
            12 0 returned (_, context.DeadlineExceeded)    13 0 returned (_, the cancellation cause of a context cancelled with a
                 cause): the harness hands out contexts of three flavours (plain; ending like a deadline: Err() = DeadlineExceeded;
                 cancelled with a cause: Err() = Canceled, Cause = that cause); the flavour is not part of the event because Once
                 returns the literal context.Canceled for all of them.  The harness-owned callback never returns these two
                 errors, so they can only come from a context; the model never produces these codes (clause 10)
   ---- memo ----
   Events   [1]       call the memoized function in a new actor
            [2 i k]   fn (running on actor i) returns: k=0 (i+1, nil), k>=1 the value k-1 TOGETHER WITH error i+1 (k=1: (0, error))
            [3 n w]   n new actors call it at the same moment (no schedule point inside memo: they race for real); w = which of
                      them won the swap, read off the implementation (0 when fn had been entered before)
   Observation per actor:  6 0 inside fn    2 0 blocked on done    3 v returned (v,nil) / 5 p returned (v, error e), p = v*2^20 + e *)
From Util Require Import Common.Base Common.ListLemmas Once.Model.

Inductive hact := HC (a : nat) | HG (g : nat).
Record hst := { ms : st; hmap : list hact }.
Definition hinit : hst := {| ms := init; hmap := [] |}.

Definition code_res (r : res) : list N :=
  match r with RVal v => [3; v] | RCanceled => [4; 0] | RErr e => [5; e] end%N.

Definition code (s : st) (h : hact) : list N :=
  match h with
  | HC a => match nth_error (cs s) a with
            | Some x => match cp x with CGate => [1; 0] | CAwait _ => [2; 0] | CRet r _ => code_res r end
            | None => [0; 0]
            end
  | HG g => match nth_error (gs s) g with
            | Some y => match gp y with
                        | GInCb ec => [6; if ec then 1 else 0]
                        | GClear _ => [7; 0] | GSet _ => [8; 0] | GPub _ => [10; 0] | GDone _ => [9; 0]
                        end
            | None => [0; 0]
            end
  end%N.

Definition obs (h : hst) : list N := flat_map (code (ms h)) (hmap h).

(* a caller that has just run its section reaches the select of Await *)
Definition await (s : st) (a : nat) (ch : N) : st :=
  match nth_error (cs s) a with
  | Some x =>
    match cp x with
    | CAwait p =>
      match done_res s p with
      | Some _ => if cc x && N.eqb ch 1 then step s (WakeCtx a) else step s (WakeDone a)
      | None => if cc x then step s (WakeCtx a) else s
      end
    | _ => s
    end
  | None => s
  end.

(* closing done wakes every waiter of that promise (they run to their next gate or return) *)
Definition settle (s : st) : st := fold_left (fun s a => step s (WakeDone a)) (seq 0 (length (cs s))) s.

(* a (value, error) pair as one integer: the error id in the low 20 bits *)
Definition epack (v id : N) : N := (v * 1048576 + id)%N.

(* k >= 3: the callback returns a non-zero value together with the error; Once passes (zero value, error) on *)
Definition outcome (i k : N) : option res :=
  (if N.eqb k 0 then Some (RVal (i + 1)) else if N.eqb k 2 then Some RCanceled
   else if N.leb k 64 then Some (RErr (i + 1)) else None)%N.

Definition hstep (h : hst) (e : list N) : option (hst * list N) :=
  let s := ms h in
  let ret h' := Some (h', obs h') in
  match e with
  | [1; c] =>
    if N.leb c 1 then ret {| ms := step s (Resolve (N.eqb c 1)); hmap := hmap h ++ [HC (length (cs s))] |} else None
  | [3; i; ch] =>
    match nth_error (hmap h) (N.to_nat i) with
    | Some (HC a) =>
      match nth_error (cs s) a with
      | Some x =>
        match cp x with
        | CGate =>
          let s1 := step s (Sect a) in
          let hm := if Nat.ltb (length (gs s)) (length (gs s1)) then hmap h ++ [HG (length (gs s))] else hmap h in
          ret {| ms := await s1 a ch; hmap := hm |}
        | _ => None
        end
      | None => None
      end
    | Some (HG g) =>
      match nth_error (gs s) g with
      | Some y =>
        match gp y with
        | GClear _ | GSet _ => ret {| ms := step s (GStep g); hmap := hmap h |}
        | GPub _ => ret {| ms := settle (step s (GStep g)); hmap := hmap h |}
        | _ => None
        end
      | None => None
      end
    | None => None
    end
  | [4; i] =>
    match nth_error (hmap h) (N.to_nat i) with
    | Some (HC a) =>
      match nth_error (cs s) a with
      | Some _ => ret {| ms := step (step s (CancelCtx a)) (WakeCtx a); hmap := hmap h |}
      | None => None
      end
    | _ => None
    end
  | [5; i; k] =>
    match nth_error (hmap h) (N.to_nat i) with
    | Some (HG g) =>
      match nth_error (gs s) g with
      | Some y =>
        match gp y, outcome i k with
        | GInCb _, Some o => ret {| ms := step s (CbReturn g o); hmap := hmap h |}
        | _, _ => None
        end
      | None => None
      end
    | _ => None
    end
  | _ => None
  end%N.

(* ---------------- monitors (on the implementation's observations only) ---------------- *)
Fixpoint pairs (l : list N) : list (N * N) :=
  match l with
  | a :: b :: t => (a, b) :: pairs t
  | _ => []
  end.

Definition upd {A} (l : list A) (i : nat) (f : A -> A) : list A :=
  match nth_error l i with Some x => set_nth l i (f x) | None => l end.

Record mact := { mcaller : bool;        (* a Resolve call (true) or a callback goroutine (false) *)
                 mborn : nat;           (* step at which it appeared *)
                 mcanc : bool;          (* caller: its context was cancelled *)
                 mretd : bool;          (* caller: already observed returned *)
                 mout : N;              (* goroutine: 0 callback still running, 1 returned a value, 2 an error, 3 Canceled *)
                 mpub : option nat;     (* goroutine whose callback returned an error: step at which the error was first
                                           observed delivered (goroutine finished, or a caller returned it) *)
                 mstart : nat;          (* goroutine: the actor whose Resolve started this invocation (its context is the callback's) *)
                 mtaint : bool }.       (* goroutine: the starter's context was already cancelled when the callback returned *)
Record monst := { mstepno : nat; macts : list mact; msucc : option (N * nat) (* value and step of the successful callback return *) }.
Definition monit : monst := {| mstepno := 0; macts := []; msucc := None |}.

Definition new_caller (i : nat) (c : bool) : mact :=
  {| mcaller := true; mborn := i; mcanc := c; mretd := false; mout := 0; mpub := None; mstart := 0; mtaint := false |}.
Definition new_gor (i : nat) (st : nat) : mact :=
  {| mcaller := false; mborn := i; mcanc := false; mretd := false; mout := 0; mpub := None; mstart := st; mtaint := false |}.
Definition set_canc (a : mact) : mact :=
  {| mcaller := mcaller a; mborn := mborn a; mcanc := true; mretd := mretd a; mout := mout a; mpub := mpub a;
     mstart := mstart a; mtaint := mtaint a |}.
Definition set_out (k : N) (t : bool) (a : mact) : mact :=
  {| mcaller := mcaller a; mborn := mborn a; mcanc := mcanc a; mretd := mretd a; mout := k; mpub := mpub a;
     mstart := mstart a; mtaint := t |}.
Definition out_code (k : N) : N := (if N.eqb k 0 then 1 else if N.eqb k 2 then 3 else 2)%N.
(* was the context of the starter of goroutine actor j already cancelled? *)
Definition starter_canc (acts : list mact) (j : nat) : bool :=
  match nth_error acts j with
  | Some g => match nth_error acts (mstart g) with Some c => mcanc c | None => false end
  | None => false
  end.

Definition is_ret_code (c : N) : bool := (N.eqb c 3 || N.eqb c 4 || N.eqb c 5)%N.
(* 11: the call panicked (never produced by the model) *)
Definition is_some {A} (o : option A) : bool := match o with Some _ => true | None => false end.

Definition mon_once (m : monst) (e o : list N) : monst * list (nat * nat) :=
  let i := mstepno m in
  let ps := pairs o in
  (* 1. the event *)
  let acts1 :=
    match e with
    | [1; c] => macts m ++ [new_caller i (N.eqb c 1)]
    | [4; j] => upd (macts m) (N.to_nat j) set_canc
    | [5; j; k] => upd (macts m) (N.to_nat j) (set_out (out_code k) (starter_canc (macts m) (N.to_nat j)))
    | _ => macts m
    end%N in
  let succ1 :=
    match e with
    | [5; j; 0] => match msucc m with None => Some (j + 1, i) | Some x => Some x end
    | _ => msucc m
    end%N in
  (* 2. actors that appear in the observation without an event of their own are callback entries (started by the
     actor of the event) *)
  let n_new := length ps - length acts1 in
  let starter := match e with [3; j; _] => N.to_nat j | _ => 0%nat end%N in
  let acts2 := acts1 ++ repeat (new_gor i starter) n_new in
  let zs := combine acts2 ps in
  let n_in_cb := length (filter (fun z : mact * (N * N) => N.eqb (fst (snd z)) 6) zs) in
  let newly := filter (fun z : mact * (N * N) => mcaller (fst z) && negb (mretd (fst z)) && is_ret_code (fst (snd z))) zs in
  (* clause 2: after the callback returned a value it is not entered again, a returned value is that value,
     and a Resolve started afterwards with a live context returns exactly that *)
  let bad_val := fun z : mact * (N * N) =>
    N.eqb (fst (snd z)) 3 && negb (match succ1 with Some (v, _) => N.eqb v (snd (snd z)) | None => false end) in
  let bad_later := fun z : mact * (N * N) =>
    match succ1 with
    | Some (_, t) => Nat.ltb t (mborn (fst z)) && negb (mcanc (fst z)) && negb (N.eqb (fst (snd z)) 3)
    | None => false
    end in
  let f2 := (is_some (msucc m) && Nat.ltb 0 n_new) || existsb bad_val newly || existsb bad_later newly in
  (* clause 3: a returned error is the error of a callback invocation, and not one that had already been
     delivered before this Resolve started (then the function must have been called again) *)
  let bad_err := fun z : mact * (N * N) =>
    N.eqb (fst (snd z)) 5 &&
    (N.eqb (snd (snd z)) 0 ||
     match nth_error acts2 (N.to_nat (snd (snd z) - 1)) with
     | Some g => negb (negb (mcaller g) && N.eqb (mout g) 2) ||
                 match mpub g with Some t => Nat.ltb t (mborn (fst z)) | None => false end
     | None => true
     end) in
  let f3 := existsb bad_err newly in
  (* clause 4: Canceled only for a caller whose own context was cancelled *)
  let f4 := existsb (fun z : mact * (N * N) => N.eqb (fst (snd z)) 4 && negb (mcanc (fst z))) newly in
  (* clause 5: nobody stays blocked with a cancelled context, or while no callback invocation is in progress *)
  let blocked := existsb (fun z : mact * (N * N) => N.eqb (fst (snd z)) 2) zs in
  let canc_blocked := existsb (fun z : mact * (N * N) => mcaller (fst z) && mcanc (fst z) && N.eqb (fst (snd z)) 2) zs in
  let active := existsb (fun z : mact * (N * N) => N.eqb (fst (snd z)) 6 || N.eqb (fst (snd z)) 7 || N.eqb (fst (snd z)) 8 || N.eqb (fst (snd z)) 10) zs in
  (* clause 8: no call panics *)
  let f8 := existsb (fun z : mact * (N * N) => N.eqb (fst (snd z)) 11) zs in
  let f5 := canc_blocked || (blocked && negb active) in
  (* clause 9: "... without preventing other callers from obtaining a result": a caller whose own context is live is
     never handed the error of an invocation whose starter's context was already cancelled when the callback returned
     (that failure belongs to the cancelled caller; the others must get a result of their own) *)
  let bad_taint := fun z : mact * (N * N) =>
    N.eqb (fst (snd z)) 5 && negb (mcanc (fst z)) &&
    match nth_error acts2 (N.to_nat (snd (snd z) - 1)) with
    | Some g => negb (mcaller g) && mtaint g
    | None => false
    end in
  let f9 := existsb bad_taint newly in
  (* clause 10: "a caller whose own context is cancelled gets context.Canceled": the error a Resolve call returns on account
     of a context is context.Canceled itself, never the context's own Err() (DeadlineExceeded, status 12) nor its
     cancellation cause (status 13), whatever kind of context the caller (or the starter of the invocation) brought *)
  let f10 := existsb (fun z : mact * (N * N) => N.eqb (fst (snd z)) 12 || N.eqb (fst (snd z)) 13) zs in
  (* clause 11: "a caller whose context is cancelled never arrives at gate 1 again": Resolve checks ctx.Err() at the top of
     its loop, before gate 1, so a caller whose context was already cancelled BEFORE this step and that is let run from
     its gate (event [3 j _]) returns (a result that was ready, or context.Canceled); it is never seen parked at gate 1
     after that step.  (A [4 j] event on a caller parked at gate 1 leaves it there: only [3 j _] events are judged, with
     the cancellation flag as it was before the event) *)
  let f11 :=
    match e with
    | [3; j; _] => match nth_error (macts m) (N.to_nat j), nth_error ps (N.to_nat j) with
                   | Some a, Some p => mcaller a && mcanc a && N.eqb (fst p) 1
                   | _, _ => false
                   end
    | _ => false
    end%N in
  (* 3. bookkeeping *)
  let err_returned := fun e : N => existsb (fun z : mact * (N * N) => N.eqb (fst (snd z)) 5 && N.eqb (snd (snd z)) e) zs in
  let acts3 :=
    map (fun jz : nat * (mact * (N * N)) =>
           let j := fst jz in let a := fst (snd jz) in let c := fst (snd (snd jz)) in
           {| mcaller := mcaller a; mborn := mborn a; mcanc := mcanc a;
              mretd := mretd a || (mcaller a && is_ret_code c);
              mout := mout a;
              mpub := match mpub a with
                      | Some t => Some t
                      | None => if negb (mcaller a) && N.eqb (mout a) 2 && (N.eqb c 9 || err_returned (N.of_nat j + 1)%N)
                                then Some i else None
                      end;
              mstart := mstart a; mtaint := mtaint a |})
        (combine (seq 0 (length zs)) zs) ++ skipn (length zs) acts2 in
  let fails :=
    (if Nat.ltb 1 n_in_cb then [(16, 1)] else []) ++
    (if f2 then [(16, 2)] else []) ++
    (if f3 then [(16, 3)] else []) ++
    (if f4 then [(16, 4)] else []) ++
    (if f5 then [(16, 5)] else []) ++
    (if f8 then [(16, 8)] else []) ++
    (if f9 then [(16, 9)] else []) ++
    (if f10 then [(16, 10)] else []) ++
    (if f11 then [(16, 11)] else []) in
  ({| mstepno := S i; macts := acts3; msucc := succ1 |}, fails).

Definition run_check_once (cfg : list N) (evs obss : list (list N)) : list issue :=
  run_check hstep mon_once hinit monit evs obss.

(* ---------------- memo ---------------- *)
Definition mcode (p : mpc) : list N :=
  match p with
  | MStart => [1; 0]
  | MInFn => [6; 0]
  | MGot _ | MWrote _ => [7; 0]
  | MWait => [2; 0]
  | MRetF o | MRet o => code_res o
  end%N.
Definition mobs (s : mst) : list N := flat_map mcode (mcs s).

Definition msettle (s : mst) : mst := fold_left (fun s a => mstep s (MWake a)) (seq 0 (length (mcs s))) s.

(* k >= 1: fn returns the value k-1 together with error i+1; memo hands exactly that pair to every caller *)
Definition moutcome (i k : N) : option res :=
  (if N.eqb k 0 then Some (RVal (i + 1)) else if N.leb k 64 then Some (RErr (epack (k - 1) (i + 1))) else None)%N.

Definition mhstep (s : mst) (e : list N) : option (mst * list N) :=
  let ret s' := Some (s', mobs s') in
  match e with
  | [1] => let a := length (mcs s) in ret (mstep (mstep (mstep s MCall) (MSwap a)) (MWake a))
  | [2; i; k] =>
    let a := N.to_nat i in
    match nth_error (mcs s) a, moutcome i k with
    | Some MInFn, Some o => ret (msettle (mstep (mstep (mstep s (MFnReturn a o)) (MWriteRes a)) (MClose a)))
    | _, _ => None
    end
  | [3; n; w] =>
    (* n callers released together; the w-th of them did its swap first (read off the implementation) *)
    if N.ltb w n && N.leb n 64 then
      let base := length (mcs s) in
      let k := N.to_nat n in
      let s1 := fold_left (fun s _ => mstep s MCall) (seq 0 k) s in
      let s2 := mstep s1 (MSwap (base + N.to_nat w)) in
      let s3 := fold_left (fun s a => mstep s (MSwap a)) (seq base k) s2 in
      ret (msettle s3)
    else None
  | _ => None
  end%N.

Record mmon := { mm_prev : list N;               (* status code of every actor at the previous observation *)
                 mm_entries : nat;               (* number of times fn was entered *)
                 mm_ret : option (N * N) }.      (* what fn returned (as a status pair) *)
Definition mmonit : mmon := {| mm_prev := []; mm_entries := 0; mm_ret := None |}.

Definition mon_memo (m : mmon) (e o : list N) : mmon * list (nat * nat) :=
  let ps := pairs o in
  let codes := map fst ps in
  let returning := match e with [2; i; _] => Some (N.to_nat i) | _ => None end%N in
  (* an entry: inside fn now, and not inside fn at the previous observation (or fn just returned on this actor) *)
  let entered := fun jc : nat * N =>
    N.eqb (snd jc) 6 &&
    (negb (N.eqb (nth (fst jc) (mm_prev m) 0%N) 6) ||
     match returning with Some a => Nat.eqb a (fst jc) | None => false end) in
  let entries := mm_entries m + length (filter entered (combine (seq 0 (length codes)) codes)) in
  let ret1 :=
    match e with
    | [2; i; k] => match mm_ret m with
                   | Some x => Some x
                   | None => Some (if N.eqb k 0 then (3, i + 1) else (5, epack (k - 1) (i + 1)))
                   end
    | _ => mm_ret m
    end%N in
  let returned := filter (fun p : N * N => is_ret_code (fst p)) ps in
  (* clause 6: fn is called once in total *)
  let f6 := Nat.ltb 1 entries || (Nat.ltb 0 (length returned) && Nat.eqb entries 0) in
  (* clause 7: every returned caller has the result of that call, i.e. the full (value, error) pair fn returned;
     nobody returns before fn has returned *)
  let f7 := existsb (fun p : N * N =>
                       match ret1 with
                       | Some (c, v) => negb (N.eqb c (fst p) && N.eqb v (snd p))
                       | None => true
                       end) returned in
  let f8 := existsb (fun p : N * N => N.eqb (fst p) 11) ps in
  ({| mm_prev := codes; mm_entries := entries; mm_ret := ret1 |},
   (if f6 then [(16, 6)] else []) ++ (if f7 then [(16, 7)] else []) ++ (if f8 then [(16, 8)] else [])).

Definition run_check_memo (cfg : list N) (evs obss : list (list N)) : list issue :=
  run_check mhstep mon_memo minit mmonit evs obss.
