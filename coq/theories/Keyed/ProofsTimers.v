(* keyed: the timers of the model, in every reachable state.  The pending delayed removal of a registered record names a
   removal timer of that very record that is armed or has fired (it is never a stopped one or one whose callback ran: those
   were cleared from the record in the same section); a pending retry names a retry timer; every timer carries the key of
   its record.  After the eager schedule ([settle]) no armed timer is due.  Instance of the finer walk. *)
From Util Require Import Common.Base Common.ListLemmas Keyed.Model Keyed.Spec Keyed.Proofs Keyed.AbsSpec Keyed.ProofsC06 Keyed.ProofsWalk
  Keyed.ProofsMon Keyed.ProofsWalk2.
Open Scope nat_scope.

Definition live (x : timer) : Prop := tst x = TArmed \/ tst x = TFired.

Record J (s : st) : Prop := {
  j_wk : forall k r, lookup (kmap s) k = Some r -> r < length (recs s) /\ rkey (getr s r) = k;
  j_wi : forall i x, nth_error (insts s) i = Some x -> irec x < length (recs s);
  j_it : forall k r t, lookup (kmap s) k = Some r -> rremove (getr s r) = Some t ->
           exists x, nth_error (timers s) t = Some x /\ trec x = r /\ tkind x = true /\ live x;
  j_rt : forall r t, rretry (getr s r) = Some t -> exists x, nth_error (timers s) t = Some x /\ tkind x = false;
  j_tk : forall t x, nth_error (timers s) t = Some x -> trec x < length (recs s) /\ tkey x = rkey (getr s (trec x));
}.
Definition PJ (s s' : st) : Prop := J s -> J s'.
Lemma PJ_refl s : PJ s s. Proof. intros H; exact H. Qed.
Lemma PJ_trans s s1 s2 : PJ s s1 -> PJ s1 s2 -> PJ s s2. Proof. intros A B H. apply B, A, H. Qed.

(* only the instances change *)
Lemma J_insts s s' :
  kmap s' = kmap s -> recs s' = recs s -> timers s' = timers s ->
  (J s -> forall i x', nth_error (insts s') i = Some x' -> irec x' < length (recs s)) -> PJ s s'.
Proof.
  intros E1 E2 E3 HI HJ. pose proof (HI HJ) as HI'. destruct HJ as [A B C D E]. constructor; unfold getr in *; rewrite ?E1, ?E2, ?E3; auto.
Qed.
Lemma J_ext s s' : kmap s' = kmap s -> recs s' = recs s -> timers s' = timers s -> insts s' = insts s -> PJ s s'.
Proof. intros E1 E2 E3 E4. apply J_insts; auto. intros HJ i x' H. rewrite E4 in H. eapply j_wi; eauto. Qed.
Ltac jext := apply J_ext; reflexivity.

Lemma J_seti s i x x' : nth_error (insts s) i = Some x -> irec x' = irec x -> PJ s (seti s i x').
Proof.
  intros Hx Hr. apply J_insts; try reflexivity. intros HJ j y Hy. rewrite insts_seti in Hy.
  assert (Hl : i < length (insts s)) by (eapply nth_error_nth_len; eauto).
  destruct (Nat.eq_dec j i) as [->|Hne].
  - rewrite nth_error_set_nth_same in Hy by exact Hl. inversion Hy; subst. rewrite Hr. eapply j_wi; eauto.
  - rewrite nth_error_set_nth_other in Hy by exact Hne. eapply j_wi; eauto.
Qed.
Lemma PJ_cancel_inst s oi : PJ s (cancel_inst s oi).
Proof.
  unfold cancel_inst. destruct oi as [i|]; [|apply PJ_refl]. destruct (nth_error (insts s) i) as [x|] eqn:E; [|apply PJ_refl].
  now apply (J_seti s i x).
Qed.

(* a record update: the key stays; a pending removal is kept or dropped; a pending retry is kept, dropped, or names a retry timer *)
Lemma J_setr s r y :
  rkey y = rkey (getr s r) -> (forall t, rremove y = Some t -> rremove (getr s r) = Some t) ->
  (forall t, rretry y = Some t -> rretry (getr s r) = Some t \/ exists x, nth_error (timers s) t = Some x /\ tkind x = false) -> PJ s (setr s r y).
Proof.
  intros HK HR HT [A B C D E].
  assert (GK : forall q, rkey (getr (setr s r y) q) = rkey (getr s q)) by (intros q; now apply (getr_setr_field rkey)).
  assert (L : length (recs (setr s r y)) = length (recs s)) by (rewrite recs_setr; apply length_set_nth).
  constructor; rewrite ?kmap_setr, ?insts_setr, ?L; change (timers (setr s r y)) with (timers s).
  - intros k q Hk. rewrite GK. auto.
  - exact B.
  - intros k q t Hk Hq. destruct (Nat.lt_ge_cases r (length (recs s))) as [Hr|Hr]; [|rewrite getr_setr_oob in Hq by exact Hr; eauto].
    destruct (Nat.eq_dec q r) as [->|Hne]; [rewrite getr_setr_same in Hq by exact Hr; eauto | rewrite getr_setr_other in Hq by exact Hne; eauto].
  - intros q t Hq. destruct (Nat.lt_ge_cases r (length (recs s))) as [Hr|Hr]; [|rewrite getr_setr_oob in Hq by exact Hr; eauto].
    destruct (Nat.eq_dec q r) as [->|Hne]; [|rewrite getr_setr_other in Hq by exact Hne; eauto].
    rewrite getr_setr_same in Hq by exact Hr. destruct (HT t Hq) as [G|G]; eauto.
  - intros t x Hx. rewrite GK. eauto.
Qed.

(* a timer changes state *)
Lemma J_tstate s t x v :
  nth_error (timers s) t = Some x ->
  (v = TArmed \/ v = TFired \/ forall k r, lookup (kmap s) k = Some r -> rremove (getr s r) <> Some t) ->
  PJ s (set_timers s (set_nth (timers s) t (with_tst x v))).
Proof.
  intros Hx Hv [A B C D E]. assert (Hl : t < length (timers s)) by (eapply nth_error_nth_len; eauto).
  constructor; cbn [kmap recs insts timers set_timers]; change (getr (set_timers s (set_nth (timers s) t (with_tst x v)))) with (getr s); auto.
  - intros k r t' Hk Hr. destruct (C k r t' Hk Hr) as (x' & Hx' & T1 & T2 & T3).
    destruct (Nat.eq_dec t' t) as [->|Hne].
    + rewrite nth_error_set_nth_same by exact Hl. rewrite Hx in Hx'. inversion Hx'; subst x'. eexists. split; [reflexivity|].
      cbn [trec tkind tst with_tst]. repeat split; auto. unfold live. cbn [tst with_tst].
      destruct Hv as [->|[->|Hn]]; auto. exfalso. exact (Hn k r Hk Hr).
    + rewrite nth_error_set_nth_other by exact Hne. eauto.
  - intros r t' Hr. destruct (D r t' Hr) as (x' & Hx' & T). destruct (Nat.eq_dec t' t) as [->|Hne].
    + rewrite nth_error_set_nth_same by exact Hl. rewrite Hx in Hx'. inversion Hx'; subst x'. eauto.
    + rewrite nth_error_set_nth_other by exact Hne. eauto.
  - intros t' x' Hx'. destruct (Nat.eq_dec t' t) as [->|Hne].
    + rewrite nth_error_set_nth_same in Hx' by exact Hl. inversion Hx'; subst x'. cbn [trec tkey with_tst]. eauto.
    + rewrite nth_error_set_nth_other in Hx' by exact Hne. eauto.
Qed.

(* a new timer *)
Lemma J_timers_app s tm : (J s -> trec tm < length (recs s) /\ tkey tm = rkey (getr s (trec tm))) -> PJ s (set_timers s (timers s ++ [tm])).
Proof.
  intros H12 HJ. destruct (H12 HJ) as [H1 H2]. destruct HJ as [A B C D E].
  constructor; cbn [kmap recs insts timers set_timers]; change (getr (set_timers s (timers s ++ [tm]))) with (getr s); auto.
  - intros k r t Hk Hr. destruct (C k r t Hk Hr) as (x & Hx & T). exists x. split; [|exact T].
    rewrite nth_error_app1; [exact Hx | eapply nth_error_nth_len; eauto].
  - intros r t Hr. destruct (D r t Hr) as (x & Hx & T). exists x. split; [|exact T].
    rewrite nth_error_app1; [exact Hx | eapply nth_error_nth_len; eauto].
  - intros t x Hx. destruct (nth_error_app_inv _ _ _ _ Hx) as [G| ->]; eauto.
Qed.

(* stopping a retry timer *)
Lemma PJ_stop_kind s t x : nth_error (timers s) t = Some x -> tkind x = false -> PJ s (stop_timer s (Some t)).
Proof.
  intros Hx Hk HJ. unfold stop_timer. rewrite Hx. destruct (tst x); try exact HJ. refine (J_tstate s t x TStopped Hx _ HJ).
  right. right. intros k r Hk' Hr. destruct (j_it _ HJ k r t Hk' Hr) as (x' & Hx' & _ & T & _). congruence.
Qed.
Lemma PJ_stop_retry s r : PJ s (stop_timer s (rretry (getr s r))).
Proof.
  intros HJ. destruct (rretry (getr s r)) as [t|] eqn:E; [|exact HJ]. destruct (j_rt _ HJ r t E) as (x & Hx & Hk).
  now apply (PJ_stop_kind s t x).
Qed.

Lemma getr_set_insts' s l r : getr (set_insts s l) r = getr s r. Proof. reflexivity. Qed.

Lemma PJ_start s k r c w f : lookup (kmap s) k = Some r -> PJ s (start_rec s r c w f).
Proof.
  intros Hk. unfold start_rec. set (x := getr s r). destruct (negb f && rsucc x || rnil x); [apply PJ_refl|].
  destruct (negb f && is_some (rctx x) && negb (rexited x) && ctx_live s (rctx x)); [apply PJ_refl|]. cbn zeta.
  set (s2 := cancel_inst (stop_timer s (rretry x)) (rcancel x)).
  assert (P2 : PJ s s2) by (eapply PJ_trans; [apply PJ_stop_retry | apply PJ_cancel_inst]).
  assert (X2 : getr s2 r = x) by (unfold s2; rewrite getr_cancel_inst, getr_stop_timer; reflexivity).
  assert (K2 : lookup (kmap s2) k = Some r) by (unfold s2; rewrite kmap_cancel_inst, kmap_stop_timer; exact Hk).
  eapply PJ_trans; [exact P2|]. eapply PJ_trans.
  - apply (J_insts s2 (set_insts s2 (insts s2 ++ [{| irec := r; ikey := rkey x; ilin := rlin x; iwait := w; ipcv := IGate0; icanc := root_canc s c;
                                                     iexit := false; idata := rdata x; iroot := c |}]))); try reflexivity.
    intros HJ i y Hy. cbn [insts set_insts] in Hy. destruct (nth_error_app_inv _ _ _ _ Hy) as [G| ->]; [eapply j_wi; eauto|].
    cbn [irec]. apply (j_wk _ HJ k r K2).
  - apply J_setr; rewrite getr_set_insts', X2; cbn [rkey rremove rretry with_started]; [reflexivity | auto | intros; discriminate].
Qed.

Lemma PJ_new_record s k lin w : PJ s (fst (new_record s k lin w)).
Proof.
  intros [A B C D E]. destruct (new_record_frame s k lin w) as (F0 & F1 & _ & F3 & _ & F5 & F6 & F7 & F8 & _ & _ & _ & _ & F13 & F14 & _).
  set (s' := fst (new_record s k lin w)) in *. set (n := snd (new_record s k lin w)) in *.
  constructor; rewrite ?F1, ?F3, ?F5, ?F6.
  - intros k' r Hk. destruct (Nat.eq_dec k' k) as [->|Hne].
    + rewrite lookup_insert_same in Hk. inversion Hk; subst r. rewrite F8, F0. split; [lia | reflexivity].
    + rewrite lookup_insert_other in Hk by exact Hne. destruct (A k' r Hk) as [A1 A2]. rewrite F7 by exact A1. split; [lia | exact A2].
  - intros i x Hx. specialize (B i x Hx). lia.
  - intros k' r t Hk Hr. destruct (Nat.eq_dec k' k) as [->|Hne].
    + rewrite lookup_insert_same in Hk. inversion Hk; subst r. rewrite F13 in Hr. discriminate.
    + rewrite lookup_insert_other in Hk by exact Hne. destruct (A k' r Hk) as [A1 _]. rewrite F7 in Hr by exact A1. eauto.
  - intros r t Hr. destruct (Nat.lt_ge_cases r (length (recs s))) as [Hl|Hl]; [rewrite F7 in Hr by exact Hl; eauto|].
    destruct (Nat.eq_dec r n) as [->|Hne]; [rewrite F14 in Hr; discriminate|].
    unfold getr in Hr. rewrite nth_overflow in Hr by (rewrite F6; lia). discriminate.
  - intros t x Hx. destruct (E t x Hx) as [E1 E2]. rewrite F7 by exact E1. split; [lia | exact E2].
Qed.

Lemma PJ_unremove s k r : lookup (kmap s) k = Some r -> PJ s (unremove s r).
Proof.
  intros Hk HJ. unfold unremove. destruct (rremove (getr s r)) as [t|] eqn:Et; [|exact HJ].
  destruct (j_it _ HJ k r t Hk Et) as (x & Hx & T1 & T2 & T3).
  (* first clear the record, then stop the timer: the two updates commute *)
  assert (E : setr (stop_timer s (Some t)) r (with_remove (getr s r) None) = stop_timer (setr s r (with_remove (getr s r) None)) (Some t)).
  { unfold stop_timer. cbn [timers setr set_recs]. rewrite Hx. destruct (tst x); reflexivity. }
  rewrite E. set (s1 := setr s r (with_remove (getr s r) None)).
  assert (J1 : J s1) by (revert HJ; apply J_setr; cbn [rkey rremove rretry with_remove]; [reflexivity | intros; discriminate | auto]).
  unfold stop_timer. change (timers s1) with (timers s). rewrite Hx. destruct (tst x) eqn:Es; try exact J1.
  revert J1. apply (J_tstate s1 t x TStopped Hx). right. right. intros k' r' Hk' Hr'.
  change (kmap s1) with (kmap s) in Hk'.
  destruct (j_wk _ HJ k r Hk) as [Rl _].
  destruct (Nat.eq_dec r' r) as [->|Hne]; [unfold s1 in Hr'; rewrite getr_setr_same in Hr' by exact Rl; discriminate|].
  unfold s1 in Hr'. rewrite getr_setr_other in Hr' by exact Hne.
  destruct (j_it _ HJ k' r' t Hk' Hr') as (x' & Hx' & T1' & _). congruence.
Qed.

Lemma PJ_setr_ctx s r y : rctxonly (getr s r) y -> PJ s (setr s r y).
Proof. intros (K & _ & _ & _ & _ & _ & _ & _ & Rm & Rt & _). apply J_setr; [exact K | intros t H; congruence | intros t H; left; congruence]. Qed.

Lemma PJ_kmap_delete s k : PJ s (set_kmap s (delete (kmap s) k)).
Proof.
  intros [A B C D E]. constructor; cbn [kmap recs insts timers set_kmap]; change (getr (set_kmap s (delete (kmap s) k))) with (getr s); auto.
  - intros k' r Hk. apply lookup_delete_some in Hk as [_ Hk]. auto.
  - intros k' r t Hk. apply lookup_delete_some in Hk as [_ Hk]. eauto.
Qed.

Lemma PJ_arm_remove s k r : lookup (kmap s) k = Some r -> rremove (getr s r) = None ->
  PJ s (setr (set_timers s (timers s ++ [rm_timer s r])) r (with_remove (getr s r) (Some (length (timers s))))).
Proof.
  intros Hk Hr HJ. destruct (j_wk _ HJ k r Hk) as [Rl Rk].
  set (s1 := set_timers s (timers s ++ [rm_timer s r])).
  assert (J1 : J s1) by (revert HJ; apply J_timers_app; intros _; split; [exact Rl | reflexivity]).
  (* the record's pending removal becomes the new timer *)
  destruct J1 as [A B C D E].
  assert (GK : forall q, rkey (getr (setr s1 r (with_remove (getr s r) (Some (length (timers s))))) q) = rkey (getr s1 q))
    by (intros q; now apply (getr_setr_field rkey)).
  assert (L : length (recs (setr s1 r (with_remove (getr s r) (Some (length (timers s)))))) = length (recs s1)) by (rewrite recs_setr; apply length_set_nth).
  constructor; rewrite ?kmap_setr, ?insts_setr, ?L; change (timers (setr s1 r (with_remove (getr s r) (Some (length (timers s)))))) with (timers s1).
  - intros k' q Hk'. rewrite GK. auto.
  - exact B.
  - intros k' q t Hk' Hq. destruct (Nat.eq_dec q r) as [->|Hne].
    + rewrite getr_setr_same in Hq by exact Rl. cbn [rremove with_remove] in Hq. inversion Hq; subst t.
      exists (rm_timer s r). unfold s1. cbn [timers set_timers]. rewrite nth_error_app2, Nat.sub_diag by lia. split; [reflexivity|].
      repeat split. now left.
    + rewrite getr_setr_other in Hq by exact Hne. eauto.
  - intros q t Hq. destruct (Nat.eq_dec q r) as [->|Hne]; [rewrite getr_setr_same in Hq by exact Rl | rewrite getr_setr_other in Hq by exact Hne]; eauto.
    cbn [rretry with_remove] in Hq. change (getr s r) with (getr s1 r) in Hq. eauto.
  - intros t x Hx. rewrite GK. eauto.
Qed.

Lemma PJ_bookkeep s i : PJ s (bookkeep s i).
Proof.
  unfold bookkeep. destruct (nth_error (insts s) i) as [x|] eqn:Ex; [|apply PJ_refl]. destruct (ipcv x) eqn:Ep; try apply PJ_refl.
  set (s0 := seti s i (with_pc x IDone)). assert (G0 : PJ s s0) by (now apply (J_seti s i x)).
  set (r := irec x). set (y := getr s r).
  destruct (rctx y) as [j|]; [|exact G0]. destruct (Nat.eqb j i); [|exact G0].
  assert (G : forall S a b, PJ s S -> getr S r = y ->
                (forall t, a = Some t -> rretry y = Some t \/ exists z, nth_error (timers S) t = Some z /\ tkind z = false) ->
                PJ s (set_cblog (setr S r (with_exit y o a b)) (cblog (setr S r (with_exit y o a b)) ++ [(rkey y, rdata y, o)]))).
  { intros S a b HS Hy Ha. apply (PJ_trans _ S); [exact HS|]. apply (PJ_trans _ (setr S r (with_exit y o a b))); [|jext].
    apply J_setr; rewrite Hy; cbn [rkey rremove rretry with_exit]; auto. }
  destruct (script s0) as [l|]; [|apply G; [exact G0 | reflexivity | intros t Ht; now left]].
  assert (G' : PJ s (stop_timer s0 (rretry y))) by (eapply PJ_trans; [exact G0 | apply (PJ_stop_retry s0 r)]).
  assert (Y' : getr (stop_timer s0 (rretry y)) r = y) by (rewrite getr_stop_timer; reflexivity).
  destruct (is_nil o); [apply G; [exact G' | exact Y' | intros; discriminate]|]. destruct (in_map _ _); [|apply G; [exact G' | exact Y' | intros; discriminate]].
  destruct (nth_error l _); [|apply G; [exact G' | exact Y' | intros; discriminate]].
  set (s' := stop_timer s0 (rretry y)) in *.
  apply G.
  - eapply PJ_trans; [exact G'|]. apply J_timers_app. cbn [trec tkey]. intros HJ. fold s'. rewrite Y'. split; [|reflexivity].
    assert (Hi : nth_error (insts s') i = Some (with_pc x IDone)).
    { unfold s'. destruct (stop_timer_frame s0 (rretry y)) as (_ & _ & T3 & _). rewrite T3. unfold s0. rewrite insts_seti.
      apply nth_error_set_nth_same. eapply nth_error_nth_len; eauto. }
    exact (j_wi _ HJ i _ Hi).
  - unfold getr in *. cbn [recs set_timers]. exact Y'.
  - intros t Ht. inversion Ht; subst t. right. eexists. cbn [timers set_timers]. rewrite nth_error_app2, Nat.sub_diag by lia. split; reflexivity.
Qed.

Lemma PJ_clear_retry s r : PJ s (setr s r (with_retry (getr s r) None)).
Proof. apply J_setr; cbn [rkey rremove rretry with_retry]; [reflexivity | auto | intros; discriminate]. Qed.

(* the callback of a delayed removal *)
Lemma in_map_J s r : J s -> in_map s r = true -> lookup (kmap s) (rkey (getr s r)) = Some r.
Proof. intros _. apply in_map_lookup. Qed.
Lemma J_registered_in_map s k r : J s -> lookup (kmap s) k = Some r -> in_map s r = true.
Proof. intros HJ Hk. destruct (j_wk _ HJ k r Hk) as [_ E]. unfold in_map. rewrite E, Hk. apply Nat.eqb_refl. Qed.

Lemma PJ_cb_remove s t x : nth_error (timers s) t = Some x -> tst x = TFired -> tkind x = true ->
  in_map (ran s t x) (trec x) = true -> rremove (getr (ran s t x) (trec x)) = Some t ->
  PJ s (setr (stop_timer (ran s t x) (Some t)) (trec x) (with_remove (getr (stop_timer (ran s t x) (Some t)) (trec x)) None)).
Proof.
  intros Hx Hf Hk Hm Hr HJ. set (r := trec x) in *.
  assert (Hl : t < length (timers s)) by (eapply nth_error_nth_len; eauto).
  (* the timer has run: stopping it changes nothing *)
  assert (E1 : stop_timer (ran s t x) (Some t) = ran s t x).
  { unfold stop_timer, ran. cbn [timers set_timers]. now rewrite nth_error_set_nth_same by exact Hl. }
  rewrite E1. change (getr (ran s t x) r) with (getr s r) in *. change (in_map (ran s t x) r) with (in_map s r) in Hm.
  (* clear the record first, then let the timer run *)
  change (setr (ran s t x) r (with_remove (getr s r) None)) with (ran (setr s r (with_remove (getr s r) None)) t x).
  set (s1 := setr s r (with_remove (getr s r) None)).
  assert (J1 : J s1) by (revert HJ; apply J_setr; cbn [rkey rremove rretry with_remove]; [reflexivity | intros; discriminate | auto]).
  revert J1. apply (J_tstate s1 t x TRan Hx). right. right. intros k' r' Hk' Hr'. change (kmap s1) with (kmap s) in Hk'.
  pose proof (in_map_lookup s r Hm) as Hreg. destruct (j_wk _ HJ _ r Hreg) as [Rl _].
  destruct (Nat.eq_dec r' r) as [->|Hne]; [unfold s1 in Hr'; rewrite getr_setr_same in Hr' by exact Rl; discriminate|].
  unfold s1 in Hr'. rewrite getr_setr_other in Hr' by exact Hne.
  destruct (j_it _ HJ k' r' t Hk' Hr') as (x' & Hx' & T1' & _). rewrite Hx in Hx'. inversion Hx'; subst x'. apply Hne. symmetry. exact T1'.
Qed.
Lemma PJ_cb_stale s t x : nth_error (timers s) t = Some x -> tst x = TFired -> tkind x = true ->
  in_map (ran s t x) (trec x) && opt_is (rremove (getr (ran s t x) (trec x))) t = false -> PJ s (ran s t x).
Proof.
  intros Hx Hf Hk Hc HJ. refine (J_tstate s t x TRan Hx _ HJ). right. right. intros k r Hk' Hr.
  destruct (j_it _ HJ k r t Hk' Hr) as (x' & Hx' & T1 & _). rewrite Hx in Hx'. inversion Hx'; subst x'. subst r.
  change (in_map (ran s t x) (trec x)) with (in_map s (trec x)) in Hc. change (getr (ran s t x) (trec x)) with (getr s (trec x)) in Hc.
  rewrite (J_registered_in_map s k (trec x) HJ Hk'), Hr in Hc. cbn [opt_is andb] in Hc. now rewrite Nat.eqb_refl in Hc.
Qed.
Lemma PJ_cb_retry s t x : nth_error (timers s) t = Some x -> tst x = TFired -> tkind x = false -> PJ s (ran s t x).
Proof.
  intros Hx Hf Hk HJ. refine (J_tstate s t x TRan Hx _ HJ). right. right. intros k r Hk' Hr.
  destruct (j_it _ HJ k r t Hk' Hr) as (x' & Hx' & _ & T & _). congruence.
Qed.

Lemma PJ_advance s d : PJ s (advance s d).
Proof.
  intros [A B C D E]. unfold advance.
  constructor; cbn [kmap recs insts timers set_timers set_clock];
    change (getr (set_timers (set_clock s (clock s + d)%N) (map (fire (clock s + d)%N) (timers s)))) with (getr s); auto.
  - intros k r t Hk Hr. destruct (C k r t Hk Hr) as (x & Hx & T1 & T2 & T3). exists (fire (clock s + d)%N x).
    rewrite nth_error_map, Hx. split; [reflexivity|]. unfold fire, live in *. destruct (tst x) eqn:Es; try (destruct T3; discriminate).
    + destruct (N.leb _ _); cbn [trec tkind tst with_tst]; rewrite ?Es; auto.
    + rewrite Es. auto.
  - intros r t Hr. destruct (D r t Hr) as (x & Hx & T). exists (fire (clock s + d)%N x). rewrite nth_error_map, Hx. split; [reflexivity|].
    unfold fire. destruct (tst x); [destruct (N.leb _ _)| | |]; exact T.
  - intros t x' Hx'. rewrite nth_error_map in Hx'. destruct (nth_error (timers s) t) as [x|] eqn:Hx; [|discriminate]. cbn [option_map] in Hx'.
    inversion Hx'; subst x'. destruct (E t x Hx) as [E1 E2]. unfold fire. destruct (tst x); [destruct (N.leb _ _)| | |]; cbn [trec tkey with_tst]; auto.
Qed.
Lemma PJ_cancel_root s c : PJ s (cancel_root s c).
Proof.
  unfold cancel_root. destruct (Nat.eqb c 0); [apply PJ_refl|]. apply J_insts; try reflexivity.
  intros HJ i x' Hx'. cbn [insts set_croots set_insts] in Hx'. rewrite nth_error_map in Hx'.
  destruct (nth_error (insts s) i) as [x|] eqn:Hx; [|discriminate]. cbn [option_map] in Hx'. inversion Hx'; subst x'.
  pose proof (j_wi _ HJ i x Hx). destruct (Nat.eqb (iroot x) c); exact H.
Qed.

Lemma PJ_remove_now s r : PJ s (remove_now s r).
Proof. apply (remove_now_parts PJ PJ_trans PJ_cancel_inst PJ_stop_retry PJ_clear_retry PJ_kmap_delete). Qed.

Theorem PJ_next s e : PJ s (settle (step repaired s e)).
Proof.
  apply (V_next PJ PJ_refl PJ_trans PJ_cancel_inst (fun s k r c w f H _ => PJ_start s k r c w f H)).
  - intros s0 k _. eapply PJ_trans; [apply PJ_new_record | jext].
  - intros; apply PJ_new_record.
  - apply PJ_unremove. - apply PJ_setr_ctx. - intros; apply PJ_remove_now. - apply PJ_arm_remove.
  - intros s0 i x p H. now apply (J_seti s0 i x).
  - intros s0 i x o H. now apply (J_seti s0 i x).
  - apply PJ_bookkeep. - apply PJ_cb_remove. - apply PJ_cb_stale. - apply PJ_cb_retry.
  - intros; jext. - intros; jext. - intros; jext. - apply PJ_advance. - apply PJ_cancel_root. - intros; jext.
Qed.
Theorem PJ_step s e : PJ s (step repaired s e).
Proof.
  apply (V_step PJ PJ_refl PJ_trans PJ_cancel_inst (fun s k r c w f H _ => PJ_start s k r c w f H)).
  - intros s0 k _. eapply PJ_trans; [apply PJ_new_record | jext].
  - intros; apply PJ_new_record.
  - apply PJ_unremove. - apply PJ_setr_ctx. - intros; apply PJ_remove_now. - apply PJ_arm_remove.
  - intros s0 i x p H. now apply (J_seti s0 i x).
  - intros s0 i x o H. now apply (J_seti s0 i x).
  - apply PJ_bookkeep. - apply PJ_cb_remove. - apply PJ_cb_stale. - apply PJ_cb_retry.
  - intros; jext. - intros; jext. - intros; jext. - apply PJ_advance. - apply PJ_cancel_root. - intros; jext.
Qed.
Lemma J_init dl sc : J (init dl sc).
Proof. constructor; cbn [init kmap recs insts timers]; try (intros; discriminate). - intros [|i] x H; discriminate. - intros r t H. unfold getr in H. cbn in H. destruct r; discriminate. - intros [|t] x H; discriminate. Qed.
Theorem run_J dl sc es : J (run repaired (init dl sc) es).
Proof. unfold run. apply fold_inv; [intros s e H; now apply (PJ_step s e) | apply J_init]. Qed.
Lemma Reach_J s : Reach s -> J s. Proof. intros (dl & sc & es & ->). apply run_J. Qed.

(* after the eager schedule no armed timer is due *)
Definition AD (s : st) : Prop := forall t x, nth_error (timers s) t = Some x -> tst x = TArmed -> (clock s < tdead x)%N.
Lemma timers_wake s i en : timers (wake repaired s i en) = timers s /\ clock (wake repaired s i en) = clock s.
Proof. unfold wake. repeat match goal with |- context [match ?x with _ => _ end] => destruct x end; split; reflexivity. Qed.
Lemma AD_settle s : AD (settle s).
Proof.
  assert (G : forall l s0, timers (fold_left (fun s i => wake repaired s i true) l s0) = timers s0 /\ clock (fold_left (fun s i => wake repaired s i true) l s0) = clock s0).
  { induction l as [|i l IH]; intros s0; cbn [fold_left]; [split; reflexivity|]. destruct (IH (wake repaired s0 i true)) as [A B].
    destruct (timers_wake s0 i true) as [C D]. split; congruence. }
  unfold settle. destruct (G (seq 0 (length (insts s))) (advance s 0)) as [A B]. intros t x Hx Ha. rewrite A in Hx. rewrite B.
  unfold advance in *. cbn [timers clock set_timers set_clock] in *. rewrite nth_error_map in Hx.
  destruct (nth_error (timers s) t) as [y|]; [|discriminate]. cbn [option_map] in Hx. inversion Hx; subst x. clear Hx.
  unfold fire in *. destruct (tst y) eqn:Es; cbn [tst with_tst] in Ha; try congruence.
  destruct (N.leb_spec (tdead y) (clock s + 0)) as [L|L]; [cbn [tst with_tst] in Ha; discriminate | exact L].
Qed.
