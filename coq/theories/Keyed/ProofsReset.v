(* keyed, C06: ResetRoutine / ResetAllRoutines in the reference specification of the key set (AbsSpec.v has every other call):
   the key keeps its place, gets a freshly constructed data value, and a pending removal is dropped.  The refinement of
   ProofsC06.v extended to EVERY event of the model. *)
From Util Require Import Common.Base Common.ListLemmas Keyed.Model Keyed.Proofs Keyed.AbsSpec Keyed.ProofsC06.

Definition a_reset (a : ast) (k : nat) (cond : bool) : ast * (bool * bool) :=
  match lookup (a_keys a) k with
  | None => (a, (false, false))
  | Some _ =>
    if cond then
      let c := S (match lookup (a_ctors a) k with Some c => c | None => 0 end) in
      let d := (N.of_nat k * 1000 + N.of_nat c)%N in
      ({| a_keys := insert (a_keys a) k (d, None); a_ctors := insert (a_ctors a) k c; a_ntok := a_ntok a;
          a_refs := a_refs a; a_rels := a_rels a |}, (true, true))
    else (a, (true, false))
  end.
Definition a_all_step (cond : nat -> bool) (acc : ast * nat) (k : nat) : ast * nat :=
  let '(a, n) := acc in
  let '(a', (ex, rs)) := a_reset a k (cond k) in
  (a', if ex && rs then S n else n).
Definition a_reset_all (a : ast) (cond : nat -> bool) : ast * (nat * nat) :=
  let '(a', n) := fold_left (a_all_step cond) (map fst (a_keys a)) (a, 0) in
  (a', (n, length (a_keys a))).

Inductive aev2 := A1 (e : aev) | AReset (k : nat) (cond : bool) | AResetAll (cond : nat -> bool).
Definition astep2 (a : ast) (e : aev2) : ast :=
  match e with
  | A1 e => astep a e
  | AReset k c => fst (a_reset a k c)
  | AResetAll c => fst (a_reset_all a c)
  end.
Definition aev2_of (s : st) (e : ev) : aev2 :=
  match e with
  | EReset k c => AReset k (cond_match c k)
  | EResetAll c => AResetAll (cond_match c)
  | _ => A1 (aev_of s e)
  end.

(* a record constructed in place of the key's record *)
Lemma R_new_record_same s a k r0 lin w :
  Inv s -> R s a -> lookup (kmap s) k = Some r0 ->
  R (fst (new_record s k lin w))
    {| a_keys := insert (a_keys a) k ((N.of_nat k * 1000 + N.of_nat (S (match lookup (a_ctors a) k with Some c => c | None => 0 end)))%N, None);
       a_ctors := insert (a_ctors a) k (S (match lookup (a_ctors a) k with Some c => c | None => 0 end)); a_ntok := a_ntok a;
       a_refs := a_refs a; a_rels := a_rels a |}.
Proof.
  intros HI [R1 [R2 [R3 [R4 [R5 [R6 [R7 R8]]]]]]] Hk.
  destruct (new_record_frame s k lin w) as [F0 [F1 [F2 [F3 [F4 [F5 [F6 [F7 [F8 [F9 [F10 [F11 [F12 [F13 _]]]]]]]]]]]]]].
  destruct (new_record_data s k lin w) as [D1 [D2 [D3 [D4 D5]]]].
  set (s' := fst (new_record s k lin w)) in *. set (r := snd (new_record s k lin w)) in *.
  assert (Ec : S (match lookup (a_ctors a) k with Some c => c | None => 0 end) = S (ctor_count s k)) by (unfold ctor_count; now rewrite R4).
  rewrite Ec. unfold R. cbn [a_keys a_ctors a_ntok a_refs a_rels]. rewrite F5, D2, D3, D4, F3.
  split; [|split; [|split; [|split; [|split; [exact R5|split; [exact R6|split; [exact R7|]]]]]]].
  - intros k'. unfold kinfo. rewrite F5. destruct (Nat.eq_dec k' k) as [->|Hne].
    + rewrite !lookup_insert_same. now rewrite D1, F13.
    + rewrite !lookup_insert_other by exact Hne. rewrite R1. unfold kinfo.
      destruct (lookup (kmap s) k') as [r'|] eqn:Ek'; [|reflexivity]. rewrite F7; [reflexivity|].
      destruct HI as [_ [HM _]]. apply (HM k' r' Ek').
  - rewrite !keys_insert. now rewrite R2.
  - rewrite keys_insert. now apply ssorted_kins.
  - now rewrite R4.
  - intros k' r' t Hk' Hrm. unfold gett. rewrite F3. fold (gett s t). rewrite F5 in Hk'.
    destruct (Nat.eq_dec k' k) as [->|Hne].
    + rewrite lookup_insert_same in Hk'. inversion Hk'; subst r'. rewrite F13 in Hrm. discriminate.
    + rewrite lookup_insert_other in Hk' by exact Hne. rewrite F7 in Hrm by (destruct HI as [_ [HM _]]; apply (HM k' r' Hk')).
      eapply R8; eauto.
Qed.

Lemma reset_core_refines s a k cond :
  Inv s -> R s a ->
  R (fst (reset_core repaired s k cond)) (fst (a_reset a k (cond_match cond k))) /\
  snd (reset_core repaired s k cond) = snd (a_reset a k (cond_match cond k)).
Proof.
  intros HI HR. unfold reset_core, a_reset. pose proof HR as [R1 _]. rewrite R1. unfold kinfo.
  destruct (lookup (kmap s) k) as [r|] eqn:Ek; [|split; [exact HR | reflexivity]].
  destruct (cond_match cond k); cbn [negb]; [|split; [exact HR | reflexivity]].
  set (x := getr s r). set (s1 := cancel_inst s (rcancel x)).
  assert (H1 : Inv s1) by (apply Inv_cancel_inst, HI).
  assert (Q1 : R s1 a) by (apply (R_Fr0 s); [apply Fr0_cancel | exact HR]).
  assert (K1 : lookup (kmap s1) k = Some r) by (unfold s1; destruct (cancel_inst_frame s (rcancel x)) as [C1 _]; now rewrite C1).
  match goal with |- context [new_record s1 k ?l ?w] => pose proof (R_new_record_same s1 a k r l w H1 Q1 K1) as G; destruct (new_record s1 k l w) as [s2 r2] end.
  cbn [fst snd] in *. split; [|reflexivity]. destruct (has_ctx s2); [now apply R_start | exact G].
Qed.
Lemma reset_routine_refines s a k cond :
  Inv s -> R s a ->
  R (fst (reset_routine repaired s k cond)) (fst (a_reset a k (cond_match cond k))) /\
  snd (reset_routine repaired s k cond) = snd (a_reset a k (cond_match cond k)).
Proof.
  intros HI HR. unfold reset_routine. apply reset_core_refines; [now apply Inv_norm_ctx|]. apply (R_Fr0 s); [apply Fr0_norm_ctx | exact HR].
Qed.

Lemma reset_all_fold cond : forall ks s a n,
  Inv s -> R s a ->
  let c := fold_left (all_step (reset_routine repaired) cond) ks (s, n) in
  let d := fold_left (a_all_step (cond_match cond)) ks (a, n) in
  R (fst c) (fst d) /\ snd c = snd d.
Proof.
  induction ks as [|k ks IH]; intros s a n HI HR; cbn [fold_left]; [split; [exact HR | reflexivity]|].
  destruct (reset_routine_refines s a k cond HI HR) as [G1 G2]. pose proof (reset_routine_inv s k cond HI) as I1.
  assert (E1 : all_step (reset_routine repaired) cond (s, n) k =
               (fst (reset_routine repaired s k cond), if fst (snd (reset_routine repaired s k cond)) && snd (snd (reset_routine repaired s k cond)) then S n else n))
    by (unfold all_step; destruct (reset_routine repaired s k cond) as [? [? ?]]; reflexivity).
  assert (E2 : a_all_step (cond_match cond) (a, n) k =
               (fst (a_reset a k (cond_match cond k)), if fst (snd (a_reset a k (cond_match cond k))) && snd (snd (a_reset a k (cond_match cond k))) then S n else n))
    by (unfold a_all_step; destruct (a_reset a k (cond_match cond k)) as [? [? ?]]; reflexivity).
  rewrite E1, E2, G2. apply IH; assumption.
Qed.
Lemma reset_all_refines s a cond :
  Inv s -> R s a ->
  R (fst (reset_all repaired s cond)) (fst (a_reset_all a (cond_match cond))) /\
  snd (reset_all repaired s cond) = snd (a_reset_all a (cond_match cond)).
Proof.
  intros HI HR. unfold reset_all, a_reset_all. pose proof HR as [_ [R2 _]]. rewrite R2.
  destruct (reset_all_fold cond (map fst (kmap s)) s a 0 HI HR) as [G1 G2]. cbn zeta in *.
  destruct (fold_left (all_step (reset_routine repaired) cond) (map fst (kmap s)) (s, 0)) as [s' n].
  destruct (fold_left (a_all_step (cond_match cond)) (map fst (kmap s)) (a, 0)) as [a' n']. cbn [fst snd] in *. subst n'.
  split; [exact G1|]. f_equal. f_equal. rewrite <- (map_length fst (kmap s)), <- R2. apply map_length.
Qed.

Theorem step_refines2 s a e : Inv s -> R s a -> R (step repaired s e) (astep2 a (aev2_of s e)).
Proof.
  intros HI HR. destruct (c06_ev e) eqn:E; [destruct e; try discriminate E; cbn [aev2_of astep2]; now apply step_refines|].
  destruct e; try discriminate E; cbn [step aev2_of astep2]; [now apply reset_routine_refines | now apply reset_all_refines].
Qed.
