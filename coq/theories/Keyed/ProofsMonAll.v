(* keyed: the monitors on the model's own observations, assembled: the relation between monitor state and model state
   is preserved by every codec-level step, and the clauses proved so far hold at every step, for every event list and
   every configuration the codec accepts. *)
From Util Require Import Common.Base Common.ListLemmas Keyed.Model Keyed.Spec Keyed.Proofs Keyed.ProofsC07 Keyed.ProofsMon Keyed.ProofsMon2
  Keyed.ProofsInc.
Open Scope N_scope.

Record Rel (m : mst) (h : hst) : Prop := {
  rel_cfg : RCfg m (hs h);
  rel_ctx : RCtx (m_ctx m) (m_canc m) (hs h);
  rel_ninst : m_ninst m = length (insts (hs h));
  rel_refs : RRefs (m_ref m) (hs h);
  rel_inc : exists phi, RInc m (hs h) phi;
}.

(* the clauses proved *)
Definition proved (pc : nat * nat) : bool :=
  match pc with
  | (6, 5) | (6, 9) | (7, 1) | (7, 2) | (7, 3) | (7, 4) | (7, 9) => true
  | _ => false
  end%nat.

Lemma Rel_init cfg h m : hinit cfg = Some h -> minit cfg = Some m -> Rel m h.
Proof.
  unfold hinit, minit. destruct cfg as [|v [|dl [|hb sc]]]; try discriminate. intros E1 E2. inversion E1; inversion E2; subst.
  split; cbn [hs m_ctx m_canc m_ninst m_ref]; try reflexivity.
  - repeat split.
  - split; [left; reflexivity | reflexivity].
  - split; reflexivity.
  - exists (fun _ => 0%nat). constructor; cbn [m_incs m_sinc m_okeys m_ninc init kmap insts recs]; try reflexivity.
    + intros k rec Hk. discriminate.
    + intros [|j] x Hx; discriminate.
    + intros key i Hi. discriminate.
Qed.

Lemma Rel_step m h e ev rets : HR h -> Rel m h -> DecCase h e ev rets ->
  (forall x, In x (clauses m e (pobs_of rets (next h ev) (hlog h))) -> proved (fst x) = true -> snd x = true) /\
  Rel (fst (mon1 m e (pobs_of rets (next h ev) (hlog h)))) {| hs := next h ev; hvar := hvar h; hlog := length (cblog (next h ev)) |}.
Proof.
  intros Hh [R1 R2 R3 R4 [phi R5]] Hc.
  destruct (RInc_step m h e ev rets phi Hh R5 R3) as [phi' R5']. split.
  - intros x Hx Hk. unfold clauses in Hx. cbn [In] in Hx.
    repeat (destruct Hx as [<-|Hx]; [cbn [fst snd proved] in *; try discriminate Hk|]); try contradiction.
    + eapply c65_holds; eauto.
    + apply (c71_holds (fst (mon1 m e (pobs_of rets (next h ev) (hlog h)))) (next h ev) phi' rets (hlog h)); [apply Reach_settle, Reach_step, Hh | exact R5' | apply (j_okeys _ _ _ R5')].
    + eapply c72_holds; eauto.
    + eapply c73_holds; eauto.
    + eapply c74_holds; eauto.
  - split; cbn [hs].
    + eapply RCfg_step; eauto.
    + cbn [fst mon1 m_ctx m_canc]. eapply RCtx_step; eauto.
    + cbn [fst mon1 m_ninst po_insts pobs_of]. now rewrite map_length.
    + cbn [fst mon1 m_ref]. eapply RRefs_step; eauto.
    + exists phi'. exact R5'.
Qed.

Theorem model_satisfies_monitors_proved cfg evs :
  monitor (mon_only proved) 0 (minit cfg) [] evs (run_obs step_opt (hinit cfg) evs) = [].
Proof. apply (msm proved Rel Rel_init Rel_step). Qed.

(* the model replayed on its own observations *)
Lemma list_eqb_refl l : list_eqb l l = true.
Proof. induction l as [|h t IH]; [reflexivity|]. cbn [list_eqb]. now rewrite N.eqb_refl, IH. Qed.
Lemma replay_own evs : forall s i, length (run_obs step_opt s evs) = length evs -> replay step_opt i s evs (run_obs step_opt s evs) = [].
Proof.
  induction evs as [|e evs IH]; intros s i Hl; [reflexivity|]. cbn [run_obs replay] in *.
  destruct (step_opt s e) as [[s' o]|]; [|discriminate Hl]. cbn [length] in Hl. rewrite list_eqb_refl. apply IH. lia.
Qed.
Theorem model_run_check_clean_proved cfg evs :
  length (run_obs step_opt (hinit cfg) evs) = length evs ->
  run_check step_opt (mon_only proved) (hinit cfg) (minit cfg) evs (run_obs step_opt (hinit cfg) evs) = [].
Proof. intros Hl. unfold run_check. rewrite (replay_own evs _ 0 Hl), model_satisfies_monitors_proved. reflexivity. Qed.
