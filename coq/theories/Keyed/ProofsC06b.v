(* keyed, C06: consequences of the refinement, proved on the reference specification and transferred. *)
From Util Require Import Common.Base Common.ListLemmas Keyed.Model Keyed.Proofs Keyed.AbsSpec Keyed.ProofsC06.

(* ------------------------------------------------------------------ *)
(* facts about the specification alone *)
Lemma a_request_keys a k k' :
  lookup (a_keys (fst (a_request a k))) k' =
  if Nat.eqb k' k then Some (fst (snd (a_request a k)), None) else lookup (a_keys a) k'.
Proof.
  unfold a_request. destruct (lookup (a_keys a) k) as [[d p]|] eqn:E; cbn [fst snd a_keys set_a_keys];
    (destruct (Nat.eqb_spec k' k) as [->|Hne]; [apply lookup_insert_same | now apply lookup_insert_other]).
Qed.
Lemma a_request_present_data a k d p : lookup (a_keys a) k = Some (d, p) -> fst (snd (a_request a k)) = d.
Proof. intros E. unfold a_request. now rewrite E. Qed.
Lemma a_request_refs a k : a_refs (fst (a_request a k)) = a_refs a /\ a_rels (fst (a_request a k)) = a_rels a.
Proof. unfold a_request. destruct (lookup (a_keys a) k) as [[d p]|]; auto. Qed.
Lemma a_remove_refs a k now : a_refs (fst (a_remove a k now)) = a_refs a /\ a_rels (fst (a_remove a k now)) = a_rels a.
Proof. unfold a_remove. destruct (lookup (a_keys a) k) as [[d [t|]]|]; [auto| |auto]. destruct now; auto. Qed.

Lemma a_remove_other a k now k' : k' <> k -> lookup (a_keys (fst (a_remove a k now))) k' = lookup (a_keys a) k'.
Proof.
  intros Hne. unfold a_remove. destruct (lookup (a_keys a) k) as [[d [t|]]|]; [reflexivity| |reflexivity].
  destruct now; cbn [fst a_keys set_a_keys]; [now apply lookup_delete_other | now apply lookup_insert_other].
Qed.
(* what a removal request does to its own key *)
Lemma a_remove_same a k now :
  lookup (a_keys (fst (a_remove a k now))) k =
  match lookup (a_keys a) k with
  | Some (d, Some t) => Some (d, Some t)
  | Some (d, None) => if now then None else Some (d, Some (a_ntok a))
  | None => None
  end.
Proof.
  unfold a_remove. destruct (lookup (a_keys a) k) as [[d [t|]]|] eqn:E; [exact E| |exact E].
  destruct now; cbn [fst a_keys set_a_keys]; [apply lookup_delete_same | apply lookup_insert_same].
Qed.

(* a key that is present with no removal pending is untouched by every abstract event that is not a removal request
   for that very key *)
Definition a_rm_req (k : nat) (e : aev) : bool :=
  match e with
  | ARemove k' _ | ARcRemove k' _ => Nat.eqb k' k
  | ASync ks _ => negb (mem k ks)
  | ARelSect _ _ => true
  | _ => false
  end.

Lemma a_sync_one_keeps k d : forall ks a seen added,
  lookup (a_keys a) k = Some (d, None) ->
  lookup (a_keys (fst (fst (fold_left a_sync_one ks (a, seen, added))))) k = Some (d, None).
Proof.
  induction ks as [|k0 ks IH]; intros a seen added H; cbn [fold_left]; [exact H|].
  unfold a_sync_one at 2. destruct (mem k0 seen); [now apply IH|].
  pose proof (a_request_keys a k0 k) as G. pose proof (a_request_present_data a k0) as Gd.
  destruct (a_request a k0) as [a1 [d0 ex]]. cbn [fst snd] in *. apply IH. rewrite G.
  destruct (Nat.eqb_spec k k0) as [->|Hne]; [|exact H]. now rewrite (Gd d None H).
Qed.
Lemma a_sync_rm_keeps k v keys now : mem k keys = true -> forall ks a removed,
  lookup (a_keys a) k = Some v ->
  lookup (a_keys (fst (fold_left (a_sync_rm keys now) ks (a, removed)))) k = Some v.
Proof.
  intros Hm. induction ks as [|k0 ks IH]; intros a removed H; cbn [fold_left]; [exact H|].
  unfold a_sync_rm at 2. destruct (mem k0 keys) eqn:E0; [now apply IH|]. apply IH. cbn [fst].
  rewrite a_remove_other; [exact H|]. intros ->. congruence.
Qed.

Lemma a_keep a e k d :
  lookup (a_keys a) k = Some (d, None) -> a_rm_req k e = false -> lookup (a_keys (astep a e)) k = Some (d, None).
Proof.
  intros H He. destruct e; cbn [astep a_rm_req] in *; try discriminate; try exact H.
  - rewrite a_request_keys. destruct (Nat.eqb_spec k k0) as [->|Hne]; [|exact H]. now rewrite (a_request_present_data a k0 d None H).
  - apply Nat.eqb_neq in He. now rewrite a_remove_other by congruence.
  - unfold a_sync. pose proof (a_sync_one_keeps k d ks a [] [] H) as G1.
    destruct (fold_left a_sync_one ks (a, [], [])) as [[a1 seen] added]. cbn [fst] in G1.
    apply negb_false_iff in He.
    pose proof (a_sync_rm_keeps k (d, None) ks now He (map fst (a_keys a1)) a1 [] G1) as G2.
    destruct (fold_left (a_sync_rm ks now) (map fst (a_keys a1)) (a1, [])) as [a2 removed]. exact G2.
  - unfold a_add_ref. pose proof (a_request_keys a k0 k) as G. pose proof (a_request_present_data a k0) as Gd.
    destruct (a_request a k0) as [a1 [d0 ex]]. cbn [fst snd a_keys set_a_refs] in *. rewrite G.
    destruct (Nat.eqb_spec k k0) as [->|Hne]; [|exact H]. now rewrite (Gd d None H).
  - unfold a_release_start. destruct (nth_error (a_refs a) f) as [x|]; [|exact H]. destruct (frel x); exact H.
  - apply Nat.eqb_neq in He. unfold a_rc_remove. rewrite a_remove_other by congruence. exact H.
  - unfold a_callback. destruct (lookup (a_keys a) k0) as [[d0 [t'|]]|] eqn:E; try exact H.
    destruct (Nat.eqb t' t); [|exact H]. cbn [a_keys set_a_keys].
    rewrite lookup_delete_other; [exact H|]. intros ->. congruence.
Qed.

(* a key with a pending removal token t disappears only through the callback of that token *)
Lemma a_sync_one_keeps_present k : forall ks a seen added,
  lookup (a_keys a) k <> None -> lookup (a_keys (fst (fst (fold_left a_sync_one ks (a, seen, added))))) k <> None.
Proof.
  induction ks as [|k0 ks IH]; intros a seen added H; cbn [fold_left]; [exact H|].
  unfold a_sync_one at 2. destruct (mem k0 seen); [now apply IH|].
  pose proof (a_request_keys a k0 k) as G. destruct (a_request a k0) as [a1 [d0 ex]]. cbn [fst snd] in *. apply IH. rewrite G.
  destruct (Nat.eqb k k0); [discriminate | exact H].
Qed.

(* ------------------------------------------------------------------ *)
(* re-requests keep the key for good *)
Definition rm_req (k : nat) (e : ev) : bool :=
  match e with
  | ERemoveKey k' | ERcRemove k' => Nat.eqb k' k
  | ESyncKeys ks _ => negb (mem k ks)
  | ERelSect _ => true
  | _ => false
  end.

Lemma a_rm_req_aev s e k : rm_req k e = false -> a_rm_req k (aev_of s e) = false.
Proof.
  destruct e; cbn [rm_req aev_of a_rm_req]; auto.
  intros _. unfold cb_aev. destruct (nth_error (timers s) t) as [x|]; [|reflexivity]. destruct (tst x); try reflexivity. destruct (tkind x); reflexivity.
Qed.

Lemma kinfo_R s a k : R s a -> kinfo s k = lookup (a_keys a) k.
Proof. intros [R1 _]. now rewrite R1. Qed.

Theorem keeps_for_good : forall es s a k d,
  Inv s -> R s a -> forallb c06_ev es = true -> forallb (fun e => negb (rm_req k e)) es = true ->
  kinfo s k = Some (d, None) -> kinfo (run repaired s es) k = Some (d, None).
Proof.
  induction es as [|e es IH]; intros s a k d HI HR H1 H2 Hk; cbn [run fold_left]; [exact Hk|].
  cbn [forallb] in H1, H2. apply andb_true_iff in H1 as [E1 H1]. apply andb_true_iff in H2 as [E2 H2]. apply negb_true_iff in E2.
  pose proof (step_refines s a e HI HR E1) as HR'.
  apply (IH (step repaired s e) (astep a (aev_of s e))); auto using step_inv.
  rewrite (kinfo_R _ _ k HR'). apply a_keep; [rewrite <- (kinfo_R _ _ k HR); exact Hk | now apply a_rm_req_aev].
Qed.

(* every request leaves the key present with no removal pending *)
Lemma set_key_clears_pending s a k st :
  Inv s -> R s a -> kinfo (fst (set_key repaired s k st)) k = Some (fst (snd (set_key repaired s k st)), None).
Proof.
  intros HI HR. destruct (set_key_refines s a k st HI HR) as [G1 G2].
  rewrite (kinfo_R _ _ k G1), a_request_keys, Nat.eqb_refl, G2. reflexivity.
Qed.
Lemma add_key_ref_clears_pending s a k :
  Inv s -> R s a -> kinfo (fst (add_key_ref repaired s k)) k = Some (fst (snd (add_key_ref repaired s k)), None).
Proof.
  intros HI HR. destruct (add_key_ref_refines s a k HI HR) as [G1 G2]. rewrite (kinfo_R _ _ k G1), G2.
  unfold a_add_ref. pose proof (a_request_keys a k k) as G. destruct (a_request a k) as [a1 [d ex]]. cbn [fst snd a_keys set_a_refs] in *.
  now rewrite G, Nat.eqb_refl.
Qed.

Lemma a_sync_one_sets k : forall ks a seen added,
  (mem k seen = true -> exists d, lookup (a_keys a) k = Some (d, None)) -> (In k ks \/ mem k seen = true) ->
  exists d, lookup (a_keys (fst (fst (fold_left a_sync_one ks (a, seen, added))))) k = Some (d, None).
Proof.
  induction ks as [|k0 ks IH]; intros a seen added Hs Hin; cbn [fold_left].
  - destruct Hin as [[]|Hm]. now apply Hs.
  - unfold a_sync_one at 2. destruct (mem k0 seen) eqn:E0.
    + apply IH; [exact Hs|]. destruct Hin as [[->|Hin]|Hm]; auto.
    + pose proof (a_request_keys a k0 k) as G. pose proof (a_request_present_data a k0) as Gd.
      destruct (a_request a k0) as [a1 [d0 ex]]. cbn [fst snd] in *. apply IH.
      * intros Hm. rewrite G. destruct (Nat.eqb_spec k k0) as [->|Hne]; [eauto|].
        apply Hs. cbn [mem existsb] in Hm. unfold mem. destruct (Nat.eqb_spec k k0); [contradiction|]. exact Hm.
      * destruct Hin as [[->|Hin]|Hm]; [right; cbn [mem existsb]; now rewrite Nat.eqb_refl | now left |].
        right. cbn [mem existsb]. unfold mem in Hm. rewrite Hm. apply orb_true_r.
Qed.

Lemma sync_keys_clears_pending s a ks restart k :
  Inv s -> R s a -> In k ks -> exists d, kinfo (fst (sync_keys repaired s ks restart)) k = Some (d, None).
Proof.
  intros HI HR Hin. destruct (sync_keys_refines s a ks restart HI HR) as [G1 _]. rewrite (kinfo_R _ _ k G1).
  unfold a_sync. destruct (a_sync_one_sets k ks a [] [] ltac:(discriminate) (or_introl Hin)) as [d Hd].
  destruct (fold_left a_sync_one ks (a, [], [])) as [[a1 seen] added]. cbn [fst] in Hd.
  assert (Hm : mem k ks = true) by (now apply mem_In).
  pose proof (a_sync_rm_keeps k (d, None) ks (now_of s) Hm (map fst (a_keys a1)) a1 [] Hd) as G2.
  destruct (fold_left (a_sync_rm ks (now_of s)) (map fst (a_keys a1)) (a1, [])) as [a2 removed]. eauto.
Qed.

(* ------------------------------------------------------------------ *)
(* a failed key is removed at once; an intact one with a delay is kept and gets a removal timer due at clock + delay *)
Lemma failed_removed_now s k r :
  Inv s -> lookup (kmap s) k = Some r -> rremove (getr s r) = None -> failed (getr s r) = true ->
  lookup (kmap (fst (remove_key s k))) k = None.
Proof.
  intros HI Hk Hp Hf. unfold remove_key. rewrite Hk. cbn [fst]. unfold remove_rec. rewrite Hp, Hf, orb_true_r.
  unfold remove_now. cbn [kmap set_kmap].
  assert (Hkey : rkey (getr s r) = k) by (destruct HI as [_ [HM _]]; destruct (HM k r Hk) as [_ [X _]]; exact X).
  rewrite Hkey. apply lookup_delete_same.
Qed.

Lemma delayed_removal_arms_timer s k r :
  Inv s -> lookup (kmap s) k = Some r -> rremove (getr s r) = None -> failed (getr s r) = false -> delay s <> 0%N ->
  let s' := fst (remove_key s k) in
  let t := length (timers s) in
  lookup (kmap s') k = Some r /\ rremove (getr s' r) = Some t /\
  nth_error (timers s') t = Some {| tkind := true; trec := r; tkey := k; tdead := (clock s + delay s)%N; tst := TArmed |}.
Proof.
  intros HI Hk Hp Hf Hd. cbn zeta. unfold remove_key. rewrite Hk. cbn [fst]. unfold remove_rec. rewrite Hp, Hf.
  destruct (N.eqb_spec (delay s) 0) as [E|E]; [contradiction|]. cbn [orb].
  assert (Hr : r < length (recs s)) by (destruct HI as [_ [HM _]]; apply (HM k r Hk)).
  assert (Hkey : rkey (getr s r) = k) by (destruct HI as [_ [HM _]]; destruct (HM k r Hk) as [_ [X _]]; exact X).
  rewrite kmap_setr. split; [exact Hk|]. split.
  - rewrite getr_setr_same by exact Hr. reflexivity.
  - cbn [timers setr set_recs set_timers]. rewrite nth_error_app2 by lia. rewrite Nat.sub_diag, Hkey. reflexivity.
Qed.

(* ------------------------------------------------------------------ *)
(* a key whose removal is pending leaves the set only through the callback of that very removal *)
Lemma a_sync_one_other k : forall ks a seen added,
  ~ In k ks -> lookup (a_keys (fst (fst (fold_left a_sync_one ks (a, seen, added))))) k = lookup (a_keys a) k.
Proof.
  induction ks as [|k0 ks IH]; intros a seen added Hn; cbn [fold_left]; [reflexivity|].
  unfold a_sync_one at 2. destruct (mem k0 seen); [apply IH; intros X; apply Hn; now right|].
  pose proof (a_request_keys a k0 k) as G. destruct (a_request a k0) as [a1 [d0 ex]]. cbn [fst snd] in *.
  rewrite IH by (intros X; apply Hn; now right). rewrite G.
  destruct (Nat.eqb_spec k k0) as [->|Hne]; [exfalso; apply Hn; now left | reflexivity].
Qed.
Lemma a_sync_rm_pending k d t keys now : forall ks a removed,
  lookup (a_keys a) k = Some (d, Some t) ->
  lookup (a_keys (fst (fold_left (a_sync_rm keys now) ks (a, removed)))) k = Some (d, Some t).
Proof.
  induction ks as [|k0 ks IH]; intros a removed H; cbn [fold_left]; [exact H|].
  unfold a_sync_rm at 2. destruct (mem k0 keys); [now apply IH|]. apply IH. cbn [fst].
  destruct (Nat.eq_dec k k0) as [->|Hne]; [rewrite a_remove_same, H; reflexivity | now rewrite a_remove_other].
Qed.

Lemma a_remove_pending_kept a k0 now k d t :
  lookup (a_keys a) k = Some (d, Some t) -> lookup (a_keys (fst (a_remove a k0 now))) k = Some (d, Some t).
Proof. intros H. destruct (Nat.eq_dec k k0) as [->|Hne]; [rewrite a_remove_same, H; reflexivity | now rewrite a_remove_other]. Qed.

Lemma a_pending_only_callback a e k d t :
  lookup (a_keys a) k = Some (d, Some t) -> lookup (a_keys (astep a e)) k = None -> e = ACallback k t.
Proof.
  intros H Hn. destruct e; cbn [astep] in Hn.
  - rewrite a_request_keys in Hn. destruct (Nat.eqb k k0); [discriminate | congruence].
  - rewrite (a_remove_pending_kept a k0 now k d t H) in Hn. discriminate.
  - exfalso. unfold a_sync in Hn.
    destruct (in_dec Nat.eq_dec k ks) as [Hin|Hni].
    + destruct (a_sync_one_sets k ks a [] [] ltac:(discriminate) (or_introl Hin)) as [d' Hd'].
      destruct (fold_left a_sync_one ks (a, [], [])) as [[a1 seen] added]. cbn [fst] in Hd'.
      pose proof (a_sync_rm_keeps k (d', None) ks now (proj2 (mem_In k ks) Hin) (map fst (a_keys a1)) a1 [] Hd') as G2.
      destruct (fold_left (a_sync_rm ks now) (map fst (a_keys a1)) (a1, [])) as [a2 removed]. cbn [fst] in *. congruence.
    + pose proof (a_sync_one_other k ks a [] [] Hni) as G1.
      destruct (fold_left a_sync_one ks (a, [], [])) as [[a1 seen] added]. cbn [fst] in G1. rewrite H in G1.
      pose proof (a_sync_rm_pending k d t ks now (map fst (a_keys a1)) a1 [] G1) as G2.
      destruct (fold_left (a_sync_rm ks now) (map fst (a_keys a1)) (a1, [])) as [a2 removed]. cbn [fst] in *. congruence.
  - exfalso. unfold a_add_ref in Hn. pose proof (a_request_keys a k0 k) as G.
    destruct (a_request a k0) as [a1 [d0 ex]]. cbn [fst snd a_keys set_a_refs] in *. rewrite G in Hn.
    destruct (Nat.eqb k k0); [discriminate | congruence].
  - exfalso. unfold a_release_start in Hn. destruct (nth_error (a_refs a) f) as [x|]; [|congruence]. destruct (frel x); cbn in Hn; congruence.
  - exfalso. unfold a_release_section in Hn. destruct (nth_error (a_rels a) i) as [l|]; [|congruence]. destruct (lparked l); [|congruence].
    cbn [a_refs set_a_rels] in Hn. destruct (nth_error (a_refs a) (lref l)) as [x|]; [|cbn in Hn; congruence].
    destruct (fin x); [|cbn in Hn; congruence]. destruct (Nat.eqb _ 0); [|cbn in Hn; congruence].
    rewrite (a_remove_pending_kept _ (fkey x) _ k d t) in Hn; [discriminate | exact H].
  - exfalso. unfold a_rc_remove in Hn. rewrite (a_remove_pending_kept _ k0 now k d t) in Hn; [discriminate | exact H].
  - unfold a_callback in Hn. destruct (lookup (a_keys a) k0) as [[d0 [t'|]]|] eqn:E; try congruence.
    destruct (Nat.eqb_spec t' t0) as [->|Hne]; [|congruence]. cbn [a_keys set_a_keys] in Hn.
    destruct (Nat.eq_dec k k0) as [->|Hnk]; [congruence|]. rewrite lookup_delete_other in Hn by exact Hnk. congruence.
  - cbn in Hn. congruence.
  - congruence.
Qed.

From Util Require Import Keyed.ProofsTm.

Lemma aev_callback_inv s e k t :
  aev_of s e = ACallback k t -> e = ETimerCb t /\ exists x, nth_error (timers s) t = Some x /\ tst x = TFired.
Proof.
  destruct e; cbn [aev_of]; try discriminate. unfold cb_aev.
  destruct (nth_error (timers s) t0) as [x|] eqn:Ex; [|discriminate]. destruct (tst x) eqn:Es; try discriminate.
  destruct (tkind x); [|discriminate]. intros E. inversion E; subst. eauto.
Qed.

Theorem stays_until_deadline dl sc es e k r t :
  let s := run repaired (init dl sc) es in
  forallb c06_ev es = true -> c06_ev e = true ->
  lookup (kmap s) k = Some r -> rremove (getr s r) = Some t -> lookup (kmap (step repaired s e)) k = None ->
  e = ETimerCb t /\ (tdead (gett s t) <= clock s)%N.
Proof.
  intros s Hes He Hk Hp Hn.
  pose proof (run_refines dl sc es Hes) as HR. fold s in HR. set (a := arun (init dl sc) a_init es) in *.
  pose proof (run_inv dl sc es) as HI. fold s in HI.
  pose proof (step_refines s a e HI HR He) as HR'.
  assert (A1 : lookup (a_keys a) k = Some (rdata (getr s r), Some t)) by (rewrite <- (kinfo_R s a k HR); unfold kinfo; now rewrite Hk, Hp).
  assert (A2 : lookup (a_keys (astep a (aev_of s e))) k = None) by (rewrite <- (kinfo_R _ _ k HR'); unfold kinfo; now rewrite Hn).
  pose proof (a_pending_only_callback a _ k _ t A1 A2) as E.
  destruct (aev_callback_inv s e k t E) as [E1 [x [Hx Hf]]]. split; [exact E1|].
  pose proof (run_InvClk repaired dl sc es t x Hx (or_introl Hf)) as G. fold s in G.
  unfold gett. now rewrite (nth_error_nth _ _ timer0 Hx).
Qed.

(* ------------------------------------------------------------------ *)
(* KeyedRefCount: a key is present, with no removal pending, while a reference to it is unreleased *)
Definition InvRefA (a : ast) : Prop :=
  (forall f x, nth_error (a_refs a) f = Some x ->
               (frel x = false -> fin x = true) /\ (fin x = true -> exists d, lookup (a_keys a) (fkey x) = Some (d, None))) /\
  (forall i l, nth_error (a_rels a) i = Some l -> exists x, nth_error (a_refs a) (lref l) = Some x /\ frel x = true).

Definition rc_aev (e : aev) : bool := match e with ARequest _ | ARemove _ _ | ASync _ _ => false | _ => true end.

Lemma live_none_other refs K y f : cnt (live_ref K) refs = 0 -> nth_error refs f = Some y -> fin y = true -> fkey y <> K.
Proof.
  intros Hc Hy Hf E. rewrite cnt_zero_forall in Hc. specialize (Hc y (nth_error_In _ _ Hy)).
  unfold live_ref in Hc. rewrite Hf, E, Nat.eqb_refl in Hc. discriminate.
Qed.

Lemma a_callback_refs a k t : a_refs (a_callback a k t) = a_refs a /\ a_rels (a_callback a k t) = a_rels a.
Proof. unfold a_callback. destruct (lookup (a_keys a) k) as [[d [t'|]]|]; auto. destruct (Nat.eqb t' t); auto. Qed.

Lemma InvRefA_step a e : InvRefA a -> rc_aev e = true -> InvRefA (astep a e).
Proof.
  intros [H1 H2] He. destruct e; cbn [rc_aev astep] in *; try discriminate.
  - (* AddKeyRef *)
    unfold a_add_ref. pose proof (a_request_keys a k) as G. destruct (a_request_refs a k) as [Gr Gl].
    destruct (a_request a k) as [a1 [d ex]]. unfold InvRefA. cbn [fst snd a_keys a_refs a_rels set_a_refs] in *. rewrite Gr. split; [|rewrite Gl].
    + intros f x Hx. destruct (nth_error_app_inv _ _ _ _ Hx) as [Hx'| ->].
      * destruct (H1 f x Hx') as [A B]. split; [exact A|]. intros Hf. rewrite G.
        destruct (Nat.eqb (fkey x) k); [eauto | auto].
      * cbn. split; [auto|]. intros _. rewrite G, Nat.eqb_refl. eauto.
    + intros i l Hl. destruct (H2 i l Hl) as [x [Hx Hr]]. exists x. split; [|exact Hr].
      rewrite nth_error_app1; [exact Hx | eapply nth_error_nth_len; eauto].
  - (* Release: the flag swap *)
    unfold a_release_start. destruct (nth_error (a_refs a) f) as [x0|] eqn:E0; [|split; assumption].
    destruct (frel x0) eqn:Er; [split; assumption|]. unfold InvRefA. cbn [a_keys a_refs a_rels set_a_refs set_a_rels].
    assert (Hl : f < length (a_refs a)) by (eapply nth_error_nth_len; eauto). split.
    + intros f' x Hx. destruct (Nat.eq_dec f' f) as [->|Hne].
      * rewrite nth_error_set_nth_same in Hx by exact Hl. inversion Hx; subst x. cbn. split; [discriminate|]. apply (H1 f x0 E0).
      * rewrite nth_error_set_nth_other in Hx by exact Hne. exact (H1 f' x Hx).
    + intros i l Hl'. destruct (nth_error_app_inv _ _ _ _ Hl') as [Hl''| ->].
      * destruct (H2 i l Hl'') as [x [Hx Hr]]. destruct (Nat.eq_dec (lref l) f) as [E|Hne].
        -- rewrite E, nth_error_set_nth_same by exact Hl. eexists. split; reflexivity.
        -- rewrite nth_error_set_nth_other by exact Hne. eauto.
      * cbn [lref]. rewrite nth_error_set_nth_same by exact Hl. eexists. split; reflexivity.
  - (* Release: the section *)
    unfold a_release_section. destruct (nth_error (a_rels a) i) as [l|] eqn:El; [|split; assumption].
    destruct (lparked l); [|split; assumption].
    assert (Hil : i < length (a_rels a)) by (eapply nth_error_nth_len; eauto).
    assert (P1 : InvRefA (set_a_rels a (set_nth (a_rels a) i {| lref := lref l; lparked := false |}))).
    { split; [exact H1|]. cbn [a_rels a_refs set_a_rels]. intros j l' Hl'. destruct (Nat.eq_dec j i) as [->|Hne].
      - rewrite nth_error_set_nth_same in Hl' by exact Hil. inversion Hl'; subst l'. cbn [lref]. exact (H2 i l El).
      - rewrite nth_error_set_nth_other in Hl' by exact Hne. exact (H2 j l' Hl'). }
    set (a1 := set_a_rels a _) in *. change (a_refs a1) with (a_refs a).
    destruct (nth_error (a_refs a) (lref l)) as [x|] eqn:Ex; [|exact P1]. destruct (fin x) eqn:Ef; [|exact P1].
    destruct (H2 i l El) as [x' [Hx' Hr]]. rewrite Ex in Hx'. inversion Hx'; subst x'.
    assert (Hfl : lref l < length (a_refs a)) by (eapply nth_error_nth_len; eauto).
    set (a2 := set_a_refs a1 (set_nth (a_refs a) (lref l) {| fkey := fkey x; frel := frel x; fin := false |})).
    assert (P2 : InvRefA a2).
    { destruct P1 as [Q1 Q2]. split; cbn [a_keys a_refs a_rels a2 set_a_refs].
      - intros f y Hy. destruct (Nat.eq_dec f (lref l)) as [->|Hne].
        + rewrite nth_error_set_nth_same in Hy by exact Hfl. inversion Hy; subst y. cbn. split; [congruence | discriminate].
        + rewrite nth_error_set_nth_other in Hy by exact Hne. exact (Q1 f y Hy).
      - intros j l' Hl'. destruct (Q2 j l' Hl') as [y [Hy Hry]]. change (a_refs a1) with (a_refs a) in Hy.
        destruct (Nat.eq_dec (lref l') (lref l)) as [E|Hne].
        + rewrite E, nth_error_set_nth_same by exact Hfl. eexists. split; [reflexivity|]. cbn. exact Hr.
        + rewrite nth_error_set_nth_other by exact Hne. eauto. }
    change (a_refs a2) with (set_nth (a_refs a) (lref l) {| fkey := fkey x; frel := frel x; fin := false |}).
    destruct (Nat.eqb_spec (cnt (live_ref (fkey x)) (set_nth (a_refs a) (lref l) {| fkey := fkey x; frel := frel x; fin := false |})) 0) as [Ec|Ec]; [|exact P2].
    destruct P2 as [Q1 Q2]. destruct (a_remove_refs a2 (fkey x) (now (fkey x))) as [Gr Gl]. split; rewrite ?Gr, ?Gl; [|exact Q2].
    intros f y Hy. destruct (Q1 f y Hy) as [A B]. split; [exact A|]. intros Hf.
    rewrite a_remove_other; [auto|]. eapply live_none_other; eauto.
  - (* KeyedRefCount.RemoveKey *)
    unfold a_rc_remove. set (g := fun x : ref => if live_ref k x then {| fkey := fkey x; frel := true; fin := false |} else x).
    destruct (a_remove_refs (set_a_refs a (map g (a_refs a))) k now) as [Gr Gl]. split; rewrite ?Gr, ?Gl; cbn [a_refs a_rels set_a_refs].
    + intros f y' Hy'. rewrite nth_error_map in Hy'. destruct (nth_error (a_refs a) f) as [y|] eqn:Ey; [|discriminate].
      cbn in Hy'. inversion Hy'; subst y'. destruct (H1 f y Ey) as [A B]. unfold g. destruct (live_ref k y) eqn:El.
      * cbn. split; discriminate.
      * split; [exact A|]. intros Hf. rewrite a_remove_other; [exact (B Hf)|].
        unfold live_ref in El. rewrite Hf in El. cbn in El. now apply Nat.eqb_neq in El.
    + intros i l Hl. destruct (H2 i l Hl) as [y [Hy Hr]]. exists (g y). rewrite nth_error_map, Hy. split; [reflexivity|].
      unfold g. destruct (live_ref k y); [reflexivity | exact Hr].
  - (* a timer callback *)
    destruct (a_callback_refs a k t) as [Gr Gl]. unfold InvRefA. rewrite Gr, Gl.
    split; [|exact H2]. intros f x Hx. destruct (H1 f x Hx) as [A B]. split; [exact A|]. intros Hf. destruct (B Hf) as [d Hd].
    exists d. change (a_callback a k t) with (astep a (ACallback k t)). now apply a_keep.
  - split; assumption.
  - split; assumption.
Qed.

Definition rc_ev (e : ev) : bool :=
  match e with ESetKey _ _ | ERemoveKey _ | ESyncKeys _ _ | EReset _ _ | EResetAll _ => false | _ => true end.
Lemma rc_ev_c06 e : rc_ev e = true -> c06_ev e = true. Proof. destruct e; auto. Qed.
Lemma rc_aev_of s e : rc_ev e = true -> rc_aev (aev_of s e) = true.
Proof.
  destruct e; cbn [rc_ev aev_of rc_aev]; auto. intros _. unfold cb_aev.
  destruct (nth_error (timers s) t) as [x|]; [|reflexivity]. destruct (tst x); try reflexivity. destruct (tkind x); reflexivity.
Qed.

Lemma run_InvRefA : forall es s a, Inv s -> R s a -> InvRefA a -> forallb rc_ev es = true ->
  R (run repaired s es) (arun s a es) /\ InvRefA (arun s a es).
Proof.
  induction es as [|e es IH]; intros s a HI HR HA Hes; cbn [run fold_left arun]; [auto|].
  cbn [forallb] in Hes. apply andb_true_iff in Hes as [He Hes].
  apply IH; auto using step_inv.
  - apply step_refines; auto using rc_ev_c06.
  - apply InvRefA_step; auto using rc_aev_of.
Qed.

Theorem ref_present_while_unreleased dl sc es f x :
  let s := run repaired (init dl sc) es in
  forallb rc_ev es = true -> nth_error (refs s) f = Some x -> frel x = false ->
  exists r, lookup (kmap s) (fkey x) = Some r /\ rremove (getr s r) = None.
Proof.
  intros s Hes Hx Hr.
  destruct (run_InvRefA es (init dl sc) a_init (init_inv dl sc) (R_init dl sc)) as [HR [H1 _]]; auto.
  { split; intros [|i] y Hy; discriminate. }
  fold s in HR. destruct (R_refs_eq _ _ HR) as [E _]. rewrite <- E in Hx.
  destruct (H1 f x Hx) as [A B]. destruct (B (A Hr)) as [d Hd]. rewrite <- (kinfo_R _ _ _ HR) in Hd. unfold kinfo in Hd.
  destruct (lookup (kmap s) (fkey x)) as [r|]; [|discriminate]. exists r. split; [reflexivity|]. congruence.
Qed.

(* ------------------------------------------------------------------ *)
(* releasing twice counts once *)
Lemma release_start_released_noop s f x : nth_error (refs s) f = Some x -> frel x = true -> release_start s f = s.
Proof. intros Hx Hr. unfold release_start. now rewrite Hx, Hr. Qed.
Lemma release_start_sets_flag s f x :
  nth_error (refs s) f = Some x -> frel x = false ->
  exists x', nth_error (refs (release_start s f)) f = Some x' /\ frel x' = true /\
             rels (release_start s f) = rels s ++ [{| lref := f; lparked := true |}].
Proof.
  intros Hx Hr. unfold release_start. rewrite Hx, Hr. cbn [refs rels set_rels set_refs].
  rewrite nth_error_set_nth_same by (eapply nth_error_nth_len; eauto). eexists. repeat split.
Qed.
Lemma release_section_ran_noop s a l : nth_error (rels s) a = Some l -> lparked l = false -> release_section s a = s.
Proof. intros Hl Hp. unfold release_section. now rewrite Hl, Hp. Qed.
