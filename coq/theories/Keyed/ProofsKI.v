(* keyed: what one codec-level step (an event and the eager schedule after it) does to the per-key information the
   reference machine of the monitors keeps: the deadline of a delayed-removal timer armed during the step is clock + release
   delay ([NT]); a record's failed flag changes only when an instance is started for it (cleared) or - in the bookkeeping
   section - when the exit of its current instance is recorded ([P1], [bookkeep_facts]); the eager schedule leaves key map,
   records and deadlines alone.  Instances of the finer walk. *)
From Util Require Import Common.Base Common.ListLemmas Keyed.Model Keyed.Spec Keyed.Proofs Keyed.AbsSpec Keyed.ProofsC06 Keyed.ProofsTm Keyed.ProofsWalk
  Keyed.ProofsMono Keyed.ProofsData Keyed.ProofsKeys Keyed.ProofsMon Keyed.ProofsMon2 Keyed.ProofsWalk2 Keyed.ProofsTimers.
Open Scope nat_scope.

(* ------------------------------------------------------------------ *)
(* delayed-removal timers armed during a step *)
Record NT (s s' : st) : Prop := {
  nt_mono : Mono s s';
  nt_clock : (clock s <= clock s')%N;
  nt_new : forall t x, length (timers s) <= t -> nth_error (timers s') t = Some x -> tkind x = true ->
             (clock s + delay s <= tdead x)%N /\ (tdead x <= clock s' + delay s)%N;
}.
Lemma NT_refl s : NT s s.
Proof. constructor; [apply Mono_refl | lia|]. intros t x Ht Hx. apply nth_error_nth_len in Hx. lia. Qed.
Lemma NT_trans s s1 s2 : NT s s1 -> NT s1 s2 -> NT s s2.
Proof.
  intros [A1 A2 A3] [B1 B2 B3]. constructor; [eapply Mono_trans; eauto | lia|].
  intros t x Ht Hx Hk. destruct (Nat.lt_ge_cases t (length (timers s1))) as [Hlt|Hge].
  - destruct (nth_error (timers s1) t) as [x1|] eqn:E1; [|apply nth_error_None in E1; lia].
    destruct (mo_timers _ _ B1 t x1 E1) as (x' & Hx' & (T1 & _ & _ & T4)). rewrite Hx in Hx'. inversion Hx'; subst x'.
    destruct (A3 t x1 Ht E1 ltac:(congruence)) as [L U]. rewrite T4. split; lia.
  - destruct (B3 t x Hge Hx Hk) as [L U]. rewrite (mo_delay _ _ A1) in L, U. split; lia.
Qed.
Lemma NT_of_Mono s s' : Mono s s' -> clock s' = clock s -> length (timers s') = length (timers s) -> NT s s'.
Proof. intros M C L. constructor; [exact M | lia|]. intros t x Ht Hx. apply nth_error_nth_len in Hx. lia. Qed.

Lemma Mono_unremove s r : Mono s (unremove s r).
Proof.
  unfold unremove. destruct (rremove (getr s r)) eqn:E; [|apply Mono_refl]. eapply Mono_trans; [apply Mono_stop_timer|].
  apply Mono_setr. rewrite getr_stop_timer. repeat split.
Qed.
Lemma clock_stop_timer s ot : clock (stop_timer s ot) = clock s. Proof. apply stop_timer_frame. Qed.
Lemma length_timers_stop_timer s ot : length (timers (stop_timer s ot)) = length (timers s). Proof. apply stop_timer_frame. Qed.

Theorem NT_next s e : NT s (settle (step repaired s e)).
Proof.
  apply (V_next NT NT_refl NT_trans).
  - intros s0 oi. apply NT_of_Mono; [apply Mono_cancel_inst | apply cancel_inst_frame|]. destruct (cancel_inst_frame s0 oi) as (_ & _ & C & _). now rewrite C.
  - intros s0 k r c w f _ _. apply NT_of_Mono; [apply Mono_start | apply Kx_start | apply Fr_start_rec].
  - intros s0 k _. apply NT_of_Mono; [eapply Mono_trans; [apply Mono_new_record | mext] | reflexivity | reflexivity].
  - intros s0 k r lin w _ _. apply NT_of_Mono; [apply Mono_new_record | reflexivity | reflexivity].
  - intros s0 k r _. apply NT_of_Mono; [apply Mono_unremove | |]; unfold unremove; destruct (rremove (getr s0 r));
      try reflexivity; cbn [clock timers setr set_recs]; [apply clock_stop_timer | apply length_timers_stop_timer].
  - intros s0 r y (K & L & D & _). apply NT_of_Mono; [apply Mono_setr; repeat split; auto | reflexivity | reflexivity].
  - intros s0 k r _. apply (remove_now_parts NT NT_trans).
    + intros s1 oi. apply NT_of_Mono; [apply Mono_cancel_inst | apply cancel_inst_frame|]. destruct (cancel_inst_frame s1 oi) as (_ & _ & C & _). now rewrite C.
    + intros s1 r1. apply NT_of_Mono; [apply Mono_stop_timer | apply clock_stop_timer | apply length_timers_stop_timer].
    + intros s1 r1. apply NT_of_Mono; [apply Mono_setr; repeat split | reflexivity | reflexivity].
    + intros s1 k1. apply NT_of_Mono; [mext | reflexivity | reflexivity].
  - (* a delayed removal is armed *)
    intros s0 k r _ _. constructor.
    + eapply Mono_trans; [apply Mono_timers_app|]. apply Mono_setr. repeat split.
    + cbn [clock setr set_recs set_timers]. lia.
    + intros t x Ht Hx Hk. cbn [timers setr set_recs set_timers clock] in *.
      destruct (nth_error_app_inv _ _ _ _ Hx) as [G| ->]; [apply nth_error_nth_len in G; lia|]. cbn [tdead rm_timer]. lia.
  - intros s0 i x p H. apply NT_of_Mono; [apply (Mono_seti s0 i x _ H); repeat split; auto | reflexivity | reflexivity].
  - intros s0 i x o H. apply NT_of_Mono; [apply (Mono_seti s0 i x _ H); repeat split; auto | reflexivity | reflexivity].
  - (* the bookkeeping section arms retry timers only *)
    intros s0 i. constructor; [apply (Mono_step s0 (EBook i)) | destruct (Kx_ordinary s0 (EBook i) eq_refl) as [C _]; cbn [step] in C; rewrite C; lia|].
    intros t x Ht Hx Hk. exfalso. revert Hx. unfold bookkeep.
    destruct (nth_error (insts s0) i) as [y|]; [|intros Hx; apply nth_error_nth_len in Hx; lia].
    destruct (ipcv y); try (intros Hx; apply nth_error_nth_len in Hx; lia).
    destruct (rctx (getr s0 (irec y))) as [j|]; [|intros Hx; apply nth_error_nth_len in Hx; cbn [timers seti set_insts] in Hx; lia].
    destruct (Nat.eqb j i); [|intros Hx; apply nth_error_nth_len in Hx; cbn [timers seti set_insts] in Hx; lia].
    set (s1 := seti s0 i (with_pc y IDone)).
    assert (L1 : length (timers (stop_timer s1 (rretry (getr s0 (irec y))))) = length (timers s0)) by (rewrite length_timers_stop_timer; reflexivity).
    destruct (script s1); [|intros Hx; apply nth_error_nth_len in Hx; cbn [timers set_cblog setr set_recs] in Hx; change (timers s1) with (timers s0) in Hx; lia].
    destruct (is_nil o); [intros Hx; apply nth_error_nth_len in Hx; cbn [timers set_cblog setr set_recs] in Hx; lia|].
    destruct (in_map _ _); [|intros Hx; apply nth_error_nth_len in Hx; cbn [timers set_cblog setr set_recs] in Hx; lia].
    destruct (nth_error l _); [|intros Hx; apply nth_error_nth_len in Hx; cbn [timers set_cblog setr set_recs] in Hx; lia].
    cbn [timers set_cblog setr set_recs set_timers]. intros Hx. destruct (nth_error_app_inv _ _ _ _ Hx) as [G| ->]; [apply nth_error_nth_len in G; lia | discriminate Hk].
  - intros s0 t x Hx _ _ _ _. apply NT_of_Mono.
    + eapply Mono_trans; [apply (Mono_timer_set s0 t x TRan Hx)|]. eapply Mono_trans; [apply Mono_stop_timer|]. apply Mono_setr. repeat split.
    + cbn [clock setr set_recs]. now rewrite clock_stop_timer.
    + cbn [timers setr set_recs]. rewrite length_timers_stop_timer. apply length_set_nth.
  - intros s0 t x Hx _ _ _. apply NT_of_Mono; [now apply Mono_timer_set | reflexivity | apply length_set_nth].
  - intros s0 t x Hx _ _. apply NT_of_Mono; [now apply Mono_timer_set | reflexivity | apply length_set_nth].
  - intros. apply NT_of_Mono; [mext | reflexivity | reflexivity].
  - intros. apply NT_of_Mono; [mext | reflexivity | reflexivity].
  - intros. apply NT_of_Mono; [mext | reflexivity | reflexivity].
  - intros s0 d. constructor; [apply Mono_advance | unfold advance; cbn [clock set_timers set_clock]; lia|].
    intros t x Ht Hx. apply nth_error_nth_len in Hx. unfold advance in Hx. cbn [timers set_timers set_clock] in Hx. rewrite map_length in Hx. lia.
  - intros s0 c. apply NT_of_Mono; [apply Mono_cancel_root | |]; unfold cancel_root; destruct (Nat.eqb c 0); reflexivity.
  - intros. apply NT_of_Mono; [mext | reflexivity | reflexivity].
Qed.

(* ------------------------------------------------------------------ *)
(* failed flags: every event except the bookkeeping section *)
Definition Sp (s s' : st) (r : nat) : Prop := exists i x, length (insts s) <= i /\ nth_error (insts s') i = Some x /\ irec x = r.
Record P1 (s s' : st) : Prop := {
  p_mono : Mono s s';
  p_cblog : cblog s' = cblog s;
  p_old : forall r, r < length (recs s) -> failed (getr s' r) = failed (getr s r) \/ Sp s s' r;
  p_sp : forall r, Sp s s' r -> failed (getr s' r) = false;
  p_new : forall r, length (recs s) <= r -> failed (getr s' r) = false;
}.
Lemma failed_oob s r : length (recs s) <= r -> failed (getr s r) = false.
Proof. intros H. unfold getr. rewrite nth_overflow by exact H. reflexivity. Qed.
Lemma Mono_insts_len s s' : Mono s s' -> length (insts s) <= length (insts s').
Proof.
  intros M. destruct (Nat.le_gt_cases (length (insts s)) (length (insts s'))) as [L|L]; [exact L|]. exfalso.
  destruct (nth_error (insts s) (length (insts s'))) as [x0|] eqn:E0; [|apply nth_error_None in E0; lia].
  destruct (mo_insts _ _ M _ x0 E0) as (x' & Hx' & _). apply nth_error_nth_len in Hx'. lia.
Qed.
Lemma P1_refl s : P1 s s.
Proof.
  constructor; [apply Mono_refl | reflexivity | intros; now left | | intros; now apply failed_oob].
  intros r (i & x & Hi & Hx & _). apply nth_error_nth_len in Hx. lia.
Qed.
Lemma Sp_trans1 s s1 s2 r : Mono s1 s2 -> Sp s s1 r -> Sp s s2 r.
Proof. intros M (i & x & Hi & Hx & Hr). destruct (mo_insts _ _ M i x Hx) as (x' & Hx' & (E & _)). exists i, x'. repeat split; auto. congruence. Qed.
Lemma Sp_trans2 s s1 s2 r : Mono s s1 -> Sp s1 s2 r -> Sp s s2 r.
Proof. intros M (i & x & Hi & Hx & Hr). exists i, x. repeat split; auto. pose proof (Mono_insts_len _ _ M). lia. Qed.
Lemma P1_trans s s1 s2 : P1 s s1 -> P1 s1 s2 -> P1 s s2.
Proof.
  intros [A1 A2 A3 A4 A5] [B1 B2 B3 B4 B5]. constructor; [eapply Mono_trans; eauto | congruence | | |].
  - intros r Hr. destruct (mo_recs _ _ A1 r Hr) as [Hr1 _]. destruct (A3 r Hr) as [E|S1]; [|right; eapply Sp_trans1; eauto].
    destruct (B3 r Hr1) as [E2|S2]; [left; congruence | right; eapply Sp_trans2; eauto].
  - intros r (i & x & Hi & Hx & Hr). destruct (Nat.lt_ge_cases i (length (insts s1))) as [Hlt|Hge].
    + destruct (nth_error (insts s1) i) as [x1|] eqn:E1; [|apply nth_error_None in E1; lia].
      destruct (mo_insts _ _ B1 i x1 E1) as (x' & Hx' & (E & _)). rewrite Hx in Hx'. inversion Hx'; subst x'.
      assert (S1 : Sp s s1 r) by (exists i, x1; repeat split; auto; congruence). pose proof (A4 r S1) as F1.
      destruct (Nat.lt_ge_cases r (length (recs s1))) as [Hr1|Hr1]; [|now apply B5].
      destruct (B3 r Hr1) as [E2|S2]; [congruence | now apply B4].
    + apply B4. exists i, x. auto.
  - intros r Hr. destruct (Nat.lt_ge_cases r (length (recs s1))) as [Hr1|Hr1]; [|now apply B5].
    destruct (B3 r Hr1) as [E2|S2]; [rewrite E2; now apply A5 | now apply B4].
Qed.
(* nothing is started and no failed flag changes *)
Lemma P1_same s s' : Mono s s' -> cblog s' = cblog s -> length (insts s') = length (insts s) ->
  (forall r, failed (getr s' r) = failed (getr s r)) -> P1 s s'.
Proof.
  intros M C L H. constructor; auto.
  - intros r (i & x & Hi & Hx & _). apply nth_error_nth_len in Hx. lia.
  - intros r Hr. rewrite H. now apply failed_oob.
Qed.
Lemma failed_setr s r y q : rexited y = rexited (getr s r) -> rsucc y = rsucc (getr s r) -> failed (getr (setr s r y) q) = failed (getr s q).
Proof.
  intros E1 E2. unfold failed. rewrite (getr_setr_field rexited s r y q E1), (getr_setr_field rsucc s r y q E2). reflexivity.
Qed.
Lemma cblog_stop_timer s ot : cblog (stop_timer s ot) = cblog s.
Proof. unfold stop_timer. destruct ot as [t|]; [|reflexivity]. destruct (nth_error (timers s) t) as [x|]; [|reflexivity]. destruct (tst x); reflexivity. Qed.
Lemma cblog_cancel_inst s oi : cblog (cancel_inst s oi) = cblog s.
Proof. unfold cancel_inst. destruct oi as [i|]; [|reflexivity]. destruct (nth_error (insts s) i); reflexivity. Qed.

Lemma P1_start s k r c w f : lookup (kmap s) k = Some r -> P1 s (start_rec s r c w f).
Proof.
  intros Hk. pose proof (Mono_start s r c w f) as M. revert M. unfold start_rec. set (x := getr s r).
  destruct (negb f && rsucc x || rnil x); [intros _; apply P1_refl|].
  destruct (negb f && is_some (rctx x) && negb (rexited x) && ctx_live s (rctx x)); [intros _; apply P1_refl|]. cbn zeta.
  set (s2 := cancel_inst (stop_timer s (rretry x)) (rcancel x)). intros M.
  assert (L2 : length (insts s2) = length (insts s)) by (unfold s2; destruct (cancel_inst_frame (stop_timer s (rretry x)) (rcancel x)) as (_ & _ & _ & _ & _ & _ & _ & _ & _ & _ & A); destruct (stop_timer_frame s (rretry x)) as (_ & _ & B & _); congruence).
  assert (R2 : recs s2 = recs s) by (unfold s2; destruct (cancel_inst_frame (stop_timer s (rretry x)) (rcancel x)) as (_ & A & _); destruct (stop_timer_frame s (rretry x)) as (_ & B & _); congruence).
  set (X := {| irec := r; ikey := rkey x; ilin := rlin x; iwait := w; ipcv := IGate0; icanc := root_canc s c; iexit := false; idata := rdata x; iroot := c |}) in *.
  set (s3 := set_insts s2 (insts s2 ++ [X])) in *.
  assert (G3 : forall q, getr s3 q = getr s q) by (intros q; unfold getr; cbn [recs s3 set_insts]; now rewrite R2).
  assert (SP : Sp s (setr s3 r (with_started x (length (insts s2)))) r).
  { exists (length (insts s)), X. split; [lia|]. rewrite insts_setr. cbn [insts s3 set_insts]. rewrite <- L2, nth_error_app2, Nat.sub_diag by lia. auto. }
  constructor.
  - exact M.
  - cbn [cblog setr set_recs s3 set_insts]. unfold s2. now rewrite cblog_cancel_inst, cblog_stop_timer.
  - intros q Hq. destruct (Nat.eq_dec q r) as [->|Hne]; [right; exact SP|]. left. rewrite getr_setr_other by exact Hne. now rewrite G3.
  - intros q (i & y & Hi & Hy & Hr). rewrite insts_setr in Hy. cbn [insts s3 set_insts] in Hy.
    destruct (nth_error_app_inv _ _ _ _ Hy) as [G| ->]; [apply nth_error_nth_len in G; lia|]. cbn [irec X] in Hr. subst q.
    destruct (Nat.lt_ge_cases r (length (recs s))) as [Hl|Hl]; [|rewrite getr_setr_oob by (cbn [recs s3 set_insts]; rewrite R2; exact Hl); rewrite G3; now apply failed_oob].
    rewrite getr_setr_same by (cbn [recs s3 set_insts]; rewrite R2; exact Hl). reflexivity.
  - intros q Hq. destruct (Nat.eq_dec q r) as [->|Hne]; [rewrite getr_setr_oob by (cbn [recs s3 set_insts]; rewrite R2; exact Hq) | rewrite getr_setr_other by exact Hne];
      rewrite G3; now apply failed_oob.
Qed.

Lemma P1_new_record s k lin w : P1 s (fst (new_record s k lin w)).
Proof.
  destruct (new_record_frame s k lin w) as (F0 & F1 & _ & _ & _ & _ & F6 & F7 & _ & _ & _ & _ & _ & _ & _ & F15 & F16).
  set (s' := fst (new_record s k lin w)) in *. set (n := snd (new_record s k lin w)) in *.
  constructor; [apply Mono_new_record | reflexivity | | |].
  - intros r Hr. left. now rewrite F7.
  - intros r (i & x & Hi & Hx & _). rewrite F1 in Hx. apply nth_error_nth_len in Hx. lia.
  - intros r Hr. destruct (Nat.eq_dec r n) as [->|Hne]; [unfold failed; now rewrite F16|]. apply failed_oob. rewrite F6. lia.
Qed.

Ltac p1same := apply P1_same; [ | reflexivity | reflexivity | intros; reflexivity].
Theorem P1_step_nobook s e : (forall i, e <> EBook i) -> P1 s (step repaired s e).
Proof.
  apply (V_step_nobook P1 P1_refl P1_trans).
  - intros s0 oi. apply P1_same; [apply Mono_cancel_inst | apply cblog_cancel_inst | apply cancel_inst_frame|].
    intros r. unfold getr. destruct (cancel_inst_frame s0 oi) as (_ & C & _). now rewrite C.
  - intros s0 k r c w f H _. now apply (P1_start s0 k).
  - intros s0 k _. eapply P1_trans; [apply P1_new_record|]. p1same. mext.
  - intros; apply P1_new_record.
  - intros s0 k r _. apply P1_same; [apply Mono_unremove | | |]; unfold unremove; destruct (rremove (getr s0 r)); try reflexivity.
    + cbn [cblog setr set_recs]. apply cblog_stop_timer.
    + cbn [insts setr set_recs]. destruct (stop_timer_frame s0 (Some n)) as (_ & _ & T & _). now rewrite T.
    + intros q. rewrite failed_setr; [now rewrite getr_stop_timer | rewrite getr_stop_timer; reflexivity | rewrite getr_stop_timer; reflexivity].
  - intros s0 r y (K & L & D & _ & S & X & _). apply P1_same; [apply Mono_setr; repeat split; auto | reflexivity | reflexivity|].
    intros q. now apply failed_setr.
  - intros s0 k r _. apply (remove_now_parts P1 P1_trans).
    + intros s1 oi. apply P1_same; [apply Mono_cancel_inst | apply cblog_cancel_inst | apply cancel_inst_frame|].
      intros q. unfold getr. destruct (cancel_inst_frame s1 oi) as (_ & C & _). now rewrite C.
    + intros s1 r1. apply P1_same; [apply Mono_stop_timer | apply cblog_stop_timer | |]; [destruct (stop_timer_frame s1 (rretry (getr s1 r1))) as (_ & _ & T & _); now rewrite T|].
      intros q. now rewrite getr_stop_timer.
    + intros s1 r1. apply P1_same; [apply Mono_setr; repeat split | reflexivity | reflexivity|]. intros q. now apply failed_setr.
    + intros s1 k1. p1same. mext.
  - intros s0 k r _ _. apply P1_same; [eapply Mono_trans; [apply Mono_timers_app | apply Mono_setr; repeat split] | reflexivity | reflexivity|].
    intros q. rewrite failed_setr; reflexivity.
  - intros s0 i x p H. apply P1_same; [apply (Mono_seti s0 i x _ H); repeat split; auto | reflexivity | rewrite insts_seti; apply length_set_nth | intros; reflexivity].
  - intros s0 i x o H. apply P1_same; [apply (Mono_seti s0 i x _ H); repeat split; auto | reflexivity | rewrite insts_seti; apply length_set_nth | intros; reflexivity].
  - intros s0 t x Hx _ _ _ _. apply P1_same.
    + eapply Mono_trans; [apply (Mono_timer_set s0 t x TRan Hx)|]. eapply Mono_trans; [apply Mono_stop_timer|]. apply Mono_setr. repeat split.
    + cbn [cblog setr set_recs]. now rewrite cblog_stop_timer.
    + cbn [insts setr set_recs]. destruct (stop_timer_frame (ran s0 t x) (Some t)) as (_ & _ & T & _). now rewrite T.
    + intros q. rewrite failed_setr; [now rewrite getr_stop_timer | reflexivity | reflexivity].
  - intros s0 t x Hx _ _ _. p1same. now apply Mono_timer_set.
  - intros s0 t x Hx _ _. p1same. now apply Mono_timer_set.
  - intros. p1same. mext. - intros. p1same. mext. - intros. p1same. mext.
  - intros s0 d. apply P1_same; [apply Mono_advance | reflexivity | reflexivity | intros; reflexivity].
  - intros s0 c. apply P1_same; [apply Mono_cancel_root | | |]; unfold cancel_root; destruct (Nat.eqb c 0); try reflexivity.
    cbn [insts set_croots set_insts]. apply map_length.
  - intros. p1same. mext.
Qed.

Lemma P1_settle s : P1 s (settle s).
Proof.
  apply (V_settle P1 P1_refl P1_trans).
  - intros s0 i x p H. apply P1_same; [apply (Mono_seti s0 i x _ H); repeat split; auto | reflexivity | rewrite insts_seti; apply length_set_nth | intros; reflexivity].
  - intros s0 i x o H. apply P1_same; [apply (Mono_seti s0 i x _ H); repeat split; auto | reflexivity | rewrite insts_seti; apply length_set_nth | intros; reflexivity].
  - intros s0 d. apply P1_same; [apply Mono_advance | reflexivity | reflexivity | intros; reflexivity].
Qed.
Theorem P1_next_nobook s e : (forall i, e <> EBook i) -> P1 s (settle (step repaired s e)).
Proof. intros H. eapply P1_trans; [now apply P1_step_nobook | apply P1_settle]. Qed.

(* the eager schedule leaves key map, records, exit log and the timers' identity alone *)
Lemma settle_frame s :
  kmap (settle s) = kmap s /\ recs (settle s) = recs s /\ cblog (settle s) = cblog s /\ ctors (settle s) = ctors s /\
  length (insts (settle s)) = length (insts s) /\ length (timers (settle s)) = length (timers s) /\
  (forall t, tdead (gett (settle s) t) = tdead (gett s t) /\ tkind (gett (settle s) t) = tkind (gett s t) /\ tkey (gett (settle s) t) = tkey (gett s t)).
Proof.
  assert (G : forall l s0, let s1 := fold_left (fun s i => wake repaired s i true) l s0 in
              kmap s1 = kmap s0 /\ recs s1 = recs s0 /\ cblog s1 = cblog s0 /\ ctors s1 = ctors s0 /\ length (insts s1) = length (insts s0) /\ timers s1 = timers s0).
  { induction l as [|i l IH]; intros s0; cbn [fold_left]; [repeat split; reflexivity|]. destruct (IH (wake repaired s0 i true)) as (A1 & A2 & A3 & A4 & A5 & A6).
    cbn zeta in *. rewrite A1, A2, A3, A4, A5, A6. rewrite length_insts_wake. destruct (timers_wake s0 i true) as [T _]. rewrite T.
    unfold wake. repeat match goal with |- context [match ?x with _ => _ end] => destruct x end; repeat split; reflexivity. }
  unfold settle. destruct (G (seq 0 (length (insts s))) (advance s 0)) as (A1 & A2 & A3 & A4 & A5 & A6). cbn zeta in *.
  rewrite A1, A2, A3, A4, A5. unfold gett. rewrite A6. unfold advance. cbn [kmap recs cblog ctors insts timers set_timers set_clock].
  repeat split; try reflexivity; try apply map_length;
    (destruct (Nat.lt_ge_cases t (length (timers s))) as [Hl|Hl];
      [rewrite (nth_indep _ timer0 (fire (clock s + 0)%N timer0)) by (rewrite map_length; exact Hl); rewrite map_nth; unfold fire;
        destruct (tst (nth t (timers s) timer0)); try reflexivity; destruct (N.leb _ _); reflexivity
      | rewrite !nth_overflow by (rewrite ?map_length; exact Hl); reflexivity]).
Qed.
Lemma Fr0_settle s : Fr0 s (settle s).
Proof. unfold settle. eapply Fr0_trans; [apply Fr0_advance|]. apply (Fr0_fold (fun s i => wake repaired s i true)). intros; apply Fr0_wake. Qed.

(* ------------------------------------------------------------------ *)
(* the bookkeeping section *)
Lemma bookkeep_facts s i x o :
  nth_error (insts s) i = Some x -> ipcv x = IBook o ->
  let s' := bookkeep s i in
  kmap s' = kmap s /\ length (insts s') = length (insts s) /\ length (recs s') = length (recs s) /\
  ((rctx (getr s (irec x)) = Some i /\ cblog s' = cblog s ++ [(rkey (getr s (irec x)), rdata (getr s (irec x)), o)] /\
    (irec x < length (recs s) -> failed (getr s' (irec x)) = negb (is_nil o)) /\ (forall q, q <> irec x -> failed (getr s' q) = failed (getr s q))) \/
   (cblog s' = cblog s /\ forall q, failed (getr s' q) = failed (getr s q))).
Proof.
  intros Hx Hp. cbn zeta. split; [apply kmap_bookkeep|]. split; [apply Pre_bookkeep|].
  unfold bookkeep. rewrite Hx, Hp. set (r := irec x). set (y := getr s r). set (s0 := seti s i (with_pc x IDone)).
  destruct (rctx y) as [j|] eqn:Ec; [|split; [reflexivity | right; split; [reflexivity | intros; reflexivity]]].
  destruct (Nat.eqb_spec j i) as [->|Hne]; [|split; [reflexivity | right; split; [reflexivity | intros; reflexivity]]].
  assert (G : forall S a b, recs S = recs s -> cblog S = cblog s ->
     let S' := set_cblog (setr S r (with_exit y o a b)) (cblog (setr S r (with_exit y o a b)) ++ [(rkey y, rdata y, o)]) in
     length (recs S') = length (recs s) /\
     (Some i = Some i /\ cblog S' = cblog s ++ [(rkey y, rdata y, o)] /\ (r < length (recs s) -> failed (getr S' r) = negb (is_nil o)) /\
      (forall q, q <> r -> failed (getr S' q) = failed (getr s q)))).
  { intros S a b ER EC. cbn zeta. cbn [recs cblog set_cblog setr set_recs]. rewrite length_set_nth, ER, EC. split; [reflexivity|]. split; [reflexivity|]. split; [reflexivity|]. split.
    - intros Hl. unfold getr. cbn [recs set_cblog setr set_recs]. rewrite ER, nth_set_nth_same by exact Hl. unfold failed. cbn [rexited rsucc with_exit andb]. reflexivity.
    - intros q Hq. unfold getr. cbn [recs set_cblog setr set_recs]. rewrite ER, nth_set_nth_other by exact Hq. reflexivity. }
  assert (ES : forall ot, recs (stop_timer s0 ot) = recs s /\ cblog (stop_timer s0 ot) = cblog s).
  { intros ot. destruct (stop_timer_frame s0 ot) as (_ & T & _). rewrite T, cblog_stop_timer. split; reflexivity. }
  destruct (script s0) as [l|].
  - destruct (ES (rretry y)) as [E1 E2]. destruct (is_nil o) eqn:En.
    + destruct (G _ None 0 E1 E2) as [L R]. split; [exact L | left; exact R].
    + destruct (in_map _ _).
      * destruct (nth_error l (rbo y)).
        -- match goal with |- context [setr ?S r (with_exit y o ?a ?b)] => destruct (G S a b E1 E2) as [L R] end. split; [exact L | left; exact R].
        -- destruct (G _ None (S (rbo y)) E1 E2) as [L R]. split; [exact L | left; exact R].
      * destruct (G _ None (rbo y) E1 E2) as [L R]. split; [exact L | left; exact R].
  - destruct (G s0 (rretry y) (rbo y) eq_refl eq_refl) as [L R]. split; [exact L | left; exact R].
Qed.

(* ------------------------------------------------------------------ *)
(* the parked timer callbacks of an observation: every fired timer, once *)
Lemma In_insert_t ts t x l : In x (insert_t ts t l) <-> x = t \/ In x l.
Proof. induction l as [|u r IH]; cbn [insert_t]; [cbn; intuition|]. destruct (tlt _ _); cbn [In]; [intuition|]. rewrite IH. intuition. Qed.
Lemma NoDup_insert_t ts t l : NoDup l -> ~ In t l -> NoDup (insert_t ts t l).
Proof.
  induction l as [|u r IH]; intros Hn Hi; cbn [insert_t]; [constructor; [intros []|constructor]|]. destruct (tlt _ _); [constructor; assumption|].
  inversion Hn; subst. constructor; [rewrite In_insert_t; intros [->|X]; [apply Hi; now left | contradiction]|]. apply IH; [assumption | intros X; apply Hi; now right].
Qed.
Lemma fired_sorted_gen ts : forall L acc, NoDup L -> NoDup acc -> (forall x, In x acc -> ~ In x L) ->
  let res := fold_left (fun acc t => if is_fired (nth t ts timer0) then insert_t ts t acc else acc) L acc in
  NoDup res /\ forall x, In x res <-> In x acc \/ (In x L /\ is_fired (nth x ts timer0) = true).
Proof.
  induction L as [|t L IH]; intros acc NL NA HD; cbn [fold_left]; [split; [exact NA | intros x; cbn [In]; intuition]|].
  inversion NL; subst. destruct (is_fired (nth t ts timer0)) eqn:Ef.
  - destruct (IH (insert_t ts t acc)) as [R1 R2]; [assumption | apply NoDup_insert_t; [exact NA | intros X; apply (HD t X); now left]|
      intros x Hx; apply In_insert_t in Hx as [->|Hx]; [assumption | intros X; apply (HD x Hx); now right]|].
    cbn zeta in *. split; [exact R1|]. intros x. rewrite R2, In_insert_t. cbn [In]. split.
    + intros [[->|X]|[X Y]]; auto.
    + intros [X|[[<-|X] Y]]; auto.
  - destruct (IH acc) as [R1 R2]; [assumption | assumption | intros x Hx X; apply (HD x Hx); now right|].
    cbn zeta in *. split; [exact R1|]. intros x. rewrite R2. cbn [In]. split; [intuition|]. intros [X|[[<-|X] Y]]; auto. congruence.
Qed.
Lemma fired_sorted_spec ts : NoDup (fired_sorted ts) /\ forall t, In t (fired_sorted ts) <-> t < length ts /\ is_fired (nth t ts timer0) = true.
Proof.
  destruct (fired_sorted_gen ts (seq 0 (length ts)) [] (seq_NoDup _ _) (NoDup_nil _) (fun x H => match H with end)) as [A B]. cbn zeta in *.
  split; [exact A|]. intros t. unfold fired_sorted. rewrite B, in_seq. cbn [In]. intuition lia.
Qed.
Lemma cnt_two {A B} (P : B -> bool) (f : A -> B) (l : list A) a b :
  NoDup l -> In a l -> In b l -> a <> b -> P (f a) = true -> P (f b) = true -> 2 <= cnt P (map f l).
Proof.
  induction l as [|h t IH]; intros Hn Ha Hb Hab Pa Pb; [destruct Ha|]. inversion Hn; subst. cbn [map]. rewrite cnt_cons.
  assert (One : forall c, In c t -> P (f c) = true -> 1 <= cnt P (map f t)).
  { intros c Hc Pc. clear -Hc Pc. induction t as [|u t IHt]; [destruct Hc|]. cbn [map]. rewrite cnt_cons. destruct Hc as [->|Hc]; [rewrite Pc; cbn; lia|].
    specialize (IHt Hc). lia. }
  destruct Ha as [->|Ha], Hb as [->|Hb]; [contradiction | | |].
  - rewrite Pa. cbn [b2n]. specialize (One b Hb Pb). lia.
  - rewrite Pb. cbn [b2n]. specialize (One a Ha Pa). lia.
  - specialize (IH H2 Ha Hb Hab Pa Pb). lia.
Qed.
