(* keyed: more about records, retry timers and instances in every reachable state: a pending retry names a timer of that very
   record, and the record has exited; an instance belongs to a record that has a routine; a record without a routine has
   never exited.  Instance of the finer walk. *)
From Util Require Import Common.Base Common.ListLemmas Keyed.Model Keyed.Spec Keyed.Proofs Keyed.ProofsWalk Keyed.ProofsMon Keyed.ProofsWalk2 Keyed.ProofsC06
  Keyed.ProofsTimers.
Open Scope nat_scope.

Record J2 (s : st) : Prop := {
  j2_rt : forall r t, rretry (getr s r) = Some t -> exists x, nth_error (timers s) t = Some x /\ trec x = r;
  j2_re : forall r t, rretry (getr s r) = Some t -> rexited (getr s r) = true;
  j2_nn : forall i x, nth_error (insts s) i = Some x -> rnil (getr s (irec x)) = false;
  j2_nq : forall r, rnil (getr s r) = true -> rexited (getr s r) = false;
}.
Definition PJ2 (s s' : st) : Prop := J2 s -> J2 s'.
Lemma PJ2_refl s : PJ2 s s. Proof. intros H; exact H. Qed.
Lemma PJ2_trans s s1 s2 : PJ2 s s1 -> PJ2 s1 s2 -> PJ2 s s2. Proof. intros A B H. apply B, A, H. Qed.

Lemma J2_ext s s' : recs s' = recs s -> timers s' = timers s -> insts s' = insts s -> PJ2 s s'.
Proof. intros E1 E2 E3 [A B C D]. constructor; unfold getr in *; rewrite ?E1, ?E2, ?E3; auto. Qed.
Ltac j2ext := apply J2_ext; reflexivity.

(* the instances change, keeping their records or belonging to records with a routine *)
Lemma J2_insts s s' : recs s' = recs s -> timers s' = timers s ->
  (J2 s -> forall i x', nth_error (insts s') i = Some x' -> rnil (getr s (irec x')) = false) -> PJ2 s s'.
Proof. intros E1 E2 HI HJ. pose proof (HI HJ) as HI'. destruct HJ as [A B C D]. constructor; unfold getr in *; rewrite ?E1, ?E2; auto. Qed.
Lemma J2_seti s i x x' : nth_error (insts s) i = Some x -> irec x' = irec x -> PJ2 s (seti s i x').
Proof.
  intros Hx Hr. apply J2_insts; try reflexivity. intros HJ j y Hy. rewrite insts_seti in Hy.
  assert (Hl : i < length (insts s)) by (eapply nth_error_nth_len; eauto).
  destruct (Nat.eq_dec j i) as [->|Hne].
  - rewrite nth_error_set_nth_same in Hy by exact Hl. inversion Hy; subst. rewrite Hr. eapply j2_nn; eauto.
  - rewrite nth_error_set_nth_other in Hy by exact Hne. eapply j2_nn; eauto.
Qed.
Lemma PJ2_cancel_inst s oi : PJ2 s (cancel_inst s oi).
Proof.
  unfold cancel_inst. destruct oi as [i|]; [|apply PJ2_refl]. destruct (nth_error (insts s) i) as [x|] eqn:E; [|apply PJ2_refl].
  now apply (J2_seti s i x).
Qed.

(* timers change state or are added *)
Lemma J2_timers s s' : recs s' = recs s -> insts s' = insts s ->
  (forall t x, nth_error (timers s) t = Some x -> exists x', nth_error (timers s') t = Some x' /\ trec x' = trec x) -> PJ2 s s'.
Proof.
  intros E1 E2 HT [A B C D]. constructor; unfold getr in *; rewrite ?E1, ?E2; auto.
  intros r t Hr. destruct (A r t Hr) as (x & Hx & Tx). destruct (HT t x Hx) as (x' & Hx' & T'). exists x'. split; [exact Hx' | congruence].
Qed.
Lemma PJ2_stop_timer s ot : PJ2 s (stop_timer s ot).
Proof.
  unfold stop_timer. destruct ot as [t0|]; [|apply PJ2_refl]. destruct (nth_error (timers s) t0) as [x0|] eqn:E0; [|apply PJ2_refl].
  destruct (tst x0); try apply PJ2_refl. apply J2_timers; try reflexivity. intros t x Hx. cbn [timers set_timers].
  assert (Hl : t0 < length (timers s)) by (eapply nth_error_nth_len; eauto).
  destruct (Nat.eq_dec t t0) as [->|Hne].
  - rewrite nth_error_set_nth_same by exact Hl. eexists. split; [reflexivity|]. rewrite E0 in Hx. inversion Hx. reflexivity.
  - rewrite nth_error_set_nth_other by exact Hne. eauto.
Qed.
Lemma PJ2_tstate s t x v : nth_error (timers s) t = Some x -> PJ2 s (set_timers s (set_nth (timers s) t (with_tst x v))).
Proof.
  intros Hx. apply J2_timers; try reflexivity. intros t' x' Hx'. cbn [timers set_timers].
  assert (Hl : t < length (timers s)) by (eapply nth_error_nth_len; eauto).
  destruct (Nat.eq_dec t' t) as [->|Hne].
  - rewrite nth_error_set_nth_same by exact Hl. eexists. split; [reflexivity|]. rewrite Hx in Hx'. inversion Hx'. reflexivity.
  - rewrite nth_error_set_nth_other by exact Hne. eauto.
Qed.
Lemma PJ2_timers_app s tm : PJ2 s (set_timers s (timers s ++ [tm])).
Proof.
  apply J2_timers; try reflexivity. intros t x Hx. exists x. split; [|reflexivity]. cbn [timers set_timers].
  rewrite nth_error_app1; [exact Hx | eapply nth_error_nth_len; eauto].
Qed.

(* a record update *)
Lemma J2_setr s r y :
  rnil y = rnil (getr s r) ->
  (J2 s -> forall t, rretry y = Some t -> rexited y = true /\ exists x, nth_error (timers s) t = Some x /\ trec x = r) ->
  (J2 s -> rnil y = true -> rexited y = false) -> PJ2 s (setr s r y).
Proof.
  intros HN HT HQ HJ. pose proof (HT HJ) as HT'. pose proof (HQ HJ) as HQ'. destruct HJ as [A B C D].
  assert (GN : forall q, rnil (getr (setr s r y) q) = rnil (getr s q)) by (intros q; now apply (getr_setr_field rnil)).
  constructor; rewrite ?insts_setr; change (timers (setr s r y)) with (timers s).
  - intros q t Hq. destruct (Nat.lt_ge_cases r (length (recs s))) as [Hr|Hr]; [|rewrite getr_setr_oob in Hq by exact Hr; eauto].
    destruct (Nat.eq_dec q r) as [->|Hne]; [rewrite getr_setr_same in Hq by exact Hr; apply (HT' t Hq) | rewrite getr_setr_other in Hq by exact Hne; eauto].
  - intros q t Hq. destruct (Nat.lt_ge_cases r (length (recs s))) as [Hr|Hr]; [|rewrite getr_setr_oob in * by exact Hr; eauto].
    destruct (Nat.eq_dec q r) as [->|Hne]; [rewrite getr_setr_same in * by exact Hr; apply (HT' t Hq) | rewrite getr_setr_other in * by exact Hne; eauto].
  - intros i x Hx. rewrite GN. eauto.
  - intros q Hq. destruct (Nat.lt_ge_cases r (length (recs s))) as [Hr|Hr]; [|rewrite getr_setr_oob in * by exact Hr; eauto].
    destruct (Nat.eq_dec q r) as [->|Hne]; [rewrite getr_setr_same in * by exact Hr; now apply HQ' | rewrite getr_setr_other in * by exact Hne; eauto].
Qed.
(* ... that leaves exit status and pending retry alone, or drops the retry *)
Lemma J2_setr_keep s r y :
  rnil y = rnil (getr s r) -> rexited y = rexited (getr s r) -> (rretry y = rretry (getr s r) \/ rretry y = None) -> PJ2 s (setr s r y).
Proof.
  intros HN HE HR. apply J2_setr; [exact HN| |].
  - intros HJ t Ht. destruct HR as [E|E]; [|congruence]. rewrite E in Ht. rewrite HE. split; [eapply j2_re; eauto | eapply j2_rt; eauto].
  - intros HJ Hn. rewrite HE. apply (j2_nq _ HJ). congruence.
Qed.

Lemma PJ2_start s r c w f : PJ2 s (start_rec s r c w f).
Proof.
  unfold start_rec. set (x := getr s r). destruct (negb f && rsucc x || rnil x) eqn:Ec; [apply PJ2_refl|].
  destruct (negb f && is_some (rctx x) && negb (rexited x) && ctx_live s (rctx x)); [apply PJ2_refl|]. cbn zeta.
  apply orb_false_iff in Ec as [_ En].
  set (s2 := cancel_inst (stop_timer s (rretry x)) (rcancel x)).
  assert (P2 : PJ2 s s2) by (eapply PJ2_trans; [apply PJ2_stop_timer | apply PJ2_cancel_inst]).
  assert (X2 : getr s2 r = x) by (unfold s2; rewrite getr_cancel_inst, getr_stop_timer; reflexivity).
  eapply PJ2_trans; [exact P2|]. eapply PJ2_trans.
  - apply (J2_insts s2 (set_insts s2 (insts s2 ++ [{| irec := r; ikey := rkey x; ilin := rlin x; iwait := w; ipcv := IGate0; icanc := root_canc s c;
                                                      iexit := false; idata := rdata x; iroot := c |}]))); try reflexivity.
    intros HJ i y Hy. cbn [insts set_insts] in Hy. destruct (nth_error_app_inv _ _ _ _ Hy) as [G| ->]; [eapply j2_nn; eauto|].
    cbn [irec]. now rewrite X2.
  - apply J2_setr; rewrite ?getr_set_insts', ?X2; cbn [rnil rretry rexited with_started]; [reflexivity | intros; discriminate | intros; reflexivity].
Qed.

Lemma PJ2_new_record s k lin w : J s -> PJ2 s (fst (new_record s k lin w)).
Proof.
  intros HJ [A B C D]. destruct (new_record_frame s k lin w) as (F0 & F1 & _ & F3 & _ & _ & F6 & F7 & _ & _ & _ & _ & _ & _ & F14 & _ & F16).
  set (s' := fst (new_record s k lin w)) in *. set (n := snd (new_record s k lin w)) in *.
  assert (OOB : forall r, length (recs s) <= r -> r <> n -> getr s' r = rec0) by (intros r H1 H2; unfold getr; apply nth_overflow; rewrite F6; lia).
  constructor; rewrite ?F1, ?F3.
  - intros r t Hr. destruct (Nat.lt_ge_cases r (length (recs s))) as [Hl|Hl]; [rewrite F7 in Hr by exact Hl; eauto|].
    destruct (Nat.eq_dec r n) as [->|Hne]; [rewrite F14 in Hr; discriminate | rewrite OOB in Hr by assumption; discriminate].
  - intros r t Hr. destruct (Nat.lt_ge_cases r (length (recs s))) as [Hl|Hl]; [rewrite F7 in * by exact Hl; eauto|].
    destruct (Nat.eq_dec r n) as [->|Hne]; [rewrite F14 in Hr; discriminate | rewrite OOB in Hr by assumption; discriminate].
  - intros i x Hx. rewrite F7 by (eapply j_wi; eauto). eauto.
  - intros r Hr. destruct (Nat.lt_ge_cases r (length (recs s))) as [Hl|Hl]; [rewrite F7 in * by exact Hl; eauto|].
    destruct (Nat.eq_dec r n) as [->|Hne]; [exact F16 | rewrite OOB by assumption; reflexivity].
Qed.

Lemma PJ2_unremove s r : PJ2 s (unremove s r).
Proof.
  unfold unremove. destruct (rremove (getr s r)) eqn:E; [|apply PJ2_refl]. eapply PJ2_trans; [apply PJ2_stop_timer|].
  apply J2_setr_keep; rewrite getr_stop_timer; cbn [rnil rexited rretry with_remove]; auto.
Qed.
Lemma PJ2_setr_ctx s r y : rctxonly (getr s r) y -> PJ2 s (setr s r y).
Proof. intros (_ & _ & _ & _ & _ & E & _ & _ & _ & Rt & Rn). apply J2_setr_keep; auto. Qed.
Lemma PJ2_kmap s m : PJ2 s (set_kmap s m). Proof. j2ext. Qed.
Lemma PJ2_remove_now s r : PJ2 s (remove_now s r).
Proof.
  apply (remove_now_parts PJ2 PJ2_trans PJ2_cancel_inst (fun s r => PJ2_stop_timer s _)).
  - intros s0 r0. apply J2_setr_keep; cbn [rnil rexited rretry with_retry]; auto.
  - intros; j2ext.
Qed.
Lemma PJ2_arm_remove s r : PJ2 s (setr (set_timers s (timers s ++ [rm_timer s r])) r (with_remove (getr s r) (Some (length (timers s))))).
Proof. eapply PJ2_trans; [apply PJ2_timers_app|]. apply J2_setr_keep; cbn [rnil rexited rretry with_remove]; auto. Qed.

Lemma PJ2_bookkeep s i : PJ2 s (bookkeep s i).
Proof.
  unfold bookkeep. destruct (nth_error (insts s) i) as [x|] eqn:Ex; [|apply PJ2_refl]. destruct (ipcv x) eqn:Ep; try apply PJ2_refl.
  set (s0 := seti s i (with_pc x IDone)). assert (G0 : PJ2 s s0) by (now apply (J2_seti s i x)).
  set (r := irec x). set (y := getr s r).
  destruct (rctx y) as [j|]; [|exact G0]. destruct (Nat.eqb j i); [|exact G0].
  assert (Hi0 : forall S, insts S = insts s0 -> nth_error (insts S) i = Some (with_pc x IDone)).
  { intros S E. rewrite E. unfold s0. rewrite insts_seti. apply nth_error_set_nth_same. eapply nth_error_nth_len; eauto. }
  assert (G : forall S a b, PJ2 s S -> getr S r = y -> insts S = insts s0 ->
                (forall t, a = Some t -> rretry y = Some t \/ exists z, nth_error (timers S) t = Some z /\ trec z = r) ->
                PJ2 s (set_cblog (setr S r (with_exit y o a b)) (cblog (setr S r (with_exit y o a b)) ++ [(rkey y, rdata y, o)]))).
  { intros S a b HS Hy Hin Ha. apply (PJ2_trans _ S); [exact HS|]. apply (PJ2_trans _ (setr S r (with_exit y o a b))); [|j2ext].
    apply J2_setr; rewrite ?Hy; cbn [rnil rretry rexited with_exit].
    - reflexivity.
    - intros HJ t Ht. split; [reflexivity|]. destruct (Ha t Ht) as [E|E]; [|exact E]. apply (j2_rt _ HJ r t). now rewrite Hy.
    - intros HJ Hn. exfalso. pose proof (j2_nn _ HJ i _ (Hi0 S Hin)) as N. cbn [irec with_pc] in N. fold r in N. rewrite Hy in N. congruence. }
  destruct (script s0) as [l|]; [|apply G; [exact G0 | reflexivity | reflexivity | intros t Ht; now left]].
  assert (G' : PJ2 s (stop_timer s0 (rretry y))) by (eapply PJ2_trans; [exact G0 | apply PJ2_stop_timer]).
  assert (Y' : getr (stop_timer s0 (rretry y)) r = y) by (rewrite getr_stop_timer; reflexivity).
  assert (I' : insts (stop_timer s0 (rretry y)) = insts s0) by apply stop_timer_frame.
  destruct (is_nil o); [apply G; [exact G' | exact Y' | exact I' | intros; discriminate]|].
  destruct (in_map _ _); [|apply G; [exact G' | exact Y' | exact I' | intros; discriminate]].
  destruct (nth_error l _); [|apply G; [exact G' | exact Y' | exact I' | intros; discriminate]].
  apply G.
  - eapply PJ2_trans; [exact G' | apply PJ2_timers_app].
  - unfold getr in *. cbn [recs set_timers]. exact Y'.
  - exact I'.
  - intros t Ht. inversion Ht; subst t. right. eexists. cbn [timers set_timers]. rewrite nth_error_app2, Nat.sub_diag by lia. split; reflexivity.
Qed.

Lemma PJ2_advance s d : PJ2 s (advance s d).
Proof.
  unfold advance. apply J2_timers; try reflexivity. intros t x Hx. cbn [timers set_timers set_clock]. rewrite nth_error_map, Hx. cbn [option_map].
  eexists. split; [reflexivity|]. unfold fire. destruct (tst x); [destruct (N.leb _ _)| | |]; reflexivity.
Qed.
Lemma PJ2_cancel_root s c : PJ2 s (cancel_root s c).
Proof.
  unfold cancel_root. destruct (Nat.eqb c 0); [apply PJ2_refl|]. apply J2_insts; try reflexivity.
  intros HJ i x' Hx'. cbn [insts set_croots set_insts] in Hx'. rewrite nth_error_map in Hx'.
  destruct (nth_error (insts s) i) as [x|] eqn:Hx; [|discriminate]. cbn [option_map] in Hx'. inversion Hx'; subst x'.
  pose proof (j2_nn _ HJ i x Hx). destruct (Nat.eqb (iroot x) c); exact H.
Qed.

(* together with the invariant of ProofsTimers.v *)
Definition PJJ (s s' : st) : Prop := J s -> J s' /\ (J2 s -> J2 s').
Lemma PJJ_mk s s' : PJ s s' -> (J s -> PJ2 s s') -> PJJ s s'.
Proof. intros A B HJ. split; [apply A, HJ | apply B, HJ]. Qed.
Lemma PJJ_refl s : PJJ s s. Proof. intros H. split; auto. Qed.
Lemma PJJ_trans s s1 s2 : PJJ s s1 -> PJJ s1 s2 -> PJJ s s2.
Proof. intros A B HJ. destruct (A HJ) as [J1 A2]. destruct (B J1) as [J2' B2]. split; auto. Qed.

Theorem PJJ_step s e : PJJ s (step repaired s e).
Proof.
  apply (V_step PJJ PJJ_refl PJJ_trans).
  - intros s0 oi. apply PJJ_mk; [apply PJ_cancel_inst | intros _; apply PJ2_cancel_inst].
  - intros s0 k r c w f H _. apply PJJ_mk; [now apply (PJ_start s0 k) | intros _; apply PJ2_start].
  - intros s0 k _. apply PJJ_mk; [eapply PJ_trans; [apply PJ_new_record | jext] | intros HJ; eapply PJ2_trans; [now apply PJ2_new_record | j2ext]].
  - intros s0 k r lin w _ _. apply PJJ_mk; [apply PJ_new_record | intros HJ; now apply PJ2_new_record].
  - intros s0 k r H. apply PJJ_mk; [now apply (PJ_unremove s0 k) | intros _; apply PJ2_unremove].
  - intros s0 r y H. apply PJJ_mk; [now apply PJ_setr_ctx | intros _; now apply PJ2_setr_ctx].
  - intros s0 k r _. apply PJJ_mk; [apply PJ_remove_now | intros _; apply PJ2_remove_now].
  - intros s0 k r H1 H2. apply PJJ_mk; [now apply (PJ_arm_remove s0 k) | intros _; apply PJ2_arm_remove].
  - intros s0 i x p H. apply PJJ_mk; [now apply (J_seti s0 i x) | intros _; now apply (J2_seti s0 i x)].
  - intros s0 i x o H. apply PJJ_mk; [now apply (J_seti s0 i x) | intros _; now apply (J2_seti s0 i x)].
  - intros s0 i. apply PJJ_mk; [apply PJ_bookkeep | intros _; apply PJ2_bookkeep].
  - intros s0 t x H1 H2 H3 H4 H5. apply PJJ_mk; [now apply PJ_cb_remove|]. intros _.
    eapply PJ2_trans; [apply (PJ2_tstate s0 t x TRan H1)|]. eapply PJ2_trans; [apply PJ2_stop_timer|].
    apply J2_setr_keep; cbn [rnil rexited rretry with_remove]; auto.
  - intros s0 t x H1 H2 H3 H4. apply PJJ_mk; [now apply PJ_cb_stale | intros _; now apply PJ2_tstate].
  - intros s0 t x H1 H2 H3. apply PJJ_mk; [now apply PJ_cb_retry | intros _; now apply PJ2_tstate].
  - intros. apply PJJ_mk; [jext | intros _; j2ext].
  - intros. apply PJJ_mk; [jext | intros _; j2ext].
  - intros. apply PJJ_mk; [jext | intros _; j2ext].
  - intros. apply PJJ_mk; [apply PJ_advance | intros _; apply PJ2_advance].
  - intros. apply PJJ_mk; [apply PJ_cancel_root | intros _; apply PJ2_cancel_root].
  - intros. apply PJJ_mk; [jext | intros _; j2ext].
Qed.
Lemma J2_init dl sc : J2 (init dl sc).
Proof.
  constructor; cbn [init recs insts timers].
  - intros r t H. unfold getr in H. cbn in H. destruct r; discriminate.
  - intros r t H. unfold getr in H. cbn in H. destruct r; discriminate.
  - intros [|i] x H; discriminate.
  - intros r H. unfold getr in H. cbn in H. destruct r; discriminate.
Qed.
Theorem run_J2 dl sc es : J2 (run repaired (init dl sc) es).
Proof.
  assert (G : J (run repaired (init dl sc) es) /\ J2 (run repaired (init dl sc) es)); [|apply G].
  unfold run. apply fold_inv; [|split; [apply J_init | apply J2_init]]. intros s e [A B]. destruct (PJJ_step s e A) as [A' B']. split; auto.
Qed.
Lemma Reach_J2 s : Reach s -> J2 s. Proof. intros (dl & sc & es & ->). apply run_J2. Qed.
